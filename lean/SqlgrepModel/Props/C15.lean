import SqlgrepModel.Lemmas.AggSummaryTable
import SqlgrepModel.Lemmas.AggPermSafe
import SqlgrepModel.Lemmas.AggSplitSummaries
import SqlgrepModel.Lemmas.RealSums
import SqlgrepModel.Lemmas.ValueDecEq
/-
C15 — order-insensitive aggregates ignore line order and how the input is split.

Built on the C04 refinement: the engine's table for an input is the specification's table (`Spec/Agg.lean`), and in
the specification every cell is a function of its group's row list. Here:

  * `aggregate_multiset_function`  COUNT, COUNT(c), COUNT(DISTINCT c), SUM, AVG, STDDEV, VARIANCE, MIN, MAX,
        PERCENTILE, BOOL_AND, BOOL_OR are functions of the MULTISET of the group's argument values;
  * `agg_perm_invariant`           hence the specification's table is the same for every permutation of the rows;
  * `engine_perm_invariant`        and so is the table the engine shows (through the refinement);
  * `batch_run_ignores_line_order` and what the executed batch run `runBatch` prints for a file and any permutation of it;
  * `deviation_class_ignores_line_order` the known deviation classes of C04 (D10, D15) are a function of the multiset of the
        rows for these statements — so the theorems above ask for "outside D10 / D15" for ONE of the two inputs only;
  * `concat_*`                     the result over a concatenation is the key-wise combination of the parts: the groups
        are the union, a group's rows are its rows in part one followed by its rows in part two, counts and sums add,
        minima and maxima combine;
  * `agg_concat_merge` / `agg_concat_merge_all` the same at table level (all aggregates the property names: through keyed
        summaries); `agg_concat_merge_summaries`, `table_of_concat_is_merge_of_part_summaries` with the summaries NAMED:
        `partSummaries O q rᵢ` is what part i remembers, the summaries of `r₁ ++ r₂` are `mergeSummaries q S₁ S₂`, every
        table is `tableOfSummaries` of its summaries;
        WHAT IS MERGED ARE THE PARTS' SUMMARIES — per group and aggregate: count, sum, sum of squares, distinct set, sorted
        multiset, extreme — taken BEFORE HAVING, transforms, DISTINCT and LIMIT, not the parts' printed tables. With HAVING the
        parts' RESULT tables do not determine the whole (`… WHERE v > 0 GROUP BY k HAVING COUNT(*) > 1`: a group with one row in
        each part is printed by neither part and is in the result of the whole;
        `Props/PipelineLines.lean` `having_parts_do_not_determine_the_whole`, kernel-evaluated on the program model): the
        sentence's "key-wise combination of the results over each part" is proved at RESULT level for statements without HAVING /
        transforms made of COUNT, SUM(INT), MIN, MAX (`agg_concat_merge`) and at SUMMARY level for everything else;
  * which cuts are covered: the run-level theorems ask each part to be outside D10 (`= some (_, "")`); for statements with
        COUNT(*) every cut is (`deviation_class_empty_of_count_star`, `batch_run_of_split_all_cuts_of_count_star`); see the
        section "which cuts the split theorems cover";
  * `batch_run_of_split_is_merge_of_summaries`, `batch_run_of_concat_is_merge_of_summaries` at the level of the executed
        batch run: what `runBatch` prints for `l₁ ++ l₂` (one file, or the two files `[l₁, l₂]`) is the table of the merged
        per-part summaries (`Props/PipelineLines.lean` `split_input_is_merge_of_summaries` carries it to `runText`);
  * a complete instance at the end: GROUP BY with COUNT(*), SUM, AVG, VARIANCE, MIN, MAX, PERCENTILE, COUNT(DISTINCT), INT
        and REAL arguments, `SplitSafe` proved for every group key (`splitSafe_of_ints`, `splitSafeInputsB_sound`), every
        hypothesis discharged, summaries and tables evaluated by the kernel.

The hypotheses are stated, never hidden — and ONE of them the property does NOT grant:
  * `SumsOrderFree`, INT / INTERVAL clause (`intOk`): the partial sums stay within range in EVERY order. The sentence grants an
    exception for REAL sums only; for INT sums whose exact total fits while a partial sum in some order does not, the code
    (checked addition in arrival order) reports an overflow in one order and prints the total in another: that is the open
    finding **D71** (exhibited by the extreme-INT stream of `./check C15`), and every theorem below that takes `SumsOrderFree`
    (through `PermSafe` / `SplitSafe`) is about the inputs outside it. For REAL addends: `RealAddLaws` (`Lemmas/AggPerm.lean`) — the model's `F64.add` satisfies
    `0.0 + y = y` and `x + y = y + x` on the addends and `(A + B) + C = A + (B + C)` on the partial sums of sub-multisets
    of the addends. That the REAL sum does not depend on the order, and that the sums of two parts add up to the sum of
    the whole, is PROVED from these laws; and the laws are PROVED (`Lemmas/RealSums.lean` `realAddLaws_of_exactSums`) for
    addends whose sums are exactly representable — `ExactSums rs`, decidable: every addend is a finite REAL other than
    `-0.0` and the exact sum of every sub-multiset of the addends is a REAL (`real_sum_order_free`, `concat_sum_adds_real`);
  * `ValuesExact` for MIN/MAX/PERCENTILE: equal in the value order ⇒ identical (no `0.0` next to `-0.0`; the harness
    excludes them too), since of equal extremes the first is shown;
  * group keys exact (implied by the specification answering: it declines array keys, `-0.0` and non-canonical NaN keys).

**Nothing is partial any more.** Until `Model/FloatArith.lean` `F64.add` was Lean's opaque hardware `Float`: no equation
about a REAL sum could be proved and `RealAddLaws` was an assumption about IEEE-754 addition. `F64.add` is now exact integer
arithmetic on the bit pattern with correct rounding (compared with the hardware on every case of every run), so IEEE addition's
"the exact sum is returned when it is a REAL" is a theorem (`F64.addX_exact`), `RealAddLaws` follows from `ExactSums`, and the
kernel evaluates REAL sums (`decide +kernel`, examples at the end). `ExactSums` is what the property's "sums exactly
representable" grants; where a partial sum is rounded the order can show in the last bit and the property says nothing.
The law-based forms (`real_sum_order_free_of_laws`, `concat_sum_adds_real_of_laws`) are kept: `SumsOrderFree` / `SplitSafe` are
stated with `RealAddLaws`, which `ExactSums` implies (`sumsOrderFree_real_of_exactSums`).
-/
namespace Sqlgrep.Props.C15
open Sqlgrep Sqlgrep.Value Sqlgrep.Spec.Agg

/-- **each order-insensitive aggregate is a function of the multiset of its group's argument values.** -/
theorem aggregate_multiset_function (k : AggKind) {vs₁ vs₂ : List Value} (h : vs₁.Perm vs₂) (hk : orderInsensitive k = true)
    (hex : usesOrder k = true → ValuesExact (nonNull vs₁)) (hsum : usesSums k = true → SumsOrderFree (nonNull vs₁)) :
    aggregate k vs₁ = aggregate k vs₂ :=
  aggregate_perm k h hk hex hsum

/-- **`agg_perm_invariant`.** For every statement (any GROUP BY, WHERE, HAVING, DISTINCT, LIMIT, transforms) whose
aggregates are order-insensitive, and every two inputs that are permutations of each other, the specification's
result table is the same — under `PermSafe` (the hypotheses listed in the header, per group). -/
theorem agg_perm_invariant {O : Oracles} {q : AggStmt} {rows₁ rows₂ : List Env} (h : rows₁.Perm rows₂)
    (hsafe : ∀ keyed, keyedRows O q rows₁ = some keyed → PermSafe O q keyed) :
    table O q rows₁ = table O q rows₂ :=
  table_perm h hsafe

/-- the admitted rows of a permuted input are a permutation of the admitted rows (WHERE and the key are per row) -/
theorem keyed_rows_permute (O : Oracles) (q : AggStmt) {rows₁ rows₂ : List Env} (h : rows₁.Perm rows₂) :
    OptPerm (keyedRows O q rows₁) (keyedRows O q rows₂) := keyedRows_perm O q h

/-- **the known deviation classes of C04 (D10, D15) do not depend on line order** for the statements of C15: D15 looks at
the first value of ARRAY_AGG in a group (an order-sensitive aggregate, excluded here), D10 at whether some aggregate of a
group has an argument value at all / a non-NULL one — a property of the multiset of the group's rows. No hypothesis on
keys, values or sums. (With ARRAY_AGG it is false: `deviation_class_of_array_agg_depends_on_order` below.) -/
theorem deviation_class_ignores_line_order {O : Oracles} {q : AggStmt}
    (hOI : ∀ kind ∈ slotKinds q, orderInsensitive kind = true) {rows₁ rows₂ : List Env} (h : rows₁.Perm rows₂) :
    deviationClass O q rows₁ = deviationClass O q rows₂ :=
  deviationClass_perm hOI h

/-- **the engine's table ignores line order**: the engine run (every row through `execute_update`, then `execute_result`
+ LIMIT) over an input and over any permutation of it both succeed and show the same table, whenever the
specification fixes the outcome of the first and the first input is outside the known deviation classes of C04 (D10, D15)
— the permuted input is then outside them as well (`deviation_class_ignores_line_order`). -/
theorem engine_perm_invariant {O : Oracles} {q : AggStmt} (hwf : StmtWF q) {rows₁ rows₂ : List Env} (h : rows₁.Perm rows₂)
    (hsafe : ∀ keyed, keyedRows O q rows₁ = some keyed → PermSafe O q keyed)
    {t : List (List Value)} (hspec : table O q rows₁ = some t)
    (hc₁ : deviationClass O q rows₁ = "") :
    (aggRun O q rows₁ {}).bind (fun st => finalResult O q { agg := st }) =
      (aggRun O q rows₂ {}).bind (fun st => finalResult O q { agg := st }) := by
  have hc₂ : deviationClass O q rows₂ = "" := by rw [deviationClass_perm_of_safe h hsafe hspec]; exact hc₁
  rw [engine_refines_spec_total hwf rows₁ hspec hc₁]
  rw [engine_refines_spec_total hwf rows₂ (by rw [← table_perm h hsafe]; exact hspec) hc₂]

/-- **the executed batch run ignores line order** (`runBatch` = the `FileExecutor` loop the driver runs): for an aggregate
statement without join and two files whose lines are permutations of each other, the printed table and the line count
are the same — whenever the specification answers for the first file with an empty deviation class (C04) and `PermSafe`
holds for its admitted rows -/
theorem batch_run_ignores_line_order {O : Oracles} {qy : Query} {q : AggStmt} (hq : qy.stmt = .aggregate q) (hwf : StmtWF q)
    (hj : qy.join = none) (joined : List FileLine) {l₁ l₂ : List FileLine} (hp : l₁.Perm l₂)
    (hsafe : ∀ keyed, keyedRows O q (envsOf qy.table l₁) = some keyed → PermSafe O q keyed)
    {ro : RunOut} (h₁ : Spec.Agg.batch O qy q joined [l₁] = some (ro, "")) :
    runBatch O qy joined [l₁] none = runBatch O qy joined [l₂] none :=
  runBatch_perm_invariant hq hwf hj joined hp hsafe h₁

/-! ### input split: the result over `r₁ ++ r₂` is the key-wise combination of the results over `r₁` and `r₂` -/

/-- the admitted rows of a concatenation are the admitted rows of the parts, in order -/
theorem concat_rows (O : Oracles) (q : AggStmt) (r₁ r₂ : List Env) {k₁ k₂ : List (List Value × Env)}
    (h₁ : keyedRows O q r₁ = some k₁) (h₂ : keyedRows O q r₂ = some k₂) :
    keyedRows O q (r₁ ++ r₂) = some (k₁ ++ k₂) := keyedRows_append O q r₁ r₂ h₁ h₂

/-- **the set of groups is the union** (and each key occurs once, ascending: `Props.C04.keys_ascending_each_once`) -/
theorem concat_groups_union {ks₁ ks₂ : List (List Value)} (hex : KeysExact (ks₁ ++ ks₂)) (k : List Value) :
    k ∈ distinctKeys (ks₁ ++ ks₂) ↔ k ∈ distinctKeys ks₁ ∨ k ∈ distinctKeys ks₂ := by
  have hex₁ : KeysExact ks₁ := fun a ha b hb => hex a (by simp [ha]) b (by simp [hb])
  have hex₂ : KeysExact ks₂ := fun a ha b hb => hex a (by simp [ha]) b (by simp [hb])
  rw [distinctKeys_mem_iff hex, distinctKeys_mem_iff hex₁, distinctKeys_mem_iff hex₂, List.mem_append]

/-- a group's rows in the concatenation: its rows in part one, then its rows in part two; likewise the argument values
of every aggregate — so every cell of the whole is a function of the two parts' groups -/
theorem concat_group_rows {O : Oracles} {q : AggStmt} (key : List Value) (k₁ k₂ : List (List Value × Env)) (kind : AggKind)
    {v₁ v₂ : List Value} (h₁ : arguments O q kind (rowsOfKey key k₁) = some v₁) (h₂ : arguments O q kind (rowsOfKey key k₂) = some v₂) :
    rowsOfKey key (k₁ ++ k₂) = rowsOfKey key k₁ ++ rowsOfKey key k₂ ∧
    arguments O q kind (rowsOfKey key (k₁ ++ k₂)) = some (v₁ ++ v₂) := by
  refine ⟨rowsOfKey_append key k₁ k₂, ?_⟩
  rw [rowsOfKey_append]
  exact arguments_append h₁ h₂

/-- **counts add**: COUNT(*) -/
theorem concat_count_star_adds (v₁ v₂ : List Value) :
    aggregate (.count none false) (v₁ ++ v₂) = some (.int (v₁.length + v₂.length)) := by
  simp [aggregate, List.length_append]

/-- **counts add**: COUNT(c) -/
theorem concat_count_adds (c : String) (v₁ v₂ : List Value) :
    aggregate (.count (some c) false) (v₁ ++ v₂) = some (.int ((nonNull v₁).length + (nonNull v₂).length)) := by
  simp [aggregate, nonNull_append, List.length_append]

/-- **sums add** (INT): NULL is neutral, otherwise the partial sums add — provided no partial sum of the whole
overflows (else the engine reports an error, which is outside the property) -/
theorem concat_sum_adds_int (e : Expr) (v₁ v₂ : List Value) (is₁ is₂ : List Int)
    (h₁ : nonNull v₁ = is₁.map Value.int) (h₂ : nonNull v₂ = is₂.map Value.int)
    (hok : partialSumsOk inI64 0 (is₁ ++ is₂) = true) :
    aggregate (.sum e) (v₁ ++ v₂) = some (mergeSum (intSumValue is₁) (intSumValue is₂)) := by
  simp only [aggregate, nonNull_append, h₁, h₂, ← List.map_append]
  rw [sumOf_ints _ hok, intSumValue_append]

/-- **sums add** (REAL), from the laws of the addition on the addends of both parts -/
theorem concat_sum_adds_real_of_laws (rs₁ rs₂ : List Nat) (hne : rs₂ ≠ []) (hlaws : RealAddLaws (rs₁ ++ rs₂)) :
    Value.real (realSum (rs₁ ++ rs₂)) = mergeSum (.real (realSum rs₁)) (.real (realSum rs₂)) := by
  simp only [mergeSum]
  rw [realSum_append_of_laws hlaws hne]

/-- **sums add** (REAL): when the sums of the addends of both parts are exactly representable (`ExactSums`), the sum of the
whole is the first part's sum plus the second part's sum -/
theorem concat_sum_adds_real (rs₁ rs₂ : List Nat) (hne : rs₂ ≠ []) (hex : ExactSums (rs₁ ++ rs₂)) :
    Value.real (realSum (rs₁ ++ rs₂)) = mergeSum (.real (realSum rs₁)) (.real (realSum rs₂)) :=
  concat_sum_adds_real_of_laws rs₁ rs₂ hne (realAddLaws_of_exactSums hex)

/-- **REAL sums ignore the order**, from the laws (zero neutral and commutativity on the addends, associativity on the
partial sums at hand). The proof walks through the swaps that generate the permutation; in front of two swapped addends
stands a partial sum of a sub-multiset, where the laws apply. -/
theorem real_sum_order_free_of_laws {rs l : List Nat} (hlaws : RealAddLaws rs) (hp : l.Perm rs) : realSum l = realSum rs :=
  realSum_perm_of_laws hlaws hp

/-- **REAL sums ignore the order**: when the sums of the addends are exactly representable (`ExactSums`: finite addends
other than `-0.0`, every sub-multiset sum a REAL), every order of adding them up — IEEE-754 addition, each step correctly
rounded — gives the same REAL, bit for bit -/
theorem real_sum_order_free {rs l : List Nat} (hex : ExactSums rs) (hp : l.Perm rs) : realSum l = realSum rs :=
  real_sum_order_free_of_laws (realAddLaws_of_exactSums hex) hp

/-- the REAL clauses of `SumsOrderFree` from `ExactSums` of the addends and of their squares -/
theorem sumsOrderFree_real_of_exactSums {rs : List Nat} (h : ExactSums rs) (hsq : ExactSums (rs.map (fun x => F64.mul x x))) :
    RealAddLaws rs ∧ RealAddLaws (rs.map (fun x => F64.mul x x)) :=
  ⟨realAddLaws_of_exactSums h, realAddLaws_of_exactSums hsq⟩

/-- the derivation itself, for ANY addition obeying the laws on the values at hand (so it can be instantiated) -/
theorem sum_order_free_of_laws {add : Nat → Nat → Nat} {z0 : Nat} {rs l : List Nat} (hlaws : AddLaws add z0 rs) (hp : l.Perm rs) :
    l.foldl add z0 = rs.foldl add z0 := fsum_perm_of_laws hlaws hp

/-- and the split, for any addition obeying the laws -/
theorem sum_split_of_laws {add : Nat → Nat → Nat} {z0 : Nat} {r₁ r₂ : List Nat} (hlaws : AddLaws add z0 (r₁ ++ r₂)) (hne : r₂ ≠ []) :
    (r₁ ++ r₂).foldl add z0 = add (r₁.foldl add z0) (r₂.foldl add z0) := fsum_append_of_laws hlaws hne

/-- **minima combine**: MIN of the whole is the lesser of the two parts' minima (the first part's on a tie) -/
theorem concat_min_combines (x : Value) (xs : List Value) (y : Value) (ys : List Value) :
    extreme true ((x :: xs) ++ (y :: ys)) =
      if Value.cmp (extreme true (y :: ys)) (extreme true (x :: xs)) == .lt then extreme true (y :: ys) else extreme true (x :: xs) := by
  have := extreme_append true x xs y ys
  simpa using this

/-- **maxima combine** -/
theorem concat_max_combines (x : Value) (xs : List Value) (y : Value) (ys : List Value) :
    extreme false ((x :: xs) ++ (y :: ys)) =
      if Value.cmp (extreme false (y :: ys)) (extreme false (x :: xs)) == .gt then extreme false (y :: ys) else extreme false (x :: xs) := by
  have := extreme_append false x xs y ys
  simpa using this

/-- **`agg_concat_merge`.** For every statement made of key columns, COUNT(*), COUNT(c), SUM over INT, MIN and MAX (any
GROUP BY, any WHERE; no arithmetic wrapper, HAVING, DISTINCT, LIMIT — `MergeableStmt`) and every two inputs `r₁`, `r₂`:
whenever the specification fixes the three tables, the table over `r₁ ++ r₂` is the key-wise combination `mergeKeyed`
of the tables over `r₁` and `r₂` — the set of groups is the union (ascending, each once), a group present in both
parts combines cell by cell (`mergeCell`: counts and sums add with NULL neutral, minima and maxima combine with NULL
neutral, key columns stay), a group present in one part keeps its row. Without HAVING the parts' RESULT tables are their
summaries, which is why this result-level form exists for these statements only (see `having_parts_do_not_determine_the_whole`).
Tables are taken with the group key attached, and the keyed tables are PINNED: `Tᵢ` is `keyedTable O q kᵢ` — the
specification's rows of part i, each labelled with ITS group's key, `kᵢ` the admitted rows of part i — and `T` that of
`k₁ ++ k₂`; `T.map (·.2)`, `Tᵢ.map (·.2)` are the tables themselves. (The label matters when the key is not in the select
list: rows of different groups need not be distinguishable by their cells.) `hint` = the SUM arguments are INT (for REAL
the property's exactness proviso would be needed: see `concat_sum_adds_real`). -/
theorem agg_concat_merge {O : Oracles} {q : AggStmt} (hm : MergeableStmt q) (r₁ r₂ : List Env) {t t₁ t₂ : List (List Value)}
    (h : table O q (r₁ ++ r₂) = some t) (h₁ : table O q r₁ = some t₁) (h₂ : table O q r₂ = some t₂)
    (hint : ∀ k₁ k₂, keyedRows O q r₁ = some k₁ → keyedRows O q r₂ = some k₂ →
      ∀ k, ∀ item ∈ q.items, ∀ e v1 v2, item.kind = .sum e → arguments O q item.kind (rowsOfKey k k₁) = some v1 →
        arguments O q item.kind (rowsOfKey k k₂) = some v2 → (ints (nonNull v1)).isSome ∧ (ints (nonNull v2)).isSome) :
    ∃ k₁ k₂ T T₁ T₂, keyedRows O q r₁ = some k₁ ∧ keyedRows O q r₂ = some k₂ ∧ keyedRows O q (r₁ ++ r₂) = some (k₁ ++ k₂) ∧
      keyedTable O q (k₁ ++ k₂) = some T ∧ keyedTable O q k₁ = some T₁ ∧ keyedTable O q k₂ = some T₂ ∧
      t = T.map (·.2) ∧ t₁ = T₁.map (·.2) ∧ t₂ = T₂.map (·.2) ∧ T = mergeKeyed q T₁ T₂ := by
  obtain ⟨k, T, hk, hex, hT, ht⟩ := keyed_of_table hm h
  obtain ⟨k₁, T₁, hk₁, _, hT₁, ht₁⟩ := keyed_of_table hm h₁
  obtain ⟨k₂, T₂, hk₂, _, hT₂, ht₂⟩ := keyed_of_table hm h₂
  have happ := keyedRows_append O q r₁ r₂ hk₁ hk₂
  have hkk : k = k₁ ++ k₂ := by rw [hk] at happ; exact Option.some.inj happ
  subst hkk
  exact ⟨k₁, k₂, T, T₁, T₂, hk₁, hk₂, happ, hT, hT₁, hT₂, ht, ht₁, ht₂,
    keyedTable_concat hm k₁ k₂ hex hT hT₁ hT₂ (hint k₁ k₂ hk₁ hk₂)⟩

/-- **`agg_concat_merge` for all the aggregates the property names.** For every statement whose aggregates are COUNT(*),
COUNT(c), COUNT(DISTINCT c), SUM, AVG, STDDEV, VARIANCE, MIN, MAX, PERCENTILE, BOOL_AND, BOOL_OR — any GROUP BY, WHERE,
HAVING (incl. hidden aggregates), arithmetic wrappers, DISTINCT, LIMIT — and every two inputs: the tables over `r₁`, `r₂`
and `r₁ ++ r₂` are `tableOfSummaries` of keyed summaries `S₁`, `S₂` and of their key-wise combination: the groups are the
union; in a group present in both parts (`combine`) counts add, the sets of distinct values unite, sums and sums of
squares add with NULL neutral (AVG / STDDEV / VARIANCE through their (sum, sum of squares, count) components), minima and
maxima combine, conjunctions / disjunctions combine, PERCENTILE's sorted multisets merge; a group present in one part
keeps its summaries. Provisos (`SplitSafe`, per group): for REAL addends (and their squares) `RealAddLaws` on the addends
of both parts together — an assumption about IEEE addition, see the header; vacuous for non-REAL sums; PERCENTILE values
are exact (no `0.0` next to `-0.0`). `StmtWF` holds for every lowered
statement (`Props.Pipeline.lowered_aggregate_is_wellformed`).
NOTE what is combined: `S₁`, `S₂` are the parts' keyed SUMMARIES — one per group that has a row passing WHERE, BEFORE HAVING,
transforms, DISTINCT, LIMIT — not the parts' result tables `t₁`, `t₂`; `tableOfSummaries` applies HAVING etc. afterwards. With
HAVING (or LIMIT / DISTINCT) `t₁` and `t₂` do NOT determine `t`: a group that fails HAVING in both parts can pass it in the whole
(`Props/PipelineLines.lean` `having_parts_do_not_determine_the_whole`). The result-level statement is `agg_concat_merge`. -/
theorem agg_concat_merge_all {O : Oracles} {q : AggStmt} (hwf : StmtWF q)
    (hOI : ∀ kind ∈ slotKinds q, orderInsensitive kind = true) (r₁ r₂ : List Env) {t t₁ t₂ : List (List Value)}
    (h : table O q (r₁ ++ r₂) = some t) (h₁ : table O q r₁ = some t₁) (h₂ : table O q r₂ = some t₂)
    (hsafe : ∀ k₁ k₂, keyedRows O q r₁ = some k₁ → keyedRows O q r₂ = some k₂ →
      ∀ k, SplitSafe O q (rowsOfKey k k₁) (rowsOfKey k k₂)) :
    ∃ S₁ S₂, tableOfSummaries O q S₁ = some t₁ ∧ tableOfSummaries O q S₂ = some t₂ ∧
      tableOfSummaries O q (mergeG (combineS (slotList q)) S₁ S₂) = some t :=
  table_concat_merge_all hwf hOI r₁ r₂ h h₁ h₂ hsafe

/-- **`agg_concat_merge_all` with the summaries NAMED.** Same statements, inputs and provisos. `partSummaries O q r`
(`Lemmas/AggSplitSummaries.lean`) = `keyedSummaries` of the rows of `r` that pass WHERE: what a part has to remember — per
group, one summary per aggregate. Then: the admitted rows of `r₁ ++ r₂` are those of `r₁` followed by those of `r₂`; the
keyed summaries of the whole ARE the key-wise combination `mergeSummaries q S₁ S₂` (= `mergeG (combineS (slotList q)) S₁ S₂`)
of the parts' keyed summaries `S₁`, `S₂`; and the three tables are `tableOfSummaries` of `S₁`, `S₂` and of the combination.
The three `= some` hypotheses stay: the table of the whole can exist while a part's does not (an INT partial sum of the
second part alone may leave the range although, after the first part's sum, none does) and the other way round. -/
theorem agg_concat_merge_summaries {O : Oracles} {q : AggStmt} (hwf : StmtWF q)
    (hOI : ∀ kind ∈ slotKinds q, orderInsensitive kind = true) (r₁ r₂ : List Env) {t t₁ t₂ : List (List Value)}
    (h : table O q (r₁ ++ r₂) = some t) (h₁ : table O q r₁ = some t₁) (h₂ : table O q r₂ = some t₂)
    (hsafe : ∀ k₁ k₂, keyedRows O q r₁ = some k₁ → keyedRows O q r₂ = some k₂ →
      ∀ k, SplitSafe O q (rowsOfKey k k₁) (rowsOfKey k k₂)) :
    ∃ k₁ k₂ S₁ S₂, keyedRows O q r₁ = some k₁ ∧ keyedRows O q r₂ = some k₂ ∧ keyedRows O q (r₁ ++ r₂) = some (k₁ ++ k₂) ∧
      keyedSummaries O q k₁ = some S₁ ∧ keyedSummaries O q k₂ = some S₂ ∧
      keyedSummaries O q (k₁ ++ k₂) = some (mergeSummaries q S₁ S₂) ∧
      tableOfSummaries O q S₁ = some t₁ ∧ tableOfSummaries O q S₂ = some t₂ ∧
      tableOfSummaries O q (mergeSummaries q S₁ S₂) = some t :=
  table_concat_merge_summaries hwf hOI r₁ r₂ h h₁ h₂ hsafe

/-- … and without `∃`, as equations between functions of the inputs: the summaries of the whole are the merged summaries
of the parts, and every one of the three tables is `tableOfSummaries` of its summaries — so the table over `r₁ ++ r₂` is
determined by `partSummaries O q r₁` and `partSummaries O q r₂`: the SUMMARIES of the rows passing WHERE, taken BEFORE HAVING /
transforms / DISTINCT / LIMIT. It is NOT determined by the parts' tables `table O q rᵢ` when the statement has HAVING: on
`… WHERE v > 0 GROUP BY k HAVING COUNT(*) > 1` with a group that has one row in each part both part tables omit the group and the
whole shows it; all hypotheses of this theorem hold there (`Props/PipelineLines.lean` `having_parts_do_not_determine_the_whole`) -/
theorem table_of_concat_is_merge_of_part_summaries {O : Oracles} {q : AggStmt} (hwf : StmtWF q)
    (hOI : ∀ kind ∈ slotKinds q, orderInsensitive kind = true) (r₁ r₂ : List Env) {t t₁ t₂ : List (List Value)}
    (h : table O q (r₁ ++ r₂) = some t) (h₁ : table O q r₁ = some t₁) (h₂ : table O q r₂ = some t₂)
    (hsafe : ∀ k₁ k₂, keyedRows O q r₁ = some k₁ → keyedRows O q r₂ = some k₂ →
      ∀ k, SplitSafe O q (rowsOfKey k k₁) (rowsOfKey k k₂)) :
    partSummaries O q (r₁ ++ r₂) =
      (partSummaries O q r₁).bind (fun S₁ => (partSummaries O q r₂).map (fun S₂ => mergeSummaries q S₁ S₂)) ∧
    table O q r₁ = (partSummaries O q r₁).bind (tableOfSummaries O q) ∧
    table O q r₂ = (partSummaries O q r₂).bind (tableOfSummaries O q) ∧
    table O q (r₁ ++ r₂) = (partSummaries O q (r₁ ++ r₂)).bind (tableOfSummaries O q) :=
  partSummaries_concat hwf hOI r₁ r₂ h h₁ h₂ hsafe

/-- **the executed batch run over a split input** (`runBatch` = the `FileExecutor` loop the driver runs; carried there
through the C04 refinement `batch_refines_spec_nojoin`). For an aggregate statement without join whose aggregates are
order-insensitive, and file lists `f`, `f₁`, `f₂` such that the lines of `f` are the lines of `f₁` followed by the lines of `f₂`
(one file cut in two, a list of files cut in two, …): whenever the specification answers for the three inputs — with an
empty deviation class (C04: D10, D15) for the two parts; its class `cls` for the whole is then empty as well,
`specBatch_concat_class` — and `SplitSafe` holds per group, there are — explicitly: `Sᵢ = partSummaries` of the
rows of part i — keyed summaries `S₁`, `S₂` such that `runBatch` over part i prints `tableOfSummaries O q Sᵢ` and counts the
part's lines, and `runBatch` over the whole prints `tableOfSummaries O q (mergeSummaries q S₁ S₂)` and counts all lines
(`tableOut q t n` = the table `t` under the statement's column names printed once, `n` lines, no error).
Two things to read carefully. (1) Merged are the parts' SUMMARIES before HAVING, not what the part runs print (with HAVING the
printed tables do not determine the whole). (2) `h₁`, `h₂` with the class `""` EXCLUDE every cut that leaves a group without a
value entry (D10's shape) in a part — all cuts of `SELECT k … GROUP BY k`, and cuts after which a part has a group whose COUNT(c) /
COUNT(DISTINCT c) / PERCENTILE / BOOL_AND / BOOL_OR arguments are all NULL when the statement has no other aggregate. For
statements with COUNT(*) no cut is excluded: `batch_run_of_split_all_cuts_of_count_star`. -/
theorem batch_run_of_split_is_merge_of_summaries {O : Oracles} {qy : Query} {q : AggStmt} (hq : qy.stmt = .aggregate q)
    (hwf : StmtWF q) (hj : qy.join = none) (hOI : ∀ kind ∈ slotKinds q, orderInsensitive kind = true) (joined : List FileLine)
    {f f₁ f₂ : List (List FileLine)} (hf : f.flatten = f₁.flatten ++ f₂.flatten) {ro ro₁ ro₂ : RunOut} {cls : String}
    (h : Spec.Agg.batch O qy q joined f = some (ro, cls)) (h₁ : Spec.Agg.batch O qy q joined f₁ = some (ro₁, ""))
    (h₂ : Spec.Agg.batch O qy q joined f₂ = some (ro₂, ""))
    (hsafe : ∀ k₁ k₂, keyedRows O q (envsOf qy.table f₁.flatten) = some k₁ → keyedRows O q (envsOf qy.table f₂.flatten) = some k₂ →
      ∀ k, SplitSafe O q (rowsOfKey k k₁) (rowsOfKey k k₂)) :
    ∃ S₁ S₂ t₁ t₂ t,
      partSummaries O q (envsOf qy.table f₁.flatten) = some S₁ ∧ partSummaries O q (envsOf qy.table f₂.flatten) = some S₂ ∧
      tableOfSummaries O q S₁ = some t₁ ∧ tableOfSummaries O q S₂ = some t₂ ∧
      tableOfSummaries O q (mergeSummaries q S₁ S₂) = some t ∧
      runBatch O qy joined f₁ none = tableOut q t₁ f₁.flatten.length ∧
      runBatch O qy joined f₂ none = tableOut q t₂ f₂.flatten.length ∧
      runBatch O qy joined f none = tableOut q t (f₁.flatten.length + f₂.flatten.length) :=
  runBatch_concat_merge_summaries hq hwf hj hOI joined hf h h₁ h₂ hsafe

/-- **the deviation class of a concatenation is empty when the classes of both parts are** (and the table of the whole
exists): a group of the whole has rows in some part and is visible (D10) there; an aggregate that creates an entry for a part of
a group creates one for the whole group. Hence the split theorems ask "outside D10 / D15" of the PARTS only. The converse fails
(example at the end: a group invisible in one part, visible in the whole). -/
theorem deviation_class_of_concat {O : Oracles} {q : AggStmt} (hwf : StmtWF q)
    (hOI : ∀ kind ∈ slotKinds q, orderInsensitive kind = true) {r₁ r₂ : List Env} {t : List (List Value)}
    (h : table O q (r₁ ++ r₂) = some t) {k₁ k₂ : List (List Value × Env)}
    (hk₁ : keyedRows O q r₁ = some k₁) (hk₂ : keyedRows O q r₂ = some k₂)
    (hc₁ : deviationClass O q r₁ = "") (hc₂ : deviationClass O q r₂ = "") : deviationClass O q (r₁ ++ r₂) = "" :=
  deviationClass_concat hwf hOI h hk₁ hk₂ hc₁ hc₂

/-! ### which cuts the split theorems cover, and statements for which EVERY cut is covered (COUNT(*) present)

The split theorems at run level (`batch_run_of_split_is_merge_of_summaries`, `batch_run_of_concat_is_merge_of_summaries`,
`Props/PipelineLines.lean` `split_input_is_merge_of_summaries`) ask the specification's answer for each PART to carry the empty
deviation class: `Spec.Agg.batch … fᵢ = some (_, "")`. That EXCLUDES every cut that leaves, in one of the two parts, a group in
which no aggregate of the statement creates an entry (the shape of finding D10: `SELECT k … GROUP BY k` with key columns only —
every cut; a statement whose only aggregates are COUNT(c) / COUNT(DISTINCT c) / PERCENTILE / BOOL_AND / BOOL_OR over a column
that is NULL on all rows of some group of a part — even when the whole input has non-NULL values for that group, see the example
at the end: the converse of `deviation_class_of_concat` fails). There the MODEL of a part run (which mirrors D10) differs from the
specification's table of that part, so nothing is claimed about the part's run, although the program treats such cuts
consistently. (D15 cannot arise: the statements of C15 have no ARRAY_AGG, `arrayAggFirstNull_false`.)

For a statement with `COUNT(*)` in the select list or in HAVING no such group exists — COUNT(*) creates an entry for every group
that has a row (`deviation_class_empty_of_count_star`) — so for these statements the split theorems hold for ALL CUT POINTS, with no
hypothesis on the classes (`batch_run_of_split_all_cuts_of_count_star`). -/

/-- **no input falls into D10 / D15 for an order-insensitive statement with COUNT(*)** (in the select list or in HAVING): the
deviation class is empty for every list of rows — no hypothesis on the rows, the keys or the values. COUNT(*) creates an entry
for every group that has a row (`groupVisible_of_countStar`), and without ARRAY_AGG nothing is refused. -/
theorem deviation_class_empty_of_count_star {O : Oracles} {q : AggStmt}
    (hOI : ∀ kind ∈ slotKinds q, orderInsensitive kind = true) (hc : AggKind.count none false ∈ slotKinds q)
    (envs : List Env) : deviationClass O q envs = "" := deviationClass_empty_of_countStar hOI hc envs

/-- **all cut points, for statements with COUNT(*)** (`batch_run_of_split_is_merge_of_summaries` without the hypothesis on
the parts' classes): for an aggregate statement without join whose aggregates are order-insensitive and which has COUNT(*) in
its select list or in HAVING, and file lists with `f.flatten = f₁.flatten ++ f₂.flatten` — ANY cut —: whenever the
specification answers for the three inputs (whatever classes `cls`, `c₁`, `c₂` it reports: they are empty) and `SplitSafe` holds
per group, `runBatch` over part i prints the table of `Sᵢ = partSummaries` of part i and `runBatch` over the whole prints the
table of `mergeSummaries q S₁ S₂`, every line counted. -/
theorem batch_run_of_split_all_cuts_of_count_star {O : Oracles} {qy : Query} {q : AggStmt} (hq : qy.stmt = .aggregate q)
    (hwf : StmtWF q) (hj : qy.join = none) (hOI : ∀ kind ∈ slotKinds q, orderInsensitive kind = true)
    (hc : AggKind.count none false ∈ slotKinds q) (joined : List FileLine)
    {f f₁ f₂ : List (List FileLine)} (hf : f.flatten = f₁.flatten ++ f₂.flatten) {ro ro₁ ro₂ : RunOut} {cls c₁ c₂ : String}
    (h : Spec.Agg.batch O qy q joined f = some (ro, cls)) (h₁ : Spec.Agg.batch O qy q joined f₁ = some (ro₁, c₁))
    (h₂ : Spec.Agg.batch O qy q joined f₂ = some (ro₂, c₂))
    (hsafe : ∀ k₁ k₂, keyedRows O q (envsOf qy.table f₁.flatten) = some k₁ → keyedRows O q (envsOf qy.table f₂.flatten) = some k₂ →
      ∀ k, SplitSafe O q (rowsOfKey k k₁) (rowsOfKey k k₂)) :
    c₁ = "" ∧ c₂ = "" ∧ cls = "" ∧
    ∃ S₁ S₂ t₁ t₂ t,
      partSummaries O q (envsOf qy.table f₁.flatten) = some S₁ ∧ partSummaries O q (envsOf qy.table f₂.flatten) = some S₂ ∧
      tableOfSummaries O q S₁ = some t₁ ∧ tableOfSummaries O q S₂ = some t₂ ∧
      tableOfSummaries O q (mergeSummaries q S₁ S₂) = some t ∧
      runBatch O qy joined f₁ none = tableOut q t₁ f₁.flatten.length ∧
      runBatch O qy joined f₂ none = tableOut q t₂ f₂.flatten.length ∧
      runBatch O qy joined f none = tableOut q t (f₁.flatten.length + f₂.flatten.length) := by
  have e₁ : c₁ = "" := specBatch_class_of_countStar hj hOI hc h₁
  have e₂ : c₂ = "" := specBatch_class_of_countStar hj hOI hc h₂
  have e : cls = "" := specBatch_class_of_countStar hj hOI hc h
  subst e₁; subst e₂
  exact ⟨rfl, rfl, e, runBatch_concat_merge_summaries hq hwf hj hOI joined hf h h₁ h₂ hsafe⟩

/-- what a batch run answers for keyed summaries `S` and `n` lines read: their table printed once (`none`: HAVING or a
transform has no value on the finished summaries) -/
def outOfSummaries (O : Oracles) (q : AggStmt) (n : Nat) (S : List (List Value × List Summary)) : Option RunOut :=
  (tableOfSummaries O q S).map (fun t => tableOut q t n)

/-- **`batch_run_of_concat_is_merge_of_summaries`** — the same for two line lists, without `∃`: what `runBatch` answers for
the one file `l₁ ++ l₂` is `outOfSummaries` of the merged `partSummaries` of `l₁` and of `l₂`; for the two files `[l₁, l₂]` it
answers the same; and for each part alone it answers `outOfSummaries` of that part's `partSummaries`. So the output over
`l₁ ++ l₂` is a function of the two per-part summaries (and the two line counts). -/
theorem batch_run_of_concat_is_merge_of_summaries {O : Oracles} {qy : Query} {q : AggStmt} (hq : qy.stmt = .aggregate q)
    (hwf : StmtWF q) (hj : qy.join = none) (hOI : ∀ kind ∈ slotKinds q, orderInsensitive kind = true) (joined : List FileLine)
    (l₁ l₂ : List FileLine) {ro ro₁ ro₂ : RunOut} {cls : String}
    (h : Spec.Agg.batch O qy q joined [l₁ ++ l₂] = some (ro, cls)) (h₁ : Spec.Agg.batch O qy q joined [l₁] = some (ro₁, ""))
    (h₂ : Spec.Agg.batch O qy q joined [l₂] = some (ro₂, ""))
    (hsafe : ∀ k₁ k₂, keyedRows O q (envsOf qy.table l₁) = some k₁ → keyedRows O q (envsOf qy.table l₂) = some k₂ →
      ∀ k, SplitSafe O q (rowsOfKey k k₁) (rowsOfKey k k₂)) :
    some (runBatch O qy joined [l₁ ++ l₂] none) =
      ((partSummaries O q (envsOf qy.table l₁)).bind (fun S₁ =>
        (partSummaries O q (envsOf qy.table l₂)).map (fun S₂ => mergeSummaries q S₁ S₂))).bind
          (outOfSummaries O q (l₁.length + l₂.length)) ∧
    runBatch O qy joined [l₁, l₂] none = runBatch O qy joined [l₁ ++ l₂] none ∧
    some (runBatch O qy joined [l₁] none) = (partSummaries O q (envsOf qy.table l₁)).bind (outOfSummaries O q l₁.length) ∧
    some (runBatch O qy joined [l₂] none) = (partSummaries O q (envsOf qy.table l₂)).bind (outOfSummaries O q l₂.length) := by
  have hf : [l₁ ++ l₂].flatten = [l₁].flatten ++ [l₂].flatten := by simp
  have hcls := specBatch_concat_class hwf hj hOI joined hf h h₁ h₂
  subst hcls
  obtain ⟨S₁, S₂, t₁, t₂, t, hS₁, hS₂, hT₁, hT₂, hT, e₁, e₂, e⟩ :=
    runBatch_concat_merge_summaries hq hwf hj hOI joined hf h h₁ h₂ (by simpa using hsafe)
  simp only [List.flatten_cons, List.flatten_nil, List.append_nil] at hS₁ hS₂ e₁ e₂ e
  have h' : Spec.Agg.batch O qy q joined [l₁, l₂] = some (ro, "") := by
    rw [batch_flatten_congr O qy q joined (f := [l₁, l₂]) (g := [l₁ ++ l₂]) (by simp)]; exact h
  refine ⟨?_, ?_, ?_, ?_⟩
  · simp only [hS₁, hS₂, Option.bind_some, Option.map_some, outOfSummaries, hT, e]
  · rw [batch_refines_spec_nojoin hq hwf hj joined _ h', batch_refines_spec_nojoin hq hwf hj joined _ h]
  · simp only [hS₁, Option.bind_some, outOfSummaries, hT₁, Option.map_some, e₁]
  · simp only [hS₂, Option.bind_some, outOfSummaries, hT₂, Option.map_some, e₂]

/-- every order-insensitive aggregate is the `finishSummary` of its part-wise summary … -/
theorem aggregate_is_finished_summary (k : AggKind) (hk : orderInsensitive k = true) (vs : List Value) :
    aggregate k vs = (summarize k vs).bind (finishSummary k) := aggregate_eq_finish k hk vs

/-- … and the summary of a concatenation is the combination of the summaries (monoid homomorphism per aggregate) -/
theorem summary_of_concat (k : AggKind) (v₁ v₂ : List Value) {s s₁ s₂ : Summary}
    (h : summarize k (v₁ ++ v₂) = some s) (h₁ : summarize k v₁ = some s₁) (h₂ : summarize k v₂ = some s₂)
    (hsplit : usesSums k = true → SplitExact (nonNull v₁) (nonNull v₂))
    (hex : (∃ e p, k = .percentile e p) → ValuesExact (nonNull (v₁ ++ v₂))) :
    s = combine k s₁ s₂ := summarize_append k v₁ v₂ h h₁ h₂ hsplit hex

/-- per aggregate: the value over the concatenation of two argument lists is the combination of the values over the parts -/
theorem aggregate_concat_merges (k : AggKind) (hk : mergeable k = true) (v₁ v₂ : List Value) {a b r : Value}
    (h₁ : aggregate k v₁ = some a) (h₂ : aggregate k v₂ = some b) (h : aggregate k (v₁ ++ v₂) = some r)
    (hint : ∀ e, k = .sum e → (ints (nonNull v₁)).isSome ∧ (ints (nonNull v₂)).isSome) :
    r = mergeCell k a b := aggregate_merge k hk v₁ v₂ h₁ h₂ h hint

/-- the ingredients on their own (any statement): for inputs `r₁`, `r₂` with admitted rows `k₁`, `k₂`: the admitted rows of
`r₁ ++ r₂` are `k₁ ++ k₂`; a key is a group of the whole iff it is a group of a part; and the rows of each group are
the concatenation of its rows in the parts. -/
theorem concat_ingredients (O : Oracles) (q : AggStmt) (r₁ r₂ : List Env) {k₁ k₂ : List (List Value × Env)}
    (h₁ : keyedRows O q r₁ = some k₁) (h₂ : keyedRows O q r₂ = some k₂)
    (hex : KeysExact ((k₁ ++ k₂).map (·.1))) :
    keyedRows O q (r₁ ++ r₂) = some (k₁ ++ k₂) ∧
    (∀ k, k ∈ distinctKeys ((k₁ ++ k₂).map (·.1)) ↔ k ∈ distinctKeys (k₁.map (·.1)) ∨ k ∈ distinctKeys (k₂.map (·.1))) ∧
    (∀ k, rowsOfKey k (k₁ ++ k₂) = rowsOfKey k k₁ ++ rowsOfKey k k₂) := by
  refine ⟨keyedRows_append O q r₁ r₂ h₁ h₂, ?_, fun k => rowsOfKey_append k k₁ k₂⟩
  intro k
  rw [List.map_append] at hex ⊢
  exact concat_groups_union hex k

/-! ### non-vacuity -/

/-- the hypotheses of `aggregate_multiset_function` hold for SUM over `[3, NULL, -1]` and its reversal -/
example : aggregate (.sum (.column "v")) [.int 3, .null, .int (-1)] = aggregate (.sum (.column "v")) [.int (-1), .null, .int 3] := rfl
/-- MIN of TEXT values in two orders -/
example : aggregate (.min (.column "k")) [.text [98], .text [97], .text [99]] = aggregate (.min (.column "k")) [.text [99], .text [98], .text [97]] := rfl
/-- counts of a split add up -/
example : aggregate (.count none false) ([.null, .int 1] ++ [.int 2]) = some (.int (2 + 1)) := rfl

/-- `ValuesExact` holds for INT values (hypothesis of the MIN/MAX/PERCENTILE case) -/
example : ValuesExact [.int 3, .int 1, .int 2] := by
  intro a ha b hb h
  have hs : ∀ x ∈ [Value.int 3, .int 1, .int 2], simpleValue x = true := by
    intro x hx; simp at hx; rcases hx with rfl | rfl | rfl <;> rfl
  exact cmp_eq_of_simple (hs a ha) (hs b hb) h
/-- `SELECT COUNT(*) FROM t` -/
def exCount : AggStmt :=
  { items := [{ name := "count0", kind := .count none false, transform := none }], filter := none, groupBy := none,
    having := none, havingAggs := [], havingKeys := [], havingVisit := [], limit := none, distinct := false }

/-- `PermSafe` holds for `SELECT COUNT(*)` on any rows (COUNT needs neither exact values nor sums) -/
example (O : Oracles) (keyed : List (List Value × Env)) : PermSafe O exCount keyed := by
  refine ⟨?_, ?_⟩
  · intro kind hk; simp [slotKinds, exCount] at hk; subst hk; rfl
  · intro k kind vs hk _; simp [slotKinds, exCount] at hk; subst hk; exact ⟨by simp [usesOrder], by simp [usesSums]⟩

/-- `SELECT k, COUNT(*), SUM(v), AVG(v), VARIANCE(v), MIN(v), MAX(v) FROM t GROUP BY k` -/
def exSumMin : AggStmt :=
  { items := [{ name := "k", kind := .groupKey (.column "k") "k", transform := none },
              { name := "count1", kind := .count none false, transform := none },
              { name := "sum2", kind := .sum (.column "v"), transform := none },
              { name := "avg3", kind := .avg (.column "v"), transform := none },
              { name := "variance4", kind := .stddev (.column "v") true, transform := none },
              { name := "min5", kind := .min (.column "v"), transform := none },
              { name := "max6", kind := .max (.column "v"), transform := none }],
    filter := none, groupBy := some [(.column "k", "k")], having := none, havingAggs := [], havingKeys := [],
    havingVisit := [], limit := none, distinct := false }
/-- the same select list with `PERCENTILE(v, 0.5)` (bit pattern of 0.5) -/
def exPct : AggStmt :=
  { exSumMin with items := exSumMin.items ++ [{ name := "percentile7", kind := .percentile (.column "v") 0x3fe0000000000000, transform := none }] }
def rowKV (k : Nat) (v : Value) : Env := { table := [("k", .text [k]), ("v", v)] }
/-- rows (a, 3), (b, 7), (a, NULL), (a, -1), (b, 2) -/
def exRows : List Env := [rowKV 97 (.int 3), rowKV 98 (.int 7), rowKV 97 .null, rowKV 97 (.int (-1)), rowKV 98 (.int 2)]
def exKeyed : List (List Value × Env) :=
  [([.text [97]], rowKV 97 (.int 3)), ([.text [98]], rowKV 98 (.int 7)), ([.text [97]], rowKV 97 .null),
   ([.text [97]], rowKV 97 (.int (-1))), ([.text [98]], rowKV 98 (.int 2))]

example : keyedRows {} exSumMin exRows = some exKeyed := rfl
example : keyedRows {} exPct exRows = some exKeyed := rfl

/-- **`PermSafe` holds for a statement with SUM, AVG, VARIANCE, MIN and MAX** on these rows (every hypothesis of
`agg_perm_invariant` discharged: INT arguments, no partial sum near the 64-bit range in any order) -/
example : PermSafe {} exSumMin exKeyed :=
  permSafe_of_small_ints (by decide) (by decide) (by decide)
/-- … and for the statement with PERCENTILE as well -/
example : PermSafe {} exPct exKeyed :=
  permSafe_of_small_ints (by decide) (by decide) (by decide)
/-- so the conclusion of `agg_perm_invariant` applies to every permutation of these rows (VARIANCE and PERCENTILE go
through `F64` operations the kernel cannot evaluate; the INT columns of the table are evaluated in the next example) -/
example (rows₂ : List Env) (h : exRows.Perm rows₂) : table {} exPct exRows = table {} exPct rows₂ :=
  agg_perm_invariant h (fun keyed hk => by
    have : keyed = exKeyed := by
      have h0 : keyedRows {} exPct exRows = some exKeyed := rfl
      rw [h0] at hk; exact (Option.some.inj hk).symm
    subst this
    exact permSafe_of_small_ints (by decide) (by decide) (by decide))
/-- the table of `SELECT k, COUNT(*), SUM(v), MIN(v), MAX(v) … GROUP BY k` on these rows and on their reversal, evaluated -/
def exSumMinInt : AggStmt :=
  { exSumMin with items := [exSumMin.items[0]!, exSumMin.items[1]!, exSumMin.items[2]!, exSumMin.items[5]!, exSumMin.items[6]!] }
example : table {} exSumMinInt exRows = some [[.text [97], .int 3, .int 2, .int (-1), .int 3], [.text [98], .int 2, .int 9, .int 2, .int 7]] ∧
    table {} exSumMinInt exRows.reverse = table {} exSumMinInt exRows := ⟨rfl, rfl⟩

/-- `SELECT ARRAY_AGG(v) FROM t` -/
def exArr : AggStmt :=
  { items := [{ name := "array_agg0", kind := .arrayAgg (.column "v"), transform := none }], filter := none, groupBy := none,
    having := none, havingAggs := [], havingKeys := [], havingVisit := [], limit := none, distinct := false }
/-- **why `deviation_class_ignores_line_order` excludes ARRAY_AGG**: for `SELECT ARRAY_AGG(v)` the rows (NULL, 1) fall into
D15 (the first value is NULL) and the same rows in the order (1, NULL) do not -/
theorem deviation_class_of_array_agg_depends_on_order :
    [rowKV 97 .null, rowKV 97 (.int 1)].Perm [rowKV 97 (.int 1), rowKV 97 .null] ∧
    deviationClass {} exArr [rowKV 97 .null, rowKV 97 (.int 1)] = "D15:array_agg-first-value-null" ∧
    deviationClass {} exArr [rowKV 97 (.int 1), rowKV 97 .null] = "" :=
  ⟨List.Perm.swap _ _ _, by decide +kernel, by decide +kernel⟩
/-- the deviation class of the example rows (`SELECT k, COUNT(*), SUM(v), … GROUP BY k`) is empty, and so it is for every
permutation of them -/
example (rows₂ : List Env) (h : exRows.Perm rows₂) : deviationClass {} exPct rows₂ = "" := by
  rw [← deviation_class_ignores_line_order (by decide) h]; decide +kernel

/-- the hypotheses of the input split (`SplitSafe` of `agg_concat_merge_all`) hold for INT arguments -/
example (v₁ v₂ : List Value) (h₁ : ∀ v ∈ nonNull v₁, ∃ i, v = .int i) (h₂ : ∀ v ∈ nonNull v₂, ∃ i, v = .int i) :
    SplitExact (nonNull v₁) (nonNull v₂) := splitExact_of_ints h₁ h₂

/-- **the laws are consistent and the derivation is not vacuous**: exact addition obeys `AddLaws` on every list of addends
(for `F64.add` see `realAddLaws_of_exactSums` and the REAL examples below) -/
example (rs : List Nat) : AddLaws (· + ·) 0 rs :=
  ⟨fun y _ => Nat.zero_add y, fun x _ y _ => Nat.add_comm x y, fun _ _ _ _ _ _ => Nat.add_assoc _ _ _⟩
example : [3, 1, 2].foldl (· + ·) 0 = [1, 2, 3].foldl (· + ·) 0 :=
  sum_order_free_of_laws (add := (· + ·))
    ⟨fun y _ => Nat.zero_add y, fun x _ y _ => Nat.add_comm x y, fun _ _ _ _ _ _ => Nat.add_assoc _ _ _⟩ (by decide)
/-- the REAL laws hold when there is nothing to add -/
example : RealAddLaws [] := realAddLaws_nil

/-- REAL addends `0.5, 1.5, -2.25, 100.0` (bit patterns): their sums are exactly representable, so every order gives the
same sum `99.75`, and a split adds up -/
def exReals : List Nat := [0x3fe0000000000000, 0x3ff8000000000000, 0xc002000000000000, 0x4059000000000000]
example : ExactSums exReals := by decide +kernel
example : ExactSums (exReals.map (fun x => F64.mul x x)) := by decide +kernel
example : realSum exReals = 0x4058f00000000000 := by decide +kernel
example : realSum [0x4059000000000000, 0xc002000000000000, 0x3ff8000000000000, 0x3fe0000000000000] = 0x4058f00000000000 := by decide +kernel
example : realSum [0xc002000000000000, 0x4059000000000000, 0x3fe0000000000000, 0x3ff8000000000000] = 0x4058f00000000000 := by decide +kernel
example (l : List Nat) (hp : l.Perm exReals) : realSum l = 0x4058f00000000000 := by
  rw [real_sum_order_free (by decide +kernel) hp]; decide +kernel
example : Value.real (realSum exReals) =
    mergeSum (.real (realSum [0x3fe0000000000000, 0x3ff8000000000000])) (.real (realSum [0xc002000000000000, 0x4059000000000000])) :=
  concat_sum_adds_real [0x3fe0000000000000, 0x3ff8000000000000] [0xc002000000000000, 0x4059000000000000] (by decide) (by decide +kernel)
/-- where a partial sum is rounded the hypothesis fails, and so may the conclusion: `1e16 + 1 + 1` in two orders -/
example : ¬ ExactSums [0x4341c37937e08000, 0x3ff0000000000000, 0x3ff0000000000000] := by decide +kernel
example : realSum [0x4341c37937e08000, 0x3ff0000000000000, 0x3ff0000000000000] ≠ realSum [0x3ff0000000000000, 0x3ff0000000000000, 0x4341c37937e08000] := by decide +kernel
/-- `-0.0` is excluded: `0.0 + -0.0 = 0.0`, so a lone `-0.0` does not sum to itself -/
example : ¬ ExactSums [0x8000000000000000] := by decide +kernel

/-- `SELECT COUNT(*), SUM(v), MIN(v) FROM t` is a `MergeableStmt`, and the combination of the rows `[2, 4, 1]` and `[1, 5, 5]`
of two parts is `[3, 9, 1]` -/
def exMerge : AggStmt :=
  { items := [{ name := "count0", kind := .count none false, transform := none },
              { name := "sum1", kind := .sum (.column "v"), transform := none },
              { name := "min2", kind := .min (.column "v"), transform := none }],
    filter := none, groupBy := none, having := none, havingAggs := [], havingKeys := [], havingVisit := [],
    limit := none, distinct := false }
example : MergeableStmt exMerge := by
  refine ⟨?_, rfl, rfl, rfl⟩
  intro item hi
  simp [exMerge] at hi
  rcases hi with rfl | rfl | rfl <;> exact ⟨rfl, rfl⟩
example : mergeKeyed exMerge [([.null], [.int 2, .int 4, .int 1])] [([.null], [.int 1, .int 5, .int 5])] =
    [([.null], [.int 3, .int 9, .int 1])] := rfl

/-- AVG over two parts through its components: (6, 2 values) and (3, 1 value) combine to (9, 3 values), average 3 -/
example : (summarize (.avg (.column "v")) [.int 2, .int 4]).bind (fun a => (summarize (.avg (.column "v")) [.null, .int 3]).bind
    (fun b => finishSummary (.avg (.column "v")) (combine (.avg (.column "v")) a b))) = some (.int 3) := rfl
/-- COUNT(DISTINCT) through set union: {1, 2} and {2, 3} unite to three values -/
example : combine (.count (some "v") true) (.distinct [.int 1, .int 2]) (.distinct [.int 2, .int 3]) = .distinct [.int 1, .int 2, .int 3] := rfl

/-! ### a complete instance of the input split: every hypothesis discharged, every table evaluated -/

deriving instance DecidableEq for Summary

/-- `SELECT k, COUNT(*), SUM(v), AVG(v), VARIANCE(v), MIN(v), MAX(v), PERCENTILE(v, 0.5), COUNT(DISTINCT v) FROM t GROUP BY k` -/
def exAll : AggStmt :=
  { exPct with items := exPct.items ++ [{ name := "count8", kind := .count (some "v") true, transform := none }] }
theorem exAll_wf : StmtWF exAll := ⟨rfl, fun _ => rfl⟩
theorem exAll_kinds : ∀ kind ∈ slotKinds exAll, orderInsensitive kind = true := by decide

/-- `exAll` has COUNT(*): no input falls into D10 / D15 and every cut is covered (`batch_run_of_split_all_cuts_of_count_star`) -/
example : AggKind.count none false ∈ slotKinds exAll ∧ ∀ envs, deviationClass {} exAll envs = "" :=
  ⟨by simp [slotKinds, exAll, exPct, exSumMin], deviation_class_empty_of_count_star exAll_kinds (by simp [slotKinds, exAll, exPct, exSumMin])⟩

/-- part two: rows (a, 5), (c, 4), (b, 7) — part one is `exRows`: (a, 3), (b, 7), (a, NULL), (a, -1), (b, 2) -/
def exPart₂ : List Env := [rowKV 97 (.int 5), rowKV 99 (.int 4), rowKV 98 (.int 7)]
def exKeyed₂ : List (List Value × Env) :=
  [([.text [97]], rowKV 97 (.int 5)), ([.text [99]], rowKV 99 (.int 4)), ([.text [98]], rowKV 98 (.int 7))]
example : keyedRows {} exAll exRows = some exKeyed ∧ keyedRows {} exAll exPart₂ = some exKeyed₂ := ⟨rfl, rfl⟩

/-- **`SplitSafe` holds for every group key** of these two parts — by the INT criterion … -/
example : ∀ k, SplitSafe {} exAll (rowsOfKey k exKeyed) (rowsOfKey k exKeyed₂) :=
  splitSafe_of_ints (by decide) (by decide)
/-- … and by the general decidable check (REAL addends `ExactSums`, PERCENTILE values simple), in the form the theorems take -/
theorem exAll_splitSafe : ∀ k₁ k₂, keyedRows {} exAll exRows = some k₁ → keyedRows {} exAll exPart₂ = some k₂ →
    ∀ k, SplitSafe {} exAll (rowsOfKey k k₁) (rowsOfKey k k₂) :=
  splitSafeInputsB_sound (by decide +kernel)

/-- the three tables (columns: k, COUNT(*), SUM, AVG, VARIANCE, MIN, MAX, PERCENTILE 0.5, COUNT DISTINCT; the variances
4.0, 6.25, 56/9, 50/9 as bit patterns) -/
def exT₁ : List (List Value) :=
  [[.text [97], .int 3, .int 2, .int 1, .real 0x4010000000000000, .int (-1), .int 3, .int 3, .int 2],
   [.text [98], .int 2, .int 9, .int 4, .real 0x4019000000000000, .int 2, .int 7, .int 7, .int 2]]
def exT₂ : List (List Value) :=
  [[.text [97], .int 1, .int 5, .int 5, .real 0, .int 5, .int 5, .int 5, .int 1],
   [.text [98], .int 1, .int 7, .int 7, .real 0, .int 7, .int 7, .int 7, .int 1],
   [.text [99], .int 1, .int 4, .int 4, .real 0, .int 4, .int 4, .int 4, .int 1]]
def exT : List (List Value) :=
  [[.text [97], .int 4, .int 7, .int 2, .real 0x4018e38e38e38e39, .int (-1), .int 5, .int 3, .int 3],
   [.text [98], .int 3, .int 16, .int 5, .real 0x401638e38e38e38e, .int 2, .int 7, .int 7, .int 2],
   [.text [99], .int 1, .int 4, .int 4, .real 0, .int 4, .int 4, .int 4, .int 1]]
theorem exAll_tables : table {} exAll exRows = some exT₁ ∧ table {} exAll exPart₂ = some exT₂ ∧
    table {} exAll (exRows ++ exPart₂) = some exT := by decide +kernel

/-- what each part remembers: per group — nothing for the key; the count; the sum; sum and count; sum, sum of squares and
count; the minimum; the maximum; the sorted values; the distinct values -/
def exS₁ : List (List Value × List Summary) :=
  [([.text [97]], [.key, .count 3, .sum (.int 2), .avg (.int 2) 2, .moments (.int 2) (.int 10) 2, .extreme (.int (-1)),
      .extreme (.int 3), .sorted [.int (-1), .int 3], .distinct [.int 3, .int (-1)]]),
   ([.text [98]], [.key, .count 2, .sum (.int 9), .avg (.int 9) 2, .moments (.int 9) (.int 53) 2, .extreme (.int 2),
      .extreme (.int 7), .sorted [.int 2, .int 7], .distinct [.int 7, .int 2]])]
def exS₂ : List (List Value × List Summary) :=
  [([.text [97]], [.key, .count 1, .sum (.int 5), .avg (.int 5) 1, .moments (.int 5) (.int 25) 1, .extreme (.int 5),
      .extreme (.int 5), .sorted [.int 5], .distinct [.int 5]]),
   ([.text [98]], [.key, .count 1, .sum (.int 7), .avg (.int 7) 1, .moments (.int 7) (.int 49) 1, .extreme (.int 7),
      .extreme (.int 7), .sorted [.int 7], .distinct [.int 7]]),
   ([.text [99]], [.key, .count 1, .sum (.int 4), .avg (.int 4) 1, .moments (.int 4) (.int 16) 1, .extreme (.int 4),
      .extreme (.int 4), .sorted [.int 4], .distinct [.int 4]])]
/-- the key-wise combination: groups a, b, c; in a and b counts add (3+1, 2+1), sums add (2+5, 9+7), sums of squares add
(10+25, 53+49), minima / maxima combine, sorted multisets merge, distinct sets unite (b: {7, 2} ∪ {7}); c is kept -/
def exS : List (List Value × List Summary) :=
  [([.text [97]], [.key, .count 4, .sum (.int 7), .avg (.int 7) 3, .moments (.int 7) (.int 35) 3, .extreme (.int (-1)),
      .extreme (.int 5), .sorted [.int (-1), .int 3, .int 5], .distinct [.int 3, .int (-1), .int 5]]),
   ([.text [98]], [.key, .count 3, .sum (.int 16), .avg (.int 16) 3, .moments (.int 16) (.int 102) 3, .extreme (.int 2),
      .extreme (.int 7), .sorted [.int 2, .int 7, .int 7], .distinct [.int 7, .int 2]]),
   ([.text [99]], [.key, .count 1, .sum (.int 4), .avg (.int 4) 1, .moments (.int 4) (.int 16) 1, .extreme (.int 4),
      .extreme (.int 4), .sorted [.int 4], .distinct [.int 4]])]
theorem exAll_summaries : partSummaries {} exAll exRows = some exS₁ ∧ partSummaries {} exAll exPart₂ = some exS₂ ∧
    mergeSummaries exAll exS₁ exS₂ = exS := by decide +kernel

/-- **`agg_concat_merge_summaries` applied**: every hypothesis discharged above; its conclusion, with the summaries and the
tables evaluated: the summaries of the whole are the combination `exS` of the parts' summaries, and the three tables are the
tables of `exS₁`, `exS₂`, `exS` -/
example : partSummaries {} exAll (exRows ++ exPart₂) = some exS ∧
    tableOfSummaries {} exAll exS₁ = some exT₁ ∧ tableOfSummaries {} exAll exS₂ = some exT₂ ∧
    tableOfSummaries {} exAll exS = some exT := by
  obtain ⟨h, h₁, h₂, h₃⟩ := table_of_concat_is_merge_of_part_summaries exAll_wf exAll_kinds exRows exPart₂
    exAll_tables.2.2 exAll_tables.1 exAll_tables.2.1 exAll_splitSafe
  rw [exAll_summaries.1, exAll_summaries.2.1] at h
  simp only [Option.bind_some, Option.map_some, exAll_summaries.2.2] at h
  rw [exAll_summaries.1, exAll_tables.1] at h₁
  rw [exAll_summaries.2.1, exAll_tables.2.1] at h₂
  rw [h, exAll_tables.2.2] at h₃
  exact ⟨h, h₁.symm, h₂.symm, h₃.symm⟩

/-- the same at the level of the executed batch run: the query over table `t(k, v)`, the rows as lines of two files (the
second file has a line that yields no row: it is counted, not aggregated) -/
def exQy : Query := { stmt := .aggregate exAll, table := { name := "t", columns := ["k", "v"] }, join := none }
def exLine (k : Nat) (v : Value) : FileLine := { readable := true, line := { text := [], row := [.text [k], v] } }
def exFile₁ : List FileLine := [exLine 97 (.int 3), exLine 98 (.int 7), exLine 97 .null, exLine 97 (.int (-1)), exLine 98 (.int 2)]
def exFile₂ : List FileLine :=
  [exLine 97 (.int 5), { readable := true, line := { text := [], row := [.null, .null] } }, exLine 99 (.int 4), exLine 98 (.int 7)]

/-- hypotheses of `batch_run_of_concat_is_merge_of_summaries`: the specification answers with an empty deviation class for
the whole and for both parts; `SplitSafe` for every group key -/
theorem exQy_spec : (Spec.Agg.batch {} exQy exAll [] [exFile₁ ++ exFile₂]).map (·.2) = some "" ∧
    (Spec.Agg.batch {} exQy exAll [] [exFile₁]).map (·.2) = some "" ∧
    (Spec.Agg.batch {} exQy exAll [] [exFile₂]).map (·.2) = some "" := by decide +kernel
theorem exQy_splitSafe : ∀ k₁ k₂, keyedRows {} exAll (envsOf exQy.table exFile₁) = some k₁ →
    keyedRows {} exAll (envsOf exQy.table exFile₂) = some k₂ → ∀ k, SplitSafe {} exAll (rowsOfKey k k₁) (rowsOfKey k k₂) :=
  splitSafeInputsB_sound (by decide +kernel)
theorem exQy_summaries : partSummaries {} exAll (envsOf exQy.table exFile₁) = some exS₁ ∧
    partSummaries {} exAll (envsOf exQy.table exFile₂) = some exS₂ ∧
    outOfSummaries {} exAll 5 exS₁ = some (tableOut exAll exT₁ 5) ∧ outOfSummaries {} exAll 4 exS₂ = some (tableOut exAll exT₂ 4) ∧
    tableOfSummaries {} exAll exS = some exT := by
  refine ⟨by decide +kernel, by decide +kernel, ?_, ?_, by decide +kernel⟩
  · have : tableOfSummaries {} exAll exS₁ = some exT₁ := by decide +kernel
    simp only [outOfSummaries, this, Option.map_some]
  · have : tableOfSummaries {} exAll exS₂ = some exT₂ := by decide +kernel
    simp only [outOfSummaries, this, Option.map_some]

/-- **`batch_run_of_concat_is_merge_of_summaries` applied**: `runBatch` over the one file `exFile₁ ++ exFile₂`, and over the two
files, prints the table `exT` of the merged summaries and counts 9 lines; over each part the table of that part's summaries -/
example : runBatch {} exQy [] [exFile₁ ++ exFile₂] none = tableOut exAll exT 9 ∧
    runBatch {} exQy [] [exFile₁, exFile₂] none = tableOut exAll exT 9 ∧
    runBatch {} exQy [] [exFile₁] none = tableOut exAll exT₁ 5 ∧ runBatch {} exQy [] [exFile₂] none = tableOut exAll exT₂ 4 := by
  obtain ⟨ro, h⟩ := batch_of_class exQy_spec.1
  obtain ⟨ro₁, h₁⟩ := batch_of_class exQy_spec.2.1
  obtain ⟨ro₂, h₂⟩ := batch_of_class exQy_spec.2.2
  obtain ⟨e, e', e₁, e₂⟩ := batch_run_of_concat_is_merge_of_summaries (qy := exQy) rfl exAll_wf rfl exAll_kinds [] exFile₁ exFile₂
    h h₁ h₂ exQy_splitSafe
  rw [exQy_summaries.1, exQy_summaries.2.1] at e
  simp only [Option.bind_some, Option.map_some, exAll_summaries.2.2, outOfSummaries, exQy_summaries.2.2.2.2] at e
  rw [exQy_summaries.1] at e₁
  rw [exQy_summaries.2.1] at e₂
  have l₁ : exFile₁.length = 5 := rfl
  have l₂ : exFile₂.length = 4 := rfl
  rw [l₁] at e e₁
  rw [l₂] at e e₂
  simp only [Option.bind_some, exQy_summaries.2.2.1, exQy_summaries.2.2.2.1] at e₁ e₂
  have e0 := Option.some.inj e
  exact ⟨e0, e'.trans e0, Option.some.inj e₁, Option.some.inj e₂⟩

/-- **REAL arguments**: part one (a, 0.5), (b, 100.0), (a, 1.5); part two (a, -2.25), (a, NULL), (b, 0.5). `SplitSafe` for every
group key by the decidable check: the addends of each group over both parts, and their squares, are `ExactSums` -/
def exReal₁ : List Env := [rowKV 97 (.real 0x3fe0000000000000), rowKV 98 (.real 0x4059000000000000), rowKV 97 (.real 0x3ff8000000000000)]
def exReal₂ : List Env := [rowKV 97 (.real 0xc002000000000000), rowKV 97 .null, rowKV 98 (.real 0x3fe0000000000000)]
theorem exReal_splitSafe : ∀ k₁ k₂, keyedRows {} exAll exReal₁ = some k₁ → keyedRows {} exAll exReal₂ = some k₂ →
    ∀ k, SplitSafe {} exAll (rowsOfKey k k₁) (rowsOfKey k k₂) :=
  splitSafeInputsB_sound (by decide +kernel)
/-- the tables of the parts and of the whole (group a: sum 2.0 / -2.25 / -0.25, average 1.0 / -2.25 / -1/12, variance 0.25 / 0 /
181/72, minimum 0.5 / -2.25 / -2.25, maximum 1.5 / -2.25 / 1.5, median 1.5 / -2.25 / 0.5; group b: sum 100.0 / 0.5 / 100.5, …) -/
def exRealT₁ : List (List Value) :=
  [[.text [97], .int 2, .real 0x4000000000000000, .real 0x3ff0000000000000, .real 0x3fd0000000000000, .real 0x3fe0000000000000,
     .real 0x3ff8000000000000, .real 0x3ff8000000000000, .int 2],
   [.text [98], .int 1, .real 0x4059000000000000, .real 0x4059000000000000, .real 0, .real 0x4059000000000000,
     .real 0x4059000000000000, .real 0x4059000000000000, .int 1]]
def exRealT₂ : List (List Value) :=
  [[.text [97], .int 2, .real 0xc002000000000000, .real 0xc002000000000000, .real 0, .real 0xc002000000000000,
     .real 0xc002000000000000, .real 0xc002000000000000, .int 1],
   [.text [98], .int 1, .real 0x3fe0000000000000, .real 0x3fe0000000000000, .real 0, .real 0x3fe0000000000000,
     .real 0x3fe0000000000000, .real 0x3fe0000000000000, .int 1]]
def exRealT : List (List Value) :=
  [[.text [97], .int 4, .real 0xbfd0000000000000, .real 0xbfb5555555555555, .real 0x40041c71c71c71c7, .real 0xc002000000000000,
     .real 0x3ff8000000000000, .real 0x3fe0000000000000, .int 3],
   [.text [98], .int 2, .real 0x4059200000000000, .real 0x4049200000000000, .real 0x40a3562000000000, .real 0x3fe0000000000000,
     .real 0x4059000000000000, .real 0x4059000000000000, .int 2]]
theorem exReal_tables : table {} exAll exReal₁ = some exRealT₁ ∧ table {} exAll exReal₂ = some exRealT₂ ∧
    table {} exAll (exReal₁ ++ exReal₂) = some exRealT := by decide +kernel
/-- **`table_of_concat_is_merge_of_part_summaries` applied to REAL arguments**: the table of the whole is the table of the
merged summaries of the parts (sums and sums of squares added by IEEE addition — exact here) -/
example : (partSummaries {} exAll exReal₁).bind (fun S₁ => (partSummaries {} exAll exReal₂).bind (fun S₂ =>
    tableOfSummaries {} exAll (mergeSummaries exAll S₁ S₂))) = some exRealT := by
  obtain ⟨h, _, _, h₃⟩ := table_of_concat_is_merge_of_part_summaries exAll_wf exAll_kinds exReal₁ exReal₂
    exReal_tables.2.2 exReal_tables.1 exReal_tables.2.1 exReal_splitSafe
  rw [h, exReal_tables.2.2] at h₃
  rw [h₃]
  generalize partSummaries {} exAll exReal₁ = X
  generalize partSummaries {} exAll exReal₂ = Y
  cases X <;> cases Y <;> rfl
/-- … and the merged summaries themselves, evaluated: group a remembers count 4, sum -0.25, sum of squares 7.5625, three values -/
example : ((partSummaries {} exAll exReal₁).bind (fun S₁ => (partSummaries {} exAll exReal₂).map (fun S₂ =>
    (mergeSummaries exAll S₁ S₂).map (fun ks => (ks.1, ks.2.take 5))))) =
    some [([.text [97]], [.key, .count 4, .sum (.real 0xbfd0000000000000), .avg (.real 0xbfd0000000000000) 3,
            .moments (.real 0xbfd0000000000000) (.real 0x401e400000000000) 3]),
          ([.text [98]], [.key, .count 2, .sum (.real 0x4059200000000000), .avg (.real 0x4059200000000000) 2,
            .moments (.real 0x4059200000000000) (.real 0x40c3882000000000) 2])] := by decide +kernel

/-- the classes of the example parts and of the whole are empty (hypotheses / conclusion of `deviation_class_of_concat`) -/
example : deviationClass {} exAll exRows = "" ∧ deviationClass {} exAll exPart₂ = "" ∧
    deviationClass {} exAll (exRows ++ exPart₂) = "" := by decide +kernel
/-- the converse of `deviation_class_of_concat` fails: `SELECT k, COUNT(v) … GROUP BY k` — the part (a, NULL) alone falls into D10
(COUNT(v) creates no entry), the whole (a, NULL), (a, 1) does not -/
def exCountV : AggStmt :=
  { items := [{ name := "k", kind := .groupKey (.column "k") "k", transform := none },
              { name := "count1", kind := .count (some "v") false, transform := none }],
    filter := none, groupBy := some [(.column "k", "k")], having := none, havingAggs := [], havingKeys := [],
    havingVisit := [], limit := none, distinct := false }
example : deviationClass {} exCountV [rowKV 97 .null] = "D10:group-without-value-entry" ∧
    deviationClass {} exCountV ([rowKV 97 .null] ++ [rowKV 97 (.int 1)]) = "" := by decide +kernel

/-- **why the three `= some` hypotheses of the split theorems stay**: `SELECT SUM(v)` — the table of the whole exists while
the second part's does not (after `-2^62 - 2^62` the sum `+ (2^63-1) + 2^62` stays in range; alone it overflows), and the
parts' tables exist while the whole's does not (`(2^63-1) + 1`) -/
def exSum : AggStmt :=
  { items := [{ name := "sum0", kind := .sum (.column "v"), transform := none }], filter := none, groupBy := none,
    having := none, havingAggs := [], havingKeys := [], havingVisit := [], limit := none, distinct := false }
example : table {} exSum ([rowKV 97 (.int (-2^62)), rowKV 97 (.int (-2^62))] ++ [rowKV 97 (.int (2^63-1)), rowKV 97 (.int (2^62))]) =
      some [[.int (2^62 - 1)]] ∧
    table {} exSum [rowKV 97 (.int (2^63-1)), rowKV 97 (.int (2^62))] = none ∧
    table {} exSum [rowKV 97 (.int (2^63-1))] = some [[.int (2^63-1)]] ∧ table {} exSum [rowKV 97 (.int 1)] = some [[.int 1]] ∧
    table {} exSum ([rowKV 97 (.int (2^63-1))] ++ [rowKV 97 (.int 1)]) = none := by decide +kernel

end Sqlgrep.Props.C15
