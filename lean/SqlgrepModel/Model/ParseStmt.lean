import SqlgrepModel.Model.ParseExpr
/-
The statement parser of `src/parsing/parser.rs`: `Parser::parse`, `parse_select`, `parse_join`,
`parse_multiple_create_table`, `parse_create_table`, `parse_regex_mode`, `parse_define_column`, `parse_type`,
mirroring /repo HEAD, on top of the expression parser of `Model/ParseExpr.lean`.

Representation (see `Model/ParseExpr.lean`): the parser state is the *non-empty suffix* `cur :: rest` of the token
vector that starts at `index`, so `current()` / `current_location()` are total by construction — the indexing
invariant `0 ≤ index < tokens.len()` of the Rust code is carried by the representation and tied to the code by the
correspondence check (this is part of the trusted base). The one place where the Rust code indexes with `index = -1`
(`Parser::parse` on an empty token vector: `next` fails and `create_error` indexes `tokens[usize::MAX]`) is the
explicit `ParseOutcome.panic`; the tokenizer never produces an empty vector (it always ends with `End`).

Every result carries the state (`PRes.ok a s | err e s | fuel`): `Parser::parse` looks at the current token
*after* a failed `parse_select` / `parse_multiple_create_table`.

Loops take fuel (one unit per turn); functions without a loop pass their fuel on unchanged.
`Lemmas/ParseFuel.lean` proves that `3·|tokens|+3` always suffices.
-/
namespace Sqlgrep

/-- `try! (a, s) ← e; rest` : the `?` of the Rust code on a state-carrying result — continue with the value and the
new state, or return the error (with the state in which it was raised) / the out-of-fuel answer. It expands to the
explicit three-way `match` used throughout `Model/ParseExpr.lean`. -/
syntax "try! " "(" term ", " term ")" " ← " term "; " term : term
macro_rules
  | `(try! ($a, $s) ← $e; $rest) =>
    `(match ($e) with
      | PRes.ok $a $s => $rest
      | PRes.err e' s' => PRes.err e' s'
      | PRes.fuel => PRes.fuel)

inductive PRegexMode where
  | captures | split
  deriving DecidableEq, Repr, Inhabited

/-- `RegexResultReference` -/
structure PRegexRef where
  pattern : List Char
  group : Nat
  deriving DecidableEq, Repr, Inhabited

/-- one part of a JSON path (`JsonAccess::Field` / `JsonAccess::Array`; `from_linear` nests the parts, the model keeps
the list, which is non-empty wherever the code calls `from_linear`) -/
inductive PJsonStep where
  | field (name : List Char)
  | index (i : Nat)
  deriving DecidableEq, Repr, Inhabited

/-- `ColumnParsing` -/
inductive PColParsing where
  | regex (r : PRegexRef)
  | multiRegex (rs : List PRegexRef)
  | json (path : List PJsonStep)
  deriving DecidableEq, Repr, Inhabited

/-- `ParserColumnDefinition` -/
structure PColDef where
  parsing : PColParsing
  name : List Char
  type : VType
  nullable : Option Bool := none
  trim : Option Bool := none
  convert : Option Bool := none
  microseconds : Option Bool := none
  default : Option Value := none
  deriving Repr, Inhabited

/-- `ParserJoinClause` -/
structure PJoin where
  joinerTable : List Char
  joinerFilename : List Char
  leftTable : List Char
  leftColumn : List Char
  rightTable : List Char
  rightColumn : List Char
  isOuter : Bool
  deriving DecidableEq, Repr, Inhabited

/-- `ParserOperationTree::Select` -/
structure PSelect where
  loc : Loc
  projections : List (Option (List Char) × PExpr)
  fromTable : List Char
  fromFile : Option (List Char)
  filter : Option PExpr
  groupBy : Option (List PExpr)
  having : Option PExpr
  join : Option PJoin
  limit : Option Nat
  distinct : Bool
  deriving Repr, Inhabited

/-- `ParserOperationTree::CreateTable` -/
structure PCreate where
  loc : Loc
  endLoc : Loc
  name : List Char
  patterns : List (List Char × List Char × PRegexMode)
  columns : List PColDef
  deriving Repr, Inhabited

/-- `ParserOperationTree` (`Multiple` only ever holds `CreateTable`s: `parse_multiple_create_table` is its only
producer) -/
inductive POp where
  | select (q : PSelect)
  | createTable (c : PCreate)
  | multiple (cs : List PCreate)
  deriving Repr, Inhabited

/-- the five optional clauses of a SELECT, each in its own slot -/
structure Clauses where
  filter : Option PExpr := none
  groupBy : Option (List PExpr) := none
  having : Option PExpr := none
  join : Option PJoin := none
  limit : Option Nat := none
  deriving Repr, Inhabited

/-- what `Parser::parse` answers on a token vector -/
inductive ParseOutcome where
  | tree (t : POp)
  | error (e : PErr)
  | fuel
  | panic
  deriving Repr, Inhabited

namespace Parse

/-- `x as usize` for an `i64` -/
def asUsize (i : Int) : Nat := (i % 18446744073709551616).toNat

/-- `parse_join` (called on `INNER` / `OUTER`) -/
def parseJoin (isOuter : Bool) (s : PSt) : PRes PJoin :=
  try! (_, s) ← next s;
  try! (_, s) ← expectConsume (.kw .join) (.expectedKeyword .join) s;
  try! (joinerTable, s) ← consumeIdentifier s;
  try! (_, s) ← expectConsume .dcolon .expectedDoubleColon s;
  try! (joinerFilename, s) ← consumeString s;
  try! (_, s) ← expectConsume (.kw .on) (.expectedKeyword .on) s;
  try! (leftTable, s) ← consumeIdentifier s;
  try! (_, s) ← expectConsumeOp (.single '.') s;
  try! (leftColumn, s) ← consumeIdentifier s;
  try! (_, s) ← expectConsumeOp (.single '=') s;
  try! (rightTable, s) ← consumeIdentifier s;
  try! (_, s) ← expectConsumeOp (.single '.') s;
  try! (rightColumn, s) ← consumeIdentifier s;
  .ok { joinerTable, joinerFilename, leftTable, leftColumn, rightTable, rightColumn, isOuter } s

/-- `match self.current() { Token::Keyword(Keyword::As) => { self.next()?; name = Some(self.consume_identifier()?) } _ => {} }` -/
def optAlias (s : PSt) : PRes (Option (List Char)) :=
  if s.cur.tok = .kw .as then
    try! (_, s) ← next s;
    try! (n, s) ← consumeIdentifier s;
    .ok (some n) s
  else .ok none s

/-- `if self.current() == &Token::Keyword(Keyword::Distinct) { self.next()?; distinct = true }` -/
def optDistinct (s : PSt) : PRes Bool :=
  if s.cur.tok = .kw .distinct then
    try! (_, s) ← next s;
    .ok true s
  else .ok false s

/-- `if self.current() == &Token::DoubleColon { self.next()?; filename = Some(self.consume_string()?) }` -/
def optFile (s : PSt) : PRes (Option (List Char)) :=
  if s.cur.tok = .dcolon then
    try! (_, s) ← next s;
    try! (f, s) ← consumeString s;
    .ok (some f) s
  else .ok none s

/-- `if self.current() == &Token::SemiColon { self.next()?; }` -/
def optSemi (s : PSt) : PRes Unit :=
  if s.cur.tok = .semi then next s else .ok () s

/-- the projection loop of `parse_select`: one `expr [AS name]` per turn, ended by `FROM` -/
def projLoop (T : PrecTables) (fuel : Nat) (acc : List (Option (List Char) × PExpr)) (s : PSt) :
    PRes (List (Option (List Char) × PExpr)) :=
  match fuel with
  | 0 => .fuel
  | fuel + 1 =>
    try! (projection, s) ← parseExpr T fuel s;
    try! (name, s) ← optAlias s;
    let acc := acc ++ [(name, projection)]
    if s.cur.tok = .comma then
      try! (_, s) ← next s;
      projLoop T fuel acc s
    else if s.cur.tok = .kw .from then
      try! (_, s) ← next s;
      .ok acc s
    else mkErr s .expectedProjectionContinuation

/-- `while let Token::Comma = self.current() { self.next()?; keys.push(parse_expression_internal()?) }` -/
def groupKeysLoop (T : PrecTables) (fuel : Nat) (acc : List PExpr) (s : PSt) : PRes (List PExpr) :=
  match fuel with
  | 0 => .fuel
  | fuel + 1 =>
    if s.cur.tok = .comma then
      try! (_, s) ← next s;
      try! (e, s) ← parseExpr T fuel s;
      groupKeysLoop T fuel (acc ++ [e]) s
    else .ok acc s

/-- one turn of the clause loop of `parse_select`: the clause at the current token goes into its own slot; the
flag is the `break` of the `;` arm. Note where each `AlreadyHave…` check sits relative to `next`: WHERE and GROUP BY
are checked *after* the keyword(s) were consumed, JOIN / HAVING / LIMIT before. -/
def clauseTurn (T : PrecTables) (fuel : Nat) (c : Clauses) (s : PSt) : PRes (Clauses × Bool) :=
  if s.cur.tok = .kw .where then
    try! (_, s) ← next s;
    if c.filter.isSome then mkErr s .alreadyHaveWhere
    else
      try! (e, s) ← parseExpr T fuel s;
      .ok ({ c with filter := some e }, false) s
  else if s.cur.tok = .kw .inner then
    if c.join.isSome then mkErr s .alreadyHaveJoin
    else
      try! (j, s) ← parseJoin false s;
      .ok ({ c with join := some j }, false) s
  else if s.cur.tok = .kw .outer then
    if c.join.isSome then mkErr s .alreadyHaveJoin
    else
      try! (j, s) ← parseJoin true s;
      .ok ({ c with join := some j }, false) s
  else if s.cur.tok = .kw .group then
    try! (_, s) ← next s;
    try! (_, s) ← expectConsume (.kw .by) (.expectedKeyword .by) s;
    if c.groupBy.isSome then mkErr s .alreadyHaveGroupBy
    else
      try! (k, s) ← parseExpr T fuel s;
      try! (keys, s) ← groupKeysLoop T fuel [k] s;
      .ok ({ c with groupBy := some keys }, false) s
  else if s.cur.tok = .kw .having then
    if c.having.isSome then mkErr s .alreadyHaveHaving
    else
      try! (_, s) ← next s;
      try! (e, s) ← parseExpr T fuel s;
      .ok ({ c with having := some e }, false) s
  else if s.cur.tok = .kw .limit then
    if c.limit.isSome then mkErr s .alreadyHaveLimit
    else
      try! (_, s) ← next s;
      try! (n, s) ← consumeInt s;
      .ok ({ c with limit := some (asUsize n) }, false) s
  else if s.cur.tok = .semi then
    try! (_, s) ← next s;
    .ok (c, true) s
  else mkErr s (.expectedAnyKeyword [.where, .group])

/-- the clause loop of `parse_select`: one clause per turn, until `;` (consumed) or `End` -/
def clauseLoop (T : PrecTables) (fuel : Nat) (c : Clauses) (s : PSt) : PRes Clauses :=
  match fuel with
  | 0 => .fuel
  | fuel + 1 =>
    try! (cb, s) ← clauseTurn T fuel c s;
    if cb.2 then .ok cb.1 s
    else if s.cur.tok = .eof then .ok cb.1 s
    else clauseLoop T fuel cb.1 s

/-- `if self.current() != &Token::End { loop { … } }` -/
def clauses (T : PrecTables) (fuel : Nat) (s : PSt) : PRes Clauses :=
  if s.cur.tok ≠ .eof then clauseLoop T fuel {} s else .ok {} s

/-- `parse_select` (called on `SELECT`) -/
def parseSelect (T : PrecTables) (fuel : Nat) (s : PSt) : PRes POp :=
  try! (_, s) ← next s;
  try! (distinct, s) ← optDistinct s;
  let loc := s.cur.loc
  try! (projections, s) ← projLoop T fuel [] s;
  try! (fromTable, s) ← consumeIdentifier s;
  try! (fromFile, s) ← optFile s;
  try! (c, s) ← clauses T fuel s;
  .ok (.select { loc, projections, fromTable, fromFile, filter := c.filter, groupBy := c.groupBy, having := c.having,
                 join := c.join, limit := c.limit, distinct }) s

/-- `parse_regex_mode` -/
def parseRegexMode (s : PSt) : PRes PRegexMode :=
  match s.cur.tok with
  | .ident i =>
    if lowerChars i = "split".toList then
      try! (_, s) ← next s;
      .ok .split s
    else if lowerChars i = "match".toList then
      try! (_, s) ← next s;
      .ok .captures s
    else .ok .captures s
  | _ => .ok .captures s

/-- the `while self.current() == &Token::LeftSquareParentheses` loop of `parse_type`: counts the `[]` pairs -/
def typeBrackets (fuel : Nat) (n : Nat) (s : PSt) : PRes Nat :=
  match fuel with
  | 0 => .fuel
  | fuel + 1 =>
    if s.cur.tok = .lsq then
      try! (_, s) ← next s;
      try! (_, s) ← expectConsume .rsq .expectedRightSquareParentheses s;
      typeBrackets fuel (n + 1) s
    else .ok n s

/-- `ValueType::from_str` on `ident ++ "[]"^n` (an identifier token contains no `[`, so `rfind("[]")` strips exactly
the appended pairs, last first) -/
def arrayOf : Nat → VType → VType
  | 0, t => t
  | n + 1, t => .array (arrayOf n t)

def bracketSuffix : Nat → List Char
  | 0 => []
  | n + 1 => '[' :: ']' :: bracketSuffix n

/-- `parse_type` -/
def parseType (fuel : Nat) (s : PSt) : PRes VType :=
  let loc := s.cur.loc
  try! (name, s) ← consumeIdentifier s;
  try! (n, s) ← typeBrackets fuel 0 s;
  match VType.ofIdent (lowerChars name) with
  | some t => .ok (arrayOf n t) s
  | none => .err ⟨loc, .notDefinedType (name ++ bracketSuffix n)⟩ s

/-- `parse_define_column` -/
def parseDefineColumn (T : PrecTables) (fuel : Nat) (parsing : PColParsing) (s : PSt) : PRes PColDef :=
  try! (name, s) ← consumeIdentifier s;
  try! (type, s) ← parseType fuel s;
  let base : PColDef := { parsing, name, type }
  match s.cur.tok with
  | .kw .not =>
    try! (_, s) ← next s;
    try! (_, s) ← expectConsume .null .expectedNull s;
    .ok { base with nullable := some false } s
  | .kw .default =>
    try! (_, s) ← next s;
    try! (e, s) ← parsePrimary T fuel s;
    match e with
    | .value _ v =>
      match v.valueType with
      | some vt =>
        if vt ≠ type then mkErr s (.expectedDefaultValueOfType type)
        else .ok { base with default := some v } s
      | none => .ok { base with default := some v } s
    | _ => mkErr s .expectedValueForDefaultValue
  | .ident i =>
    if lowerChars i = "trim".toList then
      if type ≠ .text then mkErr s .trimOnlyForString
      else
        try! (_, s) ← next s;
        .ok { base with trim := some true } s
    else if lowerChars i = "convert".toList then
      try! (_, s) ← next s;
      .ok { base with convert := some true } s
    else if lowerChars i = "microseconds".toList then
      try! (_, s) ← next s;
      .ok { base with microseconds := some true } s
    else .ok base s
  | _ => .ok base s

/-- the inner `loop` of a multi-reference column `a[1], b[2], … =>`: entered on the `,`; one `name[i]` per turn -/
def refLoop (fuel : Nat) (acc : List PRegexRef) (s : PSt) : PRes (List PRegexRef) :=
  match fuel with
  | 0 => .fuel
  | fuel + 1 =>
    try! (_, s) ← next s;
    try! (name, s) ← consumeIdentifier s;
    try! (_, s) ← expectConsume .lsq .expectedLeftSquareParentheses s;
    try! (g, s) ← consumeInt s;
    try! (_, s) ← expectConsume .rsq .expectedRightSquareParentheses s;
    let acc := acc ++ [{ pattern := name, group := asUsize g }]
    if s.cur.tok = .rarrow then .ok acc s
    else if s.cur.tok = .comma then refLoop fuel acc s
    else mkErr s .expectedRightArrow

/-- the JSON-path loop `{ .a [0] .b }`: entered after the `{`; one part per turn, ended by (and consuming) `}` -/
def jsonLoop (fuel : Nat) (acc : List PJsonStep) (s : PSt) : PRes (List PJsonStep) :=
  match fuel with
  | 0 => .fuel
  | fuel + 1 =>
    if s.cur.tok = .op (.single '.') then
      try! (_, s) ← next s;
      try! (name, s) ← consumeIdentifier s;
      jsonLoop fuel (acc ++ [.field name]) s
    else if s.cur.tok = .lsq then
      try! (_, s) ← next s;
      try! (i, s) ← consumeInt s;
      try! (_, s) ← expectConsume .rsq .expectedRightSquareParentheses s;
      jsonLoop fuel (acc ++ [.index (asUsize i)]) s
    else if s.cur.tok = .rcu then
      try! (_, s) ← next s;
      .ok acc s
    else mkErr s .expectedJsonColumnPartStart

/-- `format!("_pattern{}", n)` -/
def inlinePatternName (n : Nat) : List Char := "_pattern".toList ++ (toString n).toList

/-- `if self.current() == &Token::Comma { loop { … } }` after the first `name[i]` of a column -/
def optRefs (fuel : Nat) (first : PRegexRef) (s : PSt) : PRes (List PRegexRef) :=
  if s.cur.tok = .comma then refLoop fuel [first] s else .ok [first] s

/-- `ColumnParsing::Regex` for one reference, `MultiRegex` otherwise -/
def parsingOfRefs : List PRegexRef → PColParsing
  | [r] => .regex r
  | rs => .multiRegex rs

abbrev Patterns := List (List Char × List Char × PRegexMode)

/-- one item of `parse_create_table`: a pattern definition or a column definition; `none` = the `)` arm (`break`) -/
def colItem (T : PrecTables) (fuel : Nat) (patterns : Patterns) (columns : List PColDef) (s : PSt) :
    PRes (Option (Patterns × List PColDef)) :=
  match s.cur.tok with
  | .ident patternName =>
    try! (_, s) ← next s;
    if s.cur.tok = .op (.single '=') then
      try! (_, s) ← next s;
      try! (mode, s) ← parseRegexMode s;
      try! (pattern, s) ← consumeString s;
      .ok (some (patterns ++ [(patternName, pattern, mode)], columns)) s
    else if s.cur.tok = .lsq then
      try! (_, s) ← next s;
      try! (g, s) ← consumeInt s;
      try! (_, s) ← expectConsume .rsq .expectedRightSquareParentheses s;
      try! (refs, s) ← optRefs fuel { pattern := patternName, group := asUsize g } s;
      try! (_, s) ← expectConsume .rarrow .expectedRightArrow s;
      try! (col, s) ← parseDefineColumn T fuel (parsingOfRefs refs) s;
      .ok (some (patterns, columns ++ [col])) s
    else mkErr s .expectedColumnDefinitionStart
  | .str pattern =>
    try! (_, s) ← next s;
    try! (_, s) ← expectConsume .rarrow .expectedRightArrow s;
    try! (col, s) ← parseDefineColumn T fuel (.regex { pattern := inlinePatternName patterns.length, group := 1 }) s;
    .ok (some (patterns ++ [(inlinePatternName patterns.length, pattern, .captures)], columns ++ [col])) s
  | .lcu =>
    try! (_, s) ← next s;
    try! (parts, s) ← jsonLoop fuel [] s;
    try! (_, s) ← expectConsume .rarrow .expectedRightArrow s;
    if parts.isEmpty then mkErr s .expectedJsonColumnPartStart
    else
      try! (col, s) ← parseDefineColumn T fuel (.json parts) s;
      .ok (some (patterns, columns ++ [col])) s
  | .rp =>
    try! (_, s) ← next s;
    .ok none s
  | _ => mkErr s .expectedColumnDefinitionStart

/-- the item loop of `parse_create_table`: one pattern definition or column definition per turn; ends after the
closing `)` was consumed -/
def colLoop (T : PrecTables) (fuel : Nat) (patterns : Patterns) (columns : List PColDef) (s : PSt) :
    PRes (Patterns × List PColDef) :=
  match fuel with
  | 0 => .fuel
  | fuel + 1 =>
    try! (r, s) ← colItem T fuel patterns columns s;
    match r with
    | none => .ok (patterns, columns) s
    | some pc =>
      if s.cur.tok = .comma then
        try! (_, s) ← next s;
        colLoop T fuel pc.1 pc.2 s
      else if s.cur.tok = .rp then
        try! (_, s) ← next s;
        .ok pc s
      else mkErr s .expectedColumnDefinitionContinuation

/-- `parse_create_table` (called on `CREATE`) -/
def parseCreateTable (T : PrecTables) (fuel : Nat) (s : PSt) : PRes PCreate :=
  let loc := s.cur.loc
  try! (_, s) ← next s;
  try! (_, s) ← expectConsume (.kw .table) (.expectedKeyword .table) s;
  try! (name, s) ← consumeIdentifier s;
  try! (_, s) ← expectConsume .lp .expectedLeftParentheses s;
  try! (pc, s) ← colLoop T fuel [] [] s;
  try! (_, s) ← expectConsume .semi .expectedSemiColon s;
  .ok { loc, endLoc := s.cur.loc, name, patterns := pc.1, columns := pc.2 } s

/-- `if operations.len() == 1 { operations.remove(0) } else { Multiple(operations) }` -/
def opOfCreates : List PCreate → POp
  | [one] => .createTable one
  | many => .multiple many

/-- `parse_multiple_create_table`: one `CREATE TABLE … ;` per turn while the next token is `CREATE` -/
def multiCreateLoop (T : PrecTables) (fuel : Nat) (acc : List PCreate) (s : PSt) : PRes POp :=
  match fuel with
  | 0 => .fuel
  | fuel + 1 =>
    try! (c, s) ← parseCreateTable T fuel s;
    let acc := acc ++ [c]
    if s.cur.tok ≠ .kw .create then .ok (opOfCreates acc) s
    else multiCreateLoop T fuel acc s

/-- the statement parser `Parser::parse` dispatches to -/
def parseStatement (T : PrecTables) (fuel : Nat) (s : PSt) : PRes POp :=
  if s.cur.tok = .kw .select then parseSelect T fuel s else multiCreateLoop T fuel [] s

/-- `Parser::parse` after its first `next()`: dispatch, the optional `;` (looked for whatever the statement parser
answered, in the state it left), the `TooManyTokens` check -/
def parseOp (T : PrecTables) (fuel : Nat) (s : PSt) : PRes POp :=
  if s.cur.tok ≠ .kw .select ∧ s.cur.tok ≠ .kw .create then mkErr s (.expectedAnyKeyword [.select, .create])
  else
    match parseStatement T fuel s with
    | .fuel => .fuel
    | .ok op s =>
      try! (_, s) ← optSemi s;
      if s.rest.isEmpty then .ok op s else mkErr s .tooManyTokens
    | .err e s =>
      try! (_, s) ← optSemi s;
      .err e s

/-- `Parser::new(…, tokens).parse()` with explicit fuel -/
def parseTokensFuel (T : PrecTables) (fuel : Nat) (toks : List PTok) : ParseOutcome :=
  match toks with
  | [] => .panic          -- `next()` fails and `create_error` indexes `tokens[usize::MAX]`
  | t :: ts =>
    match parseOp T fuel { cur := t, rest := ts } with
    | .ok op _ => .tree op
    | .err e _ => .error e
    | .fuel => .fuel

/-- the fuel `Parser::parse` is run with: `Lemmas/ParseFuel.lean` shows it is never exhausted -/
def fuelBound (n : Nat) : Nat := 3 * n + 3

/-- `Parser::new(&BinaryOperators::new(), &UnaryOperators::new(), tokens).parse()` -/
def parseTokens (T : PrecTables) (toks : List PTok) : ParseOutcome :=
  parseTokensFuel T (fuelBound toks.length) toks

end Parse
end Sqlgrep
