import SqlgrepModel.Model.Expr
import SqlgrepModel.Model.Float
import SqlgrepModel.Model.CivilE
import SqlgrepModel.Model.Text
import SqlgrepModel.Model.DecFloat
import SqlgrepModel.Model.ParseLit
/-
Expression evaluation: `ExpressionExecutionEngine::evaluate` (src/execution/expression_execution.rs),
`ValueType::parse` and `Display for Value` (src/model.rs) — the repaired code at /repo HEAD
(checked arithmetic, IN/NOT IN with NULL, INT/REAL compared by value).
-/
namespace Sqlgrep

abbrev Bytes := List Nat

/-- The external functions of the evaluator as TOTAL functions — what the libraries are: `str::to_uppercase` /
`to_lowercase` answer for every text, `Regex::new(p)` + `is_match(v)` for every pair (`none` = invalid pattern), the clock
has a reading. Used to STATE totality (property C09) for every statement: with these in place no lookup the evaluator
can make is unanswered (`Lemmas/NoSkip.lean` `NM_callFunction_total`). The driver never has them — it works from the
finite tables below, and answers `skip` where a table has no entry. -/
structure TotalOracles where
  upperF : Bytes → Bytes
  lowerF : Bytes → Bytes
  regexF : Bytes → Bytes → Option Bool
  nowF : Value

/-- facts about external libraries shipped with a case (computed by the harness calling them directly) -/
structure Oracles where
  fparse : List (Bytes × Option Nat) := []                    -- `f64::from_str`
  tsparse : List (Bytes × Option (Int × Int × Int)) := []     -- `NaiveDateTime::parse_from_str(_, "%Y-%m-%d %H:%M:%S")` in UTC
  regex : List ((Bytes × Bytes) × Option Bool) := []          -- (value, pattern) ↦ is_match; `none` = invalid pattern
  upper : List (Bytes × Bytes) := []                          -- `str::to_uppercase` (non-ASCII input)
  lower : List (Bytes × Bytes) := []
  /-- the total functions standing behind the tables, asked where a table has no entry (and for `now()`); `none` in
  every `Oracles` the driver builds: a missing entry is then `oracleMissing` (the case answers `skip`) -/
  total : Option TotalOracles := none

instance : Inhabited Oracles := ⟨{}⟩

/-- every lookup the evaluator can make is answered -/
def Oracles.Total (O : Oracles) : Prop := ∃ T, O.total = some T

/-- the oracle made of total functions alone (no table) -/
def TotalOracles.oracles (T : TotalOracles) : Oracles := { total := some T }

def lookupB {β : Type} (tbl : List (Bytes × β)) (k : Bytes) : Option β :=
  (tbl.find? (fun p => p.1 == k)).map (·.2)

/-- the column provider of one evaluation -/
structure Env where
  table : List (String × Value) := []
  aggValue : List (String × Value) := []
  groupKeys : List (String × Value) := []      -- keyed by canonical text of the GROUP BY part
  groupValues : List (Nat × Value) := []       -- keyed by HAVING aggregate id
  deriving Inhabited

def Env.get (env : Env) (s : Scope) (name : String) : Option Value :=
  let tbl := match s with
    | .table => env.table
    | .aggValue => env.aggValue
    | .groupKey => env.groupKeys
    | .groupValue => []
  (tbl.find? (fun p => p.1 == name)).map (·.2)

def i64Min : Int := -9223372036854775808
def i64Max : Int := 9223372036854775807
def inI64 (n : Int) : Bool := i64Min ≤ n && n ≤ i64Max
def checked (n : Int) : Option Int := if inI64 n then some n else none

/-! ### literals (`ValueType::parse`) -/

def digitVal (b : Nat) : Option Nat := if 48 ≤ b && b ≤ 57 then some (b - 48) else none

def parseDigits : List Nat → Option Nat → Option Nat
  | [], acc => acc
  | b :: rest, acc =>
    match digitVal b with
    | some d => parseDigits rest (some ((acc.getD 0) * 10 + d))
    | none => none

/-- `i64::from_str`: optional single sign, at least one ASCII digit, nothing else, in range -/
def parseI64 (s : Bytes) : Option Int :=
  match s with
  | 45 :: rest => (parseDigits rest none).bind (fun n => checked (-(n : Int)))
  | 43 :: rest => (parseDigits rest none).bind (fun n => checked (n : Int))
  | _ => (parseDigits s none).bind (fun n => checked (n : Int))

def splitOn (sep : Nat) : List Nat → List (List Nat)
  | [] => [[]]
  | b :: rest =>
    if b == sep then [] :: splitOn sep rest
    else match splitOn sep rest with
      | [] => [[b]]
      | p :: ps => (b :: p) :: ps

/-- chrono `TimeDelta` range: ± i64::MAX milliseconds -/
def ivMax : Int := 9223372036854775807 * 1000000
def inIv (ns : Int) : Bool := -ivMax ≤ ns && ns ≤ ivMax

def nsPerSec : Int := 1000000000

/-- `try_hours(h)?.checked_add(try_minutes(m)?)?.checked_add(try_seconds(s)?)?`: `none` when any step
leaves chrono's `TimeDelta` range -/
def mkInterval (h m s : Int) : Option Value :=
  let maxSecs : Int := 9223372036854775807 / 1000
  let okSecs (x : Int) : Bool := -maxSecs ≤ x && x ≤ maxSecs
  if !(inI64 (h * 3600) && okSecs (h * 3600)) then none
  else if !(inI64 (m * 60) && okSecs (m * 60)) then none
  else if !okSecs s then none
  else
    let a := (h * 3600 + m * 60) * nsPerSec
    if !inIv a then none
    else
      let b := a + s * nsPerSec
      if !inIv b then none else some (.interval b)

/-- `ValueType::parse`; `none` = not a literal of the type -/
def parseLit (O : Oracles) (t : VType) (s : Bytes) : Outcome (Option Value) :=
  match t with
  | .int => .ok ((parseI64 s).map .int)
  | .real =>
    -- `f64::from_str`: the shipped fact (a cross-check) or, when none is shipped, `DecFloat.parseF64N`
    match lookupB O.fparse s with
    | some r => .ok (r.map .real)
    | none => .ok ((DecFloat.parseF64N s).map .real)
  | .bool =>
    if s == "true".toUTF8.toList.map (·.toNat) then .ok (some (.bool true))
    else if s == "false".toUTF8.toList.map (·.toNat) then .ok (some (.bool false))
    else .ok none
  | .text => .ok (some (.text s))
  | .array _ => .ok none
  | .timestamp =>
    -- chrono's parse: the shipped fact (a cross-check) or, when none is shipped, `Lit.parseTimestampLit`
    match lookupB O.tsparse s with
    | some r => .ok (r.map (fun (d, sec, f) => .timestamp d sec f))
    | none => .ok (Lit.parseTimestampLit s)
  | .interval =>
    match splitOn 58 s with
    | [a, b, c] =>
      match parseI64 a, parseI64 b, parseI64 c with
      | some h, some m, some sec => .ok (mkInterval h m sec)
      | _, _, _ => .ok none
    | _ => .ok none

/-! ### `Display for Value` -/

def padLeft (width : Nat) (s : String) : String :=
  String.ofList (List.replicate (width - s.length) '0') ++ s

def bytesToString (bs : Bytes) : String :=
  match Utf8.decode bs with
  | some cs => String.ofList cs
  | none => "�"

def strBytes (s : String) : Bytes := s.toUTF8.toList.map (·.toNat)

/-- the text of a non-negative interval; `Display` prints hours first — `{hours}:{minutes}:{seconds}` -/
def displayIntervalAbs (ns : Int) : String :=
  let secs := Int.tdiv ns nsPerSec
  let millis := Int.tdiv ns 1000000
  padLeft 2 (toString (Int.tdiv (Int.tdiv secs 60) 60)) ++ ":" ++ padLeft 2 (toString (Int.tmod (Int.tdiv secs 60) 60)) ++ ":" ++
    padLeft 2 (toString (Int.tmod secs 60)) ++ "." ++ padLeft 3 (toString (millis - secs * 1000))

/-- `Display` of an INTERVAL: a negative interval is the sign followed by the text of its magnitude (/repo bc60604) -/
def displayInterval (ns : Int) : String :=
  if ns < 0 then "-" ++ displayIntervalAbs (-ns) else displayIntervalAbs ns

mutual
def display : Value → String
  | .null => "NULL"
  | .int i => toString i
  | .real b => F64.fmt2 b
  | .bool b => if b then "true" else "false"
  | .text s => "'" ++ bytesToString s ++ "'"
  | .array _ xs => "{" ++ displayList xs ++ "}"
  | .timestamp d s f =>
    let (y, mo, dd) := CivilE.civilOfDays d
    -- chrono `write_year`: four digits inside 0..=9999, otherwise an explicit sign (`{:+05}`)
    (if y > 9999 then "+" else "") ++ CivilE.pad 4 y ++ "-" ++ CivilE.pad 2 mo ++ "-" ++ CivilE.pad 2 dd ++ " " ++
      CivilE.pad 2 (s / 3600) ++ ":" ++ CivilE.pad 2 (s / 60 % 60) ++ ":" ++ CivilE.pad 2 (s % 60 + f / 1000000000) ++ "." ++ CivilE.pad 3 (f / 1000000 % 1000)   -- a leap second prints as 60
  | .interval ns => displayInterval ns
def displayList : List Value → String
  | [] => ""
  | [x] => display x
  | x :: xs => display x ++ ", " ++ displayList xs
end

/-! ### operators -/

def applyCmp (op : CmpOp) (o : Ordering) : Bool :=
  match op with
  | .eq => o == .eq | .ne => o != .eq | .gt => o == .gt | .ge => o != .lt | .lt => o == .lt | .le => o != .gt

/-- the ordering `Compare` uses: INT/REAL by numeric value, otherwise the derived order -/
def compareValues (l r : Value) : Ordering :=
  match l, r with
  | .int x, .real y => F64.cmpIntReal x y
  | .real x, .int y => (F64.cmpIntReal y x).swap
  | _, _ => Value.cmp l r

/-- `Compare` accepts operands of one type, or an INT with a REAL -/
def typesComparable (l r : Value) : Bool :=
  match l, r with
  | .int _, .real _ => true
  | .real _, .int _ => true
  | _, _ => l.valueType == r.valueType

/-- the text of a TEXT operand compared with a TIMESTAMP is parsed as a timestamp -/
def tsOfText (O : Oracles) (s : Bytes) : Outcome Value := do
  let p ← parseLit O .timestamp s
  match p with
  | some v => pure v
  | none => Outcome.error .failedToParseTimestamp

/-- first half of `comparable_operands`: text compared with a timestamp is parsed as a timestamp -/
def coerceTs (O : Oracles) (lv rv : Value) : Outcome (Value × Value) :=
  match lv, rv with
  | .timestamp _ _ _, .text s => (tsOfText O s).bind (fun v => .ok (lv, v))
  | .text s, .timestamp _ _ _ => (tsOfText O s).bind (fun v => .ok (v, rv))
  | _, _ => .ok (lv, rv)

/-- `comparable_operands`: what `Compare` and each member test of `In` do to their two operands before comparing —
text compared with a timestamp is parsed as a timestamp, and two non-NULL operands must then be of one type (INT with
REAL allowed) -/
def prepCompare (O : Oracles) (lv rv : Value) : Outcome (Value × Value) :=
  (coerceTs O lv rv).bind (fun p =>
    if !p.1.isNull && !p.2.isNull && !typesComparable p.1 p.2 then Outcome.error .typeError else .ok p)

def tsTotal (d s f : Int) : Int := (d * 86400 + s) * nsPerSec + f
def tsOfTotal (t : Int) : Value :=
  let secs := t / nsPerSec
  .timestamp (secs / 86400) (secs % 86400) (t % nsPerSec)

/-- `NaiveDateTime::checked_add_signed` before the range check (chrono 0.4.39 `NaiveTime::overflowing_add_signed`): the
timestamp `ns` nanoseconds after `(d, s, f)`. A value in chrono's leap-second representation (`f ≥ 10⁹`: second `:60`)
either **stays inside** its leap second (the interval is shorter than a second and does not reach its end: only the
fraction moves, possibly back into second `:59`), **escapes forwards** (it continues as `hh:mm:59 + (f − 10⁹)`, so the
leap second counts as one elapsed second) or **escapes backwards** (it continues as the following second
`+ (f − 10⁹)`). Results of the two escapes and of every ordinary addition are normalised (`tsOfTotal`), never leap. -/
def tsShift (d s f ns : Int) : Value :=
  if f < nsPerSec then tsOfTotal (tsTotal d s f + ns)
  else
    let secsToAdd := Int.tdiv ns nsPerSec        -- `TimeDelta::num_seconds`: truncated toward zero
    let fracToAdd := Int.tmod ns nsPerSec        -- `TimeDelta::subsec_nanos`: same sign as the interval
    if secsToAdd > 0 || (fracToAdd > 0 && f ≥ 2 * nsPerSec - fracToAdd) then tsOfTotal (tsTotal d s (f - nsPerSec) + ns)
    else if secsToAdd < 0 then tsOfTotal (tsTotal d (s + 1) (f - nsPerSec) + ns)
    else .timestamp d s (f + fracToAdd)

/-- `DateTime::checked_add_signed`: an error when the date leaves chrono's range -/
def tsAdd (d s f ns : Int) : Outcome Value :=
  let r := tsShift d s f ns
  match r with
  | .timestamp d' _ _ =>
    let (y, _, _) := CivilE.civilOfDays d'
    if -262143 ≤ y && y ≤ 262142 then .ok r else .error .undefinedOperation
  | _ => .ok r

/-- `NaiveDateTime::signed_duration_since` (what `timestamp − timestamp` is) in nanoseconds: the difference of the
dates plus `NaiveTime::signed_duration_since`, which counts a leap second between the two times of day when the
EARLIER time of day is in leap representation and the seconds of day differ. On two ordinary timestamps this is the
difference of the instants `tsTotal`. -/
def tsDiff (d s f d' s' f' : Int) : Int :=
  let adj : Int := if s > s' && f' ≥ nsPerSec then 1 else if s < s' && f ≥ nsPerSec then -1 else 0
  (d - d') * 86400 * nsPerSec + (s - s' + adj) * nsPerSec + (f - f')

def ivChecked (ns : Int) : Outcome Value :=
  if inIv ns then .ok (.interval ns) else .error .undefinedOperation

def arith (op : ArithOp) (l r : Value) : Outcome Value :=
  match l, r with
  -- a timestamp moved by an interval: `ts + iv`, `iv + ts` (`checked_add_signed`), `ts − iv` (`checked_sub_signed` =
  -- adding the negated interval); every other operator between the two has no value (/repo 91aa1f4, finding D63)
  | .timestamp d s f, .interval ns =>
    match op with
    | .add => tsAdd d s f ns
    | .sub => tsAdd d s f (-ns)
    | _ => .error .undefinedOperation
  | .interval ns, .timestamp d s f =>
    match op with
    | .add => tsAdd d s f ns
    | _ => .error .undefinedOperation
  | .null, _ => .ok .null
  | _, .null => .ok .null
  | .int x, .int y =>
    let res : Option Int := match op with
      | .add => checked (x + y)
      | .sub => checked (x - y)
      | .mul => checked (x * y)
      | .div => if y == 0 then none else checked (Int.tdiv x y)
    match res with
    | some v => .ok (.int v)
    | none => .error .undefinedOperation
  | .real x, .real y =>
    .ok (.real (match op with
      | .add => F64.add x y | .sub => F64.sub x y | .mul => F64.mul x y | .div => F64.div x y))
  | .timestamp d s f, .timestamp d' s' f' =>
    match op with
    | .sub => .ok (.interval (tsDiff d s f d' s' f'))
    | _ => .error .undefinedOperation
  | .interval x, .interval y =>
    match op with
    | .add => ivChecked (x + y)
    | .sub => ivChecked (x - y)
    | _ => .error .undefinedOperation
  | _, _ => .error .undefinedOperation

def negate (v : Value) : Outcome Value :=
  match v with
  | .null => .ok .null
  | .int x => match checked (-x) with
    | some r => .ok (.int r)
    | none => .error .undefinedOperation
  | .real x => .ok (.real (F64.neg x))
  | _ => .error .undefinedOperation

def invert (v : Value) : Outcome Value :=
  match v with
  | .null => .ok .null
  | .bool b => .ok (.bool (!b))
  | _ => .error .undefinedOperation

/-- `Value::bool()`: used only for the internal "was this value new" flag of COUNT(DISTINCT …) (always a BOOLEAN there);
conditions go through `condHolds` -/
def Value.truthy : Value → Bool
  | .bool b => b
  | _ => false

/-- `condition_holds`: a condition (WHERE, HAVING, an operand of AND / OR, a WHEN clause) holds or does not hold —
a BOOLEAN is its value, NULL does not hold, a value of any other type has no truth value (`TypeError`) -/
def condHolds : Value → Outcome Bool
  | .bool b => .ok b
  | .null => .ok false
  | _ => .error .typeError

/-! ### functions -/

def insertUnique (v : Value) : List Value → List Value
  | [] => [v]
  | x :: xs =>
    match Value.cmp v x with
    | .lt => v :: x :: xs
    | .eq => v :: xs
    | .gt => x :: insertUnique v xs

/-- `unique_values`: `BTreeSet::from_iter(values).into_iter()` — ascending; of equal values (equal in the order but not
identical: `-0.0` / `0.0`, NaN payloads) the LAST one is kept (std collects, sorts stably and de-duplicates the sorted
sequence keeping the later of two equal neighbours) -/
def uniqueValues (xs : List Value) : List Value := xs.foldl (fun acc v => insertUnique v acc) []

def asciiUpper (bs : Bytes) : Bytes := bs.map (fun b => if 97 ≤ b && b ≤ 122 then b - 32 else b)
def asciiLower (bs : Bytes) : Bytes := bs.map (fun b => if 65 ≤ b && b ≤ 90 then b + 32 else b)
def isAscii (bs : Bytes) : Bool := bs.all (· < 128)

def fitsU32 (x : Int) : Bool := 0 ≤ x && x ≤ 4294967295
def fitsI32 (x : Int) : Bool := -2147483648 ≤ x && x ≤ 2147483647

/-- `create_timestamp` in UTC: chrono validity, leap-second representation allowed only for second 59 -/
def createTimestamp (y mo d h mi s us : Int) : Option Value :=
  if CivilE.validDate y mo d && h < 24 && mi < 60 && s < 60 && us < 2000000 && (us < 1000000 || s == 59) then
    some (.timestamp (CivilE.daysFromCE y mo d) (h * 3600 + mi * 60 + s) (us * 1000))
  else none

def tsField (f : Func) (d s : Int) : Int :=
  let (y, mo, dd) := CivilE.civilOfDays d
  match f with
  | .year => y | .month => mo | .day => dd | .hour => s / 3600 | .minute => s / 60 % 60 | _ => s % 60

def truncSpan (part : Bytes) : Option Int :=
  if part == strBytes "hour" then some (3600 * nsPerSec)
  else if part == strBytes "minute" then some (60 * nsPerSec)
  else if part == strBytes "second" then some nsPerSec
  else if part == strBytes "milliseconds" then some 1000000
  else if part == strBytes "microseconds" then some 1000
  else none

/-- `DateTime::timestamp_nanos_opt`: nanoseconds since 1970 as an `i64` (the nanosecond field — up to 2·10⁹ − 1 in leap
representation — is added to the whole seconds), with chrono's detour for negative times and its two overflow checks -/
def stampNs (d s f : Int) : Option Int :=
  let ts := (d - 719163) * 86400 + s
  if ts < 0 then (checked ((ts + 1) * nsPerSec)).bind (fun x => checked (x + (f - nsPerSec)))
  else (checked (ts * nsPerSec)).bind (fun x => checked (x + f))

/-- `date_trunc`. Sub-day parts are chrono's `DurationRound::duration_trunc`: `original − (stamp mod span)` where the
subtraction is `checked_sub_signed` (`tsShift`; inside the i64-nanosecond window it cannot leave chrono's date range:
`Lemmas/FuncLeap.lean` `dateTrunc_shift_in_range`, so the `expect` in `DateTime − TimeDelta` is not reachable) -/
def dateTrunc (part : Bytes) (d s f : Int) : Outcome Value :=
  let (y, mo, dd) := CivilE.civilOfDays d
  if part == strBytes "year" then .ok (.timestamp (CivilE.daysFromCE y 1 1) 0 0)
  else if part == strBytes "month" then .ok (.timestamp (CivilE.daysFromCE y mo 1) 0 0)
  else if part == strBytes "day" then .ok (.timestamp (CivilE.daysFromCE y mo dd) 0 0)
  else match truncSpan part with
    | none => .error .invalidTruncatePart
    | some span =>
      match stampNs d s f with
      | none => .error .failedToTruncate
      | some stamp => .ok (tsShift d s f (-(stamp % span)))

/-- `make_timestamp` on INT parts: parts that do not fit their machine field give NULL, like any other invalid date -/
def makeTimestampOf (y mo d h mi s us : Int) : Outcome Value :=
  if fitsI32 y && fitsU32 mo && fitsU32 d && fitsU32 h && fitsU32 mi && fitsU32 s && fitsU32 us then
    .ok ((createTimestamp y mo d h mi s us).getD .null)
  else .ok .null

def callFunction (O : Oracles) (f : Func) (args : List Value) : Outcome Value :=
  let undef : Outcome Value := .error .undefinedFunction
  match f, args with
  | .greatest, [a, b] =>
    match a, b with
    | .null, _ => .ok .null
    | _, .null => .ok .null
    | .int x, .int y => .ok (.int (max x y))
    | .real x, .real y => .ok (.real (F64.fmax x y))
    | .timestamp d s f, .timestamp d' s' f' => .ok (if Value.cmp a b == .lt then .timestamp d' s' f' else .timestamp d s f)
    | .interval x, .interval y => .ok (.interval (max x y))
    | _, _ => undef
  | .least, [a, b] =>
    match a, b with
    | .null, _ => .ok .null
    | _, .null => .ok .null
    | .int x, .int y => .ok (.int (min x y))
    | .real x, .real y => .ok (.real (F64.fmin x y))
    | .timestamp d s f, .timestamp d' s' f' => .ok (if Value.cmp b a == .lt then .timestamp d' s' f' else .timestamp d s f)
    | .interval x, .interval y => .ok (.interval (min x y))
    | _, _ => undef
  | .abs, [a] =>
    match a with
    | .null => .ok .null
    | .int x => match checked (if x < 0 then -x else x) with
      | some r => .ok (.int r)
      | none => undef
    | .real x => .ok (.real (F64.abs x))
    | .interval x => .ok (.interval (if x < 0 then -x else x))
    | _ => undef
  | .sqrt, [a] =>
    match a with
    | .null => .ok .null
    | .real x => .ok (.real (F64.sqrt x))
    | _ => undef
  | .pow, [a, b] =>
    match a, b with
    | .null, _ => .ok .null
    | _, .null => .ok .null
    | .int x, .int y =>
      if y < 0 || y > 4294967295 then undef
      else if x == 0 then .ok (.int (if y == 0 then 1 else 0))
      else if x == 1 then .ok (.int 1)
      else if x == -1 then .ok (.int (if y % 2 == 0 then 1 else -1))
      else if y > 64 then undef
      else match checked (x ^ y.toNat) with
        | some r => .ok (.int r)
        | none => undef
    | .real x, .real y => .ok (.real (F64.pow x y))
    | _, _ => undef
  | .length, [a] =>
    match a with
    | .text s => .ok (.int (Utf8.charCount s))
    | _ => undef
  | .upper, [a] =>
    match a with
    | .text s =>
      if isAscii s then .ok (.text (asciiUpper s))
      else match lookupB O.upper s with
        | some r => .ok (.text r)
        | none =>
          match O.total with
          | some T => .ok (.text (T.upperF s))
          | none => .oracleMissing "upper"
    | _ => undef
  | .lower, [a] =>
    match a with
    | .text s =>
      if isAscii s then .ok (.text (asciiLower s))
      else match lookupB O.lower s with
        | some r => .ok (.text r)
        | none =>
          match O.total with
          | some T => .ok (.text (T.lowerF s))
          | none => .oracleMissing "lower"
    | _ => undef
  | .regexMatches, [a, b] =>
    match a, b with
    | .text v, .text p =>
      match (O.regex.find? (fun e => e.1.1 == v && e.1.2 == p)).map (·.2) with
      | some (some m) => .ok (.bool m)
      | some none => .error .invalidRegex
      | none =>
        match O.total with
        | some T =>
          match T.regexF v p with
          | some m => .ok (.bool m)
          | none => .error .invalidRegex
        | none => .oracleMissing "regex"
    | .null, .text _ => .ok (.bool false)
    | _, _ => undef
  | .createArray, args =>
    match args.filterMap Value.valueType with
    | [] => .error .expectedArrayElementType
    | t :: ts => if ts.all (· == t) then .ok (.array t args) else .error .typeError
  | .arrayUnique, [a] =>
    match a with
    | .array t xs => .ok (.array t (uniqueValues xs))
    | _ => undef
  | .arrayLength, [a] =>
    match a with
    | .array _ xs => .ok (.int xs.length)
    | _ => undef
  | .arrayCat, [a, b] =>
    match a, b with
    | .array t xs, .array u ys => if t == u then .ok (.array t (xs ++ ys)) else undef
    | _, _ => undef
  | .arrayAppend, [a, b] =>
    match a with
    | .array t xs => if some t == b.valueType then .ok (.array t (xs ++ [b])) else undef
    | _ => undef
  | .arrayPrepend, [a, b] =>
    match b with
    | .array t xs => if some t == a.valueType then .ok (.array t (a :: xs)) else undef
    | _ => undef
  | .now, [] =>
    -- the model has no clock of its own: the reading is an external fact, never shipped with a case
    match O.total with
    | some T => .ok T.nowF
    | none => .oracleMissing "now"
  -- the documented seven arguments; an eighth one used to be required (finding D64, /repo 7252aee) and is still
  -- accepted but never read
  | .makeTimestamp, [.int y, .int mo, .int d, .int h, .int mi, .int s, .int us, _] => makeTimestampOf y mo d h mi s us
  | .makeTimestamp, [.int y, .int mo, .int d, .int h, .int mi, .int s, .int us] => makeTimestampOf y mo d h mi s us
  | .makeTimestamp, [_, _, _, _, _, _, _, _] => undef
  | .makeTimestamp, [_, _, _, _, _, _, _] => undef
  | .epoch, [a] =>
    match a with
    | .timestamp d s f =>
      -- `timestamp_millis() as f64 / 1000.0`: whole seconds · 1000 + nanoseconds / 10⁶ (up to 1999 in a leap second)
      .ok (.real (F64.div (F64.ofInt ((d - 719163) * 86400000 + s * 1000 + f / 1000000)) (F64.ofInt 1000)))
    | _ => undef
  | .dateTrunc, [a, b] =>
    match a, b with
    | .text part, .timestamp d s f => dateTrunc part d s f
    | _, _ => undef
  | fn, [a] =>
    if fn == .year || fn == .month || fn == .day || fn == .hour || fn == .minute || fn == .second then
      match a with
      | .timestamp d s _ => .ok (.int (tsField fn d s))
      | _ => undef
    else undef
  | _, _ => undef

def castValue (O : Oracles) (v : Value) (t : VType) : Outcome Value :=
  match v with
  | .text s => (parseLit O t s).bind (fun r => match r with
      | some x => .ok x
      | none => .error .failedToConvert)
  | .interval ns =>
    if t == .int then .ok (.int (Int.tdiv ns nsPerSec))
    else if t == .real then .ok (.real (F64.div (F64.ofInt (Int.tdiv ns 1000000)) (F64.ofInt 1000)))
    else if t == .interval then .ok v
    else if t == .text then .ok (.text (strBytes (display v)))
    else .error .typeError
  | .null => if t == .text then .ok (.text (strBytes "NULL")) else .error .expectedNonNull
  | _ =>
    if v.valueType == some t then .ok v
    else if t == .text then .ok (.text (strBytes (display v)))
    else .error .typeError

/-! ### the evaluator -/

mutual
def eval (O : Oracles) (env : Env) : Expr → Outcome Value
  | .value v => .ok v
  | .column name => Outcome.ofOption .columnNotFound (env.get .table name)
  | .scoped s name => Outcome.ofOption .columnNotFound (env.get s name)
  | .wildcard => .error .undefinedOperation
  | .compare op l r => do
    let lv ← eval O env l
    let rv ← eval O env r
    let (lv, rv) ← prepCompare O lv rv
    if !lv.isNull && !rv.isNull then pure (.bool (applyCmp op (compareValues lv rv)))
    else pure (.bool false)
  | .nullCmp isNot l r => do
    let lv ← eval O env l
    let rv ← eval O env r
    pure (.bool (if isNot then !(Value.beq lv rv) else Value.beq lv rv))
  | .arith op l r => do
    let lv ← eval O env l
    let rv ← eval O env r
    arith op lv rv
  | .boolOp isAnd l r => do
    let lv ← eval O env l
    let lb ← condHolds lv
    if isAnd then
      if lb then do
        let rv ← eval O env r
        let rb ← condHolds rv
        pure (.bool rb)
      else pure (.bool false)
    else
      if lb then pure (.bool true)
      else do
        let rv ← eval O env r
        let rb ← condHolds rv
        pure (.bool rb)
  | .neg e => do
    let v ← eval O env e
    negate v
  | .not e => do
    let v ← eval O env e
    invert v
  | .inList isNot e vs => do
    let v ← eval O env e
    evalIn O env isNot v v.isNull vs
  | .call f args => do
    let vs ← evalList O env args
    callFunction O f vs
  | .index a i => do
    let av ← eval O env a
    match av with
    | .array _ xs => do
      let iv ← eval O env i
      match iv with
      | .int n => pure (if n ≥ 1 then (xs[(n - 1).toNat]?).getD .null else .null)
      | _ => Outcome.error .expectedArrayIndexInt
    | _ => Outcome.error .expectedArray
  | .cast e t => do
    let v ← eval O env e
    castValue O v t
  | .case clauses els => do
    let r ← evalCase O env clauses
    match r with
    | some v => pure v
    | none => eval O env els
  | .groupKeyRef canon => Outcome.ofOption .groupKeyNotFound (env.get .groupKey canon)
  | .groupValueRef id => Outcome.ofOption .groupValueNotFound ((env.groupValues.find? (fun p => p.1 == id)).map (·.2))
def evalList (O : Oracles) (env : Env) : List Expr → Outcome (List Value)
  | [] => .ok []
  | e :: es => do
    let v ← eval O env e
    let vs ← evalList O env es
    pure (v :: vs)
/-- `In`: the first member equal to the operand (compared like `=`) decides; otherwise NOT IN is true only when no NULL
was involved; a member that `=` could not compare with the operand (another type, unparsable timestamp text) is an error -/
def evalIn (O : Oracles) (env : Env) (isNot : Bool) (v : Value) (anyNull : Bool) : List Expr → Outcome Value
  | [] => .ok (.bool (isNot && !anyNull))
  | e :: es => do
    let x ← eval O env e
    if x.isNull then evalIn O env isNot v true es
    else if v.isNull then evalIn O env isNot v anyNull es
    else do
      -- each member is compared like `=` does
      let (a, b) ← prepCompare O v x
      if compareValues a b == .eq then pure (.bool (!isNot))
      else evalIn O env isNot v anyNull es
/-- first clause whose condition is true; `none` when no clause applies -/
def evalCase (O : Oracles) (env : Env) : List (Expr × Expr) → Outcome (Option Value)
  | [] => .ok none
  | (c, r) :: rest => do
    let cv ← eval O env c
    let cb ← condHolds cv
    if cb then do
      let v ← eval O env r
      pure (some v)
    else evalCase O env rest
end

end Sqlgrep
