import SqlgrepModel.Sexp
import SqlgrepModel.Model.Lex
/- Driver handlers for the tokenizer model (all texts travel as lists of decimal code points).
   `tok (<cp>…) ((<cp> <bits> (<lower cp>…))…) (((<cp>…) <e|BITS>)…)`
        → `ok <line>:<col>:<token>…` | `err <kind> <line> <col>` | `skip …`
      class table: one entry per non-ASCII character of the text, bits = alphabetic 1 + numeric 2 + alphanumeric 4
      + whitespace 8, then `char::to_lowercase`; number table: `f64::from_str` of candidate number texts
   `near (<cp>…) <line> <col> ((<cp> <bits> (<lower>…))…)` → `near (<cp>…)` | `panic <site>` -/
namespace Sqlgrep.Drivers.Lex
open Sqlgrep Sqlgrep.Lex

def cps? (s : Sexp) : Option (List Char) :=
  match s with
  | .list xs => xs.mapM (fun x => x.nat?.map Char.ofNat)
  | _ => none

def classEntry? (s : Sexp) : Option (Char × CharInfo) :=
  match s with
  | .list [c, b, l] =>
    match c.nat?, b.nat?, cps? l with
    | some c, some b, some l =>
      some (Char.ofNat c, { alpha := b % 2 == 1, numeric := b / 2 % 2 == 1, alnum := b / 4 % 2 == 1, white := b / 8 % 2 == 1, lower := l })
    | _, _, _ => none
  | _ => none

def numEntry? (s : Sexp) : Option (List Char × FloatAns) :=
  match s with
  | .list [t, .atom a] =>
    match cps? t with
    | some t => if a == "e" then some (t, .err) else a.toNat?.map (fun b => (t, FloatAns.bits b))
    | none => none
  | _ => none

def mkOracles (cls : List (Char × CharInfo)) (nums : List (List Char × FloatAns)) : Oracles :=
  { ext := fun c => (cls.lookup c).getD { alpha := false, numeric := false, alnum := false, white := false, lower := [c] }
    fparse := fun t => (nums.lookup t).getD .missing }

/-- every non-ASCII character of the text must have been shipped -/
def covered (cls : List (Char × CharInfo)) (text : List Char) : Bool :=
  text.all (fun c => c.toNat < 128 || (cls.lookup c).isSome)

def showCps (cs : List Char) : String := ".".intercalate (cs.map (fun c => toString c.toNat))

def kwName : Keyword → String
  | .select => "Select" | .from => "From" | .where => "Where" | .group => "Group" | .by => "By" | .as => "As"
  | .and => "And" | .or => "Or" | .create => "Create" | .table => "Table" | .not => "Not" | .is => "Is"
  | .isNot => "IsNot" | .in => "In" | .notIn => "NotIn" | .having => "Having" | .inner => "Inner" | .outer => "Outer"
  | .join => "Join" | .on => "On" | .extract => "Extract" | .default => "Default" | .distinct => "Distinct"
  | .case => "Case" | .when => "When" | .then => "Then" | .else => "Else" | .end => "End" | .limit => "Limit"

def showTok : Tok → String
  | .int i => s!"int:{i}"
  | .float b => s!"float:{b}"
  | .str s => s!"str:{showCps s}"
  | .null => "null" | .tru => "true" | .fls => "false"
  | .op (.single c) => s!"op1:{c.toNat}"
  | .op (.dual c d) => s!"op2:{c.toNat}.{d.toNat}"
  | .ident s => s!"ident:{showCps s}"
  | .kw k => s!"kw:{kwName k}"
  | .lp => "lp" | .rp => "rp" | .lsq => "lsq" | .rsq => "rsq" | .lcu => "lcu" | .rcu => "rcu"
  | .comma => "comma" | .semi => "semi" | .colon => "colon" | .dcolon => "dcolon" | .rarrow => "rarrow"
  | .eof => "end"

def showPTok (p : PTok) : String := s!"{p.loc.line}:{p.loc.column}:{showTok p.tok}"

def errName : LexErr → String
  | .intConvert => "IntConvertError" | .floatConvert => "FloatConvertError" | .alreadyHasDot => "AlreadyHasDot"

def handleTok (args : List Sexp) : String :=
  match args with
  | [textS, .list clsS, .list numS] =>
    match cps? textS, clsS.mapM classEntry?, numS.mapM numEntry? with
    | some text, some cls, some nums =>
      if !covered cls text then "skip class-missing"
      else
        match tokenize (mkOracles cls nums) text with
        | .ok ts => "ok" ++ String.join (ts.map (fun p => " " ++ showPTok p))
        | .error l e => s!"err {errName e} {l.line} {l.column}"
        | .missing w => s!"skip number-missing {showCps w}"
    | _, _, _ => "bad-case"
  | _ => "bad-case"

def handleNear (args : List Sexp) : String :=
  match args with
  | [textS, lineS, colS, .list clsS] =>
    match cps? textS, lineS.nat?, colS.nat?, clsS.mapM classEntry? with
    | some text, some line, some col, some cls =>
      if !covered cls text then "skip class-missing"
      else
        match extractNear (mkOracles cls []) ⟨line, col⟩ text with
        | .text s => s!"near ({" ".intercalate (s.map (fun c => toString c.toNat))})"
        | .panic site => s!"panic {site}"
    | _, _, _, _ => "bad-case"
  | _ => "bad-case"

end Sqlgrep.Drivers.Lex
