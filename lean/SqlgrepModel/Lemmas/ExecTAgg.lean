import SqlgrepModel.Lemmas.ExecT
import SqlgrepModel.Lemmas.AggPermSafe
import SqlgrepModel.Lemmas.AggSplitSummaries
import SqlgrepModel.Lemmas.LimitAgg
/-
The traced batch run (`Model/ExecT.lean`, what `Pipeline.runText` executes) of an aggregate statement in the scope of
its specification: the ONE print call it makes is the final one, with the specification's table
(`runBatchT_agg_spec` — `batch_refines_spec_nojoin` strengthened from the text rendering to the result table handed to
the printer), hence the traced run ignores the order of the input lines and how they are spread over files
(`runBatchT_perm_invariant` — `runBatch_perm_invariant` for the traced run, several files), and over a split input it
hands the printer the table of the merged summaries of the parts (`runBatchT_concat_merge_summaries`).
-/
set_option linter.unusedSimpArgs false
namespace Sqlgrep
open Value Spec.Agg

/-- the batch loop of an aggregate statement hands nothing to the printer: `execute_aggregate_update` has no result -/
theorem runFileT_agg_calls (O : Oracles) (qy : Query) (q : AggStmt) (hq : qy.stmt = .aggregate q) (idx : JoinIndex)
    (fls : List FileLine) (s : TraceState) : (runFileT O qy idx false fls s).calls = s.calls := by
  induction fls generalizing s with
  | nil => rfl
  | cons fl rest ih =>
    rw [runFileT]
    by_cases hr : fl.readable = true
    · simp only [hr, Bool.not_true, Bool.false_eq_true, if_false]
      cases hx : executeLine O qy idx false s.ls.es fl.line with
      | ok p =>
        obtain ⟨es1, lo⟩ := p
        obtain ⟨h1, h2, _, _⟩ := executeLine_agg_update_out O qy hq idx _ es1 fl.line lo hx
        simp only [h1, h2, callsOf, List.append_nil, Bool.false_eq_true, if_false]
        rw [ih]
      | error k => rfl
      | panic k => rfl
      | oracleMissing k => rfl
    · have hr' : fl.readable = false := by simpa using hr
      simp only [hr', Bool.not_false, if_true]

theorem runFilesT_agg_calls (O : Oracles) (qy : Query) (q : AggStmt) (hq : qy.stmt = .aggregate q) (idx : JoinIndex)
    (files : List (List FileLine)) (s : TraceState) : (runFilesT O qy idx false files s).calls = s.calls := by
  induction files generalizing s with
  | nil => rfl
  | cons f rest ih =>
    rw [runFilesT]
    split
    · rfl
    · simp only
      split
      · exact runFileT_agg_calls O qy q hq idx f s
      · rw [ih, runFileT_agg_calls O qy q hq idx f s]

/-- **the traced run of an aggregate statement inside its specification**: where `Spec.Agg.batch` answers with an empty
deviation class (no join), the run's `RunOut` is the specification's and the printer is called exactly once, finally,
with the specification's table under the statement's column names -/
theorem runBatchT_agg_spec {O : Oracles} {qy : Query} {q : AggStmt} (hq : qy.stmt = .aggregate q) (hwf : StmtWF q)
    (hj : qy.join = none) (joined : List FileLine) (joined' : Option (List FileLine)) (files : List (List FileLine))
    {ro : RunOut} (h : Spec.Agg.batch O qy q joined files = some (ro, "")) :
    ∃ t, table O q (envsOf qy.table files.flatten) = some t ∧
      runBatchT O qy joined' files =
        { out := ro, calls := [{ result := { columns := q.items.map (·.name), rows := t }, final := true }] } := by
  unfold Spec.Agg.batch at h
  simp only [hj] at h
  split at h
  · simp at h
  · rename_i hany
    simp only [Bool.not_eq_true] at hany
    have hread : ∀ fl ∈ files.flatten, fl.readable = true := by
      intro fl hfl
      have := List.any_eq_false.mp hany fl hfl
      simpa using this
    unfold Spec.Agg.batchOver at h
    cases ht : table O q (envsOf qy.table files.flatten) with
    | none => simp [ht] at h
    | some t =>
      simp only [ht, Option.some.injEq, Prod.mk.injEq] at h
      obtain ⟨hro, hclass⟩ := h
      have htot := engine_refines_spec_total hwf _ ht hclass
      obtain ⟨st, hst, hfin⟩ := obind_ok htot
      refine ⟨t, rfl, ?_⟩
      have hls := runFiles_agg O qy q hq hj files hread {} rfl hst
      have hfin' : finalResult O q { seen := ([] : List (List Value)), agg := st, numOut := 0 } =
          .ok { columns := q.items.map (·.name), rows := t } := hfin
      have hT : (runFilesT O qy [] false files {}).ls = afterLines {} st files.flatten.length := by
        rw [runFilesT_ls]; exact hls
      have hC : (runFilesT O qy [] false files {}).calls = [] := runFilesT_agg_calls O qy q hq [] files {}
      unfold runBatchT joinSetup runWithIndexT
      simp only [hj, hq, Bool.not_true, hT, hC]
      simp only [afterLines, hasFailed, hfin', ← hro]
      simp

/-- **the traced batch run ignores the order of the input lines** (and how they are spread over files): for an
aggregate statement without join and two inputs whose lines are permutations of each other — same `RunOut`, same
print call — whenever the specification answers for the first with an empty deviation class and `PermSafe` holds for its
admitted rows (the second input is then outside D10 / D15 as well: `specBatch_perm`, `deviationClass_perm`) -/
theorem runBatchT_perm_invariant {O : Oracles} {qy : Query} {q : AggStmt} (hq : qy.stmt = .aggregate q) (hwf : StmtWF q)
    (hj : qy.join = none) (joined : List FileLine) (joined' : Option (List FileLine)) {f1 f2 : List (List FileLine)}
    (hp : f1.flatten.Perm f2.flatten)
    (hsafe : ∀ keyed, keyedRows O q (envsOf qy.table f1.flatten) = some keyed → PermSafe O q keyed)
    {ro : RunOut} (h1 : Spec.Agg.batch O qy q joined f1 = some (ro, "")) :
    runBatchT O qy joined' f1 = runBatchT O qy joined' f2 := by
  have h2 := specBatch_perm hj joined hp hsafe h1
  obtain ⟨t1, ht1, e1⟩ := runBatchT_agg_spec hq hwf hj joined joined' f1 h1
  obtain ⟨t2, ht2, e2⟩ := runBatchT_agg_spec hq hwf hj joined joined' f2 h2
  have : t1 = t2 := by
    rw [table_perm (envsOf_perm qy.table hp) hsafe, ht2] at ht1
    exact (Option.some.inj ht1).symm
  rw [e1, e2, this]

/-- the traced run of an aggregate statement that ends well: the specification's `RunOut` and the one, final, print call -/
def tableTrace (q : AggStmt) (t : List (List Value)) (total : Nat) : TraceOut :=
  { out := tableOut q t total, calls := [{ result := { columns := q.items.map (·.name), rows := t }, final := true }] }

/-- **the traced batch run over a split input**: `runBatch_concat_merge_summaries` for the run `Pipeline.runText` executes —
the `RunOut` AND the table handed to the printer (which every output format is computed from) for the whole are those of
the merged summaries of the two parts; for each part those of its summaries -/
theorem runBatchT_concat_merge_summaries {O : Oracles} {qy : Query} {q : AggStmt} (hq : qy.stmt = .aggregate q) (hwf : StmtWF q)
    (hj : qy.join = none) (hOI : ∀ kind ∈ slotKinds q, orderInsensitive kind = true) (joined : List FileLine)
    (joined' : Option (List FileLine)) {f f₁ f₂ : List (List FileLine)} (hf : f.flatten = f₁.flatten ++ f₂.flatten)
    {ro ro₁ ro₂ : RunOut} {cls : String}
    (h : Spec.Agg.batch O qy q joined f = some (ro, cls)) (h₁ : Spec.Agg.batch O qy q joined f₁ = some (ro₁, ""))
    (h₂ : Spec.Agg.batch O qy q joined f₂ = some (ro₂, ""))
    (hsafe : ∀ k₁ k₂, keyedRows O q (envsOf qy.table f₁.flatten) = some k₁ → keyedRows O q (envsOf qy.table f₂.flatten) = some k₂ →
      ∀ k, SplitSafe O q (rowsOfKey k k₁) (rowsOfKey k k₂)) :
    ∃ S₁ S₂ t₁ t₂ t,
      partSummaries O q (envsOf qy.table f₁.flatten) = some S₁ ∧ partSummaries O q (envsOf qy.table f₂.flatten) = some S₂ ∧
      tableOfSummaries O q S₁ = some t₁ ∧ tableOfSummaries O q S₂ = some t₂ ∧
      tableOfSummaries O q (mergeSummaries q S₁ S₂) = some t ∧
      runBatchT O qy joined' f₁ = tableTrace q t₁ f₁.flatten.length ∧
      runBatchT O qy joined' f₂ = tableTrace q t₂ f₂.flatten.length ∧
      runBatchT O qy joined' f = tableTrace q t (f₁.flatten.length + f₂.flatten.length) := by
  have hcls := specBatch_concat_class hwf hj hOI joined hf h h₁ h₂
  subst hcls
  obtain ⟨S₁, S₂, t₁, t₂, t, hS₁, hS₂, _, hT₁, hT₂, hT, ht₁, ht₂, ht, e₁, e₂, e⟩ :=
    specBatch_concat_merge_summaries hwf hj hOI joined hf h h₁ h₂ hsafe
  obtain ⟨u₁, hu₁, r₁⟩ := runBatchT_agg_spec hq hwf hj joined joined' f₁ h₁
  obtain ⟨u₂, hu₂, r₂⟩ := runBatchT_agg_spec hq hwf hj joined joined' f₂ h₂
  obtain ⟨u, hu, r⟩ := runBatchT_agg_spec hq hwf hj joined joined' f h
  have i₁ : u₁ = t₁ := Option.some.inj (hu₁.symm.trans ht₁)
  have i₂ : u₂ = t₂ := Option.some.inj (hu₂.symm.trans ht₂)
  have i : u = t := Option.some.inj (hu.symm.trans ht)
  subst i₁; subst i₂; subst i
  simp only at e₁ e₂ e
  refine ⟨S₁, S₂, u₁, u₂, u, hS₁, hS₂, hT₁, hT₂, hT, ?_, ?_, ?_⟩
  · rw [r₁, e₁]; rfl
  · rw [r₂, e₂]; rfl
  · rw [r, e]; rfl

end Sqlgrep
