import SqlgrepModel.Lemmas.ParseLit
import SqlgrepModel.Lemmas.LexPos
import SqlgrepModel.Lemmas.LexNear
import SqlgrepModel.Lemmas.LexNearPiece
import SqlgrepModel.Lemmas.LexTables
import SqlgrepModel.Lemmas.FloatGrammar
/-
C14 — parsing is total: any text yields a statement or a located error — **tokenizer half**.
(Imported by `Props/C14.lean`, which adds the parser half.)

Model (`Model/Lex.lean`): `tokenize` as the character fold; `extractNear` = `TokenLocation::extract_near` with every
slice as a bounds-checked access (`Near.panic` where Rust's slice indexing would panic).  All statements hold for every
text (any list of characters: any Unicode, any length) and every oracle `o` (Unicode classes of non-ASCII characters,
`f64::from_str`).

Where a location is: `textLines text` is the unique split of the text at `\n` (`split_exact`: the lines, each complete
one followed by `\n`, give the text back and none contains `\n`; there is one more line than there are `\n`, the last
one possibly empty).  `Inside text loc` says: line number `loc.line` exists among these lines and `loc.column` is
at most the length (in characters) of that line.  The column *can* equal the line length (an error at the end of a
line, see the `example`s) — it is a position between characters, not the index of a character.
`str::lines()`, which `extract_near` uses, yields the same lines except that it drops a final empty line and removes a
`\r` before the `\n`; a location on the (empty) last line of a text ending in `\n`, or in the empty text, is inside
the text although `lines()` has no such line: `extract_near` then yields the empty excerpt (`extractNear`'s `none` arm).
-/
namespace Sqlgrep.Props.C14Lex
open Sqlgrep Sqlgrep.Lex

/-- the split at `\n` that locations refer to loses, duplicates and reorders nothing -/
theorem split_exact (text : List Char) :
    ((splitFold text).1.flatMap (· ++ ['\n']) ++ (splitFold text).2 = text) ∧ ∀ l ∈ textLines text, '\n' ∉ l :=
  ⟨unsplit_splitFold text, textLines_noNl text⟩

/-- **`str::lines()` against the split**: the lines `extract_near` indexes are the complete lines of the split with a
`\r` directly before the `\n` removed, followed by the rest of the text if that is not empty.  So a location inside
the text is either on one of those lines, or on the empty last line (a text that is empty or ends in `\n`), where
`extract_near` takes its `None` arm and yields the empty excerpt. -/
theorem lines_spec (text : List Char) :
    lines text = (splitFold text).1.map stripCr ++ (if (splitFold text).2.isEmpty then [] else [(splitFold text).2]) :=
  lines_eq text

/-- **The error position lies inside the text**: `loc.line` is the number of an existing line and
`loc.column ≤` the length of that line. -/
theorem error_location_inside (o : Oracles) (text : List Char) (loc : Loc) (e : LexErr)
    (h : tokenize o text = .error loc e) : Inside text loc := by
  have := tokenize_inside o text
  rw [h] at this
  exact this

/-- every token of a successful result is located inside the text -/
theorem token_locations_inside (o : Oracles) (text : List Char) (ts : List PTok) (h : tokenize o text = .ok ts) :
    ∀ p ∈ ts, Inside text p.loc := by
  have := tokenize_inside o text
  rw [h] at this
  exact this

/-- **Tokenizing is total**: for every text the result is a token list that ends in `End` with every token located
inside the text, or an error located inside the text, or — only when the number oracle does not know a number text
the tokenizer had to convert — `missing` (the function itself is total: a Lean definition by structural recursion). -/
theorem tokenize_total (o : Oracles) (text : List Char) :
    (∃ ts init loc, tokenize o text = .ok ts ∧ ts = init ++ [⟨loc, .eof⟩] ∧ ∀ p ∈ ts, Inside text p.loc) ∨
    (∃ loc e, tokenize o text = .error loc e ∧ Inside text loc) ∨
    (∃ w, tokenize o text = .missing w ∧ o.fparse w = .missing) := by
  cases h : tokenize o text with
  | ok ts =>
    obtain ⟨init, loc, he⟩ := tokenize_ends_eof o text ts h
    exact Or.inl ⟨ts, init, loc, rfl, he, token_locations_inside o text ts h⟩
  | error loc e => exact Or.inr (Or.inl ⟨loc, e, rfl, error_location_inside o text loc e h⟩)
  | missing w => exact Or.inr (Or.inr ⟨w, rfl, tokenize_missing o text w h⟩)

/-- **Tokenizing is total, with no oracle hypothesis**: whatever number facts a case ships (none, some, all), the
result is tokens ending in `End` or a located error — a number text without a shipped fact is converted by
`DecFloat.parseF64` (`tokenize_never_missing`). -/
theorem tokenize_total_no_oracle (o : Oracles) (text : List Char) :
    (∃ ts init loc, tokenize o text = .ok ts ∧ ts = init ++ [⟨loc, .eof⟩] ∧ ∀ p ∈ ts, Inside text p.loc) ∨
    (∃ loc e, tokenize o text = .error loc e ∧ Inside text loc) := by
  rcases tokenize_total o text with h | h | ⟨w, hw, _⟩
  · exact Or.inl h
  · exact Or.inr h
  · exact absurd hw (tokenize_never_missing o text w)

/-- with an oracle that answers every number text (as `f64::from_str` does) the result is tokens or a located error
(the hypothesis is no longer needed: `tokenize_total_no_oracle`) -/
theorem tokenize_total_of_total_oracle (o : Oracles) (_ho : ∀ w, o.fparse w ≠ .missing) (text : List Char) :
    (∃ ts init loc, tokenize o text = .ok ts ∧ ts = init ++ [⟨loc, .eof⟩] ∧ ∀ p ∈ ts, Inside text p.loc) ∨
    (∃ loc e, tokenize o text = .error loc e ∧ Inside text loc) := tokenize_total_no_oracle o text

/-- **The 'near …' excerpt can be produced**: for every text and every location — produced by the tokenizer or
not, inside the text or not — `extract_near` performs no out-of-range slice access. -/
theorem extract_near_total (o : Oracles) (loc : Loc) (text : List Char) : ∃ s, extractNear o loc text = .text s :=
  extractNear_text o loc text

/-- **The excerpt is a piece of the located line**: for every text and every location whose line `str::lines()`
yields, the excerpt reads like a contiguous part of that line — `off` characters in, `len` characters long, inside the
line — in which whitespace characters may be shown as a space (`SimChars`: equal character by character, or a space
for a whitespace character).  (Consecutive words of a line are separated by exactly one whitespace character:
`Lemmas/LexNearPiece.lean`.)  For a location whose line does not exist the excerpt is empty. -/
theorem excerpt_is_piece (o : Oracles) (loc : Loc) (text line s : List Char) (hl : (lines text)[loc.line]? = some line)
    (h : extractNear o loc text = .text s) :
    ∃ off len, off + len ≤ line.length ∧ SimChars o s ((line.drop off).take len) :=
  extractNear_piece o loc text line s hl h

theorem excerpt_empty_without_line (o : Oracles) (loc : Loc) (text : List Char) (hl : (lines text)[loc.line]? = none) :
    extractNear o loc text = .text [] := by
  unfold extractNear; rw [hl]

/-- in particular for the location of a tokenizer error -/
theorem error_excerpt (o : Oracles) (text : List Char) (loc : Loc) (e : LexErr) (_ : tokenize o text = .error loc e) :
    ∃ s, extractNear o loc text = .text s := extract_near_total o loc text

/-! ### a number that is out of range is an error

`flushNumber` is the code after the tokenizer's number loop (`i64::from_str` on the collected digit run); the number loop
only ever collects ASCII digits and dots, and `classify` starts a number only at a digit, so a run without a dot is
exactly a non-empty digit string. -/

/-- **a digit run is a token exactly when its value fits 64 bits; otherwise the tokenizer reports `intConvert`, located
at the current position** — never a wrapped, saturated or truncated number -/
theorem int_run_token_or_error (o : Oracles) (st : St) (w : List Char) (hne : w ≠ [])
    (hd : ∀ c ∈ w, Lit.isDigit c.toNat = true) :
    flushNumber o st w false =
      (if Lit.digitsVal (w.map Char.toNat) < 2 ^ 63 then .run (st.add (.int (Lit.digitsVal (w.map Char.toNat))))
       else .fail ⟨st.line, st.col⟩ .intConvert) := by
  have hne' : w.map Char.toNat ≠ [] := by simpa using hne
  have hall : (w.map Char.toNat).all Lit.isDigit = true := by
    simp only [List.all_map, List.all_eq_true]; intro c hc; exact hd c hc
  have hnd : ∀ d, w.map Char.toNat ≠ 45 :: d := by
    intro d h
    cases w with
    | nil => exact hne rfl
    | cons c cs =>
      have := hd c (List.mem_cons_self)
      simp only [List.map_cons, List.cons.injEq] at h
      rw [h.1] at this; revert this; decide
  have hnp : ∀ d, w.map Char.toNat ≠ 43 :: d := by
    intro d h
    cases w with
    | nil => exact hne rfl
    | cons c cs =>
      have := hd c (List.mem_cons_self)
      simp only [List.map_cons, List.cons.injEq] at h
      rw [h.1] at this; revert this; decide
  have hp : Lit.parseI64 (w.map Char.toNat) =
      if Lit.inI64 (Lit.digitsVal (w.map Char.toNat) : Int) then some (Lit.digitsVal (w.map Char.toNat) : Int) else none := by
    unfold Lit.parseI64
    split
    · rename_i d h; exact absurd h (hnd d)
    · rename_i d h; exact absurd h (hnp d)
    · simp [Lit.parseDigits, hall, List.isEmpty_iff, hne]
  unfold flushNumber
  simp only [Bool.false_eq_true, if_false, hp]
  by_cases hlt : Lit.digitsVal (w.map Char.toNat) < 2 ^ 63
  · have : Lit.inI64 (Lit.digitsVal (w.map Char.toNat) : Int) = true := by
      rw [Lit.inI64_iff]; constructor <;> omega
    simp [this, hlt]
  · have : Lit.inI64 (Lit.digitsVal (w.map Char.toNat) : Int) = false := by
      cases h : Lit.inI64 (Lit.digitsVal (w.map Char.toNat) : Int)
      · rfl
      · rw [Lit.inI64_iff] at h; omega
    simp [this, hlt]

/-- a number is out of range → error -/
theorem int_out_of_range_is_error (o : Oracles) (st : St) (w : List Char) (hne : w ≠ [])
    (hd : ∀ c ∈ w, Lit.isDigit c.toNat = true) (hbig : 2 ^ 63 ≤ Lit.digitsVal (w.map Char.toNat)) :
    flushNumber o st w false = .fail ⟨st.line, st.col⟩ .intConvert := by
  rw [int_run_token_or_error o st w hne hd, if_neg (by omega)]

/-- a number with a fraction is a token or the error `floatConvert`, as `f64::from_str` decides — never a panic, and
never `missing`: without a shipped fact the conversion is `DecFloat.parseF64` -/
theorem float_run_token_or_error (o : Oracles) (st : St) (w : List Char) :
    (∃ b, flushNumber o st w true = .run (st.add (.float b))) ∨
    flushNumber o st w true = .fail ⟨st.line, st.col⟩ .floatConvert := by
  unfold flushNumber
  simp only [if_true]
  cases o.fparse w with
  | bits b => exact Or.inl ⟨b, rfl⟩
  | err => simp
  | missing =>
    cases DecFloat.parseF64 w with
    | some b => exact Or.inl ⟨b, rfl⟩
    | none => simp

/-- the oracle that ships no number fact at all: every number text is converted by `DecFloat.parseF64`
(`Model/DecFloat.lean`, proved to round correctly in `Lemmas/DecFloat.lean`) -/
def noNumberFacts (ext : Char → CharInfo) : Oracles := { ext := ext, fparse := fun _ => .missing }

/-- without any shipped fact the REAL token of a number text with a fraction is `f64::from_str` as computed in Lean -/
theorem float_token_is_parseF64 (ext : Char → CharInfo) (st : St) (w : List Char) :
    flushNumber (noNumberFacts ext) st w true =
      match DecFloat.parseF64 w with
      | some b => .run (st.add (.float b))
      | none => .fail ⟨st.line, st.col⟩ .floatConvert := rfl

/-! ### what `f64::from_str` accepts: the grammar (L2)

`DecFloat.parseF64` was documented by a grammar in a comment and proved only in its arithmetic half (`decToF64` rounds
correctly). `Spec/FloatGrammar.lean` now formalises the grammar of Rust's `impl FromStr for f64` as inductive predicates
with a denotation, and `Lemmas/FloatGrammar.lean` proves `parseF64` sound and complete for it. The grammar has two
readings of the exponent digits: `FloatGrammar.FloatD text v` — the documented grammar, every digit string by its
mathematical value — and `FloatGrammar.FloatR text v` — what Rust computes: `dec2flt::parse::parse_scientific` stops
accumulating exponent digits once the accumulated magnitude has reached `0x10000` (observation N3 of DESIGN.md), and so
does the model (`DecFloat.capDigitsVal`). The two agree on every text whose exponent digits' value is below 65 536
(`FloatGrammar.ExpSmall`, decidable on the text); they differ observably only from ≈ 65 230 mantissa digits on
(`DecFloat.capped_exponent_witness`: `0.` + 65 299 zeros + `1e655360` is read as 1e236, not inf). SQL number tokens have
no exponent at all (`DecFloat.expSmall_of_no_e`). -/

/-- **from_str_grammar.** `DecFloat.parseF64 s` answers `Ok(b)` exactly when `s` is a `Float` of the grammar
`Sign? ( 'inf' | 'infinity' | 'nan' | (Digit+ | Digit+ '.' Digit* | Digit* '.' Digit+) ('e' Sign? Digit+)? )` (words and
`e` in any letter case) and `b` is the REAL of one of its denotations (`DecFloat.bitsOf`: the decimal
`(-1)^neg · mant · 10^exp` rounded to nearest, ties to even, `inf` from the overflow threshold on; the infinities; Rust's
NaN) — with Rust's reading of the exponent (`FloatR`) for every text, and with the documented reading (`FloatD`, the
mathematical value of the exponent digits) for every text whose exponent digits' value is below 65 536 (`ExpSmall`); and
`Err` exactly when the grammar does not derive `s` (for every text); the REAL is a function of the text. -/
theorem from_str_grammar (s : List Char) :
    (∀ b, DecFloat.parseF64 s = some b ↔ ∃ v, FloatGrammar.FloatR s v ∧ DecFloat.bitsOf v = b) ∧
    (DecFloat.parseF64 s = none ↔ ¬ ∃ v, FloatGrammar.FloatD s v) ∧
    (∀ v v', FloatGrammar.FloatR s v → FloatGrammar.FloatR s v' → DecFloat.bitsOf v = DecFloat.bitsOf v') ∧
    (FloatGrammar.ExpSmall s →
      (∀ v, FloatGrammar.FloatR s v ↔ FloatGrammar.FloatD s v) ∧
      (∀ b, DecFloat.parseF64 s = some b ↔ ∃ v, FloatGrammar.FloatD s v ∧ DecFloat.bitsOf v = b)) :=
  ⟨DecFloat.parseF64_iff_rust s, DecFloat.parseF64_none_iff s, fun _ _ h h' => DecFloat.FloatR.unique_bits h h',
   fun hs => ⟨DecFloat.floatR_iff_floatD hs, DecFloat.parseF64_iff hs⟩⟩

/-- the REAL token of a number text with a fraction, by the grammar: the text of a `Float` becomes the token carrying the
REAL of its denotation, any other text (`1.2e`, `1.e+`) is the located error `floatConvert`. (`ExpSmall w`: the exponent
digits' value is below 65 536 — true of every number token of the tokenizer, which has no exponent:
`DecFloat.expSmall_of_no_e`.) -/
theorem float_token_by_grammar (ext : Char → CharInfo) (st : St) (w : List Char) (hs : FloatGrammar.ExpSmall w) :
    (∀ v, FloatGrammar.FloatD w v → flushNumber (noNumberFacts ext) st w true = .run (st.add (.float (DecFloat.bitsOf v)))) ∧
    ((¬ ∃ v, FloatGrammar.FloatD w v) → flushNumber (noNumberFacts ext) st w true = .fail ⟨st.line, st.col⟩ .floatConvert) := by
  constructor
  · intro v hv
    rw [float_token_is_parseF64, (DecFloat.parseF64_iff hs _).2 ⟨v, hv, rfl⟩]
  · intro hn
    rw [float_token_is_parseF64, (DecFloat.parseF64_none_iff w).2 hn]

/-! ### non-vacuity and sharpness -/

/-- the hypotheses of `int_out_of_range_is_error` are met by the smallest number that does not fit, and the largest that
fits is a token -/
example : (∀ c ∈ "9223372036854775808".toList, Lit.isDigit c.toNat = true) ∧
    2 ^ 63 ≤ Lit.digitsVal ("9223372036854775808".toList.map Char.toNat) ∧
    tokenize Tables.asciiOnly "x = 9223372036854775808".toList = .error ⟨0, 23⟩ .intConvert ∧
    tokenize Tables.asciiOnly "9223372036854775807".toList = .ok [⟨⟨0, 0⟩, .int 9223372036854775807⟩, ⟨⟨0, 19⟩, .eof⟩] := by
  decide


/-- an error in the middle of a line: `1.2.3` fails at the second dot, column 3 of a line of length 5 -/
example : tokenize Tables.asciiOnly "a\n1.2.3".toList = .error ⟨1, 3⟩ .alreadyHasDot := by decide

/-- the column can equal the line length: the integer does not fit, the error is located after it -/
example : tokenize Tables.asciiOnly "99999999999999999999".toList = .error ⟨0, 20⟩ .intConvert := by decide

/-- the `End` token of a text ending in a line break is on the last (empty) line, which `str::lines()` does not yield -/
example : tokenize Tables.asciiOnly "a\n".toList = .ok [⟨⟨0, 0⟩, .ident ['a']⟩, ⟨⟨1, 0⟩, .eof⟩] ∧
    lines "a\n".toList = [['a']] ∧ textLines "a\n".toList = [['a'], []] := by decide

example : extractNear Tables.asciiOnly ⟨0, 7⟩ "select 1.2.3 from t".toList = .text "select 1.2.3 from".toList := by decide

/-- a tab between the words is shown as a space: the excerpt reads like the piece, it is not always equal to it -/
example : extractNear Tables.asciiOnly ⟨0, 3⟩ "ab\tcd ef".toList = .text "ab cd ef".toList := by decide

/-- derivations in the `f64::from_str` grammar: `-12.50e+3` denotes `-1250 · 10^1`, `.5` denotes `5 · 10^-1`, `5.` denotes
`5 · 10^0`, `iNf` is the infinity -/
example : FloatGrammar.FloatD "-12.50e+3".toList (.dec true 1250 1) :=
  .number (sg := ['-']) (body := "12.50e+3".toList) .minus
    (FloatGrammar.NumberDV.point (ip := ['1', '2']) (fp := ['5', '0']) (e := ['e', '+', '3']) (ev := 3) (by decide) (by decide)
      (Or.inl (by decide)) (FloatGrammar.ExpDV.some (sg := ['+']) (ds := ['3']) (neg := false) (Or.inl rfl) .plus (by decide)))
example : FloatGrammar.FloatD ".5".toList (.dec false 5 (-1)) :=
  .number (sg := []) (body := ".5".toList) .none
    (FloatGrammar.NumberDV.point (ip := []) (fp := ['5']) (e := []) (ev := 0) (by decide) (by decide) (Or.inr (by decide)) .none)
example : FloatGrammar.FloatD "5.".toList (.dec false 5 0) :=
  .number (sg := []) (body := "5.".toList) .none
    (FloatGrammar.NumberDV.point (ip := ['5']) (fp := []) (e := []) (ev := 0) (by decide) (by decide) (Or.inl (by decide)) .none)
example : FloatGrammar.FloatD "+iNf".toList (.inf false) :=
  .inf (sg := ['+']) (w := "iNf".toList) .plus
    (.cons (Or.inl rfl) (.cons (Or.inr rfl) (.cons (Or.inl rfl) .nil)))
-- … and what the function answers for them (by `from_str_grammar` these are the REALs of the denotations above)
example : DecFloat.parseF64 "-12.50e+3".toList = some 0xc0c86a0000000000 ∧ DecFloat.bitsOf (.dec true 1250 1) = 0xc0c86a0000000000 := by
  decide +kernel
example : DecFloat.parseF64 ".5".toList = some 0x3fe0000000000000 ∧ DecFloat.parseF64 "5.".toList = some 0x4014000000000000
    ∧ DecFloat.parseF64 "+iNf".toList = some 0x7ff0000000000000 ∧ DecFloat.parseF64 "-NAN".toList = some 0xfff8000000000000
    ∧ DecFloat.parseF64 "InFiNiTy".toList = some 0x7ff0000000000000 ∧ DecFloat.parseF64 "1e400".toList = some 0x7ff0000000000000 := by
  decide +kernel
-- texts outside the grammar: `Err` (so, by `from_str_grammar`, no derivation exists)
example : DecFloat.parseF64 "".toList = none ∧ DecFloat.parseF64 "-".toList = none ∧ DecFloat.parseF64 ".".toList = none
    ∧ DecFloat.parseF64 "1e".toList = none ∧ DecFloat.parseF64 "1e+".toList = none ∧ DecFloat.parseF64 " 1".toList = none
    ∧ DecFloat.parseF64 "1_0".toList = none ∧ DecFloat.parseF64 "0x10".toList = none ∧ DecFloat.parseF64 "infinit".toList = none
    ∧ DecFloat.parseF64 "+-1".toList = none ∧ DecFloat.parseF64 "1.2.3".toList = none ∧ DecFloat.parseF64 "１".toList = none := by
  decide +kernel
example : ¬ ∃ v, FloatGrammar.FloatD "1e+".toList v := (from_str_grammar _).2.1.1 (by decide +kernel)
-- the hypothesis `ExpSmall` of the documented-grammar half holds for the texts above and fails from `e65536` on; the
-- witness of the cap, for every number `n` of zeros: Rust's exponent is 65 536, the documented one 655 360
example : FloatGrammar.ExpSmall "-12.50e+3".toList ∧ FloatGrammar.ExpSmall "1e400".toList ∧ FloatGrammar.ExpSmall "5.".toList
    ∧ FloatGrammar.ExpSmall "1e65535".toList ∧ ¬ FloatGrammar.ExpSmall "1e65536".toList := by decide
example (n : Nat) : DecFloat.parseF64 (DecFloat.capWitness n) = some (DecFloat.decToF64 false 1 (65536 - ((n + 1 : Nat) : Int)))
    ∧ FloatGrammar.FloatD (DecFloat.capWitness n) (.dec false 1 (655360 - ((n + 1 : Nat) : Int))) :=
  ⟨(DecFloat.capped_exponent_witness n).1, (DecFloat.capped_exponent_witness n).2.1⟩

end Sqlgrep.Props.C14Lex
