// Shared machinery of C01 / C02 (and the admission predicate of C06): a generator of table definitions
// rendered as CREATE TABLE text, lines made for a definition, the oracle tables (regex, serde_json,
// f64::from_str) computed by calling the libraries directly, the wire encoding for the Lean driver
// (kind `extract`), and an independent re-statement of the property sentences (`spec_column`).
use std::collections::BTreeSet;
use std::str::FromStr;

use chrono::{Local, NaiveDate, NaiveDateTime, TimeZone};
use sqlgrep::data_model::{ColumnDefinition, ColumnParsing, JsonAccess, RegexMode, TableDefinition};
use sqlgrep::model::{Float, Value, ValueType};
use sqlgrep::Statement;

use crate::run::{Params, Run};
use crate::util::{catch, hexs, value_sexp, values_sexp, vtype_sexp, Caught, Rng};

// ---------------------------------------------------------------------------------------------
// template library: regexes with known group structure, and line shapes (`{i}` = text for group / field i)
// ---------------------------------------------------------------------------------------------

pub struct Tpl {
    pub re: &'static str,
    pub split: bool,
    pub groups: usize,
    pub shapes: &'static [&'static str],
}

pub const TEMPLATES: &[Tpl] = &[
    Tpl { re: r"^(\S+) (\S+) (\S+)$", split: false, groups: 3, shapes: &["{1} {2} {3}", "{1} {2}", "{1}  {2} {3}"] },
    Tpl { re: r"^([^;]*);([^;]*);([^;]*)$", split: false, groups: 3, shapes: &["{1};{2};{3}", "{1};{2}", "{1};{2};{3};{4}", ";;"] },
    Tpl { re: r"(\w+)=(\S*)", split: false, groups: 2, shapes: &["{1}={2}", "pre {1}={2} post", "{1}= {2}", "{1}"] },
    Tpl { re: r"^(\S+)(?: (\S+))?(?: (\S+))?$", split: false, groups: 3, shapes: &["{1} {2} {3}", "{1} {2}", "{1}"] },
    Tpl { re: r"^((\d+)-(\d+))? ?(.*)$", split: false, groups: 4, shapes: &["{2}-{3} {4}", "{4}", "{2}-{3}", ""] },
    Tpl { re: r"(?P<k>\w+):(?P<v>.*)", split: false, groups: 2, shapes: &["{1}:{2}", "{1}", " {1}:{2}"] },
    Tpl { re: r"^\[([^\]]*)\] (.*)$", split: false, groups: 2, shapes: &["[{1}] {2}", "[{1}]{2}", "[] {2}"] },
    Tpl { re: r"(\d+)-(\d+)-(\d+) (\d+):(\d+):(\d+)\.(\d+)", split: false, groups: 7, shapes: &["{1}-{2}-{3} {4}:{5}:{6}.{7}", "{1}-{2}-{3} {4}:{5}:{6}", "x {1}-{2}-{3} {4}:{5}:{6}.{7} y"] },
    Tpl { re: r"(-?\d+)/(\w+)/(-?\d+):(\d+):(\d+):(\d+)", split: false, groups: 6, shapes: &["{1}/{2}/{3}:{4}:{5}:{6}", "{1}/{2}/{3}", "[{1}/{2}/{3}:{4}:{5}:{6} +0000]"] },
    Tpl { re: r"(a+)|(b+)", split: false, groups: 2, shapes: &["aaa", "bb", "c", "ab", "{1}"] },
    Tpl { re: r"^(.*?)\s*=\s*(.*)$", split: false, groups: 2, shapes: &["{1} = {2}", "{1}={2}", "{1}"] },
    Tpl { re: r"^(\d*)([a-z]*)()$", split: false, groups: 3, shapes: &["{1}{2}", "", "{1}", "{2}"] },
    Tpl { re: r"^(-?\d+)$", split: false, groups: 1, shapes: &["{1}", " {1}"] },
    Tpl { re: r"^(\S+)$", split: false, groups: 1, shapes: &["{1}", "{1} x"] },
    Tpl { re: r"^(.*)$", split: false, groups: 1, shapes: &["{1}", " {1} ", ""] },
    Tpl { re: r"(\S+)\s+(\S+)", split: false, groups: 2, shapes: &["{1} {2}", "  {1}\t{2} tail", "{1}"] },
    Tpl { re: r"^(?:(\w+)@)?(\w+)\.(\w+)$", split: false, groups: 3, shapes: &["{1}@{2}.{3}", "{2}.{3}", "{2}"] },
    Tpl { re: r"^(\d+)(\.(\d+))?$", split: false, groups: 3, shapes: &["{1}.{3}", "{1}", "{1}."] },
    Tpl { re: r"(?i)^level=(\w+) msg=(.*)$", split: false, groups: 2, shapes: &["level={1} msg={2}", "LEVEL={1} MSG={2}", "level={1}"] },
    Tpl { re: r"^(\S+) (\S+) (\S+) (\S+) (\S+) (\S+) (\S+)$", split: false, groups: 7, shapes: &["{1} {2} {3} {4} {5} {6} {7}", "{1} {2} {3} {4} {5} {6}"] },
    Tpl { re: r#"^"?([^",]*)"?,"?([^",]*)"?$"#, split: false, groups: 2, shapes: &["\"{1}\",\"{2}\"", "{1},{2}", "{1}"] },
    Tpl { re: r"^(?P<y>[^|]*)\|(?P<m>[^|]*)\|(?P<d>[^|]*)\|(?P<h>[^|]*)$", split: false, groups: 4, shapes: &["{1}|{2}|{3}|{4}", "{1}|{2}|{3}", "|||"] },
    Tpl { re: r#""(\w+)":\s*("[^"]*"|[^,}\s]+)"#, split: false, groups: 2, shapes: &["{\"{1}\": {2}}", "{\"{1}\": \"{2}\", \"z\": 1}", "{1}"] },
    Tpl { re: r#"^\{.*"(\w+)".*\}$"#, split: false, groups: 1, shapes: &["{\"{1}\": 1}", "{}", "{1}"] },
    Tpl { re: r"(\d+)", split: false, groups: 1, shapes: &["abc {1} def 77", "{1}", "none"] },
    Tpl { re: r"^(\s*\S+\s*);(\s*\S*\s*)$", split: false, groups: 2, shapes: &[" {1} ; {2} ", "{1};{2}", "\u{a0}{1}\u{2003};\t{2}\u{3000}"] },
    Tpl { re: r"^(?:x(\d+)|y(\w+))+$", split: false, groups: 2, shapes: &["x1y2", "x{1}", "y{2}x{1}", "y{2}"] },
    Tpl { re: r"^(\p{L}+) (\p{N}+)$", split: false, groups: 2, shapes: &["{1} {2}", "été ٣", "{1}"] },
    Tpl { re: r"^([^\t]*)\t([^\t]*)\t([^\t]*)$", split: false, groups: 3, shapes: &["{1}\t{2}\t{3}", "{1}\t{2}", "\t\t"] },
    Tpl { re: r"^(?:(\S+) )*(\S+)$", split: false, groups: 2, shapes: &["{1} {2}", "a b {1} {2}", "{2}"] },
    Tpl { re: r"^(\S+) (\S+) (\S+) (\S+)$", split: false, groups: 4, shapes: &["{1} {2} {3} {4}", "{1} {2} {3}"] },
    Tpl { re: r"^([^;]*);([^;]*);([^;]*);([^;]*);([^;]*)$", split: false, groups: 5, shapes: &["{1};{2};{3};{4};{5}", "{1};{2};{3};{4}", ";;;;"] },
    // split delimiters (groups = typical number of fields)
    Tpl { re: r";", split: true, groups: 4, shapes: &["{1};{2};{3};{4}", "{1};{2}", "{1}", ";{2};", ""] },
    Tpl { re: r",\s*", split: true, groups: 3, shapes: &["{1}, {2},{3}", "{1},   {2}", "{1}"] },
    Tpl { re: r"\s+", split: true, groups: 7, shapes: &["{1} {2} {3} {4} {5} {6} {7}", "{1}  {2}\t{3}", " {1} {2} ", "{1}"] },
    Tpl { re: r"\|", split: true, groups: 3, shapes: &["{1}|{2}|{3}", "{1}|{2}", "||"] },
    Tpl { re: r":", split: true, groups: 3, shapes: &["{1}:{2}:{3}", "{1}", "{1}:{2}:{3}:{4}"] },
    Tpl { re: r"[;,]", split: true, groups: 4, shapes: &["{1};{2},{3};{4}", "{1},{2}"] },
    Tpl { re: r"\t", split: true, groups: 3, shapes: &["{1}\t{2}\t{3}", "{1}"] },
    Tpl { re: r" - ", split: true, groups: 3, shapes: &["{1} - {2} - {3}", "{1} -{2}", "{1}"] },
    Tpl { re: r"", split: true, groups: 4, shapes: &["abc", "{1}", ""] },
    Tpl { re: r"x*", split: true, groups: 3, shapes: &["{1}xx{2}x{3}", "ab", "{1}"] },
    Tpl { re: r"(;)|(,)", split: true, groups: 3, shapes: &["{1};{2},{3}", "{1}"] },
];

// ---------------------------------------------------------------------------------------------
// value text pools
// ---------------------------------------------------------------------------------------------

#[derive(Clone, Copy, PartialEq, Debug)]
pub enum Slot { Int, Real, Bool, Text, Interval, TsLit, TsPart(usize) }

const INT_TEXTS: &[&str] = &["0", "1", "-1", "12", "007", "+5", "-0", "9223372036854775807", "-9223372036854775808", "9223372036854775808",
    "-9223372036854775809", "4294967297", "4294967296", "2147483648", "99999999999999999999", "", "1.5", "abc", "٣", "1_000", "--1", "+", "-", "0x10", "１２"];
const REAL_TEXTS: &[&str] = &["1.5", "-0.0", "0", "inf", "-inf", "nan", "NaN", "infinity", "1e400", "-1e400", "1e-400", ".5", "5.", "1e5", "+3", "1E2",
    "0x10", "", "1,5", "1.5.2", "e5", "9007199254740993", "1.7976931348623157e308", "4.9e-324", "abc", "١"];
const BOOL_TEXTS: &[&str] = &["true", "false", "True", "FALSE", "1", "0", "", "yes", "truee"];
const TEXT_TEXTS: &[&str] = &["abc", "a", "", "é", "日本", "x y", "'q'", "a\"b", "\\", "Hello", "0", "NULL", "ß", "\u{10000}", "tab\there"];
const PAD_TEXTS: &[&str] = &[" a ", "  ", "\ta\t", "\u{a0}a\u{a0}", "\u{2003}a b\u{3000}", " é", "a ", "\u{85}x", "\u{1680}\u{2028}\u{2029}\u{202f}\u{205f}y\u{200a}", "\u{200b}z\u{200b}", "\u{feff}w", "\u{b}\u{c}v\r"];
const INTERVAL_TEXTS: &[&str] = &["1:2:3", "0:0:0", "-1:0:0", "10:-20:+30", "01:02:03", "2562047788015:0:0", "2562047788016:0:0", "-2562047788015:0:0", "-2562047788016:0:0",
    "0:153722867280912:0", "0:153722867280913:0", "0:0:9223372036854775", "0:0:9223372036854776", "0:0:-9223372036854775", "0:0:-9223372036854776",
    "2562047788015:12:55", "2562047788015:12:56", "2562047788015:13:0", "2562047788015:20:-600", "9223372036854775807:0:0", "0:9223372036854775807:0", "0:0:9223372036854775807",
    "-9223372036854775808:0:0", "1:2", "1:2:3:4", "a:b:c", "::", "1:2:", "1: 2:3", "1.5:0:0", "", "99999999999999999999:0:0"];
const TSLIT_TEXTS: &[&str] = &["2020-01-05 10:11:12", "2020-1-5 1:2:3", "2020-02-30 00:00:00", "2020-02-29 00:00:00", "2021-02-29 00:00:00", "1900-02-29 00:00:00", "2000-02-29 12:00:00",
    "2020-12-31 23:59:60", "2020-12-31 23:59:61", " 2020-01-01 00:00:00", "2020-01-01 00:00:00 ", "2020-01-0100:00:00", "+12020-01-01 00:00:00", "-0001-01-01 00:00:00",
    "262142-12-31 23:59:59", "+262142-12-31 23:59:59", "+262143-01-01 00:00:00", "-262143-01-01 00:00:00", "-262144-12-31 00:00:00", "20201-01-01 00:00:00",
    "2020-01-01T00:00:00", "2020-01-01  00:00:00", "2020-01-01\u{a0}00:00:00", "2020- 01- 01 00: 00: 00", "0000-01-01 00:00:00", "0001-01-01 00:00:00", "+99999999999-01-01 00:00:00",
    "+2147483648-01-01 00:00:00", "-2147483649-01-01 00:00:00", "2020-13-01 00:00:00", "2020-00-10 00:00:00", "2020-01-32 00:00:00", "2020-01-00 00:00:00", "2020-01-01 24:00:00",
    "2020-01-01 00:60:00", "2020-01-01", "", "abc", "2020-001-01 00:00:00", "20-1-1 0:0:0", "2020 -01-01 00:00:00", "2020-01-01 00:00:00.5", "1970-01-01 00:00:00", "1969-12-31 23:59:59",
    "2020-01-01 0:0:0", "２０２０-01-01 00:00:00", "+-5-01-01 00:00:00", "-2020-01-01 00:00:00", "+-01-01 00:00:00", "- 5-01-01 00:00:00", "2020-04-31 00:00:00", "2400-02-29 00:00:00", "2100-02-29 00:00:00"];
const YEAR_TEXTS: &[&str] = &["2020", "2021", "1999", "2000", "1900", "2400", "0", "1", "-1", "4", "100", "262142", "262143", "-262143", "-262144", "2147483647", "2147483648", "-2147483648", "-2147483649", "99999999999999999999", "", "abc", "+2020", "020"];
const MONTH_TEXTS: &[&str] = &["1", "2", "02", "4", "6", "9", "11", "12", "0", "13", "4294967297", "4294967296", "4294967295", "-1", "Jan", "feb", "MAR", "apr", "May", "jun", "June", "jul", "juLY", "AUG", "sep", "SEPT", "Oct", "nov", "DEC",
    "Janu", "january", "K", "ſep", "Ĵan", "", "x", "9223372036854775807", "9223372036854775808", "+3"];
const DAY_TEXTS: &[&str] = &["1", "05", "15", "28", "29", "30", "31", "32", "0", "-1", "4294967297", "", "x", "99"];
const HOUR_TEXTS: &[&str] = &["0", "00", "10", "23", "24", "-1", "4294967296", "", "x"];
const MINSEC_TEXTS: &[&str] = &["0", "00", "11", "59", "60", "61", "-1", "4294967296", "", "x"];
const FRAC_TEXTS: &[&str] = &["0", "5", "123", "999", "1000", "999999", "1000000", "1999999", "2000000", "4294967", "4294968", "9999999", "1234567", "12345678", "123456789", "1234567890", "4294967295", "4294967296", "0000001", "", "x", "-1"];

fn pool(s: Slot) -> &'static [&'static str] {
    match s {
        Slot::Int => INT_TEXTS,
        Slot::Real => REAL_TEXTS,
        Slot::Bool => BOOL_TEXTS,
        Slot::Text => TEXT_TEXTS,
        Slot::Interval => INTERVAL_TEXTS,
        Slot::TsLit => TSLIT_TEXTS,
        Slot::TsPart(0) => YEAR_TEXTS,
        Slot::TsPart(1) => MONTH_TEXTS,
        Slot::TsPart(2) => DAY_TEXTS,
        Slot::TsPart(3) => HOUR_TEXTS,
        Slot::TsPart(4) | Slot::TsPart(5) => MINSEC_TEXTS,
        Slot::TsPart(_) => FRAC_TEXTS,
    }
}

/// a plausible (mostly valid) text for a slot: keeps whole rows alive so that later columns are reached
fn good_text(rng: &mut Rng, s: Slot) -> String {
    match s {
        Slot::Int => rng.range(-50, 5000).to_string(),
        Slot::Real => format!("{}.{}", rng.range(-9, 99), rng.range(0, 99)),
        Slot::Bool => (if rng.chance(1, 2) { "true" } else { "false" }).to_owned(),
        Slot::Text => (*rng.pick(&["abc", "x", "hello", "é"])).to_owned(),
        Slot::Interval => format!("{}:{}:{}", rng.range(0, 30), rng.range(0, 59), rng.range(0, 59)),
        Slot::TsLit => format!("{}-{:02}-{:02} {:02}:{:02}:{:02}", rng.range(1990, 2030), rng.range(1, 12), rng.range(1, 28), rng.range(0, 23), rng.range(0, 59), rng.range(0, 59)),
        Slot::TsPart(0) => rng.range(1990, 2030).to_string(),
        Slot::TsPart(1) => if rng.chance(1, 4) { (*rng.pick(&["Jan", "feb", "Sept", "JULY", "dec"])).to_owned() } else { rng.range(1, 12).to_string() },
        Slot::TsPart(2) => rng.range(1, 28).to_string(),
        Slot::TsPart(3) => rng.range(0, 23).to_string(),
        Slot::TsPart(4) | Slot::TsPart(5) => rng.range(0, 59).to_string(),
        Slot::TsPart(_) => rng.range(0, 999).to_string(),
    }
}

fn slot_text(rng: &mut Rng, s: Slot) -> String {
    match rng.below(10) {
        0..=3 => good_text(rng, s),
        4..=7 => (*rng.pick(pool(s))).to_owned(),
        8 => {
            let other = [Slot::Int, Slot::Real, Slot::Bool, Slot::Text, Slot::Interval, Slot::TsLit, Slot::TsPart(1), Slot::TsPart(6)];
            let o = *rng.pick(&other);
            (*rng.pick(pool(o))).to_owned()
        }
        _ => (*rng.pick(PAD_TEXTS)).to_owned(),
    }
}

// ---------------------------------------------------------------------------------------------
// generated definitions
// ---------------------------------------------------------------------------------------------

#[derive(Clone, Debug)]
pub enum GParsing {
    Regex(String, usize),
    Inline(usize, usize),            // template index, and the position among patterns is decided when rendering
    Multi(Vec<(String, usize)>),
    Json(Vec<GStep>),
}

#[derive(Clone, Debug)]
pub enum GStep { Field(String), Index(usize) }

#[derive(Clone, Debug, PartialEq)]
pub enum GMod { None, NotNull, Trim, Convert, Micros, Default(String) }

#[derive(Clone, Debug)]
pub struct GCol { pub parsing: GParsing, pub ty: ValueType, pub modifier: GMod }

#[derive(Clone, Debug)]
pub struct GPat { pub name: String, pub tpl: usize }

#[derive(Clone, Debug)]
pub struct GDef { pub pats: Vec<GPat>, pub cols: Vec<GCol>, pub interleave: bool }

pub fn sql_string(s: &str) -> String {
    let mut o = String::from("'");
    for c in s.chars() {
        if c == '\\' || c == '\'' { o.push('\\'); }
        o.push(c);
    }
    o.push('\'');
    o
}

fn type_text(rng: &mut Rng, t: &ValueType) -> String {
    let base = match t {
        ValueType::Int => "INT".to_owned(),
        ValueType::Float => "REAL".to_owned(),
        ValueType::Bool => "BOOLEAN".to_owned(),
        ValueType::String => "TEXT".to_owned(),
        ValueType::Timestamp => "TIMESTAMP".to_owned(),
        ValueType::Interval => "INTERVAL".to_owned(),
        ValueType::Array(e) => format!("{}[]", type_text(rng, e)),
    };
    match rng.below(4) { 0 => base.to_lowercase(), _ => base }
}

fn mod_text(rng: &mut Rng, m: &GMod) -> String {
    let up = !rng.chance(1, 4);
    let t = match m {
        GMod::None => return String::new(),
        GMod::NotNull => "NOT NULL".to_owned(),
        GMod::Trim => "TRIM".to_owned(),
        GMod::Convert => "CONVERT".to_owned(),
        GMod::Micros => "MICROSECONDS".to_owned(),
        GMod::Default(v) => return format!(" DEFAULT {}", v),
    };
    format!(" {}", if up { t } else { t.to_lowercase() })
}

impl GDef {
    /// CREATE TABLE text; inline patterns are bound to `_pattern<k>` by the parser
    pub fn render(&self, rng: &mut Rng) -> String {
        let mut items: Vec<String> = Vec::new();
        let pat_item = |p: &GPat, rng: &mut Rng| {
            let t = &TEMPLATES[p.tpl];
            let mode = if t.split { *rng.pick(&["split ", "SPLIT ", "Split "]) } else { *rng.pick(&["", "", "match ", "MATCH "]) };
            format!("{} = {}{}", p.name, mode, sql_string(t.re))
        };
        let mut col_items: Vec<String> = Vec::new();
        for (i, c) in self.cols.iter().enumerate() {
            let head = match &c.parsing {
                GParsing::Regex(n, g) => format!("{}[{}]", n, g),
                GParsing::Inline(tpl, _) => sql_string(TEMPLATES[*tpl].re),
                GParsing::Multi(rs) => rs.iter().map(|(n, g)| format!("{}[{}]", n, g)).collect::<Vec<_>>().join(", "),
                GParsing::Json(steps) => {
                    let mut s = String::from("{ ");
                    for st in steps {
                        match st {
                            GStep::Field(f) => { s.push('.'); s.push_str(f); }
                            GStep::Index(i) => { s.push_str(&format!("[{}]", i)); }
                        }
                    }
                    s.push_str(" }");
                    s
                }
            };
            col_items.push(format!("{} => c{} {}{}", head, i, type_text(rng, &c.ty), mod_text(rng, &c.modifier)));
        }
        if self.interleave {
            // patterns and columns mixed (a column may precede the pattern it names: binding is by name at extraction)
            let mut pi = 0;
            let mut ci = 0;
            while pi < self.pats.len() || ci < col_items.len() {
                let take_pat = pi < self.pats.len() && (ci >= col_items.len() || rng.chance(1, 2));
                if take_pat { items.push(pat_item(&self.pats[pi], rng)); pi += 1; } else { items.push(col_items[ci].clone()); ci += 1; }
            }
        } else {
            for p in &self.pats { items.push(pat_item(p, rng)); }
            items.extend(col_items);
        }
        let sep = if rng.chance(1, 2) { ",\n  " } else { ", " };
        format!("CREATE TABLE t (\n  {}\n);", items.join(sep))
    }
}

/// templates whose groups / fields admit arbitrary tokens (typed boundary texts reach the conversion)
const TOKENISH: &[usize] = &[0, 1, 3, 19, 21, 30, 31, 32, 34, 35, 37];
const PAT_NAMES: &[&str] = &["line", "p", "kv", "ts", "q2", "Row", "é"];
const JSON_FIELDS: &[&str] = &["a", "b", "c", "k", "key", "val", "items", "né", "x1", "A"];

pub const SCALAR_TYPES: &[ValueType] = &[ValueType::Int, ValueType::Float, ValueType::Bool, ValueType::String, ValueType::Timestamp, ValueType::Interval];

fn gen_type(rng: &mut Rng) -> ValueType {
    match rng.below(14) {
        0..=2 => ValueType::Int,
        3..=4 => ValueType::Float,
        5 => ValueType::Bool,
        6..=8 => ValueType::String,
        9 => ValueType::Timestamp,
        10 => ValueType::Interval,
        11 => ValueType::Array(Box::new(ValueType::Int)),
        12 => ValueType::Array(Box::new(rng.pick(SCALAR_TYPES).clone())),
        _ => ValueType::Array(Box::new(ValueType::Array(Box::new(ValueType::Int)))),
    }
}

pub fn default_literal(rng: &mut Rng, t: &ValueType) -> String {
    if rng.chance(1, 6) { return (*rng.pick(&["NULL", "null"])).to_owned(); }
    match t {
        ValueType::Int => (*rng.pick(&["0", "7", "42", "9223372036854775807"])).to_owned(),
        ValueType::Float => (*rng.pick(&["0.0", "1.5", "5.", "100.25"])).to_owned(),
        ValueType::Bool => (*rng.pick(&["TRUE", "false", "true"])).to_owned(),
        ValueType::String => sql_string(*rng.pick(&["", "dflt", " pad ", "it\\'s", "é"])),
        _ => "NULL".to_owned(),
    }
}

pub fn gen_modifier(rng: &mut Rng, t: &ValueType, json: bool) -> GMod {
    match rng.below(12) {
        0..=4 => GMod::None,
        5 => GMod::NotNull,
        6 | 7 => GMod::Default(default_literal(rng, t)),
        8 => if *t == ValueType::String { GMod::Trim } else { GMod::None },
        9 => if json || rng.chance(1, 3) { GMod::Convert } else { GMod::None },
        10 => if *t == ValueType::Timestamp || rng.chance(1, 4) { GMod::Micros } else { GMod::None },
        _ => if json { GMod::Convert } else { GMod::None },
    }
}

fn gen_ref(rng: &mut Rng, pats: &[GPat]) -> (String, usize) {
    if pats.is_empty() || rng.chance(1, 40) { return ("nopattern".to_owned(), rng.below(3)); }
    let p = rng.pick(pats);
    let g = TEMPLATES[p.tpl].groups;
    // index 0 = the whole line (split) / the whole match (captures); for split patterns it is a documented, common reference
    let idx = if TEMPLATES[p.tpl].split && rng.chance(1, 4) { 0 } else { match rng.below(12) { 0 => 0, 1 => g + 1 + rng.below(3), _ => 1 + rng.below(g) } };
    (p.name.clone(), idx)
}

pub fn gen_path(rng: &mut Rng) -> Vec<GStep> {
    let depth = 1 + rng.below(5);
    (0..depth).map(|_| if rng.chance(1, 4) { GStep::Index(rng.below(3)) } else { GStep::Field((*rng.pick(JSON_FIELDS)).to_owned()) }).collect()
}

/// `json_share`: out of 10, how many columns are JSON columns
pub fn gen_def(rng: &mut Rng, json_share: u64) -> GDef {
    let npats = if json_share >= 10 { rng.below(2) } else { 1 + rng.below(3) };
    let mut pats: Vec<GPat> = Vec::new();
    for i in 0..npats {
        let name = if i > 0 && rng.chance(1, 12) { pats[0].name.clone() } else { format!("{}{}", rng.pick(PAT_NAMES), if rng.chance(1, 2) { i.to_string() } else { String::new() }) };
        let tpl = if json_share > 0 && rng.chance(1, 2) { 22 + rng.below(2) }
            else if rng.chance(2, 5) { *rng.pick(TOKENISH) } else { rng.below(TEMPLATES.len()) };
        pats.push(GPat { name, tpl });
    }
    let ncols = 1 + rng.below(8);
    let mut cols = Vec::new();
    for _ in 0..ncols {
        if rng.next() % 10 < json_share || pats.is_empty() {
            let ty = gen_type(rng);
            let modifier = gen_modifier(rng, &ty, true);
            cols.push(GCol { parsing: GParsing::Json(gen_path(rng)), ty, modifier });
            continue;
        }
        match rng.below(10) {
            0..=4 => {
                let ty = gen_type(rng);
                let (n, g) = gen_ref(rng, &pats);
                cols.push(GCol { parsing: GParsing::Regex(n, g), modifier: gen_modifier(rng, &ty, false), ty });
            }
            5 => {
                let ty = gen_type(rng);
                let tpl = loop { let t = rng.below(TEMPLATES.len()); if !TEMPLATES[t].split { break t; } };
                cols.push(GCol { parsing: GParsing::Inline(tpl, 0), modifier: gen_modifier(rng, &ty, false), ty });
            }
            6 | 7 => {
                // array column
                let e = match rng.below(6) { 0 | 1 => ValueType::Int, 2 => ValueType::String, 3 => ValueType::Float, _ => rng.pick(SCALAR_TYPES).clone() };
                let n = 2 + rng.below(4);
                let refs = (0..n).map(|_| gen_ref(rng, &pats)).collect();
                let ty = ValueType::Array(Box::new(e));
                cols.push(GCol { parsing: GParsing::Multi(refs), modifier: gen_modifier(rng, &ty, false), ty });
            }
            8 => {
                // timestamp column over 2..8 parts, mostly of one pattern in order
                let p = if rng.chance(2, 3) { pats.iter().max_by_key(|p| TEMPLATES[p.tpl].groups).unwrap().clone() } else { rng.pick(&pats).clone() };
                let g = TEMPLATES[p.tpl].groups;
                let n = (match rng.below(8) { 0 => 2, 7 => 8, k => 2 + k }).max(2);
                let start = if g >= n { 1 + rng.below(g - n + 1) } else { 1 };
                let mut refs: Vec<(String, usize)> = (0..n).map(|i| (p.name.clone(), start + i)).collect();
                if rng.chance(1, 6) { let k = rng.below(refs.len()); refs[k] = gen_ref(rng, &pats); }
                if rng.chance(1, 8) { rng.shuffle(&mut refs); }
                let modifier = match rng.below(4) { 0 => GMod::Micros, 1 => GMod::NotNull, 2 => GMod::Default("NULL".to_owned()), _ => GMod::None };
                cols.push(GCol { parsing: GParsing::Multi(refs), ty: ValueType::Timestamp, modifier });
            }
            _ => {
                // multi reference with a scalar type (always DEFAULT / NULL)
                let ty = rng.pick(SCALAR_TYPES).clone();
                let ty = if ty == ValueType::Timestamp { ValueType::Int } else { ty };
                let refs = (0..2 + rng.below(2)).map(|_| gen_ref(rng, &pats)).collect();
                cols.push(GCol { parsing: GParsing::Multi(refs), modifier: gen_modifier(rng, &ty, false), ty });
            }
        }
    }
    GDef { pats, cols, interleave: rng.chance(1, 5) }
}

// ---------------------------------------------------------------------------------------------
// the real definition, read back from the parsed statement
// ---------------------------------------------------------------------------------------------

pub fn parse_def(text: &str) -> Result<TableDefinition, String> {
    match catch(|| sqlgrep::parsing::parse(text)) {
        Caught::Done(Ok(Statement::CreateTable(td))) => Ok(td),
        Caught::Done(Ok(_)) => Err("not-a-create-table".to_owned()),
        Caught::Done(Err(e)) => Err(format!("parse-error: {}", e)),
        Caught::Panic(m) => Err(format!("parse-panic: {}", m)),
    }
}

pub fn json_steps(a: &JsonAccess) -> Vec<GStep> {
    let mut out = Vec::new();
    let mut cur = Some(a);
    while let Some(x) = cur {
        match x {
            JsonAccess::Field { name, inner } => { out.push(GStep::Field(name.clone())); cur = inner.as_ref().map(|b| b.as_ref()); }
            JsonAccess::Array { index, inner } => { out.push(GStep::Index(*index)); cur = inner.as_ref().map(|b| b.as_ref()); }
        }
    }
    out
}

fn flag(b: bool) -> &'static str { if b { "1" } else { "0" } }

pub fn def_sexp(td: &TableDefinition) -> String {
    let mut s = String::from("(pats");
    for (name, re, mode) in &td.patterns {
        s.push_str(&format!(" ({} {} {})", hexs(name), if *mode == RegexMode::Split { "split" } else { "cap" }, hexs(re.as_str())));
    }
    s.push_str(") (cols");
    for c in &td.columns {
        let parsing = match &c.parsing {
            ColumnParsing::Regex(r) => format!("(re {} {})", hexs(&r.pattern_name), r.group_index),
            ColumnParsing::MultiRegex(rs) => format!("(multi{})", rs.iter().map(|r| format!(" ({} {})", hexs(&r.pattern_name), r.group_index)).collect::<String>()),
            ColumnParsing::Json(a) => format!("(json{})", json_steps(a).iter().map(|st| match st { GStep::Field(f) => format!(" (f {})", hexs(f)), GStep::Index(i) => format!(" (i {})", i) }).collect::<String>()),
        };
        let dflt = match &c.options.default_value { None => "none".to_owned(), Some(v) => value_sexp(v) };
        s.push_str(&format!(" (col {} {} {} {} {} {} {})", parsing, vtype_sexp(&c.column_type), flag(c.options.nullable), flag(c.options.trim), flag(c.options.convert), flag(c.options.microseconds), dflt));
    }
    s.push(')');
    s
}

// ---------------------------------------------------------------------------------------------
// oracle tables
// ---------------------------------------------------------------------------------------------

#[derive(Clone, Debug)]
pub enum PatRes { None, Cap(Vec<Option<String>>), Split(Vec<String>) }

pub struct LineOracle {
    pub res: Vec<PatRes>,
    pub json: Option<serde_json::Value>,
    /// why serde_json rejected the line (`None` when it did not): "number-out-of-range", "recursion-limit", "other"
    pub json_reject: Option<&'static str>,
    /// for the number nodes of `json` in document order (`number_nodes`): the number's own text (its lexeme in the line),
    /// found by reading the line with an independent little JSON reader that keeps number texts (`lex_tree`) and walking
    /// that tree and the document together (`node_lexemes`: arrays by position, object members by name — of a repeated
    /// name the LAST member, the rule of `Lemmas/JsonDocPath.lean`). `None` when the two trees do not fit together (never
    /// seen; counted as `oracle-abstains:json-real` — the REAL / INT oracle then mirrors serde_json's own reading).
    pub lexemes: Option<Vec<String>>,
    /// `f64::from_str` of each lexeme — what a REAL column must hold, decided without serde_json's float reader
    pub lexeme_reals: Option<Vec<f64>>,
}

fn number_nodes<'a>(j: &'a serde_json::Value, out: &mut Vec<&'a serde_json::Value>) {
    match j {
        serde_json::Value::Number(_) => out.push(j),
        serde_json::Value::Array(xs) => for x in xs { number_nodes(x, out); },
        serde_json::Value::Object(m) => for (_, x) in m { number_nodes(x, out); },
        _ => {}
    }
}

/// two values of the same shape whose REALs differ by a few units in the last place (and nothing else differs)
fn off_by_ulps(a: &Value, b: &Value) -> bool {
    match (a, b) {
        (Value::Float(Float(x)), Value::Float(Float(y))) => ulps_apart(*x, *y) <= 4,
        (Value::Array(_, xs), Value::Array(_, ys)) => xs.len() == ys.len() && xs.iter().zip(ys).all(|(x, y)| same(x, y) || off_by_ulps(x, y)),
        _ => false,
    }
}

fn ulps_apart(a: f64, b: f64) -> u64 {
    if a == b { return 0; }
    if a.is_sign_negative() != b.is_sign_negative() { return u64::MAX; }
    let (x, y) = (a.to_bits() & 0x7fff_ffff_ffff_ffff, b.to_bits() & 0x7fff_ffff_ffff_ffff);
    if x > y { x - y } else { y - x }
}

/// the tree of a JSON text with every number as its own text (nothing of a number is interpreted)
#[derive(Debug)]
enum LexTree { Num(String), Arr(Vec<LexTree>), Obj(Vec<(String, LexTree)>), Other }

/// a small reader for texts serde_json has ACCEPTED (it need not reject anything): structure, member names (decoded by
/// `serde_json::from_str::<String>` of the name's own text), number texts. `None` on anything unexpected.
fn lex_tree(line: &str) -> Option<LexTree> {
    fn ws(b: &[u8], i: &mut usize) { while *i < b.len() && matches!(b[*i], b' ' | b'\t' | b'\n' | b'\r') { *i += 1; } }
    fn string_end(b: &[u8], mut i: usize) -> Option<usize> {
        // `i` is at the opening quote; returns the index after the closing quote
        i += 1;
        while i < b.len() { match b[i] { b'"' => return Some(i + 1), b'\\' => i += 2, _ => i += 1 } }
        None
    }
    fn value(s: &str, b: &[u8], i: &mut usize, depth: usize) -> Option<LexTree> {
        if depth > 400 { return None; }
        ws(b, i);
        match *b.get(*i)? {
            b'{' => {
                *i += 1;
                let mut ms = Vec::new();
                ws(b, i);
                if *b.get(*i)? == b'}' { *i += 1; return Some(LexTree::Obj(ms)); }
                loop {
                    ws(b, i);
                    if *b.get(*i)? != b'"' { return None; }
                    let e = string_end(b, *i)?;
                    let key: String = serde_json::from_str(&s[*i..e]).ok()?;
                    *i = e;
                    ws(b, i);
                    if *b.get(*i)? != b':' { return None; }
                    *i += 1;
                    let v = value(s, b, i, depth + 1)?;
                    ms.push((key, v));
                    ws(b, i);
                    match *b.get(*i)? { b',' => *i += 1, b'}' => { *i += 1; return Some(LexTree::Obj(ms)); } _ => return None }
                }
            }
            b'[' => {
                *i += 1;
                let mut xs = Vec::new();
                ws(b, i);
                if *b.get(*i)? == b']' { *i += 1; return Some(LexTree::Arr(xs)); }
                loop {
                    xs.push(value(s, b, i, depth + 1)?);
                    ws(b, i);
                    match *b.get(*i)? { b',' => *i += 1, b']' => { *i += 1; return Some(LexTree::Arr(xs)); } _ => return None }
                }
            }
            b'"' => { *i = string_end(b, *i)?; Some(LexTree::Other) }
            b't' | b'n' => { *i += 4; Some(LexTree::Other) }
            b'f' => { *i += 5; Some(LexTree::Other) }
            c if c == b'-' || c.is_ascii_digit() => {
                let st = *i;
                while *i < b.len() && (b[*i].is_ascii_digit() || matches!(b[*i], b'-' | b'+' | b'.' | b'e' | b'E')) { *i += 1; }
                Some(LexTree::Num(s[st..*i].to_owned()))
            }
            _ => None,
        }
    }
    let b = line.as_bytes();
    let mut i = 0;
    let t = value(line, b, &mut i, 0)?;
    ws(b, &mut i);
    if i == b.len() { Some(t) } else { None }
}

/// the lexemes of the document's number nodes, in the order of `number_nodes`
fn node_lexemes(j: &serde_json::Value, l: &LexTree, out: &mut Vec<String>) -> Option<()> {
    match (j, l) {
        (serde_json::Value::Number(_), LexTree::Num(t)) => { out.push(t.clone()); Some(()) }
        (serde_json::Value::Array(xs), LexTree::Arr(ls)) => {
            if xs.len() != ls.len() { return None; }
            for (x, l) in xs.iter().zip(ls) { node_lexemes(x, l, out)?; }
            Some(())
        }
        (serde_json::Value::Object(m), LexTree::Obj(ms)) => {
            if ms.iter().any(|(k, _)| !m.contains_key(k)) { return None; }
            for (k, x) in m {
                // of a repeated name the LAST member is the one the document holds
                let (_, l) = ms.iter().rev().find(|(k2, _)| k2 == k)?;
                node_lexemes(x, l, out)?;
            }
            Some(())
        }
        (serde_json::Value::Null, LexTree::Other) | (serde_json::Value::Bool(_), LexTree::Other) | (serde_json::Value::String(_), LexTree::Other) => Some(()),
        _ => None,
    }
}

/// the integer a number text denotes, when it denotes one within i64 — from the text alone (digits, point, exponent as
/// exact decimal arithmetic): `1.0` → 1, `1e2` → 100, `-0` and `-0.0` → 0, `1.5e1` → 15, `0.5` / `1e-1` / `1e19` → none
pub fn integer_of_number_text(t: &str) -> Option<i64> {
    let (neg, rest) = match t.strip_prefix('-') { Some(r) => (true, r), None => (false, t) };
    let (mant, exp) = match rest.find(|c| c == 'e' || c == 'E') { Some(p) => (&rest[..p], &rest[p + 1..]), None => (rest, "") };
    let (ip, fp) = match mant.find('.') { Some(p) => (&mant[..p], &mant[p + 1..]), None => (mant, "") };
    if ip.is_empty() || !ip.bytes().all(|c| c.is_ascii_digit()) || !fp.bytes().all(|c| c.is_ascii_digit()) { return None; }
    let digits: String = format!("{}{}", ip, fp);
    let digits = digits.trim_start_matches('0');
    if digits.is_empty() { return Some(0); }                       // a zero, whatever its exponent and sign
    let stripped = digits.trim_end_matches('0');
    let trailing = (digits.len() - stripped.len()) as i128;
    // the exponent: a sign and digits; anything that cannot matter for "an integer of at most 19 digits" is out of range
    let e: i128 = if exp.is_empty() { 0 } else {
        let (eneg, ed) = match exp.as_bytes()[0] { b'-' => (true, &exp[1..]), b'+' => (false, &exp[1..]), _ => (false, exp) };
        if ed.is_empty() || !ed.bytes().all(|c| c.is_ascii_digit()) { return None; }
        let ed = ed.trim_start_matches('0');
        if ed.len() > 30 { return None; }                           // 10^±(10^30): no integer of 19 digits
        let v: i128 = if ed.is_empty() { 0 } else { ed.parse().ok()? };
        if eneg { -v } else { v }
    };
    let scale = e - fp.len() as i128 + trailing;                    // value = stripped · 10^scale
    if scale < 0 { return None; }                                   // a fraction remains
    if stripped.len() as i128 + scale > 19 { return None; }         // beyond 64 bits
    let mut v: i128 = stripped.parse().ok()?;
    for _ in 0..scale { v *= 10; }
    if neg { v = -v; }
    if v >= i64::MIN as i128 && v <= i64::MAX as i128 { Some(v as i64) } else { None }
}

impl LineOracle {
    fn node_index(&self, node: &serde_json::Value) -> Option<usize> {
        let mut nodes = Vec::new();
        number_nodes(self.json.as_ref()?, &mut nodes);
        nodes.iter().position(|n| std::ptr::eq(*n, node))
    }
    /// `f64::from_str` of the lexeme of a number node of `self.json` (found by identity)
    pub fn real_of(&self, node: &serde_json::Value) -> Option<f64> {
        let i = self.node_index(node)?;
        self.lexeme_reals.as_ref()?.get(i).copied()
    }
    /// the lexeme of a number node of `self.json` (found by identity)
    pub fn lexeme_of(&self, node: &serde_json::Value) -> Option<&str> {
        let i = self.node_index(node)?;
        self.lexemes.as_ref()?.get(i).map(|s| s.as_str())
    }
}

pub fn line_oracle(td: &TableDefinition, line: &str) -> LineOracle {
    let mut res = Vec::new();
    for (_, re, mode) in &td.patterns {
        // an independent compilation of the same pattern text with the `regex` crate
        let re = regex::Regex::new(re.as_str()).expect("pattern compiles");
        match mode {
            RegexMode::Captures => match re.captures(line) {
                Some(c) => res.push(PatRes::Cap((0..c.len()).map(|i| c.get(i).map(|m| m.as_str().to_owned())).collect())),
                None => res.push(PatRes::None),
            },
            RegexMode::Split => res.push(PatRes::Split(re.split(line).map(|s| s.to_owned()).collect())),
        }
    }
    let (json, json_reject) = match serde_json::from_str::<serde_json::Value>(line) {
        Ok(j) => (Some(j), None),
        Err(e) => {
            let msg = e.to_string();
            (None, Some(if msg.contains("number out of range") { "number-out-of-range" } else if msg.contains("recursion limit") { "recursion-limit" } else { "other" }))
        }
    };
    let lexemes = json.as_ref().and_then(|j| { let t = lex_tree(line)?; let mut out = Vec::new(); node_lexemes(j, &t, &mut out)?; Some(out) });
    let lexeme_reals = lexemes.as_ref().and_then(|ls| ls.iter().map(|t| f64::from_str(t).ok()).collect::<Option<Vec<f64>>>());
    LineOracle { res, json, json_reject, lexemes, lexeme_reals }
}

pub fn json_sexp(v: &serde_json::Value, out: &mut String) {
    match v {
        serde_json::Value::Null => out.push_str("null"),
        serde_json::Value::Bool(b) => out.push_str(&format!("(b {})", flag(*b))),
        serde_json::Value::Number(n) => {
            let bits = n.as_f64().map(|f| f.to_bits()).unwrap_or(0);
            if let Some(u) = n.as_u64() { out.push_str(&format!("(pi {} {})", u, bits)); }
            else if let Some(i) = n.as_i64() { out.push_str(&format!("(ni {} {})", i, bits)); }
            else { out.push_str(&format!("(fl {})", bits)); }
        }
        serde_json::Value::String(s) => out.push_str(&format!("(s {})", hexs(s))),
        serde_json::Value::Array(xs) => {
            out.push_str("(a");
            for x in xs { out.push(' '); json_sexp(x, out); }
            out.push(')');
        }
        serde_json::Value::Object(m) => {
            out.push_str("(o");
            for (k, x) in m { out.push_str(&format!(" ({} ", hexs(k))); json_sexp(x, out); out.push(')'); }
            out.push(')');
        }
    }
}

fn collect_strings(v: &serde_json::Value, out: &mut BTreeSet<String>) {
    match v {
        serde_json::Value::String(s) => { out.insert(s.clone()); }
        serde_json::Value::Array(xs) => for x in xs { collect_strings(x, out); },
        serde_json::Value::Object(m) => for (_, x) in m { collect_strings(x, out); },
        _ => {}
    }
}

fn base_type(t: &ValueType) -> &ValueType { match t { ValueType::Array(e) => base_type(e), t => t } }

/// the full case line for the driver
pub fn case_line(td: &TableDefinition, line: &str, lo: &LineOracle) -> String {
    let mut s = format!("extract {} (line {}) (res", def_sexp(td), hexs(line));
    for r in &lo.res {
        match r {
            PatRes::None => s.push_str(" none"),
            PatRes::Cap(gs) => {
                s.push_str(" (cap");
                for g in gs { match g { Some(t) => { s.push(' '); s.push_str(&hexs(t)); } None => s.push_str(" none") } }
                s.push(')');
            }
            PatRes::Split(fs) => {
                s.push_str(" (split");
                for f in fs { s.push(' '); s.push_str(&hexs(f)); }
                s.push(')');
            }
        }
    }
    s.push_str(") ");
    let any_json = td.columns.iter().any(|c| matches!(c.parsing, ColumnParsing::Json(_)));
    // the document serde_json makes of the line: shipped for every second case (`(json J)` / `notjson`, cross-checked by
    // the driver against `JsonDoc.docOfLine`), computed by the model for the others (`compute`); `nojson` = no JSON column
    match (&lo.json, any_json, crate::util::ship_facts(crate::util::SITE_EXTRACT_DOC)) {
        (_, false, _) => s.push_str("nojson"),
        (_, true, false) => s.push_str("compute"),
        (Some(j), true, true) => { s.push_str("(json "); json_sexp(j, &mut s); s.push(')'); }
        (None, true, true) => s.push_str("notjson"),
    }
    // f64::from_str of every text that may be parsed as REAL
    let mut texts: BTreeSet<String> = BTreeSet::new();
    let any_real_regex = td.columns.iter().any(|c| !matches!(c.parsing, ColumnParsing::Json(_)) && *base_type(&c.column_type) == ValueType::Float);
    if any_real_regex {
        texts.insert(line.to_owned());
        for r in &lo.res {
            match r {
                PatRes::None => {}
                PatRes::Cap(gs) => for g in gs.iter().flatten() { texts.insert(g.clone()); },
                PatRes::Split(fs) => for f in fs { texts.insert(f.clone()); },
            }
        }
    }
    let any_real_convert = td.columns.iter().any(|c| matches!(c.parsing, ColumnParsing::Json(_)) && c.options.convert && c.column_type == ValueType::Float);
    if any_real_convert { if let Some(j) = &lo.json { collect_strings(j, &mut texts); } }
    s.push_str(" (f64");
    let ship = crate::util::ship_facts(crate::util::SITE_EXTRACT_F64);
    for t in &texts {
        if !ship { break; }
        match f64::from_str(t) { Ok(f) => s.push_str(&format!(" ({} {})", hexs(t), f.to_bits())), Err(_) => s.push_str(&format!(" ({} none)", hexs(t))) }
    }
    s.push(')');
    s
}

// ---------------------------------------------------------------------------------------------
// the property sentences, re-stated (independent of sqlgrep's extraction code)
// ---------------------------------------------------------------------------------------------

/// what the sentence demands for one column: `main` mirrors the code where the sentence leaves a choice,
/// `alt` is the other permitted answer ("NULL (or the declared DEFAULT)")
pub struct Spec { pub main: Value, pub alt: Option<Value>, pub why: String }

fn lookup<'a>(td: &TableDefinition, lo: &'a LineOracle, name: &str) -> Option<&'a PatRes> {
    // several patterns may carry one name: the last one that took part is the one referenced
    let mut found = None;
    for (i, (n, _, _)) in td.patterns.iter().enumerate() {
        if n == name { if let PatRes::None = lo.res[i] {} else { found = Some(&lo.res[i]); } }
    }
    found
}

/// Some(None) = pattern took part, group did not; None = pattern did not take part
fn group_text(td: &TableDefinition, lo: &LineOracle, line: &str, name: &str, idx: usize) -> Option<Option<String>> {
    match lookup(td, lo, name)? {
        PatRes::None => None,
        PatRes::Cap(gs) => Some(gs.get(idx).cloned().flatten()),
        PatRes::Split(fs) => Some(if idx == 0 { Some(line.to_owned()) } else { fs.get(idx - 1).cloned() }),
    }
}

fn civil(y: i128, mo: i128, d: i128, h: i128, mi: i128, s: i128, us: i128) -> Option<Value> {
    // all parts as mathematical integers: in range and a valid civil time, else no timestamp
    if y < -262143 || y > 262142 || mo < 1 || mo > 12 || d < 1 || d > 31 || h < 0 || h > 23 || mi < 0 || mi > 59 || s < 0 || s > 59 || us < 0 { return None; }
    if us >= 1_000_000 && !(s == 59 && us < 2_000_000) { return None; }
    let date = NaiveDate::from_ymd_opt(y as i32, mo as u32, d as u32)?;
    let dt = date.and_hms_micro_opt(h as u32, mi as u32, s as u32, us as u32)?;
    Local.from_local_datetime(&dt).single().map(Value::Timestamp)
}

fn interval_lit(t: &str) -> Option<Value> {
    let parts: Vec<&str> = t.split(':').collect();
    if parts.len() != 3 { return None; }
    let h = i64::from_str(parts[0]).ok()? as i128;
    let m = i64::from_str(parts[1]).ok()? as i128;
    let s = i64::from_str(parts[2]).ok()? as i128;
    // chrono's range: every term and every partial sum within +-i64::MAX milliseconds
    let max = (i64::MAX / 1000) as i128;
    let ok = |x: i128| -max <= x && x <= max;
    if !(ok(h * 3600) && ok(m * 60) && ok(s) && ok(h * 3600 + m * 60) && ok(h * 3600 + m * 60 + s)) { return None; }
    Some(Value::Interval(chrono::Duration::try_seconds((h * 3600 + m * 60 + s) as i64)?))
}

/// the text as a literal of the type, NULL when it is none
pub fn literal(t: &ValueType, text: &str) -> Value {
    match t {
        ValueType::Int => i64::from_str(text).map(Value::Int).unwrap_or(Value::Null),
        ValueType::Float => f64::from_str(text).map(|f| Value::Float(Float(f))).unwrap_or(Value::Null),
        ValueType::Bool => match text { "true" => Value::Bool(true), "false" => Value::Bool(false), _ => Value::Null },
        ValueType::String => Value::String(text.to_owned()),
        ValueType::Array(_) => Value::Null,
        ValueType::Timestamp => match NaiveDateTime::parse_from_str(text, "%Y-%m-%d %H:%M:%S") {
            Ok(dt) => Local.from_local_datetime(&dt).single().map(Value::Timestamp).unwrap_or(Value::Null),
            Err(_) => Value::Null,
        },
        ValueType::Interval => interval_lit(text).unwrap_or(Value::Null),
    }
}

fn spec_scalar(td: &TableDefinition, lo: &LineOracle, line: &str, t: &ValueType, name: &str, idx: usize, dflt: &Value) -> (Value, &'static str) {
    match group_text(td, lo, line, name, idx) {
        None => (dflt.clone(), "pattern-absent"),
        Some(g) => {
            if *t == ValueType::Bool { return (Value::Bool(g.is_some()), "bool-existence"); }
            match g {
                None => (dflt.clone(), "group-absent"),
                Some(text) => { let v = literal(t, &text); let why = if v.is_null() { "not-literal" } else { "literal" }; (v, why) }
            }
        }
    }
}

fn month_name(t: &str) -> Option<i128> {
    match t.to_lowercase().as_str() {
        "jan" => Some(1), "feb" => Some(2), "mar" => Some(3), "apr" => Some(4), "may" => Some(5), "jun" | "june" => Some(6),
        "jul" | "july" => Some(7), "aug" => Some(8), "sep" | "sept" => Some(9), "oct" => Some(10), "nov" => Some(11), "dec" => Some(12),
        _ => None,
    }
}

fn json_follow<'a>(steps: &[GStep], j: &'a serde_json::Value) -> Option<&'a serde_json::Value> {
    let mut cur = j;
    for st in steps {
        cur = match (st, cur) {
            (GStep::Field(f), serde_json::Value::Object(m)) => m.get(f.as_str())?,
            (GStep::Index(i), serde_json::Value::Array(xs)) => xs.get(*i)?,
            _ => return None,
        };
    }
    Some(cur)
}

/// a REAL fed from a JSON number is `f64::from_str` of the number's text where the text can be got at (`real_of`),
/// serde_json's own reading otherwise.
///
/// INT from a JSON number — observation N1 of DESIGN.md section 0. The sentence: "INT only from integers within 64 bits
/// … NULL when the JSON value has another type". It DECIDES: an integer literal (digits, optional minus) within i64 other
/// than `-0` → that INT; a number that is no integer (`0.5`) or lies outside i64 → NULL. It does NOT decide the number
/// literals whose VALUE is an integer within 64 bits but which are written with a fraction, an exponent or as `-0`
/// (`1.0`, `1e2`, `-0`, `-0.0`, `1.5e1`): "an integer" can be read as a property of the value or of the literal.
/// `lenient = false` gives serde_json's classification (what the code does, what the Lean model states exactly:
/// `Props/C02.int_column_from_literal`) — NULL for those; `lenient = true` gives the INT of the same numeric value. The
/// oracle accepts either (`oracle-accepts-either:int-from-integral-literal`); the correspondence with the Lean model
/// still reports any change of behaviour.
fn no_coercion(t: &ValueType, j: &serde_json::Value, lo: &LineOracle, lenient: bool) -> Value {
    match (t, j) {
        (ValueType::Int, serde_json::Value::Number(n)) => {
            if let Some(u) = n.as_u64() { if u <= i64::MAX as u64 { Value::Int(u as i64) } else { Value::Null } }
            else if n.is_i64() { Value::Int(n.as_i64().unwrap()) }
            else if lenient {
                // the number's own text decides whether it denotes an integer within 64 bits; without the text (never
                // seen) the REAL serde_json made of it, when that is a whole number small enough to be exact
                match lo.lexeme_of(j) {
                    Some(t) => integer_of_number_text(t).map(Value::Int).unwrap_or(Value::Null),
                    None => match n.as_f64() { Some(f) if f.fract() == 0.0 && f.abs() < 9007199254740992.0 => Value::Int(f as i64), _ => Value::Null },
                }
            } else { Value::Null }
        }
        (ValueType::Float, serde_json::Value::Number(n)) => Value::Float(Float(lo.real_of(j).unwrap_or_else(|| n.as_f64().unwrap()))),
        (ValueType::Bool, serde_json::Value::Bool(b)) => Value::Bool(*b),
        (ValueType::String, serde_json::Value::String(s)) => Value::String(s.clone()),
        (ValueType::Array(e), serde_json::Value::Array(xs)) => Value::Array(*e.clone(), xs.iter().map(|x| no_coercion(e, x, lo, lenient)).collect()),
        _ => Value::Null,
    }
}

/// does `got` agree, position by position, with one of the two permitted readings (`a` / `b`) — for an array each
/// element may follow either reading
fn agrees_elementwise(got: &Value, a: &Value, b: &Value) -> bool {
    if same(got, a) || same(got, b) { return true; }
    match (got, a, b) {
        (Value::Array(tg, gs), Value::Array(ta, xs), Value::Array(tb, ys)) =>
            tg == ta && ta == tb && gs.len() == xs.len() && xs.len() == ys.len() && gs.iter().zip(xs.iter().zip(ys)).all(|(g, (x, y))| agrees_elementwise(g, x, y)),
        _ => false,
    }
}

pub fn spec_column(td: &TableDefinition, c: &ColumnDefinition, lo: &LineOracle, line: &str) -> Spec {
    let dflt = c.options.default_value.clone().unwrap_or(Value::Null);
    let either = |main: Value, why: &str| -> Spec {
        // the sentence allows NULL or DEFAULT here
        let alt = if main.is_null() { dflt.clone() } else { Value::Null };
        Spec { main, alt: Some(alt), why: why.to_owned() }
    };
    let mut spec = match &c.parsing {
        ColumnParsing::Regex(r) => {
            let (v, why) = spec_scalar(td, lo, line, &c.column_type, &r.pattern_name, r.group_index, &dflt);
            match why {
                "pattern-absent" | "group-absent" => either(v, why),
                _ => Spec { main: v, alt: None, why: why.to_owned() },
            }
        }
        ColumnParsing::MultiRegex(rs) => match &c.column_type {
            ValueType::Array(e) => {
                let vs: Vec<Value> = rs.iter().map(|r| spec_scalar(td, lo, line, e, &r.pattern_name, r.group_index, &Value::Null).0).collect();
                if vs.iter().all(|v| v.is_null()) { either(dflt.clone(), "array-all-null") } else { Spec { main: Value::Array(*e.clone(), vs), alt: None, why: "array".to_owned() } }
            }
            ValueType::Timestamp => {
                // position by position; the integer each part denotes
                let mut nums: [i128; 7] = [0, 1, 1, 0, 0, 0, 0];
                let mut verdict: Option<Spec> = None;
                for (idx, r) in rs.iter().enumerate() {
                    let text = group_text(td, lo, line, &r.pattern_name, r.group_index).flatten();
                    let n: i128 = match text {
                        None => { verdict = Some(either(Value::Null, &format!("ts-part{}-absent", idx))); break; }
                        Some(t) => match i64::from_str(&t) {
                            Ok(n) => n as i128,
                            Err(_) => match (idx, month_name(&t)) {
                                (1, Some(m)) => m,
                                _ => { verdict = Some(either(Value::Null, &format!("ts-part{}-not-literal", idx))); break; }
                            },
                        },
                    };
                    // a part that does not fit its machine field can never be part of a valid civil time
                    let fits = if idx == 0 { n >= i32::MIN as i128 && n <= i32::MAX as i128 } else { n >= 0 && n <= u32::MAX as i128 };
                    let scaled = if idx == 6 && !c.options.microseconds { n * 1000 } else { n };
                    if !fits || (idx == 6 && scaled > u32::MAX as i128) { verdict = Some(either(dflt.clone(), &format!("ts-part{}-out-of-range", idx))); break; }
                    if idx < 7 { nums[idx] = scaled; }
                }
                match verdict {
                    Some(v) => v,
                    None => match civil(nums[0], nums[1], nums[2], nums[3], nums[4], nums[5], nums[6]) {
                        Some(t) => Spec { main: t, alt: None, why: "ts".to_owned() },
                        None => either(dflt.clone(), "ts-invalid-civil"),
                    },
                }
            }
            _ => either(dflt.clone(), "multi-on-scalar"),
        },
        ColumnParsing::Json(a) => {
            let steps = json_steps(a);
            let null = serde_json::Value::Null;
            let root: &serde_json::Value = lo.json.as_ref().unwrap_or(&null);      // by reference: `real_of` finds nodes by identity
            match json_follow(&steps, root) {
                None => either(dflt.clone(), if lo.json.is_some() { "json-path-absent" } else { "not-json" }),
                Some(v) => {
                    if c.options.convert {
                        match v { serde_json::Value::String(s) => Spec { main: literal(&c.column_type, s), alt: None, why: "json-convert".to_owned() }, _ => Spec { main: Value::Null, alt: None, why: "json-convert-nonstring".to_owned() } }
                    } else {
                        let m = no_coercion(&c.column_type, v, lo, false);
                        let m2 = no_coercion(&c.column_type, v, lo, true);
                        let why = if m.is_null() { "json-other-type" } else if *base_type(&c.column_type) == ValueType::Float && lo.lexeme_reals.is_some() { "json-real-lexeme" } else { "json-value" };
                        // observation N1: where the sentence does not decide (an integral value written `1.0`, `1e2`, `-0`) both
                        // NULL and the INT are accepted, element by element
                        let alt = if same(&m, &m2) { None } else { Some(m2) };
                        Spec { main: m, alt, why: why.to_owned() }
                    }
                }
            }
        }
    };
    if c.options.trim {
        let tr = |v: Value| match v { Value::String(s) => Value::String(s.trim().to_owned()), v => v };
        spec.main = tr(spec.main);
        spec.alt = spec.alt.map(tr);
    }
    spec
}

fn same(a: &Value, b: &Value) -> bool { value_sexp(a) == value_sexp(b) }

pub fn type_name(t: &ValueType) -> String {
    match t {
        ValueType::Int => "int".into(), ValueType::Float => "real".into(), ValueType::Bool => "bool".into(), ValueType::String => "text".into(),
        ValueType::Timestamp => "timestamp".into(), ValueType::Interval => "interval".into(), ValueType::Array(e) => format!("{}[]", type_name(e)),
    }
}

pub fn sql_type(t: &ValueType) -> String {
    match t {
        ValueType::Int => "INT".into(), ValueType::Float => "REAL".into(), ValueType::Bool => "BOOLEAN".into(), ValueType::String => "TEXT".into(),
        ValueType::Timestamp => "TIMESTAMP".into(), ValueType::Interval => "INTERVAL".into(), ValueType::Array(e) => format!("{}[]", sql_type(e)),
    }
}

pub fn col_kind(c: &ColumnDefinition) -> &'static str {
    match (&c.parsing, &c.column_type) {
        (ColumnParsing::Regex(_), _) => "regex",
        (ColumnParsing::MultiRegex(_), ValueType::Array(_)) => "array",
        (ColumnParsing::MultiRegex(_), ValueType::Timestamp) => "ts",
        (ColumnParsing::MultiRegex(_), _) => "multi",
        (ColumnParsing::Json(_), _) => "json",
    }
}

pub fn col_mod(c: &ColumnDefinition) -> String {
    let mut m = Vec::new();
    if !c.options.nullable { m.push("notnull"); }
    if c.options.trim { m.push("trim"); }
    if c.options.convert { m.push("convert"); }
    if c.options.microseconds { m.push("micros"); }
    if c.options.default_value.is_some() { m.push("default"); }
    if m.is_empty() { "plain".to_owned() } else { m.join("+") }
}

/// one (definition, line) pair: correspondence case + property oracle. Returns the result kind for tagging.
pub fn run_case(run: &mut Run, td: &TableDefinition, def_text: &str, line: &str, shape: &str) {
    let lo = line_oracle(td, line);
    let specs: Vec<Spec> = td.columns.iter().map(|c| spec_column(td, c, &lo, line)).collect();
    let any_json_col = td.columns.iter().any(|c| matches!(c.parsing, ColumnParsing::Json(_)));
    if any_json_col {
        // how often the REAL / INT oracle has the numbers' own texts, and how often it would have to mirror serde_json
        if lo.json.is_some() { run.count(if lo.lexeme_reals.is_some() { "oracle-json-number-texts:matched" } else { "oracle-abstains:json-real" }); }
        // observation N2: an RFC 8259 text that serde_json rejects for one of its own limits voids every JSON column
        match lo.json_reject { Some("number-out-of-range") => run.count("n2:line-voided:number-out-of-range"), Some("recursion-limit") => run.count("n2:line-voided:recursion-limit"), _ => {} }
        for (c, s) in td.columns.iter().zip(&specs) {
            if matches!(c.parsing, ColumnParsing::Json(_)) && !c.options.convert && s.alt.is_some() && (s.why == "json-other-type" || s.why == "json-value") {
                run.count("oracle-accepts-either:int-from-integral-literal");
            }
        }
    }
    let spec_row: Vec<Value> = specs.iter().map(|s| s.main.clone()).collect();
    let desc = || format!("definition: {} || line: {:?}", def_text.replace('\n', " "), line);
    let got = catch(|| td.extract(line));
    let case = case_line(td, line, &lo);
    let (answer, row) = match got {
        Caught::Done(row) => {
            let adm = row.any_result();
            (format!("row {} admitted {} spec {}", values_sexp(&row.columns), flag(adm), values_sexp(&spec_row)), Some(row.columns))
        }
        Caught::Panic(m) => {
            run.fail(desc(), "extract-panic", format!("TableDefinition::extract panicked: {}", m));
            (format!("panic spec {}", values_sexp(&spec_row)), None)
        }
    };
    let mut kinds: BTreeSet<String> = BTreeSet::new();
    for (c, s) in td.columns.iter().zip(&specs) { kinds.insert(format!("{}/{}/{}/{}", col_kind(c), type_name(base_type(&c.column_type)), col_mod(c), s.why)); }
    for k in &kinds { run.count(&format!("col:{}", k)); }
    let outcome = match &row { None => "panic", Some(r) if r.is_empty() => "cut", Some(r) if r.iter().all(|v| v.is_null()) => "all-null", Some(_) => "row" };
    run.count(&format!("outcome:{}", outcome));
    let first = kinds.iter().next().cloned().unwrap_or_default();
    run.case(case, answer, format!("{}|{}|{}", shape, outcome, first));

    // property oracle
    run.oracle_checks += 1;
    let row = match row { Some(r) => r, None => return };
    // the NOT NULL cut: the row is dropped iff a NOT NULL column is NULL
    let cut_col = td.columns.iter().zip(&specs).position(|(c, s)| !c.options.nullable && s.main.is_null() && s.alt.as_ref().map(|a| a.is_null()).unwrap_or(true));
    let maybe_cut = td.columns.iter().zip(&specs).any(|(c, s)| !c.options.nullable && (s.main.is_null() || s.alt.as_ref().map(|a| a.is_null()).unwrap_or(false)));
    if row.is_empty() {
        if !maybe_cut && !td.columns.is_empty() {
            run.fail(desc(), "row-dropped-without-null-notnull-column", "extract returned an empty row although no NOT NULL column is NULL".to_owned());
        }
        return;
    }
    if let Some(i) = cut_col {
        let class = if specs[i].why == "ts-part1-absent" { "D52:ts-month-absent-becomes-january:notnull-row-kept".to_owned() }
            else { format!("notnull-cut-missed:{}:{}", col_kind(&td.columns[i]), type_name(&td.columns[i].column_type)) };
        run.fail(desc(), &class, format!("column {} is NOT NULL and must be NULL, but the row was kept: {}", i, values_sexp(&row)));
        return;
    }
    if row.len() != td.columns.len() {
        run.fail(desc(), "row-length", format!("row has {} columns, the table {}", row.len(), td.columns.len()));
        return;
    }
    for (i, (c, s)) in td.columns.iter().zip(&specs).enumerate() {
        let ok = same(&row[i], &s.main) || s.alt.as_ref().map(|a| agrees_elementwise(&row[i], &s.main, a)).unwrap_or(false);
        if !ok {
            let class = if s.why == "ts-part1-absent" && matches!(row[i], Value::Timestamp(_)) { format!("D52:ts-month-absent-becomes-january:{}", col_mod(c)) }
                else if s.why == "json-real-lexeme" && off_by_ulps(&row[i], &s.main) { format!("D66:json-real-not-f64-from-str-of-its-text:{}", type_name(&c.column_type)) }
                else { format!("{}:{}:{}:{}", col_kind(c), type_name(&c.column_type), col_mod(c), s.why) };
            run.fail(desc(), &class, format!("column {}: got {}, the property demands {}{}", i, value_sexp(&row[i]), value_sexp(&s.main), s.alt.as_ref().map(|a| format!(" (or {})", value_sexp(a))).unwrap_or_default()));
        }
    }
}

// ---------------------------------------------------------------------------------------------
// lines
// ---------------------------------------------------------------------------------------------

fn elem_slot(t: &ValueType) -> Slot {
    match base_type(t) {
        ValueType::Int => Slot::Int, ValueType::Float => Slot::Real, ValueType::Bool => Slot::Bool, ValueType::String => Slot::Text,
        ValueType::Timestamp => Slot::TsLit, ValueType::Interval => Slot::Interval, ValueType::Array(_) => Slot::Text,
    }
}

/// which kinds of text the columns of the table expect in group `idx` of pattern `name`
fn slots_for(td: &TableDefinition, name: &str, idx: usize) -> Vec<Slot> {
    let mut out = Vec::new();
    for c in &td.columns {
        match &c.parsing {
            ColumnParsing::Regex(r) => if r.pattern_name == name && r.group_index == idx { out.push(elem_slot(&c.column_type)); },
            ColumnParsing::MultiRegex(rs) => for (k, r) in rs.iter().enumerate() {
                if r.pattern_name == name && r.group_index == idx {
                    out.push(if c.column_type == ValueType::Timestamp { Slot::TsPart(k) } else { elem_slot(&c.column_type) });
                }
            },
            ColumnParsing::Json(_) => {}
        }
    }
    out
}

/// `mode`: 0 = every slot plausible, 1 = exactly one slot from the boundary pools, 2 = every slot drawn freely
pub fn fill_shape(rng: &mut Rng, td: &TableDefinition, pat_name: &str, shape: &str, mode: usize) -> String {
    let mut out = shape.to_owned();
    let present: Vec<usize> = (1..=9).filter(|i| out.contains(&format!("{{{}}}", i))).collect();
    let odd = if present.is_empty() { 0 } else { *rng.pick(&present) };
    for i in present {
        let ph = format!("{{{}}}", i);
        let slots = slots_for(td, pat_name, i);
        let slot = if slots.is_empty() { *rng.pick(&[Slot::Text, Slot::Int, Slot::Real]) } else { *rng.pick(&slots) };
        let text = match mode {
            0 => good_text(rng, slot),
            1 => if i == odd { (*rng.pick(pool(slot))).to_owned() } else { good_text(rng, slot) },
            _ => slot_text(rng, slot),
        };
        out = out.replace(&ph, &text);
    }
    out
}

fn mutate(rng: &mut Rng, s: &str) -> String {
    let chars: Vec<char> = s.chars().collect();
    if chars.is_empty() { return "x".to_owned(); }
    let k = rng.below(chars.len());
    match rng.below(4) {
        0 => chars[..k].iter().collect(),
        1 => { let mut c = chars.clone(); c.remove(k); c.into_iter().collect() }
        2 => { let mut c = chars.clone(); c.insert(k, *rng.pick(&[' ', ';', 'x', '9', '-', 'é', '\t'])); c.into_iter().collect() }
        _ => { let mut c = chars.clone(); c[k] = *rng.pick(&[' ', ';', 'x', '0', ':', '"']); c.into_iter().collect() }
    }
}

/// a line for a regex table and the name of its shape class
pub fn regex_line(rng: &mut Rng, td: &TableDefinition, tpl_of: &dyn Fn(&str) -> Option<usize>) -> (String, String) {
    let choice = rng.below(20);
    if choice == 0 { return (String::new(), "empty".to_owned()); }
    if choice == 1 { return ((*rng.pick(&["garbage", "   ", "a b c d e f g h", ";;;;;;", "1 2 3", "\u{a0}", "{\"a\": 1}", "=", "x=", "[] "])).to_owned(), "garbage".to_owned()); }
    if td.patterns.is_empty() { return ("no patterns".to_owned(), "garbage".to_owned()); }
    let (name, re, _) = rng.pick(&td.patterns);
    let tpl = match tpl_of(re.as_str()) { Some(t) => t, None => return ("x".to_owned(), "garbage".to_owned()) };
    let t = &TEMPLATES[tpl];
    let si = rng.below(t.shapes.len());
    let mode = match rng.below(10) { 0..=2 => 0, 3..=7 => 1, _ => 2 };
    let mut line = fill_shape(rng, td, name, t.shapes[si], mode);
    if !t.split && rng.chance(7, 10) {
        // prefer lines on which the driving pattern takes part (the others are kept as near-misses)
        let mut tries = 0;
        while !re.is_match(&line) && tries < 6 { let k = rng.below(t.shapes.len()); line = fill_shape(rng, td, name, t.shapes[k], if tries < 3 { mode } else { 0 }); tries += 1; }
    }
    let mut class = format!("t{}s{}m{}", tpl, si, mode);
    if rng.chance(1, 8) { line = mutate(rng, &line); class = format!("t{}near", tpl); }
    line = line.replace('\n', " ").replace('\r', " ");
    (line, class)
}

// -- JSON documents -----------------------------------------------------------------------------

#[derive(Clone, Debug)]
pub enum GJ { Raw(String), Str(String), Arr(Vec<GJ>), Obj(Vec<(String, GJ)>) }

fn json_str(s: &str, rng: &mut Rng) -> String {
    let mut o = String::from("\"");
    for c in s.chars() {
        match c {
            '"' => o.push_str("\\\""),
            '\\' => o.push_str("\\\\"),
            '\n' => o.push_str("\\n"),
            '\t' => o.push_str("\\t"),
            c if (c as u32) < 0x20 => o.push_str(&format!("\\u{:04x}", c as u32)),
            c if (c as u32) > 0xffff && rng.chance(1, 2) => { let mut b = [0u16; 2]; for u in c.encode_utf16(&mut b) { o.push_str(&format!("\\u{:04x}", u)); } }
            c if !c.is_ascii() && rng.chance(1, 3) && (c as u32) <= 0xffff => o.push_str(&format!("\\u{:04X}", c as u32)),
            c => o.push(c),
        }
    }
    o.push('"');
    o
}

impl GJ {
    pub fn render(&self, rng: &mut Rng, out: &mut String) {
        let sp = |rng: &mut Rng| if rng.chance(1, 3) { " " } else { "" };
        match self {
            GJ::Raw(s) => out.push_str(s),
            GJ::Str(s) => out.push_str(&json_str(s, rng)),
            GJ::Arr(xs) => {
                out.push('[');
                for (i, x) in xs.iter().enumerate() { if i > 0 { out.push(','); out.push_str(sp(rng)); } x.render(rng, out); }
                out.push(']');
            }
            GJ::Obj(kvs) => {
                out.push('{');
                for (i, (k, x)) in kvs.iter().enumerate() {
                    if i > 0 { out.push(','); out.push_str(sp(rng)); }
                    out.push_str(&json_str(k, rng)); out.push(':'); out.push_str(sp(rng)); x.render(rng, out);
                }
                out.push('}');
            }
        }
    }
}

const JNUM_INT: &[&str] = &["5", "-7", "0", "-0", "9223372036854775807", "9223372036854775808", "-9223372036854775808", "-9223372036854775809", "18446744073709551615", "18446744073709551616", "4294967297", "1.0", "1e2", "12"];
const JNUM_REAL: &[&str] = &["239.21e-27", "2.2250738585072011e-308", "46348.619e-20", "97045.26e25", "-78260.519e-26", "7.038531e-26", "1.5", "5", "-0.0", "1e308", "1E-400", "18446744073709551616", "9007199254740993", "-9223372036854775808", "0.1", "123456789012345678901234567890", "2.5e-3", "1e400"];

fn scalar_of_wrong_type(rng: &mut Rng) -> GJ {
    match rng.below(8) {
        0 => GJ::Raw("null".into()), 1 => GJ::Raw("true".into()), 2 => GJ::Raw("false".into()), 3 => GJ::Raw((*rng.pick(JNUM_INT)).into()), 4 => GJ::Raw((*rng.pick(JNUM_REAL)).into()),
        5 => GJ::Str((*rng.pick(&["abc", "5", "true", "1.5", ""])).into()), 6 => GJ::Arr(vec![GJ::Raw("1".into())]), _ => GJ::Obj(vec![("a".into(), GJ::Raw("1".into()))]),
    }
}

fn leaf_for(rng: &mut Rng, c: &ColumnDefinition) -> GJ {
    if rng.chance(1, 5) { return scalar_of_wrong_type(rng); }
    if c.options.convert {
        let slot = match &c.column_type { ValueType::Array(_) => Slot::Text, t => elem_slot(t) };
        return GJ::Str(slot_text(rng, slot));
    }
    leaf_of_type(rng, &c.column_type, 0)
}

fn leaf_of_type(rng: &mut Rng, t: &ValueType, depth: usize) -> GJ {
    match t {
        ValueType::Int => GJ::Raw((*rng.pick(JNUM_INT)).into()),
        ValueType::Float => if rng.chance(1, 3) {
            // a literal whose nearest REAL needs more than "significand × one power of ten" (finding D66)
            let m = rng.below(100000000);
            let e = if rng.chance(1, 2) { 23 + rng.below(280) as i64 } else { -(23 + rng.below(300) as i64) };
            GJ::Raw(format!("{}{}.{}{}{}", if rng.chance(1, 4) { "-" } else { "" }, m / 1000, m % 1000, if rng.chance(1, 2) { "e" } else { "E" }, e))
        } else { GJ::Raw((*rng.pick(JNUM_REAL)).into()) },
        ValueType::Bool => GJ::Raw((*rng.pick(&["true", "false"])).into()),
        ValueType::String => GJ::Str((*rng.pick(&["abc", "", " pad ", "é", "a\"b\\c", "line\nbreak", "\u{1f600}", "日本", "\u{0}", "A"])).into()),
        ValueType::Array(e) => {
            let n = rng.below(4);
            GJ::Arr((0..n).map(|_| if rng.chance(1, 4) || depth > 2 { scalar_of_wrong_type(rng) } else { leaf_of_type(rng, e, depth + 1) }).collect())
        }
        ValueType::Timestamp => GJ::Str((*rng.pick(TSLIT_TEXTS)).into()),
        ValueType::Interval => GJ::Str((*rng.pick(INTERVAL_TEXTS)).into()),
    }
}

fn insert_path(rng: &mut Rng, node: &mut GJ, steps: &[GStep], leaf: GJ, dup: bool) {
    if steps.is_empty() { *node = leaf; return; }
    match &steps[0] {
        GStep::Field(f) => {
            if !matches!(node, GJ::Obj(_)) { *node = GJ::Obj(Vec::new()); }
            if let GJ::Obj(kvs) = node {
                let pos = kvs.iter().rposition(|(k, _)| k == f);
                match pos {
                    Some(p) if !dup => insert_path(rng, &mut kvs[p].1, &steps[1..], leaf, dup),
                    _ => {
                        let mut child = GJ::Raw("null".into());
                        insert_path(rng, &mut child, &steps[1..], leaf, false);
                        kvs.push((f.clone(), child));
                    }
                }
            }
        }
        GStep::Index(i) => {
            if !matches!(node, GJ::Arr(_)) { *node = GJ::Arr(Vec::new()); }
            if let GJ::Arr(xs) = node {
                while xs.len() <= *i { xs.push(scalar_of_wrong_type(rng)); }
                insert_path(rng, &mut xs[*i], &steps[1..], leaf, dup);
            }
        }
    }
}

/// like `insert_path`, but with the container kinds confused: where the path has an index step the document has an
/// OBJECT whose member is named by the index ("2": …), where it has a field step the document (sometimes) has an array —
/// the addressed value is then absent (an index addresses arrays only, a field objects only)
fn insert_path_confused(rng: &mut Rng, node: &mut GJ, steps: &[GStep], leaf: GJ) {
    if steps.is_empty() { *node = leaf; return; }
    match &steps[0] {
        GStep::Index(i) => {
            let mut child = GJ::Raw("null".into());
            insert_path_confused(rng, &mut child, &steps[1..], leaf);
            let mut kvs = vec![(i.to_string(), child)];
            if rng.chance(1, 2) { kvs.push(("other".into(), scalar_of_wrong_type(rng))); }
            *node = GJ::Obj(kvs);
        }
        GStep::Field(f) => {
            let mut child = GJ::Raw("null".into());
            insert_path_confused(rng, &mut child, &steps[1..], leaf);
            if rng.chance(1, 3) {
                *node = GJ::Arr(vec![child]);
            } else {
                if !matches!(node, GJ::Obj(_)) { *node = GJ::Obj(Vec::new()); }
                if let GJ::Obj(kvs) = node { kvs.push((f.clone(), child)); }
            }
        }
    }
}

/// a line for a table with JSON columns
pub fn json_line(rng: &mut Rng, td: &TableDefinition) -> (String, String) {
    let jcols: Vec<&ColumnDefinition> = td.columns.iter().filter(|c| matches!(c.parsing, ColumnParsing::Json(_))).collect();
    let choice = rng.below(24);
    if choice == 0 { return ((*rng.pick(&["not json", "", "{", "{\"a\": }", "[1,2", "{\"a\": 1} trailing", "{'a': 1}", "nul", "{\"a\": 1e400}", "{\"a\": 01}", "\u{feff}{\"a\": 1}"])).to_owned(), "json-invalid".to_owned()); }
    if choice == 1 { return ((*rng.pick(&["null", "5", "\"str\"", "true", "[]", "{}", "[[[[[[1]]]]]]", " {\"a\": {\"a\": {\"a\": {\"a\": {\"a\": {\"a\": 1}}}}}} "])).to_owned(), "json-small".to_owned()); }
    let mut root = GJ::Obj(Vec::new());
    let mut class = String::from("json");
    for c in &jcols {
        let steps = if let ColumnParsing::Json(a) = &c.parsing { json_steps(a) } else { continue };
        match rng.below(10) {
            0 if rng.chance(1, 2) => { class.push_str("-miss"); continue; }            // path absent altogether
            1 if steps.len() > 1 => {                                                     // an intermediate node is missing / a scalar
                let cutat = 1 + rng.below(steps.len() - 1);
                let leaf = scalar_of_wrong_type(rng);
                insert_path(rng, &mut root, &steps[..cutat], leaf, false);
                class.push_str("-cutpath");
            }
            3 if steps.iter().any(|st| matches!(st, GStep::Index(_))) => {                // object where the path has an index step
                let leaf = leaf_for(rng, c);
                insert_path_confused(rng, &mut root, &steps, leaf);
                class.push_str("-confused");
            }
            2 => {                                                                        // duplicate key: the last one wins
                let first = scalar_of_wrong_type(rng);
                insert_path(rng, &mut root, &steps, first, false);
                let leaf = leaf_for(rng, c);
                insert_path(rng, &mut root, &steps, leaf, true);
                class.push_str("-dup");
            }
            _ => { let leaf = leaf_for(rng, c); insert_path(rng, &mut root, &steps, leaf, false); }
        }
    }
    if rng.chance(1, 6) { if let GJ::Obj(kvs) = &mut root { kvs.push(("extra".into(), GJ::Arr(vec![GJ::Raw("1".into()), GJ::Obj(vec![("deep".into(), GJ::Arr(vec![GJ::Arr(vec![GJ::Str("x".into())])]))])]))); } }
    let mut s = String::new();
    root.render(rng, &mut s);
    if s.contains("1e400") { class = "json-1e400".to_owned(); }
    if rng.chance(1, 25) { s = mutate(rng, &s); class = "json-mutated".to_owned(); }
    let mut s = s.replace('\n', " ").replace('\r', " ");
    // JSON allows white space around the document (and serde_json accepts it): blanks and tabs before / after
    if rng.chance(1, 6) { s = format!("{}{}", rng.pick(&[" ", "\t", "   ", " \t "]), s); class.push_str("-lead-ws"); }
    if rng.chance(1, 10) { let w: &str = *rng.pick(&[" ", "\t", "  "]); s.push_str(w); class.push_str("-trail-ws"); }
    // a document the columns' paths DO address, made "not one JSON document" by what surrounds it (a lenient reader that
    // takes the first value, strips a byte-order mark or forgives a trailing comma would extract values from it)
    if rng.chance(1, 14) {
        let k = rng.below(7);
        s = match k {
            0 => format!("{} trailing", s),
            1 => format!("{}{}", s, s),
            2 => format!("{}{}", '\u{feff}', s),
            3 => format!("{},", s),
            4 => format!("{} {}", s, rng.pick(&["1", "null", "{}", "]", "}"])),
            5 => format!("// c{}{}", '\u{a0}', s),
            _ => format!("{}{}", s, '\u{a0}'),
        };
        class = format!("json-wrapped{}", k);
    }
    (s, class)
}

// ---------------------------------------------------------------------------------------------
// runs
// ---------------------------------------------------------------------------------------------

pub fn tpl_index(re: &str) -> Option<usize> { TEMPLATES.iter().position(|t| t.re == re) }

/// generated (definition, line) pairs; `json_share` in 0..=10
/// the parsed definition must say what the text says: column i is named `c<i>`, has the written type, and refers to
/// exactly the written pattern names / group indexes / JSON steps, in the written order (the generator knows what it
/// wrote; everything after this point — extraction, the model — works from the parsed definition)
pub fn check_def_faithful(run: &mut Run, g: &GDef, td: &TableDefinition, text: &str) {
    run.oracle_checks += 1;
    let desc = format!("definition: {}", text.replace('\n', " "));
    // the named patterns: every one that was written, in the written order, with its text and mode (inline patterns of
    // `'regex' => column` items are bound to generated names and are counted only)
    let named: Vec<String> = td.patterns.iter().filter(|(n, _, _)| !n.starts_with("_pattern"))
        .map(|(n, re, mode)| format!("{} = {}{:?}", n, if matches!(mode, sqlgrep::data_model::RegexMode::Split) { "split " } else { "" }, re.as_str())).collect();
    let written_pats: Vec<String> = g.pats.iter().map(|p| format!("{} = {}{:?}", p.name, if TEMPLATES[p.tpl].split { "split " } else { "" }, TEMPLATES[p.tpl].re)).collect();
    let inline_written = g.cols.iter().filter(|c| matches!(c.parsing, GParsing::Inline(_, _))).count();
    if named != written_pats || td.patterns.len() != written_pats.len() + inline_written {
        run.fail(desc, "definition-patterns-not-as-written", format!("patterns written: {:?} (+{} inline); patterns of the parsed definition: {:?}", written_pats, inline_written, td.patterns.iter().map(|(n, re, _)| format!("{} = {:?}", n, re.as_str())).collect::<Vec<_>>()));
        return;
    }
    if td.columns.len() != g.cols.len() {
        run.fail(desc, "definition-column-count", format!("{} columns written, {} in the parsed definition", g.cols.len(), td.columns.len()));
        return;
    }
    for (i, (gc, c)) in g.cols.iter().zip(td.columns.iter()).enumerate() {
        let written = match &gc.parsing {
            GParsing::Regex(n, k) => format!("{}[{}]", n, k),
            GParsing::Inline(_, _) => "inline".to_owned(),
            GParsing::Multi(rs) => rs.iter().map(|(n, k)| format!("{}[{}]", n, k)).collect::<Vec<_>>().join(","),
            GParsing::Json(steps) => format!("json{}", steps.iter().map(|s| match s { GStep::Field(f) => format!(".{}", f), GStep::Index(i) => format!("[{}]", i) }).collect::<String>()),
        };
        let parsed = match &c.parsing {
            ColumnParsing::Regex(r) => if matches!(gc.parsing, GParsing::Inline(_, _)) { "inline".to_owned() } else { format!("{}[{}]", r.pattern_name, r.group_index) },
            ColumnParsing::MultiRegex(rs) => rs.iter().map(|r| format!("{}[{}]", r.pattern_name, r.group_index)).collect::<Vec<_>>().join(","),
            ColumnParsing::Json(a) => format!("json{}", json_steps(a).iter().map(|s| match s { GStep::Field(f) => format!(".{}", f), GStep::Index(i) => format!("[{}]", i) }).collect::<String>()),
        };
        if c.name != format!("c{}", i) || c.column_type != gc.ty || written != parsed {
            run.fail(desc, "definition-not-as-written", format!("column {} is written `{} => c{} {:?}` but the parsed definition has `{} => {} {:?}`", i, written, i, gc.ty, parsed, c.name, c.column_type));
            return;
        }
    }
}

pub fn random_cases(run: &mut Run, rng: &mut Rng, ndefs: usize, lines_per_def: usize, json_share: u64) {
    for _ in 0..ndefs {
        let g = gen_def(rng, json_share);
        let text = g.render(rng);
        let td = match parse_def(&text) {
            Ok(td) => td,
            Err(e) => { run.fail(format!("definition: {}", text.replace('\n', " ")), "create-table-rejected", e); continue; }
        };
        run.count("definitions");
        check_def_faithful(run, &g, &td, &text);
        let any_json = td.columns.iter().any(|c| matches!(c.parsing, ColumnParsing::Json(_)));
        for _ in 0..lines_per_def {
            let (line, shape) = if any_json && !rng.chance(1, 6) { json_line(rng, &td) } else { regex_line(rng, &td, &tpl_index) };
            run_case(run, &td, &text, &line, &shape);
        }
    }
}

/// every template x every type x every modifier (one single-reference column per group plus an array / timestamp over all groups)
pub fn sweep(run: &mut Run, rng: &mut Rng, lines_per_def: usize) {
    for (ti, t) in TEMPLATES.iter().enumerate() {
        for ty in SCALAR_TYPES {
            for mi in 0..6 {
                let modifier = match mi {
                    0 => GMod::None, 1 => GMod::NotNull, 2 => GMod::Default(default_literal(rng, ty)),
                    3 => if *ty == ValueType::String { GMod::Trim } else { continue },
                    4 => GMod::Micros, _ => GMod::Convert,
                };
                let pats = vec![GPat { name: "line".to_owned(), tpl: ti }];
                let mut cols = Vec::new();
                let g = 1 + rng.below(t.groups);
                cols.push(GCol { parsing: GParsing::Regex("line".into(), g), ty: ty.clone(), modifier: modifier.clone() });
                let refs: Vec<(String, usize)> = (1..=t.groups.min(7)).map(|i| ("line".to_owned(), i)).collect();
                if refs.len() >= 2 {
                    if *ty == ValueType::Timestamp {
                        let m = if mi == 4 { GMod::Micros } else if mi == 1 { GMod::NotNull } else { GMod::None };
                        cols.push(GCol { parsing: GParsing::Multi(refs), ty: ValueType::Timestamp, modifier: m });
                    } else {
                        let m = match &modifier { GMod::Default(_) => GMod::Default("NULL".into()), GMod::Trim => GMod::None, m => m.clone() };
                        cols.push(GCol { parsing: GParsing::Multi(refs), ty: ValueType::Array(Box::new(ty.clone())), modifier: m });
                    }
                }
                if rng.chance(1, 2) { cols.reverse(); }
                let gd = GDef { pats, cols, interleave: false };
                let text = gd.render(rng);
                let td = match parse_def(&text) {
                    Ok(td) => td,
                    Err(e) => { run.fail(format!("definition: {}", text.replace('\n', " ")), "create-table-rejected", e); continue; }
                };
                run.count("definitions");
                check_def_faithful(run, &gd, &td, &text);
                for _ in 0..lines_per_def {
                    let (line, shape) = regex_line(rng, &td, &tpl_index);
                    run_case(run, &td, &text, &line, &shape);
                }
            }
        }
    }
}

fn with_def(run: &mut Run, def: &str, f: &mut dyn FnMut(&mut Run, &TableDefinition)) {
    match parse_def(def) {
        Ok(td) => { run.count("definitions"); f(run, &td); }
        Err(e) => run.fail(format!("definition: {}", def), "create-table-rejected", e),
    }
}

/// every part position x every boundary text of that position, other parts plausible; 3..7 parts, both fraction units
pub fn ts_sweep(run: &mut Run, rng: &mut Rng) {
    for nparts in 3..=7usize {
        for micros in &[false, true] {
            for split in &[false, true] {
                let refs = (1..=nparts).map(|i| format!("line[{}]", i)).collect::<Vec<_>>().join(", ");
                let pat = if *split { "line = split ' '".to_owned() } else { format!("line = '^{}$'", vec!["(\\\\S*)"; nparts].join(" ")) };
                let def = format!("CREATE TABLE t ({}, {} => ts TIMESTAMP{});", pat, refs, if *micros { " MICROSECONDS" } else { "" });
                with_def(run, &def, &mut |run, td| {
                    for odd in 0..nparts {
                        for text in pool(Slot::TsPart(odd)) {
                            if text.contains(' ') { continue; }
                            let parts: Vec<String> = (0..nparts).map(|k| if k == odd { (*text).to_owned() } else {
                                match k { 5 if rng.chance(1, 3) => "59".to_owned(), _ => good_text(rng, Slot::TsPart(k)) } }).collect();
                            run_case(run, td, &def, &parts.join(" "), &format!("ts{}p{}{}", nparts, odd, if *micros { "us" } else { "ms" }));
                        }
                    }
                });
            }
        }
    }
}

/// every scalar type x every boundary text of its pool (and of the padding pool), through a split field,
/// a capture group and an array element; plain / DEFAULT / NOT NULL / TRIM
pub fn literal_sweep(run: &mut Run, rng: &mut Rng) {
    for ty in SCALAR_TYPES {
        let tn = sql_type(ty);
        let mut defs = vec![
            format!("CREATE TABLE t (line = split ';', line[1] => c {});", tn),
            format!("CREATE TABLE t (line = '^([^;]*);?(.*)$', line[1] => c {} NOT NULL, line[2] => rest TEXT);", tn),
            format!("CREATE TABLE t (line = split ';', line[1], line[2] => c {}[]);", tn),
        ];
        let mut r2 = rng.clone();
        defs.push(format!("CREATE TABLE t (line = split ';', line[2] => other INT, line[1] => c {} DEFAULT {});", tn, default_literal(&mut r2, ty)));
        if *ty == ValueType::String { defs.push("CREATE TABLE t (line = '^(.*)$', line[1] => c TEXT TRIM);".to_owned()); }
        for def in &defs {
            with_def(run, def, &mut |run, td| {
                let mut texts: Vec<&str> = pool(elem_slot(ty)).to_vec();
                texts.extend_from_slice(PAD_TEXTS);
                for text in texts {
                    if text.contains(';') { continue; }
                    let line = if rng.chance(1, 2) { (*text).to_owned() } else { format!("{};{}", text, rng.range(0, 9)) };
                    run_case(run, td, def, &line, &format!("lit-{}", type_name(ty)));
                }
            });
        }
    }
}

/// JSON leaves: every type x every JSON scalar / number form; CONVERT x every literal pool text
pub fn json_sweep(run: &mut Run, rng: &mut Rng) {
    let mut leaves: Vec<String> = vec!["null".into(), "true".into(), "false".into(), "\"abc\"".into(), "\"5\"".into(), "\"\"".into(), "[]".into(), "[1, 2.5, \"x\", null, true, [1]]".into(), "{}".into(), "{\"a\": 1}".into()];
    for n in JNUM_INT.iter().chain(JNUM_REAL.iter()) { leaves.push((*n).to_owned()); }
    let mut types: Vec<ValueType> = SCALAR_TYPES.to_vec();
    for t in SCALAR_TYPES { types.push(ValueType::Array(Box::new(t.clone()))); }
    types.push(ValueType::Array(Box::new(ValueType::Array(Box::new(ValueType::Int)))));
    for ty in &types {
        let tn = sql_type(ty);
        let mut r2 = rng.clone();
        let defs = vec![
            format!("CREATE TABLE t ({{ .a }} => c {});", tn),
            format!("CREATE TABLE t ({{ .k[1].a }} => c {} DEFAULT {}, {{ .z }} => z INT);", tn, default_literal(&mut r2, ty)),
            format!("CREATE TABLE t ({{ [0] }} => c {} NOT NULL, {{ [1] }} => z INT);", tn),
        ];
        for (di, def) in defs.iter().enumerate() {
            with_def(run, def, &mut |run, td| {
                for leaf in &leaves {
                    let line = match di { 0 => format!("{{\"a\": {}}}", leaf), 1 => format!("{{\"k\": [0, {{\"a\": {}, \"b\": 2}}], \"z\": 3}}", leaf), _ => format!("[{}, 7]", leaf) };
                    run_case(run, td, def, &line, &format!("jleaf-{}", type_name(ty)));
                }
            });
        }
    }
    for ty in SCALAR_TYPES {
        let def = format!("CREATE TABLE t ({{ .a }} => c {} CONVERT, {{ .b }} => d {}[] CONVERT);", sql_type(ty), sql_type(ty));
        with_def(run, &def, &mut |run, td| {
            let mut texts: Vec<&str> = pool(elem_slot(ty)).to_vec();
            texts.extend_from_slice(PAD_TEXTS);
            for text in texts {
                let mut line = String::from("{\"a\": ");
                line.push_str(&json_str(text, rng));
                line.push_str(", \"b\": \"1\"}");
                run_case(run, td, &def, &line, &format!("jconv-{}", type_name(ty)));
            }
        });
    }
}

/// hand-written definitions from the README / documentation shapes, with boundary lines
pub fn fixed_cases(run: &mut Run) {
    let cases: &[(&str, &[&str])] = &[
        // D52 regression corpus: a month part that did not take part must not become January
        ("CREATE TABLE t (line = '(\\\\d+)/(\\\\w+)?/(\\\\d+)', line[3], line[2], line[1] => ts TIMESTAMP);", &["05//2020", "05/Feb/2020"]),
        ("CREATE TABLE t (q2 = '^(\\\\S+)(?: (\\\\S+))?(?: (\\\\S+))?$', q2[1], q2[2] => c1 TIMESTAMP MICROSECONDS, q2[1], q2[2] => c2 TIMESTAMP DEFAULT NULL);", &["2008", "2008 3", "2008 13"]),
        ("CREATE TABLE t (a = '^(\\\\S+) (\\\\S+)$', b = '^(\\\\d+)$', a[1], b[1] => c0 TIMESTAMP, a[2] => c1 INT);", &["2020 5", "2020"]),
        ("CREATE TABLE t (e = '^(.*)$', e[1], e[2] => c4 TIMESTAMP NOT NULL, e[1] => c1 INT);", &["2017", ""]),
        ("CREATE TABLE t (line = '(\\\\d+)-(\\\\d+)-(\\\\d+)', line[1], line[2], line[3] => ts TIMESTAMP);",
         &["2020-01-05", "2020-4294967297-05", "2020-13-05", "2020-02-30", "2020-02-29", "2021-02-29", "2147483648-01-01", "262142-12-31", "262143-01-01", "0-1-1", "x", ""]),
        ("CREATE TABLE t (line = '(\\\\d+)-(\\\\d+)-(\\\\d+) (\\\\d+):(\\\\d+):(\\\\d+)\\\\.(\\\\d+)', line[1], line[2], line[3], line[4], line[5], line[6], line[7] => ts TIMESTAMP);",
         &["2020-01-05 10:11:12.999", "2020-01-05 10:11:12.9999999", "2020-01-05 10:11:12.4294967", "2020-01-05 10:11:12.4294968", "2020-01-05 23:59:59.1999", "2020-01-05 23:59:58.1000", "2020-01-05 24:00:00.0", "2020-01-05 10:60:00.0", "2020-01-05 10:11:60.0"]),
        ("CREATE TABLE t (line = '(\\\\d+)-(\\\\d+)-(\\\\d+) (\\\\d+):(\\\\d+):(\\\\d+)\\\\.(\\\\d+)', line[1], line[2], line[3], line[4], line[5], line[6], line[7] => ts TIMESTAMP MICROSECONDS);",
         &["2020-01-05 10:11:12.999999", "2020-01-05 10:11:12.1000000", "2020-01-05 10:11:59.1000000", "2020-01-05 10:11:59.1999999", "2020-01-05 10:11:59.2000000", "2020-01-05 10:11:12.4294967295", "2020-01-05 10:11:12.4294967296"]),
        ("CREATE TABLE t (line = '(\\\\d+)/(\\\\w+)?/(\\\\d+)', line[3], line[2], line[1] => ts TIMESTAMP);",
         &["05/Jan/2020", "05/sept/2020", "05/JUNE/2020", "05//2020", "05/xyz/2020", "31/4/2020", "31/04/2020"]),
        ("CREATE TABLE t (line = '^(-?\\\\d+);(.*)$', line[1] => n INT NOT NULL, line[2] => s TEXT TRIM);",
         &["9223372036854775807; a ", "-9223372036854775808;\u{a0}b\u{3000}", "9223372036854775808;c", "-9223372036854775809;d", "5;", ";x", "12"]),
        ("CREATE TABLE t (line = split ';', line[0] => whole TEXT, line[1] => a INT DEFAULT 7, line[2] => b REAL, line[3] => c BOOLEAN, line[4] => d BOOLEAN);",
         &["1;1.5;x", "1", "", ";;", "x;inf;true;false", "1;nan", "1;1e400", "+1;-0.0", "1;.5;;"]),
        ("CREATE TABLE t ({ .a } => a INT, { .b[1] } => b REAL, { .c.d } => s TEXT DEFAULT 'none', { .e } => e INT[] , { .f } => f TIMESTAMP CONVERT, { .g } => g INTERVAL CONVERT, { .h } => h BOOLEAN NOT NULL);",
         &["{\"a\": 1, \"b\": [0, 2], \"c\": {\"d\": \"x\"}, \"e\": [1, \"2\", 3.0, null], \"f\": \"2020-01-05 10:11:12\", \"g\": \"1:2:3\", \"h\": true}",
           "{\"a\": 18446744073709551616, \"b\": [0, 18446744073709551616], \"h\": false}", "{\"a\": 9223372036854775808, \"h\": false, \"a\": 3}", "{\"h\": null}", "{\"h\": \"true\"}", "not json", "{\"a\": 1e400, \"h\": true}",
           "{\"c\": null, \"h\": true}", "{\"c\": {\"d\": null}, \"h\": true}", "{\"c\": [\"x\"], \"h\": false, \"g\": \"2562047788016:0:0\", \"f\": \"2020-02-30 00:00:00\"}"]),
    ];
    for (def, lines) in cases {
        let td = match parse_def(def) {
            Ok(td) => td,
            Err(e) => { run.fail(format!("definition: {}", def), "create-table-rejected", e); continue; }
        };
        run.count("definitions");
        for l in *lines { run_case(run, &td, def, l, "fixed"); }
    }
}

/// observation N2 (DESIGN.md section 0): "valid JSON" is read as "accepted by the JSON parser the program uses, with its
/// documented limits" — serde_json's recursion limit (at most 127 nested containers, arrays AND objects count) and
/// `NumberOutOfRange`. Lines in which `.x` is the integer 1 and a sibling member nests 125 … 129 / 200 levels deep or
/// holds `1e400`: at total depth ≤ 127 the row is `1, …`; from depth 128 on (and with `1e400` anywhere) serde_json
/// rejects the whole line, every JSON column has its DEFAULT and a NOT NULL column drops the row. The Lean model
/// (`JsonDoc.docOfLine`: `maxDepth`) must say the same on every one of them.
pub fn limit_cases(run: &mut Run) {
    let defs = [
        "CREATE TABLE t ({ .x } => x INT, { .y[0] } => y INT[] DEFAULT NULL, { .z } => z TEXT DEFAULT 'dflt');",
        "CREATE TABLE t ({ .x } => x INT NOT NULL, { .y.a } => y BOOLEAN);",
    ];
    for def in defs {
        with_def(run, def, &mut |run, td| {
            for total in [125usize, 126, 127, 128, 129, 200] {
                let d = total - 1;                                   // the outer object is one level
                let arrays = format!("{}{}", "[".repeat(d), "]".repeat(d));
                let arrays1 = format!("{}1{}", "[".repeat(d), "]".repeat(d));
                let objects = format!("{}null{}", "{\"a\":".repeat(d), "}".repeat(d));
                let mixed = format!("{}0{}", "[{\"a\":".repeat(d / 2), "}]".repeat(d / 2));
                for y in [&arrays, &arrays1, &objects, &mixed] {
                    run_case(run, td, def, &format!("{{\"x\":1,\"y\":{},\"z\":\"s\"}}", y), &format!("depth-{}", total));
                    run_case(run, td, def, &format!("{{\"y\":{}, \"x\": 1}}", y), &format!("depth-{}", total));
                }
                // the document itself an array: depth without an outer object
                run_case(run, td, def, &format!("{}{}", "[".repeat(total), "]".repeat(total)), &format!("depth-{}", total));
            }
            for l in ["{\"x\":1,\"y\":1e400}", "{\"x\":1,\"y\":[-1e400],\"z\":\"s\"}", "{\"y\":{\"a\":2e308},\"x\":1}", "{\"x\":1,\"y\":1e308}", "{\"x\":1,\"y\":[1.7976931348623158e308]}", "{\"x\":1,\"y\":[1.7976931348623159e308]}"] {
                run_case(run, td, def, l, "number-range");
            }
        });
    }
}

pub fn run(property: &str, p: &Params, json: bool) -> Run {
    let mut run = Run::new(property);
    let mut rng = Rng::new(p.seed ^ if json { 0xC02C02 } else { 0xC01C01 });
    fixed_cases(&mut run);
    if json {
        json_sweep(&mut run, &mut rng);
        limit_cases(&mut run);
        // JSON columns, alone and mixed with regex columns
        random_cases(&mut run, &mut rng, p.n(140, 6000), p.n(6, 10), 10);
        random_cases(&mut run, &mut rng, p.n(260, 9000), p.n(6, 10), 5);
        // `serde_json::from_str::<Value>` as computed by the Lean model (Model/JsonDoc.lean) against the real one
        let before = run.cases.len();
        crate::jsontext::doc_stream(&mut run, &mut Rng::new(p.seed ^ 0xD0C), p.n(2000, 50_000));
        run.notes.push(format!("jsondoc cases (Lean docOfLine vs serde_json::from_str): {}", run.cases.len() - before));
    } else {
        ts_sweep(&mut run, &mut rng);
        literal_sweep(&mut run, &mut rng);
        sweep(&mut run, &mut rng, p.n(1, 12));
        random_cases(&mut run, &mut rng, p.n(350, 12000), p.n(6, 10), 0);
        random_cases(&mut run, &mut rng, p.n(40, 1500), p.n(5, 8), 2);
    }
    run.notes.push(format!("{} regex templates ({} split delimiters)", TEMPLATES.len(), TEMPLATES.iter().filter(|t| t.split).count()));
    run
}
