import SqlgrepModel.Lemmas.AggRefine
/-
Facts about the specification's own functions (what MIN/MAX, the sorted list of PERCENTILE and the key order mean),
and the per-group form of the per-aggregate refinement stated on the executed `cellStep`.
-/
set_option linter.unusedSimpArgs false
namespace Sqlgrep
open Value Spec.Agg

/-! ### the specification's functions characterised -/

theorem cmp_ne_gt_trans {a b c : Value} (h1 : Value.cmp a b ≠ .gt) (h2 : Value.cmp b c ≠ .gt) : Value.cmp a c ≠ .gt := by
  have hT := cmp_T a b c
  unfold T at hT
  cases hab : Value.cmp a b <;> cases hbc : Value.cmp b c <;> simp_all

theorem cmp_ne_lt_trans {a b c : Value} (h1 : Value.cmp a b ≠ .lt) (h2 : Value.cmp b c ≠ .lt) : Value.cmp a c ≠ .lt := by
  have h1' : Value.cmp b a ≠ .gt := by rw [cmp_swap a b]; cases h : Value.cmp a b <;> simp_all [Ordering.swap]
  have h2' : Value.cmp c b ≠ .gt := by rw [cmp_swap b c]; cases h : Value.cmp b c <;> simp_all [Ordering.swap]
  have := cmp_ne_gt_trans h2' h1'
  rw [cmp_swap a c] at this
  cases h : Value.cmp a c <;> simp_all [Ordering.swap]

/-- the running extreme is one of the values seen and is not beaten by any of them -/
theorem extremeFold_spec (wantLess : Bool) (xs : List Value) (x0 : Value) :
    let r := xs.foldl (fun cur v => if Value.cmp v cur == (if wantLess then Ordering.lt else Ordering.gt) then v else cur) x0
    r ∈ x0 :: xs ∧ ∀ y ∈ x0 :: xs, Value.cmp r y ≠ (if wantLess then Ordering.gt else Ordering.lt) := by
  induction xs generalizing x0 with
  | nil =>
    simp only [List.foldl_nil, List.mem_singleton, forall_eq, true_and]
    rw [cmp_refl]; cases wantLess <;> simp
  | cons v vs ih =>
    simp only [List.foldl_cons]
    by_cases hb : (Value.cmp v x0 == (if wantLess then Ordering.lt else Ordering.gt)) = true
    · simp only [hb, if_true]
      obtain ⟨hm, hle⟩ := ih v
      refine ⟨?_, ?_⟩
      · rcases List.mem_cons.mp hm with h | h
        · rw [h]; simp
        · exact List.mem_cons_of_mem _ (List.mem_cons_of_mem _ h)
      · intro y hy
        rcases List.mem_cons.mp hy with h | h
        · -- y = x0: r ≤ v < x0
          subst h
          have h1 := hle v (by simp)
          cases wantLess
          · simp only [Bool.false_eq_true, if_false, beq_iff_eq] at hb h1 ⊢
            exact cmp_ne_lt_trans h1 (by rw [hb]; simp)
          · simp only [if_true, beq_iff_eq] at hb h1 ⊢
            exact cmp_ne_gt_trans h1 (by rw [hb]; simp)
        · exact hle y h
    · simp only [hb, Bool.false_eq_true, if_false]
      obtain ⟨hm, hle⟩ := ih x0
      refine ⟨?_, ?_⟩
      · rcases List.mem_cons.mp hm with h | h
        · rw [h]; simp
        · exact List.mem_cons_of_mem _ (List.mem_cons_of_mem _ h)
      · intro y hy
        rcases List.mem_cons.mp hy with h | h
        · exact hle y (by simp [h])
        · rcases List.mem_cons.mp h with h | h
          · -- y = v, which did not beat x0
            subst h
            have h1 := hle x0 (by simp)
            have h2 : Value.cmp x0 y ≠ (if wantLess then Ordering.gt else Ordering.lt) := by
              rw [cmp_swap y x0]
              cases wantLess <;> cases hc : Value.cmp y x0 <;> simp_all [Ordering.swap]
            cases wantLess
            · simp only [Bool.false_eq_true, if_false] at h1 h2 ⊢
              exact cmp_ne_lt_trans h1 h2
            · simp only [if_true] at h1 h2 ⊢
              exact cmp_ne_gt_trans h1 h2
          · exact hle y (List.mem_cons_of_mem _ h)

/-- MIN of a non-empty list is one of its values and no value is smaller (by the value order) -/
theorem extreme_min_spec (xs : List Value) (h : xs ≠ []) :
    extreme true xs ∈ xs ∧ ∀ y ∈ xs, Value.cmp (extreme true xs) y ≠ .gt := by
  cases xs with
  | nil => exact absurd rfl h
  | cons x rest => exact extremeFold_spec true rest x

/-- MAX of a non-empty list is one of its values and no value is greater (by the value order) -/
theorem extreme_max_spec (xs : List Value) (h : xs ≠ []) :
    extreme false xs ∈ xs ∧ ∀ y ∈ xs, Value.cmp (extreme false xs) y ≠ .lt := by
  cases xs with
  | nil => exact absurd rfl h
  | cons x rest => exact extremeFold_spec false rest x

theorem insertSorted_perm (v : Value) (xs : List Value) : (insertSorted v xs).Perm (v :: xs) := by
  induction xs with
  | nil => exact List.Perm.refl _
  | cons x xs ih =>
    simp only [insertSorted]
    split
    · exact (List.Perm.cons x ih).trans (List.Perm.swap v x xs)
    · exact List.Perm.refl _

/-- the sorted list PERCENTILE indexes is a rearrangement of the values … -/
theorem sortValues_perm (xs : List Value) : (sortValues xs).Perm xs := by
  induction xs with
  | nil => exact List.Perm.refl _
  | cons x xs ih =>
    simp only [sortValues, List.foldr_cons] at ih ⊢
    exact (insertSorted_perm x _).trans (List.Perm.cons x ih)

theorem insertSorted_sorted (v : Value) (xs : List Value) (h : xs.Pairwise (fun a b => Value.cmp a b ≠ .gt)) :
    (insertSorted v xs).Pairwise (fun a b => Value.cmp a b ≠ .gt) := by
  induction xs with
  | nil => simp [insertSorted]
  | cons x xs ih =>
    rw [List.pairwise_cons] at h
    simp only [insertSorted]
    split
    · rename_i hgt
      refine List.Pairwise.cons ?_ (ih h.2)
      intro y hy
      rcases List.mem_cons.mp ((insertSorted_perm v xs).subset hy) with hy | hy
      · subst hy
        simp only [beq_iff_eq] at hgt
        rw [cmp_swap y x, hgt]; simp [Ordering.swap]
      · exact h.1 y hy
    · rename_i hngt
      simp only [beq_iff_eq] at hngt
      refine List.Pairwise.cons ?_ (List.Pairwise.cons h.1 h.2)
      intro y hy
      rcases List.mem_cons.mp hy with hy | hy
      · subst hy; exact hngt
      · exact cmp_ne_gt_trans hngt (h.1 y hy)

/-- … in ascending value order -/
theorem sortValues_sorted (xs : List Value) : (sortValues xs).Pairwise (fun a b => Value.cmp a b ≠ .gt) := by
  induction xs with
  | nil => simp [sortValues]
  | cons x xs ih =>
    simp only [sortValues, List.foldr_cons] at ih ⊢
    exact insertSorted_sorted x _ ih

/-- NULL is below every other value, so the NULL key comes first -/
theorem null_lowest (v : Value) (h : v.isNull = false) : Value.cmp .null v = .lt := by
  cases v <;> simp [isNull] at h <;> rfl

/-! ### per-aggregate refinement on the executed step -/

theorem cellFold_of_args {O : Oracles} {q : AggStmt} {kind : AggKind} (g : List Env) {vs : List Value} (c : Cell)
    (h : arguments O q kind g = some vs) : cellFold O q kind g c = foldV kind vs c := by
  induction g generalizing vs c with
  | nil => simp [arguments, collect] at h; subst h; rfl
  | cons env rest ih =>
    simp only [arguments, List.map_cons] at h
    cases ha : okOf (argument O q env kind) with
    | none => simp [ha, collect] at h
    | some a =>
      rw [ha] at h
      obtain ⟨vs', hvs', hvs⟩ := collect_eq_some_cons h
      subst hvs
      have harg := okOf_eq_some ha
      simp only [cellFold, foldV, cellStep_eq, harg, Outcome.bind]
      cases stepV kind a c with
      | ok c1 => exact ih c1 hvs'
      | error k => rfl
      | panic k => rfl
      | oracleMissing k => rfl

/-- **every aggregate, from its group's rows alone**: folding the engine's `update_aggregate` step of one aggregate
over the rows `g` of a group (in arrival order, starting from no entry) succeeds and shows the specification's value
of that aggregate over `g`, whenever the specification fixes it (and no ARRAY_AGG starts with NULL) -/
theorem group_aggregate_refines {O : Oracles} {q : AggStmt} {kind : AggKind} {g : List Env} {r : Value} (hg : g ≠ [])
    (hv : groupValue O q kind g = some r)
    (hd15 : ∀ vs, arguments O q kind g = some vs → firstNull kind vs = false) :
    ∃ c, cellFold O q kind g {} = .ok c ∧ shownValue kind c = r := by
  unfold groupValue at hv
  cases hargs : arguments O q kind g with
  | none => simp [hargs] at hv
  | some vs =>
    simp only [hargs, Option.bind_some] at hv
    have hne : vs ≠ [] := by
      intro he
      have := arguments_length hargs
      rw [he] at this
      cases g with
      | nil => exact hg rfl
      | cons _ _ => simp at this
    obtain ⟨c, hc, hshow, _⟩ := aggregate_refines kind vs r hne hv (hd15 vs hargs)
    exact ⟨c, by rw [cellFold_of_args g {} hargs]; exact hc, hshow⟩

end Sqlgrep
