import SqlgrepModel.Model.Exec
import SqlgrepModel.Spec.Join
/-
Executable SPECIFICATION of aggregate queries (property C04), written from the property sentence:

  group the rows that pass WHERE by key; one output row per distinct key, keys ascending by the value order
  with NULL first; per group the sub-list of its rows in arrival order; every cell a function of that
  sub-list alone (`aggregate`); HAVING per group; DISTINCT per table; LIMIT = the first n rows.

Nothing here keeps running state: every cell is computed from the complete list of its group's rows.
`batch` returns the spec's answer for a whole batch run, or `none` where the property sentence does not fix
the outcome:
  * any evaluation error (WHERE, key, argument, transform, HAVING) — including a WHERE / HAVING value that is neither
    BOOLEAN nor NULL, which has no truth value (the run reports an error, C03) —, an integer overflow of a partial sum,
    a non-numeric SUM/AVG/STDDEV argument, a non-BOOLEAN BOOL_AND argument, a non-TEXT STRING_AGG argument;
  * arguments of more than one type in one group (cannot arise for a typed column; for MIN/MAX/PERCENTILE the
    "value order of the argument's type" is then undefined — the derived cross-type order is finding D45);
  * group keys that are arrays, or REAL keys that are equal to a differently printed one (`-0.0`, non-canonical NaN):
    which of two equal keys a group's row shows depends on the engine's history (finding D60), so it is not fixed;
  * a REAL sum whose first addend `y` has `0.0 + y ≠ y` (only `-0.0`: the sign of a zero sum is not fixed);
  * PERCENTILE with p outside [0, 1]; unreadable lines (C12); joins that cannot be set up (C05).
Where the sentence is silent but an answer is needed the code is mirrored, and said so at the definition:
AVG of INTs truncates, the first of several equal extremes is shown by MIN/MAX, the element type of ARRAY_AGG is the
type of its first element. STRING_AGG is the plain join of ALL non-NULL texts, empty ones included (the code used to
swallow the delimiter after a leading empty text: finding D67, repaired).
-/
namespace Sqlgrep.Spec.Agg
open Sqlgrep

def okOf {α : Type} : Outcome α → Option α
  | .ok a => some a
  | _ => none

/-- all answers, or `none` if one is missing -/
def collect {α : Type} : List (Option α) → Option (List α)
  | [] => some []
  | none :: _ => none
  | some a :: rest => (collect rest).map (a :: ·)

/-! ### rows and groups -/

/-- WHERE on one row (`none`: evaluation fails, or the value is neither BOOLEAN nor NULL); NULL does not pass -/
def passes (O : Oracles) (q : AggStmt) (env : Env) : Option Bool :=
  match q.filter with
  | none => some true
  | some f => (okOf (eval O env f)).bind (fun v => okOf (condHolds v))

/-- GROUP BY key of one row; a statement without GROUP BY has the single key `[NULL]` -/
def keyOf (O : Oracles) (q : AggStmt) (env : Env) : Option (List Value) :=
  match q.groupBy with
  | none => some [.null]
  | some parts => okOf (evalList O env (parts.map (·.1)))

/-- the rows that pass WHERE, each with its key, in arrival order -/
def keyedRows (O : Oracles) (q : AggStmt) : List Env → Option (List (List Value × Env))
  | [] => some []
  | env :: rest =>
    match passes O q env with
    | none => none
    | some false => keyedRows O q rest
    | some true =>
      match keyOf O q env, keyedRows O q rest with
      | some k, some more => some ((k, env) :: more)
      | _, _ => none

def sameKey (a b : List Value) : Bool := Value.cmpList a b == .eq

/-- insertion into an ascending duplicate-free key list (an equal key is already represented) -/
def insertKey (k : List Value) : List (List Value) → List (List Value)
  | [] => [k]
  | x :: xs =>
    match Value.cmpList k x with
    | .lt => k :: x :: xs
    | .eq => x :: xs
    | .gt => x :: insertKey k xs

/-- the distinct keys in ascending order of the value order (NULL first: `Value.null` has the lowest rank) -/
def distinctKeys (ks : List (List Value)) : List (List Value) := ks.foldl (fun acc k => insertKey k acc) []

/-- the rows of group `k`, in arrival order -/
def rowsOfKey (k : List Value) (rows : List (List Value × Env)) : List Env :=
  (rows.filter (fun r => sameKey r.1 k)).map (·.2)

def groups (rows : List (List Value × Env)) : List (List Value × List Env) :=
  (distinctKeys (rows.map (·.1))).map (fun k => (k, rowsOfKey k rows))

/-- key values for which "equal in the value order" is "identical": every value but arrays and the REAL patterns
that are equal to another pattern (`-0.0` = `0.0`; NaNs other than the canonical one; patterns beyond 64 bits) -/
def simpleValue : Value → Bool
  | .real b => decide (b < 2^64) && b != 2^63 && (!F64.isNaN b || b == F64.canonNaN)
  | .array _ _ => false
  | _ => true

/-! ### the argument of an aggregate on one row -/

/-- value of the aggregate's argument on a row (`COUNT(*)` and key columns have none: NULL stands in) -/
def argument (O : Oracles) (q : AggStmt) (env : Env) : AggKind → Outcome Value
  | .groupKey _ canon => do
    validateGroupKey q canon
    pure .null
  | .count none distinct => if distinct then .error .distinctRequiresColumn else .ok .null
  | .count (some c) _ => Outcome.ofOption .columnNotFound (env.get .table c)
  | .min e | .max e | .sum e | .avg e | .stddev e _ | .percentile e _ | .boolAnd e | .boolOr e
  | .arrayAgg e | .stringAgg e _ => eval O env e

def arguments (O : Oracles) (q : AggStmt) (k : AggKind) (g : List Env) : Option (List Value) :=
  collect (g.map (fun env => okOf (argument O q env k)))

/-! ### aggregates as functions of the list of argument values (arrival order, NULLs included) -/

def nonNull (vs : List Value) : List Value := vs.filter (fun v => !v.isNull)

def asInt : Value → Option Int
  | .int i => some i
  | _ => none
def asReal : Value → Option Nat
  | .real b => some b
  | _ => none
def asInterval : Value → Option Int
  | .interval n => some n
  | _ => none
def asBool : Value → Option Bool
  | .bool b => some b
  | _ => none
def asText : Value → Option Bytes
  | .text s => some s
  | _ => none

def ints (vs : List Value) : Option (List Int) := collect (vs.map asInt)
def reals (vs : List Value) : Option (List Nat) := collect (vs.map asReal)
def intervals (vs : List Value) : Option (List Int) := collect (vs.map asInterval)
def bools (vs : List Value) : Option (List Bool) := collect (vs.map asBool)
def texts (vs : List Value) : Option (List Bytes) := collect (vs.map asText)

def intSum (xs : List Int) : Int := xs.foldl (· + ·) 0
/-- every partial sum `acc + x₁ + … + xᵢ` (i ≥ 1) satisfies `ok` -/
def partialSumsOk (ok : Int → Bool) : Int → List Int → Bool
  | _, [] => true
  | acc, x :: xs => ok (acc + x) && partialSumsOk ok (acc + x) xs

def realSum (xs : List Nat) : Nat := xs.foldl F64.add F64.zero
/-- `0.0 + y = y` for the first addend (false only for `-0.0`): the running sum may start at `0.0` or at `y` -/
def zeroNeutral : List Nat → Bool
  | [] => true
  | y :: _ => F64.add F64.zero y == y

def sameType : List Value → Bool
  | [] => true
  | v :: rest => rest.all (fun w => w.valueType == v.valueType)

/-- distinct values by value equality: the first occurrence of each -/
def firstOccs : List Value → List Value
  | [] => []
  | v :: vs => v :: (firstOccs vs).filter (fun x => !Value.beq v x)

/-- the extreme of a non-empty list by the value order; of several equal extremes the first (as in the code) -/
def extreme (wantLess : Bool) : List Value → Value
  | [] => .null
  | x :: rest => rest.foldl (fun cur v =>
      if Value.cmp v cur == (if wantLess then Ordering.lt else Ordering.gt) then v else cur) x

def f64One : Nat := 0x3ff0000000000000
def unitInterval (p : Nat) : Bool := !F64.isNaN p && F64.cmp F64.zero p != .gt && F64.cmp p f64One != .gt

/-- SUM over the non-NULL values -/
def sumOf (xs : List Value) : Option Value :=
  match xs with
  | [] => some .null
  | _ =>
    match ints xs, reals xs, intervals xs with
    | some is, _, _ => if partialSumsOk inI64 0 is then some (.int (intSum is)) else none
    | _, some rs, _ => if zeroNeutral rs then some (.real (realSum rs)) else none
    | _, _, some ns => if partialSumsOk inIv 0 ns then some (.interval (intSum ns)) else none
    | _, _, _ => none

/-- AVG over the non-NULL values; the INT (and INTERVAL) average truncates towards zero, as in the code -/
def avgOf (xs : List Value) : Option Value :=
  match xs with
  | [] => some .null
  | _ =>
    match ints xs, reals xs, intervals xs with
    | some is, _, _ => if partialSumsOk inI64 0 is then some (.int (Int.tdiv (intSum is) is.length)) else none
    | _, some rs, _ => if zeroNeutral rs then some (.real (F64.div (realSum rs) (F64.ofInt rs.length))) else none
    | _, _, some ns => if partialSumsOk inIv 0 ns then some (.interval (Int.tdiv (intSum ns) ns.length)) else none
    | _, _, _ => none

/-- **POPULATION variance** (divisor `n`, not `n − 1`) — the property sentence and the README (`stddev(x)`, `variance(x)`) say
neither "population" nor "sample": population is THE CODE'S CHOICE, recorded here as the specification's own definition.
The INDEPENDENT definition is `Spec/Variance.lean` (`popVariance`: the textbook `(1/n)·Σ(x − μ)²` over exact rationals);
`Props/C04Variance.lean` relates the two.

For INT arguments (finding D72, repaired): with the exact integers `S = Σx`, `Q = Σx²` the exact variance is the rational
`(n·Q − S²) / n²`; shown is the REAL quotient of the REAL nearest to the numerator by the REAL nearest to the denominator
— two correctly rounded conversions and one correctly rounded division, no subtraction of rounded terms: never negative,
`0.0` for equal values (`Props/C04Variance.lean` `int_variance_is_rounded_exact_quotient`). -/
def intVariance (n S Q : Int) : Nat := F64.div (F64.ofInt (n * Q - S * S)) (F64.ofInt (n * n))

/-- the one-pass formula "mean of the squares minus the square of the mean": `(Σx² − (Σx)²/n) / n`, evaluated in REAL
arithmetic in exactly this order, from the REAL running sums `s` of Σx and `q` of Σx² (for REAL arguments the sums are REAL
to begin with, and the evaluation order is the code's choice) -/
def populationVariance (n : Int) (s q : Nat) : Nat :=
  F64.div (F64.sub q (F64.div (F64.mul s s) (F64.ofInt n))) (F64.ofInt n)

/-- a variance is not negative: where the subtraction of the one-pass formula cancels down to a rounding error below zero,
`0.0` is shown (finding D72, repaired). NaN stays NaN, `-0.0` stays `-0.0` (IEEE `<`). -/
def clampNegative (v : Nat) : Nat := if F64.cmp v F64.zero == .lt then F64.zero else v

/-- VARIANCE for REAL arguments -/
def realVariance (n : Int) (s q : Nat) : Nat := clampNegative (populationVariance n s q)

/-- VARIANCE, or STDDEV = its square root -/
def finishSpread (isVariance : Bool) (v : Nat) : Nat := if isVariance then v else F64.sqrt v

def spreadInt (n : Int) (isVariance : Bool) (S Q : Int) : Nat := finishSpread isVariance (intVariance n S Q)
def spread (n : Int) (isVariance : Bool) (s q : Nat) : Nat := finishSpread isVariance (realVariance n s q)

/-- STDDEV / VARIANCE (population) from Σx, Σx² and n -/
def stddevOf (isVariance : Bool) (xs : List Value) : Option Value :=
  match xs with
  | [] => some .null
  | _ =>
    match ints xs, reals xs with
    | some is, _ =>
      let sq := is.map (fun x => x * x)
      if sq.all inI64 && partialSumsOk inI64 0 is && partialSumsOk inI64 0 sq then
        some (.real (spreadInt is.length isVariance (intSum is) (intSum sq)))
      else none
    | _, some rs =>
      let sq := rs.map (fun x => F64.mul x x)
      if zeroNeutral rs && zeroNeutral sq then some (.real (spread rs.length isVariance (realSum rs) (realSum sq)))
      else none
    | _, _ => none

/-- PERCENTILE(p): the element at index `min(⌊p·n⌋, n−1)` of the ascending non-NULL values -/
def percentileOf (p : Nat) (xs : List Value) : Option Value :=
  if !unitInterval p || !sameType xs then none
  else
    let sorted := sortValues xs
    let n := sorted.length
    some ((sorted[min (f64ToNat (F64.mul p (F64.ofInt n))) (n - 1)]?).getD .null)

/-- STRING_AGG: the texts joined by the delimiter (every text, empty or not, is an element) -/
def joinTexts (delim : Bytes) : List Bytes → Bytes
  | [] => []
  | [s] => s
  | s :: rest => s ++ delim ++ joinTexts delim rest

/-- the value of an aggregate over the argument values `vs` of its group's rows; `none` = not fixed -/
def aggregate (k : AggKind) (vs : List Value) : Option Value :=
  match k with
  | .groupKey _ _ => none
  | .count none distinct => if distinct then none else some (.int vs.length)
  | .count (some _) false => some (.int (nonNull vs).length)
  | .count (some _) true => some (.int (firstOccs (nonNull vs)).length)
  | .sum _ => sumOf (nonNull vs)
  | .avg _ => avgOf (nonNull vs)
  | .stddev _ isVariance => stddevOf isVariance (nonNull vs)
  | .min _ => if sameType (nonNull vs) then some (extreme true (nonNull vs)) else none
  | .max _ => if sameType (nonNull vs) then some (extreme false (nonNull vs)) else none
  | .percentile _ p => percentileOf p (nonNull vs)
  | .boolAnd _ => (bools (nonNull vs)).map (fun bs => if bs.isEmpty then .null else .bool (bs.all id))
  | .boolOr _ => (bools (nonNull vs)).map (fun bs => if bs.isEmpty then .null else .bool (bs.any id))
  | .arrayAgg _ =>
    -- all values in arrival order; the element type is that of the first non-NULL value
    if !sameType (nonNull vs) then none
    else match (nonNull vs).head?.bind Value.valueType with
      | some t => some (.array t vs)
      | none => some (.array .int vs)
  | .stringAgg _ delim =>
    (texts (nonNull vs)).map (fun ss => if ss.isEmpty then .null else .text (joinTexts delim ss))

/-! ### the result table -/

/-- `$name → value` bindings of the GROUP BY parts for HAVING (name resolution as in the engine: a part is named
by its canonical text) -/
def keyBindings (q : AggStmt) (key : List Value) : List (String × Value) :=
  ((keyMapping q).filterMap (fun (c, i) => (key[i]?).map (fun v => (c, v)))).reverse

/-- one aggregate of one group, from that group's rows alone -/
def groupValue (O : Oracles) (q : AggStmt) (k : AggKind) (g : List Env) : Option Value :=
  (arguments O q k g).bind (aggregate k)

/-- one cell of the row of group (`key`, `g`) -/
def cell (O : Oracles) (q : AggStmt) (key : List Value) (g : List Env) (item : AggItem) : Option Value :=
  match item.kind with
  | .groupKey _ canon => (mappingGet (keyMapping q) canon).bind (key[·]?)
  | k => (groupValue O q k g).bind (fun v => okOf (applyTransform O item.transform v))

def row (O : Oracles) (q : AggStmt) (key : List Value) (g : List Env) : Option (List Value) :=
  collect (q.items.map (cell O q key g))

/-- HAVING on one group: its own key and its own aggregates -/
def accept (O : Oracles) (q : AggStmt) (key : List Value) (g : List Env) : Option Bool :=
  match q.having with
  | none => some true
  | some h =>
    match collect (q.havingAggs.map (fun (id, k) => (groupValue O q k g).map (fun v => (id, v)))) with
    | none => none
    | some gvals => (okOf (eval O { groupKeys := keyBindings q key, groupValues := gvals } h)).bind (fun v => okOf (condHolds v))

/-- DISTINCT: the first occurrence of every row -/
def firstRows : List (List Value) → List (List Value)
  | [] => []
  | r :: rs => r :: (firstRows rs).filter (fun x => !Value.beqList r x)

/-- rows of the table over explicitly given groups -/
def tableOfGroups (O : Oracles) (q : AggStmt) (gs : List (List Value × List Env)) : Option (List (List Value)) :=
  match collect (gs.map (fun (k, g) => (row O q k g).bind (fun r => (accept O q k g).map (fun a => (r, a))))) with
  | none => none
  | some all =>
    let kept := (all.filter (·.2)).map (·.1)
    let kept := if q.distinct then firstRows kept else kept
    some (match q.limit with
      | some n => kept.take n
      | none => kept)

/-- every key reference of the select list and of HAVING names a GROUP BY part (otherwise the engine rejects the
statement with "not used in group by clause" as soon as a row arrives; HAVING can only refer to plain key columns) -/
def keyRefsValid (q : AggStmt) : Bool :=
  let valid (canon : String) : Bool := match q.groupBy with
    | some parts => parts.any (·.2 == canon)
    | none => false
  q.items.all (fun it => match it.kind with
    | .groupKey _ canon => valid canon
    | _ => true) &&
  q.havingVisit.all (fun r => match r with
    | .key canon => valid canon
    | _ => true)

/-- the result table for the rows (environments) presented to the statement, in arrival order -/
def table (O : Oracles) (q : AggStmt) (envs : List Env) : Option (List (List Value)) :=
  match keyedRows O q envs with
  | none => none
  | some rows =>
    if !keyRefsValid q || !(rows.all (fun r => r.1.all simpleValue)) then none
    else tableOfGroups O q (groups rows)

/-! ### known deviation classes of the implementation (known_findings.json) -/

/-- does the engine create a `group_values` entry for this aggregate in a group with argument values `vs`?
(COUNT(c), COUNT(DISTINCT c), PERCENTILE, BOOL_AND/OR and STRING_AGG do so only for a non-NULL argument) -/
def createsEntry (k : AggKind) (vs : List Value) : Bool :=
  match k with
  | .groupKey _ _ => false
  | .count none _ => !vs.isEmpty
  | .count (some _) _ | .percentile _ _ | .boolAnd _ | .boolOr _ | .stringAgg _ _ => !(nonNull vs).isEmpty
  | _ => !vs.isEmpty

def slotKinds (q : AggStmt) : List AggKind := q.items.map (·.kind) ++ q.havingAggs.map (·.2)

/-- D10: the result table is enumerated from `group_values`, so a group in which no aggregate created an entry
is not shown at all -/
def groupVisible (O : Oracles) (q : AggStmt) (g : List Env) : Bool :=
  (slotKinds q).any (fun k => match arguments O q k g with
    | some vs => createsEntry k vs
    | none => false)

/-- D15: ARRAY_AGG whose first value in a group is NULL is refused ("cannot create array of null type") -/
def firstNull (k : AggKind) (vs : List Value) : Bool :=
  match k, vs with
  | .arrayAgg _, v :: _ => v.isNull
  | _, _ => false

def arrayAggFirstNull (O : Oracles) (q : AggStmt) (g : List Env) : Bool :=
  (slotKinds q).any (fun k => match arguments O q k g with
    | some vs => firstNull k vs
    | none => false)

def deviationClass (O : Oracles) (q : AggStmt) (envs : List Env) : String :=
  match keyedRows O q envs with
  | none => ""
  | some rows =>
    let gs := groups rows
    if gs.any (fun (_, g) => arrayAggFirstNull O q g) then "D15:array_agg-first-value-null"
    else if gs.any (fun (_, g) => !groupVisible O q g) then "D10:group-without-value-entry"
    else ""

/-! ### a batch run -/

/-- the environments the admitted lines of a run without join present to the statement -/
def envsOf (t : TableInfo) (lines : List FileLine) : List Env :=
  (lines.filter (fun fl => anyResult fl.line.row)).map
    (fun fl => envOfInsertions (columnsMapping t fl.line.row fl.line.text))

/-- the rows an aggregate statement over a JOIN sees: the nested loop of `Spec.Join` (C05) — for every admitted input
row, in input order, one row per admitted row of the joined file with an equal non-NULL key, in file order; an
aggregate never sees the NULL-padded row of an OUTER JOIN -/
def joinEnvs (qy : Query) (j : JoinInfo) (joined lines : List FileLine) : List Env :=
  (Spec.Join.specJoin qy j (joined.map (·.line)) false (lines.map (·.line))).map (·.1)

/-- the answer for given rows: the table printed once, the line count, and the deviation class -/
def batchOver (O : Oracles) (q : AggStmt) (envs : List Env) (total : Nat) : Option (RunOut × String) :=
  match table O q envs with
  | none => none
  | some rows =>
    some ({ printed := printResult { columns := q.items.map (·.name), rows := rows } true, totalLines := total },
      deviationClass O q envs)

/-- spec answer for a batch run of an aggregate statement, with the name of a known deviation class of the
implementation if the case falls into one (`""` otherwise). With a JOIN the statement is evaluated over the nested loop's
rows (`joinEnvs`); a join that cannot be set up (missing join column, unreadable joined file) is C05's to decide. -/
def batch (O : Oracles) (qy : Query) (q : AggStmt) (joined : List FileLine) (files : List (List FileLine)) :
    Option (RunOut × String) :=
  let lines := files.flatten
  if lines.any (fun fl => !fl.readable) then none
  else
    match qy.join with
    | none => batchOver O q (envsOf qy.table lines) lines.length
    | some j =>
      if joined.any (fun fl => !fl.readable) || (indexOf? qy.table.columns j.joinerColumn).isNone ||
          (indexOf? j.joined.columns j.joinedColumn).isNone then none
      else batchOver O q (joinEnvs qy j joined lines) lines.length

/-! ### the answer an open finding PREDICTS

A deviation of the implementation from `batch` is attributed to an open finding only when the implementation's answer is
EXACTLY the deviating answer the finding describes — computed here from the specification's own notions, not from the
engine model. Anything else on the same input is an unknown failure. -/

/-- the rows the lines present to the statement (as `batch` takes them) -/
def rowsOfLines (qy : Query) (joined lines : List FileLine) : List Env :=
  match qy.join with
  | none => envsOf qy.table lines
  | some j => joinEnvs qy j joined lines

/-- some group's ARRAY_AGG starts with NULL -/
def hasArrayAggFirstNull (O : Oracles) (q : AggStmt) (envs : List Env) : Bool :=
  match keyedRows O q envs with
  | none => false
  | some rows => (groups rows).any (fun (_, g) => arrayAggFirstNull O q g)

/-- D15: the number of lines consumed when the run is refused — the shortest prefix of the input after which some
group's ARRAY_AGG starts with NULL (the refusal happens while that line is fed) -/
def d15Lines (O : Oracles) (qy : Query) (q : AggStmt) (joined lines : List FileLine) : Nat :=
  ((List.range (lines.length + 1)).find? (fun n => hasArrayAggFirstNull O q (rowsOfLines qy joined (lines.take n)))).getD
    lines.length

/-- **the predicted deviating answer** of a batch run that falls into an open finding (`none`: no finding applies, or the
specification does not answer):
* D15 (takes precedence: the refusal aborts the run): the run ends with the error `CannotCreateArrayOfNullType` after
  `d15Lines` lines, having printed nothing;
* D10: the specification's table computed over the groups in which some aggregate of the statement creates an entry —
  exactly the invisible groups are missing; HAVING, DISTINCT and LIMIT apply to what is left; same columns, same order,
  every line counted, no error. -/
def predicted (O : Oracles) (qy : Query) (q : AggStmt) (joined : List FileLine) (files : List (List FileLine)) :
    Option RunOut :=
  match batch O qy q joined files with
  | none => none
  | some _ =>
    let lines := files.flatten
    match keyedRows O q (rowsOfLines qy joined lines) with
    | none => none
    | some rows =>
      let gs := groups rows
      if gs.any (fun (_, g) => arrayAggFirstNull O q g) then
        some { error := some .cannotCreateArrayOfNullType, totalLines := d15Lines O qy q joined lines }
      else if gs.any (fun (_, g) => !groupVisible O q g) then
        (tableOfGroups O q (gs.filter (fun (_, g) => groupVisible O q g))).map (fun rows =>
          { printed := printResult { columns := q.items.map (·.name), rows := rows } true, totalLines := lines.length })
      else none

end Sqlgrep.Spec.Agg
