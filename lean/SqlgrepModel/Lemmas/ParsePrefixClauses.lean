import SqlgrepModel.Lemmas.ParsePrefix
import SqlgrepModel.Lemmas.ParseWithinStmt
import SqlgrepModel.Lemmas.ClimbMono
/-
From prefix determinism of the expression parser (`Lemmas/ParsePrefix.lean`) to the clause loop of `parse_select`:
a WHERE / HAVING / GROUP BY segment whose expression tokens are read in front of one boundary token is a clause
(`IsClause`: consumed exactly, whatever clause, `;` or `End` follows, at any token locations); hence the order of
the clauses and a trailing `;` do not change the slots the loop fills (up to locations).
-/
namespace Sqlgrep
namespace Parse

/-! ### states as token lists -/

def PSt.toks (s : PSt) : List PTok := s.cur :: s.rest

theorem pst_ext {s s' : PSt} (h : PSt.toks s = PSt.toks s') : s = s' := by
  cases s; cases s'; simp only [PSt.toks, List.cons.injEq] at h; obtain ⟨rfl, rfl⟩ := h; rfl

theorem prepend_toks (seg : List PTok) (tail : PSt) : PSt.toks (PSt.prepend seg tail) = seg ++ PSt.toks tail := by
  cases seg <;> rfl

theorem next_prepend (t : PTok) (ts : List PTok) (tail : PSt) :
    next (PSt.prepend (t :: ts) tail) = .ok () (PSt.prepend ts tail) := by
  cases ts <;> rfl

theorem prepend_cur_cons (t : PTok) (ts : List PTok) (tail : PSt) : (PSt.prepend (t :: ts) tail).cur = t := rfl

theorem swapToks_append (t2 : PSt) (body : List PTok) (hnb : ∀ t ∈ body, ¬ Boundary t.tok) (rest : List PTok) :
    swapToks t2 (body ++ rest) = body ++ swapToks t2 rest := by
  induction body with
  | nil => rfl
  | cons b bs ih =>
    simp only [List.cons_append, swapToks, hnb b (by simp), if_false]
    rw [ih (fun t ht => hnb t (by simp [ht]))]

theorem swapB_toks (t2 s : PSt) : PSt.toks (swapB t2 s) = swapToks t2 (PSt.toks s) := by
  unfold swapB PSt.toks
  by_cases h : Boundary s.cur.tok
  · simp [h, swapToks]
  · simp [h, swapToks]

/-- in front of a boundary-free body, swapping the tail swaps exactly the tail -/
theorem swapB_prepend (t2 : PSt) (body : List PTok) (hnb : ∀ t ∈ body, ¬ Boundary t.tok) (tail0 : PSt)
    (hb : Boundary tail0.cur.tok) :
    swapB t2 (PSt.prepend body tail0) = PSt.prepend body ⟨⟨tail0.cur.loc, t2.cur.tok⟩, t2.rest⟩ := by
  apply pst_ext
  rw [swapB_toks, prepend_toks, prepend_toks, swapToks_append t2 body hnb]
  simp [PSt.toks, swapToks, hb]

theorem strip_toks (s : PSt) : PSt.toks s.strip = (PSt.toks s).map PTok.strip := rfl

theorem strip_eq_of_toks {s s' : PSt} (h : (PSt.toks s).map (·.tok) = (PSt.toks s').map (·.tok)) : s.strip = s'.strip := by
  apply pst_ext
  rw [strip_toks, strip_toks]
  have : ∀ l : List PTok, l.map PTok.strip = (l.map (·.tok)).map (fun t => (⟨default, t⟩ : PTok)) := by
    intro l; simp [PTok.strip, Function.comp_def]
  rw [this, this, h]

theorem toks_of_strip_eq {s s' : PSt} (h : s.strip = s'.strip) : (PSt.toks s).length = (PSt.toks s').length := by
  have := congrArg (fun x => (PSt.toks x).length) h
  simpa [strip_toks] using this

theorem suffix_eq_of_length {α} {a b l : List α} (ha : a <:+ l) (hb : b <:+ l) (h : a.length = b.length) : a = b := by
  rw [List.suffix_iff_eq_drop] at ha hb
  rw [ha, hb, h]


/-! ### from the barrier equation to "consumes exactly its tokens, whatever follows" -/

/-- A parser function `F` that (1) never looks past the first boundary token, (2) does not depend on token locations,
(3) leaves a suffix of its input and (4) is monotone in the fuel: if it reads exactly the boundary-free tokens `body`
in front of one boundary tail, it reads exactly `body'` — the same tokens at any other locations — in front of every
other boundary tail, with the same answer up to locations. -/
theorem prefix_generic {α : Type} (F : Nat → PSt → PRes α) (er : α → α)
    (hswap : ∀ (t2 : PSt) (f : Nat) (s : PSt), Boundary t2.cur.tok → F f (swapB t2 s) = (F f s).mapSt (swapB t2))
    (hstrip : ∀ (f : Nat) (s : PSt), F f s.strip = (F f s).strip er)
    (hwithin : ∀ (f : Nat) (s : PSt) (toks : List PTok), s.Suffix toks → (F f s).Within toks)
    (hmono : ∀ (f f' : Nat) (s : PSt) (r : PRes α), f ≤ f' → F f s = r → r ≠ .fuel → F f' s = r)
    (body body' : List PTok) (hnb : ∀ t ∈ body, ¬ Boundary t.tok) (hbody : body'.map (·.tok) = body.map (·.tok))
    (tail0 tail : PSt) (hb0 : Boundary tail0.cur.tok) (hb : Boundary tail.cur.tok)
    (fuel0 fuel : Nat) (hf : fuel0 ≤ fuel) (a : α) (hrun : F fuel0 (PSt.prepend body tail0) = .ok a tail0) :
    ∃ a', F fuel (PSt.prepend body' tail) = .ok a' tail ∧ er a' = er a := by
  have h1 := hmono fuel0 fuel _ _ hf hrun (by simp)
  have h2 := hswap tail fuel (PSt.prepend body tail0) hb
  rw [h1, swapB_prepend tail body hnb tail0 hb0] at h2
  simp only [PRes.mapSt] at h2
  have hsw0 : swapB tail tail0 = ⟨⟨tail0.cur.loc, tail.cur.tok⟩, tail.rest⟩ := by simp [swapB, hb0]
  rw [hsw0] at h2
  -- the same tokens at other locations
  have hst : (PSt.prepend body' tail).strip = (PSt.prepend body ⟨⟨tail0.cur.loc, tail.cur.tok⟩, tail.rest⟩).strip := by
    apply strip_eq_of_toks
    rw [prepend_toks, prepend_toks]
    simp [PSt.toks, hbody]
  have h3 := hstrip fuel (PSt.prepend body' tail)
  rw [hst, hstrip fuel, h2] at h3
  cases hp : F fuel (PSt.prepend body' tail) with
  | err e s' => rw [hp] at h3; simp [PRes.strip] at h3
  | fuel => rw [hp] at h3; simp [PRes.strip] at h3
  | ok a' s' =>
    rw [hp] at h3
    simp only [PRes.strip, PRes.ok.injEq] at h3
    obtain ⟨ha, hs⟩ := h3
    refine ⟨a', ?_, ha.symm⟩
    have hsuf : s'.Suffix (PSt.toks (PSt.prepend body' tail)) :=
      ((hwithin fuel (PSt.prepend body' tail) _ (List.suffix_refl _)).1 a' s' hp)
    have htl : PSt.toks tail <:+ PSt.toks (PSt.prepend body' tail) := by
      rw [prepend_toks]; exact List.suffix_append _ _
    have hlen : (PSt.toks s').length = (PSt.toks tail).length := by
      have := toks_of_strip_eq hs.symm
      simpa [PSt.toks] using this
    have : s' = tail := pst_ext (suffix_eq_of_length hsuf htl hlen)
    rw [this]


/-! ### the key list of GROUP BY -/

/-- the expression list of `GROUP BY`: the first key and the `, key` loop, as `clauseTurn` runs them -/
def groupKeys (T : PrecTables) (fuel : Nat) (s : PSt) : PRes (List PExpr) :=
  try! (k, s) ← parseExpr T fuel s;
  groupKeysLoop T fuel [k] s

theorem groupKeysLoop_strip (T : PrecTables) : ∀ (n : Nat) (acc : List PExpr) (s : PSt),
    groupKeysLoop T n (PExpr.eraseLoc.eraseLocs acc) s.strip = (groupKeysLoop T n acc s).strip PExpr.eraseLoc.eraseLocs := by
  intro n
  induction n with
  | zero => intro acc s; rw [groupKeysLoop, groupKeysLoop]; rfl
  | succ n ih =>
    intro acc s
    rw [groupKeysLoop, groupKeysLoop]
    simp only [strip_cur_tok]
    by_cases hc : s.cur.tok = .comma
    · simp only [hc, if_true, next_strip]
      cases next s with
      | err e s1 => rfl
      | fuel => rfl
      | ok a s1 =>
        simp only [strip_ok, parseExpr_strip]
        cases parseExpr T n s1 with
        | err e s2 => rfl
        | fuel => rfl
        | ok e s2 =>
          simp only [strip_ok]
          rw [← ih]; simp [eraseLocs_append, PExpr.eraseLoc.eraseLocs]
    · simp only [hc, if_false]; rfl

theorem groupKeys_strip (T : PrecTables) (n : Nat) (s : PSt) :
    groupKeys T n s.strip = (groupKeys T n s).strip PExpr.eraseLoc.eraseLocs := by
  unfold groupKeys
  rw [parseExpr_strip]
  cases parseExpr T n s with
  | err e s2 => rfl
  | fuel => rfl
  | ok e s2 =>
    simp only [strip_ok]
    exact groupKeysLoop_strip T n [e] s2

theorem groupKeys_swapB {T : PrecTables} (hT : InertBoundary T) (t2 : PSt) (h2 : Boundary t2.cur.tok) (n : Nat) (s : PSt) :
    groupKeys T n (swapB t2 s) = (groupKeys T n s).mapSt (swapB t2) := by
  unfold groupKeys
  rw [parseExpr_swapB hT h2]
  cases parseExpr T n s with
  | err e s2 => rfl
  | fuel => rfl
  | ok e s2 => simp only [mapSt_ok]; exact groupKeysLoop_swapB hT h2 n [e] s2

theorem groupKeysLoop_mono (T : PrecTables) : ∀ (n : Nat) (acc : List PExpr) (s : PSt),
    PLe (groupKeysLoop T n acc s) (groupKeysLoop T (n + 1) acc s) := by
  intro n
  induction n with
  | zero => intro acc s; rw [groupKeysLoop]; exact PLe.fuel _
  | succ n ih =>
    intro acc s
    rw [groupKeysLoop, groupKeysLoop]
    by_cases hc : s.cur.tok = .comma
    · simp only [hc, if_true]
      cases next s with
      | err e s1 => exact PLe.refl _
      | fuel => exact PLe.refl _
      | ok a s1 =>
        simp only []
        rcases (mono_all T n).1 s1 with h | h
        · rw [h]; exact PLe.fuel _
        · rw [h]
          cases parseExpr T (n + 1) s1 with
          | err e s2 => exact PLe.refl _
          | fuel => exact PLe.refl _
          | ok e s2 => exact ih _ _
    · simp only [hc, if_false]; exact PLe.refl _

theorem groupKeys_mono_le (T : PrecTables) {f f' : Nat} (h : f ≤ f') (s : PSt) :
    PLe (groupKeys T f s) (groupKeys T f' s) := by
  induction h with
  | refl => exact PLe.refl _
  | step _ ih =>
    refine ih.trans ?_
    rename_i m _
    unfold groupKeys
    rcases (mono_all T m).1 s with h | h
    · rw [h]; exact PLe.fuel _
    · rw [h]
      cases parseExpr T (m + 1) s with
      | err e s2 => exact PLe.refl _
      | fuel => exact PLe.refl _
      | ok e s2 => exact groupKeysLoop_mono T m _ _

theorem groupKeys_within {T : PrecTables} (f : Nat) (s : PSt) (toks : List PTok) (h : s.Suffix toks) :
    (groupKeys T f s).Within toks := by
  unfold groupKeys
  have he := parseExpr_within (T := T) (fuel := f) h
  cases hp : parseExpr T f s with
  | err e s2 =>
    rw [hp] at he
    have hh := he.2 e s2 rfl
    exact within_err hh.1 hh.2
  | fuel => exact within_fuel
  | ok e s2 =>
    rw [hp] at he
    exact groupKeysLoop_within f [e] s2 (he.1 e s2 rfl)


/-! ### the two ways of forgetting locations agree -/

mutual
theorem noLoc_eq_eraseLoc : ∀ e : PExpr, e.noLoc = e.eraseLoc
  | .value _ _ => rfl
  | .column _ _ => rfl
  | .wildcard _ => rfl
  | .tuple _ vs => by simp only [PExpr.noLoc, PExpr.eraseLoc, noLocList_eq vs]; rfl
  | .binop _ _ a b => by simp only [PExpr.noLoc, PExpr.eraseLoc, noLoc_eq_eraseLoc a, noLoc_eq_eraseLoc b]; rfl
  | .boolop _ _ a b => by simp only [PExpr.noLoc, PExpr.eraseLoc, noLoc_eq_eraseLoc a, noLoc_eq_eraseLoc b]; rfl
  | .unop _ _ e => by simp only [PExpr.noLoc, PExpr.eraseLoc, noLoc_eq_eraseLoc e]; rfl
  | .invert _ e => by simp only [PExpr.noLoc, PExpr.eraseLoc, noLoc_eq_eraseLoc e]; rfl
  | .nullcmp _ _ a b => by simp only [PExpr.noLoc, PExpr.eraseLoc, noLoc_eq_eraseLoc a, noLoc_eq_eraseLoc b]; rfl
  | .inList _ _ e vs => by simp only [PExpr.noLoc, PExpr.eraseLoc, noLoc_eq_eraseLoc e, noLocList_eq vs]; rfl
  | .call _ _ args _ => by simp only [PExpr.noLoc, PExpr.eraseLoc, noLocList_eq args]; rfl
  | .index _ a i => by simp only [PExpr.noLoc, PExpr.eraseLoc, noLoc_eq_eraseLoc a, noLoc_eq_eraseLoc i]; rfl
  | .cast _ e _ => by simp only [PExpr.noLoc, PExpr.eraseLoc, noLoc_eq_eraseLoc e]; rfl
  | .case _ cs els => by simp only [PExpr.noLoc, PExpr.eraseLoc, noLocClauses_eq cs, noLoc_eq_eraseLoc els]; rfl
theorem noLocList_eq : ∀ es : List PExpr, PExpr.noLocList es = PExpr.eraseLoc.eraseLocs es
  | [] => rfl
  | e :: es => by simp only [PExpr.noLocList, PExpr.eraseLoc.eraseLocs, noLoc_eq_eraseLoc e, noLocList_eq es]
theorem noLocClauses_eq : ∀ cs : List (PExpr × PExpr), PExpr.noLocClauses cs = PExpr.eraseLoc.eraseLocClauses cs
  | [] => rfl
  | (c, r) :: cs => by
    simp only [PExpr.noLocClauses, PExpr.eraseLoc.eraseLocClauses, noLoc_eq_eraseLoc c, noLoc_eq_eraseLoc r, noLocClauses_eq cs]
end

/-! ### WHERE, HAVING and GROUP BY segments are clauses -/

variable {T : PrecTables} (hT : InertBoundary T)
include hT

/-- the expression parser reads exactly `body'` in front of every boundary tail, if it reads `body` in front of one -/
theorem parseExpr_prefix (body body' : List PTok) (hnb : ∀ t ∈ body, ¬ Boundary t.tok)
    (hbody : body'.map (·.tok) = body.map (·.tok)) (tail0 tail : PSt) (hb0 : Boundary tail0.cur.tok)
    (hb : Boundary tail.cur.tok) (fuel0 fuel : Nat) (hf : fuel0 ≤ fuel) (e : PExpr)
    (hrun : parseExpr T fuel0 (PSt.prepend body tail0) = .ok e tail0) :
    ∃ e', parseExpr T fuel (PSt.prepend body' tail) = .ok e' tail ∧ e'.noLoc = e.noLoc := by
  obtain ⟨e', h1, h2⟩ := prefix_generic (parseExpr T) PExpr.eraseLoc
    (fun t2 f s h2 => parseExpr_swapB hT h2 f s) (fun f s => parseExpr_strip T f s)
    (fun f s toks h => parseExpr_within h) (fun f f' s r h hr hne => fuel_mono_expr T h hr hne)
    body body' hnb hbody tail0 tail hb0 hb fuel0 fuel hf e hrun
  exact ⟨e', h1, by rw [noLoc_eq_eraseLoc, noLoc_eq_eraseLoc, h2]⟩

theorem groupKeys_prefix (body body' : List PTok) (hnb : ∀ t ∈ body, ¬ Boundary t.tok)
    (hbody : body'.map (·.tok) = body.map (·.tok)) (tail0 tail : PSt) (hb0 : Boundary tail0.cur.tok)
    (hb : Boundary tail.cur.tok) (fuel0 fuel : Nat) (hf : fuel0 ≤ fuel) (ks : List PExpr)
    (hrun : groupKeys T fuel0 (PSt.prepend body tail0) = .ok ks tail0) :
    ∃ ks', groupKeys T fuel (PSt.prepend body' tail) = .ok ks' tail ∧ PExpr.noLocList ks' = PExpr.noLocList ks := by
  obtain ⟨ks', h1, h2⟩ := prefix_generic (groupKeys T) PExpr.eraseLoc.eraseLocs
    (fun t2 f s h2 => groupKeys_swapB hT t2 h2 f s) (fun f s => groupKeys_strip T f s)
    (fun f s toks h => groupKeys_within f s toks h)
    (fun f f' s r h hr hne => by subst hr; exact (groupKeys_mono_le T h s).eq_of_ne hne)
    body body' hnb hbody tail0 tail hb0 hb fuel0 fuel hf ks hrun
  exact ⟨ks', h1, by rw [noLocList_eq, noLocList_eq, h2]⟩

/-- **`WHERE e` is a clause**: if the tokens `body` (no clause keyword, `;` or `End` among them) are read as the
expression `e` in front of *one* boundary token, then `WHERE` followed by the same tokens at any locations is a clause
with value `e` — whatever clause, `;` or `End` follows, one turn of the loop consumes exactly it. -/
theorem isClause_where (body body' : List PTok) (hnb : ∀ t ∈ body, ¬ Boundary t.tok)
    (hbody : body'.map (·.tok) = body.map (·.tok)) (tail0 : PSt) (hb0 : Boundary tail0.cur.tok) (fuel0 : Nat) (e : PExpr)
    (hrun : parseExpr T fuel0 (PSt.prepend body tail0) = .ok e tail0) (l : Loc) :
    IsClause T fuel0 (⟨l, .kw .where⟩ :: body') (.filter e) := by
  refine ⟨⟨_, _, rfl, by simp [ClauseKw]⟩, ?_⟩
  intro fuel c tail hf hb hfree
  simp only [ClauseVal.free] at hfree
  obtain ⟨e', h1, h2⟩ := parseExpr_prefix hT body body' hnb hbody tail0 tail hb0 hb fuel0 fuel hf e hrun
  refine ⟨.filter e', by simp [ClauseVal.Same, ClauseVal.erase, h2], ?_⟩
  simp [clauseTurn, prepend_cur_cons, next_prepend, hfree, h1, ClauseVal.put]

/-- **`HAVING e` is a clause** (as `isClause_where`) -/
theorem isClause_having (body body' : List PTok) (hnb : ∀ t ∈ body, ¬ Boundary t.tok)
    (hbody : body'.map (·.tok) = body.map (·.tok)) (tail0 : PSt) (hb0 : Boundary tail0.cur.tok) (fuel0 : Nat) (e : PExpr)
    (hrun : parseExpr T fuel0 (PSt.prepend body tail0) = .ok e tail0) (l : Loc) :
    IsClause T fuel0 (⟨l, .kw .having⟩ :: body') (.having e) := by
  refine ⟨⟨_, _, rfl, by simp [ClauseKw]⟩, ?_⟩
  intro fuel c tail hf hb hfree
  simp only [ClauseVal.free] at hfree
  obtain ⟨e', h1, h2⟩ := parseExpr_prefix hT body body' hnb hbody tail0 tail hb0 hb fuel0 fuel hf e hrun
  refine ⟨.having e', by simp [ClauseVal.Same, ClauseVal.erase, h2], ?_⟩
  simp [clauseTurn, prepend_cur_cons, next_prepend, hfree, h1, ClauseVal.put]

/-- **`GROUP BY e₁, e₂, …` is a clause** (as `isClause_where`, for the key list) -/
theorem isClause_groupBy (body body' : List PTok) (hnb : ∀ t ∈ body, ¬ Boundary t.tok)
    (hbody : body'.map (·.tok) = body.map (·.tok)) (tail0 : PSt) (hb0 : Boundary tail0.cur.tok) (fuel0 : Nat)
    (ks : List PExpr) (hrun : groupKeys T fuel0 (PSt.prepend body tail0) = .ok ks tail0) (l1 l2 : Loc) :
    IsClause T fuel0 (⟨l1, .kw .group⟩ :: ⟨l2, .kw .by⟩ :: body') (.groupBy ks) := by
  refine ⟨⟨_, _, rfl, by simp [ClauseKw]⟩, ?_⟩
  intro fuel c tail hf hb hfree
  simp only [ClauseVal.free] at hfree
  obtain ⟨ks', h1, h2⟩ := groupKeys_prefix hT body body' hnb hbody tail0 tail hb0 hb fuel0 fuel hf ks hrun
  refine ⟨.groupBy ks', by simp [ClauseVal.Same, ClauseVal.erase, h2], ?_⟩
  unfold groupKeys at h1
  simp only [clauseTurn, prepend_cur_cons, next_prepend, expectConsume]
  simp [hfree, ClauseVal.put]
  cases hp : parseExpr T fuel (PSt.prepend body' tail) with
  | err e s2 => rw [hp] at h1; cases h1
  | fuel => rw [hp] at h1; cases h1
  | ok k s2 => rw [hp] at h1; simp only at h1 ⊢; rw [h1]


/-! ### the five kinds of clause, as token sequences -/

omit hT in
theorem isClause_weaken {fuel0 fuel1 : Nat} (h : fuel0 ≤ fuel1) {seg : List PTok} {v : ClauseVal}
    (hc : IsClause T fuel0 seg v) : IsClause T fuel1 seg v :=
  ⟨hc.head, fun fuel c tail hf hb hfree => hc.turn fuel c tail (by omega) hb hfree⟩

/-- a clause given by its tokens (locations left open) and its value: `LIMIT n`, a JOIN, or `WHERE e` / `HAVING e` /
`GROUP BY e, …` whose expression tokens (no clause keyword, `;` or `End` among them) are read as that value in front
of some boundary token with fuel `fuel0` -/
inductive ClauseSeg (T : PrecTables) (fuel0 : Nat) : List Tok → ClauseVal → Prop where
  | limit (n : Int) : ClauseSeg T fuel0 [.kw .limit, .int n] (.limit (asUsize n))
  | join (outer : Bool) (u f a b c d : List Char) :
    ClauseSeg T fuel0
      [.kw (if outer then .outer else .inner), .kw .join, .ident u, .dcolon, .str f, .kw .on, .ident a,
       .op (.single '.'), .ident b, .op (.single '='), .ident c, .op (.single '.'), .ident d]
      (.join { joinerTable := u, joinerFilename := f, leftTable := a, leftColumn := b, rightTable := c,
               rightColumn := d, isOuter := outer })
  | filter (body : List PTok) (hnb : ∀ t ∈ body, ¬ Boundary t.tok) (tail0 : PSt) (hb0 : Boundary tail0.cur.tok)
    (e : PExpr) (hrun : parseExpr T fuel0 (PSt.prepend body tail0) = .ok e tail0) :
    ClauseSeg T fuel0 (.kw .where :: body.map (·.tok)) (.filter e)
  | having (body : List PTok) (hnb : ∀ t ∈ body, ¬ Boundary t.tok) (tail0 : PSt) (hb0 : Boundary tail0.cur.tok)
    (e : PExpr) (hrun : parseExpr T fuel0 (PSt.prepend body tail0) = .ok e tail0) :
    ClauseSeg T fuel0 (.kw .having :: body.map (·.tok)) (.having e)
  | groupBy (body : List PTok) (hnb : ∀ t ∈ body, ¬ Boundary t.tok) (tail0 : PSt) (hb0 : Boundary tail0.cur.tok)
    (ks : List PExpr) (hrun : groupKeys T fuel0 (PSt.prepend body tail0) = .ok ks tail0) :
    ClauseSeg T fuel0 (.kw .group :: .kw .by :: body.map (·.tok)) (.groupBy ks)

/-- every such token sequence, at any locations, is a clause -/
theorem isClause_of_seg {fuel0 : Nat} {toks : List Tok} {v : ClauseVal} (h : ClauseSeg T fuel0 toks v)
    (seg : List PTok) (hseg : seg.map (·.tok) = toks) : IsClause T fuel0 seg v := by
  cases h with
  | limit n =>
    match seg, hseg with
    | [⟨l1, t1⟩, ⟨l2, t2⟩], hseg =>
      simp only [List.map_cons, List.map_nil, List.cons.injEq, and_true] at hseg
      obtain ⟨rfl, rfl⟩ := hseg
      exact isClause_weaken (Nat.zero_le _) (isClause_limit T l1 l2 n)
  | join outer u f a b c d =>
    match seg, hseg with
    | [⟨l0, t0⟩, ⟨l1, t1⟩, ⟨l2, t2⟩, ⟨l3, t3⟩, ⟨l4, t4⟩, ⟨l5, t5⟩, ⟨l6, t6⟩, ⟨l7, t7⟩, ⟨l8, t8⟩, ⟨l9, t9⟩, ⟨l10, t10⟩,
       ⟨l11, t11⟩, ⟨l12, t12⟩], hseg =>
      simp only [List.map_cons, List.map_nil, List.cons.injEq, and_true] at hseg
      obtain ⟨rfl, rfl, rfl, rfl, rfl, rfl, rfl, rfl, rfl, rfl, rfl, rfl, rfl⟩ := hseg
      exact isClause_weaken (Nat.zero_le _)
        (isClause_join T (fun i => ([l0, l1, l2, l3, l4, l5, l6, l7, l8, l9, l10, l11, l12] : List Loc).getD i.val default)
          outer u f a b c d)
  | filter body hnb tail0 hb0 e hrun =>
    match seg, hseg with
    | ⟨l, t⟩ :: body', hseg =>
      simp only [List.map_cons, List.cons.injEq] at hseg
      obtain ⟨rfl, hb⟩ := hseg
      exact isClause_where hT body body' hnb hb tail0 hb0 fuel0 e hrun l
  | having body hnb tail0 hb0 e hrun =>
    match seg, hseg with
    | ⟨l, t⟩ :: body', hseg =>
      simp only [List.map_cons, List.cons.injEq] at hseg
      obtain ⟨rfl, hb⟩ := hseg
      exact isClause_having hT body body' hnb hb tail0 hb0 fuel0 e hrun l
  | groupBy body hnb tail0 hb0 ks hrun =>
    match seg, hseg with
    | ⟨l1, t1⟩ :: ⟨l2, t2⟩ :: body', hseg =>
      simp only [List.map_cons, List.cons.injEq] at hseg
      obtain ⟨rfl, rfl, hb⟩ := hseg
      exact isClause_groupBy hT body body' hnb hb tail0 hb0 fuel0 ks hrun l1 l2


/-! ### clause order, trailing semicolon -/

/-- what identifies a clause: its tokens (without locations) and its value -/
def clauseKey (p : List PTok × ClauseVal) : List Tok × ClauseVal := (p.1.map (·.tok), p.2)

/-- **clause order does not matter**: two token vectors that consist of the same clauses (token sequences, at any
locations) in different orders are both read completely by the clause loop, with the same slots up to locations -/
theorem clauseLoop_perm_tokens (fuel0 : Nat) (final1 final2 : PSt) (h1 : final1.cur.tok = .eof)
    (h2 : final2.cur.tok = .eof) (segs1 segs2 : List (List PTok × ClauseVal)) (hne : segs1 ≠ [])
    (hs1 : ∀ p ∈ segs1, ClauseSeg T fuel0 (p.1.map (·.tok)) p.2)
    (hperm : (segs1.map clauseKey).Perm (segs2.map clauseKey))
    (hd : segs1.Pairwise (fun a b => a.2.kind ≠ b.2.kind))
    (fuel : Nat) (hfuel : fuel0 + segs1.length ≤ fuel) :
    ∃ c1 c2, clauseLoop T fuel {} (PSt.prependAll (segs1.map (·.1)) final1) = .ok c1 final1 ∧
      clauseLoop T fuel {} (PSt.prependAll (segs2.map (·.1)) final2) = .ok c2 final2 ∧ c1.Same c2 := by
  have hvals : (segs1.map (·.2)).Perm (segs2.map (·.2)) := by
    have := hperm.map Prod.snd
    simpa [List.map_map, Function.comp_def, clauseKey] using this
  have hc1 : ∀ p ∈ segs1, IsClause T fuel0 p.1 p.2 := fun p hp => isClause_of_seg hT (hs1 p hp) p.1 rfl
  have hc2 : ∀ p ∈ segs2, IsClause T fuel0 p.1 p.2 := by
    intro p hp
    have hk : clauseKey p ∈ segs1.map clauseKey := (hperm.mem_iff).mpr (List.mem_map_of_mem hp)
    obtain ⟨q, hq, hqk⟩ := List.mem_map.mp hk
    have hseg := hs1 q hq
    simp only [clauseKey, Prod.mk.injEq] at hqk
    rw [hqk.1, hqk.2] at hseg
    exact isClause_of_seg hT hseg p.1 rfl
  exact clauseLoop_perm T fuel0 final1 final2 h1 h2 segs1 segs2 hne hvals hc1 hc2 hd fuel hfuel

omit hT in
/-- the run of the clause loop over clauses followed by `;` `End`: the `;` is consumed by the loop's own arm -/
theorem clauseLoop_segments_semi (fuel0 : Nat) (l l' : Loc) :
    ∀ (segs : List (List PTok × ClauseVal)) (fuel : Nat) (c d : Clauses), segs ≠ [] →
      (∀ p ∈ segs, IsClause T fuel0 p.1 p.2) →
      segs.Pairwise (fun a b => a.2.kind ≠ b.2.kind) →
      (∀ p ∈ segs, p.2.free c) → c.Same d →
      fuel0 + segs.length + 1 ≤ fuel →
      ∃ c', clauseLoop T fuel c (PSt.prependAll (segs.map (·.1)) ⟨⟨l, .semi⟩, [⟨l', .eof⟩]⟩) = .ok c' ⟨⟨l', .eof⟩, []⟩ ∧
        c'.Same (putAll (segs.map (·.2)) d) := by
  intro segs
  induction segs with
  | nil => intro _ _ _ h; exact absurd rfl h
  | cons p rest ih =>
    intro fuel c d _ hs hd hfree hcd hfuel
    obtain ⟨n, rfl⟩ : ∃ n, fuel = n + 1 := ⟨fuel - 1, by simp at hfuel; omega⟩
    have hp := hs p (by simp)
    have hrest : ∀ q ∈ rest, IsClause T fuel0 q.1 q.2 := fun q hq => hs q (by simp [hq])
    have htailb := prependAll_boundary T fuel0 rest ⟨⟨l, .semi⟩, [⟨l', .eof⟩]⟩ hrest (.inr (.inr rfl))
    obtain ⟨v', hv', hturn⟩ := hp.turn n c (PSt.prependAll (rest.map (·.1)) ⟨⟨l, .semi⟩, [⟨l', .eof⟩]⟩)
      (by simp at hfuel; omega) htailb (hfree p (by simp))
    rw [clauseLoop]
    simp only [List.map_cons, PSt.prependAll, hturn]
    simp only [putAll, List.foldl_cons]
    cases rest with
    | nil =>
      obtain ⟨m, rfl⟩ : ∃ m, n = m + 1 := ⟨n - 1, by simp at hfuel; omega⟩
      refine ⟨v'.put c, ?_, ?_⟩
      · simp [PSt.prependAll, clauseLoop, clauseTurn, next]
      · simpa using same_put hv' hcd
    | cons q rest' =>
      obtain ⟨t, ts, hseg, hk⟩ := (hrest q (by simp)).head
      have hne : (PSt.prependAll ((q :: rest').map (·.1)) ⟨⟨l, .semi⟩, [⟨l', .eof⟩]⟩).cur.tok ≠ .eof := by
        simp only [List.map_cons, PSt.prependAll]
        rw [prepend_cur hseg]
        exact clauseKw_ne_eof hk
      simp only [Bool.false_eq_true, if_false, hne]
      have hk' := same_kind hv'
      have := ih n (v'.put c) (p.2.put d) (by simp) hrest (List.Pairwise.of_cons hd)
        (fun r hr => put_free v' r.2 c (by rw [hk']; exact (List.pairwise_cons.mp hd).1 r hr) (hfree r (by simp [hr])))
        (same_put hv' hcd) (by simp at hfuel ⊢; omega)
      simpa [putAll] using this

/-- **optional trailing semicolon** (clause level): the same clauses followed by `End`, or by `;` `End`, are both
read completely, with the same slots up to locations (the two vectors may carry different locations) -/
theorem clauseLoop_trailing_semi (fuel0 : Nat) (l0 l l' : Loc) (segs1 segs2 : List (List PTok × ClauseVal))
    (hne : segs1 ≠ [])
    (hs1 : ∀ p ∈ segs1, ClauseSeg T fuel0 (p.1.map (·.tok)) p.2)
    (hsame : segs1.map clauseKey = segs2.map clauseKey)
    (hd : segs1.Pairwise (fun a b => a.2.kind ≠ b.2.kind))
    (fuel : Nat) (hfuel : fuel0 + segs1.length + 1 ≤ fuel) :
    ∃ c1 c2, clauseLoop T fuel {} (PSt.prependAll (segs1.map (·.1)) ⟨⟨l0, .eof⟩, []⟩) = .ok c1 ⟨⟨l0, .eof⟩, []⟩ ∧
      clauseLoop T fuel {} (PSt.prependAll (segs2.map (·.1)) ⟨⟨l, .semi⟩, [⟨l', .eof⟩]⟩) = .ok c2 ⟨⟨l', .eof⟩, []⟩ ∧
      c1.Same c2 := by
  have hvals : segs1.map (·.2) = segs2.map (·.2) := by
    have := congrArg (List.map Prod.snd) hsame
    simpa [List.map_map, Function.comp_def, clauseKey] using this
  have hlen : segs1.length = segs2.length := by simpa using congrArg List.length hsame
  have hne2 : segs2 ≠ [] := by intro h; rw [h] at hlen; exact hne (List.length_eq_zero_iff.mp hlen)
  have hc1 : ∀ p ∈ segs1, IsClause T fuel0 p.1 p.2 := fun p hp => isClause_of_seg hT (hs1 p hp) p.1 rfl
  have hc2 : ∀ p ∈ segs2, IsClause T fuel0 p.1 p.2 := by
    intro p hp
    have hk : clauseKey p ∈ segs1.map clauseKey := by rw [hsame]; exact List.mem_map_of_mem hp
    obtain ⟨q, hq, hqk⟩ := List.mem_map.mp hk
    have hseg := hs1 q hq
    simp only [clauseKey, Prod.mk.injEq] at hqk
    rw [hqk.1, hqk.2] at hseg
    exact isClause_of_seg hT hseg p.1 rfl
  have hd2 : segs2.Pairwise (fun a b => a.2.kind ≠ b.2.kind) := by
    have h1 : (segs1.map (·.2)).Pairwise (fun a b => a.kind ≠ b.kind) := by rw [List.pairwise_map]; exact hd
    rw [hvals, List.pairwise_map] at h1; exact h1
  have hfree : ∀ (segs : List (List PTok × ClauseVal)), ∀ p ∈ segs, p.2.free ({} : Clauses) := by
    intro segs p _; cases p.2 <;> simp [ClauseVal.free]
  obtain ⟨c1, hr1, hsm1⟩ := clauseLoop_segments T fuel0 ⟨⟨l0, .eof⟩, []⟩ rfl segs1 fuel {} {} hne hc1 hd (hfree segs1) rfl
    (by omega)
  obtain ⟨c2, hr2, hsm2⟩ := clauseLoop_segments_semi fuel0 l l' segs2 fuel {} {} hne2 hc2 hd2 (hfree segs2) rfl (by omega)
  refine ⟨c1, c2, hr1, hr2, ?_⟩
  unfold Clauses.Same at *
  rw [hsm1, hsm2, hvals]

/-! ### a concrete witness (used by the non-vacuity example of `Props/C20Parse.lean`) -/

/-- the tokens of `a = 1` at arbitrary locations -/
def exampleBody (l : Fin 3 → Loc) : List PTok := [⟨l 0, .ident ['a']⟩, ⟨l 1, .op (.single '=')⟩, ⟨l 2, .int 1⟩]

omit hT in
theorem exampleBody_nb (l : Fin 3 → Loc) : ∀ t ∈ exampleBody l, ¬ Boundary t.tok := by
  intro t ht; simp [exampleBody] at ht; rcases ht with rfl | rfl | rfl <;> simp [Boundary, ClauseKw]

omit hT in
/-- the model run on `a = 1 End` -/
theorem exampleRun (l : Fin 3 → Loc) (le : Loc) :
    parseExpr PrecTables.code 10 (PSt.prepend (exampleBody l) ⟨⟨le, .eof⟩, []⟩) =
      .ok (.binop (l 1) (.single '=') (.column (l 1) ['a']) (.value (l 2) (.int 1))) ⟨⟨le, .eof⟩, []⟩ := rfl

end Parse
end Sqlgrep
