import SqlgrepModel.Lemmas.SelectFollow
import SqlgrepModel.Model.ExecI
/-
The executed follow-mode loop (`Model/ExecI.lean` `runFollow` / `runFollowAll`, driver kind `followi`) expressed
through the engine's line-at-a-time answers (`feedLines`) and the loop over answers (`followPrinted`): the
bridging lemmas that make the `feedLines` / `followPrinted` statements (C06, C07, C11) statements about the
executed definitions. General in the statement kind (select or aggregate).
-/
namespace Sqlgrep
open Sqlgrep.Spec.Select

/-- the `single_result` argument the follow loop passes to the printer (`output.updated`) -/
def followSingleResult (qy : Query) : Bool :=
  match qy.stmt with
  | .aggregate _ => true
  | _ => false

/-- some answer carries a result together with the `reached_limit` flag: the follow loop ends there -/
def hasCut (los : List LineOut) : Bool := los.any (fun lo => lo.result.isSome && lo.reachedLimit)

theorem hasCut_withResult (los : List LineOut) : hasCut (withResult los) = hasCut los := by
  induction los with
  | nil => rfl
  | cons lo rest ih =>
    unfold hasCut withResult at ih ⊢
    cases hr : lo.result with
    | none => simp [hr, ih]
    | some r => simp [hr, ih]

/-- the follow loop's state after a delivered line was counted, executed and `extra` printed -/
def followAdvance (ls : LoopState) (es1 : EngineState) (extra : List String) : LoopState :=
  { ls with
    consumed := ls.consumed + 1
    es := es1
    out := { ls.out with totalLines := ls.out.totalLines + 1, printed := ls.out.printed ++ extra } }

/-- one step of the executed follow loop on a line whose engine step succeeds -/
theorem runFollow_step_ok (O : Oracles) (qy : Query) (l : Line) (rest : List Line) (ls : LoopState)
    (es1 : EngineState) (lo : LineOut) (hx : executeLine O qy [] true ls.es l = .ok (es1, lo)) :
    runFollow O qy none (l :: rest) ls =
      match lo.result with
      | some r =>
        if lo.reachedLimit then { followAdvance ls es1 (printResult r (followSingleResult qy)) with stop := true }
        else runFollow O qy none rest (followAdvance ls es1 (printResult r (followSingleResult qy)))
      | none => runFollow O qy none rest (followAdvance ls es1 []) := by
  have hn : ((none : Option Nat) == some ls.consumed) = false := rfl
  simp only [runFollow, hn, hx, Bool.false_eq_true, if_false, followAdvance, followSingleResult, List.append_nil]
  cases lo.result <;> rfl

theorem runFollow_step_fail (O : Oracles) (qy : Query) (l : Line) (rest : List Line) (ls : LoopState)
    (h : ∀ p, executeLine O qy [] true ls.es l ≠ .ok p) :
    (runFollow O qy none (l :: rest) ls).out =
      failWith { ls.out with totalLines := ls.out.totalLines + 1 } (executeLine O qy [] true ls.es l) := by
  have hn : ((none : Option Nat) == some ls.consumed) = false := rfl
  simp only [runFollow, hn, Bool.false_eq_true, if_false]
  cases hx : executeLine O qy [] true ls.es l with
  | ok p => exact absurd hx (h p)
  | error k => rfl
  | panic s => rfl
  | oracleMissing s => rfl

/-- the part of a run outcome that does not depend on the line counter and the printed records -/
def endStatus (ro : RunOut) : Option ErrKind × Bool × Option String := (ro.error, ro.panicked, ro.skipped)

theorem endStatus_congr {α : Type} (a b : RunOut) (h : endStatus a = endStatus b) (c : Bool) (o : Outcome α) :
    endStatus (if c then a else failWith a o) = endStatus (if c then b else failWith b o) := by
  simp only [endStatus, Prod.mk.injEq] at h
  obtain ⟨h1, h2, h3⟩ := h
  cases c <;> cases o <;> simp [endStatus, failWith, h1, h2, h3]

/-- **bridging lemma** (any statement kind, no interruption): the executed follow loop over `lines` from `ls`
prints what `followPrinted` prints from the engine's answers `feedLines … lines ls.es`; it ends without error
when an answer cut the loop (result + `reached_limit`), and otherwise ends the way the feeding ended (ok, or
the failure of the first failing line). Only the line counter is not a function of the answers with a result. -/
theorem runFollow_out (O : Oracles) (qy : Query) (lines : List Line) (ls : LoopState) :
    (runFollow O qy none lines ls).out.printed =
        ls.out.printed ++ followPrinted (followSingleResult qy) (feedLines O qy [] true lines ls.es).1 ∧
    endStatus (runFollow O qy none lines ls).out =
        endStatus (if hasCut (feedLines O qy [] true lines ls.es).1 then ls.out
                  else failWith ls.out (feedLines O qy [] true lines ls.es).2) := by
  induction lines generalizing ls with
  | nil => simp [runFollow, feedLines, followPrinted, hasCut, failWith]
  | cons l rest ih =>
    cases hx : executeLine O qy [] true ls.es l with
    | ok p =>
      obtain ⟨es1, lo⟩ := p
      rw [runFollow_step_ok O qy l rest ls es1 lo hx]
      simp only [feedLines, hx]
      cases hres : lo.result with
      | none =>
        obtain ⟨h1, h2⟩ := ih (followAdvance ls es1 [])
        simp only [hasCut, List.any_cons, hres, Option.isSome_none, Bool.false_and, Bool.false_or, followPrinted]
        refine ⟨by rw [h1]; simp [followAdvance], ?_⟩
        rw [h2]
        exact endStatus_congr (followAdvance ls es1 []).out ls.out rfl _ _
      | some r =>
        simp only
        by_cases hl : lo.reachedLimit = true
        · simp [hl, hasCut, hres, followPrinted, followAdvance, endStatus]
        · simp only [hl, Bool.false_eq_true, if_false]
          obtain ⟨h1, h2⟩ := ih (followAdvance ls es1 (printResult r (followSingleResult qy)))
          simp only [hasCut, List.any_cons, hres, Option.isSome_some, Bool.true_and, followPrinted, hl,
            Bool.false_or, Bool.false_eq_true, if_false]
          refine ⟨by rw [h1]; simp [followAdvance], ?_⟩
          rw [h2]
          exact endStatus_congr (followAdvance ls es1 (printResult r (followSingleResult qy))).out ls.out rfl _ _
    | error k =>
      rw [runFollow_step_fail O qy l rest ls (by intro p; rw [hx]; intro e; cases e)]
      simp [hx, feedLines, hasCut, followPrinted, failWith, endStatus]
    | panic s =>
      rw [runFollow_step_fail O qy l rest ls (by intro p; rw [hx]; intro e; cases e)]
      simp [hx, feedLines, hasCut, followPrinted, failWith, endStatus]
    | oracleMissing s =>
      rw [runFollow_step_fail O qy l rest ls (by intro p; rw [hx]; intro e; cases e)]
      simp [hx, feedLines, hasCut, followPrinted, failWith, endStatus]

/-- what the executed follow run prints, from the start -/
theorem runFollowAll_printed (O : Oracles) (qy : Query) (lines : List Line) :
    (runFollowAll O qy none lines).printed =
      if reachedLimit qy {} then [] else followPrinted (followSingleResult qy) (feedLines O qy [] true lines {}).1 := by
  unfold runFollowAll
  split
  · rfl
  · rw [(runFollow_out O qy lines {}).1]; rfl

/-- how the executed follow run ends -/
theorem runFollowAll_status (O : Oracles) (qy : Query) (lines : List Line) :
    endStatus (runFollowAll O qy none lines) =
      if reachedLimit qy {} || hasCut (feedLines O qy [] true lines {}).1 then endStatus {}
      else endStatus (failWith {} (feedLines O qy [] true lines {}).2) := by
  unfold runFollowAll
  by_cases h : reachedLimit qy {} = true
  · simp [h]
  · simp only [h, Bool.false_eq_true, if_false, Bool.false_or]
    rw [(runFollow_out O qy lines {}).2]
    split <;> rfl

/-! ### interruption after k delivered lines = the run over the first k lines -/

theorem runFollow_stopAt (O : Oracles) (qy : Query) (k : Nat) (lines : List Line) (ls : LoopState)
    (hc : ls.consumed ≤ k) :
    runFollow O qy (some k) lines ls = runFollow O qy none (lines.take (k - ls.consumed)) ls := by
  induction lines generalizing ls with
  | nil => simp [runFollow]
  | cons l rest ih =>
    by_cases he : ls.consumed = k
    · simp [runFollow, he]
    · have h1 : ((some k : Option Nat) == some ls.consumed) = false := by
        simp only [beq_eq_false_iff_ne, ne_eq, Option.some.injEq]; exact fun h => he h.symm
      have hn : ((none : Option Nat) == some ls.consumed) = false := rfl
      obtain ⟨m, hm⟩ : ∃ m, k - ls.consumed = m + 1 := ⟨k - ls.consumed - 1, by omega⟩
      rw [hm, List.take_succ_cons]
      simp only [runFollow, h1, hn, Bool.false_eq_true, if_false]
      cases executeLine O qy [] true ls.es l with
      | ok p =>
        obtain ⟨es1, lo⟩ := p
        simp only
        cases lo.result with
        | none =>
          simp only
          rw [ih _ (by simp only; omega)]
          have : k - (ls.consumed + 1) = m := by omega
          simp only [this]
        | some r =>
          simp only
          split
          · rfl
          · rw [ih _ (by simp only; omega)]
            have : k - (ls.consumed + 1) = m := by omega
            simp only [this]
      | error e => rfl
      | panic s => rfl
      | oracleMissing s => rfl

/-- the executed follow run whose flag is found cleared after `k` delivered lines is the follow run over the
first `k` lines -/
theorem runFollowAll_stopAt (O : Oracles) (qy : Query) (k : Nat) (lines : List Line) :
    runFollowAll O qy (some k) lines = runFollowAll O qy none (lines.take k) := by
  unfold runFollowAll
  split
  · rfl
  · rw [runFollow_stopAt O qy k lines {} (Nat.zero_le _)]; rfl

/-! ### non-aggregate statements: the follow loop is the batch loop -/

/-- for a non-aggregate statement below its limit, the executed follow loop and the executed batch loop over the
same (readable) lines are the same function: same engine state, same records, same counters, same outcome -/
theorem runFollow_select_eq_runFile (O : Oracles) (qy : Query) (q : SelectStmt) (hq : qy.stmt = .select q)
    (lines : List Line) (ls : LoopState) (h0 : reachedLimit qy ls.es = false) :
    runFollow O qy none lines ls = runFile O qy [] true none (readableFile lines) ls := by
  induction lines generalizing ls with
  | nil => rfl
  | cons l rest ih =>
    have hrl : ({ readable := true, line := l } : FileLine).readable = true := rfl
    have hn : ((none : Option Nat) == some ls.consumed) = false := rfl
    have hagg : followSingleResult qy = false := by simp [followSingleResult, hq]
    show runFollow O qy none (l :: rest) ls = runFile O qy [] true none ({ readable := true, line := l } :: readableFile rest) ls
    cases hx : executeLine O qy [] true ls.es l with
    | ok p =>
      obtain ⟨es1, lo⟩ := p
      rw [runFollow_step_ok O qy l rest ls es1 lo hx, runFile_cons_ok O qy [] true _ (readableFile rest) ls es1 lo hrl hx]
      have hflag := executeLine_select_reached O qy q hq [] true ls.es es1 l lo hx
      cases hres : lo.result with
      | none =>
        have hnum := executeLine_select_noresult O qy q hq [] true ls.es es1 l lo hx hres
        have hl : lo.reachedLimit = false := by
          rw [hflag]
          simp only [reachedLimit, hq] at h0 ⊢
          rw [hnum]; exact h0
        have e : advance ls es1 lo = followAdvance ls es1 [] := by simp [advance, followAdvance, piece, hres]
        simp only [hl, Bool.false_eq_true, if_false, e]
        refine ih _ ?_
        show reachedLimit qy es1 = false
        rw [← hflag]; exact hl
      | some r =>
        have e : advance ls es1 lo = followAdvance ls es1 (printResult r (followSingleResult qy)) := by
          simp [advance, followAdvance, piece, hres, hagg]
        simp only [e]
        by_cases hl : lo.reachedLimit = true
        · simp [hl]
        · simp only [hl, Bool.false_eq_true, if_false]
          refine ih _ ?_
          show reachedLimit qy es1 = false
          rw [← hflag]; simpa using hl
    | error k => simp [runFollow, runFile, hn, hx]
    | panic s => simp [runFollow, runFile, hn, hx]
    | oracleMissing s => simp [runFollow, runFile, hn, hx]

/-- **executed follow run = executed batch run** (non-aggregate statement, no join — follow mode has none): over
the same lines `runFollowAll` and `runBatch` have the same outcome: records, lines read, error -/
theorem runFollowAll_select_eq_runBatch (O : Oracles) (qy : Query) (q : SelectStmt) (hq : qy.stmt = .select q)
    (hj : qy.join = none) (lines : List Line) :
    runFollowAll O qy none lines = runBatch O qy [] [readableFile lines] none := by
  have hidx : joinIndexOf qy [] = .ok [] := by simp [joinIndexOf, hj]
  rw [runBatch_select_out O qy q hq [] _ [] hidx]
  unfold runFollowAll
  by_cases h0 : reachedLimit qy ({} : EngineState) = true
  · simp [runFiles, h0]
  · have h0' : reachedLimit qy ({} : LoopState).es = false := by simpa using h0
    simp only [h0, Bool.false_eq_true, if_false]
    rw [runFollow_select_eq_runFile O qy q hq lines {} h0']
    simp only [runFiles, h0', Bool.or_self, Bool.false_eq_true, if_false]
    split <;> rfl

/-! ### the engine's answers and the batch output over every prefix (any join index) -/

theorem feedLines_take (O : Oracles) (qy : Query) (idx : JoinIndex) (w : Bool) (k : Nat) (lines : List Line)
    (es : EngineState) :
    (feedLines O qy idx w (lines.take k) es).1 = (feedLines O qy idx w lines es).1.take k := by
  induction lines generalizing k es with
  | nil => simp [feedLines]
  | cons l rest ih =>
    cases k with
    | zero => simp [feedLines]
    | succ k =>
      simp only [List.take_succ_cons, feedLines]
      cases executeLine O qy idx w es l with
      | ok p => simp [ih]
      | error e => rfl
      | panic s => rfl
      | oracleMissing s => rfl

/-- without LIMIT no answer of a non-aggregate statement carries the flag -/
theorem feedLines_select_noflag (O : Oracles) (qy : Query) (q : SelectStmt) (hq : qy.stmt = .select q)
    (hl : q.limit = none) (idx : JoinIndex) (w : Bool) (lines : List Line) (es : EngineState) :
    ∀ lo ∈ (feedLines O qy idx w lines es).1, lo.reachedLimit = false := by
  induction lines generalizing es with
  | nil => intro lo h; cases h
  | cons l rest ih =>
    simp only [feedLines]
    cases hx : executeLine O qy idx w es l with
    | ok p =>
      obtain ⟨es1, lo⟩ := p
      intro lo' hm
      rcases List.mem_cons.1 hm with rfl | hm
      · rw [executeLine_select_reached O qy q hq idx w es es1 l _ hx]
        simp [reachedLimit, hq, hl]
      · exact ih es1 lo' hm
    | error e => intro lo h; cases h
    | panic s => intro lo h; cases h
    | oracleMissing s => intro lo h; cases h

theorem followPrinted_noflag (single : Bool) (los : List LineOut) (h : ∀ lo ∈ los, lo.reachedLimit = false) :
    followPrinted single los = los.flatMap (fun lo => match lo.result with
      | some r => printResult r single
      | none => []) := by
  induction los with
  | nil => rfl
  | cons lo rest ih =>
    have h1 := h lo (List.mem_cons_self ..)
    have h2 := ih (fun x hx => h x (List.mem_cons_of_mem _ hx))
    cases hr : lo.result with
    | none => simp [followPrinted, hr, h2]
    | some r => simp [followPrinted, hr, h1, h2]

/-- noise invariance of the executed follow run (from the bridging lemma and `feedLines_noise`) -/
theorem runFollowAll_noise (O : Oracles) (qy : Query) (lines : List Line) :
    (runFollowAll O qy none (lines.filter (fun l => anyResult l.row))).printed = (runFollowAll O qy none lines).printed ∧
    endStatus (runFollowAll O qy none (lines.filter (fun l => anyResult l.row))) = endStatus (runFollowAll O qy none lines) := by
  obtain ⟨h1, h2⟩ := feedLines_noise O qy [] true lines {}
  constructor
  · rw [runFollowAll_printed, runFollowAll_printed, ← followPrinted_withResult, h1, followPrinted_withResult]
  · rw [runFollowAll_status, runFollowAll_status, ← hasCut_withResult, h1, hasCut_withResult, h2]

/-- the batch output of a non-aggregate statement without LIMIT over the first `k` lines is the concatenation of
the engine's first `k` line-at-a-time answers (any join index) -/
theorem runFile_take_eq_answers (O : Oracles) (qy : Query) (q : SelectStmt) (hq : qy.stmt = .select q)
    (hl : q.limit = none) (idx : JoinIndex) (lines : List Line) (k : Nat) :
    (runFile O qy idx true none (readableFile (lines.take k)) {}).out.printed =
      ((feedLines O qy idx true lines {}).1.take k).flatMap piece := by
  have h0 : reachedLimit qy ({} : LoopState).es = false := by simp [reachedLimit, hq, hl]
  have hr : ∀ fl ∈ readableFile (lines.take k), fl.readable = true := by
    intro fl hfl
    obtain ⟨l, _, rfl⟩ := List.mem_map.1 hfl
    rfl
  have hm : (readableFile (lines.take k)).map (·.line) = lines.take k := by
    simp [readableFile, List.map_map, Function.comp_def]
  rw [runFile_printed_eq_followPrinted O qy q hq idx _ hr {} h0, hm, feedLines_take,
    followPrinted_noflag false _ (fun lo hlo =>
      feedLines_select_noflag O qy q hq hl idx true lines {} lo (List.mem_of_mem_take hlo))]
  simp only [List.nil_append]
  rfl

end Sqlgrep
