import SqlgrepModel.Lemmas.JsonNumber
/-
Facts about the RFC 8259 grammar of `Spec/JsonGrammar.lean` that do not involve the printer:
a text with a denotation is a text of the plain grammar.
-/
namespace Sqlgrep.JsonGrammar

theorem ws_nil : Ws [] := by intro c h; cases h

theorem ws_append {a b : List Char} (ha : Ws a) (hb : Ws b) : Ws (a ++ b) := by
  intro c hc
  cases List.mem_append.mp hc with
  | inl h => exact ha c h
  | inr h => exact hb c h

/-- a structural character without whitespace around it (the compact form) -/
theorem sep_bare (c : Char) : Sep c [c] := ⟨[], [], ws_nil, ws_nil, rfl⟩

theorem StrCharD.strChar {cs : List Char} {x : Char} (h : StrCharD cs x) : Chars cs := by
  have one : ∀ {c}, StrChar c → Chars c := fun hc => by simpa using Chars.cons hc Chars.nil
  have hex : ∀ {a b c d n}, hex4 a b c d = some n → HexDig a ∧ HexDig b ∧ HexDig c ∧ HexDig d := by
    intro a b c d n h
    unfold hex4 at h
    unfold HexDig
    cases ha : hexVal a <;> cases hb : hexVal b <;> cases hc : hexVal c <;> cases hd : hexVal d <;>
      simp [ha, hb, hc, hd] at h ⊢
  cases h with
  | unescaped hu => exact one (.unescaped hu)
  | escape he =>
    refine one (.escape ?_)
    exact List.mem_map.mpr ⟨_, he, rfl⟩
  | unicode hh _ =>
    obtain ⟨ha, hb, hc, hd⟩ := hex hh
    exact one (.unicode ha hb hc hd)
  | surrogates h1 h2 _ _ _ _ =>
    obtain ⟨ha, hb, hc, hd⟩ := hex h1
    obtain ⟨he, hf, hg, hh⟩ := hex h2
    exact Chars.cons (c := ['\\', 'u', _, _, _, _]) (.unicode ha hb hc hd) (one (.unicode he hf hg hh))

theorem Chars.append {a b : List Char} (ha : Chars a) (hb : Chars b) : Chars (a ++ b) := by
  induction ha with
  | nil => exact hb
  | cons hc _ ih => rw [List.append_assoc]; exact .cons hc ih

theorem CharsD.chars {cs xs : List Char} (h : CharsD cs xs) : Chars cs := by
  induction h with
  | nil => exact .nil
  | cons hc _ ih => exact hc.strChar.append ih

theorem StrD.str {cs xs : List Char} (h : StrD cs xs) : Str cs := by
  cases h with
  | mk hc => exact .mk hc.chars

mutual
theorem ValD.val {cs : List Char} {x : JVal} : ValD cs x → Val cs
  | .false => .false
  | .null => .null
  | .true => .true
  | .object h => .object h.obj
  | .array h => .array h.arr
  | .number h => .number h.num
  | .string h => .string h.str
theorem ObjD.obj {cs : List Char} {xs : List (List Char × JVal)} : ObjD cs xs → Obj cs
  | .empty hb he => .empty hb he
  | .members hb hm he => .members hb hm.members he
theorem MembersD.members {cs : List Char} {xs : List (List Char × JVal)} : MembersD cs xs → Members cs
  | .one h => .one h.member
  | .cons h hs ht => .cons h.member hs ht.members
theorem MemberD.member {cs : List Char} {x : List Char × JVal} : MemberD cs x → Member cs
  | .mk hk hs hv => .mk hk.str hs hv.val
theorem ArrD.arr {cs : List Char} {xs : List JVal} : ArrD cs xs → Arr cs
  | .empty hb he => .empty hb he
  | .elements hb hv he => .elements hb hv.elems he
theorem ElemsD.elems {cs : List Char} {xs : List JVal} : ElemsD cs xs → Elems cs
  | .one h => .one h.val
  | .cons h hs ht => .cons h.val hs ht.elems
end

end Sqlgrep.JsonGrammar
