import SqlgrepModel.Lemmas.ParseClauseOrder
import SqlgrepModel.Lemmas.ParseBlind
/-
Lifting the clause-level C20 theorems to whole token vectors and to statements (audit-2 M11).

* `sameUpToLoc_eraseLoc`: SELECT trees that are the same up to locations (`PSelect.SameUpToLoc`, the relation the
  clause-order and trailing-`;` theorems conclude) have EQUAL `eraseLoc`, hence (`lowerStatement_erase`) lower to the
  same statement or to conversion errors of the same kind: `lowerStatement_of_sameUpToLoc`, `parseToks_of_sameTree`.
* `select_clause_order`: a SELECT token vector `head ++ clauses₁ ++ [End]` that `Parser::parse` reads, with its clause
  segments rearranged (and every token at any other location), is read as the same tree up to locations.
* `select_clause_order_term`: … with either terminator (`End` or `;` `End`) on either side.
-/
namespace Sqlgrep
namespace Parse
open Sqlgrep.Lower

/-! ### same up to locations ⇒ equal after erasing locations ⇒ the same lowered statement -/

theorem clauses_same_eraseLoc {c d : Clauses} (h : c.Same d) : c.eraseLoc = d.eraseLoc := by
  have hf : (fun e : PExpr => e.noLoc) = PExpr.eraseLoc := funext noLoc_eq_eraseLoc
  have hl : PExpr.noLocList = PExpr.eraseLoc.eraseLocs := funext noLocList_eq
  unfold Clauses.Same Clauses.erase at h
  unfold Clauses.eraseLoc
  have hf' : PExpr.noLoc = PExpr.eraseLoc := hf
  rw [hf', hl] at h
  exact h

theorem _root_.Sqlgrep.PSelect.SameUpToLoc.trans {a b c : PSelect} (h1 : a.SameUpToLoc b) (h2 : b.SameUpToLoc c) : a.SameUpToLoc c := by
  obtain ⟨a1, a2, a3, a4, a5⟩ := h1
  obtain ⟨b1, b2, b3, b4, b5⟩ := h2
  exact ⟨a1.trans b1, a2.trans b2, a3.trans b3, a4.trans b4, by unfold Clauses.Same at *; exact a5.trans b5⟩

/-- **SELECT trees that are the same up to locations are equal once locations are erased** -/
theorem sameUpToLoc_eraseLoc {q q' : PSelect} (h : q.SameUpToLoc q') : (POp.select q).eraseLoc = (POp.select q').eraseLoc := by
  obtain ⟨hp, ht, hf, hd, hc⟩ := h
  have hc' := clauses_same_eraseLoc hc
  simp only [Clauses.eraseLoc, Clauses.mk.injEq] at hc'
  obtain ⟨c1, c2, c3, c4, c5⟩ := hc'
  have hp' : eraseProj q.projections = eraseProj q'.projections := hp
  simp only [POp.eraseLoc, POp.select.injEq, PSelect.mk.injEq]
  exact ⟨trivial, hp', ht, hf, c1, c2, c3, c4, c5, hd⟩

/-- **trees equal up to locations lower alike**: the same statement, or conversion errors of the same kind (the
location inside the error is the only thing that can differ) -/
theorem lowerStatement_of_eraseLoc_eq (rv : List Char → Bool) {t₁ t₂ : POp} (h : t₁.eraseLoc = t₂.eraseLoc) :
    (lowerStatement rv t₁).mapErr CErr.strip = (lowerStatement rv t₂).mapErr CErr.strip := by
  rw [← lowerStatement_erase, ← lowerStatement_erase, h]

theorem lowerStatement_ok_of_eraseLoc_eq (rv : List Char → Bool) {t₁ t₂ : POp} (h : t₁.eraseLoc = t₂.eraseLoc)
    (s : LStmt) (h₁ : lowerStatement rv t₁ = .ok s) : lowerStatement rv t₂ = .ok s := by
  have := lowerStatement_of_eraseLoc_eq rv h
  rw [h₁] at this
  cases h₂ : lowerStatement rv t₂ <;> rw [h₂] at this <;> simp [LRes.mapErr] at this
  rw [this]

theorem lowerStatement_of_sameUpToLoc (rv : List Char → Bool) {q q' : PSelect} (h : q.SameUpToLoc q') (s : LStmt)
    (h₁ : lowerStatement rv (.select q) = .ok s) : lowerStatement rv (.select q') = .ok s :=
  lowerStatement_ok_of_eraseLoc_eq rv (sameUpToLoc_eraseLoc h) s h₁

/-! ### clause order, for whole token vectors -/

/-- `Parser::parse` answered a SELECT tree: the vector starts with SELECT and `parse_select` succeeded -/
theorem parseOp_select_inv {T : PrecTables} {F : Nat} {s sE : PSt} {q : PSelect}
    (hrun : parseOp T F s = .ok (.select q) sE) :
    s.cur.tok = .kw .select ∧ ∃ sF, parseSelect T F s = .ok (.select q) sF := by
  unfold parseOp at hrun
  split at hrun
  · cases hrun
  · rename_i hk
    unfold parseStatement at hrun
    by_cases hs : s.cur.tok = .kw .select
    · refine ⟨hs, ?_⟩
      simp only [hs, if_true] at hrun
      split at hrun
      · cases hrun
      · rename_i op sF hps
        try_inv hrun
        split at hrun
        · simp only [PRes.ok.injEq] at hrun; exact ⟨sF, by rw [hps, hrun.1]⟩
        · cases hrun
      · try_inv hrun
        cases hrun
    · exfalso
      simp only [hs, if_false] at hrun
      split at hrun
      · cases hrun
      · rename_i op sF hps
        try_inv hrun
        split at hrun
        · simp only [PRes.ok.injEq] at hrun
          rw [hrun.1] at hps
          exact multiCreateLoop_not_select T _ _ _ _ _ hps
        · cases hrun
      · try_inv hrun
        cases hrun

/-- `parse_select` answers SELECT trees only -/
theorem parseSelect_is_select {T : PrecTables} {F : Nat} {s sF : PSt} {op : POp} (h : parseSelect T F s = .ok op sF) :
    ∃ q, op = .select q := by
  rw [parseSelect_eq] at h
  try_inv h
  try_inv h
  simp only [PRes.ok.injEq] at h
  exact ⟨_, h.1.symm⟩

/-- a token vector that starts with SELECT is read as a SELECT tree, if it is read at all -/
theorem parseTokens_select_tree {T : PrecTables} {t : PTok} {ts : List PTok} {op : POp} (ht : t.tok = .kw .select)
    (h : parseTokens T (t :: ts) = .tree op) : ∃ q, op = .select q := by
  unfold parseTokens parseTokensFuel at h
  simp only [] at h
  split at h
  · rename_i op' sE hrun
    simp only [ParseOutcome.tree.injEq] at h
    subst h
    have hs : ({ cur := t, rest := ts } : PSt).cur.tok = .kw .select := ht
    generalize ({ cur := t, rest := ts } : PSt) = s0 at hs hrun
    unfold parseOp at hrun
    split at hrun
    · cases hrun
    · unfold parseStatement at hrun
      simp only [hs, if_true] at hrun
      split at hrun
      · cases hrun
      · rename_i op2 sF hps
        try_inv hrun
        split at hrun
        · simp only [PRes.ok.injEq] at hrun
          rw [← hrun.1]; exact parseSelect_is_select hps
        · cases hrun
      · try_inv hrun
        cases hrun
  · cases h
  · cases h

theorem segShape_of_toks {a b : List PTok} (h : a.map (·.tok) = b.map (·.tok)) (ha : SegShape a) : SegShape b := by
  obtain ⟨t, body, rfl, hk, hnb⟩ := ha
  match b, h with
  | u :: body', h =>
    simp only [List.map_cons, List.cons.injEq] at h
    refine ⟨u, body', rfl, h.1 ▸ hk, ?_⟩
    intro x hx
    have : x.tok ∈ body.map (·.tok) := h.2 ▸ List.mem_map_of_mem hx
    obtain ⟨y, hy, hxy⟩ := List.mem_map.mp this
    rw [← hxy]; exact hnb y hy

theorem segShape_perm {segs1 segs2 : List (List PTok)}
    (hperm : (segs1.map (fun seg => seg.map (·.tok))).Perm (segs2.map (fun seg => seg.map (·.tok))))
    (h : ∀ seg ∈ segs1, SegShape seg) : ∀ seg ∈ segs2, SegShape seg := by
  intro seg hseg
  have : seg.map (·.tok) ∈ segs1.map (fun seg => seg.map (·.tok)) := hperm.mem_iff.mpr (List.mem_map_of_mem hseg)
  obtain ⟨a, ha, hab⟩ := List.mem_map.mp this
  exact segShape_of_toks hab (h a ha)

section order
variable {T : PrecTables} (hT : InertBoundary T)
include hT

/-- **Clause order does not matter to the statement** (`End`-terminated vectors): let `head` contain no clause keyword,
`;` or `End`, let every segment of `segs1` be a clause keyword followed by such tokens (`SegShape`: the vector cut in
front of every clause keyword), and let `Parser::parse` read `head ++ segs1 ++ [End]` as a SELECT tree `q1`. Then
for every rearrangement `segs2` of the segments and every relocation of all tokens, `Parser::parse` reads
`head' ++ segs2 ++ [End]` as a SELECT tree that is the same up to locations. Nothing is assumed about the clauses:
that each is read exactly, and that no kind occurs twice, is read off the successful first parse. -/
theorem select_clause_order (head head' : List PTok) (segs1 segs2 : List (List PTok)) (l1 l2 : Loc)
    (hnb : ∀ t ∈ head, ¬ Boundary t.tok) (hhead : head'.map (·.tok) = head.map (·.tok))
    (hshape : ∀ seg ∈ segs1, SegShape seg)
    (hperm : (segs1.map (fun seg => seg.map (·.tok))).Perm (segs2.map (fun seg => seg.map (·.tok))))
    (q1 : PSelect) (h : parseTokens T (head ++ segs1.flatten ++ [⟨l1, .eof⟩]) = .tree (.select q1)) :
    ∃ q2, parseTokens T (head' ++ segs2.flatten ++ [⟨l2, .eof⟩]) = .tree (.select q2) ∧ q1.SameUpToLoc q2 := by
  have hfin1 : Boundary (⟨⟨l1, .eof⟩, []⟩ : PSt).cur.tok := .inr (.inl rfl)
  have hfin2 : Boundary (⟨⟨l2, .eof⟩, []⟩ : PSt).cur.tok := .inr (.inl rfl)
  have hshape2 := segShape_perm hperm hshape
  have hvec : ∀ (hd : List PTok) (sg : List (List PTok)) (X : PSt),
      PSt.prepend (hd ++ sg.flatten) X = PSt.prepend hd (PSt.prependAll sg X) := by
    intro hd sg X; apply pst_ext
    rw [prepend_toks, prepend_toks, prependAll_toks, List.append_assoc]
  unfold parseTokens at h ⊢
  have e1 : head ++ segs1.flatten ++ [⟨l1, .eof⟩] = (head ++ segs1.flatten) ++ PSt.toks ⟨⟨l1, .eof⟩, []⟩ := rfl
  have e2 : head' ++ segs2.flatten ++ [⟨l2, .eof⟩] = (head' ++ segs2.flatten) ++ PSt.toks ⟨⟨l2, .eof⟩, []⟩ := rfl
  rw [e1] at h
  rw [e2]
  obtain ⟨sE, hrun⟩ := tree_of_parseTokensFuel h
  obtain ⟨hs, sF, hps⟩ := parseOp_select_inv hrun
  rw [hvec] at hs hps
  generalize fuelBound (head ++ segs1.flatten ++ PSt.toks ⟨⟨l1, .eof⟩, []⟩).length = F at *
  rw [parseSelect_eq] at hps
  try_inv hps; rename_i hv tailX hhead1
  try_inv hps; rename_i c sF' hcl
  simp only [PRes.ok.injEq, POp.select.injEq] at hps
  obtain ⟨hq1, _⟩ := hps
  obtain ⟨body, hsd, hnbb⟩ := selectHead_noadv hT hs hhead1
  -- the state the head leaves is at a boundary token
  have hbX : Boundary tailX.cur.tok := by
    unfold clauses at hcl
    by_cases he : tailX.cur.tok = .eof
    · exact .inr (.inl he)
    · simp only [he, ne_eq, not_false_eq_true, if_true] at hcl
      cases F with
      | zero => rw [clauseLoop] at hcl; cases hcl
      | succ m =>
        rw [clauseLoop] at hcl
        try_inv hcl; rename_i cb2 s2 ht2
        exact clauseTurn_ok_boundary ht2
  have hb1 : Boundary (PSt.prependAll segs1 ⟨⟨l1, .eof⟩, []⟩).cur.tok := prependAll_cur_boundary segs1 hshape _ hfin1
  have hb2 : Boundary (PSt.prependAll segs2 ⟨⟨l2, .eof⟩, []⟩).cur.tok := prependAll_cur_boundary segs2 hshape2 _ hfin2
  have htoks : head ++ (PSt.prependAll segs1 ⟨⟨l1, .eof⟩, []⟩).cur :: (PSt.prependAll segs1 ⟨⟨l1, .eof⟩, []⟩).rest =
      body ++ tailX.cur :: tailX.rest := by
    have := congrArg PSt.toks hsd
    rw [prepend_toks, prepend_toks] at this
    exact this
  obtain ⟨hhb, htl⟩ := bsplit_unique head body _ _ _ _ hnb hnbb hb1 hbX htoks
  subst hhb
  have htail : tailX = PSt.prependAll segs1 ⟨⟨l1, .eof⟩, []⟩ := pst_ext htl.symm
  subst htail
  -- the clauses, in the other order
  have hcl2 : ∃ c2, clauses T (F + segs1.length) (PSt.prependAll segs2 ⟨⟨l2, .eof⟩, []⟩) = .ok c2 ⟨⟨l2, .eof⟩, []⟩ ∧
      c.Same c2 := by
    unfold clauses at hcl ⊢
    cases segs1 with
    | nil =>
      have : segs2 = [] := by simpa using hperm.length_eq.symm
      subst this
      simp only [PSt.prependAll, ne_eq, not_true_eq_false, if_false, PRes.ok.injEq] at hcl ⊢
      exact ⟨{}, by simp, by rw [← hcl.1]; rfl⟩
    | cons a as =>
      have hne1 : (PSt.prependAll (a :: as) ⟨⟨l1, .eof⟩, []⟩).cur.tok ≠ .eof := by
        obtain ⟨t, bd, rfl, hk, _⟩ := hshape a (by simp)
        exact clauseKw_ne_eof hk
      have hne2 : (PSt.prependAll segs2 ⟨⟨l2, .eof⟩, []⟩).cur.tok ≠ .eof := by
        cases segs2 with
        | nil => simp at hperm
        | cons b bs =>
          obtain ⟨t, bd, rfl, hk, _⟩ := hshape2 b (by simp)
          exact clauseKw_ne_eof hk
      simp only [hne1, hne2, ne_eq, not_false_eq_true, if_true] at hcl ⊢
      obtain ⟨_, c2, hr2, hsame⟩ := clauseLoop_perm_of_run hT F (a :: as) segs2 ⟨⟨l1, .eof⟩, []⟩ ⟨⟨l2, .eof⟩, []⟩ rfl rfl hshape hperm c sF' hcl
      exact ⟨c2, hr2, hsame⟩
  obtain ⟨c2, hc2, hsame⟩ := hcl2
  -- the head, in front of the other tail
  have hsel : ∃ t ts, head = t :: ts ∧ t.tok = .kw .select := by
    cases head with
    | nil =>
      exfalso
      have : (PSt.prependAll segs1 ⟨⟨l1, .eof⟩, []⟩).cur.tok = .kw .select := hs
      rw [this] at hb1
      exact absurd hb1 (by decide)
    | cons t ts => exact ⟨t, ts, rfl, hs⟩
  obtain ⟨h', hr', he'⟩ := selectHead_prefix hT head head' hnb hhead hsel _ _ hb1 hb2 F (F + segs1.length)
    (Nat.le_add_right _ _) hv hhead1
  have hs2 : (PSt.prepend head' (PSt.prependAll segs2 ⟨⟨l2, .eof⟩, []⟩)).cur.tok = .kw .select := by
    obtain ⟨t, ts, rfl, ht⟩ := hsel
    match head', hhead with
    | t' :: ts', hhead =>
      simp only [List.map_cons, List.cons.injEq] at hhead
      show t'.tok = _
      rw [hhead.1]; exact ht
  have hsel2 : parseSelect T (F + segs1.length) (PSt.prepend head' (PSt.prependAll segs2 ⟨⟨l2, .eof⟩, []⟩)) =
      .ok (.select (selectOf h' c2)) ⟨⟨l2, .eof⟩, []⟩ := by
    rw [parseSelect_eq, hr']; simp only []; rw [hc2]
  have hop2 := parseOp_of_select hs2 hsel2
  refine ⟨selectOf h' c2, ?_, by rw [← hq1]; exact selectOf_same he'.symm hsame⟩
  -- the fuel `Parser::parse` runs with is enough, and more fuel does not change the answer
  rw [parseTokensFuel_prepend, hvec]
  have hnf := parseOp_nofuel T (fuelBound (head' ++ segs2.flatten ++ PSt.toks ⟨⟨l2, .eof⟩, []⟩).length)
    (PSt.prepend head' (PSt.prependAll segs2 ⟨⟨l2, .eof⟩, []⟩)) (by
      rw [← hvec, remaining_prepend]
      simp [fuelBound, PSt.toks, PSt.remaining]
      omega)
  have hle1 := parseOp_select_mono_le T
    (Nat.le_max_left (fuelBound (head' ++ segs2.flatten ++ PSt.toks ⟨⟨l2, .eof⟩, []⟩).length) (F + segs1.length)) _ hs2
  have hle2 := parseOp_select_mono_le T
    (Nat.le_max_right (fuelBound (head' ++ segs2.flatten ++ PSt.toks ⟨⟨l2, .eof⟩, []⟩).length) (F + segs1.length)) _ hs2
  rw [hop2] at hle2
  have hM := hle2.eq_of_ne (by simp)
  rw [hM] at hle1
  have := hle1.eq_of_ne hnf
  rw [← this]

/-- the end of a statement's token vector: `End`, or `;` `End` -/
inductive StmtEnd : List PTok → Prop
  | eof (l : Loc) : StmtEnd [⟨l, .eof⟩]
  | semi (l l' : Loc) : StmtEnd [⟨l, .semi⟩, ⟨l', .eof⟩]

omit hT in
theorem segs_shape_no_term {segs : List (List PTok)} (h : ∀ seg ∈ segs, SegShape seg) :
    ∀ t ∈ segs.flatten, t.tok ≠ .semi ∧ t.tok ≠ .eof := by
  intro t ht
  obtain ⟨seg, hseg, hts⟩ := List.mem_flatten.mp ht
  obtain ⟨k, body, rfl, hk, hnb⟩ := h seg hseg
  rcases List.mem_cons.mp hts with rfl | hb
  · have := clauseKw_not_term hk
    exact ⟨fun e => this (.inr e), fun e => this (.inl e)⟩
  · exact nb_no_term hnb t hb

/-- **Clause order does not matter to the statement**, with an optional trailing `;` on either side -/
theorem select_clause_order_term (head head' : List PTok) (segs1 segs2 : List (List PTok)) (term1 term2 : List PTok)
    (ht1 : StmtEnd term1) (ht2 : StmtEnd term2)
    (hnb : ∀ t ∈ head, ¬ Boundary t.tok) (hhead : head'.map (·.tok) = head.map (·.tok))
    (hshape : ∀ seg ∈ segs1, SegShape seg)
    (hperm : (segs1.map (fun seg => seg.map (·.tok))).Perm (segs2.map (fun seg => seg.map (·.tok))))
    (q1 : PSelect) (h : parseTokens T (head ++ segs1.flatten ++ term1) = .tree (.select q1)) :
    ∃ q2, parseTokens T (head' ++ segs2.flatten ++ term2) = .tree (.select q2) ∧ q1.SameUpToLoc q2 := by
  have hshape2 := segShape_perm hperm hshape
  have hnb' : ∀ t ∈ head', ¬ Boundary t.tok := by
    intro t ht hb
    have : t.tok ∈ head.map (·.tok) := hhead ▸ List.mem_map_of_mem ht
    obtain ⟨u, hu, hut⟩ := List.mem_map.mp this
    exact hnb u hu (hut ▸ hb)
  have hpre1 : ∀ t ∈ head ++ segs1.flatten, t.tok ≠ .semi ∧ t.tok ≠ .eof := by
    intro t ht
    rcases List.mem_append.mp ht with ht | ht
    · exact nb_no_term hnb t ht
    · exact segs_shape_no_term hshape t ht
  have hpre2 : ∀ t ∈ head' ++ segs2.flatten, t.tok ≠ .semi ∧ t.tok ≠ .eof := by
    intro t ht
    rcases List.mem_append.mp ht with ht | ht
    · exact nb_no_term hnb' t ht
    · exact segs_shape_no_term hshape2 t ht
  -- first vector: to its `End`-terminated form
  have h1 : ∃ (l0 : Loc) (q1' : PSelect),
      parseTokens T (head ++ segs1.flatten ++ [⟨l0, .eof⟩]) = .tree (.select q1') ∧ q1.SameUpToLoc q1' := by
    cases ht1 with
    | eof l => exact ⟨l, q1, h, ⟨rfl, rfl, rfl, rfl, rfl⟩⟩
    | semi l l' =>
      obtain ⟨q', hq', hs'⟩ := semicolon_transfer hT (head ++ segs1.flatten) hpre1 l l l' ⟨⟨l, .semi⟩, [⟨l', .eof⟩]⟩
        ⟨⟨l, .eof⟩, []⟩ (.inr ⟨rfl, rfl⟩) q1 h
      exact ⟨l, q', hq', hs'⟩
  obtain ⟨l0, q1', hq1', hs1⟩ := h1
  cases ht2 with
  | eof l =>
    obtain ⟨q2, hq2, hs2⟩ := select_clause_order hT head head' segs1 segs2 l0 l hnb hhead hshape hperm q1' hq1'
    exact ⟨q2, hq2, PSelect.SameUpToLoc.trans hs1 hs2⟩
  | semi l l' =>
    obtain ⟨q2', hq2', hs2'⟩ := select_clause_order hT head head' segs1 segs2 l0 l hnb hhead hshape hperm q1' hq1'
    obtain ⟨q2, hq2, hs2⟩ := semicolon_transfer hT (head' ++ segs2.flatten) hpre2 l l l' ⟨⟨l, .eof⟩, []⟩
      ⟨⟨l, .semi⟩, [⟨l', .eof⟩]⟩ (.inl ⟨rfl, rfl⟩) q2' hq2'
    exact ⟨q2, hq2, PSelect.SameUpToLoc.trans (PSelect.SameUpToLoc.trans hs1 hs2') hs2⟩

end order

/-! ### the side conditions of the whole-statement theorems, in decidable form -/

/-- the segments of a SELECT token vector behind its head: each a clause keyword (WHERE, GROUP, HAVING, INNER, OUTER,
LIMIT) followed by tokens none of which is a clause keyword, `;` or `End` — what one gets by cutting the vector in
front of every clause keyword (stated so that it is decidable on concrete vectors) -/
def ClauseSegments (segs : List (List PTok)) : Prop :=
  ∀ seg ∈ segs, seg.head?.map (fun k => decide (ClauseKw k.tok)) = some true ∧ ∀ u ∈ seg.tail, ¬ Boundary u.tok

/-- the head of a SELECT token vector: starts with SELECT, contains no clause keyword, `;` or `End` -/
def SelectHead (head : List PTok) : Prop :=
  head.head?.map (·.tok) = some (.kw .select) ∧ ∀ t ∈ head, ¬ Boundary t.tok

/-- the end of a statement's token vector: `End`, or `;` `End` -/
def IsEnd (e : List PTok) : Prop := e.map (·.tok) = [.eof] ∨ e.map (·.tok) = [.semi, .eof]

instance (segs : List (List PTok)) : Decidable (ClauseSegments segs) := by unfold ClauseSegments; infer_instance
instance (head : List PTok) : Decidable (SelectHead head) := by unfold SelectHead; infer_instance
instance (e : List PTok) : Decidable (IsEnd e) := by unfold IsEnd; infer_instance

theorem ClauseSegments.shape {segs : List (List PTok)} (h : ClauseSegments segs) : ∀ seg ∈ segs, SegShape seg := by
  intro seg hseg
  obtain ⟨h1, h2⟩ := h seg hseg
  cases seg with
  | nil => simp at h1
  | cons k body =>
    simp only [List.head?_cons, Option.map_some, Option.some.injEq, decide_eq_true_eq] at h1
    exact ⟨k, body, rfl, h1, h2⟩

theorem SelectHead.cons {head : List PTok} (h : SelectHead head) : ∃ t ts, head = t :: ts ∧ t.tok = .kw .select := by
  obtain ⟨h1, _⟩ := h
  cases head with
  | nil => simp at h1
  | cons t ts => exact ⟨t, ts, rfl, by simpa using h1⟩

theorem IsEnd.stmtEnd {e : List PTok} (h : IsEnd e) : StmtEnd e := by
  rcases h with h | h
  · match e, h with
    | [⟨l, _⟩], h => simp only [List.map_cons, List.map_nil, List.cons.injEq, and_true] at h; subst h; exact .eof l
  · match e, h with
    | [⟨l, _⟩, ⟨l', _⟩], h =>
      simp only [List.map_cons, List.map_nil, List.cons.injEq, and_true] at h
      obtain ⟨rfl, rfl⟩ := h
      exact .semi l l'

/-- the tokens of a query text in front of `End`: start with SELECT, no `;` among them -/
def SelectNoSemi (ts : List PTok) : Prop :=
  ts.head?.map (·.tok) = some (.kw .select) ∧ ∀ t ∈ ts, t.tok ≠ .semi

instance (ts : List PTok) : Decidable (SelectNoSemi ts) := by unfold SelectNoSemi; infer_instance

theorem SelectNoSemi.cons {ts : List PTok} (h : SelectNoSemi ts) : ∃ t rest, ts = t :: rest ∧ t.tok = .kw .select := by
  obtain ⟨h1, _⟩ := h
  cases ts with
  | nil => simp at h1
  | cons t rest => exact ⟨t, rest, rfl, by simpa using h1⟩

/-- a token vector that starts with SELECT -/
def SelectVector (toks : List PTok) : Prop := toks.head?.map (·.tok) = some (.kw .select)

instance (toks : List PTok) : Decidable (SelectVector toks) := by unfold SelectVector; infer_instance

end Parse

namespace Pipeline
open Sqlgrep.Parse Sqlgrep.Lower

/-- two token vectors whose trees are equal up to locations give the same answer of `parsing::parse` up to the
locations inside errors -/
theorem parseToks_of_sameTree (rv : List Char → Bool) {ts₁ ts₂ : List PTok} {t₁ t₂ : POp}
    (h₁ : parseTokens PrecTables.code ts₁ = .tree t₁) (h₂ : parseTokens PrecTables.code ts₂ = .tree t₂)
    (h : t₁.eraseLoc = t₂.eraseLoc) : (parseToks rv ts₁).stripLoc = (parseToks rv ts₂).stripLoc := by
  unfold parseToks
  rw [h₁, h₂]
  simp only []
  rw [← lowerTree_erase rv t₁, ← lowerTree_erase rv t₂, h]

/-- … in particular the same statement -/
theorem parseToks_stmt_of_sameTree (rv : List Char → Bool) {ts₁ ts₂ : List PTok} {t₁ t₂ : POp}
    (h₁ : parseTokens PrecTables.code ts₁ = .tree t₁) (h₂ : parseTokens PrecTables.code ts₂ = .tree t₂)
    (h : t₁.eraseLoc = t₂.eraseLoc) (s : LStmt) (hs : parseToks rv ts₁ = .stmt s) : parseToks rv ts₂ = .stmt s := by
  have := parseToks_of_sameTree rv h₁ h₂ h
  rw [hs] at this
  cases h₂' : parseToks rv ts₂ <;> rw [h₂'] at this <;> simp [Parsed.stripLoc] at this
  rw [this]

/-- a token vector that lowers to a statement was read as a tree -/
theorem tree_of_parseToks_stmt {rv : List Char → Bool} {ts : List PTok} {s : LStmt} (h : parseToks rv ts = .stmt s) :
    ∃ t, parseTokens PrecTables.code ts = .tree t ∧ lowerStatement rv t = .ok s := by
  unfold parseToks at h
  cases hp : parseTokens PrecTables.code ts with
  | tree t =>
    rw [hp] at h
    simp only [lowerTree] at h
    cases hl : lowerStatement rv t with
    | ok s' => rw [hl] at h; simp only [Parsed.stmt.injEq] at h; exact ⟨t, rfl, by rw [hl, h]⟩
    | err e => rw [hl] at h; cases h
    | panic e => rw [hl] at h; cases h
  | error e => rw [hp] at h; cases h
  | fuel => rw [hp] at h; cases h
  | panic => rw [hp] at h; cases h

end Pipeline
end Sqlgrep
