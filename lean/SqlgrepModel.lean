import SqlgrepModel.Sexp
import SqlgrepModel.Codec
import SqlgrepModel.Model.Value
import SqlgrepModel.Model.Text
import SqlgrepModel.Model.Token
import SqlgrepModel.Lemmas.Order
import SqlgrepModel.Lemmas.ValueOrder
import SqlgrepModel.Props.C16
