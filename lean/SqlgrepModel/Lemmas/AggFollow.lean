import SqlgrepModel.Lemmas.AggRun
import SqlgrepModel.Lemmas.AggKinds
/-
Follow mode: `execute_result` runs between updates. `publishPercentiles` leaves published values in PERCENTILE cells;
the coupling is kept in the weaker form `CoupledP` (stored cell similar to the ideal fold), which every update and
every `publishPercentiles` preserves and which determines the same table.
-/
set_option linter.unusedSimpArgs false
namespace Sqlgrep
open Value

def isPct : Option Aggregator → Bool
  | some (.percentile _ _) => true
  | _ => false

def isPctKind : AggKind → Bool
  | .percentile _ _ => true
  | _ => false

theorem aggUpdate_isPct {a a' : Aggregator} {v : Value} {r : Option Value} (h : aggUpdate a v = .ok (a', r)) :
    isPct (some a') = isPct (some a) := by
  cases a with
  | sum s =>
    simp only [aggUpdate] at h
    obtain ⟨s', _, h2⟩ := bind_ok h
    simp only [pure, Outcome.ok.injEq, Prod.mk.injEq] at h2
    rw [← h2.1]; rfl
  | avg s c =>
    simp only [aggUpdate] at h
    obtain ⟨s', _, h2⟩ := bind_ok h
    simp only [pure, Outcome.ok.injEq, Prod.mk.injEq] at h2
    rw [← h2.1]; rfl
  | stddev s q c b =>
    simp only [aggUpdate] at h
    obtain ⟨_, _, h⟩ := bind_ok h
    obtain ⟨_, _, h⟩ := bind_ok h
    obtain ⟨_, _, h2⟩ := bind_ok h
    simp only [pure, Outcome.ok.injEq, Prod.mk.injEq] at h2
    rw [← h2.1]; rfl
  | percentile xs p =>
    simp only [aggUpdate, pure, Outcome.ok.injEq, Prod.mk.injEq] at h
    rw [← h.1]; rfl
  | boolAnd cur =>
    cases v with
    | bool b => simp only [aggUpdate, pure, Outcome.ok.injEq, Prod.mk.injEq] at h; rw [← h.1]; rfl
    | _ => simp [aggUpdate] at h
  | boolOr cur =>
    cases v with
    | bool b => simp only [aggUpdate, pure, Outcome.ok.injEq, Prod.mk.injEq] at h; rw [← h.1]; rfl
    | _ => simp [aggUpdate] at h
  | countDistinct seen =>
    simp only [aggUpdate] at h
    split at h <;> (simp only [pure, Outcome.ok.injEq, Prod.mk.injEq] at h; rw [← h.1]) <;> rfl

theorem default_notPct {kind : AggKind} (hk : isPctKind kind = false) (v : Value) :
    isPct (some (defaultAggregator kind v)) = false := by
  cases kind <;> simp [isPctKind] at hk <;> rfl

theorem stepV_notPct {kind : AggKind} {v : Value} {c d : Cell} (hk : isPctKind kind = false) (hc : isPct c.agg = false)
    (h : stepV kind v c = .ok d) : isPct d.agg = false := by
  have hdef : isPct (some (c.agg.getD (defaultAggregator kind v))) = false := by
    cases hca : c.agg with
    | none => exact default_notPct hk v
    | some a => rw [hca] at hc; simpa using hc
  cases kind with
  | percentile e p => simp [isPctKind] at hk
  | groupKey e cn => simp only [stepV, Outcome.ok.injEq] at h; rw [← h]; exact hc
  | count col dd =>
    simp only [stepV, stepCount] at h
    split at h
    · obtain ⟨⟨a', r⟩, h1, h2⟩ := obind_ok h
      simp only [Outcome.ok.injEq] at h2
      have hb := bumpIf_extends (validAfter r (countValid col v)) { agg := some a', val := c.val }
      rw [← h2, hb.1]
      rw [aggUpdate_isPct h1]
      cases hca : c.agg with
      | none => rfl
      | some a => rw [hca] at hc; simpa using hc
    · simp only [Outcome.ok.injEq] at h
      have hb := bumpIf_extends (countValid col v) c
      rw [← h, hb.1]; exact hc
  | min e => simp only [stepV] at h; split at h <;> (simp only [Outcome.ok.injEq] at h; rw [← h]; exact hc)
  | max e => simp only [stepV] at h; split at h <;> (simp only [Outcome.ok.injEq] at h; rw [← h]; exact hc)
  | arrayAgg e =>
    simp only [stepV] at h
    split at h
    · simp only [Outcome.ok.injEq] at h; rw [← h]; exact hc
    · simp only [Outcome.ok.injEq] at h; rw [← h]; exact hc
    · split at h
      · simp only [Outcome.ok.injEq] at h; rw [← h]; exact hc
      · simp at h
  | stringAgg e dl =>
    simp only [stepV] at h
    split at h
    · split at h <;> (simp only [Outcome.ok.injEq] at h; rw [← h]; exact hc)
    · simp only [Outcome.ok.injEq] at h; rw [← h]; exact hc
    · simp at h
  | sum e | avg e | stddev e b | boolAnd e | boolOr e =>
    simp only [stepV] at h
    split at h
    · obtain ⟨⟨a', r⟩, h1, h2⟩ := bind_ok h
      have := aggUpdate_isPct h1
      simp only at h2
      split at h2 <;> (simp only [pure, Outcome.ok.injEq] at h2; rw [← h2]; simp only; rw [this]; exact hdef)
    · split at h <;> (simp only [Outcome.ok.injEq] at h; rw [← h]; exact hdef)

/-! ### the coupling after `execute_result` (follow mode) -/

/-- the stored cell `c'` against the ideal fold `c`: identical, except that `publishPercentiles` may have left a
(possibly stale) published value in a PERCENTILE cell — which the next `publishPercentiles` overwrites -/
def CellSim (kind : AggKind) (c' c : Cell) : Prop :=
  match kind with
  | .percentile _ _ =>
    c'.agg = c.agg ∧ c.val = none ∧ (∀ a, c.agg = some a → ∃ xs p, a = .percentile xs p) ∧
      (c'.val = none ∨ ∃ xs p, c.agg = some (.percentile xs p) ∧ xs ≠ [])
  | _ => c' = c ∧ isPct c.agg = false

theorem CellSim.refl_init (kind : AggKind) : CellSim kind {} {} := by
  cases kind <;> simp [CellSim, isPct]

/-- what both cells publish is the same -/
theorem CellSim.published {kind : AggKind} {c' c : Cell} (h : CellSim kind c' c) : published c' = published c := by
  cases kind with
  | percentile e p =>
    obtain ⟨hagg, hval, hshape, hstale⟩ := h
    unfold Sqlgrep.published
    rw [hagg]
    cases ha : c.agg with
    | none =>
      rcases hstale with h1 | ⟨xs, p', h2, _⟩
      · simp [h1, hval]
      · rw [ha] at h2; simp at h2
    | some a =>
      obtain ⟨xs, p', hxs⟩ := hshape a ha
      subst hxs
      simp only
      cases hv : percentileValue xs p' with
      | some v => rfl
      | none =>
        simp only [hval]
        rcases hstale with h1 | ⟨xs', p'', h2, hne⟩
        · exact h1
        · rw [ha] at h2
          simp only [Option.some.injEq, Aggregator.percentile.injEq] at h2
          obtain ⟨h3, _⟩ := h2
          subst h3
          have := percentileValue_isSome xs p'
          rw [hv] at this
          cases xs with
          | nil => exact absurd rfl hne
          | cons _ _ => simp at this
  | _ => simp only [CellSim] at h; rw [h.1]

theorem stepV_percentile_form (e : Expr) (p : Nat) (v : Value) (c : Cell) (xs : List Value) (p0 : Nat)
    (ha : c.agg.getD (defaultAggregator (.percentile e p) v) = .percentile xs p0) :
    stepV (.percentile e p) v c = .ok { c with agg := some (.percentile (if v.isNull then xs else xs ++ [v]) p0) } := by
  simp only [stepV, ha]
  cases hv : v.isNull
  · simp [aggUpdate, bind, Outcome.bind, pure]
  · simp [aggIsNull]

/-- a step of the engine on the stored cell is matched by a step on the ideal cell -/
theorem cellStep_sim {O : Oracles} {q : AggStmt} {env : Env} {kind : AggKind} {c' c d' : Cell} (hs : CellSim kind c' c)
    (h : cellStep O q env kind c' = .ok d') : ∃ d, cellStep O q env kind c = .ok d ∧ CellSim kind d' d := by
  cases kind with
  | percentile e p =>
    obtain ⟨hagg, hval, hshape, hstale⟩ := hs
    rw [cellStep_eq] at h ⊢
    obtain ⟨v, hv, hstep⟩ := obind_ok h
    rw [hv]
    simp only [Outcome.bind]
    -- the aggregator both cells use
    have haggr : ∃ xs p0, c.agg.getD (defaultAggregator (.percentile e p) v) = .percentile xs p0 ∧
        (c.agg = none → xs = []) ∧ (∀ ys q0, c.agg = some (.percentile ys q0) → ys = xs) := by
      cases ha : c.agg with
      | none => exact ⟨[], p, rfl, fun _ => rfl, fun _ _ h => by simp at h⟩
      | some a =>
        obtain ⟨xs, p0, hxs⟩ := hshape a ha
        subst hxs
        exact ⟨xs, p0, rfl, fun h => by simp at h, fun ys q0 h => by simp at h; exact h.1.symm⟩
    obtain ⟨xs, p0, hget, hnone, hsome⟩ := haggr
    have hget' : c'.agg.getD (defaultAggregator (.percentile e p) v) = .percentile xs p0 := by rw [hagg]; exact hget
    rw [stepV_percentile_form e p v c' xs p0 hget'] at hstep
    rw [stepV_percentile_form e p v c xs p0 hget]
    simp only [Outcome.ok.injEq] at hstep
    subst hstep
    refine ⟨_, rfl, rfl, hval, ?_, ?_⟩
    · intro a ha; simp only [Option.some.injEq] at ha; exact ⟨_, _, ha.symm⟩
    · rcases hstale with h1 | ⟨ys, q0, h2, hne⟩
      · exact Or.inl h1
      · right
        have := hsome ys q0 h2
        subst this
        refine ⟨_, _, rfl, ?_⟩
        cases v.isNull <;> simp [hne]
  | _ =>
    simp only [CellSim] at hs
    obtain ⟨he, hp⟩ := hs
    subst he
    refine ⟨d', h, rfl, ?_⟩
    rw [cellStep_eq] at h
    obtain ⟨v, _, hstep⟩ := obind_ok h
    exact stepV_notPct rfl hp hstep

theorem cellFold_sim {O : Oracles} {q : AggStmt} {kind : AggKind} (g : List Env) {c' c d' : Cell} (hs : CellSim kind c' c)
    (h : cellFold O q kind g c' = .ok d') : ∃ d, cellFold O q kind g c = .ok d ∧ CellSim kind d' d := by
  induction g generalizing c' c with
  | nil => simp only [cellFold, Outcome.ok.injEq] at h; subst h; exact ⟨c, rfl, hs⟩
  | cons env rest ih =>
    simp only [cellFold] at h ⊢
    obtain ⟨c1', h1, h2⟩ := obind_ok h
    obtain ⟨c1, hc1, hs1⟩ := cellStep_sim hs h1
    rw [hc1]
    exact ih hs1 h2

/-- the ideal fold from the empty cell is similar to itself -/
theorem cellFold_selfSim {O : Oracles} {q : AggStmt} {kind : AggKind} (g : List Env) {c : Cell}
    (h : cellFold O q kind g {} = .ok c) : CellSim kind c c := by
  obtain ⟨d, hd, hs⟩ := cellFold_sim g (CellSim.refl_init kind) h
  rw [h] at hd
  simp only [Outcome.ok.injEq] at hd
  subst hd
  exact hs

/-- the coupling as it holds in follow mode, where `execute_result` runs between updates: every stored cell is
`CellSim`ilar to the fold of its aggregate over its group's rows -/
structure CoupledP (O : Oracles) (q : AggStmt) (st : AggState) (rows : List (List Value × Env)) : Prop where
  sorted : AggSorted st
  cells : ∀ key i kind, (i, kind) ∈ rowSlots q →
    ∃ c, cellFold O q kind (Spec.Agg.rowsOfKey key rows) {} = .ok c ∧ CellSim kind (readCell st key i) c
  others : ∀ key i, i ∉ (rowSlots q).map (·.1) → readCell st key i = {}
  shape : Shape st (rows.map (·.1))

theorem coupledP_of_coupled {O : Oracles} {q : AggStmt} {st : AggState} {rows : List (List Value × Env)}
    (hc : Coupled O q st rows) : CoupledP O q st rows :=
  ⟨hc.sorted, fun key i kind hm => ⟨_, hc.cells key i kind hm, cellFold_selfSim _ (hc.cells key i kind hm)⟩, hc.others, hc.shape⟩

theorem coupledP_init (O : Oracles) (q : AggStmt) : CoupledP O q {} [] := coupledP_of_coupled (coupled_init O q)

/-- one admitted row keeps the follow-mode coupling -/
theorem coupledP_step {O : Oracles} {q : AggStmt} {st st' : AggState} {rows : List (List Value × Env)} {env : Env} {u : Bool}
    (hc : CoupledP O q st rows) (h : aggUpdateRow O q st env = .ok (st', u)) :
    Spec.Agg.passes O q env = some u ∧
    (u = false → CoupledP O q st' rows) ∧
    (u = true → ∃ key, Spec.Agg.keyOf O q env = some key ∧ CoupledP O q st' (rows ++ [(key, env)])) := by
  obtain ⟨hs', hpass, hfalse, htrue⟩ := aggUpdateRow_cells hc.sorted h
  refine ⟨hpass, ?_, ?_⟩
  · intro hu; rw [hfalse hu]; exact hc
  · intro hu
    obtain ⟨key, hkey, hin, hout, hshape⟩ := htrue hu
    refine ⟨key, hkey, hs', ?_, ?_, ?_⟩
    · intro k' i kind hmem
      obtain ⟨c, hfold, hsim⟩ := hc.cells k' i kind hmem
      rw [rowsOfKey_append, cellFold_append, hfold]
      simp only [Outcome.bind]
      by_cases hk : cmpList key k' = .eq
      · have : Spec.Agg.rowsOfKey k' [(key, env)] = [env] := by
          simp [Spec.Agg.rowsOfKey, Spec.Agg.sameKey, hk]
        rw [this]
        simp only [cellFold]
        have hstep := hin i kind hmem
        rw [readCell_congr st hk i, readCell_congr st' hk i] at hstep
        obtain ⟨d, hd, hsd⟩ := cellStep_sim hsim hstep
        rw [hd]
        exact ⟨d, rfl, hsd⟩
      · have : Spec.Agg.rowsOfKey k' [(key, env)] = [] := by
          simp [Spec.Agg.rowsOfKey, Spec.Agg.sameKey, hk]
        rw [this, hout k' i (Or.inl hk)]
        exact ⟨c, rfl, hsim⟩
    · intro k' i hi
      rw [hout k' i (Or.inr hi)]
      exact hc.others k' i hi
    · apply hshape
      · exact shape_mono hc.shape (fun k hk => by simp [hk])
      · simp

end Sqlgrep
