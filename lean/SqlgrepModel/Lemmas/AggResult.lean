import SqlgrepModel.Lemmas.AggRun
import SqlgrepModel.Lemmas.AggDistinct
/-
The result half of the aggregation engine: `publishPercentiles` (the first loop of `execute_result`) cell by cell,
the enumeration of `group_values`, and the rows of the table against the specification.
-/
set_option linter.unusedSimpArgs false
namespace Sqlgrep
open Value Spec.Agg

/-! ### lookups by membership -/

theorem gmGet_of_mem {α : Type} {m : GroupMap α} (hs : GmSorted m) {key : List Value} {subs : List (Nat × α)}
    (h : (key, subs) ∈ m) : gmGet m key = some subs := by
  induction m with
  | nil => simp at h
  | cons g rest ih =>
    unfold GmSorted at hs
    simp only [List.map_cons, List.pairwise_cons] at hs
    rcases List.mem_cons.mp h with h | h
    · subst h
      simp [gmGet, List.find?, cmpList_refl]
    · have hlt : cmpList g.1 key = .lt := hs.1 key (List.mem_map.mpr ⟨(key, subs), h, rfl⟩)
      have := ih hs.2 h
      simp only [gmGet, List.find?, hlt] at this ⊢
      simpa using this

theorem alGet_of_mem {α : Type} {l : List (Nat × α)} (hn : (l.map (·.1)).Nodup) {i : Nat} {a : α}
    (h : (i, a) ∈ l) : alGet l i = some a := by
  induction l with
  | nil => simp at h
  | cons p ps ih =>
    simp only [List.map_cons, List.nodup_cons] at hn
    rw [alGet_cons]
    rcases List.mem_cons.mp h with h | h
    · subst h; simp
    · have : p.1 ≠ i := by
        intro he
        exact hn.1 (List.mem_map.mpr ⟨(i, a), h, he.symm⟩)
      simp only [this, if_false]
      exact ih hn.2 h

theorem gmGet_some_mem {α : Type} {m : GroupMap α} {k : List Value} {subs : List (Nat × α)}
    (h : gmGet m k = some subs) : ∃ key, (key, subs) ∈ m ∧ cmpList key k = .eq := by
  unfold gmGet at h
  cases hf : m.find? (fun g => cmpList g.1 k == .eq) with
  | none => simp [hf] at h
  | some g =>
    simp only [hf, Option.map_some, Option.some.injEq] at h
    have hp := List.find?_some hf
    have hm := List.mem_of_find?_eq_some hf
    refine ⟨g.1, ?_, by simpa using hp⟩
    rw [← h]; exact hm

theorem alGet_some_mem {α : Type} {l : List (Nat × α)} {i : Nat} {a : α} (h : alGet l i = some a) : (i, a) ∈ l := by
  unfold alGet at h
  cases hf : l.find? (fun p => p.1 == i) with
  | none => simp [hf] at h
  | some p =>
    simp only [hf, Option.map_some, Option.some.injEq] at h
    have hp := List.find?_some hf
    have hm := List.mem_of_find?_eq_some hf
    have : p = (i, a) := by
      obtain ⟨p1, p2⟩ := p
      simp only [beq_iff_eq] at hp
      simp only at h
      simp [hp, h]
    rw [← this]; exact hm

/-! ### `publishPercentiles` -/

def pubOf (key : List Value) (p : Nat × Aggregator) : Option (List Value × Nat × Value) :=
  match p.2 with
  | .percentile vals pp => (percentileValue vals pp).map (fun v => (key, p.1, v))
  | _ => none

/-- the `(group key, aggregate index, value)` triples the first loop of `execute_result` writes -/
def pubEntries (aggs : GroupMap Aggregator) : List (List Value × Nat × Value) :=
  aggs.flatMap (fun g => g.2.filterMap (pubOf g.1))

def applyPubs (st : AggState) (es : List (List Value × Nat × Value)) : AggState :=
  es.foldl (fun st e => setVal st e.1 e.2.1 e.2.2) st

theorem applyPubs_append (st : AggState) (a b : List (List Value × Nat × Value)) :
    applyPubs st (a ++ b) = applyPubs (applyPubs st a) b := by
  simp [applyPubs, List.foldl_append]

def pubInner (key : List Value) (st : AggState) (p : Nat × Aggregator) : AggState :=
  match p.2 with
  | .percentile vals pp =>
    match percentileValue vals pp with
    | some v => setVal st key p.1 v
    | none => st
  | _ => st

def pubOuter (st : AggState) (g : List Value × List (Nat × Aggregator)) : AggState := g.2.foldl (pubInner g.1) st

theorem publish_fold (st : AggState) : publishPercentiles st = st.aggs.foldl pubOuter st := rfl

theorem publish_inner (key : List Value) (subs : List (Nat × Aggregator)) (st : AggState) :
    subs.foldl (pubInner key) st = applyPubs st (subs.filterMap (pubOf key)) := by
  induction subs generalizing st with
  | nil => rfl
  | cons p ps ih =>
    obtain ⟨idx, a⟩ := p
    simp only [List.foldl_cons, List.filterMap_cons, pubOf, pubInner]
    cases a with
    | percentile vals pp =>
      cases hv : percentileValue vals pp with
      | none => simp only [hv, Option.map_none]; exact ih st
      | some v => simp only [hv, Option.map_some, applyPubs, List.foldl_cons]; exact ih _
    | _ => exact ih st

theorem publish_eq (st : AggState) : publishPercentiles st = applyPubs st (pubEntries st.aggs) := by
  rw [publish_fold]
  generalize st.aggs = aggs
  induction aggs generalizing st with
  | nil => rfl
  | cons g rest ih =>
    simp only [List.foldl_cons, pubEntries, List.flatMap_cons, applyPubs_append, pubOuter]
    rw [publish_inner]
    exact ih _

theorem applyPubs_aggs (st : AggState) (es : List (List Value × Nat × Value)) : (applyPubs st es).aggs = st.aggs := by
  induction es generalizing st with
  | nil => rfl
  | cons e es ih => simp only [applyPubs, List.foldl_cons] at ih ⊢; rw [ih]; rfl

theorem applyPubs_vals (st : AggState) (es : List (List Value × Nat × Value)) :
    (applyPubs st es).vals = es.foldl (fun m e => gmSet m e.1 e.2.1 e.2.2) st.vals := by
  induction es generalizing st with
  | nil => rfl
  | cons e es ih => simp only [applyPubs, List.foldl_cons] at ih ⊢; rw [ih]; rfl

def pubMatches (k : List Value) (i : Nat) (e : List Value × Nat × Value) : Bool := cmpList e.1 k == .eq && e.2.1 == i

theorem foldSet_sorted {α : Type} (es : List (List Value × Nat × α)) {m : GroupMap α} (hs : GmSorted m) :
    GmSorted (es.foldl (fun m e => gmSet m e.1 e.2.1 e.2.2) m) := by
  induction es generalizing m with
  | nil => exact hs
  | cons e es ih => exact ih (gmSorted_gmModify hs _ _)

/-- lookups after a series of writes: the last matching write, else the old content -/
theorem gmLookup_foldSet (es : List (List Value × Nat × Value)) {m : GroupMap Value} (hs : GmSorted m) (k : List Value) (i : Nat) :
    gmLookup (es.foldl (fun m e => gmSet m e.1 e.2.1 e.2.2) m) k i =
      match es.reverse.find? (pubMatches k i) with
      | some e => some e.2.2
      | none => gmLookup m k i := by
  induction es generalizing m with
  | nil => rfl
  | cons e es ih =>
    simp only [List.foldl_cons, List.reverse_cons, List.find?_append]
    have hs' : GmSorted (gmSet m e.1 e.2.1 e.2.2) := gmSorted_gmModify hs _ _
    rw [ih hs']
    cases hf : es.reverse.find? (pubMatches k i) with
    | some e' => rfl
    | none =>
      simp only [Option.none_or, List.find?, pubMatches]
      rw [gmLookup_gmSet hs]
      by_cases hc : cmpList e.1 k = .eq ∧ e.2.1 = i
      · simp [hc.1, hc.2]
      · simp only [hc, if_false]
        have : (cmpList e.1 k == .eq && e.2.1 == i) = false := by
          cases h1 : cmpList e.1 k == .eq <;> cases h2 : e.2.1 == i <;> simp_all
        simp [this]

theorem pubEntries_mem {aggs : GroupMap Aggregator} {e : List Value × Nat × Value} (h : e ∈ pubEntries aggs) :
    ∃ subs vals pp, (e.1, subs) ∈ aggs ∧ (e.2.1, Aggregator.percentile vals pp) ∈ subs ∧ percentileValue vals pp = some e.2.2 := by
  simp only [pubEntries, List.mem_flatMap, List.mem_filterMap] at h
  obtain ⟨g, hg, p, hp, hpo⟩ := h
  obtain ⟨idx, a⟩ := p
  cases a with
  | percentile vals pp =>
    simp only [pubOf] at hpo
    cases hv : percentileValue vals pp with
    | none => simp [hv] at hpo
    | some v =>
      simp only [hv, Option.map_some, Option.some.injEq] at hpo
      subst hpo
      exact ⟨g.2, vals, pp, hg, hp, hv⟩
  | _ => simp [pubOf] at hpo

theorem pubEntries_of_mem {aggs : GroupMap Aggregator} {key : List Value} {subs : List (Nat × Aggregator)} {i : Nat}
    {vals : List Value} {pp : Nat} {v : Value}
    (hg : (key, subs) ∈ aggs) (hp : (i, Aggregator.percentile vals pp) ∈ subs) (hv : percentileValue vals pp = some v) :
    (key, i, v) ∈ pubEntries aggs := by
  simp only [pubEntries, List.mem_flatMap, List.mem_filterMap]
  exact ⟨(key, subs), hg, (i, .percentile vals pp), hp, by simp [pubOf, hv]⟩

/-- **`publishPercentiles`, cell by cell**: aggregators are untouched; the stored value of a cell becomes what the
cell publishes (a percentile aggregator with at least one value overrides, every other cell keeps its value) -/
theorem readCell_publish {st : AggState} (hs : AggSorted st) (hinner : ∀ g ∈ st.aggs, (g.2.map (·.1)).Nodup)
    (k : List Value) (i : Nat) :
    readCell (publishPercentiles st) k i = { agg := (readCell st k i).agg, val := published (readCell st k i) } := by
  rw [publish_eq]
  simp only [readCell, applyPubs_aggs, applyPubs_vals, gmLookup_foldSet _ hs.vals, Cell.mk.injEq, true_and]
  -- every matching entry carries the value the cell's aggregator publishes
  have hall : ∀ e ∈ pubEntries st.aggs, pubMatches k i e = true →
      ∃ vals pp, gmLookup st.aggs k i = some (.percentile vals pp) ∧ percentileValue vals pp = some e.2.2 := by
    intro e he hm
    obtain ⟨subs, vals, pp, hg, hp, hv⟩ := pubEntries_mem he
    simp only [pubMatches, Bool.and_eq_true, beq_iff_eq] at hm
    refine ⟨vals, pp, ?_, hv⟩
    have h1 : gmGet st.aggs k = some subs := by
      rw [← gmGet_congr st.aggs hm.1]; exact gmGet_of_mem hs.aggs hg
    have h2 : alGet subs i = some (.percentile vals pp) := by
      rw [← hm.2]; exact alGet_of_mem (hinner _ hg) hp
    simp [gmLookup, h1, h2]
  cases hf : (pubEntries st.aggs).reverse.find? (pubMatches k i) with
  | some e =>
    have hmem : e ∈ pubEntries st.aggs := List.mem_reverse.mp (List.mem_of_find?_eq_some hf)
    obtain ⟨vals, pp, hl, hv⟩ := hall e hmem (List.find?_some hf)
    simp [published, hl, hv]
  | none =>
    simp only
    -- no entry: the cell's aggregator publishes nothing
    unfold published
    simp only
    cases hl : gmLookup st.aggs k i with
    | none => rfl
    | some a =>
      cases a with
      | percentile vals pp =>
        cases hv : percentileValue vals pp with
        | none => simp [hv]
        | some v =>
          exfalso
          simp only [gmLookup, Option.bind] at hl
          cases hg : gmGet st.aggs k with
          | none => simp [hg] at hl
          | some subs =>
            simp only [hg] at hl
            obtain ⟨key, hkm, hke⟩ := gmGet_some_mem hg
            have hin := pubEntries_of_mem hkm (alGet_some_mem hl) hv
            have := List.find?_eq_none.mp hf (key, i, v) (List.mem_reverse.mpr hin)
            simp [pubMatches, hke] at this
      | _ => rfl

theorem aggSorted_publish {st : AggState} (hs : AggSorted st) : AggSorted (publishPercentiles st) := by
  rw [publish_eq]
  refine ⟨?_, ?_⟩
  · rw [applyPubs_aggs]; exact hs.aggs
  · rw [applyPubs_vals]; exact foldSet_sorted _ hs.vals

theorem shape_publish {st : AggState} {S : List (List Value)} (h : Shape st S) : Shape (publishPercentiles st) S := by
  rw [publish_eq]
  have : ∀ (es : List (List Value × Nat × Value)) (st : AggState), Shape st S → (∀ e ∈ es, e.1 ∈ S) → Shape (applyPubs st es) S := by
    intro es
    induction es with
    | nil => intro st h _; exact h
    | cons e es ih =>
      intro st h he
      simp only [applyPubs, List.foldl_cons]
      exact ih _ (shape_setVal h (he e (by simp)) _ _) (fun e' he' => he e' (by simp [he']))
  apply this _ _ h
  intro e he
  obtain ⟨subs, _, _, hg, _, _⟩ := pubEntries_mem he
  exact h.aggsKeys _ hg

end Sqlgrep
