import SqlgrepModel.Lemmas.ParseFuel
/-
Fuel / progress lemmas for the statement parser (`Model/ParseStmt.lean`), on top of `fuelIH_all`.
Loops: `3·remaining + 1 ≤ fuel` suffices; functions without a loop of their own: `3·remaining ≤ fuel`.
-/
namespace Sqlgrep
namespace Parse

theorem parseExpr_adv (T : PrecTables) (fuel : Nat) (s : PSt) (h : 3 * s.remaining ≤ fuel) :
    (parseExpr T fuel s).Adv s.remaining := (fuelIH_all T fuel).e s h

theorem parsePrimary_adv (T : PrecTables) (fuel : Nat) (s : PSt) (h : 3 * s.remaining ≤ fuel + 2) :
    (parsePrimary T fuel s).Adv s.remaining := (fuelIH_all T fuel).p s h

theorem adv_ok {α : Type} {a : α} {s : PSt} {n : Nat} (h : s.remaining < n) : (PRes.ok a s).Adv n := by
  simp [PRes.Adv]; omega
theorem keep_ok {α : Type} {a : α} {s : PSt} {n : Nat} (h : s.remaining ≤ n) : (PRes.ok a s).Keep n := by
  simp [PRes.Keep]; omega

/-- leaves at statement level -/
macro "sleaf" "[" ls:Lean.Parser.Tactic.grindParam,* "]" : tactic => `(tactic| first
  | exact adv_err _ _ _
  | exact keep_err _ _ _
  | exact adv_mkErr _ _ _
  | exact keep_mkErr _ _ _
  | exact absurd ‹_ = PRes.fuel› (next_nofuel _)
  | exact absurd ‹_ = PRes.fuel› (expectConsume_nofuel _ _ _)
  | exact absurd ‹_ = PRes.fuel› (consumeIdentifier_nofuel _)
  | grind [PRes.Adv, PRes.Keep, mkErr, next_ok, next_nofuel, expectConsume_ok, expectConsume_nofuel,
           consumeIdentifier_ok, consumeIdentifier_nofuel, rem_pos, consumeString_ok, consumeString_nofuel,
           consumeInt_ok, consumeInt_nofuel, expectConsumeOp_ok, expectConsumeOp_nofuel, $ls,*])

theorem parseJoin_adv (b : Bool) (s : PSt) : (parseJoin b s).Adv s.remaining := by
  unfold parseJoin
  psplit
  all_goals sleaf []

theorem optAlias_keep (s : PSt) : (optAlias s).Keep s.remaining := by
  unfold optAlias
  psplit
  all_goals sleaf []

theorem optDistinct_keep (s : PSt) : (optDistinct s).Keep s.remaining := by
  unfold optDistinct
  psplit
  all_goals sleaf []

theorem optFile_keep (s : PSt) : (optFile s).Keep s.remaining := by
  unfold optFile
  psplit
  all_goals sleaf []

theorem optSemi_keep (s : PSt) : (optSemi s).Keep s.remaining := by
  unfold optSemi
  psplit
  all_goals sleaf []

theorem parseRegexMode_keep (s : PSt) : (parseRegexMode s).Keep s.remaining := by
  unfold parseRegexMode
  psplit
  all_goals sleaf []

theorem projLoop_adv (T : PrecTables) : ∀ fuel acc s, 3 * s.remaining + 1 ≤ fuel →
    (projLoop T fuel acc s).Adv s.remaining := by
  intro fuel
  induction fuel with
  | zero => intro acc s h; omega
  | succ n ih =>
    intro acc s h
    rw [projLoop]
    psplit
    all_goals sleaf [parseExpr_adv, optAlias_keep]

theorem groupKeysLoop_keep (T : PrecTables) : ∀ fuel acc s, 3 * s.remaining + 1 ≤ fuel →
    (groupKeysLoop T fuel acc s).Keep s.remaining := by
  intro fuel
  induction fuel with
  | zero => intro acc s h; omega
  | succ n ih =>
    intro acc s h
    rw [groupKeysLoop]
    psplit
    all_goals sleaf [parseExpr_adv]

theorem clauseTurn_adv (T : PrecTables) (fuel : Nat) (c : Clauses) (s : PSt) (h : 3 * s.remaining ≤ fuel) :
    (clauseTurn T fuel c s).Adv s.remaining := by
  unfold clauseTurn
  psplit
  all_goals sleaf [parseExpr_adv, parseJoin_adv, groupKeysLoop_keep]

theorem clauseLoop_adv (T : PrecTables) : ∀ fuel c s, 3 * s.remaining + 1 ≤ fuel →
    (clauseLoop T fuel c s).Adv s.remaining := by
  intro fuel
  induction fuel with
  | zero => intro c s h; omega
  | succ n ih =>
    intro c s h
    rw [clauseLoop]
    psplit
    all_goals sleaf [clauseTurn_adv]

theorem clauses_keep (T : PrecTables) (fuel : Nat) (s : PSt) (h : 3 * s.remaining + 1 ≤ fuel) :
    (clauses T fuel s).Keep s.remaining := by
  unfold clauses
  psplit
  all_goals sleaf [clauseLoop_adv]

theorem parseSelect_adv (T : PrecTables) (fuel : Nat) (s : PSt) (h : 3 * s.remaining ≤ fuel) :
    (parseSelect T fuel s).Adv s.remaining := by
  unfold parseSelect
  psplit
  all_goals sleaf [optDistinct_keep, projLoop_adv, optFile_keep, clauses_keep]

theorem typeBrackets_keep : ∀ fuel n s, 3 * s.remaining + 1 ≤ fuel → (typeBrackets fuel n s).Keep s.remaining := by
  intro fuel
  induction fuel with
  | zero => intro n s h; omega
  | succ m ih =>
    intro n s h
    rw [typeBrackets]
    psplit
    all_goals sleaf []

theorem parseType_adv (fuel : Nat) (s : PSt) (h : 3 * s.remaining ≤ fuel) : (parseType fuel s).Adv s.remaining := by
  unfold parseType
  psplit
  all_goals sleaf [typeBrackets_keep]

theorem parseDefineColumn_adv (T : PrecTables) (fuel : Nat) (p : PColParsing) (s : PSt) (h : 3 * s.remaining ≤ fuel) :
    (parseDefineColumn T fuel p s).Adv s.remaining := by
  unfold parseDefineColumn
  psplit
  all_goals sleaf [parseType_adv, parsePrimary_adv]

theorem refLoop_adv : ∀ fuel acc s, 3 * s.remaining + 1 ≤ fuel → (refLoop fuel acc s).Adv s.remaining := by
  intro fuel
  induction fuel with
  | zero => intro acc s h; omega
  | succ m ih =>
    intro acc s h
    rw [refLoop]
    psplit
    all_goals sleaf []

theorem optRefs_keep (fuel : Nat) (first : PRegexRef) (s : PSt) (h : 3 * s.remaining + 1 ≤ fuel) :
    (optRefs fuel first s).Keep s.remaining := by
  unfold optRefs
  psplit
  all_goals sleaf [refLoop_adv]

theorem jsonLoop_adv : ∀ fuel acc s, 3 * s.remaining + 1 ≤ fuel → (jsonLoop fuel acc s).Adv s.remaining := by
  intro fuel
  induction fuel with
  | zero => intro acc s h; omega
  | succ m ih =>
    intro acc s h
    rw [jsonLoop]
    psplit
    all_goals sleaf []

theorem colItem_adv (T : PrecTables) (fuel : Nat) (ps : Patterns) (cs : List PColDef) (s : PSt)
    (h : 3 * s.remaining ≤ fuel) : (colItem T fuel ps cs s).Adv s.remaining := by
  unfold colItem
  psplit
  all_goals sleaf [parseRegexMode_keep, optRefs_keep, parseDefineColumn_adv, jsonLoop_adv]

theorem colLoop_adv (T : PrecTables) : ∀ fuel ps cs s, 3 * s.remaining + 1 ≤ fuel →
    (colLoop T fuel ps cs s).Adv s.remaining := by
  intro fuel
  induction fuel with
  | zero => intro ps cs s h; omega
  | succ n ih =>
    intro ps cs s h
    rw [colLoop]
    psplit
    all_goals sleaf [colItem_adv]

theorem parseCreateTable_adv (T : PrecTables) (fuel : Nat) (s : PSt) (h : 3 * s.remaining ≤ fuel) :
    (parseCreateTable T fuel s).Adv s.remaining := by
  unfold parseCreateTable
  psplit
  all_goals sleaf [colLoop_adv]

theorem multiCreateLoop_adv (T : PrecTables) : ∀ fuel acc s, 3 * s.remaining + 1 ≤ fuel →
    (multiCreateLoop T fuel acc s).Adv s.remaining := by
  intro fuel
  induction fuel with
  | zero => intro acc s h; omega
  | succ n ih =>
    intro acc s h
    rw [multiCreateLoop]
    psplit
    all_goals sleaf [parseCreateTable_adv]

theorem parseStatement_adv (T : PrecTables) (fuel : Nat) (s : PSt) (h : 3 * s.remaining + 1 ≤ fuel) :
    (parseStatement T fuel s).Adv s.remaining := by
  unfold parseStatement
  psplit
  all_goals sleaf [parseSelect_adv, multiCreateLoop_adv]

theorem parseOp_nofuel (T : PrecTables) (fuel : Nat) (s : PSt) (h : 3 * s.remaining + 1 ≤ fuel) :
    parseOp T fuel s ≠ .fuel := by
  unfold parseOp
  psplit
  all_goals first
    | simp [mkErr]; done
    | (have := parseStatement_adv T fuel s h; have := optSemi_keep; grind [PRes.Adv, PRes.Keep, mkErr])

end Parse
end Sqlgrep
