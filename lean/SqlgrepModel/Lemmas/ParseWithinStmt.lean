import SqlgrepModel.Lemmas.ParseWithin
/-
Location lemmas for the statement parser (`Model/ParseStmt.lean`), on top of `locIH_all`: every function keeps the
state a suffix of the token vector and reports errors at token locations.
-/
namespace Sqlgrep
namespace Parse

theorem parseExpr_within {T : PrecTables} {fuel : Nat} {s : PSt} {toks} (h : s.Suffix toks) :
    (parseExpr T fuel s).Within toks := (locIH_all T toks fuel).e s h
theorem parsePrimary_within {T : PrecTables} {fuel : Nat} {s : PSt} {toks} (h : s.Suffix toks) :
    (parsePrimary T fuel s).Within toks := (locIH_all T toks fuel).p s h

grind_pattern parseExpr_within => parseExpr T fuel s, s.Suffix toks
grind_pattern parsePrimary_within => parsePrimary T fuel s, s.Suffix toks

theorem parseJoin_within {b : Bool} {s : PSt} {toks} (h : s.Suffix toks) : (parseJoin b s).Within toks := by
  unfold parseJoin
  psplit
  all_goals lleaf []
grind_pattern parseJoin_within => parseJoin b s, s.Suffix toks

theorem optAlias_within {s : PSt} {toks} (h : s.Suffix toks) : (optAlias s).Within toks := by
  unfold optAlias
  psplit
  all_goals lleaf []
grind_pattern optAlias_within => optAlias s, s.Suffix toks

theorem optDistinct_within {s : PSt} {toks} (h : s.Suffix toks) : (optDistinct s).Within toks := by
  unfold optDistinct
  psplit
  all_goals lleaf []
grind_pattern optDistinct_within => optDistinct s, s.Suffix toks

theorem optFile_within {s : PSt} {toks} (h : s.Suffix toks) : (optFile s).Within toks := by
  unfold optFile
  psplit
  all_goals lleaf []
grind_pattern optFile_within => optFile s, s.Suffix toks

theorem optSemi_within {s : PSt} {toks} (h : s.Suffix toks) : (optSemi s).Within toks := by
  unfold optSemi
  psplit
  all_goals lleaf []
grind_pattern optSemi_within => optSemi s, s.Suffix toks

theorem parseRegexMode_within {s : PSt} {toks} (h : s.Suffix toks) : (parseRegexMode s).Within toks := by
  unfold parseRegexMode
  psplit
  all_goals lleaf []
grind_pattern parseRegexMode_within => parseRegexMode s, s.Suffix toks

theorem projLoop_within {T : PrecTables} {toks} : ∀ fuel acc s, s.Suffix toks → (projLoop T fuel acc s).Within toks := by
  intro fuel
  induction fuel with
  | zero => intro acc s h; rw [projLoop]; exact within_fuel
  | succ n ih =>
    intro acc s h
    rw [projLoop]
    psplit
    all_goals lleaf []
grind_pattern projLoop_within => projLoop T fuel acc s, s.Suffix toks

theorem groupKeysLoop_within {T : PrecTables} {toks} : ∀ fuel acc s, s.Suffix toks →
    (groupKeysLoop T fuel acc s).Within toks := by
  intro fuel
  induction fuel with
  | zero => intro acc s h; rw [groupKeysLoop]; exact within_fuel
  | succ n ih =>
    intro acc s h
    rw [groupKeysLoop]
    psplit
    all_goals lleaf []
grind_pattern groupKeysLoop_within => groupKeysLoop T fuel acc s, s.Suffix toks

theorem clauseTurn_within {T : PrecTables} {fuel : Nat} {c : Clauses} {s : PSt} {toks} (h : s.Suffix toks) :
    (clauseTurn T fuel c s).Within toks := by
  unfold clauseTurn
  psplit
  all_goals lleaf []
grind_pattern clauseTurn_within => clauseTurn T fuel c s, s.Suffix toks

theorem clauseLoop_within {T : PrecTables} {toks} : ∀ fuel c s, s.Suffix toks → (clauseLoop T fuel c s).Within toks := by
  intro fuel
  induction fuel with
  | zero => intro c s h; rw [clauseLoop]; exact within_fuel
  | succ n ih =>
    intro c s h
    rw [clauseLoop]
    psplit
    all_goals lleaf []
grind_pattern clauseLoop_within => clauseLoop T fuel c s, s.Suffix toks

theorem clauses_within {T : PrecTables} {fuel : Nat} {s : PSt} {toks} (h : s.Suffix toks) :
    (clauses T fuel s).Within toks := by
  unfold clauses
  psplit
  all_goals lleaf []
grind_pattern clauses_within => clauses T fuel s, s.Suffix toks

theorem parseSelect_within {T : PrecTables} {fuel : Nat} {s : PSt} {toks} (h : s.Suffix toks) :
    (parseSelect T fuel s).Within toks := by
  unfold parseSelect
  psplit
  all_goals lleaf []
grind_pattern parseSelect_within => parseSelect T fuel s, s.Suffix toks

theorem typeBrackets_within {toks} : ∀ fuel n s, s.Suffix toks → (typeBrackets fuel n s).Within toks := by
  intro fuel
  induction fuel with
  | zero => intro n s h; rw [typeBrackets]; exact within_fuel
  | succ m ih =>
    intro n s h
    rw [typeBrackets]
    psplit
    all_goals lleaf []
grind_pattern typeBrackets_within => typeBrackets fuel n s, s.Suffix toks

theorem parseType_within {fuel : Nat} {s : PSt} {toks} (h : s.Suffix toks) : (parseType fuel s).Within toks := by
  unfold parseType
  psplit
  all_goals lleaf []
grind_pattern parseType_within => parseType fuel s, s.Suffix toks

theorem parseDefineColumn_within {T : PrecTables} {fuel : Nat} {p : PColParsing} {s : PSt} {toks} (h : s.Suffix toks) :
    (parseDefineColumn T fuel p s).Within toks := by
  unfold parseDefineColumn
  psplit
  all_goals lleaf []
grind_pattern parseDefineColumn_within => parseDefineColumn T fuel p s, s.Suffix toks

theorem refLoop_within {toks} : ∀ fuel acc s, s.Suffix toks → (refLoop fuel acc s).Within toks := by
  intro fuel
  induction fuel with
  | zero => intro acc s h; rw [refLoop]; exact within_fuel
  | succ m ih =>
    intro acc s h
    rw [refLoop]
    psplit
    all_goals lleaf []
grind_pattern refLoop_within => refLoop fuel acc s, s.Suffix toks

theorem optRefs_within {fuel : Nat} {first : PRegexRef} {s : PSt} {toks} (h : s.Suffix toks) :
    (optRefs fuel first s).Within toks := by
  unfold optRefs
  psplit
  all_goals lleaf []
grind_pattern optRefs_within => optRefs fuel first s, s.Suffix toks

theorem jsonLoop_within {toks} : ∀ fuel acc s, s.Suffix toks → (jsonLoop fuel acc s).Within toks := by
  intro fuel
  induction fuel with
  | zero => intro acc s h; rw [jsonLoop]; exact within_fuel
  | succ m ih =>
    intro acc s h
    rw [jsonLoop]
    psplit
    all_goals lleaf []
grind_pattern jsonLoop_within => jsonLoop fuel acc s, s.Suffix toks

theorem colItem_within {T : PrecTables} {fuel : Nat} {ps : Patterns} {cs : List PColDef} {s : PSt} {toks}
    (h : s.Suffix toks) : (colItem T fuel ps cs s).Within toks := by
  unfold colItem
  psplit
  all_goals lleaf []
grind_pattern colItem_within => colItem T fuel ps cs s, s.Suffix toks

theorem colLoop_within {T : PrecTables} {toks} : ∀ fuel ps cs s, s.Suffix toks → (colLoop T fuel ps cs s).Within toks := by
  intro fuel
  induction fuel with
  | zero => intro ps cs s h; rw [colLoop]; exact within_fuel
  | succ n ih =>
    intro ps cs s h
    rw [colLoop]
    psplit
    all_goals lleaf []
grind_pattern colLoop_within => colLoop T fuel ps cs s, s.Suffix toks

theorem parseCreateTable_within {T : PrecTables} {fuel : Nat} {s : PSt} {toks} (h : s.Suffix toks) :
    (parseCreateTable T fuel s).Within toks := by
  unfold parseCreateTable
  psplit
  all_goals lleaf []
grind_pattern parseCreateTable_within => parseCreateTable T fuel s, s.Suffix toks

theorem multiCreateLoop_within {T : PrecTables} {toks} : ∀ fuel acc s, s.Suffix toks →
    (multiCreateLoop T fuel acc s).Within toks := by
  intro fuel
  induction fuel with
  | zero => intro acc s h; rw [multiCreateLoop]; exact within_fuel
  | succ n ih =>
    intro acc s h
    rw [multiCreateLoop]
    psplit
    all_goals lleaf []
grind_pattern multiCreateLoop_within => multiCreateLoop T fuel acc s, s.Suffix toks

theorem parseStatement_within {T : PrecTables} {fuel : Nat} {s : PSt} {toks} (h : s.Suffix toks) :
    (parseStatement T fuel s).Within toks := by
  unfold parseStatement
  psplit
  all_goals lleaf []
grind_pattern parseStatement_within => parseStatement T fuel s, s.Suffix toks

theorem parseOp_within {T : PrecTables} {fuel : Nat} {s : PSt} {toks} (h : s.Suffix toks) :
    (parseOp T fuel s).Within toks := by
  unfold parseOp
  psplit
  all_goals lleaf []

end Parse
end Sqlgrep
