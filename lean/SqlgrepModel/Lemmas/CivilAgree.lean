import SqlgrepModel.Model.CivilE
import SqlgrepModel.Lemmas.Civil
/-
One calendar. The project carries two models of chrono's proleptic Gregorian day numbering:

* `Sqlgrep.Civil`  (table-driven: `daysBeforeYear` + `daysBeforeMonth`; used by extraction, `Lit.mkTimestamp`, C01) with
  the proved round trip `Civil.civilOfDays_daysFromCE`;
* `Sqlgrep.CivilE` (Hinnant's closed forms over the March-based year; used by the evaluator: `createTimestamp`,
  `tsField`, `dateTrunc`, `display`).

This file proves that they are the same function wherever chrono defines one:
`validDate_eq`, `daysFromCE_eq` (all valid dates), `civilOfDays_eq` (every day number of chrono's range), and derives
what the evaluator theorems need: both directions of the round trip for `CivilE`, monotonicity of the day number,
and that the day numbers of valid dates are exactly `dayMin ..= dayMax`.
-/
namespace Sqlgrep.CivilE

/-! ### leap years, month lengths, validity -/

theorem isLeap_eq (y : Int) : isLeap y = Civil.isLeap y := by
  unfold isLeap Civil.isLeap
  rw [Bool.eq_iff_iff]
  simp only [Bool.and_eq_true, Bool.or_eq_true, beq_iff_eq, bne_iff_ne, ne_eq]
  omega

theorem isLeap_iff (y : Int) : isLeap y = true ↔ (y % 4 = 0 ∧ y % 100 ≠ 0) ∨ y % 400 = 0 := by
  unfold isLeap
  simp only [Bool.and_eq_true, Bool.or_eq_true, beq_iff_eq, bne_iff_ne, ne_eq]

theorem twelve (m : Nat) (h : 1 ≤ m ∧ m ≤ 12) :
    m = 1 ∨ m = 2 ∨ m = 3 ∨ m = 4 ∨ m = 5 ∨ m = 6 ∨ m = 7 ∨ m = 8 ∨ m = 9 ∨ m = 10 ∨ m = 11 ∨ m = 12 := by
  omega

theorem daysInMonth_eq (y : Int) (m : Nat) (hm : 1 ≤ m ∧ m ≤ 12) :
    daysInMonth y (m : Int) = (Civil.monthLen y m : Int) := by
  unfold daysInMonth Civil.monthLen
  rw [isLeap_eq]
  rcases twelve m hm with h | h | h | h | h | h | h | h | h | h | h | h <;> subst h <;>
    cases Civil.isLeap y <;> rfl

/-- the two validity predicates (chrono's `NaiveDate::from_ymd_opt(..).is_some()`) agree on every argument -/
theorem validDate_eq (y : Int) (m d : Nat) : validDate y (m : Int) (d : Int) = Civil.validDate y m d := by
  unfold validDate Civil.validDate Civil.minYear Civil.maxYear
  by_cases hm : 1 ≤ m ∧ m ≤ 12
  · rw [daysInMonth_eq y m hm, Bool.eq_iff_iff]
    simp only [Bool.and_eq_true, decide_eq_true_eq]
    omega
  · rw [Bool.eq_iff_iff]
    simp only [Bool.and_eq_true, decide_eq_true_eq]
    omega

/-- a valid date has natural-number month and day -/
theorem validDate_nat (y m d : Int) (h : validDate y m d = true) :
    m = ((m.toNat : Nat) : Int) ∧ d = ((d.toNat : Nat) : Int) ∧ Civil.validDate y m.toNat d.toNat = true := by
  have h' := h
  unfold validDate at h
  simp only [Bool.and_eq_true, decide_eq_true_eq] at h
  have hm : m = ((m.toNat : Nat) : Int) := by omega
  have hd : d = ((d.toNat : Nat) : Int) := by omega
  refine ⟨hm, hd, ?_⟩
  rw [← validDate_eq, ← hm, ← hd]
  exact h'

/-! ### day numbers -/

/-- the two `num_days_from_ce` agree for every month 1..12 (any day, any year) -/
theorem daysFromCE_eq (y : Int) (m d : Nat) (hm : 1 ≤ m ∧ m ≤ 12) :
    daysFromCE y (m : Int) (d : Int) = Civil.daysFromCE y m d := by
  unfold daysFromCE Civil.daysFromCE Civil.daysBeforeYear Civil.daysBeforeMonth
  have hl := Civil.isLeap_iff y
  rcases twelve m hm with h | h | h | h | h | h | h | h | h | h | h | h <;> subst h <;>
    cases hL : Civil.isLeap y <;> simp only [hL, Bool.false_eq_true, false_iff, true_iff, if_true, if_false] at hl ⊢ <;>
    omega

/-! ### Hinnant's inverse: `civilOfDays n` is a valid month/day whose day number is `n` -/

/-- every day-of-era `N` (0 ..= 146096) is `36524 b + 1461 c + 365 d + k`: century, 4-year cycle, year, day of year -/
theorem doe_decomp (N : Int) (h : 0 ≤ N ∧ N ≤ 146096) :
    ∃ b c d k : Int, (0 ≤ b ∧ b ≤ 3) ∧ (0 ≤ c ∧ c ≤ 24) ∧ (0 ≤ d ∧ d ≤ 3) ∧ (0 ≤ k ∧ k ≤ 365) ∧
      (k = 365 → d = 3 ∧ (c ≠ 24 ∨ b = 3)) ∧ N = 36524 * b + 1461 * c + 365 * d + k := by
  by_cases hb : N / 36524 ≥ 4
  · -- the last day of the era
    exact ⟨3, 24, 3, 365, by omega, by omega, by omega, by omega, by omega, by omega⟩
  · by_cases hd : N % 36524 % 1461 / 365 ≥ 4
    · exact ⟨N / 36524, N % 36524 / 1461, 3, 365, by omega, by omega, by omega, by omega, by omega, by omega⟩
    · exact ⟨N / 36524, N % 36524 / 1461, N % 36524 % 1461 / 365, N % 36524 % 1461 % 365,
        by omega, by omega, by omega, by omega, by omega, by omega⟩

/-- Hinnant's year-of-era formula is the year of the decomposition -/
theorem hinnant_yoe (b c d k : Int) (hb : 0 ≤ b ∧ b ≤ 3) (hc : 0 ≤ c ∧ c ≤ 24) (hd : 0 ≤ d ∧ d ≤ 3)
    (hk : 0 ≤ k ∧ k ≤ 365) (hl : k = 365 → d = 3 ∧ (c ≠ 24 ∨ b = 3)) (N : Int)
    (hN : N = 36524 * b + 1461 * c + 365 * d + k) :
    (N - N / 1460 + N / 36524 - N / 146096) / 365 = 100 * b + 4 * c + d := by
  have h1 : N / 1460 = 25 * b + c + (24 * b + c + 365 * d + k) / 1460 := by omega
  have h2 : N / 36524 - N / 146096 = b := by
    by_cases hlast : N = 146096
    · omega
    · have : N / 146096 = 0 := by omega
      have : N / 36524 = b := by omega
      omega
  have h3 : N - N / 1460 + N / 36524 - N / 146096 =
      365 * (100 * b + 4 * c + d) + (k - (24 * b + c + 365 * d + k) / 1460) := by omega
  rw [h3]
  omega

/-- `civilOfDays` with its intermediate quantities named -/
theorem civilOfDays_unfold (n era doe yoe doy mp : Int)
    (he : era = (n - 719163 + 719468) / 146097) (hdoe : doe = (n - 719163 + 719468) - era * 146097)
    (hyoe : yoe = (doe - doe / 1460 + doe / 36524 - doe / 146096) / 365)
    (hdoy : doy = doe - (365 * yoe + yoe / 4 - yoe / 100))
    (hmp : mp = (5 * doy + 2) / 153) :
    civilOfDays n =
      (if (if mp < 10 then mp + 3 else mp - 9) ≤ 2 then yoe + era * 400 + 1 else yoe + era * 400,
       if mp < 10 then mp + 3 else mp - 9, doy - (153 * mp + 2) / 5 + 1) := by
  subst hmp hdoy hyoe hdoe he
  rfl

theorem yoe_quot (b c d : Int) (_hb : 0 ≤ b ∧ b ≤ 3) (hc : 0 ≤ c ∧ c ≤ 24) (hd : 0 ≤ d ∧ d ≤ 3) :
    (100 * b + 4 * c + d) / 4 = 25 * b + c ∧ (100 * b + 4 * c + d) / 100 = b := by omega

/-- the month/day part of Hinnant's inverse and its way back, for one day-of-year `k` of a March-based year `Y` -/
theorem month_day (Y k : Int) (hk : 0 ≤ k ∧ k ≤ 365) (hleap : k = 365 → isLeap (Y + 1) = true) (mp : Int)
    (hmp : mp = (5 * k + 2) / 153) (m dd : Int) (hm : m = if mp < 10 then mp + 3 else mp - 9)
    (hdd : dd = k - (153 * mp + 2) / 5 + 1) (y : Int) (hy : y = if m ≤ 2 then Y + 1 else Y) :
    1 ≤ m ∧ m ≤ 12 ∧ 1 ≤ dd ∧ dd ≤ daysInMonth y m ∧ (if m ≤ 2 then y - 1 else y) = Y ∧ (m + 9) % 12 = mp ∧
      (153 * mp + 2) / 5 + dd - 1 = k := by
  have h12 : mp = 0 ∨ mp = 1 ∨ mp = 2 ∨ mp = 3 ∨ mp = 4 ∨ mp = 5 ∨ mp = 6 ∨ mp = 7 ∨ mp = 8 ∨ mp = 9 ∨ mp = 10 ∨ mp = 11 := by omega
  unfold daysInMonth
  rcases h12 with h | h | h | h | h | h | h | h | h | h | h | h <;> subst h <;>
    simp only [Int.reduceLT, Int.reduceAdd, Int.reduceSub, if_true, if_false] at hm <;> subst hm <;>
    simp only [Int.reduceLE, if_true, if_false] at hy <;> subst hy <;>
    simp only [Int.reduceLE, Int.reduceAdd, Int.reduceMod, Int.reduceBEq, if_true, if_false, Bool.false_eq_true, Bool.or_self,
      Bool.or_false, Bool.or_true, beq_self_eq_true, true_and] <;>
    (try (cases hL : isLeap (Y + 1) <;> simp only [hL, Bool.false_eq_true, imp_false, if_true, if_false] at hleap ⊢)) <;>
    omega

/-- the date Hinnant's inverse returns has a month 1..12, a day that exists in that month, and the day number it was
computed from — for EVERY integer `n` -/
theorem civilOfDays_spec (n : Int) :
    1 ≤ (civilOfDays n).2.1 ∧ (civilOfDays n).2.1 ≤ 12 ∧ 1 ≤ (civilOfDays n).2.2 ∧
      (civilOfDays n).2.2 ≤ daysInMonth (civilOfDays n).1 (civilOfDays n).2.1 ∧
      daysFromCE (civilOfDays n).1 (civilOfDays n).2.1 (civilOfDays n).2.2 = n := by
  obtain ⟨E, hE⟩ : ∃ E, E = (n - 719163 + 719468) / 146097 := ⟨_, rfl⟩
  obtain ⟨D, hD⟩ : ∃ D, D = (n - 719163 + 719468) - E * 146097 := ⟨_, rfl⟩
  have hdoe : 0 ≤ D ∧ D ≤ 146096 := by omega
  obtain ⟨b, c, d, k, hb, hc, hd, hk, hl, hN⟩ := doe_decomp D hdoe
  have hy := hinnant_yoe b c d k hb hc hd hk hl D hN
  obtain ⟨q4, q100⟩ := yoe_quot b c d hb hc hd
  have hdoy : k = D - (365 * (100 * b + 4 * c + d) + (100 * b + 4 * c + d) / 4 - (100 * b + 4 * c + d) / 100) := by
    rw [q4, q100]; clear hy; omega
  have hu := civilOfDays_unfold n E D (100 * b + 4 * c + d) k _ hE hD hy.symm hdoy rfl
  have hleap : k = 365 → isLeap (100 * b + 4 * c + d + E * 400 + 1) = true := by
    intro h365; rw [isLeap_iff]; clear hy hu; omega
  obtain ⟨h1, h2, h3, h4, h5, h6, h7⟩ := month_day (100 * b + 4 * c + d + E * 400) k hk hleap _ rfl _ _ rfl rfl _ rfl
  rw [hu]
  refine ⟨h1, h2, h3, h4, ?_⟩
  unfold daysFromCE
  simp only [h5, h6, h7]
  clear hy hu h1 h2 h3 h4 h5 h6 h7 hleap
  have hq : (100 * b + 4 * c + d + E * 400) / 400 = E := by omega
  rw [hq]
  have hr : 100 * b + 4 * c + d + E * 400 - E * 400 = 100 * b + 4 * c + d := by omega
  rw [hr, q4, q100]
  omega
/-! ### chrono's range of day numbers -/

/-- day number of `NaiveDate::MIN` = −262143-01-01 -/
def dayMin : Int := -95746129
/-- day number of `NaiveDate::MAX` = +262142-12-31 -/
def dayMax : Int := 95745399

theorem dby_succ (y : Int) : Civil.daysBeforeYear (y + 1) = Civil.daysBeforeYear y + (Civil.yearLen y : Int) := by
  have hl := Civil.isLeap_iff y
  unfold Civil.daysBeforeYear Civil.yearLen
  cases hL : Civil.isLeap y <;> simp only [hL, Bool.false_eq_true, false_iff, true_iff, if_true, if_false] at hl ⊢ <;> omega

theorem dby_mono (y y' : Int) (h : y ≤ y') : Civil.daysBeforeYear y ≤ Civil.daysBeforeYear y' := by
  unfold Civil.daysBeforeYear
  omega

/-- the day numbers of year `y` are `daysBeforeYear y + 1 ..= daysBeforeYear (y + 1)` -/
theorem civil_day_bounds (y : Int) (m d : Nat) (hm : 1 ≤ m ∧ m ≤ 12) (hd : 1 ≤ d ∧ d ≤ Civil.monthLen y m) :
    Civil.daysBeforeYear y + 1 ≤ Civil.daysFromCE y m d ∧ Civil.daysFromCE y m d ≤ Civil.daysBeforeYear (y + 1) := by
  have h := Civil.dbm_add_le y m d hm hd
  rw [dby_succ]
  unfold Civil.daysFromCE
  omega

/-- month and day returned by Hinnant's inverse as natural numbers, valid in `Civil`'s sense -/
theorem civilOfDays_nat (n : Int) :
    (civilOfDays n).2.1 = (((civilOfDays n).2.1.toNat : Nat) : Int) ∧ (civilOfDays n).2.2 = (((civilOfDays n).2.2.toNat : Nat) : Int) ∧
      (1 ≤ (civilOfDays n).2.1.toNat ∧ (civilOfDays n).2.1.toNat ≤ 12) ∧
      (1 ≤ (civilOfDays n).2.2.toNat ∧ (civilOfDays n).2.2.toNat ≤ Civil.monthLen (civilOfDays n).1 (civilOfDays n).2.1.toNat) ∧
      Civil.daysFromCE (civilOfDays n).1 (civilOfDays n).2.1.toNat (civilOfDays n).2.2.toNat = n := by
  obtain ⟨h1, h2, h3, h4, h5⟩ := civilOfDays_spec n
  generalize civilOfDays n = c at *
  obtain ⟨y, m, d⟩ := c
  simp only at *
  have hm : m = ((m.toNat : Nat) : Int) := by omega
  have hd : d = ((d.toNat : Nat) : Int) := by omega
  have hm' : 1 ≤ m.toNat ∧ m.toNat ≤ 12 := by omega
  refine ⟨hm, hd, hm', ?_, ?_⟩
  · rw [hm, daysInMonth_eq y _ hm'] at h4
    omega
  · rw [← daysFromCE_eq y _ _ hm', ← hm, ← hd]
    exact h5

/-- the year of a day number lies in chrono's range exactly for the day numbers `dayMin ..= dayMax` -/
theorem year_in_range_iff (n : Int) :
    (-262143 ≤ (civilOfDays n).1 ∧ (civilOfDays n).1 ≤ 262142) ↔ (dayMin ≤ n ∧ n ≤ dayMax) := by
  obtain ⟨_, _, hm, hd, hn⟩ := civilOfDays_nat n
  have hb := civil_day_bounds _ _ _ hm hd
  rw [hn] at hb
  have e1 : Civil.daysBeforeYear (-262143) = -95746130 := by decide
  have e2 : Civil.daysBeforeYear 262143 = 95745399 := by decide
  unfold dayMin dayMax
  constructor
  · intro ⟨h1, h2⟩
    have m1 := dby_mono _ _ h1
    have m2 := dby_mono ((civilOfDays n).1 + 1) 262143 (by omega)
    omega
  · intro ⟨h1, h2⟩
    refine ⟨?_, ?_⟩
    · apply Classical.byContradiction
      intro hc
      have := dby_mono ((civilOfDays n).1 + 1) (-262143) (by omega)
      omega
    · apply Classical.byContradiction
      intro hc
      have := dby_mono 262143 (civilOfDays n).1 (by omega)
      omega

/-- every day number of chrono's range is the day number of a valid date: the date `civilOfDays` returns -/
theorem validDate_civilOfDays (n : Int) (h : dayMin ≤ n ∧ n ≤ dayMax) :
    validDate (civilOfDays n).1 (civilOfDays n).2.1 (civilOfDays n).2.2 = true := by
  obtain ⟨h1, h2, h3, h4, _⟩ := civilOfDays_spec n
  have hy := (year_in_range_iff n).2 h
  unfold validDate
  simp only [Bool.and_eq_true, decide_eq_true_eq]
  omega

/-- **the two inverses agree** on every day number of chrono's range -/
theorem civilOfDays_eq (n : Int) (h : dayMin ≤ n ∧ n ≤ dayMax) :
    civilOfDays n = ((Civil.civilOfDays n).1, ((Civil.civilOfDays n).2.1 : Int), ((Civil.civilOfDays n).2.2 : Int)) := by
  obtain ⟨hm, hd, _, _, hn⟩ := civilOfDays_nat n
  have hv := validDate_civilOfDays n h
  obtain ⟨_, _, hv'⟩ := validDate_nat _ _ _ hv
  have hr := Civil.civilOfDays_daysFromCE _ _ _ hv'
  rw [hn] at hr
  rw [hr]
  simp only
  rw [← hm, ← hd]

/-- `daysFromCE` after `civilOfDays` is the identity (every integer) -/
theorem daysFromCE_civilOfDays (n : Int) :
    daysFromCE (civilOfDays n).1 (civilOfDays n).2.1 (civilOfDays n).2.2 = n := (civilOfDays_spec n).2.2.2.2

/-- the day number of a valid date is in chrono's range -/
theorem daysFromCE_range (y m d : Int) (h : validDate y m d = true) :
    dayMin ≤ daysFromCE y m d ∧ daysFromCE y m d ≤ dayMax := by
  obtain ⟨hm, hd, hv⟩ := validDate_nat y m d h
  unfold Civil.validDate Civil.minYear Civil.maxYear at hv
  simp only [Bool.and_eq_true, decide_eq_true_eq] at hv
  obtain ⟨⟨⟨⟨⟨hy1, hy2⟩, hm1⟩, hm2⟩, hd1⟩, hd2⟩ := hv
  have hb := civil_day_bounds y _ _ ⟨hm1, hm2⟩ ⟨hd1, hd2⟩
  rw [hm, hd, daysFromCE_eq y _ _ ⟨hm1, hm2⟩]
  have e1 : Civil.daysBeforeYear (-262143) = -95746130 := by decide
  have e2 : Civil.daysBeforeYear 262143 = 95745399 := by decide
  have m1 := dby_mono _ _ hy1
  have m2 := dby_mono (y + 1) 262143 (by omega)
  unfold dayMin dayMax
  omega

/-- `civilOfDays` after `daysFromCE` is the identity on valid dates: no date field is altered by the evaluator's
calendar either -/
theorem civilOfDays_daysFromCE (y m d : Int) (h : validDate y m d = true) :
    civilOfDays (daysFromCE y m d) = (y, m, d) := by
  have hr := daysFromCE_range y m d h
  obtain ⟨hm, hd, hv⟩ := validDate_nat y m d h
  have hm12 : 1 ≤ m.toNat ∧ m.toNat ≤ 12 := by
    unfold validDate at h
    simp only [Bool.and_eq_true, decide_eq_true_eq] at h
    omega
  rw [civilOfDays_eq _ hr]
  have e : daysFromCE y m d = Civil.daysFromCE y m.toNat d.toNat := by
    rw [← daysFromCE_eq y _ _ hm12, ← hm, ← hd]
  rw [e, Civil.civilOfDays_daysFromCE _ _ _ hv]
  simp only
  rw [← hm, ← hd]

/-- day numbers and valid dates correspond one to one: `daysFromCE` is injective on valid dates -/
theorem daysFromCE_injective (y m d y' m' d' : Int) (h : validDate y m d = true) (h' : validDate y' m' d' = true)
    (e : daysFromCE y m d = daysFromCE y' m' d') : (y, m, d) = (y', m', d') := by
  rw [← civilOfDays_daysFromCE y m d h, ← civilOfDays_daysFromCE y' m' d' h', e]

/-- the first of January is not after any day of its year, the first of the month not after any day of its month -/
theorem daysFromCE_month_start (y m d : Int) (hd : 1 ≤ d) : daysFromCE y m 1 ≤ daysFromCE y m d := by
  simp only [daysFromCE]
  omega

theorem daysFromCE_year_start (y m d : Int) (h : validDate y m d = true) : daysFromCE y 1 1 ≤ daysFromCE y m d := by
  obtain ⟨hm, hd, hv⟩ := validDate_nat y m d h
  unfold Civil.validDate at hv
  simp only [Bool.and_eq_true, decide_eq_true_eq] at hv
  obtain ⟨⟨⟨⟨_, hm1⟩, hm2⟩, hd1⟩, hd2⟩ := hv
  have hb := civil_day_bounds y _ _ ⟨hm1, hm2⟩ ⟨hd1, hd2⟩
  have e1 : daysFromCE y 1 1 = Civil.daysFromCE y 1 1 := daysFromCE_eq y 1 1 (by decide)
  rw [hm, hd, daysFromCE_eq y _ _ ⟨hm1, hm2⟩, e1]
  have : Civil.daysFromCE y 1 1 = Civil.daysBeforeYear y + 1 := by
    unfold Civil.daysFromCE Civil.daysBeforeMonth; simp
  omega

example : daysFromCE (-262143) 1 1 = dayMin ∧ daysFromCE 262142 12 31 = dayMax := by decide
example : civilOfDays dayMin = (-262143, 1, 1) ∧ civilOfDays dayMax = (262142, 12, 31) ∧ civilOfDays 719163 = (1970, 1, 1) := by decide
example : validDate 2024 2 29 = true ∧ validDate 2023 2 29 = false ∧ validDate 1900 2 29 = false ∧ validDate 2000 2 29 = true := by decide

end Sqlgrep.CivilE
