import SqlgrepModel.Lemmas.FloatArith
import SqlgrepModel.Model.Eval
import SqlgrepModel.Lemmas.ValueOrder
import SqlgrepModel.Lemmas.NumericOrder
import SqlgrepModel.Lemmas.CivilAgree
import SqlgrepModel.Lemmas.StrBytes
import SqlgrepModel.Lemmas.FuncNum
import SqlgrepModel.Lemmas.FuncTime
import SqlgrepModel.Lemmas.FuncLeap
import SqlgrepModel.Lemmas.FuncText
import SqlgrepModel.Lemmas.FuncCast
/-
C03 (functions, casts, EXTRACT, array subscripts) — the clause "… and functions, casts, EXTRACT and array subscripts
(1-based) behave as the README describes" of the property sentence, for ALL operands. Audited with `C03.lean`,
`C03Expr.lean`, `C03Select.lean` by `./check C03`. The theorems are about the definitions the driver executes:
`callFunction`, `castValue`, `createTimestamp`, `tsField`, `dateTrunc`, `display`, `eval` (Model/Eval.lean).

A. **One calendar** (`Lemmas/CivilAgree.lean`): the evaluator's Hinnant-style `CivilE` and the extraction model's
   table-driven `Civil` are the same function on every valid date / every day number of chrono's range. Consequences:
   `make_timestamp_iff`, `make_timestamp_type_error`, `extract_after_make_timestamp`, `extracted_timestamp_is_make_timestamp`,
   `date_trunc_calendar`, `date_trunc_sub_day`, `date_trunc_idempotent`, `date_trunc_unknown_part`.
A′. **Leap seconds**: `leap_second_plus_interval`, `plain_timestamp_arithmetic`, `leap_second_difference`,
   `leap_second_roundtrip`, `leap_second_midnight_flag`, `date_trunc_leap_second`, `epoch_value`;
   `timestamp_minus_interval`, `plus_then_minus_interval` (D63, repaired); `make_timestamp_seven_arguments`,
   `make_timestamp_iff7`, `make_timestamp_type_error7` (D64, repaired).
B. **Numeric**: `least_is_lower_bound`, `greatest_is_upper_bound`, `least_greatest_null`,
   `least_greatest_type_error`, `abs_int`, `pow_int` / `pow_int_iff`.
   REAL: `+ − × ÷`, `sqrt` and INT→REAL are computed exactly on the bit patterns (`Model/FloatArith.lean`: the correctly
   rounded result of the exact operation, IEEE-754; compared with the hardware on every case): `real_add_is_nearest`,
   `real_add_exact`, `real_mul_is_nearest`, `real_div_is_nearest`, `real_add_comm`, `real_mul_comm`, anchors by
   `decide +kernel` (`0.1 + 0.2`, `1e308 + 1e308 = inf`, `5.0 / 2.0`, `sqrt 2.25`, `sqrt 2`, signed zeros, NaN cases).
   `pow(REAL, REAL)` is Rust's `powf` = the platform's libm, which is NOT correctly rounded: it stays outside (hardware
   `Float.pow` in the driver, a shipped fact end to end) — no theorem about its value. `least`/`greatest`/`abs` on REAL
   are bit-level definitions (`F64.fmin`, `F64.fmax`, `F64.abs`) and are covered here.
C. **Text**: `length_is_code_points`, `upper_lower_ascii`, `case_maps_exactly_the_letters`,
   `upper_lower_ascii_chars`, `upper_lower_idempotent`; non-ASCII case mapping is the shipped Unicode table (trusted:
   `upper_lower_non_ascii`).
D. **Arrays**: `array_length_spec`, `array_cat_spec`, `array_append_prepend_spec`, `subscript_spec`, `subscript_cat`,
   `subscript_append_prepend`, `index_of_array_cat`, `create_array_spec`. `array_unique` is
   `Props.C16.array_unique_characterisation` / `array_unique_merges_exactly_equal_values` /
   `array_unique_members_are_inputs` (Props/C16.lean).
E. **Casts**: `cast_same_type`, `cast_to_text_is_display`, `cast_int_text_int`, `cast_text_is_parseLit`,
   `cast_text_cases`, `cast_null`, `cast_interval_int`, `cast_type_error`, `cast_never_a_wrong_value`.

Not covered by a theorem (correspondence only): `regex_matches` (the regex crate is an oracle), `now()` (clock),
`epoch`, REAL `sqrt`/`pow`, REAL/TIMESTAMP literals in casts from TEXT (`f64::from_str`, chrono's parser: oracles),
the `{:.2}` rendering of REAL inside `display` (exact integer arithmetic on the bits, Model/Float.lean `F64.fmt2`).
-/
namespace Sqlgrep.Props.C03Func
open Sqlgrep

variable (O : Oracles)

/-! ## how the theorems below reach expressions -/

/-- a function call evaluates its arguments left to right and applies `callFunction` to the values; an argument
without a value is the error of the call -/
theorem eval_call (env : Env) (f : Func) (args : List Expr) (vs : List Value) (h : evalList O env args = .ok vs) :
    eval O env (.call f args) = callFunction O f vs := by
  simp only [eval, h, bind, Outcome.bind]

/-- a cast evaluates its operand and applies `castValue` -/
theorem eval_cast (env : Env) (e : Expr) (t : VType) (v : Value) (h : eval O env e = .ok v) :
    eval O env (.cast e t) = castValue O v t := by
  simp only [eval, h, bind, Outcome.bind]

/-! ## A. timestamps: one calendar -/

/-- the parts form a valid civil time in chrono's sense: an existing date of the proleptic Gregorian calendar with a
year in −262143 ..= 262142, hour < 24, minute < 60, second < 60, and microseconds < 10^6 — or < 2·10^6 at second 59
(chrono's representation of a leap second) -/
def ValidCivil (y mo d h mi s us : Int) : Prop :=
  CivilE.validDate y mo d = true ∧ (0 ≤ h ∧ h < 24) ∧ (0 ≤ mi ∧ mi < 60) ∧ (0 ≤ s ∧ s < 60) ∧
    (0 ≤ us ∧ us < 2000000) ∧ (us < 1000000 ∨ s = 59)

/-- `make_timestamp(y, mo, d, h, mi, s, us)` (stated for the historical eight-argument form whose last argument is
ignored; the documented seven-argument call is the same function: `make_timestamp_seven_arguments`,
`make_timestamp_iff7`) **is a
TIMESTAMP iff the parts form a valid civil time** — then it is the day number of the date with the second of the day
and the nanoseconds — and NULL otherwise (also when a part does not fit its machine field) -/
theorem make_timestamp_iff (y mo d h mi s us : Int) (x : Value) :
    (ValidCivil y mo d h mi s us →
      callFunction O .makeTimestamp [.int y, .int mo, .int d, .int h, .int mi, .int s, .int us, x] =
        .ok (.timestamp (CivilE.daysFromCE y mo d) (h * 3600 + mi * 60 + s) (us * 1000))) ∧
    (¬ ValidCivil y mo d h mi s us →
      callFunction O .makeTimestamp [.int y, .int mo, .int d, .int h, .int mi, .int s, .int us, x] = .ok .null) := by
  constructor
  · rintro ⟨hv, hh, hmi, hs, hus, hl⟩
    have hv' := hv
    unfold CivilE.validDate at hv'
    simp only [Bool.and_eq_true, decide_eq_true_eq] at hv'
    have hd31 : CivilE.daysInMonth y mo ≤ 31 := by unfold CivilE.daysInMonth; split <;> (try split) <;> omega
    have hfit : (fitsI32 y && fitsU32 mo && fitsU32 d && fitsU32 h && fitsU32 mi && fitsU32 s && fitsU32 us) = true := by
      simp only [fitsI32, fitsU32, Bool.and_eq_true, decide_eq_true_eq]; omega
    have hc : (CivilE.validDate y mo d && decide (h < 24) && decide (mi < 60) && decide (s < 60) && decide (us < 2000000) &&
        (decide (us < 1000000) || s == 59)) = true := by
      simp only [hv, Bool.and_eq_true, Bool.or_eq_true, decide_eq_true_eq, beq_iff_eq, true_and]; omega
    simp only [callFunction, makeTimestampOf, hfit, if_true, createTimestamp, hc, Option.getD_some]
  · intro hn
    simp only [callFunction, makeTimestampOf]
    split
    · have hc : ¬ (CivilE.validDate y mo d && decide (h < 24) && decide (mi < 60) && decide (s < 60) && decide (us < 2000000) &&
          (decide (us < 1000000) || s == 59)) = true := by
        rename_i hfit
        simp only [fitsI32, fitsU32, Bool.and_eq_true, decide_eq_true_eq] at hfit
        simp only [Bool.and_eq_true, Bool.or_eq_true, decide_eq_true_eq, beq_iff_eq]
        intro hc
        apply hn
        exact ⟨hc.1.1.1.1.1, by omega, by omega, by omega, by omega, hc.2⟩
      simp only [createTimestamp, hc, Bool.false_eq_true, if_false, Option.getD_none]
    · rfl

/-- **EXTRACT after make_timestamp returns the parts**: for a valid civil time the functions `year … second`
(`EXTRACT(YEAR … SECOND FROM t)`) of `make_timestamp(y, mo, d, h, mi, s, us)` are exactly `y, mo, d, h, mi, s` -/
theorem extract_after_make_timestamp (y mo d h mi s us : Int) (x t : Value) (hv : ValidCivil y mo d h mi s us)
    (ht : callFunction O .makeTimestamp [.int y, .int mo, .int d, .int h, .int mi, .int s, .int us, x] = .ok t) :
    callFunction O .year [t] = .ok (.int y) ∧ callFunction O .month [t] = .ok (.int mo) ∧
    callFunction O .day [t] = .ok (.int d) ∧ callFunction O .hour [t] = .ok (.int h) ∧
    callFunction O .minute [t] = .ok (.int mi) ∧ callFunction O .second [t] = .ok (.int s) := by
  rw [(make_timestamp_iff O y mo d h mi s us x).1 hv] at ht
  injection ht with ht
  subst ht
  obtain ⟨hd, hh, hmi, hs, _, _⟩ := hv
  have hc := CivilE.civilOfDays_daysFromCE y mo d hd
  have e1 : (h * 3600 + mi * 60 + s) / 3600 = h := by omega
  have e2 : (h * 3600 + mi * 60 + s) / 60 % 60 = mi := by omega
  have e3 : (h * 3600 + mi * 60 + s) % 60 = s := by omega
  refine ⟨?_, ?_, ?_, ?_, ?_, ?_⟩ <;> simp [callFunction, tsField, hc, e1, e2, e3]

/-- the fields are only read from TIMESTAMP operands: anything else (NULL included) is an error -/
theorem extract_type_error (v : Value) (h : v.valueType ≠ some .timestamp) :
    callFunction O .year [v] = .error .undefinedFunction ∧ callFunction O .month [v] = .error .undefinedFunction ∧
    callFunction O .day [v] = .error .undefinedFunction ∧ callFunction O .hour [v] = .error .undefinedFunction ∧
    callFunction O .minute [v] = .error .undefinedFunction ∧ callFunction O .second [v] = .error .undefinedFunction := by
  cases v <;> simp only [Value.valueType, ne_eq, not_true_eq_false] at h <;> exact ⟨rfl, rfl, rfl, rfl, rfl, rfl⟩

/-- is the value an INT -/
def isInt : Value → Bool
  | .int _ => true
  | _ => false

/-- a part of `make_timestamp` that is not an INT (NULL included) is an error, whatever the other parts are -/
theorem make_timestamp_type_error (a b c d e f g x : Value)
    (h : (isInt a && isInt b && isInt c && isInt d && isInt e && isInt f && isInt g) = false) :
    callFunction O .makeTimestamp [a, b, c, d, e, f, g, x] = .error .undefinedFunction := by
  cases a <;> (try rfl) <;> cases b <;> (try rfl) <;> cases c <;> (try rfl) <;> cases d <;> (try rfl) <;>
    cases e <;> (try rfl) <;> cases f <;> (try rfl) <;> cases g <;> (try rfl)
  simp [isInt] at h

example : (isInt (.int 2024) && isInt .null && isInt (.int 1) && isInt (.int 0) && isInt (.int 0) && isInt (.int 0) && isInt (.int 0)) = false := rfl

/-- a TIMESTAMP made by extraction from a line (`Lit.mkTimestamp`, the function C01's theorems are about) and one made
by `make_timestamp` in a query from the same parts are the same value -/
theorem extracted_timestamp_is_make_timestamp (y : Int) (mo d h mi s us : Nat) (x t : Value)
    (hx : Lit.mkTimestamp y mo d h mi s us = some t) :
    callFunction O .makeTimestamp [.int y, .int mo, .int d, .int h, .int mi, .int s, .int us, x] = .ok t := by
  rw [mkTimestamp_eq_createTimestamp] at hx
  have hv : ValidCivil y mo d h mi s us := by
    unfold createTimestamp at hx
    split at hx
    · rename_i hc
      simp only [Bool.and_eq_true, Bool.or_eq_true, decide_eq_true_eq, beq_iff_eq] at hc
      exact ⟨hc.1.1.1.1.1, by omega, by omega, by omega, by omega, hc.2⟩
    · cases hx
  rw [(make_timestamp_iff O _ _ _ _ _ _ _ x).1 hv]
  unfold createTimestamp at hx
  split at hx
  · injection hx with hx; rw [← hx]
  · cases hx

example : ValidCivil 2024 2 29 23 59 59 1999999 := by
  refine ⟨by decide, ?_, ?_, ?_, ?_, ?_⟩ <;> omega
example : ¬ ValidCivil 2023 2 29 0 0 0 0 := by
  intro h; exact absurd h.1 (by decide)
example : callFunction {} .makeTimestamp [.int 2024, .int 2, .int 29, .int 23, .int 59, .int 59, .int 1999999, .int 0] =
    .ok (.timestamp 738945 86399 1999999000) ∧
    callFunction {} .makeTimestamp [.int 2023, .int 2, .int 29, .int 0, .int 0, .int 0, .int 0, .int 0] = .ok .null ∧
    callFunction {} .makeTimestamp [.int 4294969313, .int 1, .int 1, .int 0, .int 0, .int 0, .int 0, .int 0] = .ok .null ∧
    callFunction {} .makeTimestamp [.int 2024, .int 1, .int 1, .int 0, .int 0, .int 60, .int 0, .int 0] = .ok .null ∧
    callFunction {} .year [.timestamp 738945 86399 1999999000] = .ok (.int 2024) ∧
    callFunction {} .second [.timestamp 738945 86399 1999999000] = .ok (.int 59) :=
  ⟨rfl, rfl, rfl, rfl, rfl, rfl⟩
example : Lit.mkTimestamp 2024 2 29 23 59 59 1999999 = some (.timestamp 738945 86399 1999999000) := by rfl

/-! ### date_trunc -/

/-- a TIMESTAMP value chrono can hold: day number in `NaiveDate`'s range, second of day and nanosecond in range and
not in the leap-second representation (leap seconds: section A′ below) -/
def TsInRange (d s f : Int) : Prop := (CivilE.dayMin ≤ d ∧ d ≤ CivilE.dayMax) ∧ TsPlain s f

/-- the six `EXTRACT` fields of a timestamp value, as the evaluator computes them -/
def fields (t : Value) : List (Outcome Value) :=
  [callFunction O .year [t], callFunction O .month [t], callFunction O .day [t],
   callFunction O .hour [t], callFunction O .minute [t], callFunction O .second [t]]

theorem fields_midnight (d' y m dd : Int) (h : CivilE.civilOfDays d' = (y, m, dd)) :
    fields O (.timestamp d' 0 0) = [.ok (.int y), .ok (.int m), .ok (.int dd), .ok (.int 0), .ok (.int 0), .ok (.int 0)] := by
  simp [fields, callFunction, tsField, h]

/-- **`date_trunc('year' | 'month' | 'day', t)`** keeps the year (and month, and day) of `t`, puts every later field at
its minimum (month 1, day 1, 00:00:00.000), and is not after `t` in the value order -/
theorem date_trunc_calendar (d s f : Int) (h : TsInRange d s f) :
    let y := (CivilE.civilOfDays d).1; let mo := (CivilE.civilOfDays d).2.1; let dd := (CivilE.civilOfDays d).2.2
    (∃ r, callFunction O .dateTrunc [.text (strBytes "year"), .timestamp d s f] = .ok r ∧
      fields O r = [.ok (.int y), .ok (.int 1), .ok (.int 1), .ok (.int 0), .ok (.int 0), .ok (.int 0)] ∧
      Value.cmp r (.timestamp d s f) ≠ .gt) ∧
    (∃ r, callFunction O .dateTrunc [.text (strBytes "month"), .timestamp d s f] = .ok r ∧
      fields O r = [.ok (.int y), .ok (.int mo), .ok (.int 1), .ok (.int 0), .ok (.int 0), .ok (.int 0)] ∧
      Value.cmp r (.timestamp d s f) ≠ .gt) ∧
    (∃ r, callFunction O .dateTrunc [.text (strBytes "day"), .timestamp d s f] = .ok r ∧
      fields O r = [.ok (.int y), .ok (.int mo), .ok (.int dd), .ok (.int 0), .ok (.int 0), .ok (.int 0)] ∧
      Value.cmp r (.timestamp d s f) ≠ .gt ∧ r = .timestamp d 0 0) := by
  intro y mo dd
  obtain ⟨hd, hs0, _, hf0, _⟩ := h
  have hv := CivilE.validDate_civilOfDays d hd
  have hback := CivilE.daysFromCE_civilOfDays d
  have hv' := hv
  unfold CivilE.validDate at hv'
  simp only [Bool.and_eq_true, decide_eq_true_eq] at hv'
  have hvy : CivilE.validDate y 1 1 = true := by
    have e31 : CivilE.daysInMonth y 1 = 31 := rfl
    unfold CivilE.validDate
    simp only [Bool.and_eq_true, decide_eq_true_eq, e31]
    refine ⟨⟨⟨⟨⟨hv'.1.1.1.1.1, hv'.1.1.1.1.2⟩, by omega⟩, by omega⟩, by omega⟩, by omega⟩
  have hvm : CivilE.validDate y mo 1 = true := by
    have h28 : 28 ≤ CivilE.daysInMonth y mo := by unfold CivilE.daysInMonth; split <;> (try split) <;> omega
    unfold CivilE.validDate
    simp only [Bool.and_eq_true, decide_eq_true_eq]
    refine ⟨⟨⟨⟨⟨hv'.1.1.1.1.1, hv'.1.1.1.1.2⟩, hv'.1.1.1.2⟩, hv'.1.1.2⟩, by omega⟩, by omega⟩
  have ey : (strBytes "month" == strBytes "year") = false := by rw [sb_month, sb_year]; decide
  have ed1 : (strBytes "day" == strBytes "year") = false := by rw [sb_day, sb_year]; decide
  have ed2 : (strBytes "day" == strBytes "month") = false := by rw [sb_day, sb_month]; decide
  refine ⟨⟨.timestamp (CivilE.daysFromCE y 1 1) 0 0, ?_, ?_, ?_⟩, ⟨.timestamp (CivilE.daysFromCE y mo 1) 0 0, ?_, ?_, ?_⟩,
    ⟨.timestamp (CivilE.daysFromCE y mo dd) 0 0, ?_, ?_, ?_, ?_⟩⟩
  · simp only [callFunction, dateTrunc, beq_self_eq_true, if_true]; rfl
  · exact fields_midnight O _ _ _ _ (CivilE.civilOfDays_daysFromCE y 1 1 hvy)
  · apply ts_midnight_le _ _ _ _ _ hs0 hf0
    have := CivilE.daysFromCE_year_start y mo dd hv
    rw [hback] at this; exact this
  · simp only [callFunction, dateTrunc, ey, beq_self_eq_true, Bool.false_eq_true, if_true, if_false]; rfl
  · exact fields_midnight O _ _ _ _ (CivilE.civilOfDays_daysFromCE y mo 1 hvm)
  · apply ts_midnight_le _ _ _ _ _ hs0 hf0
    have := CivilE.daysFromCE_month_start y mo dd hv'.1.2
    rw [hback] at this; exact this
  · simp only [callFunction, dateTrunc, ed1, ed2, beq_self_eq_true, Bool.false_eq_true, if_true, if_false]; rfl
  · exact fields_midnight O _ _ _ _ (CivilE.civilOfDays_daysFromCE y mo dd hv)
  · apply ts_midnight_le _ _ _ _ _ hs0 hf0
    rw [hback]; exact Int.le_refl _
  · show Value.timestamp (CivilE.daysFromCE y mo dd) 0 0 = _
    rw [hback]

/-- the sub-day parts and their spans in nanoseconds -/
def subDayParts : List (String × Int) :=
  [("hour", 3600000000000), ("minute", 60000000000), ("second", 1000000000), ("milliseconds", 1000000),
   ("microseconds", 1000)]

theorem subDay_facts (p : String) (span : Int) (h : (p, span) ∈ subDayParts) :
    (strBytes p == strBytes "year") = false ∧ (strBytes p == strBytes "month") = false ∧
    (strBytes p == strBytes "day") = false ∧ truncSpan (strBytes p) = some span := by
  simp only [subDayParts, List.mem_cons, Prod.mk.injEq, List.mem_nil_iff, or_false] at h
  rcases h with ⟨rfl, rfl⟩ | ⟨rfl, rfl⟩ | ⟨rfl, rfl⟩ | ⟨rfl, rfl⟩ | ⟨rfl, rfl⟩ <;>
    simp only [truncSpan, sb_year, sb_month, sb_day, sb_hour, sb_minute, sb_second, sb_milliseconds, sb_microseconds] <;>
    decide

/-- **`date_trunc('hour' … 'microseconds', t)` is `t` minus `instant mod span`** (`tsTotal` = nanoseconds on the
time line): the result is a normalised timestamp whose instant is `T − T mod span`; hence a multiple of the span, not
after `t` (in instants and in the value order), and less than one span before `t`. (Outside the ±292-year window
around 1970 in which the instant fits an `i64` of nanoseconds, chrono's `duration_trunc` fails:
`date_trunc_out_of_window`.) -/
theorem date_trunc_sub_day (p : String) (span : Int) (hp : (p, span) ∈ subDayParts) (d s f : Int) (h : TsPlain s f)
    (hin : inI64 (tsTotal (d - 719163) s f) = true) :
    ∃ d' s' f', callFunction O .dateTrunc [.text (strBytes p), .timestamp d s f] = .ok (.timestamp d' s' f') ∧
      TsPlain s' f' ∧
      tsTotal d' s' f' = tsTotal d s f - tsTotal d s f % span ∧
      tsTotal d' s' f' % span = 0 ∧
      tsTotal d' s' f' ≤ tsTotal d s f ∧ tsTotal d s f - span < tsTotal d' s' f' ∧
      Value.cmp (.timestamp d' s' f') (.timestamp d s f) ≠ .gt := by
  obtain ⟨hy, hm, hd, hs⟩ := subDay_facts p span hp
  have hpos := span_pos (truncSpan_isSubDay _ _ hs)
  obtain ⟨d', s', f', e, hplain, htot⟩ := tsTotal_tsOfTotal (tsTotal d s f - tsTotal d s f % span)
  have hmod0 := Int.emod_nonneg (tsTotal d s f) (Int.ne_of_gt hpos)
  have hmodlt := Int.emod_lt_of_pos (tsTotal d s f) hpos
  refine ⟨d', s', f', ?_, hplain, htot, ?_, by omega, by omega, ?_⟩
  · simp only [callFunction]
    rw [dateTrunc_sub_day _ _ hy hm hd hs d s f h.2.2.1 h.2.2.2 hin, e]
  · rw [htot]
    have := Int.emod_add_mul_ediv (tsTotal d s f) span
    have e2 : tsTotal d s f - tsTotal d s f % span = span * (tsTotal d s f / span) := by omega
    rw [e2]
    exact Int.mul_emod_right _ _
  · simp only [Value.cmp]
    rw [ts_lex_eq_instant _ _ _ _ _ _ hplain h]
    intro hc
    have := Int.compare_eq_gt.1 hc
    omega

/-- **idempotent**: truncating the truncated timestamp again changes nothing (as long as it is still inside the
window; at the lower edge of the window the second call fails instead — never another value) -/
theorem date_trunc_idempotent (p : String) (span : Int) (hp : (p, span) ∈ subDayParts) (d s f : Int) (r : Value)
    (h : TsPlain s f) (hr : callFunction O .dateTrunc [.text (strBytes p), .timestamp d s f] = .ok r) :
    callFunction O .dateTrunc [.text (strBytes p), r] = .ok r ∨
    callFunction O .dateTrunc [.text (strBytes p), r] = .error .failedToTruncate := by
  obtain ⟨hy, hm, hd, hs⟩ := subDay_facts p span hp
  cases hin : inI64 (tsTotal (d - 719163) s f) with
  | false =>
    simp only [callFunction] at hr
    rw [dateTrunc_out_of_range _ _ hy hm hd hs d s f h.2.2.1 h.2.2.2 hin] at hr
    cases hr
  | true =>
    obtain ⟨d', s', f', e, hplain, htot, hz, _⟩ := date_trunc_sub_day O p span hp d s f h hin
    rw [e] at hr
    injection hr with hr
    subst hr
    cases hin' : inI64 (tsTotal (d' - 719163) s' f') with
    | false =>
      right
      simp only [callFunction]
      exact dateTrunc_out_of_range _ _ hy hm hd hs d' s' f' hplain.2.2.1 hplain.2.2.2 hin'
    | true =>
      left
      simp only [callFunction]
      rw [dateTrunc_sub_day _ _ hy hm hd hs d' s' f' hplain.2.2.1 hplain.2.2.2 hin', hz, Int.sub_zero, tsOfTotal_tsTotal _ _ _ hplain]

theorem date_trunc_out_of_window (p : String) (span : Int) (hp : (p, span) ∈ subDayParts) (d s f : Int) (h : TsPlain s f)
    (hin : inI64 (tsTotal (d - 719163) s f) = false) :
    callFunction O .dateTrunc [.text (strBytes p), .timestamp d s f] = .error .failedToTruncate := by
  obtain ⟨hy, hm, hd, hs⟩ := subDay_facts p span hp
  simp only [callFunction]
  exact dateTrunc_out_of_range _ _ hy hm hd hs d s f h.2.2.1 h.2.2.2 hin

/-- the eight part names `date_trunc` knows -/
def partNames : List String := ["year", "month", "day", "hour", "minute", "second", "milliseconds", "microseconds"]

/-- **an unknown part text is an error** (case-sensitive: `'HOUR'`, `'week'`, `''` …), never a value -/
theorem date_trunc_unknown_part (part : Bytes) (h : ∀ n ∈ partNames, part ≠ strBytes n) (d s f : Int) :
    callFunction O .dateTrunc [.text part, .timestamp d s f] = .error .invalidTruncatePart := by
  have hne : ∀ n ∈ partNames, (part == strBytes n) = false := by
    intro n hn
    have := h n hn
    simpa using this
  simp only [partNames, List.mem_cons, List.mem_nil_iff, or_false, forall_eq_or_imp, forall_eq] at hne
  obtain ⟨h1, h2, h3, h4, h5, h6, h7, h8⟩ := hne
  simp only [callFunction]
  apply dateTrunc_unknown _ h1 h2 h3
  simp only [truncSpan, h4, h5, h6, h7, h8, Bool.false_eq_true, if_false]

/-- operands of other types (NULL included, or the operands swapped) are an error -/
theorem date_trunc_type_error (a b : Value) (h : a.valueType ≠ some .text ∨ b.valueType ≠ some .timestamp) :
    callFunction O .dateTrunc [a, b] = .error .undefinedFunction := by
  cases a <;> cases b <;> simp only [Value.valueType, ne_eq, not_true_eq_false, or_self] at h <;> rfl

-- non-vacuity: 2024-02-29 13:45:12.345678901 (day 738945)
example : TsInRange 738945 49512 345678901 := by
  refine ⟨⟨by decide, by decide⟩, ?_⟩; unfold TsPlain; omega
example : ("minute", (60000000000 : Int)) ∈ subDayParts := by decide
example : inI64 (tsTotal (738945 - 719163) 49512 345678901) = true := by decide
example : callFunction {} .dateTrunc [.text (strBytes "year"), .timestamp 738945 49512 345678901] = .ok (.timestamp 738886 0 0) ∧
    callFunction {} .dateTrunc [.text (strBytes "month"), .timestamp 738945 49512 345678901] = .ok (.timestamp 738917 0 0) ∧
    callFunction {} .dateTrunc [.text (strBytes "minute"), .timestamp 738945 49512 345678901] = .ok (.timestamp 738945 49500 0) ∧
    callFunction {} .dateTrunc [.text (strBytes "milliseconds"), .timestamp 738945 49512 345678901] = .ok (.timestamp 738945 49512 345000000) ∧
    callFunction {} .dateTrunc [.text (strBytes "week"), .timestamp 738945 49512 345678901] = .error .invalidTruncatePart ∧
    callFunction {} .dateTrunc [.text (strBytes "HOUR"), .timestamp 738945 49512 345678901] = .error .invalidTruncatePart := by
  have w : strBytes "week" = [119, 101, 101, 107] := by rw [strBytes_lit]; decide
  have u : strBytes "HOUR" = [72, 79, 85, 82] := by rw [strBytes_lit]; decide
  simp only [callFunction, dateTrunc, truncSpan, sb_year, sb_month, sb_day, sb_hour, sb_minute, sb_second, sb_milliseconds,
    sb_microseconds, w, u]
  refine ⟨?_, ?_, ?_, ?_, ?_, ?_⟩ <;> rfl
example : ∀ n ∈ partNames, strBytes "week" ≠ strBytes n := by
  simp only [partNames, List.mem_cons, List.mem_nil_iff, or_false, forall_eq_or_imp, forall_eq, strBytes_lit]
  decide
/-- 1677-09-21 00:12:43.5 is inside the i64 window, its hour is not: the second truncation fails -/
example : inI64 (tsTotal (612411 - 719163) 763 500000000) = true ∧ inI64 (tsTotal (612411 - 719163) 0 0) = false := by decide

/-! ## A′. leap seconds (`:60`) under timestamp arithmetic

chrono represents a leap second as second-of-minute 59 with a nanosecond field in [10⁹, 2·10⁹). Such a value comes
from the text `'… 23:59:60'` or from `make_timestamp(…, 59, µs ≥ 10⁶)`. The model mirrors chrono 0.4.39
(`NaiveTime::overflowing_add_signed`, `signed_duration_since`, `timestamp_millis`, `duration_trunc`) exactly; these
theorems say what that is. -/

/-- **timestamp ± interval on a leap second** (`ts − iv` is `ts + (−iv)`): for every interval exactly one
of three things happens — the value stays inside its leap second (only the fraction moves), it escapes forwards
(the result is an ordinary timestamp whose linear count is `T + ns − 1 s`: the leap second counts as an elapsed
second), or it escapes backwards (`T + ns`) -/
theorem leap_second_plus_interval (d s f ns : Int) (hf : 1000000000 ≤ f ∧ f < 2000000000) :
    ∃ d' s' f', tsShift d s f ns = .timestamp d' s' f' ∧
      ((-1000000000 < ns ∧ f + ns < 2000000000 → d' = d ∧ s' = s ∧ f' = f + ns) ∧
       (2000000000 ≤ f + ns → tsTotal d' s' f' = tsTotal d s f + ns - 1000000000 ∧ TsPlain s' f') ∧
       (ns ≤ -1000000000 → tsTotal d' s' f' = tsTotal d s f + ns ∧ TsPlain s' f')) := by
  obtain ⟨c1, _, _⟩ := leap_add_cases d s f ns hf
  obtain ⟨d', s', f', e, k1, k2, k3⟩ := leap_add_instant d s f ns hf
  refine ⟨d', s', f', e, fun h => ?_, k2, k3⟩
  have := c1 h
  rw [e] at this
  injection this with a b c
  exact ⟨a, b, c⟩

/-- on ordinary timestamps nothing changed: the sum is the normalised timestamp at `T + ns`, the difference is
`T − T'` -/
theorem plain_timestamp_arithmetic (d s f d' s' f' ns : Int) (h : TsPlain s f) (h' : TsPlain s' f') :
    tsShift d s f ns = tsOfTotal (tsTotal d s f + ns) ∧ tsDiff d s f d' s' f' = tsTotal d s f - tsTotal d' s' f' :=
  ⟨tsShift_plain d s f ns h.2.2.2, tsDiff_plain d s f d' s' f' h.2.2.2 h'.2.2.2⟩

/-- **timestamp − timestamp with leap seconds**: the difference of the linear counts, plus one second when the left
operand has the later second of day and the right one is a leap second, minus one when it is the other way round -/
theorem leap_second_difference (d s f d' s' f' : Int) :
    arith .sub (.timestamp d s f) (.timestamp d' s' f') = .ok (.interval (tsTotal d s f - tsTotal d' s' f' +
      (if s > s' ∧ f' ≥ 1000000000 then 1000000000 else if s < s' ∧ f ≥ 1000000000 then -1000000000 else 0))) := by
  simp only [arith, tsDiff_eq]

/-- `(t + iv) − t = iv` for a leap second `t`, within the day (see `leap_add_then_diff`); across midnight chrono's
difference is off by the leap second — kernel-checked witness (mirrors the code; flagged) -/
theorem leap_second_roundtrip (d s f ns d' s' f' : Int) (hf : 1000000000 ≤ f ∧ f < 2000000000)
    (hr : tsShift d s f ns = .timestamp d' s' f')
    (hside : (-1000000000 < ns ∧ f + ns < 2000000000) ∨ (2000000000 ≤ f + ns ∧ s < s') ∨ (ns ≤ -1000000000 ∧ s' ≤ s)) :
    arith .sub (.timestamp d' s' f') (.timestamp d s f) = .ok (.interval ns) := by
  simp only [arith, leap_add_then_diff d s f ns d' s' f' hf hr hside]

theorem leap_second_midnight_flag :
    tsShift 736329 86399 1500000000 1000000000 = .timestamp 736330 0 500000000 ∧
    tsDiff 736330 0 500000000 736329 86399 1500000000 = 0 ∧
    tsDiff 736330 0 0 736329 86399 1500000000 = -500000000 ∧
    Value.cmp (.timestamp 736330 0 0) (.timestamp 736329 86399 1500000000) = .gt := leap_diff_midnight_flag

/-- **`date_trunc('hour' … 'microseconds', t)` for any `t` in the window, leap seconds included**: `t` moved back by
`stamp mod span` with chrono's rules, where the stamp of `:60 + φ` is that of the following second `+ φ`; the
subtraction cannot overflow (`dateTrunc_shift_in_range`: no panic site). FLAG: a leap second truncated to 'second',
'minute' (or 'hour' at `hh:59:60`) is the START OF THE LEAP SECOND `…:59:60.000`, not the start of the minute or
hour — the code and chrono agree on this; the README's "truncate" would give `…:59:00`. -/
theorem date_trunc_leap_second (p : String) (span : Int) (hp : (p, span) ∈ subDayParts) (d s f st : Int)
    (hs : 0 ≤ s ∧ s < 86400) (hf : 1000000000 ≤ f ∧ f < 2000000000) (hst : stampNs d s f = some st) :
    callFunction O .dateTrunc [.text (strBytes p), .timestamp d s f] = .ok (tsShift d s f (-(st % span))) ∧
    st = tsTotal (d - 719163) s f ∧
    tsAdd d s f (-(st % span)) = .ok (tsShift d s f (-(st % span))) ∧
    ((span = 1000000000 ∨ (span = 60000000000 ∧ s % 60 = 59) ∨ (span = 3600000000000 ∧ s % 3600 = 3599)) →
      tsShift d s f (-(st % span)) = .timestamp d s 1000000000) := by
  obtain ⟨hy, hm, hd, hsp⟩ := subDay_facts p span hp
  have e := stampNs_some d s f st hst
  refine ⟨?_, e, dateTrunc_shift_in_range d s f st span hs ⟨by omega, hf.2⟩ hst (truncSpan_isSubDay _ _ hsp), fun h => ?_⟩
  · simp only [callFunction]
    exact dateTrunc_span_closed _ _ hy hm hd hsp d s f st hst
  · rw [e]; exact dateTrunc_leap_is_leap_start d s f span hf h

/-- `EXTRACT(EPOCH FROM t)` is `timestamp_millis() / 1000.0` for every timestamp; in a leap second the millisecond
field runs to 1999, so the epoch of `:60 + φ` is that of the following second `+ φ` -/
theorem epoch_value (d s f : Int) :
    callFunction O .epoch [.timestamp d s f] =
      .ok (.real (F64.div (F64.ofInt ((d - 719163) * 86400000 + s * 1000 + f / 1000000)) (F64.ofInt 1000))) := rfl

/-- **`ts − iv = ts + (−iv)`**, and every other operator between a TIMESTAMP and an INTERVAL — `*`, `/`, and
`iv − ts` — has no value (finding D63, repaired in /repo 91aa1f4: the code used to add whatever the operator was) -/
theorem timestamp_minus_interval (d s f ns : Int) :
    arith .sub (.timestamp d s f) (.interval ns) = arith .add (.timestamp d s f) (.interval (-ns)) ∧
    arith .add (.interval ns) (.timestamp d s f) = arith .add (.timestamp d s f) (.interval ns) ∧
    arith .mul (.timestamp d s f) (.interval ns) = .error .undefinedOperation ∧
    arith .div (.timestamp d s f) (.interval ns) = .error .undefinedOperation ∧
    arith .sub (.interval ns) (.timestamp d s f) = .error .undefinedOperation ∧
    arith .mul (.interval ns) (.timestamp d s f) = .error .undefinedOperation ∧
    arith .div (.interval ns) (.timestamp d s f) = .error .undefinedOperation :=
  ⟨rfl, rfl, rfl, rfl, rfl, rfl, rfl⟩

/-- **`(ts + iv) − iv = ts`** for an ordinary timestamp, whenever both steps have a value -/
theorem plus_then_minus_interval (d s f ns : Int) (r v : Value) (h : TsPlain s f)
    (h1 : arith .add (.timestamp d s f) (.interval ns) = .ok r) (h2 : arith .sub r (.interval ns) = .ok v) :
    v = .timestamp d s f := by
  have e1 : tsAdd d s f ns = .ok r := h1
  unfold tsAdd at e1
  rw [tsShift_plain d s f ns h.2.2.2] at e1
  obtain ⟨d1, s1, f1, et, hp, htot⟩ := tsTotal_tsOfTotal (tsTotal d s f + ns)
  rw [et] at e1
  dsimp only at e1
  split at e1
  · injection e1 with e1
    subst e1
    have e2 : tsAdd d1 s1 f1 (-ns) = .ok v := h2
    unfold tsAdd at e2
    rw [tsShift_plain d1 s1 f1 (-ns) hp.2.2.2, htot] at e2
    have e3 : tsTotal d s f + ns + -ns = tsTotal d s f := by omega
    rw [e3, tsOfTotal_tsTotal d s f h] at e2
    dsimp only at e2
    split at e2
    · injection e2 with e2; exact e2.symm
    · cases e2
  · cases e1

example : arith .sub (.timestamp 736329 36000 0) (.interval 3600000000000) = .ok (.timestamp 736329 32400 0) ∧
    arith .add (.timestamp 736329 36000 0) (.interval 3600000000000) = .ok (.timestamp 736329 39600 0) ∧
    TsPlain 36000 0 := ⟨by rfl, by rfl, by unfold TsPlain; omega⟩

/-- **the documented seven-argument `make_timestamp` is the same function** (finding D64, repaired in /repo 7252aee:
an eighth, never read argument used to be required and is still accepted): every theorem above about the
eight-argument call holds for the README's call -/
theorem make_timestamp_seven_arguments (y mo d h mi s us : Int) (x : Value) :
    callFunction O .makeTimestamp [.int y, .int mo, .int d, .int h, .int mi, .int s, .int us] =
    callFunction O .makeTimestamp [.int y, .int mo, .int d, .int h, .int mi, .int s, .int us, x] := rfl

theorem make_timestamp_iff7 (y mo d h mi s us : Int) :
    (ValidCivil y mo d h mi s us →
      callFunction O .makeTimestamp [.int y, .int mo, .int d, .int h, .int mi, .int s, .int us] =
        .ok (.timestamp (CivilE.daysFromCE y mo d) (h * 3600 + mi * 60 + s) (us * 1000))) ∧
    (¬ ValidCivil y mo d h mi s us →
      callFunction O .makeTimestamp [.int y, .int mo, .int d, .int h, .int mi, .int s, .int us] = .ok .null) := by
  rw [make_timestamp_seven_arguments O y mo d h mi s us .null]
  exact make_timestamp_iff O y mo d h mi s us .null

/-- a part that is not an INT is an error in the seven-argument form too; six or nine arguments are no call of it -/
theorem make_timestamp_type_error7 (a b c d e f g : Value)
    (h : (isInt a && isInt b && isInt c && isInt d && isInt e && isInt f && isInt g) = false) :
    callFunction O .makeTimestamp [a, b, c, d, e, f, g] = .error .undefinedFunction := by
  cases a <;> (try rfl) <;> cases b <;> (try rfl) <;> cases c <;> (try rfl) <;> cases d <;> (try rfl) <;>
    cases e <;> (try rfl) <;> cases f <;> (try rfl) <;> cases g <;> (try rfl)
  simp [isInt] at h

example : callFunction {} .makeTimestamp [.int 2024, .int 2, .int 29, .int 13, .int 45, .int 12, .int 0] =
    .ok (.timestamp 738945 49512 0) ∧
    callFunction {} .makeTimestamp [.int 1, .int 1, .int 1, .int 1, .int 1, .int 1] = .error .undefinedFunction ∧
    callFunction {} .makeTimestamp [.int 1, .int 1, .int 1, .int 1, .int 1, .int 1, .int 1, .int 1, .int 1] = .error .undefinedFunction :=
  ⟨rfl, rfl, rfl⟩

example : stampNs 736329 86399 1500000000 = some 1483228800500000000 := by decide
example : ("minute", (60000000000 : Int)) ∈ subDayParts ∧ (86399 : Int) % 60 = 59 := by decide
example : tsShift 736329 86399 1500000000 (-(1483228800500000000 % 60000000000)) = .timestamp 736329 86399 1000000000 := by
  have h := dateTrunc_leap_is_leap_start 736329 86399 1500000000 60000000000 ⟨by decide, by decide⟩ (Or.inr (Or.inl ⟨rfl, by decide⟩))
  have e : tsTotal (736329 - 719163) 86399 1500000000 = 1483228800500000000 := by decide
  rw [e] at h; exact h
example : tsShift 736329 86399 1500000000 499999999 = .timestamp 736329 86399 (1500000000 + 499999999) ∧
    tsShift 736329 86399 1500000000 500000000 = tsOfTotal (tsTotal 736329 86399 (1500000000 - 1000000000) + 500000000) ∧
    tsShift 736329 86399 1500000000 (-1000000000) = tsOfTotal (tsTotal 736329 (86399 + 1) (1500000000 - 1000000000) + -1000000000) :=
  ⟨(leap_add_cases _ _ _ _ ⟨by decide, by decide⟩).1 ⟨by decide, by decide⟩,
   (leap_add_cases _ _ _ _ ⟨by decide, by decide⟩).2.1 (by decide),
   (leap_add_cases _ _ _ _ ⟨by decide, by decide⟩).2.2 (by decide)⟩

/-! ## B. numeric functions -/

/-- the operand pairs `least`/`greatest` accept: two INT, two REAL, two TIMESTAMP or two INTERVAL -/
def SameOrderable : Value → Value → Bool
  | .int _, .int _ => true
  | .real _, .real _ => true
  | .timestamp _ _ _, .timestamp _ _ _ => true
  | .interval _, .interval _ => true
  | _, _ => false

def notNaN : Value → Bool
  | .real x => !F64.isNaN x
  | _ => true

theorem real_le_of_key {x y : Nat} (hx : F64.isNaN x = false) (hy : F64.isNaN y = false) (h : F64.key x ≤ F64.key y) :
    F64.cmp x y ≠ .gt := by
  unfold F64.cmp
  simp only [hx, hy, Bool.false_eq_true, if_false]
  intro hc
  have := Int.compare_eq_gt.1 hc
  omega

/-- `least(a, b)` on two INT / REAL / TIMESTAMP / INTERVAL operands is one of the two operands and is not above
either in the value order (`Value.cmp`; REAL: for operands that are not NaN — `f64::min` returns the other operand when
one is NaN) -/
theorem least_is_lower_bound (a b : Value) (h : SameOrderable a b = true) :
    ∃ r, callFunction O .least [a, b] = .ok r ∧ (r = a ∨ r = b) ∧
      (notNaN a = true → notNaN b = true → Value.cmp r a ≠ .gt ∧ Value.cmp r b ≠ .gt) := by
  cases a <;> cases b <;> simp only [SameOrderable, Bool.false_eq_true] at h
  · -- INT
    rename_i x y
    refine ⟨.int (min x y), rfl, ?_, fun _ _ => ?_⟩
    · rw [Int.min_def]; split <;> simp
    · simp only [Value.cmp, ne_eq, Int.compare_eq_gt, Int.not_lt]
      omega
  · -- REAL
    rename_i x y
    refine ⟨.real (F64.fmin x y), rfl, ?_, ?_⟩
    · unfold F64.fmin; split <;> (try split) <;> (try split) <;> simp
    · intro hx hy
      simp only [notNaN, Bool.not_eq_true'] at hx hy
      simp only [Value.cmp, F64.fmin, hx, hy, Bool.false_eq_true, if_false]
      by_cases hk : F64.key y < F64.key x
      · simp only [hk, if_true]
        exact ⟨real_le_of_key hy hx (by omega), real_le_of_key hy hy (by omega)⟩
      · simp only [hk, if_false]
        exact ⟨real_le_of_key hx hx (by omega), real_le_of_key hx hy (by omega)⟩
  · -- TIMESTAMP
    rename_i d s f d' s' f'
    by_cases hc : Value.cmp (.timestamp d' s' f') (.timestamp d s f) = .lt
    · refine ⟨.timestamp d' s' f', ?_, Or.inr rfl, fun _ _ => ⟨?_, ?_⟩⟩
      · simp only [callFunction, hc, beq_self_eq_true, if_true]
      · rw [hc]; decide
      · rw [Value.cmp_refl]; decide
    · refine ⟨.timestamp d s f, ?_, Or.inl rfl, fun _ _ => ⟨?_, ?_⟩⟩
      · have : (Value.cmp (.timestamp d' s' f') (.timestamp d s f) == .lt) = false := by
          cases h' : Value.cmp (.timestamp d' s' f') (.timestamp d s f) <;> simp_all
        simp only [callFunction, this, Bool.false_eq_true, if_false]
      · rw [Value.cmp_refl]; decide
      · rw [Value.cmp_swap (.timestamp d' s' f') (.timestamp d s f)]
        cases h' : Value.cmp (.timestamp d' s' f') (.timestamp d s f) <;> simp_all [Ordering.swap]
  · -- INTERVAL
    rename_i x y
    refine ⟨.interval (min x y), rfl, ?_, fun _ _ => ?_⟩
    · rw [Int.min_def]; split <;> simp
    · simp only [Value.cmp, ne_eq, Int.compare_eq_gt, Int.not_lt]
      omega


/-- `greatest(a, b)`: one of the two operands, not below either -/
theorem greatest_is_upper_bound (a b : Value) (h : SameOrderable a b = true) :
    ∃ r, callFunction O .greatest [a, b] = .ok r ∧ (r = a ∨ r = b) ∧
      (notNaN a = true → notNaN b = true → Value.cmp a r ≠ .gt ∧ Value.cmp b r ≠ .gt) := by
  cases a <;> cases b <;> simp only [SameOrderable, Bool.false_eq_true] at h
  · rename_i x y
    refine ⟨.int (max x y), rfl, ?_, fun _ _ => ?_⟩
    · rw [Int.max_def]; split <;> simp
    · simp only [Value.cmp, ne_eq, Int.compare_eq_gt, Int.not_lt]
      omega
  · rename_i x y
    refine ⟨.real (F64.fmax x y), rfl, ?_, ?_⟩
    · unfold F64.fmax; split <;> (try split) <;> (try split) <;> simp
    · intro hx hy
      simp only [notNaN, Bool.not_eq_true'] at hx hy
      simp only [Value.cmp, F64.fmax, hx, hy, Bool.false_eq_true, if_false]
      by_cases hk : F64.key x < F64.key y
      · simp only [hk, if_true]
        exact ⟨real_le_of_key hx hy (by omega), real_le_of_key hy hy (by omega)⟩
      · simp only [hk, if_false]
        exact ⟨real_le_of_key hx hx (by omega), real_le_of_key hy hx (by omega)⟩
  · rename_i d s f d' s' f'
    by_cases hc : Value.cmp (.timestamp d s f) (.timestamp d' s' f') = .lt
    · refine ⟨.timestamp d' s' f', ?_, Or.inr rfl, fun _ _ => ⟨?_, ?_⟩⟩
      · simp only [callFunction, hc, beq_self_eq_true, if_true]
      · rw [hc]; decide
      · rw [Value.cmp_refl]; decide
    · refine ⟨.timestamp d s f, ?_, Or.inl rfl, fun _ _ => ⟨?_, ?_⟩⟩
      · have : (Value.cmp (.timestamp d s f) (.timestamp d' s' f') == .lt) = false := by
          cases h' : Value.cmp (.timestamp d s f) (.timestamp d' s' f') <;> simp_all
        simp only [callFunction, this, Bool.false_eq_true, if_false]
      · rw [Value.cmp_refl]; decide
      · rw [Value.cmp_swap (.timestamp d s f) (.timestamp d' s' f')]
        cases h' : Value.cmp (.timestamp d s f) (.timestamp d' s' f') <;> simp_all [Ordering.swap]
  · rename_i x y
    refine ⟨.interval (max x y), rfl, ?_, fun _ _ => ?_⟩
    · rw [Int.max_def]; split <;> simp
    · simp only [Value.cmp, ne_eq, Int.compare_eq_gt, Int.not_lt]
      omega

/-- NULL if either operand is NULL (whatever the other operand is) -/
theorem least_greatest_null (a b : Value) (h : a = .null ∨ b = .null) :
    callFunction O .least [a, b] = .ok .null ∧ callFunction O .greatest [a, b] = .ok .null := by
  rcases h with h | h
  · subst h; cases b <;> exact ⟨rfl, rfl⟩
  · subst h; cases a <;> exact ⟨rfl, rfl⟩

/-- every other combination of operand types is an error, not a value -/
theorem least_greatest_type_error (a b : Value) (ha : a ≠ .null) (hb : b ≠ .null) (h : SameOrderable a b = false) :
    callFunction O .least [a, b] = .error .undefinedFunction ∧
    callFunction O .greatest [a, b] = .error .undefinedFunction := by
  cases a <;> cases b <;> simp only [SameOrderable, Bool.true_eq_false, ne_eq, not_true_eq_false] at h ha hb <;> exact ⟨rfl, rfl⟩

/-- wrong number of arguments: an error -/
theorem least_greatest_arity (args : List Value) (h : args.length ≠ 2) :
    callFunction O .least args = .error .undefinedFunction ∧ callFunction O .greatest args = .error .undefinedFunction := by
  match args, h with
  | [], _ => exact ⟨rfl, rfl⟩
  | [_], _ => exact ⟨rfl, rfl⟩
  | [_, _], h => exact absurd rfl h
  | _ :: _ :: _ :: _, _ => exact ⟨rfl, rfl⟩

example : callFunction {} .least [.int 3, .int (-5)] = .ok (.int (-5)) ∧
    callFunction {} .greatest [.interval 7, .interval 9] = .ok (.interval 9) ∧
    callFunction {} .greatest [.timestamp 738886 1 5, .timestamp 738885 86399 0] = .ok (.timestamp 738886 1 5) ∧
    callFunction {} .least [.int 3, .text [97]] = .error .undefinedFunction ∧
    callFunction {} .least [.int 3, .real 0] = .error .undefinedFunction ∧
    callFunction {} .least [.text [97], .null] = .ok .null := ⟨rfl, rfl, rfl, rfl, rfl, rfl⟩

/-! ### abs -/

/-- `abs` on INT: the absolute value when it is an `i64`, and an ERROR exactly at `i64::MIN` — never a wrapped value -/
theorem abs_int (x : Int) (hx : inI64 x = true) :
    (x ≠ i64Min → callFunction O .abs [.int x] = .ok (.int (x.natAbs : Int)) ∧ inI64 (x.natAbs : Int) = true) ∧
    (x = i64Min → callFunction O .abs [.int x] = .error .undefinedFunction) := by
  rw [inI64_iff] at hx
  have habs : (if x < 0 then -x else x) = (x.natAbs : Int) := by split <;> omega
  constructor
  · intro hne
    unfold i64Min at hne
    have hin : inI64 (x.natAbs : Int) = true := by rw [inI64_iff]; omega
    refine ⟨?_, hin⟩
    simp only [callFunction, habs, checked, hin, if_true]
  · intro he
    subst he
    rfl

/-- `abs` on INTERVAL is the absolute value (chrono's range is symmetric: no overflow), on REAL it clears the sign
bit, of NULL it is NULL, and any other operand is an error -/
theorem abs_others (x : Int) (b : Nat) :
    callFunction O .abs [.interval x] = .ok (.interval (x.natAbs : Int)) ∧
    callFunction O .abs [.real b] = .ok (.real (b % 2 ^ 63)) ∧
    callFunction O .abs [.null] = .ok .null := by
  have habs : (if x < 0 then -x else x) = (x.natAbs : Int) := by split <;> omega
  refine ⟨?_, rfl, rfl⟩
  simp only [callFunction, habs]

theorem abs_type_error (v : Value) (h : v.valueType ≠ some .int ∧ v.valueType ≠ some .real ∧ v.valueType ≠ some .interval ∧ v ≠ .null) :
    callFunction O .abs [v] = .error .undefinedFunction := by
  cases v <;> simp only [Value.valueType, ne_eq, not_true_eq_false, false_and, and_false] at h <;> rfl

example : callFunction {} .abs [.int (-9223372036854775807)] = .ok (.int 9223372036854775807) ∧
    callFunction {} .abs [.int (-9223372036854775808)] = .error .undefinedFunction ∧
    callFunction {} .abs [.interval (-5)] = .ok (.interval 5) ∧
    callFunction {} .abs [.text []] = .error .undefinedFunction := ⟨rfl, rfl, rfl, rfl⟩

/-! ### pow -/

/-- the mathematical meaning of `pow` on INT: `x ^ y` when `0 ≤ y ≤ u32::MAX` and the power is an `i64`; no value
otherwise -/
def powSpec (x y : Int) : Outcome Value :=
  if 0 ≤ y ∧ y ≤ 4294967295 ∧ inI64 (x ^ y.toNat) = true then .ok (.int (x ^ y.toNat)) else .error .undefinedFunction

/-- **`pow` on INT is the mathematical power or an error**: the model's case analysis (bases 0, 1, −1; exponents
above 64) agrees with `x ^ y` everywhere -/
theorem pow_int (x y : Int) : callFunction O .pow [.int x, .int y] = powSpec x y := by
  unfold powSpec
  simp only [callFunction]
  by_cases hy : y < 0 ∨ y > 4294967295
  · have h1 : (decide (y < 0) || decide (y > 4294967295)) = true := by
      simp only [Bool.or_eq_true, decide_eq_true_eq]; exact hy
    have h2 : ¬ (0 ≤ y ∧ y ≤ 4294967295 ∧ inI64 (x ^ y.toNat) = true) := by omega
    simp only [h1, if_true, h2, if_false]
  · have h1 : (decide (y < 0) || decide (y > 4294967295)) = false := by
      simp only [Bool.or_eq_false_iff, decide_eq_false_iff_not]; omega
    have hy0 : 0 ≤ y := by omega
    have hy1 : y ≤ 4294967295 := by omega
    simp only [h1, Bool.false_eq_true, if_false, hy0, hy1, true_and]
    by_cases hx0 : x = 0
    · subst hx0
      simp only [beq_self_eq_true, if_true, zero_pow_int]
      by_cases hz : y = 0
      · subst hz; rfl
      · have : ¬ y.toNat = 0 := by omega
        have hz' : (y == 0) = false := by simpa using hz
        simp only [hz', this, Bool.false_eq_true, if_false]; rfl
    · have hx0' : (x == 0) = false := by simpa using hx0
      simp only [hx0', Bool.false_eq_true, if_false]
      by_cases hx1 : x = 1
      · subst hx1
        simp only [beq_self_eq_true, if_true, Int.one_pow]; rfl
      · have hx1' : (x == 1) = false := by simpa using hx1
        simp only [hx1', Bool.false_eq_true, if_false]
        by_cases hxm : x = -1
        · subst hxm
          simp only [beq_self_eq_true, if_true, neg_one_pow]
          by_cases hev : y % 2 = 0
          · have : y.toNat % 2 = 0 := by omega
            have hev' : (y % 2 == 0) = true := by simpa using hev
            simp only [hev', this, if_true]; rfl
          · have : ¬ y.toNat % 2 = 0 := by omega
            have hev' : (y % 2 == 0) = false := by simpa using hev
            simp only [hev', this, Bool.false_eq_true, if_false]; rfl
        · have hxm' : (x == -1) = false := by simpa using hxm
          simp only [hxm', Bool.false_eq_true, if_false]
          by_cases h64 : y > 64
          · have hov := pow_overflows x y.toNat (by omega) (by omega)
            simp only [h64, if_true, hov, Bool.false_eq_true, if_false]
          · simp only [h64, if_false, checked]
            cases hin : inI64 (x ^ y.toNat) <;> simp

/-- … as an equivalence: `pow(x, y)` evaluates to `r` iff the exponent fits `u32`, the mathematical power is an
`i64`, and `r` is that power; in every other case it is an error -/
theorem pow_int_iff (x y r : Int) :
    callFunction O .pow [.int x, .int y] = .ok (.int r) ↔
      0 ≤ y ∧ y ≤ 4294967295 ∧ inI64 (x ^ y.toNat) = true ∧ r = x ^ y.toNat := by
  rw [pow_int]
  unfold powSpec
  constructor
  · intro h
    split at h
    · rename_i hc
      injection h with h; injection h with h
      exact ⟨hc.1, hc.2.1, hc.2.2, h.symm⟩
    · cases h
  · rintro ⟨h1, h2, h3, rfl⟩
    simp only [h1, h2, h3, and_self, if_true]

theorem pow_int_error (x y : Int) (h : ¬ (0 ≤ y ∧ y ≤ 4294967295 ∧ inI64 (x ^ y.toNat) = true)) :
    callFunction O .pow [.int x, .int y] = .error .undefinedFunction := by
  rw [pow_int]; unfold powSpec; simp only [h, if_false]

/-- NULL operands give NULL; mixed or non-numeric operands are an error -/
theorem pow_null (a b : Value) (h : a = .null ∨ b = .null) : callFunction O .pow [a, b] = .ok .null := by
  rcases h with h | h
  · subst h; cases b <;> rfl
  · subst h; cases a <;> rfl

example : callFunction {} .pow [.int 2, .int 62] = .ok (.int 4611686018427387904) ∧
    callFunction {} .pow [.int 2, .int 63] = .error .undefinedFunction ∧
    callFunction {} .pow [.int (-2), .int 63] = .ok (.int (-9223372036854775808)) ∧
    callFunction {} .pow [.int (-1), .int 4294967295] = .ok (.int (-1)) ∧
    callFunction {} .pow [.int 0, .int 0] = .ok (.int 1) ∧
    callFunction {} .pow [.int 2, .int 4294967298] = .error .undefinedFunction ∧
    callFunction {} .pow [.int 1, .int 4294967296] = .error .undefinedFunction ∧
    callFunction {} .pow [.int 2, .int (-1)] = .error .undefinedFunction ∧
    callFunction {} .pow [.int 3, .real 0] = .error .undefinedFunction := ⟨rfl, rfl, rfl, rfl, rfl, rfl, rfl, rfl, rfl⟩

/-! ## C. text functions -/

/-- **`length(TEXT)` is the number of code points** of the text (not bytes): for every list of characters -/
theorem length_is_code_points (cs : List Char) :
    callFunction O .length [.text (Utf8.encode cs)] = .ok (.int cs.length) := by
  simp only [callFunction, charCount_encode]

/-- `length` of anything but TEXT (NULL included) is an error -/
theorem length_type_error (v : Value) (h : v.valueType ≠ some .text) :
    callFunction O .length [v] = .error .undefinedFunction := by
  cases v <;> simp only [Value.valueType, ne_eq, not_true_eq_false] at h <;> rfl

/-- **`upper` / `lower` on ASCII text** map every byte by `upperByte` / `lowerByte` … -/
theorem upper_lower_ascii (s : Bytes) (h : isAscii s = true) :
    callFunction O .upper [.text s] = .ok (.text (s.map upperByte)) ∧
    callFunction O .lower [.text s] = .ok (.text (s.map lowerByte)) := by
  simp only [callFunction, h, if_true, asciiUpper_eq, asciiLower_eq, and_self]

/-- … which **map exactly the 26 letters and nothing else**: `a+i ↦ A+i`, `A+i ↦ a+i` for `i < 26`, every other byte
is unchanged -/
theorem case_maps_exactly_the_letters :
    (∀ i, i < 26 → upperByte (97 + i) = 65 + i ∧ lowerByte (65 + i) = 97 + i) ∧
    (∀ b, ¬ (97 ≤ b ∧ b ≤ 122) → upperByte b = b) ∧ (∀ b, ¬ (65 ≤ b ∧ b ≤ 90) → lowerByte b = b) := by
  refine ⟨fun i hi => ⟨?_, ?_⟩, fun b hb => ?_, fun b hb => ?_⟩
  · unfold upperByte; split <;> omega
  · unfold lowerByte; split <;> omega
  · unfold upperByte; rw [if_neg hb]
  · unfold lowerByte; rw [if_neg hb]

/-- the same statement against an independent definition: on ASCII characters `upper`/`lower` are the standard
library's `Char.toUpper` / `Char.toLower` applied to every character -/
theorem upper_lower_ascii_chars (cs : List Char) (h : ∀ c ∈ cs, c.toNat < 128) :
    callFunction O .upper [.text (Utf8.encode cs)] = .ok (.text (Utf8.encode (cs.map Char.toUpper))) ∧
    callFunction O .lower [.text (Utf8.encode cs)] = .ok (.text (Utf8.encode (cs.map Char.toLower))) := by
  have hu : ∀ c ∈ cs.map Char.toUpper, c.toNat < 128 := by
    intro c hc
    obtain ⟨c0, hc0, rfl⟩ := List.mem_map.1 hc
    rw [← upperByte_toUpper]; exact upperByte_ascii _ (h c0 hc0)
  have hl : ∀ c ∈ cs.map Char.toLower, c.toNat < 128 := by
    intro c hc
    obtain ⟨c0, hc0, rfl⟩ := List.mem_map.1 hc
    rw [← lowerByte_toLower]; exact lowerByte_ascii _ (h c0 hc0)
  have ha : isAscii (cs.map Char.toNat) = true := by
    simp only [isAscii, List.all_eq_true, List.mem_map, decide_eq_true_eq, forall_exists_index, and_imp]
    intro x c hc hx; subst hx; exact h c hc
  rw [encode_ascii cs h, encode_ascii _ hu, encode_ascii _ hl]
  obtain ⟨e1, e2⟩ := upper_lower_ascii O _ ha
  rw [e1, e2]
  simp only [List.map_map]
  refine ⟨?_, ?_⟩ <;> congr 3 <;> funext c <;> simp only [Function.comp]
  · exact upperByte_toUpper c
  · exact lowerByte_toLower c

/-- **idempotent and length-preserving** on ASCII text (and `lower ∘ upper = lower`, `upper ∘ lower = upper`) -/
theorem upper_lower_idempotent (s u l : Bytes) (h : isAscii s = true)
    (hu : callFunction O .upper [.text s] = .ok (.text u)) (hl : callFunction O .lower [.text s] = .ok (.text l)) :
    callFunction O .upper [.text u] = .ok (.text u) ∧ callFunction O .lower [.text l] = .ok (.text l) ∧
    callFunction O .lower [.text u] = .ok (.text l) ∧ callFunction O .upper [.text l] = .ok (.text u) ∧
    callFunction O .length [.text u] = callFunction O .length [.text s] ∧
    callFunction O .length [.text l] = callFunction O .length [.text s] ∧
    u.length = s.length ∧ l.length = s.length := by
  obtain ⟨e1, e2⟩ := upper_lower_ascii O s h
  rw [e1] at hu; rw [e2] at hl
  injection hu with hu; injection hu with hu
  injection hl with hl; injection hl with hl
  subst hu hl
  have au := isAscii_map s upperByte upperByte_ascii h
  have al := isAscii_map s lowerByte lowerByte_ascii h
  obtain ⟨u1, u2⟩ := upper_lower_ascii O _ au
  obtain ⟨l1, l2⟩ := upper_lower_ascii O _ al
  refine ⟨?_, ?_, ?_, ?_, ?_, ?_, by simp, by simp⟩
  · rw [u1, List.map_map]; congr 3; funext b; exact upperByte_idem b
  · rw [l2, List.map_map]; congr 3; funext b; exact lowerByte_idem b
  · rw [u2, List.map_map]; congr 3; funext b; exact lower_upperByte b
  · rw [l1, List.map_map]; congr 3; funext b; exact upper_lowerByte b
  · simp only [callFunction, charCount_ascii _ au, charCount_ascii _ h, List.length_map]
  · simp only [callFunction, charCount_ascii _ al, charCount_ascii _ h, List.length_map]

/-- non-ASCII text goes through the shipped Unicode case tables (`str::to_uppercase` / `to_lowercase`, an oracle of
the correspondence): the model's answer is the table entry — TRUSTED, no theorem about its content -/
theorem upper_lower_non_ascii (s r : Bytes) (h : isAscii s = false) :
    (lookupB O.upper s = some r → callFunction O .upper [.text s] = .ok (.text r)) ∧
    (lookupB O.lower s = some r → callFunction O .lower [.text s] = .ok (.text r)) := by
  constructor <;> intro hr <;> simp only [callFunction, h, Bool.false_eq_true, if_false, hr]

theorem upper_lower_type_error (v : Value) (h : v.valueType ≠ some .text) :
    callFunction O .upper [v] = .error .undefinedFunction ∧ callFunction O .lower [v] = .error .undefinedFunction := by
  cases v <;> simp only [Value.valueType, ne_eq, not_true_eq_false] at h <;> exact ⟨rfl, rfl⟩

example : callFunction {} .length [.text (Utf8.encode "zé€😀".toList)] = .ok (.int 4) ∧ (Utf8.encode "zé€😀".toList).length = 10 :=
  ⟨length_is_code_points {} _, by decide⟩
example : isAscii (Utf8.encode "Hello, World 42!".toList) = true := by decide
example : callFunction {} .upper [.text (Utf8.encode "Hello, World 42!{`@[".toList)] = .ok (.text (Utf8.encode "HELLO, WORLD 42!{`@[".toList)) ∧
    callFunction {} .lower [.text (Utf8.encode "Hello, World 42!{`@[".toList)] = .ok (.text (Utf8.encode "hello, world 42!{`@[".toList)) :=
  ⟨rfl, rfl⟩
example : ∀ c ∈ "aZ09~".toList, c.toNat < 128 := by decide
example : isAscii (Utf8.encode "é".toList) = false := by decide

variable (env : Env)

/-! ## D. arrays -/

/-- the value of `a[n]` for the element list of `a`: 1-based, NULL outside `1 ..= |a|` -/
def subscript (xs : List Value) (n : Int) : Value := if n ≥ 1 then (xs[(n - 1).toNat]?).getD .null else .null

/-- `a[i]` evaluates to `subscript` of the elements (restating `C03.subscript_one_based` with the name used below) -/
theorem eval_index (a i : Expr) (t : VType) (xs : List Value) (n : Int)
    (ha : eval O env a = .ok (.array t xs)) (hi : eval O env i = .ok (.int n)) :
    eval O env (.index a i) = .ok (subscript xs n) := by
  simp only [eval, ha, hi, bind, Outcome.bind, pure, subscript]

/-- **1-based, NULL outside**: `a[n]` is the `n`-th element counted from one when `1 ≤ n ≤ |a|`, NULL otherwise -/
theorem subscript_spec (xs : List Value) (n : Int) :
    (∀ k, (h : k < xs.length) → n = (k : Int) + 1 → subscript xs n = xs[k]) ∧
    ((n < 1 ∨ n > xs.length) → subscript xs n = .null) := by
  constructor
  · intro k hk hn
    subst hn
    have h1 : (k : Int) + 1 ≥ 1 := by omega
    have h2 : ((k : Int) + 1 - 1).toNat = k := by omega
    simp only [subscript, h1, if_true, h2, List.getElem?_eq_getElem hk, Option.getD_some]
  · intro h
    unfold subscript
    split
    · have : xs.length ≤ (n - 1).toNat := by omega
      rw [List.getElem?_eq_none this]; rfl
    · rfl

/-- `array_length` is the number of elements -/
theorem array_length_spec (t : VType) (xs : List Value) :
    callFunction O .arrayLength [.array t xs] = .ok (.int xs.length) := rfl

/-- `array_cat` is concatenation — for arrays of the same element type; different element types are an error -/
theorem array_cat_spec (t u : VType) (xs ys : List Value) :
    (t = u → callFunction O .arrayCat [.array t xs, .array u ys] = .ok (.array t (xs ++ ys))) ∧
    (t ≠ u → callFunction O .arrayCat [.array t xs, .array u ys] = .error .undefinedFunction) := by
  constructor <;> intro h <;> simp [callFunction, h]

/-- `array_append(a, x)` puts `x` last, `array_prepend(x, a)` first — when `x` has the element type of `a`; an element
of another type, or NULL (which has no type), is an error -/
theorem array_append_prepend_spec (t : VType) (xs : List Value) (x : Value) :
    (x.valueType = some t →
      callFunction O .arrayAppend [.array t xs, x] = .ok (.array t (xs ++ [x])) ∧
      callFunction O .arrayPrepend [x, .array t xs] = .ok (.array t (x :: xs))) ∧
    (x.valueType ≠ some t →
      callFunction O .arrayAppend [.array t xs, x] = .error .undefinedFunction ∧
      callFunction O .arrayPrepend [x, .array t xs] = .error .undefinedFunction) := by
  constructor
  · intro h
    have : (some t == x.valueType) = true := by rw [h]; simp
    simp only [callFunction, this, if_true, and_self]
  · intro h
    have : (some t == x.valueType) = false := by
      cases hx : (some t == x.valueType)
      · rfl
      · exact absurd (eq_of_beq hx).symm h
    simp only [callFunction, this, Bool.false_eq_true, if_false, and_self]

/-- the array functions applied to something that is not an array (NULL included) are errors -/
theorem array_functions_type_error (v w : Value) (h : ∀ t xs, v ≠ .array t xs) :
    callFunction O .arrayLength [v] = .error .undefinedFunction ∧
    callFunction O .arrayUnique [v] = .error .undefinedFunction ∧
    callFunction O .arrayCat [v, w] = .error .undefinedFunction ∧
    callFunction O .arrayCat [w, v] = .error .undefinedFunction ∧
    callFunction O .arrayAppend [v, w] = .error .undefinedFunction ∧
    callFunction O .arrayPrepend [w, v] = .error .undefinedFunction := by
  cases v <;> (try exact absurd rfl (h _ _)) <;> cases w <;> exact ⟨rfl, rfl, rfl, rfl, rfl, rfl⟩

/-- **subscripts on the results address what you expect**: `(array_cat a b)[i]` is `a[i]` for `i ≤ |a|` and
`b[i − |a|]` beyond -/
theorem subscript_cat (xs ys : List Value) (n : Int) :
    subscript (xs ++ ys) n = if n ≤ xs.length then subscript xs n else subscript ys (n - xs.length) := by
  unfold subscript
  by_cases h1 : n ≥ 1
  · by_cases h2 : n ≤ xs.length
    · have hk : (n - 1).toNat < xs.length := by omega
      simp only [h1, h2, if_true, List.getElem?_append_left hk]
    · have hk : xs.length ≤ (n - 1).toNat := by omega
      have h3 : n - xs.length ≥ 1 := by omega
      have h4 : (n - 1).toNat - xs.length = (n - xs.length - 1).toNat := by omega
      simp only [h1, h2, h3, if_true, if_false, List.getElem?_append_right hk, h4]
  · have h2 : n ≤ xs.length := by omega
    simp only [h1, h2, if_true, if_false]

/-- `(array_append a x)[|a| + 1] = x`, the earlier subscripts are those of `a`; `(array_prepend x a)[1] = x` and
`(array_prepend x a)[i + 1] = a[i]` -/
theorem subscript_append_prepend (xs : List Value) (x : Value) (n : Int) :
    subscript (xs ++ [x]) (xs.length + 1) = x ∧
    (n ≤ xs.length → subscript (xs ++ [x]) n = subscript xs n) ∧
    subscript (x :: xs) 1 = x ∧
    (n ≥ 1 → subscript (x :: xs) (n + 1) = subscript xs n) := by
  refine ⟨?_, ?_, rfl, ?_⟩
  · rw [subscript_cat]
    have : ¬ ((xs.length : Int) + 1 ≤ xs.length) := by omega
    have e : (xs.length : Int) + 1 - xs.length = 1 := by omega
    simp only [this, if_false, e]; rfl
  · intro h
    rw [subscript_cat]; simp only [h, if_true]
  · intro h
    unfold subscript
    have h1 : n + 1 ≥ 1 := by omega
    have e : (n + 1 - 1).toNat = (n - 1).toNat + 1 := by omega
    simp only [h1, h, if_true, e, List.getElem?_cons_succ]

/-- at the level of expressions: subscripting `array_cat(a, b)` -/
theorem index_of_array_cat (a b i : Expr) (t : VType) (xs ys : List Value) (n : Int)
    (ha : eval O env a = .ok (.array t xs)) (hb : eval O env b = .ok (.array t ys)) (hi : eval O env i = .ok (.int n)) :
    eval O env (.index (.call .arrayCat [a, b]) i) =
      .ok (if n ≤ xs.length then subscript xs n else subscript ys (n - xs.length)) := by
  have hc : eval O env (.call .arrayCat [a, b]) = .ok (.array t (xs ++ ys)) := by
    simp [eval, evalList, ha, hb, bind, Outcome.bind, pure, callFunction]
  rw [eval_index O env _ i t _ n hc hi, subscript_cat]

/-- **`array[…]`: all elements of one type, else an error.** The element type is the type of the first non-NULL
element; NULL elements are allowed next to typed ones; an array without any typed element has no type: an error -/
theorem create_array_spec (args : List Value) :
    (∀ t, (∃ v ∈ args, v.valueType = some t) → (∀ v ∈ args, v = .null ∨ v.valueType = some t) →
      callFunction O .createArray args = .ok (.array t args)) ∧
    (∀ v ∈ args, ∀ w ∈ args, v.valueType ≠ none → w.valueType ≠ none → v.valueType ≠ w.valueType →
      callFunction O .createArray args = .error .typeError) ∧
    ((∀ v ∈ args, v = .null) → callFunction O .createArray args = .error .expectedArrayElementType) := by
  refine ⟨?_, ?_, ?_⟩
  · rintro t ⟨v, hv, hvt⟩ hall
    have hmem : t ∈ args.filterMap Value.valueType := List.mem_filterMap.2 ⟨v, hv, hvt⟩
    have hsame : ∀ u ∈ args.filterMap Value.valueType, u = t := by
      intro u hu
      obtain ⟨w, hw, hwt⟩ := List.mem_filterMap.1 hu
      rcases hall w hw with h | h
      · subst h; cases hwt
      · rw [h] at hwt; exact (Option.some.inj hwt).symm
    simp only [callFunction]
    cases hl : args.filterMap Value.valueType with
    | nil => rw [hl] at hmem; cases hmem
    | cons u us =>
      rw [hl] at hsame
      have hu : u = t := hsame u List.mem_cons_self
      subst hu
      have : us.all (· == u) = true := by
        simp only [List.all_eq_true, beq_iff_eq]
        intro x hx; exact hsame x (List.mem_cons_of_mem _ hx)
      simp only [this, if_true]
  · intro v hv w hw hvn hwn hne
    obtain ⟨tv, htv⟩ := Option.ne_none_iff_exists'.1 hvn
    obtain ⟨tw, htw⟩ := Option.ne_none_iff_exists'.1 hwn
    have hmv : tv ∈ args.filterMap Value.valueType := List.mem_filterMap.2 ⟨v, hv, htv⟩
    have hmw : tw ∈ args.filterMap Value.valueType := List.mem_filterMap.2 ⟨w, hw, htw⟩
    simp only [callFunction]
    cases hl : args.filterMap Value.valueType with
    | nil => rw [hl] at hmv; cases hmv
    | cons u us =>
      rw [hl] at hmv hmw
      have : us.all (· == u) = false := by
        cases hall : us.all (· == u)
        · rfl
        · exfalso
          simp only [List.all_eq_true, beq_iff_eq] at hall
          have e1 : tv = u := by
            rcases List.mem_cons.1 hmv with h | h
            · exact h
            · exact hall _ h
          have e2 : tw = u := by
            rcases List.mem_cons.1 hmw with h | h
            · exact h
            · exact hall _ h
          apply hne; rw [htv, htw, e1, e2]
      simp only [this, Bool.false_eq_true, if_false]
  · intro hall
    have : args.filterMap Value.valueType = [] := by
      apply List.filterMap_eq_nil_iff.2
      intro v hv; rw [hall v hv]; rfl
    simp only [callFunction, this]

example : callFunction {} .createArray [.int 1, .null, .int 3] = .ok (.array .int [.int 1, .null, .int 3]) ∧
    callFunction {} .createArray [.int 1, .text [97]] = .error .typeError ∧
    callFunction {} .createArray [.null, .null] = .error .expectedArrayElementType ∧
    callFunction {} .createArray [] = .error .expectedArrayElementType ∧
    callFunction {} .arrayCat [.array .int [.int 1], .array .text []] = .error .undefinedFunction ∧
    callFunction {} .arrayAppend [.array .int [.int 1], .null] = .error .undefinedFunction ∧
    callFunction {} .arrayAppend [.array .int [.int 1], .int 2] = .ok (.array .int [.int 1, .int 2]) ∧
    callFunction {} .arrayPrepend [.int 2, .array .int [.int 1]] = .ok (.array .int [.int 2, .int 1]) :=
  ⟨rfl, rfl, rfl, rfl, rfl, rfl, rfl, rfl⟩
example : subscript [.int 10, .int 20] 2 = .int 20 ∧ subscript [.int 10, .int 20] 0 = .null ∧
    subscript [.int 10, .int 20] 3 = .null ∧ subscript [.int 10, .int 20] (-1) = .null := ⟨rfl, rfl, rfl, rfl⟩
example : eval {} {} (.index (.call .arrayCat [.value (.array .int [.int 1, .int 2]), .value (.array .int [.int 3])]) (.value (.int 3))) =
    .ok (.int 3) := rfl


/-! ## E. casts -/

/-- `x::T` for `x` already of type `T` is `x` (every type, arrays included) -/
theorem cast_same_type (v : Value) (t : VType) (h : v.valueType = some t) : castValue O v t = .ok v := by
  cases v <;> simp only [Value.valueType, Option.some.injEq, reduceCtorEq] at h <;> subst h
  · simp [castValue, Value.valueType]
  · simp [castValue, Value.valueType]
  · simp [castValue, Value.valueType]
  · rfl
  · simp [castValue, Value.valueType]
  · simp [castValue, Value.valueType]
  · simp [castValue]

/-- **anything that is not TEXT cast to TEXT is its displayed form** (`Display for Value`: `display`) — INT, REAL,
BOOLEAN, TIMESTAMP, INTERVAL, arrays, and NULL (`'NULL'`) -/
theorem cast_to_text_is_display (v : Value) (h : v.valueType ≠ some .text) :
    castValue O v .text = .ok (.text (strBytes (display v))) := by
  cases v <;> simp only [Value.valueType, ne_eq, not_true_eq_false] at h <;>
    simp [castValue, Value.valueType, display]

/-- the displayed form of an INT is its canonical decimal rendering -/
theorem display_int (n : Int) : strBytes (display (.int n)) = Lit.renderInt n := by
  simp only [display, strBytes_toString_int]

/-- **INT round trip: `(n::text)::int = n` for every `i64`** -/
theorem cast_int_text_int (n : Int) (h : inI64 n = true) :
    ∃ s, castValue O (.int n) .text = .ok (.text s) ∧ castValue O (.text s) .int = .ok (.int n) := by
  refine ⟨strBytes (toString n), ?_, ?_⟩
  · simp [castValue, Value.valueType, display]
  · simp only [castValue, parseLit, parseI64_toString n h, Option.map_some, Outcome.bind]

/-- **TEXT → T is exactly literal parsing**: the cast has the value `parseLit` reads from the text and fails with
`FailedToConvert` when the text is not a literal of the type … -/
theorem cast_text_is_parseLit (s : Bytes) (t : VType) :
    castValue O (.text s) t = (parseLit O t s).bind (fun r => match r with
      | some x => .ok x
      | none => .error .failedToConvert) := rfl

/-- … where INT, BOOLEAN and INTERVAL literals are read by the same functions extraction uses (characterised in
C01: `parseI64_exact`, `parseBool_exact`, `parseInterval_exact`), TEXT is taken as it is, and no text is an array.
(REAL and TIMESTAMP literals are read by `f64::from_str` and chrono's `parse_from_str`, oracles of the correspondence.) -/
theorem cast_text_cases (s : Bytes) :
    castValue O (.text s) .int = (match Lit.parseI64 s with | some n => .ok (.int n) | none => .error .failedToConvert) ∧
    castValue O (.text s) .bool = (match Lit.parseBool s with | some b => .ok (.bool b) | none => .error .failedToConvert) ∧
    castValue O (.text s) .interval = (match Lit.parseInterval s with | some v => .ok v | none => .error .failedToConvert) ∧
    castValue O (.text s) .text = .ok (.text s) ∧
    (∀ e, castValue O (.text s) (.array e) = .error .failedToConvert) := by
  refine ⟨?_, ?_, ?_, rfl, fun e => rfl⟩
  · rw [cast_text_is_parseLit, parseLit_int]; cases Lit.parseI64 s <;> rfl
  · rw [cast_text_is_parseLit, parseLit_bool]; cases Lit.parseBool s <;> rfl
  · rw [cast_text_is_parseLit, parseLit_interval]; cases Lit.parseInterval s <;> rfl

/-- NULL cast to anything but TEXT is the error `ExpectedNonNull` -/
theorem cast_null (t : VType) (h : t ≠ .text) : castValue O .null t = .error .expectedNonNull := by
  have : (t == VType.text) = false := by simpa using h
  simp only [castValue, this, Bool.false_eq_true, if_false]

/-- **INTERVAL → INT is whole seconds truncated toward zero** (`num_seconds`), → REAL is whole milliseconds / 1000 -/
theorem cast_interval_int (ns : Int) :
    castValue O (.interval ns) .int = .ok (.int (Int.tdiv ns 1000000000)) ∧
    castValue O (.interval ns) .real = .ok (.real (F64.div (F64.ofInt (Int.tdiv ns 1000000)) (F64.ofInt 1000))) := ⟨rfl, rfl⟩

/-- truncation toward zero: the result times 10⁹ is within less than a second of the interval, on the side of zero -/
theorem tdiv_toward_zero (ns : Int) :
    (0 ≤ ns → Int.tdiv ns 1000000000 * 1000000000 ≤ ns ∧ ns < (Int.tdiv ns 1000000000 + 1) * 1000000000) ∧
    (ns ≤ 0 → ns ≤ Int.tdiv ns 1000000000 * 1000000000 ∧ (Int.tdiv ns 1000000000 - 1) * 1000000000 < ns) := by
  constructor <;> intro h0
  · rw [Int.tdiv_eq_ediv_of_nonneg h0]; omega
  · have e : Int.tdiv ns 1000000000 = -((-ns) / 1000000000) := by
      have h1 := Int.neg_tdiv (a := -ns) (b := 1000000000)
      rw [Int.neg_neg] at h1
      rw [h1, Int.tdiv_eq_ediv_of_nonneg (by omega)]
    rw [e]; omega

/-- **everything else is a type error — never a wrong value**: a non-NULL, non-TEXT value cast to a type that is
neither its own nor TEXT (nor INT/REAL from an INTERVAL) -/
theorem cast_type_error (v : Value) (t : VType) (hn : v ≠ .null) (ht : v.valueType ≠ some .text)
    (hs : v.valueType ≠ some t) (htt : t ≠ .text)
    (hi : ¬ (v.valueType = some .interval ∧ (t = .int ∨ t = .real))) :
    castValue O v t = .error .typeError := by
  have e : (t == VType.text) = false := by simpa using htt
  cases v <;> simp only [Value.valueType, ne_eq, not_true_eq_false, true_and, not_or] at hn ht hs hi
  · have : (some VType.int == some t) = false := by simpa using hs
    simp only [castValue, Value.valueType, this, e, Bool.false_eq_true, if_false]
  · have : (some VType.real == some t) = false := by simpa using hs
    simp only [castValue, Value.valueType, this, e, Bool.false_eq_true, if_false]
  · have : (some VType.bool == some t) = false := by simpa using hs
    simp only [castValue, Value.valueType, this, e, Bool.false_eq_true, if_false]
  · rename_i u xs
    have : (some (VType.array u) == some t) = false := by simpa using hs
    simp only [castValue, Value.valueType, this, e, Bool.false_eq_true, if_false]
  · have : (some VType.timestamp == some t) = false := by simpa using hs
    simp only [castValue, Value.valueType, this, e, Bool.false_eq_true, if_false]
  · have e1 : (t == VType.int) = false := by simpa using hi.1
    have e2 : (t == VType.real) = false := by simpa using hi.2
    have e3 : (t == VType.interval) = false := by
      cases h3 : (t == VType.interval)
      · rfl
      · exact absurd (by rw [eq_of_beq h3]) hs
    simp only [castValue, e1, e2, e3, e, Bool.false_eq_true, if_false]

/-- **the complete table**: whatever the operand and the target type, a cast either fails or yields the operand
itself, its displayed text, the literal read from its text, or the whole seconds of an interval — there is no other
value a cast can produce -/
theorem cast_never_a_wrong_value (v r : Value) (t : VType) (h : castValue O v t = .ok r) :
    (v.valueType = some t ∧ r = v) ∨
    (t = .text ∧ r = .text (strBytes (display v))) ∨
    (∃ s, v = .text s ∧ parseLit O t s = .ok (some r)) ∨
    (∃ ns, v = .interval ns ∧ ((t = .int ∧ r = .int (Int.tdiv ns 1000000000)) ∨
      (t = .real ∧ r = .real (F64.div (F64.ofInt (Int.tdiv ns 1000000)) (F64.ofInt 1000))))) := by
  by_cases hs : v.valueType = some t
  · left; rw [cast_same_type O v t hs] at h; injection h with h; exact ⟨hs, h.symm⟩
  · by_cases htxt : v.valueType = some .text
    · right; right; left
      cases v <;> simp only [Value.valueType, Option.some.injEq, reduceCtorEq] at htxt
      rename_i s
      refine ⟨s, rfl, ?_⟩
      rw [cast_text_is_parseLit] at h
      cases hp : parseLit O t s with
      | ok o =>
        rw [hp] at h
        cases o with
        | none => cases h
        | some x => injection h with h; rw [h]
      | error k => rw [hp] at h; cases h
      | panic k => rw [hp] at h; cases h
      | oracleMissing k => rw [hp] at h; cases h
    · by_cases ht : t = .text
      · right; left
        subst ht
        rw [cast_to_text_is_display O v htxt] at h
        injection h with h
        exact ⟨rfl, h.symm⟩
      · by_cases hn : v = .null
        · subst hn; rw [cast_null O t ht] at h; cases h
        · by_cases hi : v.valueType = some .interval ∧ (t = .int ∨ t = .real)
          · right; right; right
            obtain ⟨hv, hti⟩ := hi
            cases v <;> simp only [Value.valueType, Option.some.injEq, reduceCtorEq] at hv
            rename_i ns
            refine ⟨ns, rfl, ?_⟩
            rcases hti with hti | hti <;> subst hti
            · left; rw [(cast_interval_int O ns).1] at h; injection h with h; exact ⟨rfl, h.symm⟩
            · right; rw [(cast_interval_int O ns).2] at h; injection h with h; exact ⟨rfl, h.symm⟩
          · rw [cast_type_error O v t hn htxt hs ht hi] at h; cases h

example : castValue {} (.int (-42)) .text = .ok (.text [45, 52, 50]) ∧
    castValue {} (.text [45, 52, 50]) .int = .ok (.int (-42)) ∧
    castValue {} (.text [43, 55]) .int = .ok (.int 7) ∧
    castValue {} (.text [32, 55]) .int = .error .failedToConvert ∧
    castValue {} (.text [116, 114, 117, 101]) .bool = .ok (.bool true) ∧
    castValue {} (.text [84, 82, 85, 69]) .bool = .error .failedToConvert ∧
    castValue {} (.text [49, 58, 50, 58, 51]) .interval = .ok (.interval 3723000000000) ∧
    castValue {} (.interval (-1500000000)) .int = .ok (.int (-1)) ∧
    castValue {} (.interval 1999999999) .int = .ok (.int 1) ∧
    castValue {} .null .int = .error .expectedNonNull ∧
    castValue {} (.int 1) .real = .error .typeError ∧
    castValue {} (.bool true) .int = .error .typeError ∧
    castValue {} (.timestamp 1 0 0) .interval = .error .typeError ∧
    castValue {} (.array .int [.int 1]) (.array .text) = .error .typeError ∧
    castValue {} (.array .int [.int 1]) (.array .int) = .ok (.array .int [.int 1]) := by
  have e : strBytes (Int.repr (-42)) = [45, 52, 50] := by
    have : strBytes (toString (-42 : Int)) = _ := strBytes_toString_int (-42)
    rw [show toString (-42 : Int) = Int.repr (-42) from rfl] at this
    rw [this]
    have r : Lit.renderNat 42 = [52, 50] := by
      rw [Lit.renderNat, if_neg (by decide), Lit.renderNat, if_pos (by decide)]; rfl
    show (if (-42 : Int) < 0 then 45 :: Lit.renderNat 42 else Lit.renderNat 42) = _
    rw [r]; rfl
  refine ⟨?_, rfl, rfl, rfl, ?_, ?_, rfl, rfl, rfl, rfl, rfl, rfl, rfl, rfl, rfl⟩
  · simp [castValue, Value.valueType, display, e]
  · rw [(cast_text_cases {} _).2.1]; rfl
  · rw [(cast_text_cases {} _).2.1]; rfl
example : inI64 (-9223372036854775808) = true := by decide

/-! ### B′. REAL arithmetic: IEEE-754, exactly -/

/-- `x + y` on REALs is the model's exact addition … -/
theorem real_add_value (x y : Nat) : arith .add (.real x) (.real y) = .ok (.real (F64.addX x y)) := rfl
theorem real_sub_value (x y : Nat) : arith .sub (.real x) (.real y) = .ok (.real (F64.subX x y)) := rfl
theorem real_mul_value (x y : Nat) : arith .mul (.real x) (.real y) = .ok (.real (F64.mulX x y)) := rfl
theorem real_div_value (x y : Nat) : arith .div (.real x) (.real y) = .ok (.real (F64.divX x y)) := rfl

/-- … and **the sum of two finite REALs is a REAL nearest to their exact sum**: in units of 2^-1074 the operands are the
integers `units x`, `units y`; when the result `r` is finite its magnitude is at least as close to `|units x + units y|` as
that of every REAL `z` (round to nearest; a tie goes to the even mantissa, `DecFloat.magBits_tie_even`), and its sign is the
sign of the exact sum. (An infinite result is overflow: `DecFloat.magBits_overflow_iff`.) -/
theorem real_add_is_nearest (x y : Nat) (hx : F64.isFinite x = true) (hy : F64.isFinite y = true)
    (hr : F64.isFinite (F64.addX x y) = true) (z : Nat) :
    DecFloat.adist (F64.units x + F64.units y).natAbs (F64.umag (F64.addX x y)) ≤
      DecFloat.adist (F64.units x + F64.units y).natAbs (F64.umag z) ∧
    (F64.units x + F64.units y ≠ 0 → F64.signBit (F64.addX x y) = decide (F64.units x + F64.units y < 0)) :=
  ⟨F64.addX_nearest x y hx hy hr z, F64.addX_sign x y hx hy⟩

/-- when the exact sum is a REAL it is the result: no rounding where none is needed -/
theorem real_add_exact (x y : Nat) (hx : F64.isFinite x = true) (hy : F64.isFinite y = true)
    (h : F64.Repr (F64.units x + F64.units y)) :
    F64.isFinite (F64.addX x y) = true ∧ F64.units (F64.addX x y) = F64.units x + F64.units y :=
  ⟨(F64.addX_exact x y hx hy h).1, (F64.addX_exact x y hx hy h).2.2⟩

/-- the product of two finite REALs, when finite, is a REAL nearest to the exact product `umag x · umag y` (in units of
2^-2148; a REAL `z` is `umag z · 2^1074` of them); the sign is the XOR of the signs -/
theorem real_mul_is_nearest (x y : Nat) (hx : F64.isFinite x = true) (hy : F64.isFinite y = true)
    (hr : F64.isFinite (F64.mulX x y) = true) (z : Nat) :
    DecFloat.adist (F64.umag x * F64.umag y) (F64.umag (F64.mulX x y) * F64.unitScale) ≤
      DecFloat.adist (F64.umag x * F64.umag y) (F64.umag z * F64.unitScale) :=
  F64.mulX_nearest x y hx hy hr z

/-- the quotient of two finite REALs (divisor not zero), when finite, is a REAL nearest to the exact quotient
`umag x / umag y` (cross-multiplied with the divisor) -/
theorem real_div_is_nearest (x y : Nat) (hx : F64.isFinite x = true) (hy : F64.isFinite y = true) (hz : F64.mag y ≠ 0)
    (hr : F64.isFinite (F64.divX x y) = true) (z : Nat) :
    DecFloat.adist (F64.umag x * F64.unitScale) (F64.umag (F64.divX x y) * F64.umag y) ≤
      DecFloat.adist (F64.umag x * F64.unitScale) (F64.umag z * F64.umag y) :=
  F64.divX_nearest x y hx hy hz hr z

/-- addition and multiplication of REALs commute, bit for bit (NaN results are the canonical NaN) -/
theorem real_add_comm (x y : Nat) : arith .add (.real x) (.real y) = arith .add (.real y) (.real x) := by
  rw [real_add_value, real_add_value, F64.addX_comm]
theorem real_mul_comm (x y : Nat) : arith .mul (.real x) (.real y) = arith .mul (.real y) (.real x) := by
  rw [real_mul_value, real_mul_value, F64.mulX_comm]

/-! anchors (bit patterns; evaluated by the kernel) -/
/-- `0.1 + 0.2 = 0.30000000000000004` -/
example : F64.add 0x3fb999999999999a 0x3fc999999999999a = 0x3fd3333333333334 := by decide +kernel
/-- `1e308 + 1e308 = inf`, `-1e308 - 1e308 = -inf` -/
example : F64.add 0x7fe1ccf385ebc8a0 0x7fe1ccf385ebc8a0 = 0x7ff0000000000000 := by decide +kernel
example : F64.sub 0xffe1ccf385ebc8a0 0x7fe1ccf385ebc8a0 = 0xfff0000000000000 := by decide +kernel
/-- `5.0 / 2.0 = 2.5`, `1.0 / 3.0 = 0.3333333333333333`, `1.0 / 0.0 = inf`, `0.0 / 0.0 = NaN` -/
example : F64.div 0x4014000000000000 0x4000000000000000 = 0x4004000000000000 := by decide +kernel
example : F64.div 0x3ff0000000000000 0x4008000000000000 = 0x3fd5555555555555 := by decide +kernel
example : F64.div 0x3ff0000000000000 0 = 0x7ff0000000000000 := by decide +kernel
example : F64.div 0 0 = F64.canonNaN := by decide +kernel
/-- `sqrt 2.25 = 1.5`, `sqrt 2.0 = 1.4142135623730951`, `sqrt -1.0 = NaN`, `sqrt -0.0 = -0.0` -/
example : F64.sqrt 0x4002000000000000 = 0x3ff8000000000000 := by decide +kernel
example : F64.sqrt 0x4000000000000000 = 0x3ff6a09e667f3bcd := by decide +kernel
example : F64.sqrt 0xbff0000000000000 = F64.canonNaN := by decide +kernel
example : F64.sqrt 0x8000000000000000 = 0x8000000000000000 := by decide +kernel
/-- signed zeros: `x − x = +0.0`, `-0.0 + 0.0 = +0.0`, `-0.0 + -0.0 = -0.0`, `0.0 · -1.0 = -0.0` -/
example : F64.sub 0x3ff8000000000000 0x3ff8000000000000 = 0 := by decide +kernel
example : F64.add 0x8000000000000000 0 = 0 := by decide +kernel
example : F64.add 0x8000000000000000 0x8000000000000000 = 0x8000000000000000 := by decide +kernel
example : F64.mul 0 0xbff0000000000000 = 0x8000000000000000 := by decide +kernel
/-- `inf − inf`, `0 · inf` are NaN; the smallest subnormal halves to zero (tie to even), `2^53 + 1` as an INT becomes `2^53` -/
example : F64.sub 0x7ff0000000000000 0x7ff0000000000000 = F64.canonNaN := by decide +kernel
example : F64.mul 0 0x7ff0000000000000 = F64.canonNaN := by decide +kernel
example : F64.mul 1 0x3fe0000000000000 = 0 := by decide +kernel
example : F64.ofInt 9007199254740993 = 0x4340000000000000 := by decide +kernel
/-- whole expressions are evaluated by the kernel now: `(0.5 + 1.5) * 2.25 / 3.0 = 1.5` -/
example : (match eval {} {} (.arith .div (.arith .mul (.arith .add (.value (.real 0x3fe0000000000000)) (.value (.real 0x3ff8000000000000)))
    (.value (.real 0x4002000000000000))) (.value (.real 0x4008000000000000))) with | .ok (.real b) => some b | _ => none) = some 0x3ff8000000000000 := by
  decide +kernel

end Sqlgrep.Props.C03Func
