import SqlgrepModel.Lemmas.NoPanic
import SqlgrepModel.Lemmas.NoPanicEngine
import SqlgrepModel.Props.C03
import SqlgrepModel.Lemmas.RowIndex
/-
C09 — execution is total: results or an error message, never a crash, never a silently wrapped number.

Where the model has explicit panic outcomes (`Outcome.panic`) "never panics" is a statement with content: the two
indexing sites of `execute_result` in `Model/Engine.lean` (`cellOf`) are shown unreachable (`run_never_panics`, second
part of this file); likewise the lowering (Props/C14 `lower_never_panics`) and `extractNear` (Props/C14Lex). The
evaluator, literal parsing, extraction, reader and printer models contain NO panic constructor — the repaired code has
no data-reachable panic site left there (checked arithmetic and casts, guarded argument access) and the model mirrors
that — so `eval_never_panics`, `eval_list_never_panics` and `parse_literal_never_panics` below are true by
construction: they are regression obligations, not evidence about the code. The evidence that the CODE does not
panic there is the harness (every case under catch_unwind with overflow checks on). The content of the first part is
`int_arith_in_range` / `negate_exact` (no silent wrap-around: an INT result is the exact result, within 64 bits),
`div_by_zero_is_error`, `subscript_total`. All model functions are total (structural recursion: termination is checked
by Lean). `oracleMissing` is answered only for external facts a case did not ship (a literal / regex / case mapping
of a computed text, `now()`); leap-second arithmetic and STDDEV of INTERVAL are modelled (the one `expect` chrono's
`duration_trunc` contains is proved unreachable: `Lemmas/FuncLeap.lean` `dateTrunc_shift_in_range`).
What no executable model exhibits (panics inside regex / serde_json / chrono, stack exhaustion, allocation
failure, hangs, non-UTC zones) is covered by the harness runs only (see DESIGN.md section 13).
-/
namespace Sqlgrep.Props.C09
open Sqlgrep

/-- the evaluator never panics: every outcome is a value, a reported error, or an oracle request -/
theorem eval_never_panics (O : Oracles) (env : Env) (e : Expr) : ∀ site, eval O env e ≠ .panic site := by
  intro site h
  have := NP_eval O env e
  rw [h] at this
  simp [NP, Outcome.isPanic] at this

theorem eval_list_never_panics (O : Oracles) (env : Env) (es : List Expr) : ∀ site, evalList O env es ≠ .panic site := by
  intro site h
  have := NP_evalList O env es
  rw [h] at this
  simp [NP, Outcome.isPanic] at this

/-- literal parsing (`ValueType::parse`, used by casts and by extraction) never panics — including interval
texts whose parts leave chrono's range -/
theorem parse_literal_never_panics (O : Oracles) (t : VType) (s : Bytes) : ∀ site, parseLit O t s ≠ .panic site := by
  intro site h
  have := NP_parseLit O t s
  rw [h] at this
  simp [NP, Outcome.isPanic] at this

/-- **`ValueType::parse` needs no oracle**: whatever facts a case ships (none, some, all), converting a text to a
literal never stops for a missing fact — `f64::from_str` is `DecFloat.parseF64N` (Model/DecFloat.lean) and chrono's
`%Y-%m-%d %H:%M:%S` parse is `Lit.parseTimestampLit` where no fact is shipped. -/
theorem parse_literal_needs_no_oracle (O : Oracles) (t : VType) (s : Bytes) : ∀ w, parseLit O t s ≠ .oracleMissing w := by
  intro w
  unfold parseLit
  cases t <;> simp only [] <;> (try split) <;> (try split) <;> (try split) <;> intro h <;> cases h

/-- with no shipped fact a REAL literal is `f64::from_str` as computed in Lean -/
theorem parse_real_is_parseF64 (s : Bytes) : parseLit {} .real s = .ok ((DecFloat.parseF64N s).map .real) := rfl

/-- no silent wrap-around: an INT result is always the exact mathematical result, within 64 bits -/
theorem int_arith_in_range (op : ArithOp) (x y r : Int) (h : arith op (.int x) (.int y) = .ok (.int r)) :
    inI64 r = true ∧ r = (match op with
      | .add => x + y | .sub => x - y | .mul => x * y | .div => Int.tdiv x y) := by
  cases op <;> simp only [arith, checked] at h
  all_goals
    split at h
    · rename_i v hv
      split at hv <;> simp_all
      all_goals (try (obtain ⟨h1, h2⟩ := hv; subst h2; exact h1))
    · simp at h

theorem negate_exact (x r : Int) (h : negate (.int x) = .ok (.int r)) : inI64 r = true ∧ r = -x := by
  simp only [negate, checked] at h
  split at h
  · rename_i v hv
    split at hv <;> simp_all
  · simp at h

/-- division by zero is an error -/
theorem div_by_zero_is_error (x : Int) : arith .div (.int x) (.int 0) = .error .undefinedOperation := by
  simp [arith]

/-- huge or negative subscripts give NULL, never an out-of-bounds access -/
theorem subscript_total (O : Oracles) (env : Env) (a i : Expr) (t : VType) (xs : List Value) (n : Int)
    (ha : eval O env a = .ok (.array t xs)) (hi : eval O env i = .ok (.int n))
    (hout : n < 1 ∨ n > xs.length) : eval O env (.index a i) = .ok .null := by
  rw [Props.C03.subscript_one_based O env a i t xs n ha hi]
  rcases hout with h | h
  · have : ¬ n ≥ 1 := by omega
    simp [this]
  · have h1 : n ≥ 1 := by omega
    have h2 : xs.length ≤ n.toNat - 1 := by omega
    simp [h1, List.getElem?_eq_none h2]

example : eval {} {} (.arith .mul (.value (.int 3037000500)) (.value (.int 3037000500))) = .error .undefinedOperation := by rfl
example : eval {} {} (.neg (.value (.int (-9223372036854775808)))) = .error .undefinedOperation := by rfl
example : eval {} {} (.call .pow [.value (.int 3), .value (.int 70)]) = .error .undefinedFunction := by rfl
example : mkInterval 9999999999999999 0 0 = none := by rfl

/-! ### statement level: a whole batch run never panics -/

open Sqlgrep.NoPanicEngine in
/-- **C09 at the level of a whole run.** For every statement (SELECT or aggregate, with WHERE / GROUP BY / HAVING /
DISTINCT / LIMIT / JOIN), every table, every joined file, every list of input files with any rows, every
interrupt point and all oracle tables, a batch run never ends in a panic: it ends with records, with a reported error, or —
only when the case did not ship an external fact the run needed (a regex verdict, a Unicode case mapping; since
`Model/DecFloat.lean` no longer a number text) — as `skipped`, which the check counts and never compares.
The two indexing sites of `execute_result` (`group_key_mapping[&hash]`, `group_key.0[index]`) are shown
unreachable through the invariant `Inv` (a group exists only after an update that validated every `GroupKey`
item, and every stored key has one value per GROUP BY part). -/
theorem run_never_panics (O : Oracles) (qy : Query) (joined : List FileLine) (files : List (List FileLine))
    (stopAt : Option Nat) : (runBatch O qy joined files stopAt).panicked = false := by
  have hfw : ∀ (o : Outcome JoinIndex), NP o → (failWith ({} : RunOut) o).panicked = false :=
    fun o hn => failWith_panicked {} o hn rfl
  have body : ∀ idx : JoinIndex, ∀ w : Bool,
      LInv qy (runFiles O qy idx w stopAt files {}) := fun idx w =>
    runFiles_inv O qy idx w stopAt files {} ⟨rfl, EInv.init qy⟩
  unfold runBatch
  cases hq : qy.stmt with
  | select q =>
    cases hj : qy.join with
    | none => dsimp only; split <;> exact (body _ _).np
    | some j =>
      dsimp only
      have hn := NP_setupJoin qy.table j joined
      cases hs : setupJoin qy.table j (loadJoinFile j joined) with
      | ok idx => dsimp only; split <;> exact (body _ _).np
      | error k => rfl
      | panic s => rw [hs] at hn; simp [NP, Outcome.isPanic] at hn
      | oracleMissing w => rfl
  | aggregate q =>
    have fin : ∀ idx : JoinIndex, ∀ w : Bool,
        (match finalResult O q (runFiles O qy idx w stopAt files {}).es with
          | .ok r => { (runFiles O qy idx w stopAt files {}).out with
              printed := (runFiles O qy idx w stopAt files {}).out.printed ++ printResult r true }
          | o => failWith (runFiles O qy idx w stopAt files {}).out o).panicked = false := by
      intro idx w
      have hl := body idx w
      have hinv : Inv q (runFiles O qy idx w stopAt files {}).es.agg := by
        have := hl.es; unfold EInv at this; rw [hq] at this; exact this
      have hn := NP_finalResult O q _ hinv
      cases hf : finalResult O q (runFiles O qy idx w stopAt files {}).es with
      | ok r => exact hl.np
      | error k => exact hl.np
      | panic s => rw [hf] at hn; simp [NP, Outcome.isPanic] at hn
      | oracleMissing w => exact hl.np
    cases hj : qy.join with
    | none =>
      dsimp only
      split
      · exact (body _ _).np
      · exact fin _ _
    | some j =>
      dsimp only
      have hn := NP_setupJoin qy.table j joined
      cases hs : setupJoin qy.table j (loadJoinFile j joined) with
      | ok idx =>
        dsimp only
        split
        · exact (body _ _).np
        · exact fin _ _
      | error k => rfl
      | panic s => rw [hs] at hn; simp [NP, Outcome.isPanic] at hn
      | oracleMissing w => rfl

/-- line-at-a-time execution (follow mode): from a state reached by successful steps, the next step never panics -/
theorem step_never_panics (O : Oracles) (qy : Query) (idx : JoinIndex) (w : Bool) (es : EngineState) (l : Line)
    (h : Sqlgrep.NoPanicEngine.EInv qy es) : ∀ site, executeLine O qy idx w es l ≠ .panic site := by
  intro site hx
  have := Sqlgrep.NoPanicEngine.NP_executeLine O qy idx w es l h
  rw [hx] at this
  simp [NP, Outcome.isPanic] at this

/-- … and the invariant needed for the next step holds again (so it holds along every run from the initial state) -/
theorem step_keeps_invariant (O : Oracles) (qy : Query) (idx : JoinIndex) (w : Bool) (es es' : EngineState) (l : Line)
    (lo : LineOut) (h : Sqlgrep.NoPanicEngine.EInv qy es) (hx : executeLine O qy idx w es l = .ok (es', lo)) :
    Sqlgrep.NoPanicEngine.EInv qy es' := Sqlgrep.NoPanicEngine.executeLine_inv hx h

/-! ### `row[index]` sites

The engine indexes the extracted row of a line by the position of a column name among the table's names (join keys,
`create_columns_mapping`). The engine model reads rows with `getD … NULL` (`Model/Engine.lean` `lineEnvs`, `loadJoin`,
`columnsMapping`), which would hide an out-of-range index. It cannot occur: a lowered CREATE TABLE has one name per
column, the engine looks only at admitted rows (`executeLine` / `loadJoin` test `any_result` first), an admitted row has
one value per column, and the position of a name is a position of the row. -/

/-- every `row[index]` site of the engine is in range on the rows the engine is given, and the model's default is never
taken there -/
theorem row_index_sites_in_range (rv : List Char → Bool) (c : PCreate) (n : String) (d : Extract.TableDef)
    (names : List String) (hlow : Lower.lowerCreate rv c = .ok (.createTable n d names))
    (o : Extract.Oracles) (lo : Extract.LineOracle) (hadm : Extract.anyResult (Extract.extractRow o d lo) = true)
    (col : String) (ki : Nat) (hk : indexOf? names col = some ki) :
    ∃ v, (Extract.extractRow o d lo)[ki]? = some v ∧ (Extract.extractRow o d lo).getD ki .null = v :=
  row_index_in_range names _
    ((admitted_row_full o d lo hadm).trans (lowerCreate_aligned rv c n d names hlow).symm) col ki hk

/-- a row that is not admitted is never indexed: the engines return before looking at it -/
theorem not_admitted_row_is_not_indexed (O : Oracles) (qy : Query) (idx : JoinIndex) (w : Bool) (es : EngineState)
    (l : Line) (h : anyResult l.row = false) :
    ∃ out, executeLine O qy idx w es l = .ok out := by
  unfold executeLine
  split <;> simp [h]

example (qy : Query) : Sqlgrep.NoPanicEngine.EInv qy {} := Sqlgrep.NoPanicEngine.EInv.init qy

end Sqlgrep.Props.C09
