// C19: interrupting a query stops it promptly and leaves consistent output.
// The `running` flag given to the real `FileExecutor` is cleared at an exact point of the run: from the per-line hook
// before input line k of the batch loop (every k), from the hook before line m of the joined file (loader), or from
// the capturing printer after its n-th record. Each interrupted run is compared with the Lean model interrupted at
// the same point (`intr` case kind), and the property is evaluated on the implementation itself: `total_lines`,
// prefix of the uninterrupted implementation run, aggregate table = implementation batch run over the first k
// lines, no error caused by the interruption.
use std::cell::Cell;
use std::fs::File;
use std::path::PathBuf;
use std::rc::Rc;
use std::sync::atomic::{AtomicBool, Ordering};
use std::sync::Arc;

use sqlgrep::execution::execution_engine::ExecutionEngine;
use sqlgrep::executor::{DisplayOptions, FileExecutor, FollowFileExecutor, OutputFormat};
use sqlgrep::helpers::verif_hooks::{set_follow_retry_hook, set_on_line_hook};

use crate::c04::join_lines;
use crate::c05::{defs, gen_join_spec, gen_stmt, gen_t_line, gen_u_line, model_case, Kind};
use crate::engine_run::*;
use crate::queries::*;
use crate::run::{Params, Run};
use crate::runq::{tmp_file, CapturePrinter};
use crate::util::{catch, Caught, Rng};

#[derive(Clone, Copy, Debug, PartialEq)]
pub enum Clear {
    /// before the k-th input line (0-based, over all files) is looked at by the batch loop
    Batch(usize),
    /// before the m-th line of the joined file is looked at by the loader
    Join(usize),
    /// after the printer received its n-th line (1-based)
    Printer(usize),
}

pub struct IntrResult {
    pub res: BatchResult,
    pub join_calls: usize,          // lines of the joined file the loader looked at
    pub batch_calls_at_clear: Option<usize>, // for Clear::Printer: input lines looked at when the flag was cleared
    pub cleared: bool,
}

/// the real batch run with the flag cleared at `clear`
pub fn run_files_intr(p: &Prepared, files: &[Vec<u8>], clear: Clear) -> IntrResult {
    let paths: Vec<PathBuf> = files.iter().map(|c| tmp_file(c)).collect();
    let mut total_lines = 0u64;
    let mut printed: Vec<String> = Vec::new();
    let running = Arc::new(AtomicBool::new(true));
    let join_calls = Rc::new(Cell::new(0usize));
    let batch_calls = Rc::new(Cell::new(0usize));
    let at_clear: Rc<Cell<Option<usize>>> = Rc::new(Cell::new(None));
    let cleared = Rc::new(Cell::new(false));
    {
        let (running, join_calls, batch_calls, cleared) = (running.clone(), join_calls.clone(), batch_calls.clone(), cleared.clone());
        set_on_line_hook(Some(Box::new(move |site: &str| {
            match site {
                "join" => {
                    if clear == Clear::Join(join_calls.get()) { running.store(false, Ordering::SeqCst); cleared.set(true); }
                    join_calls.set(join_calls.get() + 1);
                }
                "batch" => {
                    if clear == Clear::Batch(batch_calls.get()) { running.store(false, Ordering::SeqCst); cleared.set(true); }
                    batch_calls.set(batch_calls.get() + 1);
                }
                _ => {}
            }
        })));
    }
    let res = catch(|| -> Result<(), String> {
        let mut fs = Vec::new();
        for path in &paths {
            fs.push(File::open(path).map_err(|_| "err:FailOpenFile".to_owned())?);
        }
        let display = DisplayOptions { output_format: OutputFormat::Text, single_result: false, print_result: true };
        let engine = ExecutionEngine::new(&p.tables, &p.statement);
        let mut printer = CapturePrinter::new();
        if let Clear::Printer(n) = clear {
            let (running, batch_calls, at_clear, cleared) = (running.clone(), batch_calls.clone(), at_clear.clone(), cleared.clone());
            printer.on_print = Some(Box::new(move |count: usize| {
                if count == n {
                    running.store(false, Ordering::SeqCst);
                    at_clear.set(Some(batch_calls.get()));
                    cleared.set(true);
                }
            }));
        }
        let mut executor = FileExecutor::with_output_printer(running.clone(), fs, display, printer, engine).map_err(|_| "err:Io".to_owned())?;
        let r = executor.execute();
        total_lines = executor.statistics().total_lines;
        printed = executor.output_printer().printer().lines.clone();
        r.map_err(|e| format!("err:{}", exec_err_kind(&e)))
    });
    set_on_line_hook(None);
    for path in paths {
        let _ = std::fs::remove_file(path);
    }
    let status = match res {
        Caught::Done(Ok(())) => "ok".to_owned(),
        Caught::Done(Err(e)) => e,
        Caught::Panic(_) => "panic".to_owned(),
    };
    IntrResult { res: BatchResult { status, total_lines, printed }, join_calls: join_calls.get(), batch_calls_at_clear: at_clear.get(), cleared: cleared.get() }
}

// ---------- follow mode ----------

/// run `f` with the process's stdout (fd 1) redirected into a file; returns what was written
pub fn capture_stdout<F: FnOnce()>(f: F) -> Vec<u8> {
    use std::io::Write;
    use std::os::unix::io::AsRawFd;
    let _ = std::io::stdout().flush();
    let path = tmp_file(b"");
    let file = std::fs::OpenOptions::new().write(true).truncate(true).open(&path).unwrap();
    let saved = unsafe { libc::dup(1) };
    unsafe { libc::dup2(file.as_raw_fd(), 1); }
    f();
    let _ = std::io::stdout().flush();
    unsafe { libc::dup2(saved, 1); libc::close(saved); }
    drop(file);
    let out = std::fs::read(&path).unwrap_or_default();
    let _ = std::fs::remove_file(path);
    out
}

/// the real `FollowFileExecutor` (`--follow --head`) over a file that holds the first `k` lines when the run starts;
/// when the reader reaches its end the retry hook clears the `running` flag and appends the remaining lines
/// (`clear_at = None`: the file holds all lines and the flag is never cleared). Returns status and printed lines.
pub fn run_follow(p: &Prepared, lines: &[String], clear_at: Option<usize>) -> (String, Vec<String>) {
    let k = clear_at.unwrap_or(lines.len()).min(lines.len());
    let interrupt = clear_at.map(|c| c < lines.len()).unwrap_or(false);
    let path = tmp_file(&join_lines(&lines[..k]));
    let rest = join_lines(&lines[k..]);
    let running = Arc::new(AtomicBool::new(true));
    {
        let (running, path, calls) = (running.clone(), path.clone(), Cell::new(0usize));
        set_follow_retry_hook(Some(Box::new(move || {
            calls.set(calls.get() + 1);
            if interrupt && calls.get() == 1 {
                use std::io::Write;
                running.store(false, Ordering::SeqCst);
                let mut f = std::fs::OpenOptions::new().append(true).open(&path).unwrap();
                f.write_all(&rest).unwrap();
                true
            } else {
                false
            }
        })));
    }
    let mut status = String::new();
    let out = capture_stdout(|| {
        let res = catch(|| -> Result<(), String> {
            let file = File::open(&path).map_err(|_| "err:FailOpenFile".to_owned())?;
            let display = DisplayOptions { output_format: OutputFormat::Text, single_result: false, print_result: true };
            let engine = ExecutionEngine::new(&p.tables, &p.statement);
            let mut executor = FollowFileExecutor::new(running.clone(), file, true, display, engine).map_err(|_| "err:Io".to_owned())?;
            executor.execute().map_err(|e| format!("err:{}", exec_err_kind(&e)))
        });
        status = match res {
            Caught::Done(Ok(())) => "ok".to_owned(),
            Caught::Done(Err(e)) => e,
            Caught::Panic(_) => "panic".to_owned(),
        };
    });
    set_follow_retry_hook(None);
    let _ = std::fs::remove_file(path);
    let text = crate::util::strip_control(&String::from_utf8_lossy(&out));
    let mut printed: Vec<String> = text.split('\n').map(|s| s.to_owned()).collect();
    if printed.last().map(|l| l.is_empty()).unwrap_or(false) { printed.pop(); }
    (status, printed)
}

fn follow_wire(status: &str, printed: &[String]) -> String {
    format!("{} out={}", status, printed.iter().map(|l| crate::util::hex(l.as_bytes())).collect::<Vec<_>>().join(","))
}

/// follow mode at every delivered-line boundary: correspondence (`followi`) and the property on the implementation
fn check_follow(run: &mut Run, prepared: &Prepared, lines: &[String], desc: &str, shape: &str) {
    let (ustatus, uprinted) = run_follow(prepared, lines, None);
    for k in 0..=lines.len() {
        let clear = if k < lines.len() { Some(k) } else { None };
        let (status, printed) = if clear.is_some() { run_follow(prepared, lines, clear) } else { (ustatus.clone(), uprinted.clone()) };
        run.count("point:follow");
        let d = format!("follow {} clear_before_delivered_line={:?}", desc, clear);
        if let Some(case) = model_case("followi", prepared, None, &[join_lines(lines)], &format!(" {}", match clear { Some(k) => k.to_string(), None => "(none)".to_owned() })) {
            let tag = format!("follow|{}|{}|{}|recs{}", shape, if clear.is_none() { "never" } else if k == 0 { "at0" } else { "mid" }, status, printed.len().min(3));
            run.case_with_desc(case, follow_wire(&status, &printed), tag, d.clone());
        }
        run.oracle_checks += 1;
        if status == "panic" { run.fail(d.clone(), "panic:interrupt", "the interrupted follow run panicked".to_owned()); continue; }
        if clear.is_none() { continue; }
        // no further delivered line is consumed, no error from the interruption: the run over the first k lines
        let (pstatus, pprinted) = run_follow(prepared, &lines[..k], None);
        if status != pstatus {
            run.fail(d.clone(), "interrupt-changes-outcome", format!("interrupted follow run answered {} but a run over the {} lines delivered before answers {}", status, k, pstatus));
        } else if printed != pprinted {
            run.fail(d.clone(), "line-consumed-after-interrupt", format!("interrupted follow run printed {:?} but a run over the {} lines delivered before prints {:?}", printed, k, pprinted));
        }
        if !is_prefix(&printed, &uprinted) {
            run.fail(d.clone(), "interrupted-output-not-a-prefix", format!("printed {:?}, uninterrupted follow run prints {:?}", printed, uprinted));
        }
    }
}

/// stands for a line that is not valid UTF-8 (cannot be read)
const BAD: &str = "\u{0}BAD";

/// file content of the lines; the `BAD` marker becomes a line of invalid UTF-8
fn join_b(lines: &[String]) -> Vec<u8> {
    let mut out = Vec::new();
    for l in lines {
        if l == BAD { out.extend_from_slice(b"\xff\xfe z"); } else { out.extend_from_slice(l.as_bytes()); }
        out.push(b'\n');
    }
    out
}

/// the first k lines of the input files (file boundaries kept)
fn take_lines(files: &[Vec<String>], k: usize) -> Vec<Vec<u8>> {
    let mut left = k;
    files.iter().map(|f| { let n = left.min(f.len()); left -= n; join_b(&f[..n]) }).collect()
}

fn is_prefix(a: &[String], b: &[String]) -> bool { a.len() <= b.len() && a[..] == b[..a.len()] }

struct Base<'a> {
    prepared: &'a Prepared,
    is_agg: bool,
    files: &'a [Vec<String>],
    joined: Option<&'a [u8]>,
    joined_len: usize,
    jpath: &'a std::path::Path,
    desc: &'a str,
    shape: &'a str,
}

fn check_point(run: &mut Run, b: &Base, unint: &BatchResult, clear: Clear) {
    let file_bytes: Vec<Vec<u8>> = b.files.iter().map(|f| join_b(f)).collect();
    let n_lines: usize = b.files.iter().map(|f| f.len()).sum();
    let i = run_files_intr(b.prepared, &file_bytes, clear);
    let desc = format!("{} clear={:?}", b.desc, clear);
    // the clearing point in the model's terms
    let (clear_s, stop_s, k) = match clear {
        Clear::Batch(k) => ("(none)".to_owned(), k.to_string(), Some(k)),
        Clear::Join(m) => (m.to_string(), "(none)".to_owned(), None),
        Clear::Printer(_) => match i.batch_calls_at_clear {
            Some(k) => ("(none)".to_owned(), k.to_string(), Some(k)),
            None => ("(none)".to_owned(), "(none)".to_owned(), None),
        },
    };
    let point = match clear { Clear::Batch(_) => "batch", Clear::Join(_) => "join", Clear::Printer(_) => "printer" };
    run.count(&format!("point:{}", point));
    run.count(if i.cleared { "flag-cleared" } else { "clearing-point-not-reached" });
    // ----- correspondence -----
    if let Some(case) = model_case("intr", b.prepared, b.joined, &file_bytes, &format!(" {} {}", clear_s, stop_s)) {
        let wire = if i.res.status == "ok" { format!("{} jl={}", i.res.wire(), i.join_calls) } else { format!("{} jl=-", i.res.wire()) };
        let progress = if !i.cleared { "never" } else if i.res.total_lines == 0 { "at0" } else if (i.res.total_lines as usize) < n_lines { "mid" } else { "end" };
        let tag = format!("{}|{}|{}|{}|{}|recs{}", b.shape, point, progress, i.res.status, if i.res.printed == unint.printed { "same" } else { "cut" }, i.res.records().len().min(3));
        run.case_with_desc(case, wire, tag, desc.clone());
    }
    // ----- the property, on the implementation -----
    run.oracle_checks += 1;
    if i.res.status == "panic" {
        run.fail(desc.clone(), "panic:interrupt", "the interrupted run panicked".to_owned());
        return;
    }
    if !i.cleared {
        // the point was never reached: nothing was interrupted
        if i.res != *unint {
            run.fail(desc.clone(), "uninterrupted-run-differs", format!("flag never cleared, yet {} instead of {}", i.res.wire(), unint.wire()));
        }
        return;
    }
    // lines consumed before the interruption
    let consumed = match (clear, k) {
        (Clear::Join(_), _) => 0usize,
        (_, Some(k)) => k,
        _ => 0,
    };
    // no further input line
    if i.res.total_lines as usize > consumed {
        run.fail(desc.clone(), "line-consumed-after-interrupt", format!("flag cleared before input line {} but total_lines = {}", consumed, i.res.total_lines));
    } else if unint.total_lines as usize >= consumed && (i.res.total_lines as usize) != consumed {
        run.fail(desc.clone(), "interrupt-lost-lines", format!("flag cleared before input line {} but total_lines = {} (uninterrupted: {})", consumed, i.res.total_lines, unint.total_lines));
    }
    // the loader: at most ten more lines
    if let Clear::Join(m) = clear {
        if i.join_calls > m + 11 {
            run.fail(desc.clone(), "loader-ran-on-after-interrupt", format!("flag cleared before joined line {} but the loader looked at {} lines of {}", m, i.join_calls, b.joined_len));
        }
    }
    // the run over exactly the lines consumed before the interruption
    let prefix_run = if let (Clear::Join(_), Some(joined)) = (clear, b.joined) {
        // an interrupted load leaves a partial index and no input line is consumed: what is printed cannot depend on
        // the index, so the reference is the run over no input with an empty joined file
        std::fs::write(b.jpath, b"").unwrap();
        let r = run_files(b.prepared, &take_lines(b.files, 0));
        std::fs::write(b.jpath, joined).unwrap();
        if i.res.status.starts_with("err:") {
            // the loader may run into an unreadable line within its ten more lines: the same error as without interrupt
            if i.res.status != unint.status {
                run.fail(desc.clone(), "interrupt-changes-outcome", format!("interrupted load answered {} but the uninterrupted run answers {}", i.res.status, unint.status));
            }
            return;
        }
        r
    } else {
        run_files(b.prepared, &take_lines(b.files, consumed))
    };
    // no error from the interruption itself
    if i.res.status != prefix_run.status {
        run.fail(desc.clone(), "interrupt-changes-outcome", format!("interrupted run answered {} but a run over the {} lines consumed before answers {}", i.res.status, consumed, prefix_run.status));
        return;
    }
    if b.is_agg {
        // the table for exactly the lines consumed before the interruption
        if i.res.status == "ok" && i.res.printed != prefix_run.printed {
            run.fail(desc.clone(), "interrupted-aggregate-table-differs", format!("printed {:?} but a batch run over the first {} lines prints {:?}", i.res.printed, consumed, prefix_run.printed));
        }
    } else if !is_prefix(&i.res.printed, &unint.printed) {
        run.fail(desc.clone(), "interrupted-output-not-a-prefix", format!("printed {:?}, uninterrupted run prints {:?}", i.res.printed, unint.printed));
    }
}

pub fn run(p: &Params) -> Run {
    let mut run = Run::new("C19");
    let mut rng = Rng::new(p.seed ^ 0x19);
    let n = p.n(330, 9000);
    let defs = defs();
    let jpath = tmp_file(b"");
    let jp = jpath.display().to_string();
    let sch = Schema { defs: defs.clone(), has_bool: false };
    for bi in 0..n {
        let with_join = bi % 2 == 1;
        // statement
        let (query, is_agg, kind_s) = if with_join {
            let js = gen_join_spec(&mut rng);
            let st = gen_stmt(&mut rng);
            let ks = match st.kind { Kind::Cols => "cols", Kind::Star => "star", Kind::Where => "where", Kind::Agg => "agg", Kind::Distinct => "distinct", Kind::Limit => "limit" };
            (format!("{} FROM t {}{}", st.head, js.clause(&jp, js.swapped), st.tail), st.kind == Kind::Agg, ks)
        } else {
            let opts = QueryOpts { allow_limit: true, allow_distinct: true, allow_join: false, aggregate: None };
            let gq = gen_query(&mut rng, &sch, &opts, "");
            let ks = if gq.is_aggregate { "agg" } else if gq.text.contains("LIMIT") { "limit" } else if gq.text.contains("DISTINCT") { "distinct" } else { "sel" };
            (gq.text, gq.is_aggregate, ks)
        };
        let prepared = match prepare(&defs, &query) {
            Ok(p) => p,
            Err(e) => { run.count(&format!("rejected:{}", e.split(':').next().unwrap_or(""))); continue; }
        };
        // inputs: 1-3 files
        let nm = match rng.below(5) { 0 => rng.below(3), _ => 2 + rng.below(9) };
        let null_pct = *rng.pick(&[5u64, 20, 50]);
        let mut main: Vec<String> = (0..nm).map(|_| gen_t_line(&mut rng, null_pct)).collect();
        // one base case in seven has a line that cannot be read (invalid UTF-8) somewhere in the input
        if nm > 0 && bi % 7 == 3 { let at = rng.below(nm); main[at] = BAD.to_owned(); }
        let files: Vec<Vec<String>> = match rng.below(3) {
            0 => vec![main.clone()],
            1 => { let c = rng.below(main.len() + 1); vec![main[..c].to_vec(), main[c..].to_vec()] }
            _ => { let a = rng.below(main.len() + 1); let b = a + rng.below(main.len() - a + 1); vec![main[..a].to_vec(), main[a..b].to_vec(), main[b..].to_vec()] }
        };
        // joined file long enough to cross the loader's sampling points (10, 20, 30)
        let nj = if with_join { *rng.pick(&[0usize, 3, 9, 10, 11, 12, 19, 20, 21, 25, 31, 34]) } else { 0 };
        let mut joined_lines: Vec<String> = (0..nj).map(|_| gen_u_line(&mut rng, 15)).collect();
        if nj > 0 && bi % 9 == 5 { let at = rng.below(nj); joined_lines[at] = BAD.to_owned(); }
        let joined_bytes = join_b(&joined_lines);
        if with_join { std::fs::write(&jpath, &joined_bytes).unwrap(); }
        let file_bytes: Vec<Vec<u8>> = files.iter().map(|f| join_b(f)).collect();
        let unint = run_files(&prepared, &file_bytes);
        run.count(&format!("kind:{}", kind_s));
        run.count(&format!("uninterrupted:{}", unint.status));
        let desc = format!("query={} files={:?} joined_lines={}", query.replace(&jp, "J"), files, nj);
        let shape = format!("{}|j{}|f{}", kind_s, with_join as u8, files.len());
        let base = Base { prepared: &prepared, is_agg, files: &files, joined: if with_join { Some(&joined_bytes) } else { None }, joined_len: nj, jpath: &jpath, desc: &desc, shape: &shape };
        // every line boundary of the batch loop (k = nm: the point is never reached)
        for k in 0..=nm {
            if nm > 6 && k > 1 && k + 1 < nm && rng.chance(1, 2) { continue; }
            check_point(&mut run, &base, &unint, Clear::Batch(k));
        }
        // the loader: around the sampling points
        if with_join && nj > 0 {
            let mut ms: Vec<usize> = vec![0, rng.below(nj)];
            for c in &[9usize, 10, 11, 20, 21, 30] { if *c < nj && rng.chance(1, 2) { ms.push(*c); } }
            ms.sort(); ms.dedup();
            for m in ms { check_point(&mut run, &base, &unint, Clear::Join(m)); }
        }
        // follow mode (joins are refused there): every delivered-line boundary
        if !with_join && bi % 4 == 0 && nm <= 8 && !main.iter().any(|l| l == BAD) {
            check_follow(&mut run, &prepared, &main, &desc, &shape);
        }
        // a printer that clears the flag after its n-th line
        let np = unint.printed.len();
        if np > 0 {
            let mut ns: Vec<usize> = vec![1, 1 + rng.below(np), np];
            ns.sort(); ns.dedup();
            for n in ns { check_point(&mut run, &base, &unint, Clear::Printer(n)); }
        }
    }
    set_on_line_hook(None);
    set_follow_retry_hook(None);
    let _ = std::fs::remove_file(jpath);
    run.notes.push("follow mode: the real FollowFileExecutor (--head) over a growing file; its retry hook at end-of-file clears the flag and appends the remaining lines, stdout (fd 1) is captured; compared with runFollow of the model (`followi`) and with the implementation's own run over the first k lines".to_owned());
    run.notes.push("statements (SELECT, DISTINCT, LIMIT, aggregates; half of them over an INNER/OUTER JOIN) x 0-10 input lines in 1-3 files x joined files of 0-34 lines; the running flag is cleared from the per-line hook before every input line k, before joined-file lines around the loader's sampling points (0, 9, 10, 11, 20, 21, 30, random), and from the capturing printer after its 1st / a random / its last line".to_owned());
    run.notes.push("oracle on the implementation: total_lines = k (never more), interrupted output is a prefix of the uninterrupted implementation run (non-aggregate), interrupted aggregate output = implementation batch run over the first k lines, status = status of that run, loader looks at no more than 11 further lines".to_owned());
    // the whole program in follow mode: raw texts, a real growing file, every output format (Props/PipelineFollow.lean)
    let mut frng = Rng::new(p.seed ^ 0xC19e2ef);
    for focus in &["limit", "group"] { crate::e2ef::stream(&mut run, &mut frng, p.n(100, 2000), focus); }
    // the program itself: SIGINT while `--follow` waits on an idle file
    crate::cli::interrupt_stream(&mut run, &mut Rng::new(p.seed ^ 0x19c1), p.n(6, 60));
    crate::cli::batch_interrupt_stream(&mut run, &mut Rng::new(p.seed ^ 0x19c2), p.n(6, 60));
    run
}
