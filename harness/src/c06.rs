// C06: lines that yield no row are invisible to every query. Any select / aggregate / join / LIMIT / DISTINCT
// statement is run over an input, over the same input with its non-admitted lines deleted, and over the same input
// with further non-admitted lines (generated per definition) inserted at random positions — also into the joined
// file — in batch mode (1..3 files) and line at a time. Admission itself is decided by an independent restatement
// of the sentence (extract.rs `spec_column`: a DEFAULT counts, every NOT NULL column must be non-NULL).
use sqlgrep::data_model::TableDefinition;
use sqlgrep::model::Value;

use crate::c04::join_lines;
use crate::engine_run::*;
use crate::extract::{line_oracle, spec_column};
use crate::queries::*;
use crate::run::{Params, Run};
use crate::runq::tmp_file;
use crate::util::Rng;

/// the sentence: a line becomes a row iff some column is non-NULL (DEFAULT counts) and every NOT NULL column is non-NULL
pub(crate) fn spec_admitted(td: &TableDefinition, line: &str) -> bool {
    let lo = line_oracle(td, line);
    let vals: Vec<(bool, bool)> = td.columns.iter().map(|c| (spec_column(td, c, &lo, line).main.is_null(), c.options.nullable)).collect();
    vals.iter().any(|(null, _)| !null) && vals.iter().all(|(null, nullable)| *nullable || !null)
}

/// a table with a DEFAULT column and NO NOT NULL column: every line — also one that matches no pattern, is empty or is
/// not JSON — obtains the DEFAULT value and therefore IS a row ("a declared DEFAULT counts")
const MAIN_DEF_DFLT: &str = "CREATE TABLE t(line = '^([a-z]+)?;(-?[0-9]+)?;(-?[0-9]+)?;([^;]+)?;([^;]+)?;(!)?$', line[1] => k TEXT, line[2] => v INT, line[3] => w INT, line[4] => r REAL, line[5] => s TEXT DEFAULT 'dflt');";
/// JSON-path variant; here a line IS noise when `a` is present with a non-integer value and `b` is absent or not text
const JSON_DEF_DFLT: &str = "CREATE TABLE t({.a} => a INT DEFAULT 7, {.b} => b TEXT);";
const JSON_LINES: &[&str] = &[
    "{\"a\": 1}", "{\"a\": 2, \"b\": \"x\"}", "{\"b\": \"y\"}", "{}", "not json", "", "garbage {", "{\"a\": \"str\"}", "{\"a\": null}", "{\"a\": 1.5}",
    "{\"a\": \"str\", \"b\": \"z\"}", "[1, 2]", "7", "{\"c\": 3}", "{\"a\": 7}", "{\"a\": true, \"b\": 5}", " ", "{\"a\": 1} trailing",
];
const REGEX_DFLT_EXTRA: &[&str] = &["", "garbage", "a;b;c", "#a;1;x", "A;1;2;3;4;", ";;;;;", "a;1;2;3;4", "b;2;;;;", "ab;3;1;0.5;x;!", ";;;;zz;", "a;1;2;3;dflt;"];

/// the rows the sentence gives for the lines: the specified column values of every admitted line
fn spec_rows(td: &TableDefinition, lines: &[String]) -> Vec<Vec<Value>> {
    lines.iter().filter(|l| spec_admitted(td, l)).map(|l| {
        let lo = line_oracle(td, l);
        td.columns.iter().map(|c| spec_column(td, c, &lo, l).main).collect()
    }).collect()
}

fn render1(col: &str, v: &Value) -> String { format!("{}: {}", col, v) }

/// DEFAULT-without-NOT-NULL schemas: simple statements whose output is computed here from the specified rows
fn default_schema_cases(run: &mut Run, rng: &mut Rng, json: bool) {
    let defs = if json { JSON_DEF_DFLT.to_owned() } else { format!("{}\n{}", MAIN_DEF_DFLT, JOIN_DEF) };
    let col = if json { "a" } else { "s" };
    let n = rng.below(9);
    let lines: Vec<String> = (0..n).map(|_| {
        if json { (*rng.pick(JSON_LINES)).to_owned() } else if rng.chance(1, 2) { (*rng.pick(REGEX_DFLT_EXTRA)).to_owned() } else { gen_line(rng, 40, false) }
    }).collect();
    let cut = rng.below(lines.len() + 1);
    let files: Vec<Vec<u8>> = if rng.chance(1, 2) { vec![join_lines(&lines[..cut]), join_lines(&lines[cut..])] } else { vec![join_lines(&lines)] };
    let td = match prepare(&defs, &format!("SELECT {} FROM t", col)) { Ok(p) => p.tables.get("t").unwrap().clone(), Err(e) => { run.fail(defs.clone(), "default-schema-rejected", e); return; } };
    let ci = td.columns.iter().position(|c| c.name == col).unwrap();
    // admission on every line
    for l in &lines {
        run.oracle_checks += 1;
        let got = td.extract(l).any_result();
        let want = spec_admitted(&td, l);
        if got != want {
            run.fail(format!("definition={} line={:?}", defs, l), if want { "admitted-line-dropped:default-column" } else { "noise-line-admitted" }, format!("extract(..).any_result() = {} but the sentence gives {} (a declared DEFAULT counts)", got, want));
        }
    }
    let rows = spec_rows(&td, &lines);
    let vals: Vec<Value> = rows.iter().map(|r| r[ci].clone()).collect();
    let mut first: Vec<Value> = Vec::new();
    for v in &vals { if !first.contains(v) { first.push(v.clone()); } }
    let lim = rng.below(4);
    let statements: Vec<(String, Option<Vec<String>>, bool)> = vec![
        (format!("SELECT {} FROM t", col), Some(vals.iter().map(|v| render1(col, v)).collect()), false),
        (format!("SELECT DISTINCT {} FROM t", col), Some(first.iter().map(|v| render1(col, v)).collect()), false),
        (format!("SELECT {} FROM t LIMIT {}", col, lim), Some(vals.iter().take(lim).map(|v| render1(col, v)).collect()), false),
        ("SELECT COUNT(*) FROM t".to_owned(), Some(if rows.is_empty() { vec![] } else { vec![format!("count0: {}", rows.len())] }), false),
        (format!("SELECT {}, COUNT(*) FROM t GROUP BY {}", col, col), Some(first.iter().map(|v| format!("{}: {}, count1: {}", col, v, vals.iter().filter(|x| *x == v).count())).collect()), true),
    ];
    for (text, want, unordered) in statements {
        let prepared = match prepare(&defs, &text) { Ok(p) => p, Err(e) => { run.fail(text.clone(), "default-schema-rejected", e); continue; } };
        let r = run_files(&prepared, &files);
        let desc = format!("definition={} query={} lines={:?} files={}", defs.replace('\n', " "), text, lines, files.len());
        if let Some(case) = batch_case(&prepared, b"", &files, None) {
            run.case_with_desc(case, r.wire(), format!("dflt:{}:{}:{}", if json { "json" } else { "regex" }, text.split(' ').take(3).collect::<Vec<_>>().join("_"), r.status), desc.clone());
        }
        run.oracle_checks += 1;
        if let Some(mut want) = want {
            let mut got = r.records();
            if unordered { want.sort(); got.sort(); }
            if r.status != "ok" || got != want {
                run.fail(desc.clone(), "default-row-missing-or-wrong", format!("{} printed {:?} ({}) but the rows the sentence gives yield {:?}", text, got, r.status, want));
            }
        }
        // line at a time: a result exactly for the admitted lines (non-aggregate, no DISTINCT/LIMIT)
        if text == format!("SELECT {} FROM t", col) {
            let (wire, steps) = run_incremental(&prepared, &lines);
            if let Some(case) = incr_case(&prepared, b"", &join_lines(&lines)) {
                run.case_with_desc(case, wire.clone(), format!("dflt-incr:{}", if json { "json" } else { "regex" }), format!("incremental {}", desc));
            }
            run.oracle_checks += 1;
            let got: Vec<bool> = steps.iter().map(|s| s.is_some()).collect();
            let want: Vec<bool> = lines.iter().map(|l| spec_admitted(&td, l)).collect();
            if got != want {
                run.fail(format!("incremental {}", desc), "default-row-missing-incremental", format!("lines with a result {:?}, admitted by the sentence {:?}", got, want));
            }
        }
    }
}

pub(crate) const MAIN_NOISE: &[&str] = &[
    "", " ", "garbage", "a;b;c", ";;;;;", ";;;;;;", ";;;;;;;", "#a;1;x", "A;1;2;3;4;", "a;1;2;3;4", "a;1;2;3;4;!!", "a;x;2;3;4;", "a;;3;1.5;x;", ";;3;;;",
    "a;;;;;", ";;;;;!", "a1;1;2;3;4;", "a;1;2;;;;", "é;1;2;3;4;", "a;1.5;2;3;4;", ";99999999999999999999;;;;", ";;;nanx;;", "a;1;2;3;4;! ", "\ta;1;2;3;4;",
];
pub(crate) const JOIN_NOISE: &[&str] = &["", "#", "nope", "#;;", "a;1;x", "#A;1;x", "#;x;", "#;;;", "# a;1;x", "#a;1", "#;99999999999999999999;"];

fn pick_noise(rng: &mut Rng, td: &TableDefinition, pool: &[&str]) -> Option<String> {
    for _ in 0..8 {
        let c = (*rng.pick(pool)).to_owned();
        if !spec_admitted(td, &c) { return Some(c); }
    }
    None
}

fn insert_noise(rng: &mut Rng, td: &TableDefinition, pool: &[&str], lines: &[String], k: usize) -> Vec<String> {
    let mut out = lines.to_vec();
    for _ in 0..k {
        if let Some(n) = pick_noise(rng, td, pool) {
            let pos = rng.below(out.len() + 1);
            out.insert(pos, n);
        }
    }
    out
}

fn strip_noise(td: &TableDefinition, lines: &[String]) -> Vec<String> {
    lines.iter().filter(|l| spec_admitted(td, l)).cloned().collect()
}

/// the items of an `incr` answer that carry a result (with their `!` flag) and a final error item
fn with_result(wire: &str) -> Vec<String> {
    wire.split('|').filter(|it| !it.is_empty() && *it != "-" && *it != "-!").map(|s| s.to_owned()).collect()
}

/// part 1 of the property over GENERATED definitions (every column kind, type and modifier, JSON columns before and
/// after regex columns, NOT NULL and DEFAULT anywhere): a line becomes a row iff some column obtains a non-NULL value
/// (a DEFAULT counts) and every column DECLARED NOT NULL is non-NULL. Which columns are NOT NULL is taken from the
/// definition text the generator wrote, not from the parsed definition.
fn admission_over_generated_definitions(run: &mut Run, rng: &mut Rng, ndefs: usize, lines_per_def: usize) {
    use crate::extract::{gen_def, json_line, parse_def, regex_line, tpl_index, GMod};
    use sqlgrep::data_model::ColumnParsing;
    for _ in 0..ndefs {
        let share = rng.below(11) as u64;
        let g = gen_def(rng, share);
        let text = g.render(rng);
        let td = match parse_def(&text) { Ok(td) => td, Err(_) => { run.count("gen-def-rejected"); continue; } };
        if td.columns.len() != g.cols.len() { run.count("gen-def-shape"); continue; }
        let not_null: Vec<bool> = g.cols.iter().map(|c| matches!(c.modifier, GMod::NotNull)).collect();
        let any_json = td.columns.iter().any(|c| matches!(c.parsing, ColumnParsing::Json(_)));
        for _ in 0..lines_per_def {
            let (line, shape) = if any_json && !rng.chance(1, 5) { json_line(rng, &td) } else { regex_line(rng, &td, &tpl_index) };
            let lo = line_oracle(&td, &line);
            let nulls: Vec<bool> = td.columns.iter().map(|c| spec_column(&td, c, &lo, &line).main.is_null()).collect();
            let want = nulls.iter().any(|n| !n) && nulls.iter().zip(not_null.iter()).all(|(n, nn)| !*nn || !*n);
            run.oracle_checks += 1;
            let got = match crate::util::catch(|| td.extract(&line).any_result()) { crate::util::Caught::Done(b) => b, crate::util::Caught::Panic(m) => { run.fail(format!("definition={} line={:?}", text.replace('\n', " "), line), "panic:extract", m); continue; } };
            run.count(&format!("gen-def-admission:{}:{}", if want { "row" } else { "no-row" }, shape.split('-').next().unwrap_or("")));
            if got != want {
                run.fail(format!("definition={} line={:?}", text.replace('\n', " "), line), if want { "admitted-line-dropped:generated-definition" } else { "noise-line-admitted:generated-definition" },
                         format!("extract(..).any_result() = {} but the sentence gives {} (NULL per column: {:?}, declared NOT NULL: {:?})", got, want, nulls, not_null));
            }
        }
    }
}

pub fn run(p: &Params) -> Run {
    let mut run = Run::new("C06");
    let mut rng = Rng::new(p.seed ^ 0x06);
    let iterations = p.n(650, 22_000);
    let jpath = tmp_file(b"");
    let jp = jpath.display().to_string();
    let opts = QueryOpts { allow_limit: true, allow_distinct: true, allow_join: true, aggregate: None };
    admission_over_generated_definitions(&mut run, &mut rng, p.n(150, 4_000), 8);
    for it in 0..iterations {
        if it % 5 == 0 { default_schema_cases(&mut run, &mut rng, it % 10 == 0); }
        let dflt_schema = it % 4 == 3;
        let sch = if dflt_schema { Schema { defs: format!("{}\n{}", MAIN_DEF_DFLT, JOIN_DEF), has_bool: false } } else { gen_schema(&mut rng) };
        let mut gq = gen_query(&mut rng, &sch, &opts, &jp);
        if it % 3 == 0 { for _ in 0..6 { if gq.joined { break; } gq = gen_query(&mut rng, &sch, &opts, &jp); } }
        // the simplest statement shapes as well (the ones a special-cased fast path would pick)
        const MINIMAL: &[(&str, bool)] = &[("SELECT COUNT(*) FROM t", true), ("SELECT COUNT(*) AS n FROM t", true), ("SELECT * FROM t", false), ("SELECT input FROM t", false),
            ("SELECT k FROM t", false), ("SELECT COUNT(v) FROM t", true), ("SELECT SUM(v) FROM t", true), ("SELECT k, COUNT(*) FROM t GROUP BY k", true),
            ("SELECT DISTINCT k FROM t", false), ("SELECT k FROM t LIMIT 3", false), ("SELECT MAX(v), MIN(v) FROM t", true)];
        if it % 6 == 1 { let (t, a) = *rng.pick(MINIMAL); gq = GenQuery { text: t.to_owned(), is_aggregate: a, joined: false }; }
        let prepared = match prepare(&sch.defs, &gq.text) { Ok(p) => p, Err(_) => { run.count("rejected"); continue; } };
        let main: &TableDefinition = prepared.tables.get("t").unwrap();
        let jtab: &TableDefinition = prepared.tables.get("u").unwrap();
        // base input: 1..3 files of generated lines (some of them already noise), a joined file
        let nfiles = 1 + rng.below(3);
        let null_pct = *rng.pick(&[10u64, 40, 70]);
        let files_lines: Vec<Vec<String>> = (0..nfiles).map(|_| { let n = rng.below(7); (0..n).map(|_| if dflt_schema && rng.chance(1, 3) { (*rng.pick(REGEX_DFLT_EXTRA)).to_owned() } else { gen_line(&mut rng, null_pct, false) }).collect() }).collect();
        let jlines: Vec<String> = (0..rng.below(9)).map(|_| gen_join_line(&mut rng)).collect();

        // property part 1 on every line at hand: the implementation admits exactly the lines the sentence admits
        for (td, ls) in vec![(main, files_lines.concat()), (jtab, jlines.clone())] {
            for l in &ls {
                run.oracle_checks += 1;
                let got = td.extract(l).any_result();
                let want = spec_admitted(td, l);
                if got != want {
                    run.fail(format!("definition of {} line={:?}", td.name, l), if want { "admitted-line-dropped" } else { "noise-line-admitted" }, format!("extract(..).any_result() = {} but the sentence gives {}", got, want));
                }
            }
        }

        // variants: noise deleted / noise inserted (main files and joined file)
        let clean_files: Vec<Vec<String>> = files_lines.iter().map(|f| strip_noise(main, f)).collect();
        let k = 1 + rng.below(4);
        let noisy_files: Vec<Vec<String>> = files_lines.iter().map(|f| insert_noise(&mut rng, main, MAIN_NOISE, f, k)).collect();
        let clean_j = strip_noise(jtab, &jlines);
        let kj = 1 + rng.below(3);
        let noisy_j = insert_noise(&mut rng, jtab, JOIN_NOISE, &jlines, kj);
        let variants: Vec<(&str, &Vec<Vec<String>>, &Vec<String>)> = vec![
            ("base", &files_lines, &jlines), ("clean", &clean_files, &clean_j), ("noisy", &noisy_files, &noisy_j),
            ("noisy-main-only", &noisy_files, &jlines), ("noisy-join-only", &files_lines, &noisy_j),
        ];
        let stmt_tag = format!("{}{}{}{}{}", if dflt_schema { "dflt:" } else { "" }, if gq.is_aggregate { "agg" } else { "sel" }, if gq.joined { "+join" } else { "" }, if gq.text.contains("DISTINCT") { "+dist" } else { "" }, if gq.text.contains("LIMIT") { "+lim" } else { "" });
        let mut results: Vec<(String, BatchResult)> = Vec::new();
        for (name, fl, jl) in &variants {
            if !gq.joined && name.ends_with("join-only") { continue; }
            let joined = join_lines(jl);
            std::fs::write(&jpath, &joined).unwrap();
            let files: Vec<Vec<u8>> = fl.iter().map(|f| join_lines(f)).collect();
            let r = run_files(&prepared, &files);
            let desc = format!("query={} variant={} joined={:?} files={:?}", gq.text, name, jl, fl);
            if *name != "clean" || it % 2 == 0 {
                if let Some(case) = batch_case(&prepared, &joined, &files, None) {
                    run.case_with_desc(case, r.wire(), format!("batch:{}:{}:{}:f{}", stmt_tag, name, r.status, nfiles), desc.clone());
                }
            }
            if r.status == "panic" {
                run.oracle_checks += 1;
                run.fail(desc, "panic:batch", "batch run panicked".to_owned());
            }
            results.push(((*name).to_owned(), r));
        }
        // which kinds of noise went in (coverage)
        for f in noisy_files.iter().chain(std::iter::once(&noisy_j)) {
            for l in f {
                if MAIN_NOISE.contains(&l.as_str()) || JOIN_NOISE.contains(&l.as_str()) {
                    let matched = main.patterns.iter().any(|(_, re, _)| re.is_match(l)) || jtab.patterns.iter().any(|(_, re, _)| re.is_match(l));
                    run.count(if l.is_empty() { "noise:empty-line" } else if matched { "noise:pattern-matches-but-not-admitted" } else { "noise:pattern-does-not-match" });
                }
            }
        }
        // the relation on the implementation: same records, same outcome, whatever the noise
        let base = results[0].1.clone();
        for (name, r) in results.iter().skip(1) {
            run.oracle_checks += 1;
            if r.status != base.status || r.printed != base.printed {
                let class = format!("noise-visible:{}:{}", if gq.is_aggregate { "aggregate" } else { "select" }, if name.contains("join") { "joined-file" } else if name == "clean" { "deleted" } else { "inserted" });
                run.fail(format!("query={} joined={:?} files={:?} variant={} joined'={:?} files'={:?}", gq.text, jlines, files_lines, name, variants.iter().find(|v| v.0 == name).map(|v| v.2.clone()).unwrap_or_default(), variants.iter().find(|v| v.0 == name).map(|v| v.1.clone()).unwrap_or_default()),
                    &class, format!("output over the input: {} {:?}; over the {} input: {} {:?}", base.status, base.printed, name, r.status, r.printed));
            }
        }
        // line at a time (update + result), one list of lines
        let all: Vec<String> = files_lines.concat();
        let all_noisy = insert_noise(&mut rng, main, MAIN_NOISE, &all, k + 1);
        let all_clean = strip_noise(main, &all);
        let joined = join_lines(&jlines);
        std::fs::write(&jpath, &joined).unwrap();
        let (w_base, _) = run_incremental(&prepared, &all);
        let (w_noisy, _) = run_incremental(&prepared, &all_noisy);
        let (w_clean, _) = run_incremental(&prepared, &all_clean);
        if let Some(case) = incr_case(&prepared, &joined, &join_lines(&all_noisy)) {
            let kind = if w_noisy.contains("err:") { "err" } else if w_noisy.contains("panic") { "panic" } else { "ok" };
            run.case_with_desc(case, w_noisy.clone(), format!("incr:{}:{}:{}", stmt_tag, kind, if w_noisy.contains('!') { "reached" } else { "-" }), format!("incremental query={} joined={:?} input={:?}", gq.text, jlines, all_noisy));
        }
        for (name, w) in [("inserted", &w_noisy), ("deleted", &w_clean)] {
            run.oracle_checks += 1;
            if with_result(w) != with_result(&w_base) {
                run.fail(format!("incremental query={} joined={:?} input={:?} {}={:?}", gq.text, jlines, all, name, if name == "inserted" { &all_noisy } else { &all_clean }),
                    &format!("noise-visible:incremental:{}", name), format!("answers with a result over the input: {:?}; with noise {}: {:?}", with_result(&w_base), name, with_result(w)));
            }
        }
    }
    let _ = std::fs::remove_file(jpath);
    // the same relation on the whole program: raw texts, every output format, byte-level insertion at line boundaries
    let mut erng = Rng::new(p.seed ^ 0x06e2e);
    crate::e2e::noise_relation(&mut run, &mut erng, p.n(90, 1500), &spec_admitted, MAIN_NOISE, JOIN_NOISE);
    run.notes.push("any statement (select / aggregate, JOIN, LIMIT, DISTINCT, HAVING) over 1-3 files and a joined file; variants: non-admitted lines deleted, and 1-4 non-admitted lines per file (non-matching text, empty lines, NOT NULL failures, near-misses of the pattern, over-long numbers; chosen per definition by an independent restatement of the admission sentence) inserted at random positions of the files and of the joined file; batch through FileExecutor and line at a time through ExecutionEngine; oracle on the implementation: identical records and outcome, and admission = the sentence on every line".to_owned());
    run
}
