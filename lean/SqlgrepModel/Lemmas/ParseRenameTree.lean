import SqlgrepModel.Lemmas.ParseRenameStmt
/-
When a respelling fixes every case-SENSITIVE name of a SELECT tree (column names, aliases, the table, the join's table
and column names), respelling all names (`renAll`, what the parser does to the tree when all identifier tokens are
respelled) is respelling the call names only (`renameCalls`, under which the lowering is invariant:
`Lemmas/LowerNames.lean`). Also `segwise`: a respelling of plain names extended to qualified names `a.b`.
-/
namespace Sqlgrep

mutual
/-- `ρ` fixes every column name of the tree -/
def PExpr.colsFixed (ρ : List Char → List Char) : PExpr → Bool
  | .value _ _ => true
  | .column _ n => decide (ρ n = n)
  | .wildcard _ => true
  | .tuple _ vs => PExpr.colsFixedList ρ vs
  | .binop _ _ a b => a.colsFixed ρ && b.colsFixed ρ
  | .boolop _ _ a b => a.colsFixed ρ && b.colsFixed ρ
  | .unop _ _ e => e.colsFixed ρ
  | .invert _ e => e.colsFixed ρ
  | .nullcmp _ _ a b => a.colsFixed ρ && b.colsFixed ρ
  | .inList _ _ e vs => e.colsFixed ρ && PExpr.colsFixedList ρ vs
  | .call _ _ args _ => PExpr.colsFixedList ρ args
  | .index _ a i => a.colsFixed ρ && i.colsFixed ρ
  | .cast _ e _ => e.colsFixed ρ
  | .case _ cs els => PExpr.colsFixedClauses ρ cs && els.colsFixed ρ
def PExpr.colsFixedList (ρ : List Char → List Char) : List PExpr → Bool
  | [] => true
  | x :: xs => x.colsFixed ρ && PExpr.colsFixedList ρ xs
def PExpr.colsFixedClauses (ρ : List Char → List Char) : List (PExpr × PExpr) → Bool
  | [] => true
  | (c, r) :: xs => c.colsFixed ρ && r.colsFixed ρ && PExpr.colsFixedClauses ρ xs
end

def PJoin.namesFixed (ρ : List Char → List Char) (j : PJoin) : Bool :=
  decide (ρ j.joinerTable = j.joinerTable) && decide (ρ j.leftTable = j.leftTable) && decide (ρ j.leftColumn = j.leftColumn) &&
  decide (ρ j.rightTable = j.rightTable) && decide (ρ j.rightColumn = j.rightColumn)

/-- `ρ` fixes every case-sensitive name of the SELECT tree: column names, aliases, the table, the names of the join -/
def PSelect.namesFixed (ρ : List Char → List Char) (q : PSelect) : Bool :=
  q.projections.all (fun p => (match p.1 with | some a => decide (ρ a = a) | none => true) && p.2.colsFixed ρ) &&
  decide (ρ q.fromTable = q.fromTable) &&
  (match q.filter with | some e => e.colsFixed ρ | none => true) &&
  (match q.groupBy with | some ks => PExpr.colsFixedList ρ ks | none => true) &&
  (match q.having with | some e => e.colsFixed ρ | none => true) &&
  (match q.join with | some j => j.namesFixed ρ | none => true)

def POp.namesFixed (ρ : List Char → List Char) : POp → Bool
  | .select q => q.namesFixed ρ
  | _ => true

theorem renAll_eq_renameCalls (ρ : List Char → List Char) :
    (∀ e : PExpr, e.colsFixed ρ = true → e.renAll ρ = e.renameCalls ρ) ∧
    (∀ es, PExpr.colsFixedList ρ es = true → PExpr.renAllList ρ es = PExpr.renameCallsList ρ es) ∧
    (∀ cs, PExpr.colsFixedClauses ρ cs = true → PExpr.renAllClauses ρ cs = PExpr.renameCallsClauses ρ cs) := by
  apply Lower.PExpr.induct3
  all_goals intros
  all_goals simp only [PExpr.colsFixed, PExpr.colsFixedList, PExpr.colsFixedClauses, Bool.and_eq_true, decide_eq_true_eq] at *
  all_goals simp_all [PExpr.renAll, PExpr.renameCalls, PExpr.renAllList, PExpr.renameCallsList, PExpr.renAllClauses,
    PExpr.renameCallsClauses]

theorem PJoin.renAll_of_fixed {ρ : List Char → List Char} {j : PJoin} (h : j.namesFixed ρ = true) : j.renAll ρ = j := by
  simp only [PJoin.namesFixed, Bool.and_eq_true, decide_eq_true_eq] at h
  obtain ⟨⟨⟨⟨h1, h2⟩, h3⟩, h4⟩, h5⟩ := h
  cases j
  simp_all [PJoin.renAll]

theorem PSelect.renAll_of_fixed {ρ : List Char → List Char} {q : PSelect} (h : q.namesFixed ρ = true) :
    q.renAll ρ = q.renameCalls ρ := by
  simp only [PSelect.namesFixed, Bool.and_eq_true, decide_eq_true_eq, List.all_eq_true] at h
  obtain ⟨⟨⟨⟨⟨hp, ht⟩, hf⟩, hg⟩, hh⟩, hj⟩ := h
  have e1 : renProj ρ q.projections = q.projections.map (fun p => (p.1, p.2.renameCalls ρ)) := by
    unfold renProj
    apply List.map_congr_left
    intro p hpm
    obtain ⟨ha, hc⟩ := hp p hpm
    rw [(renAll_eq_renameCalls ρ).1 _ hc]
    cases hp1 : p.1 with
    | none => rfl
    | some a => rw [hp1] at ha; simp only [decide_eq_true_eq] at ha; simp [ha]
  have e2 : q.filter.map (PExpr.renAll ρ) = q.filter.map (PExpr.renameCalls ρ) := by
    cases hq : q.filter with
    | none => rfl
    | some e => rw [hq] at hf; simp [(renAll_eq_renameCalls ρ).1 e hf]
  have e3 : q.groupBy.map (PExpr.renAllList ρ) = q.groupBy.map (PExpr.renameCallsList ρ) := by
    cases hq : q.groupBy with
    | none => rfl
    | some ks => rw [hq] at hg; simp [(renAll_eq_renameCalls ρ).2.1 ks hg]
  have e4 : q.having.map (PExpr.renAll ρ) = q.having.map (PExpr.renameCalls ρ) := by
    cases hq : q.having with
    | none => rfl
    | some e => rw [hq] at hh; simp [(renAll_eq_renameCalls ρ).1 e hh]
  have e5 : q.join.map (PJoin.renAll ρ) = q.join := by
    cases hq : q.join with
    | none => rfl
    | some j => rw [hq] at hj; simp [PJoin.renAll_of_fixed hj]
  unfold PSelect.renAll PSelect.renameCalls
  rw [e1, e2, e3, e4, e5, ht]

theorem POp.renAll_of_fixed {ρ : List Char → List Char} {t : POp} (h : t.namesFixed ρ = true) :
    t.renAll ρ = t.renameCalls ρ := by
  cases t with
  | select q => simp only [POp.renAll, POp.renameCalls]; rw [PSelect.renAll_of_fixed h]
  | createTable c => rfl
  | multiple cs => rfl

/-! ### a respelling of plain names, extended to qualified names -/

/-- apply `ρ₀` to every `.`-separated part of a name (`acc`: the part being read, reversed) -/
def segwiseGo (ρ₀ : List Char → List Char) : List Char → List Char → List Char
  | [], acc => ρ₀ acc.reverse
  | c :: cs, acc => if c = '.' then ρ₀ acc.reverse ++ '.' :: segwiseGo ρ₀ cs [] else segwiseGo ρ₀ cs (c :: acc)

/-- `segwise ρ₀ "a.b" = ρ₀ "a" ++ "." ++ ρ₀ "b"` -/
def segwise (ρ₀ : List Char → List Char) (n : List Char) : List Char := segwiseGo ρ₀ n []

theorem segwiseGo_dot (ρ₀ : List Char → List Char) : ∀ (a b acc : List Char),
    segwiseGo ρ₀ (a ++ ['.'] ++ b) acc = segwiseGo ρ₀ a acc ++ ['.'] ++ segwiseGo ρ₀ b [] := by
  intro a
  induction a with
  | nil => intro b acc; simp [segwiseGo]
  | cons c cs ih =>
    intro b acc
    simp only [List.cons_append, segwiseGo]
    by_cases hc : c = '.'
    · simp only [hc, if_true]; rw [ih]; simp
    · simp only [hc, if_false]; exact ih b _

theorem segwise_dot (ρ₀ : List Char → List Char) (a b : List Char) :
    segwise ρ₀ (a ++ ['.'] ++ b) = segwise ρ₀ a ++ ['.'] ++ segwise ρ₀ b := segwiseGo_dot ρ₀ a b []

/-- on a name without `.` (every identifier token: the tokenizer reads letters, digits and `_`) it is `ρ₀` -/
theorem segwiseGo_plain (ρ₀ : List Char → List Char) : ∀ (n acc : List Char), '.' ∉ n →
    segwiseGo ρ₀ n acc = ρ₀ (acc.reverse ++ n) := by
  intro n
  induction n with
  | nil => intro acc _; simp [segwiseGo]
  | cons c cs ih =>
    intro acc h
    simp only [List.mem_cons, not_or] at h
    have hc : c ≠ '.' := fun e => h.1 e.symm
    simp only [segwiseGo, hc, if_false]
    rw [ih _ h.2]; simp

theorem segwise_plain (ρ₀ : List Char → List Char) (n : List Char) (h : '.' ∉ n) : segwise ρ₀ n = ρ₀ n := by
  unfold segwise; rw [segwiseGo_plain ρ₀ n [] h]; rfl

theorem lowerChars_append (a b : List Char) : lowerChars (a ++ b) = lowerChars a ++ lowerChars b := by
  simp [lowerChars]

theorem lowerChars_cons (c : Char) (cs : List Char) : lowerChars (c :: cs) = lowerChars [c] ++ lowerChars cs :=
  lowerChars_append [c] cs

theorem segwiseGo_case (ρ₀ : List Char → List Char) (h : CaseOnly ρ₀) : ∀ (n acc : List Char),
    lowerChars (segwiseGo ρ₀ n acc) = lowerChars (acc.reverse ++ n) := by
  intro n
  induction n with
  | nil => intro acc; simp [segwiseGo, h _]
  | cons c cs ih =>
    intro acc
    simp only [segwiseGo]
    by_cases hc : c = '.'
    · subst hc
      simp only [if_true]
      rw [lowerChars_append, lowerChars_append, h, lowerChars_cons '.' (segwiseGo ρ₀ cs []), lowerChars_cons '.' cs, ih]
      simp
    · simp only [hc, if_false]; rw [ih]; simp

/-- **`segwise ρ₀` is a name map** for every change of letter case `ρ₀` that fixes the names the parser makes up -/
theorem nameMap_segwise (ρ₀ : List Char → List Char) (h : CaseOnly ρ₀)
    (h1 : ρ₀ "create_array".toList = "create_array".toList)
    (h2 : ∀ p, segwise ρ₀ ("timestamp_extract_".toList ++ lowerChars p) = "timestamp_extract_".toList ++ lowerChars p) :
    NameMap (segwise ρ₀) where
  caseOnly := fun n => by unfold segwise; rw [segwiseGo_case ρ₀ h]; rfl
  dot := segwise_dot ρ₀
  createArray := by rw [segwise_plain _ _ (by decide)]; exact h1
  extract := h2

/-! ### respellings given by a finite table -/

/-- an ASCII upper-case letter -/
def isUpperAZ (c : Char) : Bool := decide ('A' ≤ c ∧ c ≤ 'Z')

theorem ofNat_toNat_small (b : Nat) (h : b < 0xD800) : (Char.ofNat b).toNat = b := by
  simp [Char.ofNat, Nat.isValidChar, h, Char.toNat, Char.ofNatAux]

theorem char_le_iff (a b : Char) : a ≤ b ↔ a.toNat ≤ b.toNat := by
  rw [Char.le_def, UInt32.le_iff_toNat_le]; rfl

/-- a lower-cased word contains no ASCII upper-case letter -/
theorem lowerChars_noUpper (s : List Char) : ∀ c ∈ lowerChars s, isUpperAZ c = false := by
  intro c hc
  simp only [lowerChars, List.mem_flatMap] at hc
  obtain ⟨d, _, hcd⟩ := hc
  unfold isUpperAZ
  simp only [char_le_iff, decide_eq_false_iff_not, not_and]
  have hA : ('A' : Char).toNat = 65 := by decide
  have hZ : ('Z' : Char).toNat = 90 := by decide
  rw [hA, hZ]
  split at hcd
  · rename_i hu
    simp only [char_le_iff, hA, hZ] at hu
    simp only [List.mem_singleton] at hcd
    subst hcd
    rw [ofNat_toNat_small _ (by omega)]
    omega
  · split at hcd
    · simp only [List.mem_singleton] at hcd; subst hcd; decide
    · split at hcd
      · simp only [List.mem_cons, List.mem_nil_iff, or_false] at hcd
        rcases hcd with rfl | rfl
        · decide
        · rw [ofNat_toNat_small _ (by decide)]; omega
      · rename_i hu _ _
        simp only [char_le_iff, hA, hZ] at hu
        simp only [List.mem_singleton] at hcd; subst hcd
        omega

/-- a respelling of plain names that fixes the words without upper-case letters fixes such qualified names too -/
theorem segwiseGo_fix (ρ₀ : List Char → List Char) (hfix : ∀ w, (∀ c ∈ w, isUpperAZ c = false) → ρ₀ w = w) :
    ∀ (n acc : List Char), (∀ c ∈ n, isUpperAZ c = false) → (∀ c ∈ acc, isUpperAZ c = false) →
      segwiseGo ρ₀ n acc = acc.reverse ++ n := by
  intro n
  induction n with
  | nil => intro acc _ ha; simp only [segwiseGo, List.append_nil]; exact hfix _ (fun c hc => ha c (List.mem_reverse.mp hc))
  | cons c cs ih =>
    intro acc hn ha
    have hcs : ∀ x ∈ cs, isUpperAZ x = false := fun x hx => hn x (List.mem_cons_of_mem _ hx)
    simp only [segwiseGo]
    by_cases hc : c = '.'
    · simp only [hc, if_true]
      rw [hfix _ (fun x hx => ha x (List.mem_reverse.mp hx)), ih [] hcs (by simp)]
      simp
    · simp only [hc, if_false]
      rw [ih (c :: acc) hcs (by intro x hx; rcases List.mem_cons.mp hx with rfl | hx; exact hn _ (by simp); exact ha x hx)]
      simp

/-- the respelling given by a table of (spelling in the first text, spelling in the second text) -/
def respell (pairs : List (List Char × List Char)) (n : List Char) : List Char := (pairs.lookup n).getD n

/-- every entry of the table is a change of letter case, of a word that contains an upper-case letter -/
def RespellTable (pairs : List (List Char × List Char)) : Bool :=
  pairs.all (fun p => decide (lowerChars p.2 = lowerChars p.1) && p.1.any isUpperAZ)

theorem lookup_mem {α β : Type} [BEq α] [LawfulBEq α] : ∀ (l : List (α × β)) (a : α) (b : β), l.lookup a = some b → (a, b) ∈ l
  | [], a, b, h => by simp at h
  | (x, y) :: l, a, b, h => by
    simp only [List.lookup_cons] at h
    by_cases hx : a == x
    · simp only [hx] at h
      have : a = x := by simpa using hx
      simp only [Option.some.injEq] at h
      subst this; subst h; simp
    · simp only [hx] at h
      exact List.mem_cons_of_mem _ (lookup_mem l a b h)

/-- **a table of case changes gives a name map**: e.g. `[("COUNT", "count"), ("INT", "int")]` -/
theorem nameMap_respell (pairs : List (List Char × List Char)) (h : RespellTable pairs = true) :
    NameMap (segwise (respell pairs)) := by
  simp only [RespellTable, List.all_eq_true, Bool.and_eq_true, decide_eq_true_eq] at h
  have hcase : CaseOnly (respell pairs) := by
    intro n
    unfold respell
    cases hl : pairs.lookup n with
    | none => rfl
    | some b => exact (h _ (lookup_mem _ _ _ hl)).1
  have hfix : ∀ w, (∀ c ∈ w, isUpperAZ c = false) → respell pairs w = w := by
    intro w hw
    unfold respell
    cases hl : pairs.lookup w with
    | none => rfl
    | some b =>
      exfalso
      obtain ⟨c, hc, hu⟩ := List.any_eq_true.mp (h _ (lookup_mem _ _ _ hl)).2
      rw [hw c hc] at hu
      cases hu
  refine nameMap_segwise _ hcase (hfix _ (by decide)) ?_
  intro p
  unfold segwise
  rw [segwiseGo_fix _ hfix _ [] ?_ (by simp)]
  · rfl
  · intro c hc
    rcases List.mem_append.mp hc with hc' | hc'
    · have : ∀ c ∈ "timestamp_extract_".toList, isUpperAZ c = false := by decide
      exact this c hc'
    · exact lowerChars_noUpper p c hc'

end Sqlgrep
