import SqlgrepModel.Lemmas.AggBatch
/-
C11, aggregate half, by direct simulation: the follow-mode state (update + result per row) against the batch-mode state
(update only) after the same rows — cells similar, hence the same table — with no reference to the specification.
-/
set_option linter.unusedSimpArgs false
namespace Sqlgrep
open Value Spec.Agg

/-! ### follow mode against batch mode, state against state -/

/-- `publishPercentiles` on the stored side keeps a cell similar to its ideal counterpart -/
theorem cellSim_publish {kind : AggKind} {c' c : Cell} (hsim : CellSim kind c' c) :
    CellSim kind { agg := c'.agg, val := published c' } c := by
  cases kind with
  | percentile e p =>
    obtain ⟨hagg, hval, hshape, hstale⟩ := hsim
    refine ⟨hagg, hval, hshape, ?_⟩
    simp only
    unfold published
    rw [hagg]
    cases ha : c.agg with
    | none =>
      rcases hstale with h1 | ⟨xs, p', h2, _⟩
      · exact Or.inl h1
      · rw [ha] at h2; simp at h2
    | some a =>
      obtain ⟨xs, p', hxs⟩ := hshape a ha
      subst hxs
      simp only
      cases hv : percentileValue xs p' with
      | some v =>
        right
        refine ⟨xs, p', rfl, ?_⟩
        intro he; subst he
        simp [percentileValue, sortValues] at hv
      | none =>
        simp only
        rcases hstale with h1 | ⟨ys, q0, h2, hne⟩
        · exact Or.inl h1
        · right
          rw [ha] at h2
          exact ⟨ys, q0, h2, hne⟩
  | _ =>
    simp only [CellSim] at hsim ⊢
    obtain ⟨he, hp⟩ := hsim
    refine ⟨?_, hp⟩
    rw [he]
    have : published c = c.val := by
      unfold published
      cases ha : c.agg with
      | none => rfl
      | some a => cases a <;> first | rfl | (rw [ha] at hp; simp [isPct] at hp)
    rw [this]

/-- the follow-mode state `sf` against the batch-mode state `sb` after the same rows: every cell of `sf` is similar
to the corresponding cell of `sb` (identical but for published PERCENTILE values) -/
structure Sim2 (q : AggStmt) (sf sb : AggState) (S : List (List Value)) : Prop where
  sortedF : AggSorted sf
  sortedB : AggSorted sb
  shapeF : Shape sf S
  shapeB : Shape sb S
  cells : ∀ key i kind, (i, kind) ∈ rowSlots q → CellSim kind (readCell sf key i) (readCell sb key i)
  others : ∀ key i, i ∉ (rowSlots q).map (·.1) → readCell sf key i = {} ∧ readCell sb key i = {}

theorem sim2_init (q : AggStmt) : Sim2 q {} {} [] :=
  ⟨aggSorted_init, aggSorted_init, shape_init _, shape_init _, fun _ _ kind _ => CellSim.refl_init kind, fun _ _ _ => ⟨rfl, rfl⟩⟩

/-- the same row fed to both states -/
theorem sim2_step {O : Oracles} {q : AggStmt} {sf sb sf' sb' : AggState} {S : List (List Value)} {env : Env} {u u' : Bool}
    (h : Sim2 q sf sb S) (hf : aggUpdateRow O q sf env = .ok (sf', u)) (hb : aggUpdateRow O q sb env = .ok (sb', u')) :
    u = u' ∧ ∃ S', Sim2 q sf' sb' S' ∧ (∀ k ∈ S, k ∈ S') ∧
      (∀ k ∈ S', k ∈ S ∨ keyOf O q env = some k) := by
  obtain ⟨hsF, hpF, hfF, htF⟩ := aggUpdateRow_cells h.sortedF hf
  obtain ⟨hsB, hpB, hfB, htB⟩ := aggUpdateRow_cells h.sortedB hb
  have hu : u = u' := by rw [hpF] at hpB; simpa using hpB
  subst hu
  refine ⟨rfl, ?_⟩
  cases u with
  | false =>
    rw [hfF rfl, hfB rfl]
    exact ⟨S, h, fun k hk => hk, fun k hk => Or.inl hk⟩
  | true =>
    obtain ⟨key, hkey, hinF, houtF, hshF⟩ := htF rfl
    obtain ⟨key', hkey', hinB, houtB, hshB⟩ := htB rfl
    rw [hkey] at hkey'
    simp only [Option.some.injEq] at hkey'
    subst hkey'
    refine ⟨key :: S, ⟨hsF, hsB, ?_, ?_, ?_, ?_⟩, fun k hk => by simp [hk], ?_⟩
    · exact hshF _ (shape_mono h.shapeF (fun k hk => by simp [hk])) (by simp)
    · exact hshB _ (shape_mono h.shapeB (fun k hk => by simp [hk])) (by simp)
    · intro k' i kind hm
      by_cases hk : cmpList key k' = .eq
      · rw [← readCell_congr sf' hk i, ← readCell_congr sb' hk i]
        have hsim := h.cells key i kind hm
        obtain ⟨d, hd, hsd⟩ := cellStep_sim hsim (hinF i kind hm)
        rw [hinB i kind hm] at hd
        simp only [Outcome.ok.injEq] at hd
        rw [hd]; exact hsd
      · rw [houtF k' i (Or.inl hk), houtB k' i (Or.inl hk)]
        exact h.cells k' i kind hm
    · intro k' i hi
      rw [houtF k' i (Or.inr hi), houtB k' i (Or.inr hi)]
      exact h.others k' i hi
    · intro k hk
      rcases List.mem_cons.mp hk with hk | hk
      · exact Or.inr (by rw [hk]; exact hkey)
      · exact Or.inl hk

/-- a result (its only state change is `publishPercentiles`) on the follow side -/
theorem sim2_publish {q : AggStmt} {sf sb : AggState} {S : List (List Value)} (h : Sim2 q sf sb S) :
    Sim2 q (publishPercentiles sf) sb S := by
  refine ⟨aggSorted_publish h.sortedF, h.sortedB, shape_publish h.shapeF, h.shapeB, ?_, ?_⟩
  · intro key i kind hm
    rw [readCell_publish h.sortedF h.shapeF.aggsInner]
    exact cellSim_publish (h.cells key i kind hm)
  · intro key i hi
    rw [readCell_publish h.sortedF h.shapeF.aggsInner, (h.others key i hi).1]
    exact ⟨rfl, (h.others key i hi).2⟩

/-! ### the result loop reads `group_values` only through keys and lookups -/

inductive SameView : List (List Value × List (Nat × Value)) → List (List Value × List (Nat × Value)) → Prop
  | nil : SameView [] []
  | cons {k : List Value} {s s' : List (Nat × Value)} {V V' : List (List Value × List (Nat × Value))} :
      (∀ i, alGet s i = alGet s' i) → SameView V V' → SameView ((k, s) :: V) ((k, s') :: V')

theorem cellOf_congr (O : Oracles) (q : AggStmt) (i : Nat) (item : AggItem) (key : List Value) {s s' : List (Nat × Value)}
    (h : ∀ i, alGet s i = alGet s' i) : cellOf O q i item key s = cellOf O q i item key s' := by
  unfold cellOf
  cases item.kind <;> simp only [h]

theorem rowOf_congr (O : Oracles) (q : AggStmt) (key : List Value) {s s' : List (Nat × Value)} (h : ∀ i, alGet s i = alGet s' i)
    (l : List (Nat × AggItem)) : rowOf O q key s l = rowOf O q key s' l := by
  induction l with
  | nil => rfl
  | cons p rest ih =>
    obtain ⟨i, item⟩ := p
    simp only [rowOf, ih]
    rw [cellOf_congr O q i item key h]

theorem havingOk_congr (O : Oracles) (q : AggStmt) (key : List Value) {s s' : List (Nat × Value)} (h : ∀ i, alGet s i = alGet s' i) :
    havingOk O q key s = havingOk O q key s' := by
  unfold havingOk
  cases q.having with
  | none => rfl
  | some hx => simp only [acceptGroup, h]

theorem resultRows_congr (O : Oracles) (q : AggStmt) {V V' : List (List Value × List (Nat × Value))} (h : SameView V V')
    (seen : List (List Value)) : resultRows O q V seen = resultRows O q V' seen := by
  induction h generalizing seen with
  | nil => rfl
  | @cons k s s' V V' hl _ ih =>
    rw [resultRows_cons, resultRows_cons, rowOf_congr O q k hl, havingOk_congr O q k hl]
    cases rowOf O q k s' (enumFrom 0 q.items) with
    | ok row =>
      simp only [Outcome.bind]
      cases havingOk O q k s' with
      | ok keep => simp only [ih]
      | error e => rfl
      | panic e => rfl
      | oracleMissing e => rfl
    | error e => rfl
    | panic e => rfl
    | oracleMissing e => rfl

theorem sameView_get {V V' : List (List Value × List (Nat × Value))} (h : SameView V V') :
    V.length = V'.length ∧ ∀ (n : Nat) (g g' : List Value × List (Nat × Value)), V[n]? = some g → V'[n]? = some g' →
      g.1 = g'.1 ∧ ∀ i, alGet g.2 i = alGet g'.2 i := by
  induction h with
  | nil => exact ⟨rfl, fun n g g' hg => by simp at hg⟩
  | @cons k s s' V V' hl _ ih =>
    refine ⟨by simp [ih.1], ?_⟩
    intro n g g' hg hg'
    cases n with
    | zero =>
      simp only [List.getElem?_cons_zero, Option.some.injEq] at hg hg'
      subst hg; subst hg'
      exact ⟨rfl, hl⟩
    | succ n =>
      simp only [List.getElem?_cons_succ] at hg hg'
      exact ih.2 n g g' hg hg'

/-- the column pass (`extract_result_rows_by_column`) reads `group_values` only through keys and lookups -/
theorem checkRows_congr (O : Oracles) (q : AggStmt) {V V' : List (List Value × List (Nat × Value))} (h : SameView V V') :
    aggColumns O q V (enumFrom 0 q.items) = aggColumns O q V' (enumFrom 0 q.items) := by
  obtain ⟨hl, hg⟩ := sameView_get h
  apply aggColumns_congr hl
  intro p _ n g g' h1 h2
  obtain ⟨hk, ha⟩ := hg n g g' h1 h2
  obtain ⟨k, s⟩ := g
  obtain ⟨k', s'⟩ := g'
  simp only at hk ha ⊢
  subst hk
  exact cellOf_congr O q p.1 p.2 k ha

theorem sameView_of {V V' : List (List Value × List (Nat × Value))} (hkeys : V.map (·.1) = V'.map (·.1))
    (F : List Value → Nat → Option Value) (hV : ∀ p ∈ V, ∀ i, alGet p.2 i = F p.1 i)
    (hV' : ∀ p ∈ V', ∀ i, alGet p.2 i = F p.1 i) : SameView V V' := by
  induction V generalizing V' with
  | nil =>
    cases V' with
    | nil => exact SameView.nil
    | cons _ _ => simp at hkeys
  | cons p V ih =>
    cases V' with
    | nil => simp at hkeys
    | cons p' V' =>
      obtain ⟨k, s⟩ := p
      obtain ⟨k', s'⟩ := p'
      simp only [List.map_cons, List.cons.injEq] at hkeys
      obtain ⟨hk, hrest⟩ := hkeys
      subst hk
      refine SameView.cons ?_ (ih hrest (fun p hp => hV p (by simp [hp])) (fun p hp => hV' p (by simp [hp])))
      intro i
      rw [hV (k, s) (by simp) i, hV' (k, s') (by simp) i]

theorem alGet_head {α : Type} (l : List (Nat × α)) (h : l ≠ []) : ∃ i v, alGet l i = some v := by
  cases l with
  | nil => exact absurd rfl h
  | cons p ps => exact ⟨p.1, p.2, by rw [alGet_cons]; simp⟩

/-- in a well-shaped state, the listed groups are exactly the keys with some stored value (up to exactness) -/
theorem vals_key_iff {st : AggState} {S : List (List Value)} (hs : AggSorted st) (hsh : Shape st S) (hex : KeysExact S)
    (x : List Value) (hx : x ∈ S) : x ∈ st.vals.map (·.1) ↔ ∃ i, (readCell st x i).val.isSome = true := by
  constructor
  · intro hm
    obtain ⟨p, hp, hpx⟩ := List.mem_map.mp hm
    obtain ⟨k, subs⟩ := p
    simp only at hpx
    subst hpx
    obtain ⟨i, v, hv⟩ := alGet_head subs (hsh.valsNonempty _ hp)
    exact ⟨i, by simp [readCell, gmLookup, gmGet_of_mem hs.vals hp, hv]⟩
  · rintro ⟨i, hi⟩
    simp only [readCell] at hi
    cases hl : gmLookup st.vals x i with
    | none => simp [hl] at hi
    | some v =>
      simp only [gmLookup, Option.bind] at hl
      cases hg : gmGet st.vals x with
      | none => simp [hg] at hl
      | some subs =>
        obtain ⟨key, hkm, hke⟩ := gmGet_some_mem hg
        have : key = x := hex key (hsh.valsKeys _ hkm) x hx hke
        subst this
        exact List.mem_map.mpr ⟨_, hkm, rfl⟩

/-- **the table is the same**: `execute_result` on the follow-mode state and on the batch-mode state yield the same
table (or fail alike) -/
theorem aggResult_sim2 {O : Oracles} {q : AggStmt} {sf sb : AggState} {S : List (List Value)} (h : Sim2 q sf sb S)
    (hex : KeysExact S) :
    (aggResult O q sf).bind (fun r => .ok r.2) = (aggResult O q sb).bind (fun r => (.ok r.2 : Outcome RowOut)) := by
  have hsF := aggSorted_publish h.sortedF
  have hsB := aggSorted_publish h.sortedB
  have hshF := shape_publish h.shapeF
  have hshB := shape_publish h.shapeB
  -- the values both result loops read
  have hval : ∀ key i, (readCell (publishPercentiles sf) key i).val = (readCell (publishPercentiles sb) key i).val := by
    intro key i
    rw [readCell_publish h.sortedF h.shapeF.aggsInner, readCell_publish h.sortedB h.shapeB.aggsInner]
    by_cases hm : i ∈ (rowSlots q).map (·.1)
    · obtain ⟨p, hp, hpi⟩ := List.mem_map.mp hm
      obtain ⟨i', kind⟩ := p
      simp only at hpi
      subst hpi
      exact (h.cells key i' kind hp).published
    · rw [(h.others key i hm).1, (h.others key i hm).2]
  have hkeys : (publishPercentiles sf).vals.map (·.1) = (publishPercentiles sb).vals.map (·.1) := by
    apply sorted_ext hsF.vals hsB.vals
    intro x
    constructor
    · intro hx
      have hxS : x ∈ S := by
        obtain ⟨p, hp, hpx⟩ := List.mem_map.mp hx
        rw [← hpx]; exact hshF.valsKeys p hp
      rw [vals_key_iff hsB hshB hex x hxS]
      obtain ⟨i, hi⟩ := (vals_key_iff hsF hshF hex x hxS).mp hx
      exact ⟨i, by rw [← hval]; exact hi⟩
    · intro hx
      have hxS : x ∈ S := by
        obtain ⟨p, hp, hpx⟩ := List.mem_map.mp hx
        rw [← hpx]; exact hshB.valsKeys p hp
      rw [vals_key_iff hsF hshF hex x hxS]
      obtain ⟨i, hi⟩ := (vals_key_iff hsB hshB hex x hxS).mp hx
      exact ⟨i, by rw [hval]; exact hi⟩
  have hview : SameView (publishPercentiles sf).vals (publishPercentiles sb).vals := by
    apply sameView_of hkeys (fun key i => (readCell (publishPercentiles sf) key i).val)
    · intro p hp i
      obtain ⟨k, subs⟩ := p
      simp [readCell, gmLookup, gmGet_of_mem hsF.vals hp]
    · intro p hp i
      obtain ⟨k, subs⟩ := p
      simp only
      rw [hval]
      simp [readCell, gmLookup, gmGet_of_mem hsB.vals hp]
  rw [aggResult_eq, aggResult_eq, checkRows_congr O q hview, resultRows_congr O q hview]
  cases aggColumns O q (publishPercentiles sb).vals (enumFrom 0 q.items) with
  | ok _ =>
    simp only [Outcome.bind]
    cases resultRows O q (publishPercentiles sb).vals [] <;> rfl
  | error e => rfl
  | panic e => rfl
  | oracleMissing e => rfl

/-! ### histories -/

/-- the GROUP BY keys of the rows of an input (those whose key evaluates) -/
def groupKeysOf (O : Oracles) (q : AggStmt) (envs : List Env) : List (List Value) := envs.filterMap (keyOf O q)

theorem sim2_runs {O : Oracles} {q : AggStmt} (envs : List Env) {sf0 sb0 sf sb : AggState} {S0 K : List (List Value)}
    (h : Sim2 q sf0 sb0 S0) (hS : ∀ k ∈ S0, k ∈ K)
    (hf : followRun O q envs sf0 = .ok sf) (hb : aggRun O q envs sb0 = .ok sb) :
    ∃ S, Sim2 q sf sb S ∧ ∀ k ∈ S, k ∈ K ∨ k ∈ groupKeysOf O q envs := by
  induction envs generalizing sf0 sb0 S0 K with
  | nil =>
    simp only [followRun, aggRun, Outcome.ok.injEq] at hf hb
    subst hf; subst hb
    exact ⟨S0, h, fun k hk => Or.inl (hS k hk)⟩
  | cons env rest ih =>
    simp only [followRun, followStep, aggRun] at hf hb
    obtain ⟨⟨sf1, r⟩, hf1, hf2⟩ := obind_ok hf
    obtain ⟨⟨sfu, u⟩, hfu, hfr⟩ := obind_ok hf1
    obtain ⟨⟨sb1, u'⟩, hb1, hb2⟩ := obind_ok hb
    obtain ⟨hu, S1, hsim1, hsub, hnew⟩ := sim2_step h hfu hb1
    subst hu
    -- the follow side may run a result after the update
    have hsim1' : Sim2 q sf1 sb1 S1 := by
      cases u with
      | false =>
        simp only [Bool.false_eq_true, if_false, Outcome.ok.injEq, Prod.mk.injEq] at hfr
        rw [← hfr.1]; exact hsim1
      | true =>
        simp only [if_true] at hfr
        obtain ⟨⟨s2, out⟩, h3, h4⟩ := obind_ok hfr
        simp only [Outcome.ok.injEq, Prod.mk.injEq] at h4
        rw [← h4.1, aggResult_state h3]
        exact sim2_publish hsim1
    have hS1 : ∀ k ∈ S1, k ∈ K ++ (keyOf O q env).toList := by
      intro k hk
      rcases hnew k hk with h1 | h1
      · exact List.mem_append_left _ (hS k h1)
      · exact List.mem_append_right _ (by simp [h1])
    obtain ⟨S, hsim, hSk⟩ := ih hsim1' hS1 hf2 hb2
    refine ⟨S, hsim, ?_⟩
    intro k hk
    rcases hSk k hk with h1 | h1
    · rcases List.mem_append.mp h1 with h2 | h2
      · exact Or.inl h2
      · right
        simp only [groupKeysOf, List.filterMap_cons]
        cases hko : keyOf O q env with
        | none => simp [hko] at h2
        | some k0 => simp only [hko, Option.toList_some, List.mem_singleton] at h2; simp [h2]
    · right
      simp only [groupKeysOf, List.filterMap_cons]
      cases keyOf O q env with
      | none => exact h1
      | some k0 => exact List.mem_cons_of_mem _ h1

/-- **C11, aggregate half, without the specification**: feed the rows `pre` one at a time with update + result, then a
row `env` that WHERE admits; the table shown for it equals the table of a batch run (update only per row, one result)
over `pre ++ [env]` — for every statement without LIMIT (any aggregates, HAVING, DISTINCT, also inside the finding
classes D10/D15 and whatever the specification says), provided both runs got that far and the group keys seen are
exact (equal in the value order ⇒ identical). -/
theorem follow_table_eq_batch_direct {O : Oracles} {q : AggStmt} (hlim : q.limit = none) (pre : List Env) (env : Env)
    {sf sf1 sf2 sb : AggState} {out : RowOut}
    (hfollow : followRun O q pre {} = .ok sf) (hupd : aggUpdateRow O q sf env = .ok (sf1, true))
    (hres : aggResult O q sf1 = .ok (sf2, out))
    (hbatch : aggRun O q (pre ++ [env]) {} = .ok sb)
    (hex : KeysExact (groupKeysOf O q (pre ++ [env]))) :
    finalResult O q { agg := sb } = .ok out := by
  rw [aggRun_append] at hbatch
  obtain ⟨sbp, hbp, hbl⟩ := obind_ok hbatch
  simp only [aggRun] at hbl
  obtain ⟨⟨sb', u'⟩, hbu, hbe⟩ := obind_ok hbl
  simp only [Outcome.ok.injEq] at hbe
  subst hbe
  obtain ⟨S, hsim, hSk⟩ := sim2_runs pre (sim2_init q) (K := []) (fun k hk => by simp at hk) hfollow hbp
  obtain ⟨hu, S1, hsim1, _, hnew⟩ := sim2_step hsim hupd hbu
  have hexS : KeysExact S1 := by
    have hsubK : ∀ k ∈ S1, k ∈ groupKeysOf O q (pre ++ [env]) := by
      intro k hk
      simp only [groupKeysOf, List.filterMap_append, List.mem_append]
      rcases hnew k hk with h1 | h1
      · rcases hSk k h1 with h2 | h2
        · simp at h2
        · exact Or.inl h2
      · right; simp [h1]
    intro a ha b hb hab
    exact hex a (hsubK a ha) b (hsubK b hb) hab
  have := aggResult_sim2 (O := O) hsim1 hexS
  rw [hres] at this
  simp only [Outcome.bind] at this
  cases hrb : aggResult O q sb' with
  | ok rb =>
    rw [hrb] at this
    simp only [Outcome.bind, Outcome.ok.injEq] at this
    simp only [finalResult, hrb, hlim, bind, Outcome.bind, pure, this]
  | error e => rw [hrb] at this; simp [Outcome.bind] at this
  | panic e => rw [hrb] at this; simp [Outcome.bind] at this
  | oracleMissing e => rw [hrb] at this; simp [Outcome.bind] at this

end Sqlgrep
