import SqlgrepModel.Model.Eval
import SqlgrepModel.Lemmas.FloatOrder
/-
INT × REAL: `F64.cmpIntReal` (the model of `compare_int_float`) is the exact comparison of an integer with
the value of a REAL, and `compareValues` (the order `Compare`/`IN` use) is, on numbers, the comparison of an
integer-valued key — hence a total preorder across all INT/REAL mixes.
-/
namespace Sqlgrep

theorem intCompare_lt {a b : Int} (h : a < b) : compare a b = .lt := Int.compare_eq_lt.2 h
theorem intCompare_gt {a b : Int} (h : b < a) : compare a b = .gt := Int.compare_eq_gt.2 h
theorem intCompare_eq {a b : Int} (h : a = b) : compare a b = .eq := Int.compare_eq_eq.2 h

namespace F64

/-- `compare_int_float` on a finite REAL is the exact comparison of the integer with the REAL's value -/
theorem cmpIntReal_eq_value_cmp (x : Int) (y : Nat) (hy : isFinite y = true) :
    cmpIntReal x y = Dy.cmp (Dy.ofInt x) (value y) := by
  unfold cmpIntReal
  rw [isNaN_false_of_finite hy, isInf_false_of_finite hy]
  simp only [Bool.false_eq_true, if_false]
  unfold Dy.cmp Dy.scale Dy.ofInt value
  simp only
  by_cases h : (mantExp y).2 ≥ 0
  · have hm : min 0 (mantExp y).2 = 0 := by omega
    rw [if_pos h, hm]
    have e1 : ((0 : Int) - 0).toNat = 0 := by decide
    have e2 : ((mantExp y).2 - 0).toNat = (mantExp y).2.toNat := by simp
    rw [e1, e2]; simp
  · have hm : min 0 (mantExp y).2 = (mantExp y).2 := by omega
    rw [if_neg h, hm]
    have e1 : ((0 : Int) - (mantExp y).2).toNat = (-(mantExp y).2).toNat := by simp
    have e2 : ((mantExp y).2 - (mantExp y).2).toNat = 0 := by omega
    rw [e1, e2]; simp

/-- ... equivalently: comparison of `x · 2^1074` with the REAL's integer count of 2^-1074 units -/
theorem cmpIntReal_eq_compare_units (x : Int) (y : Nat) (hy : isFinite y = true) :
    cmpIntReal x y = compare (x * 2 ^ 1074) (units y) := by
  rw [cmpIntReal_eq_value_cmp x y hy,
    Dy.cmp_eq_scale _ _ (-1074) (by simp [Dy.ofInt]) (mantExp_exp_ge y), value_scale]
  rfl

theorem cmpIntReal_nan (x : Int) (y : Nat) (hy : isNaN y = true) : cmpIntReal x y = .lt := by
  unfold cmpIntReal; simp [hy]

theorem cmpIntReal_inf (x : Int) (y : Nat) (hy : isInf y = true) :
    cmpIntReal x y = if signBit y then .gt else .lt := by
  have hn : isNaN y = false := by rcases classify y with h | h | h <;> simp_all
  unfold cmpIntReal; simp [hy, hn]

end F64

/-! ### the order key of a number -/

def isNumber : Value → Bool
  | .int _ => true
  | .real _ => true
  | _ => false

/-- INT, or REAL that is neither NaN nor infinite -/
def isFiniteNumber : Value → Bool
  | .int _ => true
  | .real n => F64.isFinite n
  | _ => false

/-- the exact value of a finite number -/
def numValue : Value → Dy
  | .int i => Dy.ofInt i
  | .real n => F64.value n
  | _ => ⟨0, 0⟩

/-- `-1`: −inf, `0`: INT and finite REAL, `1`: +inf, `2`: NaN -/
def numClass : Value → Int
  | .real n => if F64.isNaN n then 2 else if F64.isInf n then (if F64.signBit n then -1 else 1) else 0
  | _ => 0

/-- exact value in units of 2^-1074 (an integer) of a finite number; 0 for ±inf and NaN -/
def numUnits : Value → Int
  | .int i => i * 2 ^ 1074
  | .real n => if F64.isFinite n then F64.units n else 0
  | _ => 0

theorem numClass_finite {v : Value} (h : isFiniteNumber v = true) : numClass v = 0 := by
  cases v <;> simp [isFiniteNumber] at h <;> simp [numClass]
  simp [F64.isNaN_false_of_finite h, F64.isInf_false_of_finite h]

theorem numUnits_eq_scale {v : Value} (h : isFiniteNumber v = true) : numUnits v = (numValue v).scale (-1074) := by
  cases v <;> simp [isFiniteNumber] at h
  · simp only [numUnits, numValue, Dy.ofInt, Dy.scale]; rfl
  · simp only [numUnits, numValue, h, if_true, F64.value_scale]

theorem numValue_exp_ge {v : Value} : -1074 ≤ (numValue v).e := by
  cases v <;> simp [numValue, Dy.ofInt]
  exact F64.mantExp_exp_ge _

private theorem real_real_key (a b : Nat) :
    F64.cmp a b = (compare (numClass (.real a)) (numClass (.real b))).then
      (compare (numUnits (.real a)) (numUnits (.real b))) := by
  simp only [numClass, numUnits]
  rcases F64.classify a with ⟨fa, ia, na⟩ | ⟨fa, ia, na⟩ | ⟨fa, ia, na⟩ <;>
    rcases F64.classify b with ⟨fb, ib, nb⟩ | ⟨fb, ib, nb⟩ | ⟨fb, ib, nb⟩ <;>
    simp only [fa, ia, na, fb, ib, nb, if_true, if_false, Bool.false_eq_true]
  · -- finite, finite
    rw [F64.cmp_eq_compare_units a b na nb, intCompare_eq (rfl : (0 : Int) = 0)]; rfl
  · -- finite, inf
    cases sb : F64.signBit b
    · rw [F64.finite_lt_pos_inf b a ib sb fa]; rfl
    · have := F64.neg_inf_lt_finite b a ib sb fa
      rw [F64.cmp_swap b a, this]; rfl
  · rw [F64.cmp_lt_nan a b na nb]; rfl
  · -- inf, finite
    cases sa : F64.signBit a
    · have := F64.finite_lt_pos_inf a b ia sa fb
      rw [F64.cmp_swap b a, this]; rfl
    · rw [F64.neg_inf_lt_finite a b ia sa fb]; rfl
  · -- inf, inf
    cases sa : F64.signBit a <;> cases sb : F64.signBit b
    · rw [(F64.inf_eq_iff a b ia ib).2 (by rw [sa, sb])]; rfl
    · have := F64.neg_inf_lt_pos_inf b a ib sb ia sa
      rw [F64.cmp_swap b a, this]; rfl
    · rw [F64.neg_inf_lt_pos_inf a b ia sa ib sb]; rfl
    · rw [(F64.inf_eq_iff a b ia ib).2 (by rw [sa, sb])]; rfl
  · rw [F64.cmp_lt_nan a b na nb]; cases F64.signBit a <;> rfl
  · rw [F64.cmp_nan_gt a b na nb]; rfl
  · rw [F64.cmp_nan_gt a b na nb]; cases F64.signBit b <;> rfl
  · rw [F64.cmp_nan_nan a b na nb]; rfl

private theorem int_real_key (x : Int) (y : Nat) :
    F64.cmpIntReal x y = (compare (numClass (.int x)) (numClass (.real y))).then
      (compare (numUnits (.int x)) (numUnits (.real y))) := by
  simp only [numClass, numUnits]
  rcases F64.classify y with ⟨fy, iy, ny⟩ | ⟨fy, iy, ny⟩ | ⟨fy, iy, ny⟩ <;>
    simp only [fy, iy, ny, if_true, if_false, Bool.false_eq_true]
  · rw [F64.cmpIntReal_eq_compare_units x y fy, intCompare_eq (rfl : (0 : Int) = 0)]; rfl
  · rw [F64.cmpIntReal_inf x y iy]; cases F64.signBit y <;> rfl
  · rw [F64.cmpIntReal_nan x y ny]; rfl

/-- **the WHERE order on numbers is the order of an integer-valued key** (class, then exact value in
units of 2^-1074), for every mix of INT and REAL, infinities and NaN included. -/
theorem compareValues_eq_key (a b : Value) (ha : isNumber a = true) (hb : isNumber b = true) :
    compareValues a b = (compare (numClass a) (numClass b)).then (compare (numUnits a) (numUnits b)) := by
  cases a <;> simp [isNumber] at ha <;> cases b <;> simp [isNumber] at hb
  · rename_i i j
    simp only [compareValues, Value.cmp, numClass, numUnits]
    rw [intCompare_mul_pos _ _ _ (Int.pow_pos (by decide)), intCompare_eq (rfl : (0 : Int) = 0)]; rfl
  · exact int_real_key _ _
  · rename_i y x
    simp only [compareValues]
    rw [int_real_key x y, Ordering.swap_then, Int.compare_swap, Int.compare_swap (numUnits _)]
  · simp only [compareValues, Value.cmp]; exact real_real_key _ _

/-- the WHERE order is the derived (GROUP BY) order on every pair that is not an INT/REAL mix -/
theorem compareValues_eq_cmp (a b : Value)
    (h : ¬ ((∃ i n, a = .int i ∧ b = .real n) ∨ (∃ i n, a = .real n ∧ b = .int i))) :
    compareValues a b = Value.cmp a b := by
  cases a <;> cases b <;> first | rfl | (exfalso; apply h; simp)

theorem compareValues_swap (a b : Value) : compareValues b a = (compareValues a b).swap := by
  cases a <;> cases b <;>
    first
    | (simp only [compareValues]; exact Value.cmp_swap _ _)
    | (simp only [compareValues, Ordering.swap_swap])
    | rfl

theorem compareValues_T (a b c : Value) (ha : isNumber a = true) (hb : isNumber b = true) (hc : isNumber c = true) :
    T (compareValues a b) (compareValues b c) (compareValues a c) := by
  rw [compareValues_eq_key a b ha hb, compareValues_eq_key b c hb hc, compareValues_eq_key a c ha hc]
  exact T_then (T_int _ _ _) (fun _ _ => T_int _ _ _)

theorem compareValues_refl (a : Value) : compareValues a a = .eq := by
  cases a <;> simp only [compareValues] <;> exact Value.cmp_refl _

/-- finite numbers of any mix compare by exact value -/
theorem compareValues_eq_value_cmp (a b : Value) (ha : isFiniteNumber a = true) (hb : isFiniteNumber b = true) :
    compareValues a b = Dy.cmp (numValue a) (numValue b) := by
  have na : isNumber a = true := by cases a <;> simp_all [isFiniteNumber, isNumber]
  have nb : isNumber b = true := by cases b <;> simp_all [isFiniteNumber, isNumber]
  rw [compareValues_eq_key a b na nb, numClass_finite ha, numClass_finite hb, numUnits_eq_scale ha, numUnits_eq_scale hb,
    Dy.cmp_eq_scale _ _ (-1074) numValue_exp_ge numValue_exp_ge]
  rfl

/-! ### timestamps: lexicographic (day, second of day, nanosecond) order vs. the instant -/

/-- the ranges of the fields of every TIMESTAMP the model creates (`createTimestamp`, `tsOfTotal`, chrono's
`NaiveTime` invariant): second of day in [0, 86400), nanosecond in [0, 2·10^9) where [10^9, 2·10^9) is chrono's
leap-second representation -/
def TsValid (s f : Int) : Prop := 0 ≤ s ∧ s < 86400 ∧ 0 ≤ f ∧ f < 2000000000
/-- ... and not in the leap-second representation -/
def TsPlain (s f : Int) : Prop := 0 ≤ s ∧ s < 86400 ∧ 0 ≤ f ∧ f < 1000000000

/-- position on a time line on which every second has room for its leap second (2·10^9 slots per second) -/
def tsLeapKey (d s f : Int) : Int := (d * 86400 + s) * 2000000000 + f

theorem ts_lex_eq_instant (d s f d' s' f' : Int) (h : TsPlain s f) (h' : TsPlain s' f') :
    ((compare d d').then (compare s s')).then (compare f f') = compare (tsTotal d s f) (tsTotal d' s' f') := by
  obtain ⟨a1, a2, a3, a4⟩ := h
  obtain ⟨b1, b2, b3, b4⟩ := h'
  unfold tsTotal nsPerSec
  generalize hX : (d * 86400 + s) * 1000000000 + f = X
  generalize hY : (d' * 86400 + s') * 1000000000 + f' = Y
  rcases Int.lt_trichotomy d d' with h | h | h
  · rw [intCompare_lt h, intCompare_lt (show X < Y by omega)]; rfl
  · rw [intCompare_eq h]
    rcases Int.lt_trichotomy s s' with h2 | h2 | h2
    · rw [intCompare_lt h2, intCompare_lt (show X < Y by omega)]; rfl
    · rw [intCompare_eq h2]
      rcases Int.lt_trichotomy f f' with h3 | h3 | h3
      · rw [intCompare_lt h3, intCompare_lt (show X < Y by omega)]; rfl
      · rw [intCompare_eq h3, intCompare_eq (show X = Y by omega)]; rfl
      · rw [intCompare_gt h3, intCompare_gt (show Y < X by omega)]; rfl
    · rw [intCompare_gt h2, intCompare_gt (show Y < X by omega)]; rfl
  · rw [intCompare_gt h, intCompare_gt (show Y < X by omega)]; rfl

theorem ts_lex_eq_leapKey (d s f d' s' f' : Int) (h : TsValid s f) (h' : TsValid s' f') :
    ((compare d d').then (compare s s')).then (compare f f') = compare (tsLeapKey d s f) (tsLeapKey d' s' f') := by
  obtain ⟨a1, a2, a3, a4⟩ := h
  obtain ⟨b1, b2, b3, b4⟩ := h'
  unfold tsLeapKey
  generalize hX : (d * 86400 + s) * 2000000000 + f = X
  generalize hY : (d' * 86400 + s') * 2000000000 + f' = Y
  rcases Int.lt_trichotomy d d' with h | h | h
  · rw [intCompare_lt h, intCompare_lt (show X < Y by omega)]; rfl
  · rw [intCompare_eq h]
    rcases Int.lt_trichotomy s s' with h2 | h2 | h2
    · rw [intCompare_lt h2, intCompare_lt (show X < Y by omega)]; rfl
    · rw [intCompare_eq h2]
      rcases Int.lt_trichotomy f f' with h3 | h3 | h3
      · rw [intCompare_lt h3, intCompare_lt (show X < Y by omega)]; rfl
      · rw [intCompare_eq h3, intCompare_eq (show X = Y by omega)]; rfl
      · rw [intCompare_gt h3, intCompare_gt (show Y < X by omega)]; rfl
    · rw [intCompare_gt h2, intCompare_gt (show Y < X by omega)]; rfl
  · rw [intCompare_gt h, intCompare_gt (show Y < X by omega)]; rfl

/-- timestamps made by `tsOfTotal` (timestamp ± interval) are in range and never in leap representation -/
theorem tsOfTotal_plain (t : Int) : ∃ d s f, tsOfTotal t = .timestamp d s f ∧ TsPlain s f := by
  refine ⟨_, _, _, rfl, ?_⟩
  unfold TsPlain nsPerSec
  omega

/-- timestamps made by `create_timestamp` from non-negative fields are in range -/
theorem createTimestamp_valid (y mo d h mi s us : Int) (v : Value)
    (h0 : 0 ≤ h) (m0 : 0 ≤ mi) (s0 : 0 ≤ s) (u0 : 0 ≤ us)
    (hv : createTimestamp y mo d h mi s us = some v) : ∃ dd ss ff, v = .timestamp dd ss ff ∧ TsValid ss ff := by
  unfold createTimestamp at hv
  split at hv
  · rename_i hc
    simp only [Bool.and_eq_true, decide_eq_true_eq] at hc
    obtain ⟨⟨⟨⟨⟨_, h1⟩, h2⟩, h3⟩, h4⟩, _⟩ := hc
    refine ⟨_, _, _, (Option.some.inj hv).symm, ?_⟩
    unfold TsValid; omega
  · exact absurd hv (by simp)

end Sqlgrep
