import SqlgrepModel.Lemmas.LexRun
/-
The tokenizer fold over rendered pieces: gaps (whitespace, comments), string literals, words, numbers,
operators; and the induction over a lexeme sequence that yields `tokenize_render` (Props/C20.lean).
-/
set_option linter.unusedSimpArgs false
namespace Sqlgrep.Lex
open Sqlgrep

theorem run_body (o : Oracles) {st : St} (h : st.pend = .none) (c : Char) (cs : List Char) :
    run o st (c :: cs) = run o (body o st c) cs := by
  rw [run_cons, step_of_pend_none o st c h]; rfl

/-! ### comments and gaps -/

theorem run_incom (o : Oracles) (b : List Char) : ∀ {st : St} {T : List Tok}, InCom st T → '\n' ∉ b →
    ∃ st', run o st (b ++ ['\n']) = .run st' ∧ Clean st' T false := by
  induction b with
  | nil =>
    intro st T h _
    exact ⟨_, by rw [List.nil_append, run_body o h.pend]; rfl, (body_incom o '\n' h).1 rfl⟩
  | cons c b ih =>
    intro st T h hb
    have hc : c ≠ '\n' := fun e => hb (by simp [e])
    have hb' : '\n' ∉ b := fun e => hb (by simp [e])
    obtain ⟨st', hr, hcl⟩ := ih ((body_incom o c h).2 hc) hb'
    exact ⟨st', by rw [List.cons_append, run_body o h.pend]; exact hr, hcl⟩

theorem run_dashed (o : Oracles) (b : List Char) {st : St} {T : List Tok} (h : Dashed st T) (hb : '\n' ∉ b) :
    ∃ st', run o st (b ++ ['\n']) = .run st' ∧ Clean st' T false := by
  cases b with
  | nil => exact ⟨_, by rw [List.nil_append, run_body o h.pend]; rfl, (body_dashed o '\n' h).1 rfl⟩
  | cons c b =>
    have hc : c ≠ '\n' := fun e => hb (by simp [e])
    have hb' : '\n' ∉ b := fun e => hb (by simp [e])
    obtain ⟨st', hr, hcl⟩ := run_incom o b ((body_dashed o c h).2 hc) hb'
    exact ⟨st', by rw [List.cons_append, run_body o h.pend]; exact hr, hcl⟩

/-- the two dashes of a comment opener -/
theorem run_dashes (o : Oracles) {st : St} {T : List Tok} {p : Bool} (h : Clean st T p)
    (hp : p = true → T.head? ≠ some (.op (.single '-'))) (cs : List Char) :
    ∃ st', run o st ('-' :: '-' :: cs) = run o st' cs ∧ Dashed st' T := by
  have h1 := body_dash1 o h hp
  have h2 := body_dash2 o h1 h.nodash
  exact ⟨_, by rw [run_body o h.pend, run_body o h1.pend], h2⟩

/-- a comment `-- … \n` leaves the tokens alone -/
theorem run_comment (o : Oracles) {st : St} {T : List Tok} {p : Bool} (b : List Char) (h : Clean st T p)
    (hp : p = true → T.head? ≠ some (.op (.single '-'))) (hb : '\n' ∉ b) :
    ∃ st', run o st (GapItem.comment b).text = .run st' ∧ Clean st' T false := by
  obtain ⟨st1, hr1, hd⟩ := run_dashes o h hp (b ++ ['\n'])
  obtain ⟨st2, hr2, hc⟩ := run_dashed o b hd hb
  exact ⟨st2, by rw [GapItem.text, hr1, hr2], hc⟩

/-- a whitespace character leaves the tokens alone -/
theorem body_space (o : Oracles) {st : St} {T : List Tok} {p : Bool} {c : Char} (h : Clean st T p)
    (hc : isSpace o c = true) : Clean (body o st c) T false := by
  have hs := not_special_of_space o hc
  simp only [special, List.mem_cons, List.not_mem_nil, or_false, not_or] at hs
  rw [body_clean o c h hs.2.2.2.2.2.1 hs.2.2.2.2.2.2.1, classify_space o _ _ hc]
  exact advance_clean c h

theorem run_gap (o : Oracles) (g : Gap) : ∀ {st : St} {T : List Tok} {p : Bool}, Clean st T p → g.Ok o →
    (p = true → T.head? = some (.op (.single '-')) → g.startsWithComment = false) →
    ∃ st', run o st g.text = .run st' ∧ Clean st' T (if g = [] then p else false) := by
  induction g with
  | nil => intro st T p h _ _; exact ⟨st, rfl, by simpa using h⟩
  | cons i g ih =>
    intro st T p h hok hstart
    have hi : i.Ok o := hok i (by simp)
    have hg : Gap.Ok o g := fun j hj => hok j (by simp [hj])
    have hfirst : ∃ st1, run o st i.text = .run st1 ∧ Clean st1 T false := by
      cases i with
      | ws c => exact ⟨_, by rw [GapItem.text, run_body o h.pend]; rfl, body_space o h hi⟩
      | comment b =>
        refine run_comment o b h ?_ hi
        intro hp hd
        have := hstart hp hd
        simp [Gap.startsWithComment] at this
    obtain ⟨st1, hr1, hc1⟩ := hfirst
    obtain ⟨st2, hr2, hc2⟩ := ih hc1 hg (by intro hp; cases hp)
    refine ⟨st2, ?_, ?_⟩
    · show run o st (i.text ++ Gap.text g) = _
      rw [run_append, hr1]; exact hr2
    · have : (if g = [] then false else false) = false := by split <;> rfl
      rw [this] at hc2
      simpa using hc2


/-! ### string literals -/

/-- the text between the quotes: every well-escaped body is pushed as its unescaped content -/
theorem run_str_body (o : Oracles) (n : Nat) : ∀ (body : List Char) {st : St} {T : List Tok} {s : List Char},
    body.length ≤ n → InStr st T s false → wellEscaped body = true →
    ∃ st', run o st body = .run st' ∧ InStr st' T ((unescape body).reverse ++ s) false := by
  induction n with
  | zero =>
    intro body st T s hn h _
    have : body = [] := List.length_eq_zero_iff.mp (Nat.le_zero.mp hn)
    subst this
    exact ⟨st, rfl, by simpa [unescape] using h⟩
  | succ n ih =>
    intro body st T s hn h hw
    match body, hn, hw with
    | [], _, _ => exact ⟨st, rfl, by simpa [unescape] using h⟩
    | [c], _, hw =>
      have hc : c ≠ '\\' ∧ c ≠ '\'' := by simpa [wellEscaped] using hw
      have h1 := body_instr_plain o c h hc.1 hc.2
      exact ⟨_, by rw [run_body o h.pend]; rfl, by simpa [unescape, hc.1] using h1⟩
    | c :: d :: rest, hn, hw =>
      by_cases hc : c = '\\'
      · subst hc
        have h1 := body_instr_backslash o h
        have h2 := body_instr_escaped o d h1
        have hw' : wellEscaped rest = true := by simpa [wellEscaped] using hw
        obtain ⟨st', hr, hi⟩ := ih rest (by simp at hn; omega) h2 hw'
        refine ⟨st', by rw [run_body o h.pend, run_body o h1.pend]; exact hr, ?_⟩
        simpa [unescape] using hi
      · have hq : c ≠ '\'' := by
          intro e; subst e; simp [wellEscaped] at hw
        have h1 := body_instr_plain o c h hc hq
        have hw' : wellEscaped (d :: rest) = true := by simpa [wellEscaped, hc, hq] using hw
        obtain ⟨st', hr, hi⟩ := ih (d :: rest) (by simp at hn ⊢; omega) h1 hw'
        refine ⟨st', by rw [run_body o h.pend]; exact hr, ?_⟩
        simpa [unescape, hc] using hi

/-- a string literal adds exactly one token: its unescaped content -/
theorem run_str (o : Oracles) {st : St} {T : List Tok} {p : Bool} (body : List Char) (h : Clean st T p)
    (hw : wellEscaped body = true) :
    ∃ st', run o st ('\'' :: (body ++ ['\''])) = .run st' ∧ Clean st' (.str (unescape body) :: T) false := by
  have h0 := body_open o h
  obtain ⟨st1, hr1, h1⟩ := run_str_body o body.length body (Nat.le_refl _) h0 hw
  have h2 := body_close o h1
  refine ⟨_, ?_, by simpa using h2⟩
  rw [run_body o h.pend, run_append, hr1]
  show run o st1 ['\''] = _
  rw [run_body o h1.pend]; rfl

end Sqlgrep.Lex
