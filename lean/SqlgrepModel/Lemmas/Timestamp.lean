import SqlgrepModel.Model.ExtractSpec
import SqlgrepModel.Lemmas.Civil
/-
`create_timestamp` never alters a part: the civil fields read back from the timestamp value are the
numbers that were put in (year, month, day, hour, minute, second, microsecond incl. the leap-second form).
-/
namespace Sqlgrep.Extract
open Lit

/-- the civil fields of a TIMESTAMP value in UTC (inverse of `mkTimestamp`) -/
def tsFields : Value → Option TsParts
  | .timestamp d s f =>
    let c := Civil.civilOfDays d
    some { year := c.1, month := c.2.1, day := c.2.2,
           hour := s.toNat / 3600, minute := s.toNat % 3600 / 60, second := s.toNat % 60,
           micro := f.toNat / 1000 }
  | _ => none

theorem mkTimestamp_some_iff (y : Int) (mo d h mi s us : Nat) (t : Value) :
    mkTimestamp y mo d h mi s us = some t ↔
      Civil.validDate y mo d = true ∧ us * 1000 < 4294967296 ∧ Civil.validTimeNano h mi s (us * 1000) = true ∧
      t = .timestamp (Civil.daysFromCE y mo d) ((h * 3600 + mi * 60 + s : Nat) : Int) ((us * 1000 : Nat) : Int) := by
  unfold mkTimestamp
  split
  · rename_i hc
    simp only [Bool.and_eq_true, decide_eq_true_eq] at hc
    simp only [Option.some.injEq]
    constructor
    · intro h; exact ⟨hc.1.1, hc.1.2, hc.2, h.symm⟩
    · intro h; exact h.2.2.2.symm
  · rename_i hc
    simp only [Bool.and_eq_true, decide_eq_true_eq] at hc
    simp only [reduceCtorEq, false_iff]
    intro h
    exact hc ⟨⟨h.1, h.2.1⟩, h.2.2.1⟩

theorem mkTimestamp_fields (y : Int) (mo d h mi s us : Nat) (t : Value)
    (hm : mkTimestamp y mo d h mi s us = some t) :
    tsFields t = some { year := y, month := mo, day := d, hour := h, minute := mi, second := s, micro := us } := by
  obtain ⟨hd, _, ht, rfl⟩ := (mkTimestamp_some_iff y mo d h mi s us t).1 hm
  unfold Civil.validTimeNano at ht
  simp only [Bool.and_eq_true, decide_eq_true_eq] at ht
  obtain ⟨⟨⟨hh, hmi⟩, hs⟩, _⟩ := ht
  have hc := Civil.civilOfDays_daysFromCE y mo d hd
  unfold tsFields
  dsimp only
  rw [hc, Int.toNat_natCast, Int.toNat_natCast]
  have e1 : (h * 3600 + mi * 60 + s) / 3600 = h := by omega
  have e2 : (h * 3600 + mi * 60 + s) % 3600 / 60 = mi := by omega
  have e3 : (h * 3600 + mi * 60 + s) % 60 = s := by omega
  have e4 : us * 1000 / 1000 = us := Nat.mul_div_cancel us (by decide)
  rw [e1, e2, e3, e4]


/-- all listed parts denote integers that fit their fields: the stored parts -/
def storeParts (micros : Bool) : List PartVal → Nat → TsParts → Option TsParts
  | [], _, p => some p
  | .num n :: rest, idx, p =>
    match setPart micros idx n p with
    | some p' => storeParts micros rest (idx + 1) p'
    | none => none
  | _ :: _, _, _ => none

/-- if all parts are integers in range and form a valid civil time, the column is that timestamp -/
theorem specTsFrom_of_stored (c : Column) :
    ∀ (parts : List PartVal) (idx : Nat) (p p' : TsParts) (t : Value),
      storeParts c.options.microseconds parts idx p = some p' →
      mkTimestamp p'.year p'.month p'.day p'.hour p'.minute p'.second p'.micro = some t →
      specTsFrom c parts idx p = t := by
  intro parts
  induction parts with
  | nil =>
    intro idx p p' t hs hm
    simp only [storeParts, Option.some.injEq] at hs
    subst hs
    simp only [specTsFrom, hm]
  | cons a rest ih =>
    intro idx p p' t hs hm
    cases a with
    | absent => simp [storeParts] at hs
    | notLit => simp [storeParts] at hs
    | num n =>
      simp only [storeParts] at hs
      simp only [specTsFrom]
      cases hsp : setPart c.options.microseconds idx n p with
      | none => rw [hsp] at hs; cases hs
      | some q => rw [hsp] at hs; exact ih (idx + 1) q p' t hs hm

/-- conversely (no DEFAULT declared): a non-NULL TIMESTAMP column means every listed part was an integer that fits
its field and the stored parts form a valid civil time — whose fields are exactly those parts -/
theorem specTsFrom_nonnull (c : Column) (hd : c.defaultValue = .null) :
    ∀ (parts : List PartVal) (idx : Nat) (p : TsParts),
      (specTsFrom c parts idx p).isNull = false →
      ∃ p', storeParts c.options.microseconds parts idx p = some p' ∧
        mkTimestamp p'.year p'.month p'.day p'.hour p'.minute p'.second p'.micro = some (specTsFrom c parts idx p) ∧
        tsFields (specTsFrom c parts idx p) = some p' := by
  intro parts
  induction parts with
  | nil =>
    intro idx p h
    simp only [specTsFrom] at h ⊢
    cases hm : mkTimestamp p.year p.month p.day p.hour p.minute p.second p.micro with
    | none => rw [hm, hd] at h; cases h
    | some t => exact ⟨p, rfl, hm, mkTimestamp_fields _ _ _ _ _ _ _ t hm⟩
  | cons a rest ih =>
    intro idx p h
    cases a with
    | absent => simp [specTsFrom, Value.isNull] at h
    | notLit => simp [specTsFrom, Value.isNull] at h
    | num n =>
      simp only [specTsFrom] at h ⊢
      cases hsp : setPart c.options.microseconds idx n p with
      | none => rw [hsp, hd] at h; cases h
      | some q =>
        rw [hsp] at h
        simp only [storeParts, hsp]
        exact ih (idx + 1) q h

end Sqlgrep.Extract
