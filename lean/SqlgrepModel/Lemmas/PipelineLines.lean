import SqlgrepModel.Lemmas.Pipeline
import SqlgrepModel.Lemmas.ExecTLines
import SqlgrepModel.Lemmas.ExecTAgg
/-
The end-to-end model `Pipeline.runText` under changes of the LINE STRUCTURE of its input bytes (glue for
`Props/PipelineLines.lean`): how `Reader.lines` reacts to an inserted newline-terminated block, to concatenation and to a
permutation of the lines; `fileLines` / `runStatement` in closed form; and the lifting of the traced-run theorems of
`Lemmas/ExecTLines.lean` / `Lemmas/ExecTAgg.lean` to the answer of the whole program.
-/
namespace Sqlgrep

/-! ### `BufRead::lines` and blocks of whole lines -/
namespace Reader

theorem nlTerminated_snoc (l : List Nat) : NlTerminated (l ++ [nl]) := .inr (by simp)

theorem nlTerminated_append {a b : List Nat} (ha : NlTerminated a) (hb : NlTerminated b) : NlTerminated (a ++ b) := by
  rcases hb with hb | hb
  · subst hb; simpa using ha
  · right
    obtain ⟨g, hg⟩ := List.getLast?_eq_some_iff.1 hb
    subst hg
    rw [← List.append_assoc]; simp

theorem linesAux_no_nl (cur l : List Nat) (h : nl ∉ l) :
    linesAux cur (l ++ [nl]) = [finishLine (cur.reverse ++ l) true] := by
  induction l generalizing cur with
  | nil => simp [linesAux]
  | cons b l ih =>
    have hb : b ≠ nl := fun e => h (by simp [e])
    have hl : nl ∉ l := fun e => h (by simp [e])
    simp only [List.cons_append, linesAux, hb, if_false]
    rw [ih _ hl]
    simp

/-- one newline-terminated line is one item: the line, validated with its newline, one `\r` before the `\n` removed -/
theorem lines_single (l : List Nat) (h : nl ∉ l) : lines (l ++ [nl]) = [finishLine l true] := by
  unfold lines
  rw [linesAux_no_nl [] l h]
  simp

/-- a list of lines written out, each terminated by `\n` -/
def unlines (ls : List (List Nat)) : List Nat := ls.flatMap (· ++ [nl])

theorem nlTerminated_unlines (ls : List (List Nat)) : NlTerminated (unlines ls) := by
  induction ls with
  | nil => exact .inl rfl
  | cons l ls ih =>
    have : unlines (l :: ls) = (l ++ [nl]) ++ unlines ls := by simp [unlines]
    rw [this]
    exact nlTerminated_append (nlTerminated_snoc l) ih

/-- **reading back what was written out**: the items of `unlines ls` are the lines `ls`, one item each, in order -/
theorem lines_unlines (ls : List (List Nat)) (h : ∀ l ∈ ls, nl ∉ l) :
    lines (unlines ls) = ls.map (fun l => finishLine l true) := by
  induction ls with
  | nil => rfl
  | cons l ls ih =>
    have e : unlines (l :: ls) = (l ++ [nl]) ++ unlines ls := by simp [unlines]
    rw [e, lines_append _ _ (nlTerminated_snoc l), lines_single l (h l (by simp)), ih (fun x hx => h x (by simp [hx]))]
    rfl

/-- an inserted block of whole lines, at a line boundary, reads as its own lines between the lines around it -/
theorem lines_insert (pre block post : List Nat) (hpre : NlTerminated pre) (hblock : NlTerminated block) :
    lines (pre ++ block ++ post) = lines pre ++ lines block ++ lines post := by
  rw [List.append_assoc, lines_append _ _ hpre, lines_append _ _ hblock, List.append_assoc]

end Reader

namespace Pipeline
open Sqlgrep.Extract Sqlgrep.Reader Sqlgrep.Spec.Pipeline

/-! ### what of a run is "the output" -/

/-- what the property sentences call the output of an invocation: the printed lines and the way the run ended —
everything but the statistics counter `totalLines` -/
def Answer.output : Answer → Answer
  | .records e _ ls => .records e 0 ls
  | a => a

/-! ### `fileLines` in closed form -/

/-- a line of an input file as the statement sees it: its text and **`Extract.extractRow` of the table definition on the
facts shipped for the line** (the object of C01 / C02) -/
def extractedLine (F : Facts) (d : TableDef) (l : List Nat) : Line :=
  { text := l, row := extractRow (extractOracles F) d (lineOracle l ((F.lines.lookup l).getD {})) }

/-- the case shipped every fact extraction asks for about this item of `BufRead::lines` -/
def itemCovered (F : Facts) (d : TableDef) : Except Unit (List Nat) → Bool
  | .ok l => factsCover F d l
  | .error _ => true

/-- … about every line of every file -/
def filesCovered (F : Facts) (d : TableDef) (files : List (List Nat)) : Bool :=
  files.all (fun b => (lines b).all (itemCovered F d))

/-- a line (as the reader yields it) that yields no row under table definition `d`, by the facts shipped with the case:
`Extract.admitted = false` -/
def noRow (F : Facts) (d : TableDef) (l : List Nat) : Bool :=
  factsCover F d l && !Extract.admitted (extractOracles F) d (lineOracle l ((F.lines.lookup l).getD {}))

theorem mkLine_eq (F : Facts) (d : TableDef) (x : Except Unit (List Nat)) :
    mkLine F d x = if itemCovered F d x then some (toFileLine (extractedLine F d) x) else none := by
  cases x with
  | error u => rfl
  | ok l => rfl

theorem mapM_if {α β : Type} (f : α → Option β) (c : α → Bool) (g : α → β)
    (h : ∀ x, f x = if c x then some (g x) else none) (xs : List α) :
    xs.mapM f = if xs.all c then some (xs.map g) else none := by
  induction xs with
  | nil => rfl
  | cons x xs ih =>
    rw [List.mapM_cons, h x, ih, List.all_cons]
    cases c x <;> cases xs.all c <;> rfl

theorem fileLines_eq (F : Facts) (d : TableDef) (bytes : List Nat) :
    fileLines F d bytes =
      if (lines bytes).all (itemCovered F d) then some (fileOf (extractedLine F d) bytes) else none := by
  unfold fileLines fileOf
  exact mapM_if _ _ _ (mkLine_eq F d) _

theorem mapM_fileLines (F : Facts) (d : TableDef) (files : List (List Nat)) :
    files.mapM (fileLines F d) =
      if filesCovered F d files then some (files.map (fileOf (extractedLine F d))) else none :=
  mapM_if _ _ _ (fileLines_eq F d) files

theorem fileOf_flatten (mk : List Nat → Line) (files : List (List Nat)) :
    (files.map (fileOf mk)).flatten = (files.flatMap lines).map (toFileLine mk) := by
  induction files with
  | nil => rfl
  | cons f fs ih => simp only [List.map_cons, List.flatten_cons, List.flatMap_cons, List.map_append, ih, fileOf]

theorem filesCovered_flatMap (F : Facts) (d : TableDef) (files : List (List Nat)) :
    filesCovered F d files = (files.flatMap lines).all (itemCovered F d) := by
  unfold filesCovered
  induction files with
  | nil => rfl
  | cons f fs ih => simp only [List.all_cons, List.flatMap_cons, List.all_append, ih]

/-! ### `runStatement` when the FROM table is defined -/

/-- the engine-level run of a statement whose FROM table `t` is defined, over the prepared input files `fs` -/
def runDefined (F : Facts) (tables : List Table) (stmt : Stmt) (t : Table) (join : Option LJoin)
    (fs : List (List FileLine)) : Option TraceOut :=
  match join with
  | none => some (runBatchT F.eval { stmt := stmt, table := t.info, join := none } none fs)
  | some j =>
    match getTable tables j.joinedTable with
    | none =>
      let ji := joinInfo j { name := j.joinedTable, columns := [] }
      some (runWithIndexT F.eval { stmt := stmt, table := t.info, join := some ji } (setupJoin t.info ji (.error .tableNotFound)) fs)
    | some u =>
      match openJoined F j with
      | none => some (runBatchT F.eval { stmt := stmt, table := t.info, join := some (joinInfo j u.info) } none fs)
      | some bytes =>
        (fileLines F u.defn bytes).map
          (fun jl => runBatchT F.eval { stmt := stmt, table := t.info, join := some (joinInfo j u.info) } (some jl) fs)

theorem runStatement_defined (F : Facts) (tables : List Table) (stmt : Stmt) (fromTable : String) (join : Option LJoin)
    (files : List (List Nat)) (t : Table) (hg : getTable tables fromTable = some t) :
    runStatement F tables stmt fromTable join files =
      (files.mapM (fileLines F t.defn)).bind (runDefined F tables stmt t join) := by
  unfold runStatement runDefined
  rw [hg]
  cases join with
  | none =>
    simp only [bind, pure]
  | some j =>
    simp only [bind, pure]
    cases files.mapM (fileLines F t.defn) with
    | none => rfl
    | some fs =>
      simp only [Option.bind]
      cases getTable tables j.joinedTable with
      | none => rfl
      | some u =>
        simp only
        cases openJoined F j with
        | none => rfl
        | some bytes =>
          simp only
          cases fileLines F u.defn bytes <;> rfl

/-- whatever the join, the run over prepared files is `runWithIndexT` of a query and a join set-up that do not depend
on the input files (or a fact about the joined file is missing) -/
theorem runDefined_shape (F : Facts) (tables : List Table) (stmt : Stmt) (t : Table) (join : Option LJoin) :
    (∀ fs, runDefined F tables stmt t join fs = none) ∨
    ∃ qy idxO, qy.stmt = stmt ∧ ∀ fs, runDefined F tables stmt t join fs = some (runWithIndexT F.eval qy idxO fs) := by
  unfold runDefined
  cases join with
  | none => exact .inr ⟨_, _, rfl, fun fs => rfl⟩
  | some j =>
    simp only
    cases getTable tables j.joinedTable with
    | none => exact .inr ⟨_, _, rfl, fun fs => rfl⟩
    | some u =>
      simp only
      cases openJoined F j with
      | none => exact .inr ⟨_, _, rfl, fun fs => rfl⟩
      | some bytes =>
        simp only
        cases fileLines F u.defn bytes with
        | none => exact .inl (fun fs => rfl)
        | some jl => exact .inr ⟨_, _, rfl, fun fs => rfl⟩

/-! ### the answer as a function of the run of the statement -/

def answerOfOpt (F : Facts) (fmt : Print.Format) (single : Bool) : Option TraceOut → Answer
  | none => .skip "line facts"
  | some t => answerOf F fmt single t

theorem runLowered_eq_opt (F : Facts) (defs query : LStmt) (fmt : Print.Format) (single : Bool) (files : List (List Nat))
    (tables : List Table) (stmt : Stmt) (fromTable : String) (join : Option LJoin)
    (ht : addTables defs = some tables) (hs : stmtOf query = some (stmt, fromTable, join)) :
    runLowered F defs query fmt single files = answerOfOpt F fmt single (runStatement F tables stmt fromTable join files) := by
  cases hr : runStatement F tables stmt fromTable join files with
  | none =>
    unfold runLowered answerOfOpt
    rw [ht]; simp only
    rw [hs]; simp only
    rw [hr]
  | some t => exact runLowered_eq F defs query fmt single files tables stmt fromTable join t ht hs hr

/-- two traced runs that differ at most in the line counter give the same output -/
theorem answerOf_output (F : Facts) (fmt : Print.Format) (single : Bool) {t t' : TraceOut} (h : TSame t t') :
    (answerOf F fmt single t).output = (answerOf F fmt single t').output := by
  unfold answerOf
  rw [← h.out.skipped, ← h.out.panicked, ← h.out.error, ← h.calls]
  split
  · rfl
  · split
    · rfl
    · split
      · rfl
      · simp only
        split <;> rfl

/-- `Option`-lifting of `TSame` -/
def OptTSame : Option TraceOut → Option TraceOut → Prop
  | none, none => True
  | some a, some b => TSame a b
  | _, _ => False

theorem answerOfOpt_output (F : Facts) (fmt : Print.Format) (single : Bool) {r r' : Option TraceOut} (h : OptTSame r r') :
    (answerOfOpt F fmt single r).output = (answerOfOpt F fmt single r').output := by
  cases r <;> cases r' <;> simp only [OptTSame] at h
  · rfl
  · exact answerOf_output F fmt single h

/-! ### facts that differ in the file system only -/

theorem fileLines_fs (F : Facts) (fs' : List (String × List Nat)) (d : TableDef) (b : List Nat) :
    fileLines { F with fs := fs' } d b = fileLines F d b := rfl

theorem answerOfOpt_fs (F : Facts) (fs' : List (String × List Nat)) (fmt : Print.Format) (single : Bool) (r : Option TraceOut) :
    answerOfOpt { F with fs := fs' } fmt single r = answerOfOpt F fmt single r := by
  cases r <;> rfl

/-- **the answer depends on the input files (and on the file system) only through the run of the statement**: a relation
that holds between the runs of every statement over every set of defined tables holds between the answers of the
whole program — whatever the texts are (rejected texts, non-queries … give the same answer on both sides) -/
theorem runText_rel (R : Answer → Answer → Prop) (hR : ∀ a, R a a) (F : Facts) (fs' : List (String × List Nat))
    (defsText queryText : List Char) (fmt : Print.Format) (single : Bool) (files files' : List (List Nat))
    (h : ∀ defs query tables stmt fromTable join,
      parseText (lexOracles F) (regexValidFn F) defsText = .stmt defs →
      parseText (lexOracles F) (regexValidFn F) queryText = .stmt query →
      addTables defs = some tables → stmtOf query = some (stmt, fromTable, join) →
      R (answerOfOpt F fmt single (runStatement F tables stmt fromTable join files))
        (answerOfOpt F fmt single (runStatement { F with fs := fs' } tables stmt fromTable join files'))) :
    R (runText F defsText queryText fmt single files) (runText { F with fs := fs' } defsText queryText fmt single files') := by
  have e1 : ∀ t, classesCover { F with fs := fs' } t = classesCover F t := fun _ => rfl
  have e2 : lexOracles { F with fs := fs' } = lexOracles F := rfl
  have e3 : regexValidFn { F with fs := fs' } = regexValidFn F := rfl
  have e4 : regexValidOf { F with fs := fs' } = regexValidOf F := rfl
  unfold runText
  simp only [e1, e2, e3, e4]
  split
  · exact hR _
  · cases hd : parseText (lexOracles F) (regexValidFn F) defsText with
    | stmt defs =>
      simp only
      split
      · exact hR _
      · cases hq : parseText (lexOracles F) (regexValidFn F) queryText with
        | stmt query =>
          simp only
          cases ht : addTables defs with
          | none => unfold runLowered; rw [ht]; exact hR _
          | some tables =>
            cases hs : stmtOf query with
            | none => unfold runLowered; rw [ht]; simp only; rw [hs]; exact hR _
            | some p =>
              obtain ⟨stmt, fromTable, join⟩ := p
              rw [runLowered_eq_opt F defs query fmt single files tables stmt fromTable join ht hs,
                runLowered_eq_opt { F with fs := fs' } defs query fmt single files' tables stmt fromTable join ht hs,
                answerOfOpt_fs]
              exact h defs query tables stmt fromTable join hd hq ht hs
        | lexError l e => exact hR _
        | parseError e => exact hR _
        | convertError e => exact hR _
        | panic s => exact hR _
        | fuel => exact hR _
        | missing w => exact hR _
    | lexError l e => exact hR _
    | parseError e => exact hR _
    | convertError e => exact hR _
    | panic s => exact hR _
    | fuel => exact hR _
    | missing w => exact hR _

/-- the unary form: a predicate that holds of every answer that is not a run, and of the answer of every run of a
statement over defined tables, holds of the answer of the program -/
theorem runText_pred (P : Answer → Prop) (hskip : ∀ w, P (.skip w)) (hpanic : ∀ s, P (.panic s))
    (hrej : ∀ w p, P (.rejected w p)) (hnc : P .notCreateTable) (hnq : P .notAQuery) (F : Facts)
    (defsText queryText : List Char) (fmt : Print.Format) (single : Bool) (files : List (List Nat))
    (h : ∀ defs query tables stmt fromTable join,
      parseText (lexOracles F) (regexValidFn F) defsText = .stmt defs →
      parseText (lexOracles F) (regexValidFn F) queryText = .stmt query →
      addTables defs = some tables → stmtOf query = some (stmt, fromTable, join) →
      P (answerOfOpt F fmt single (runStatement F tables stmt fromTable join files))) :
    P (runText F defsText queryText fmt single files) := by
  unfold runText
  split
  · exact hskip _
  · cases hd : parseText (lexOracles F) (regexValidFn F) defsText with
    | stmt defs =>
      simp only
      split
      · exact hskip _
      · cases hq : parseText (lexOracles F) (regexValidFn F) queryText with
        | stmt query =>
          simp only
          cases ht : addTables defs with
          | none => unfold runLowered; rw [ht]; exact hnc
          | some tables =>
            cases hs : stmtOf query with
            | none => unfold runLowered; rw [ht]; simp only; rw [hs]; exact hnq
            | some p =>
              obtain ⟨stmt, fromTable, join⟩ := p
              rw [runLowered_eq_opt F defs query fmt single files tables stmt fromTable join ht hs]
              exact h defs query tables stmt fromTable join hd hq ht hs
        | lexError l e => exact hrej _ _
        | parseError e => exact hrej _ _
        | convertError e => exact hrej _ _
        | panic s => exact hpanic _
        | fuel => exact hpanic _
        | missing w => exact hskip _
    | lexError l e => exact hrej _ _
    | parseError e => exact hrej _ _
    | convertError e => exact hrej _ _
    | panic s => exact hpanic _
    | fuel => exact hpanic _
    | missing w => exact hskip _

/-- the same with the file system unchanged -/
theorem runText_rel_files (R : Answer → Answer → Prop) (hR : ∀ a, R a a) (F : Facts)
    (defsText queryText : List Char) (fmt : Print.Format) (single : Bool) (files files' : List (List Nat))
    (h : ∀ defs query tables stmt fromTable join,
      parseText (lexOracles F) (regexValidFn F) defsText = .stmt defs →
      parseText (lexOracles F) (regexValidFn F) queryText = .stmt query →
      addTables defs = some tables → stmtOf query = some (stmt, fromTable, join) →
      R (answerOfOpt F fmt single (runStatement F tables stmt fromTable join files))
        (answerOfOpt F fmt single (runStatement F tables stmt fromTable join files'))) :
    R (runText F defsText queryText fmt single files) (runText F defsText queryText fmt single files') :=
  runText_rel R hR F F.fs defsText queryText fmt single files files' h

/-! ### the tables an invocation reads lines with -/

/-- the table the lines of the input files are extracted with: the FROM table of the query text as defined by the
definition text (`none`: a text is rejected, or the table is not defined — then no line "yields a row" or fails to) -/
def queriedTable (F : Facts) (defsText queryText : List Char) : Option Table :=
  match parseText (lexOracles F) (regexValidFn F) defsText, parseText (lexOracles F) (regexValidFn F) queryText with
  | .stmt defs, .stmt query =>
    match addTables defs, stmtOf query with
    | some tables, some (_, fromTable, _) => getTable tables fromTable
    | _, _ => none
  | _, _ => none

/-- the table the lines of the JOINED file are extracted with, and the name of that file -/
def joinedSource (F : Facts) (defsText queryText : List Char) : Option (Table × String) :=
  match parseText (lexOracles F) (regexValidFn F) defsText, parseText (lexOracles F) (regexValidFn F) queryText with
  | .stmt defs, .stmt query =>
    match addTables defs, stmtOf query with
    | some tables, some (_, _, some j) => (getTable tables j.joinedTable).map (fun u => (u, j.joinedFilename))
    | _, _ => none
  | _, _ => none

theorem queriedTable_eq (F : Facts) (defsText queryText : List Char) (defs query : LStmt) (tables : List Table)
    (stmt : Stmt) (fromTable : String) (join : Option LJoin)
    (hd : parseText (lexOracles F) (regexValidFn F) defsText = .stmt defs)
    (hq : parseText (lexOracles F) (regexValidFn F) queryText = .stmt query)
    (ht : addTables defs = some tables) (hs : stmtOf query = some (stmt, fromTable, join)) :
    queriedTable F defsText queryText = getTable tables fromTable := by
  unfold queriedTable
  rw [hd, hq]; simp only
  rw [ht, hs]

theorem joinedSource_eq (F : Facts) (defsText queryText : List Char) (defs query : LStmt) (tables : List Table)
    (stmt : Stmt) (fromTable : String) (j : LJoin)
    (hd : parseText (lexOracles F) (regexValidFn F) defsText = .stmt defs)
    (hq : parseText (lexOracles F) (regexValidFn F) queryText = .stmt query)
    (ht : addTables defs = some tables) (hs : stmtOf query = some (stmt, fromTable, some j)) :
    joinedSource F defsText queryText = (getTable tables j.joinedTable).map (fun u => (u, j.joinedFilename)) := by
  unfold joinedSource
  rw [hd, hq]; simp only
  rw [ht, hs]

/-! ### noise lines (C06) -/

theorem anyResult_eq (row : List Value) : Sqlgrep.anyResult row = Extract.anyResult row := rfl

theorem isNoise_of_noRow (F : Facts) (d : TableDef) (l : List Nat) (h : noRow F d l = true) :
    isNoise (toFileLine (extractedLine F d) (.ok l)) = true ∧ itemCovered F d (.ok l) = true := by
  simp only [noRow, Bool.and_eq_true, Bool.not_eq_true', Extract.admitted] at h
  refine ⟨?_, h.1⟩
  simp only [isNoise, toFileLine, extractedLine, anyResult_eq, h.2, Bool.not_false, Bool.and_self]

/-- a block all of whose lines yield no row: covered, and nothing is left of it once the noise is removed -/
theorem noise_block (F : Facts) (d : TableDef) (items : List (Except Unit (List Nat)))
    (h : ∀ item ∈ items, ∃ l, item = .ok l ∧ noRow F d l = true) :
    items.all (itemCovered F d) = true ∧ denoise (items.map (toFileLine (extractedLine F d))) = [] := by
  induction items with
  | nil => exact ⟨rfl, rfl⟩
  | cons x xs ih =>
    obtain ⟨l, rfl, hl⟩ := h x (by simp)
    obtain ⟨h1, h2⟩ := ih (fun i hi => h i (by simp [hi]))
    obtain ⟨n1, n2⟩ := isNoise_of_noRow F d l hl
    refine ⟨by simp only [List.all_cons, n2, h1, Bool.and_self], ?_⟩
    unfold denoise at h2 ⊢
    simp only [List.map_cons, List.filter_cons, n1, Bool.not_true, Bool.false_eq_true, if_false]
    exact h2

theorem denoise_append (a b : List FileLine) : denoise (a ++ b) = denoise a ++ denoise b := by
  simp [denoise, List.filter_append]

/-- a file with a noise block inserted at a line boundary: as covered as without it, and the same rows -/
theorem insert_noise_block (F : Facts) (d : TableDef) (pre block post : List Nat) (hpre : NlTerminated pre)
    (hblock : NlTerminated block) (h : ∀ item ∈ lines block, ∃ l, item = .ok l ∧ noRow F d l = true) :
    (lines (pre ++ block ++ post)).all (itemCovered F d) = (lines (pre ++ post)).all (itemCovered F d) ∧
    denoise (fileOf (extractedLine F d) (pre ++ block ++ post)) = denoise (fileOf (extractedLine F d) (pre ++ post)) := by
  obtain ⟨h1, h2⟩ := noise_block F d _ h
  unfold fileOf
  rw [lines_insert pre block post hpre hblock, lines_append pre post hpre]
  constructor
  · simp only [List.all_append, h1, Bool.and_true]
  · simp only [List.map_append, denoise_append, h2, List.append_nil]

/-- **two inputs with the same rows run the same**: when the FROM table is defined, two file lists that are equally
covered by the shipped facts and have the same lines once the noise lines are removed give traced runs that differ at
most in `totalLines` (or both lack a fact) -/
theorem runStatement_same_rows (F : Facts) (tables : List Table) (stmt : Stmt) (fromTable : String) (join : Option LJoin)
    (files files' : List (List Nat)) (t : Table) (hg : getTable tables fromTable = some t)
    (hcov : filesCovered F t.defn files = filesCovered F t.defn files')
    (hden : (files.map (fileOf (extractedLine F t.defn))).map denoise = (files'.map (fileOf (extractedLine F t.defn))).map denoise) :
    OptTSame (runStatement F tables stmt fromTable join files) (runStatement F tables stmt fromTable join files') := by
  rw [runStatement_defined F tables stmt fromTable join files t hg, runStatement_defined F tables stmt fromTable join files' t hg,
    mapM_fileLines, mapM_fileLines, hcov]
  split
  · simp only [Option.bind]
    rcases runDefined_shape F tables stmt t join with hn | ⟨qy, idxO, _, hs⟩
    · rw [hn, hn]; trivial
    · rw [hs, hs]
      show TSame _ _
      have a := runWithIndexT_noise F.eval qy idxO (files.map (fileOf (extractedLine F t.defn)))
      have b := runWithIndexT_noise F.eval qy idxO (files'.map (fileOf (extractedLine F t.defn)))
      rw [hden] at a
      exact a.trans b.symm
  · trivial

theorem filesCovered_append (F : Facts) (d : TableDef) (a b : List (List Nat)) :
    filesCovered F d (a ++ b) = (filesCovered F d a && filesCovered F d b) := by
  simp [filesCovered, List.all_append]

/-- the joined file with a noise block inserted: the run is the same (the loader skips lines that yield no row) -/
theorem runDefined_joined_noise (F : Facts) (fs' : List (String × List Nat)) (tables : List Table) (stmt : Stmt) (t : Table)
    (j : LJoin) (fs : List (List FileLine)) (pre block post : List Nat) (hpre : NlTerminated pre) (hblock : NlTerminated block)
    (h1 : F.fs.lookup j.joinedFilename = some (pre ++ block ++ post)) (h2 : fs'.lookup j.joinedFilename = some (pre ++ post))
    (hnoise : ∀ u, getTable tables j.joinedTable = some u →
      ∀ item ∈ lines block, ∃ l, item = .ok l ∧ noRow F u.defn l = true) :
    runDefined F tables stmt t (some j) fs = runDefined { F with fs := fs' } tables stmt t (some j) fs := by
  unfold runDefined
  simp only
  cases hu : getTable tables j.joinedTable with
  | none => rfl
  | some u =>
    simp only
    have o1 : openJoined F j = some (pre ++ block ++ post) := h1
    have o2 : openJoined { F with fs := fs' } j = some (pre ++ post) := h2
    rw [o1, o2]
    simp only [fileLines_fs]
    obtain ⟨c, dn⟩ := insert_noise_block F u.defn pre block post hpre hblock (hnoise u hu)
    rw [fileLines_eq, fileLines_eq, c]
    split
    · simp only [Option.map_some]
      congr 1
      exact runBatchT_joined_noise F.eval _ _ _ fs dn
    · rfl

theorem runStatement_fs (F : Facts) (fs' : List (String × List Nat)) (tables : List Table) (stmt : Stmt) (fromTable : String)
    (join : Option LJoin) (files : List (List Nat))
    (h : ∀ t j fs, getTable tables fromTable = some t → join = some j →
      runDefined F tables stmt t (some j) fs = runDefined { F with fs := fs' } tables stmt t (some j) fs) :
    runStatement F tables stmt fromTable join files = runStatement { F with fs := fs' } tables stmt fromTable join files := by
  cases hg : getTable tables fromTable with
  | none =>
    unfold runStatement
    rw [hg]
    cases join <;> rfl
  | some t =>
    rw [runStatement_defined F tables stmt fromTable join files t hg,
      runStatement_defined { F with fs := fs' } tables stmt fromTable join files t hg]
    have : files.mapM (fileLines { F with fs := fs' } t.defn) = files.mapM (fileLines F t.defn) := rfl
    rw [this]
    cases files.mapM (fileLines F t.defn) with
    | none => rfl
    | some fs =>
      simp only [Option.bind]
      cases join with
      | none => rfl
      | some j => exact h t j fs hg rfl

/-! ### several files = their concatenation (C12) -/

theorem runStatement_concat (F : Facts) (tables : List Table) (stmt : Stmt) (fromTable : String) (join : Option LJoin)
    (files : List (List Nat)) (last : List Nat) (h : ∀ f ∈ files, NlTerminated f) :
    runStatement F tables stmt fromTable join (files ++ [last]) =
      runStatement F tables stmt fromTable join [(files ++ [last]).flatten] := by
  have hl : (files ++ [last]).flatMap lines = [(files ++ [last]).flatten].flatMap lines := by
    rw [flatMap_lines_eq files last h]; simp
  cases hg : getTable tables fromTable with
  | none =>
    unfold runStatement
    rw [hg]
    cases join with
    | none => simp only [runNoTable, hl]
    | some j => rfl
  | some t =>
    rw [runStatement_defined F tables stmt fromTable join _ t hg, runStatement_defined F tables stmt fromTable join _ t hg,
      mapM_fileLines, mapM_fileLines, filesCovered_flatMap, filesCovered_flatMap, hl]
    split
    · simp only [Option.bind]
      rcases runDefined_shape F tables stmt t join with hn | ⟨qy, idxO, _, hs⟩
      · rw [hn, hn]
      · rw [hs, hs, runWithIndexT_flatten F.eval qy idxO ((files ++ [last]).map _), fileOf_flatten, hl]
        congr 3
        simp [fileOf]
    · rfl

/-! ### an unreadable line (C12) -/

theorem unreadable_of_error (mk : List Nat → Line) (files : List (List Nat)) (h : .error () ∈ files.flatMap lines) :
    ∃ fl ∈ (files.map (fileOf mk)).flatten, fl.readable = false := by
  rw [fileOf_flatten]
  exact ⟨toFileLine mk (.error ()), List.mem_map.2 ⟨_, h, rfl⟩, rfl⟩

/-- the run of a statement without LIMIT flag over files one of which holds a line that is not valid UTF-8 ends failed -/
theorem runStatement_unreadable_fails (F : Facts) (tables : List Table) (stmt : Stmt) (fromTable : String)
    (join : Option LJoin) (files : List (List Nat)) (hnl : NoLimit stmt) (hbad : .error () ∈ files.flatMap lines)
    (t : TraceOut) (h : runStatement F tables stmt fromTable join files = some t) : hasFailed t.out = true := by
  cases hg : getTable tables fromTable with
  | none =>
    unfold runStatement at h
    rw [hg] at h
    cases join with
    | none =>
      simp only [Option.some.injEq] at h
      subst h
      unfold runNoTable
      have h0 : reachedLimit { stmt := stmt, table := { name := fromTable, columns := [] }, join := none } ({} : EngineState) = false :=
        noLimit_start _ hnl _
      simp only [h0, Bool.false_eq_true, if_false]
      cases hh : (files.flatMap lines).head? with
      | none =>
        rw [List.head?_eq_none_iff] at hh
        rw [hh] at hbad
        cases hbad
      | some x => cases x <;> rfl
    | some j =>
      simp only [Option.some.injEq] at h
      subst h
      rfl
  | some tb =>
    rw [runStatement_defined F tables stmt fromTable join files tb hg, mapM_fileLines] at h
    split at h
    · simp only [Option.bind] at h
      rcases runDefined_shape F tables stmt tb join with hn | ⟨qy, idxO, hq, hs⟩
      · rw [hn] at h; cases h
      · rw [hs] at h
        simp only [Option.some.injEq] at h
        subst h
        exact runWithIndexT_unreadable_fails F.eval qy (by rw [hq]; exact hnl) idxO _ (unreadable_of_error _ files hbad)
    · cases h

/-- a failed run is never answered `records … Ok` -/
theorem answerOf_failed (F : Facts) (fmt : Print.Format) (single : Bool) (t : TraceOut) (h : hasFailed t.out = true)
    (n : Nat) (ls : List Print.Bytes) : answerOf F fmt single t ≠ .records none n ls := by
  unfold answerOf
  split
  · simp
  · rename_i hs
    split
    · simp
    · rename_i hp
      split
      · simp
      · simp only
        split
        · simp
        · intro heq
          simp only [Answer.records.injEq] at heq
          simp only [hasFailed, heq.1, Option.isSome_none, Bool.false_or, Bool.or_eq_true] at h
          rcases h with h | h
          · exact hp h
          · exact hs h

/-- **where the first invalid line stands** (non-aggregate statements): with the lines of all files being
`A ++ invalid :: rest` and `files'` holding exactly the lines `A`, the run over `files` lacks a fact (about a later
line), or is the run over `files'` (which had ended already), or is the run over `files'` — not failed — with
`FailReadFile` as its error, the same print calls and the same count -/
theorem runStatement_read_error (F : Facts) (tables : List Table) (q : SelectStmt) (fromTable : String)
    (join : Option LJoin) (files files' : List (List Nat)) (rest : List (Except Unit (List Nat)))
    (hsplit : files.flatMap lines = files'.flatMap lines ++ .error () :: rest) :
    runStatement F tables (.select q) fromTable join files = none ∨
    runStatement F tables (.select q) fromTable join files = runStatement F tables (.select q) fromTable join files' ∨
    ∃ t, runStatement F tables (.select q) fromTable join files' = some t ∧ hasFailed t.out = false ∧
      runStatement F tables (.select q) fromTable join files =
        some { out := { t.out with error := some .failReadFile }, calls := t.calls } := by
  cases hg : getTable tables fromTable with
  | none =>
    unfold runStatement
    rw [hg]
    cases join with
    | some j => right; left; rfl
    | none =>
      simp only
      unfold runNoTable
      simp only [hsplit]
      split
      · right; left; rfl
      · rename_i hrl
        cases hA : files'.flatMap lines with
        | nil =>
          right; right
          simp only [List.nil_append, List.head?_cons, List.head?_nil]
          refine ⟨_, rfl, ?_, ?_⟩
          · simp only [runBatchT, joinSetup, runWithIndexT, runFilesT, hasFailed]
            rfl
          · simp only [runBatchT, joinSetup, runWithIndexT, runFilesT, hasFailed]
            rfl
        | cons x xs => right; left; simp only [List.cons_append, List.head?_cons]
  | some tb =>
    rw [runStatement_defined F tables _ fromTable join files tb hg, runStatement_defined F tables _ fromTable join files' tb hg,
      mapM_fileLines, mapM_fileLines]
    by_cases hc : filesCovered F tb.defn files = true
    · have hc' : filesCovered F tb.defn files' = true := by
        rw [filesCovered_flatMap] at hc ⊢
        rw [hsplit, List.all_append] at hc
        simp only [Bool.and_eq_true] at hc
        exact hc.1
      simp only [hc, hc', if_true, Option.bind]
      rcases runDefined_shape F tables (.select q) tb join with hn | ⟨qy, idxO, hq, hs⟩
      · right; left; rw [hn, hn]
      · rw [hs, hs]
        have hflat : (files.map (fileOf (extractedLine F tb.defn))).flatten =
            (files'.map (fileOf (extractedLine F tb.defn))).flatten ++
              toFileLine (extractedLine F tb.defn) (.error ()) :: rest.map (toFileLine (extractedLine F tb.defn)) := by
          rw [fileOf_flatten, fileOf_flatten, hsplit, List.map_append, List.map_cons]
        rcases runWithIndexT_read_error F.eval qy q hq idxO _ _ _ _ rfl hflat with h | ⟨h1, h2⟩
        · right; left; rw [h]
        · right; right
          exact ⟨_, rfl, h1, by rw [h2]⟩
    · left
      simp only [hc, Bool.false_eq_true, if_false, Option.bind]

/-- the answer of a run that did not fail, and of the same run with `FailReadFile` as its error: the same answer when
it is not a run's (a REAL rendering is missing), else the same count and the same printed lines under the two statuses -/
theorem answerOf_read_error (F : Facts) (fmt : Print.Format) (single : Bool) (t : TraceOut) (h : hasFailed t.out = false) :
    answerOf F fmt single { out := { t.out with error := some .failReadFile }, calls := t.calls } = answerOf F fmt single t ∨
    ∃ n ls, answerOf F fmt single t = .records none n ls ∧
      answerOf F fmt single { out := { t.out with error := some .failReadFile }, calls := t.calls } =
        .records (some .failReadFile) n ls := by
  simp only [hasFailed, Bool.or_eq_false_iff] at h
  obtain ⟨⟨he, hp⟩, hs⟩ := h
  have he' : t.out.error = none := by cases hx : t.out.error <;> simp [hx] at he ⊢
  unfold answerOf
  simp only [hs, hp, Bool.false_eq_true, if_false, he']
  split
  · left; rfl
  · split
    · left; rfl
    · right; exact ⟨_, _, rfl, rfl⟩

/-! ### prepared runs: what the statement is given (C01 / C02) -/

theorem prepare_files (F : Facts) (tables : List Table) (stmt : Stmt) (fromTable : String) (join : Option LJoin)
    (files : List (List Nat)) (p : Prepared) (h : prepare F tables stmt fromTable join files = some p) :
    ∃ t, getTable tables fromTable = some t ∧ p.qy.table = t.info ∧ p.qy.stmt = stmt ∧
      filesCovered F t.defn files = true ∧
      p.files = files.map (fileOf (extractedLine F t.defn)) ∧
      (join = none → p.qy.join = none ∧ p.joined = []) ∧
      (∀ j, join = some j → ∃ u bytes, getTable tables j.joinedTable = some u ∧ openJoined F j = some bytes ∧
        p.qy.join = some (joinInfo j u.info) ∧ p.joined = fileOf (extractedLine F u.defn) bytes) := by
  unfold prepare at h
  cases hg : getTable tables fromTable with
  | none => rw [hg] at h; cases h
  | some t =>
    rw [hg] at h
    simp only at h
    rw [mapM_fileLines] at h
    by_cases hc : filesCovered F t.defn files = true
    · rw [if_pos hc] at h
      simp only at h
      cases join with
      | none =>
        simp only [Option.some.injEq] at h
        subst h
        exact ⟨t, rfl, rfl, rfl, hc, rfl, fun _ => ⟨rfl, rfl⟩, fun j hj => by cases hj⟩
      | some j =>
        simp only at h
        cases hu : getTable tables j.joinedTable with
        | none => rw [hu] at h; cases h
        | some u =>
          rw [hu] at h
          simp only at h
          cases ho : openJoined F j with
          | none => rw [ho] at h; cases h
          | some bytes =>
            rw [ho] at h
            simp only at h
            rw [fileLines_eq] at h
            by_cases hcu : (lines bytes).all (itemCovered F u.defn) = true
            · rw [if_pos hcu] at h
              simp only [Option.some.injEq] at h
              subst h
              refine ⟨t, rfl, rfl, rfl, hc, rfl, (fun hj => by cases hj), fun j' hj' => ?_⟩
              cases hj'
              exact ⟨u, bytes, hu, ho, rfl, rfl⟩
            · rw [if_neg hcu] at h
              cases h
    · rw [if_neg hc] at h
      cases h

theorem prepare_nojoin_of_covered (F : Facts) (tables : List Table) (stmt : Stmt) (fromTable : String)
    (files : List (List Nat)) (t : Table) (hg : getTable tables fromTable = some t)
    (hc : filesCovered F t.defn files = true) :
    prepare F tables stmt fromTable none files =
      some { qy := { stmt := stmt, table := t.info, join := none }, joined := [],
             files := files.map (fileOf (extractedLine F t.defn)) } := by
  unfold prepare
  rw [hg]
  simp only
  rw [mapM_fileLines]
  simp only [hc, if_true]

/-! ### decidable forms of hypotheses, for kernel-evaluated non-vacuity examples -/

/-- a decidable form of `QueryNoLimit` / `QueryIsSelect` for a concrete query text -/
def exQueryShape (F : Facts) (queryText : List Char) (p : Stmt → Bool) : Bool :=
  match parseText (lexOracles F) (regexValidFn F) queryText with
  | .stmt query => (match stmtOf query with
    | some (stmt, _, _) => p stmt
    | none => true)
  | _ => true

theorem exQueryShape_sound (F : Facts) (queryText : List Char) (p : Stmt → Bool) (h : exQueryShape F queryText p = true)
    (query : LStmt) (stmt : Stmt) (fromTable : String) (join : Option LJoin)
    (hq : parseText (lexOracles F) (regexValidFn F) queryText = .stmt query) (hs : stmtOf query = some (stmt, fromTable, join)) :
    p stmt = true := by
  unfold exQueryShape at h
  rw [hq] at h
  simp only [hs] at h
  exact h

open Sqlgrep.Spec.Agg in
/-- the checkable sufficient condition for `PermSafe` (`permSafe_of_small_ints`): order-insensitive aggregates whose
arguments on every admitted row are NULL or INTs within ±2^20, at most 2^20 rows -/
def permSafeB (O : Oracles) (a : AggStmt) (keyed : List (List Value × Env)) : Bool :=
  (slotKinds a).all (fun kind => orderInsensitive kind &&
    keyed.all (fun r => (okOf (argument O a r.2 kind)).all smallIntOrNull)) && decide (keyed.length ≤ 1048576)

theorem permSafeB_sound (O : Oracles) (a : AggStmt) (keyed : List (List Value × Env)) (h : permSafeB O a keyed = true) :
    PermSafe O a keyed := by
  simp only [permSafeB, Bool.and_eq_true, List.all_eq_true, decide_eq_true_eq] at h
  exact permSafe_of_small_ints (fun kind hk => (h.1 kind hk).1) (fun kind hk r hr => (h.1 kind hk).2 r hr) h.2

end Pipeline
end Sqlgrep
