import SqlgrepModel.Lemmas.ParseClauses
import SqlgrepModel.Lemmas.ParseLoc
import Lean
/-
Prefix determinism of the expression parser: the six mutually recursive functions of `Model/ParseExpr.lean` never look
past the first *boundary* token of their input (a clause keyword WHERE / INNER / OUTER / GROUP / HAVING / LIMIT, `;`
or `End`: tokens without precedence that cannot continue an expression) and treat all boundary tokens alike.
Stated as an equation: with `swapB t2 s` = the state `s` whose tail from the first boundary token on is replaced by
the tokens of `t2` (the token at the barrier keeps its location), `parseX (swapB t2 s) = (parseX s).mapSt (swapB t2)`,
for every answer (tree, error, out of fuel). `parseRhs` needs a non-negative level, `parseList` a closing token that
is not a boundary token; the tables must give the boundary tokens no precedence (`InertBoundary`).
-/
namespace Sqlgrep
namespace Parse

instance : DecidablePred ClauseKw := fun t => by unfold ClauseKw; infer_instance
instance : DecidablePred Boundary := fun t => by unfold Boundary; infer_instance

/-- replace the tail of a token list that starts at its first boundary token by the tokens of `t2`; the token put at
the barrier keeps the location of the boundary token it replaces -/
def swapToks (t2 : PSt) : List PTok → List PTok
  | [] => []
  | t :: ts => if Boundary t.tok then ⟨t.loc, t2.cur.tok⟩ :: t2.rest else t :: swapToks t2 ts

def swapB (t2 : PSt) (s : PSt) : PSt :=
  if Boundary s.cur.tok then ⟨⟨s.cur.loc, t2.cur.tok⟩, t2.rest⟩ else ⟨s.cur, swapToks t2 s.rest⟩

def _root_.Sqlgrep.PRes.mapSt {α : Type} (g : PSt → PSt) : PRes α → PRes α
  | .ok a s => .ok a (g s)
  | .err e s => .err e (g s)
  | .fuel => .fuel

theorem mapSt_ok {α} (g : PSt → PSt) (a : α) (s : PSt) : (PRes.ok a s).mapSt g = .ok a (g s) := rfl
theorem mapSt_err {α} (g : PSt → PSt) (e : PErr) (s : PSt) : (PRes.err e s : PRes α).mapSt g = .err e (g s) := rfl
theorem mapSt_fuel {α} (g : PSt → PSt) : (PRes.fuel : PRes α).mapSt g = .fuel := rfl

variable (t2 : PSt)

theorem swapB_loc (s : PSt) : (swapB t2 s).cur.loc = s.cur.loc := by
  unfold swapB; split <;> rfl

theorem swapB_nb {s : PSt} (h : ¬ Boundary s.cur.tok) : (swapB t2 s).cur = s.cur := by
  unfold swapB; simp [h]

theorem swapB_b (h2 : Boundary t2.cur.tok) {s : PSt} (h : Boundary s.cur.tok) : Boundary (swapB t2 s).cur.tok := by
  unfold swapB; simp [h, h2]

theorem swapB_tok_eq (h2 : Boundary t2.cur.tok) {X : Tok} (hX : ¬ Boundary X) (s : PSt) :
    ((swapB t2 s).cur.tok = X) = (s.cur.tok = X) := by
  by_cases h : Boundary s.cur.tok
  · have h' := swapB_b t2 h2 h
    apply propext
    constructor
    · intro e; rw [e] at h'; exact absurd h' hX
    · intro e; rw [e] at h; exact absurd h hX
  · rw [swapB_nb t2 h]

theorem next_swapB {s : PSt} (h : ¬ Boundary s.cur.tok) : next (swapB t2 s) = (next s).mapSt (swapB t2) := by
  unfold next swapB
  simp only [h, if_false]
  cases hr : s.rest with
  | nil => simp [swapToks, mkErr, PRes.mapSt, h, hr]
  | cons t r =>
    simp only [swapToks, PRes.mapSt]
    by_cases hb : Boundary t.tok <;> simp [hb]

theorem mkErr_swapB {α} (s : PSt) (k : PErrKind) : (mkErr (swapB t2 s) k : PRes α) = (mkErr s k).mapSt (swapB t2) := by
  simp [mkErr, PRes.mapSt, swapB_loc]

theorem boundary_not_op {t : Tok} (h : Boundary t) : ∀ o, t ≠ .op o := by
  intro o ho; subst ho
  unfold Boundary ClauseKw at h
  simp at h

theorem tokenPrecedence_boundary {T : PrecTables} (hT : InertBoundary T) {s : PSt} (h : Boundary s.cur.tok) :
    tokenPrecedence T s = .ok (-1) s := by
  unfold tokenPrecedence
  have hn := hT _ h
  have hop := boundary_not_op h
  split
  · rename_i o ho; exact absurd ho (hop o)
  · simp [hn]

theorem tokenPrecedence_swapB {T : PrecTables} (hT : InertBoundary T) (h2 : Boundary t2.cur.tok) (s : PSt) :
    tokenPrecedence T (swapB t2 s) = (tokenPrecedence T s).mapSt (swapB t2) := by
  by_cases h : Boundary s.cur.tok
  · rw [tokenPrecedence_boundary hT h, tokenPrecedence_boundary hT (swapB_b t2 h2 h)]; rfl
  · unfold tokenPrecedence
    rw [swapB_nb t2 h]
    split
    · split
      · rfl
      · simp [mkErr, PRes.mapSt, swapB_loc]
    · rfl

theorem expectConsume_swapB (h2 : Boundary t2.cur.tok) {X : Tok} (hX : ¬ Boundary X) (k : PErrKind) (s : PSt) :
    expectConsume X k (swapB t2 s) = (expectConsume X k s).mapSt (swapB t2) := by
  unfold expectConsume
  simp only [swapB_tok_eq t2 h2 hX]
  by_cases h : s.cur.tok = X
  · simp only [h, if_true]
    exact next_swapB t2 (by rw [h]; exact hX)
  · simp only [h, if_false]; exact mkErr_swapB t2 s k

theorem consumeIdentifier_swapB (h2 : Boundary t2.cur.tok) (s : PSt) :
    consumeIdentifier (swapB t2 s) = (consumeIdentifier s).mapSt (swapB t2) := by
  by_cases h : Boundary s.cur.tok
  · have h' := swapB_b t2 h2 h
    have a : ∀ (u : PSt), Boundary u.cur.tok → consumeIdentifier u = mkErr u .expectedIdentifier := by
      intro u hu
      unfold consumeIdentifier
      split
      · rename_i n hn; rw [hn] at hu; unfold Boundary ClauseKw at hu; simp at hu
      · rfl
    rw [a _ h, a _ h']; exact mkErr_swapB t2 s _
  · unfold consumeIdentifier
    rw [swapB_nb t2 h]
    split
    · rw [next_swapB t2 h]; cases next s <;> rfl
    · exact mkErr_swapB t2 s _


theorem boundary_cases {t : Tok} (h : Boundary t) :
    t = .kw .where ∨ t = .kw .inner ∨ t = .kw .outer ∨ t = .kw .group ∨ t = .kw .having ∨ t = .kw .limit ∨ t = .eof ∨ t = .semi := by
  unfold Boundary ClauseKw at h
  rcases h with (h | h | h | h | h | h) | h | h <;> simp [h]

theorem parsePrimary_atB (T : PrecTables) (n : Nat) {s : PSt} (h : Boundary s.cur.tok) :
    parsePrimary T (n + 1) s = mkErr s .expectedExpression := by
  rw [parsePrimary]; dsimp only
  rcases boundary_cases h with h | h | h | h | h | h | h | h <;> rw [h]

theorem parseUnary_atB (T : PrecTables) (n : Nat) {s : PSt} (h : Boundary s.cur.tok) :
    parseUnary T (n + 1) s = parsePrimary T n s := by
  rw [parseUnary]; dsimp only
  rcases boundary_cases h with h | h | h | h | h | h | h | h <;> rw [h] <;> rfl

theorem nb_of_eq {s : PSt} {X : Tok} (h : s.cur.tok = X) (hX : ¬ Boundary X) : ¬ Boundary s.cur.tok := by
  rw [h]; exact hX

theorem nb_of_call {s : PSt} {name : List Char}
    (h : ¬(!(decide (s.cur.tok = Tok.lp) || decide (s.cur.tok = Tok.lsq ∧ lowerChars name = "array".toList))) = true) :
    ¬ Boundary s.cur.tok := by
  intro hb
  apply h
  rcases boundary_cases hb with e | e | e | e | e | e | e | e <;> simp [e]


/-! ### the six functions -/

set_option hygiene false in
/-- why the current token of a state is not a boundary token, from the branch conditions in the context -/
macro "nb_tac" : tactic => `(tactic| first
  | assumption
  | exact nb_of_eq ‹_› (by decide)
  | exact nb_of_eq (And.right ‹_ ∧ _›) (by decide)
  | exact nb_of_eq (And.left ‹_ ∧ _›) (by decide)
  | exact nb_of_eq (Decidable.not_not.mp ‹¬ _ ≠ _›) (by decide)
  | exact nb_of_eq ‹_› hcl
  | exact nb_of_call ‹_›)

open Lean Elab Tactic Meta in
/-- rewrite the first `next (swapB t2 x)` of the goal with `next_swapB`, proving that `x` is not at a boundary -/
elab "nb_step" : tactic => withMainContext do
  let g ← getMainGoal
  let t ← instantiateMVars (← g.getType)
  let some e := t.find? (fun e => e.isAppOf ``Parse.next && e.getAppNumArgs == 1 && (e.getAppArgs[0]!).isAppOf ``swapB)
    | throwError "no next (swapB _ _)"
  let x ← Term.exprToSyntax (e.getAppArgs[0]!).getAppArgs[1]!
  evalTactic (← `(tactic| rw [next_swapB _ (s := $x) (by nb_tac)]))

open Lean Elab Tactic Meta in
/-- goal `_ = PRes.mapSt g (match d with …)`: case split on the scrutinee `d` (an `if`: on its condition) -/
elab "pre_cases" : tactic => withMainContext do
  let g ← getMainGoal
  let t := (← instantiateMVars (← g.getType)).consumeMData
  unless t.isAppOf ``Eq && t.getAppArgs.size == 3 do throwError "not an equation {t}"
  let rhs := t.getAppArgs[2]!
  unless rhs.isAppOf ``PRes.mapSt && rhs.getAppArgs.size == 3 do throwError "right side is not a mapSt"
  let inner := rhs.getAppArgs[2]!
  if inner.isAppOf ``ite then
    let c ← Term.exprToSyntax inner.getAppArgs[1]!
    evalTactic (← `(tactic| by_cases hc : $c <;> simp only [hc, if_true, if_false, and_self, not_true_eq_false, not_false_eq_true]))
    return
  unless inner.getAppFn.isConst do throwError "not a match"
  let some info ← getMatcherInfo? inner.getAppFn.constName! | throwError "not a match"
  let discr := inner.getAppArgs[info.getFirstDiscrPos]!
  if discr.isAppOf ``ite then
    let c ← Term.exprToSyntax discr.getAppArgs[1]!
    evalTactic (← `(tactic| by_cases hc : $c <;> simp only [hc, if_true, if_false, and_self]))
    return
  let dty ← whnfR (← inferType discr)
  unless dty.isAppOf ``PRes || dty.isAppOf ``Except do throwError "scrutinee is not a result"
  if discr.getAppFn.isConstOf ``PRes.ok || discr.getAppFn.isConstOf ``PRes.err || discr.getAppFn.isConstOf ``PRes.fuel
      || discr.getAppFn.isConstOf ``Except.ok || discr.getAppFn.isConstOf ``Except.error then
    throwError "scrutinee is a constructor"
  let d ← Term.exprToSyntax discr
  evalTactic (← `(tactic| (cases hd : $d <;> try simp only [hd])))

set_option hygiene false in
macro "pre_simp" : tactic => `(tactic| simp only [mapSt_ok, mapSt_err, mapSt_fuel, PRes.bind, swapB_loc, mkErr_swapB, ne_eq,
  tokenPrecedence_swapB _ hT h2, consumeIdentifier_swapB _ h2,
  expectConsume_swapB _ h2 (show ¬ Boundary Tok.rsq by decide), expectConsume_swapB _ h2 (show ¬ Boundary Tok.rp by decide),
  expectConsume_swapB _ h2 (show ¬ Boundary Tok.lp by decide), expectConsume_swapB _ h2 (show ¬ Boundary (Tok.kw .from) by decide),
  expectConsume_swapB _ h2 (show ¬ Boundary (Tok.kw .when) by decide), expectConsume_swapB _ h2 (show ¬ Boundary (Tok.kw .then) by decide),
  expectConsume_swapB _ h2 (show ¬ Boundary (Tok.kw .end) by decide),
  swapB_tok_eq _ h2 (show ¬ Boundary Tok.lp by decide), swapB_tok_eq _ h2 (show ¬ Boundary Tok.lsq by decide),
  swapB_tok_eq _ h2 (show ¬ Boundary Tok.comma by decide), swapB_tok_eq _ h2 (show ¬ Boundary Tok.rp by decide),
  swapB_tok_eq _ h2 (show ¬ Boundary Tok.rsq by decide), swapB_tok_eq _ h2 (show ¬ Boundary (Tok.kw .distinct) by decide),
  swapB_tok_eq _ h2 (show ¬ Boundary (Tok.kw .else) by decide), swapB_tok_eq _ h2 hcl,
  ihE, ihU, ihP, ihC, ihR0, ihR4, ihR8, ihRp, ihRq, ihLrp, ihLrsq, ihLc])

set_option hygiene false in
macro "pre_auto" : tactic => `(tactic| repeat' (first
   | rfl
   | pre_simp
   | nb_step
   | pre_cases
   | split))

/-- the induction hypotheses at one fuel value -/
structure SwapIH (T : PrecTables) (n : Nat) : Prop where
  e : ∀ s, parseExpr T n (swapB t2 s) = (parseExpr T n s).mapSt (swapB t2)
  r : ∀ p l s, 0 ≤ p → parseRhs T n p l (swapB t2 s) = (parseRhs T n p l s).mapSt (swapB t2)
  u : ∀ s, parseUnary T n (swapB t2 s) = (parseUnary T n s).mapSt (swapB t2)
  p : ∀ s, parsePrimary T n (swapB t2 s) = (parsePrimary T n s).mapSt (swapB t2)
  c : ∀ loc cl s, parseCase T n loc cl (swapB t2 s) = (parseCase T n loc cl s).mapSt (swapB t2)
  l : ∀ c acc s, ¬ Boundary c → parseList T n c acc (swapB t2 s) = (parseList T n c acc s).mapSt (swapB t2)

set_option hygiene false in
macro "swap_setup" : tactic => `(tactic| (
  have ihE := ih.e; have ihR := ih.r; have ihU := ih.u; have ihP := ih.p; have ihC := ih.c; have ihL := ih.l
  have ihR0 := fun l s => ihR 0 l s (by decide)
  have ihR4 := fun l s => ihR 4 l s (by decide)
  have ihR8 := fun l s => ihR 8 l s (by decide)
  have ihLrp := fun acc s => ihL .rp acc s (by decide)
  have ihLrsq := fun acc s => ihL .rsq acc s (by decide)
  have hcl0 : ¬ Boundary Tok.rp := by decide))

variable {t2}
variable {T : PrecTables} (hT : InertBoundary T) (h2 : Boundary t2.cur.tok) {n : Nat} (ih : SwapIH t2 T n)
include hT h2 ih
set_option linter.unusedSectionVars false

theorem swap_step_expr (s : PSt) : parseExpr T (n + 1) (swapB t2 s) = (parseExpr T (n + 1) s).mapSt (swapB t2) := by
  swap_setup
  have hcl := hcl0; have ihRp := ihR0; have ihRq := ihR0; have ihLc := ihLrp
  rw [parseExpr, parseExpr]; pre_auto

theorem swap_step_rhs (p : Int) (l : PExpr) (s : PSt) (hp : 0 ≤ p) :
    parseRhs T (n + 1) p l (swapB t2 s) = (parseRhs T (n + 1) p l s).mapSt (swapB t2) := by
  swap_setup
  have hcl := hcl0; have ihRp := fun l s => ihR p l s hp; have ihLc := ihLrp
  rw [parseRhs, parseRhs]; dsimp only
  rw [tokenPrecedence_swapB t2 hT h2]
  cases htp : tokenPrecedence T s with
  | err e s' => rfl
  | fuel => rfl
  | ok tp s' =>
    have hs := tokenPrecedence_ok htp; subst hs
    simp only [mapSt_ok]
    by_cases hlt : tp < p
    · simp only [hlt, if_true, mapSt_ok]
    · have hnb : ¬ Boundary s'.cur.tok := by
        intro hb; rw [tokenPrecedence_boundary hT hb] at htp; cases htp; omega
      have ihRq := fun l s => ihR (tp + 1) l s (by omega)
      simp only [hlt, if_false]
      rw [swapB_nb t2 hnb, next_swapB t2 hnb]
      pre_auto

theorem swap_step_unary (s : PSt) : parseUnary T (n + 1) (swapB t2 s) = (parseUnary T (n + 1) s).mapSt (swapB t2) := by
  swap_setup
  have hcl := hcl0; have ihRp := ihR0; have ihRq := ihR0; have ihLc := ihLrp
  by_cases hb : Boundary s.cur.tok
  · rw [parseUnary_atB T n hb, parseUnary_atB T n (swapB_b t2 h2 hb)]; exact ihP s
  · rw [parseUnary, parseUnary]; dsimp only
    rw [swapB_nb t2 hb, next_swapB t2 hb]
    by_cases hnot : s.cur.tok = .kw .not
    · simp only [hnot, if_true]; pre_auto
    · simp only [hnot, if_false]; pre_auto

theorem swap_step_primary (s : PSt) :
    parsePrimary T (n + 1) (swapB t2 s) = (parsePrimary T (n + 1) s).mapSt (swapB t2) := by
  swap_setup
  have hcl := hcl0; have ihRp := ihR0; have ihRq := ihR0; have ihLc := ihLrp
  by_cases hb : Boundary s.cur.tok
  · rw [parsePrimary_atB T n hb, parsePrimary_atB T n (swapB_b t2 h2 hb)]; exact mkErr_swapB t2 s _
  · rw [parsePrimary, parsePrimary]; dsimp only
    rw [swapB_nb t2 hb, next_swapB t2 hb]
    split
    · pre_auto
    · pre_auto
    · pre_auto
    · pre_auto
    · pre_auto
    · pre_auto
    · pre_cases
      · rename_i nm _ a1 s1 hd1
        pre_simp
        by_cases ha : (s1.cur.tok = Tok.lsq ∧ lowerChars nm = "array".toList)
        · simp only [if_pos ha]; pre_auto
        · simp only [if_neg ha]; pre_auto
      · rfl
      · rfl
    · pre_auto
    · pre_auto
    · pre_auto
    · pre_auto

theorem swap_step_case (loc : Loc) (cl : List (PExpr × PExpr)) (s : PSt) :
    parseCase T (n + 1) loc cl (swapB t2 s) = (parseCase T (n + 1) loc cl s).mapSt (swapB t2) := by
  swap_setup
  have hcl := hcl0; have ihRp := ihR0; have ihRq := ihR0; have ihLc := ihLrp
  rw [parseCase, parseCase]; dsimp only; pre_auto

theorem swap_step_list (c : Tok) (acc : List PExpr) (s : PSt) (hcl : ¬ Boundary c) :
    parseList T (n + 1) c acc (swapB t2 s) = (parseList T (n + 1) c acc s).mapSt (swapB t2) := by
  swap_setup
  have ihRp := ihR0; have ihRq := ihR0; have ihLc := fun acc s => ihL c acc s hcl
  rw [parseList, parseList]; dsimp only; pre_auto


omit ih in
theorem swapIH_all : ∀ n, SwapIH t2 T n := by
  intro n
  induction n with
  | zero =>
    refine ⟨?_, ?_, ?_, ?_, ?_, ?_⟩ <;> intros
    · rw [parseExpr, parseExpr]; rfl
    · rw [parseRhs, parseRhs]; rfl
    · rw [parseUnary, parseUnary]; rfl
    · rw [parsePrimary, parsePrimary]; rfl
    · rw [parseCase, parseCase]; rfl
    · rw [parseList, parseList]; rfl
  | succ n ih =>
    exact ⟨swap_step_expr hT h2 ih, fun p l s hp => swap_step_rhs hT h2 ih p l s hp, swap_step_unary hT h2 ih,
      swap_step_primary hT h2 ih, swap_step_case hT h2 ih, fun c acc s hc => swap_step_list hT h2 ih c acc s hc⟩

omit ih in
/-- **Prefix determinism of the expression parser** (barrier form): the expression parser never looks past the first
boundary token (clause keyword, `;`, `End`) of its input, and treats every boundary token alike — replacing that token
by another boundary token (at the same location) and everything behind it by other tokens changes neither the tree
nor the error, and the state left behind changes in the same way. -/
theorem parseExpr_swapB (n : Nat) (s : PSt) :
    parseExpr T n (swapB t2 s) = (parseExpr T n s).mapSt (swapB t2) := (swapIH_all hT h2 n).e s

omit ih in
theorem groupKeysLoop_swapB : ∀ (n : Nat) (acc : List PExpr) (s : PSt),
    groupKeysLoop T n acc (swapB t2 s) = (groupKeysLoop T n acc s).mapSt (swapB t2) := by
  intro n
  induction n with
  | zero => intro acc s; rw [groupKeysLoop, groupKeysLoop]; rfl
  | succ n ihn =>
    intro acc s
    rw [groupKeysLoop, groupKeysLoop]
    simp only [swapB_tok_eq t2 h2 (show ¬ Boundary Tok.comma by decide)]
    by_cases hc : s.cur.tok = .comma
    · simp only [hc, if_true]
      rw [next_swapB t2 (nb_of_eq hc (by decide))]
      cases next s with
      | err e s1 => rfl
      | fuel => rfl
      | ok a s1 =>
        simp only [mapSt_ok, parseExpr_swapB hT h2]
        cases parseExpr T n s1 with
        | err e s2 => rfl
        | fuel => rfl
        | ok e s2 => simp only [mapSt_ok]; exact ihn _ _
    · simp only [hc, if_false]; rfl

end Parse
end Sqlgrep
