import SqlgrepModel.Lemmas.NoPanic
import SqlgrepModel.Lemmas.NoPanicEngine
import SqlgrepModel.Props.C03
import SqlgrepModel.Lemmas.RowIndex
import SqlgrepModel.Lemmas.NoSkip
import SqlgrepModel.Lemmas.NoSkipEngine
import SqlgrepModel.Lemmas.AggItems
/-
C09 — execution is total: results or an error message, never a crash, never a silently wrapped number.

Where the model has explicit panic outcomes (`Outcome.panic`) "never panics" is a statement with content: the two
indexing sites of `execute_result` in `Model/Engine.lean` (`cellOf`) are shown unreachable (`run_never_panics`, second
part of this file); likewise the lowering (Props/C14 `lower_never_panics`) and `extractNear` (Props/C14Lex). The
evaluator, literal parsing, extraction, reader and printer models contain NO panic constructor — the repaired code has
no data-reachable panic site left there (checked arithmetic and casts, guarded argument access) and the model mirrors
that — so `eval_never_panics`, `eval_list_never_panics` and `parse_literal_never_panics` below are true by
construction: they are regression obligations, not evidence about the code. The evidence that the CODE does not
panic there is the harness (every case under catch_unwind with overflow checks on). The content of the first part is
`int_arith_in_range` / `negate_exact` (no silent wrap-around: an INT result is the exact result, within 64 bits),
`div_by_zero_is_error`, `subscript_total`. All model functions are total (structural recursion: termination is checked
by Lean). `oracleMissing` is answered only for external facts a case did not ship (a regex verdict / case mapping
of a computed text) and for `now()` — exactly the four sites of `function_call_skipped_iff` (third part of this file);
leap-second arithmetic and STDDEV of INTERVAL are modelled (the one `expect` chrono's
`duration_trunc` contains is proved unreachable: `Lemmas/FuncLeap.lean` `dateTrunc_shift_in_range`).
What no executable model exhibits (panics inside regex / serde_json / chrono, stack exhaustion, allocation
failure, hangs, non-UTC zones) is covered by the harness runs only (see DESIGN.md section 13).

Third part ("never skipped"): a run of the model can also end `skipped` — the model's way of saying "I was not given an
external fact I need", which the check counts and does not compare. `skipped` is an artefact of the DRIVER's finite fact
tables, not a way the program ends: `upper`, `lower`, `regexp_matches`, `now` are total functions of the libraries. The
property sentence — records or a reported error — is therefore stated over TOTAL oracle functions
(`TotalOracles`: `upperF lowerF : Bytes → Bytes`, `regexF : Bytes → Bytes → Option Bool` with `none` = invalid pattern,
`nowF : Value`; `Oracles.Total`: such functions stand behind the tables) and holds for EVERY statement:
`run_total_of_total_oracles` — with a total oracle no evaluation is `oracleMissing` (`eval_total_of_total_oracles`), so a
batch run of any statement ends in exactly one of two ways, its records with `error = none` or the records printed so
far with `error = some kind` — never `panicked`, never `skipped`. For the oracles the driver works with (finite tables,
`total = none`) `function_call_skipped_iff` says exactly where the model stops (four sites of `callFunction`, nowhere
else in evaluator, engines and executor), and the corollaries `run_not_skipped` / `run_trichotomy` say that a statement
calling none of the four functions (`Stmt.factFree`, decidable) is never skipped for ANY tables. `run_ends_one_way`: a run
sets at most one of `error` and `skipped`, and never `panicked`. The end-to-end versions (`Pipeline.runLowered`, `Pipeline.runText`) and the composition of the
`row[index]` lemmas over the end-to-end model are in `Props/C09Pipeline.lean`.
-/
namespace Sqlgrep.Props.C09
open Sqlgrep

/-- the evaluator never panics: every outcome is a value, a reported error, or an oracle request -/
theorem eval_never_panics (O : Oracles) (env : Env) (e : Expr) : ∀ site, eval O env e ≠ .panic site := by
  intro site h
  have := NP_eval O env e
  rw [h] at this
  simp [NP, Outcome.isPanic] at this

theorem eval_list_never_panics (O : Oracles) (env : Env) (es : List Expr) : ∀ site, evalList O env es ≠ .panic site := by
  intro site h
  have := NP_evalList O env es
  rw [h] at this
  simp [NP, Outcome.isPanic] at this

/-- literal parsing (`ValueType::parse`, used by casts and by extraction) never panics — including interval
texts whose parts leave chrono's range -/
theorem parse_literal_never_panics (O : Oracles) (t : VType) (s : Bytes) : ∀ site, parseLit O t s ≠ .panic site := by
  intro site h
  have := NP_parseLit O t s
  rw [h] at this
  simp [NP, Outcome.isPanic] at this

/-- **`ValueType::parse` needs no oracle**: whatever facts a case ships (none, some, all), converting a text to a
literal never stops for a missing fact — `f64::from_str` is `DecFloat.parseF64N` (Model/DecFloat.lean) and chrono's
`%Y-%m-%d %H:%M:%S` parse is `Lit.parseTimestampLit` where no fact is shipped. -/
theorem parse_literal_needs_no_oracle (O : Oracles) (t : VType) (s : Bytes) : ∀ w, parseLit O t s ≠ .oracleMissing w := by
  intro w
  unfold parseLit
  cases t <;> simp only [] <;> (try split) <;> (try split) <;> (try split) <;> intro h <;> cases h

/-- with no shipped fact a REAL literal is `f64::from_str` as computed in Lean -/
theorem parse_real_is_parseF64 (s : Bytes) : parseLit {} .real s = .ok ((DecFloat.parseF64N s).map .real) := rfl

/-- no silent wrap-around: an INT result is always the exact mathematical result, within 64 bits -/
theorem int_arith_in_range (op : ArithOp) (x y r : Int) (h : arith op (.int x) (.int y) = .ok (.int r)) :
    inI64 r = true ∧ r = (match op with
      | .add => x + y | .sub => x - y | .mul => x * y | .div => Int.tdiv x y) := by
  cases op <;> simp only [arith, checked] at h
  all_goals
    split at h
    · rename_i v hv
      split at hv <;> simp_all
      all_goals (try (obtain ⟨h1, h2⟩ := hv; subst h2; exact h1))
    · simp at h

theorem negate_exact (x r : Int) (h : negate (.int x) = .ok (.int r)) : inI64 r = true ∧ r = -x := by
  simp only [negate, checked] at h
  split at h
  · rename_i v hv
    split at hv <;> simp_all
  · simp at h

/-- division by zero is an error -/
theorem div_by_zero_is_error (x : Int) : arith .div (.int x) (.int 0) = .error .undefinedOperation := by
  simp [arith]

/-- huge or negative subscripts give NULL, never an out-of-bounds access -/
theorem subscript_total (O : Oracles) (env : Env) (a i : Expr) (t : VType) (xs : List Value) (n : Int)
    (ha : eval O env a = .ok (.array t xs)) (hi : eval O env i = .ok (.int n))
    (hout : n < 1 ∨ n > xs.length) : eval O env (.index a i) = .ok .null := by
  rw [Props.C03.subscript_one_based O env a i t xs n ha hi]
  rcases hout with h | h
  · have : ¬ n ≥ 1 := by omega
    simp [this]
  · have h1 : n ≥ 1 := by omega
    have h2 : xs.length ≤ n.toNat - 1 := by omega
    simp [h1, List.getElem?_eq_none h2]

example : eval {} {} (.arith .mul (.value (.int 3037000500)) (.value (.int 3037000500))) = .error .undefinedOperation := by rfl
example : eval {} {} (.neg (.value (.int (-9223372036854775808)))) = .error .undefinedOperation := by rfl
example : eval {} {} (.call .pow [.value (.int 3), .value (.int 70)]) = .error .undefinedFunction := by rfl
example : mkInterval 9999999999999999 0 0 = none := by rfl

/-! ### statement level: a whole batch run never panics -/

open Sqlgrep.NoPanicEngine in
/-- **C09 at the level of a whole run: `panicked = false`.** For every statement (SELECT or aggregate, with WHERE /
GROUP BY / HAVING / DISTINCT / LIMIT / JOIN), every table, every joined file, every list of input files with any rows,
every interrupt point and all oracle tables, a batch run never takes the panic outcome. This is ALL the theorem says: the
run may still end `skipped := some w` (the model was not given an external fact it needed — the check counts such a case
and does not compare it). When that happens, and that for statements without `upper` / `lower` / `regexp_matches` / `now`
it never happens, so that the run ends with records or a reported error, is `function_call_skipped_iff`,
`run_not_skipped` and `run_trichotomy` below.
The two indexing sites of `execute_result` (`group_key_mapping[&hash]`, `group_key.0[index]`) are shown
unreachable through the invariant `Inv` (a group exists only after an update that validated every `GroupKey`
item, and every stored key has one value per GROUP BY part). A third indexing site of `execute_result`,
`result_rows_by_column[0]` (aggregate_execution.rs:276: the first result column, one column per select-list item), has
NO panic outcome in the model: it is out of range only for an aggregate statement without any item, and
`aggregate_statement_has_items` below shows that no text lowers to such a statement (the theorem here quantifies over
all `Query` values, also hand-built ones with `items = []`, on which the Rust engine would panic at that site — such a
value is not an accepted statement). UTC only; text format (JSON / CSV: `Pipeline.runText_never_panics`). -/
theorem run_never_panics (O : Oracles) (qy : Query) (joined : List FileLine) (files : List (List FileLine))
    (stopAt : Option Nat) : (runBatch O qy joined files stopAt).panicked = false := by
  have hfw : ∀ (o : Outcome JoinIndex), NP o → (failWith ({} : RunOut) o).panicked = false :=
    fun o hn => failWith_panicked {} o hn rfl
  have body : ∀ idx : JoinIndex, ∀ w : Bool,
      LInv qy (runFiles O qy idx w stopAt files {}) := fun idx w =>
    runFiles_inv O qy idx w stopAt files {} ⟨rfl, EInv.init qy⟩
  unfold runBatch
  cases hq : qy.stmt with
  | select q =>
    cases hj : qy.join with
    | none => dsimp only; split <;> exact (body _ _).np
    | some j =>
      dsimp only
      have hn := NP_setupJoin qy.table j joined
      cases hs : setupJoin qy.table j (loadJoinFile j joined) with
      | ok idx => dsimp only; split <;> exact (body _ _).np
      | error k => rfl
      | panic s => rw [hs] at hn; simp [NP, Outcome.isPanic] at hn
      | oracleMissing w => rfl
  | aggregate q =>
    have fin : ∀ idx : JoinIndex, ∀ w : Bool,
        (match finalResult O q (runFiles O qy idx w stopAt files {}).es with
          | .ok r => { (runFiles O qy idx w stopAt files {}).out with
              printed := (runFiles O qy idx w stopAt files {}).out.printed ++ printResult r true }
          | o => failWith (runFiles O qy idx w stopAt files {}).out o).panicked = false := by
      intro idx w
      have hl := body idx w
      have hinv : Inv q (runFiles O qy idx w stopAt files {}).es.agg := by
        have := hl.es; unfold EInv at this; rw [hq] at this; exact this
      have hn := NP_finalResult O q _ hinv
      cases hf : finalResult O q (runFiles O qy idx w stopAt files {}).es with
      | ok r => exact hl.np
      | error k => exact hl.np
      | panic s => rw [hf] at hn; simp [NP, Outcome.isPanic] at hn
      | oracleMissing w => exact hl.np
    cases hj : qy.join with
    | none =>
      dsimp only
      split
      · exact (body _ _).np
      · exact fin _ _
    | some j =>
      dsimp only
      have hn := NP_setupJoin qy.table j joined
      cases hs : setupJoin qy.table j (loadJoinFile j joined) with
      | ok idx =>
        dsimp only
        split
        · exact (body _ _).np
        · exact fin _ _
      | error k => rfl
      | panic s => rw [hs] at hn; simp [NP, Outcome.isPanic] at hn
      | oracleMissing w => rfl

/-- **an aggregate statement that comes from a text has at least one select-list item**, so the site
`result_rows_by_column[0]` of `execute_result` (aggregate_execution.rs:276) is in range for every accepted statement:
the parser's projection loop pushes a projection before it can end, and `create_aggregate_statement` makes one item per
projection (`Lemmas/AggItems.lean`). For every token vector, fuel and `Regex::new` oracle. -/
theorem aggregate_statement_has_items (T : PrecTables) (fuel : Nat) (toks : List PTok) (op : POp)
    (rv : List Char → Bool) (a : AggStmt) (t : String) (f : Option String) (j : Option LJoin)
    (hp : Parse.parseTokensFuel T fuel toks = .tree op) (hl : Lower.lowerStatement rv op = .ok (.aggregate a t f j)) :
    a.items ≠ [] :=
  lowered_aggregate_has_items T fuel toks op rv a t f j hp hl

/-- line-at-a-time execution (follow mode): from a state reached by successful steps, the next step never panics -/
theorem step_never_panics (O : Oracles) (qy : Query) (idx : JoinIndex) (w : Bool) (es : EngineState) (l : Line)
    (h : Sqlgrep.NoPanicEngine.EInv qy es) : ∀ site, executeLine O qy idx w es l ≠ .panic site := by
  intro site hx
  have := Sqlgrep.NoPanicEngine.NP_executeLine O qy idx w es l h
  rw [hx] at this
  simp [NP, Outcome.isPanic] at this

/-- … and the invariant needed for the next step holds again (so it holds along every run from the initial state) -/
theorem step_keeps_invariant (O : Oracles) (qy : Query) (idx : JoinIndex) (w : Bool) (es es' : EngineState) (l : Line)
    (lo : LineOut) (h : Sqlgrep.NoPanicEngine.EInv qy es) (hx : executeLine O qy idx w es l = .ok (es', lo)) :
    Sqlgrep.NoPanicEngine.EInv qy es' := Sqlgrep.NoPanicEngine.executeLine_inv hx h

/-! ### never skipped: when the model needs an external fact, and when it does not -/

/-- **exactly where the evaluator model stops for a missing fact.** A function call answers `oracleMissing w` iff it is
one of four sites (`MissingSite`, `Lemmas/NoSkip.lean`): `upper(s)` / `lower(s)` of a text that is not ASCII and whose
case mapping is not in the shipped table (`w = "upper"` / `"lower"`), `regexp_matches(v, p)` on a pair that is not in
the shipped table (`w = "regex"`), and `now()` (`w = "now"`) — each of them only for an oracle WITHOUT total functions
behind its tables (`O.total = none`: every oracle the driver builds; the model has no clock, so a statement that
evaluates `now()` is always skipped by the driver's model; such statements are compared with the implementation by the
harness only up to the point of the call). No other function, no operator, no cast and no literal ever asks
(`eval_not_skipped`, `parse_literal_needs_no_oracle`). -/
theorem function_call_skipped_iff (O : Oracles) (f : Func) (args : List Value) (w : String) :
    callFunction O f args = .oracleMissing w ↔ MissingSite O f args w :=
  callFunction_missing_iff O f args w

/-- the same, read for one function: `upper(s)` is skipped iff `s` is not ASCII and its upper-casing was not shipped -/
theorem upper_skipped_iff (O : Oracles) (s : Bytes) :
    (∃ w, callFunction O .upper [.text s] = .oracleMissing w) ↔
      isAscii s = false ∧ lookupB O.upper s = none ∧ O.total = none := by
  rw [← upper_missing_iff]
  cases callFunction O .upper [.text s] <;> simp [Outcome.isMissing]

theorem lower_skipped_iff (O : Oracles) (s : Bytes) :
    (∃ w, callFunction O .lower [.text s] = .oracleMissing w) ↔
      isAscii s = false ∧ lookupB O.lower s = none ∧ O.total = none := by
  rw [← lower_missing_iff]
  cases callFunction O .lower [.text s] <;> simp [Outcome.isMissing]

theorem regex_skipped_iff (O : Oracles) (v p : Bytes) :
    (∃ w, callFunction O .regexMatches [.text v, .text p] = .oracleMissing w) ↔
      O.regex.find? (fun e => e.1.1 == v && e.1.2 == p) = none ∧ O.total = none := by
  rw [← regex_missing_iff]
  cases callFunction O .regexMatches [.text v, .text p] <;> simp [Outcome.isMissing]

/-- `now()` is skipped exactly when the oracle holds no clock reading (`total = none`) — whatever tables were shipped:
no case ships the clock, so the model the driver runs always stops at `now()` … -/
theorem now_skipped_iff (O : Oracles) : callFunction O .now [] = .oracleMissing "now" ↔ O.total = none :=
  now_missing_iff O

/-- … and with a total oracle it is the clock reading -/
theorem now_of_total_oracle (O : Oracles) (T : TotalOracles) (h : O.total = some T) : callFunction O .now [] = .ok T.nowF := by
  simp [callFunction, h]

/-- **the evaluator asks only through function calls** (generic layer). Let `ok` be any set of function symbols whose
calls are answered under the oracle tables `O` (no call of such a function is `oracleMissing`, whatever the arguments).
An expression in which only such functions occur — at any depth: operands, IN lists, CASE branches, subscripts, casts,
arguments — is evaluated to a value, a reported error (or, vacuously, a panic: `eval_never_panics`), never to a request
for a fact, in every environment. -/
theorem eval_not_skipped (O : Oracles) (ok : Func → Bool)
    (hok : ∀ f, ok f = true → ∀ args w, callFunction O f args ≠ .oracleMissing w)
    (env : Env) (e : Expr) (h : e.allFuncs ok = true) : ∀ w, eval O env e ≠ .oracleMissing w :=
  (NM_iff _).1 (NM_eval O ok (fun f hf args => (NM_iff _).2 (hok f hf args)) env e h)

/-- **the syntactic instance**: an expression that calls none of `upper`, `lower`, `regexp_matches`, `now` needs no
external fact — for ALL oracle tables (empty, partial, wrong) -/
theorem eval_factFree_not_skipped (O : Oracles) (env : Env) (e : Expr) (h : e.factFree = true) :
    ∀ w, eval O env e ≠ .oracleMissing w :=
  (NM_iff _).1 (NM_eval_factFree O env e h)

/-- **a whole batch run is not skipped** (generic layer): if every function symbol of the statement is answered under
`O`, the run of `Model/Exec.lean` — every input file, every joined file, every interrupt point — does not end `skipped`.
Covers every statement form of the engine model (SELECT and aggregate statements, WHERE, GROUP BY, HAVING, the
expressions around aggregates, DISTINCT, LIMIT, JOIN / OUTER JOIN): nothing is left out, hence no `_partial`. -/
theorem run_not_skipped_of_answered (O : Oracles) (ok : Func → Bool)
    (hok : ∀ f, ok f = true → ∀ args w, callFunction O f args ≠ .oracleMissing w)
    (qy : Query) (hq : qy.stmt.allFuncs ok = true) (joined : List FileLine) (files : List (List FileLine))
    (stopAt : Option Nat) : (runBatch O qy joined files stopAt).skipped = none :=
  NoSkipEngine.runBatch_not_skipped O ok (fun f hf args => (NM_iff _).2 (hok f hf args)) qy joined files stopAt hq

/-- **a fact-free statement is never skipped**: when no expression of the statement — select items, WHERE, GROUP BY
parts, aggregate arguments, the expressions around aggregates, HAVING and its aggregates — calls `upper`, `lower`,
`regexp_matches` or `now` (`Query.factFree`, a decidable syntactic check), a batch run does not end `skipped`, for ALL
oracle tables, inputs and interrupt points -/
theorem run_not_skipped (O : Oracles) (qy : Query) (hq : qy.factFree = true) (joined : List FileLine)
    (files : List (List FileLine)) (stopAt : Option Nat) : (runBatch O qy joined files stopAt).skipped = none :=
  NoSkipEngine.runBatch_not_skipped O factFreeFunc (NM_callFunction_factFree O) qy joined files stopAt hq

/-- line-at-a-time execution (follow mode) of a fact-free statement: no step asks for a fact -/
theorem step_not_skipped (O : Oracles) (qy : Query) (hq : qy.factFree = true) (idx : JoinIndex) (w : Bool)
    (es : EngineState) (l : Line) : ∀ what, executeLine O qy idx w es l ≠ .oracleMissing what :=
  (NM_iff _).1 (NoSkipEngine.NM_executeLine O factFreeFunc (NM_callFunction_factFree O) qy idx w es l hq)

/-- how a run ended, read off the three failure fields of `RunOut` in the order `Pipeline.runLowered` reads them -/
inductive Ending where
  /-- `Ok(())`: all records printed -/
  | output
  /-- `Err(kind)`: a reported error, after the records printed so far -/
  | reported (k : ErrKind)
  | panicked
  /-- the model was not given an external fact it needed -/
  | skipped (what : String)
  deriving DecidableEq, Repr

def ending (r : RunOut) : Ending :=
  match r.skipped with
  | some w => .skipped w
  | none => if r.panicked then .panicked else
    match r.error with
    | some k => .reported k
    | none => .output

/-- **every run ends in exactly one way, and none of them is a panic**: a batch run — every statement, all oracle
tables — has `panicked = false` and sets at most one of `error` and `skipped`: output, a reported error, or (only for an
oracle with finite tables) skipped for a missing fact. (`NoSkipEngine.runBatch_oneWay` is the structural fact "at most
one of the three fields"; its fourth case, `panicked = true`, is excluded by `run_never_panics`.) -/
theorem run_ends_one_way (O : Oracles) (qy : Query) (joined : List FileLine) (files : List (List FileLine))
    (stopAt : Option Nat) :
    let r := runBatch O qy joined files stopAt
    r.panicked = false ∧
    ((r.error = none ∧ r.skipped = none ∧ ending r = .output) ∨
     (∃ k, r.error = some k ∧ r.skipped = none ∧ ending r = .reported k) ∨
     (∃ w, r.error = none ∧ r.skipped = some w ∧ ending r = .skipped w)) := by
  intro r
  have hp : r.panicked = false := run_never_panics O qy joined files stopAt
  refine ⟨hp, ?_⟩
  have h := NoSkipEngine.runBatch_oneWay O qy joined files stopAt
  unfold ending
  rcases h with ⟨he, _, hs⟩ | ⟨⟨k, he⟩, _, hs⟩ | ⟨_, hpt, _⟩ | ⟨he, _, w, hs⟩
  · left; refine ⟨he, hs, ?_⟩; show (match r.skipped with | some w => _ | none => _) = _; rw [hs, hp, he]; rfl
  · right; left; refine ⟨k, he, hs, ?_⟩; show (match r.skipped with | some w => _ | none => _) = _; rw [hs, hp, he]; rfl
  · exact absurd hpt (by rw [show (runBatch O qy joined files stopAt).panicked = false from hp]; decide)
  · right; right; refine ⟨w, he, hs, ?_⟩; show (match r.skipped with | some w => _ | none => _) = _; rw [hs]

/-- **with total oracle functions no evaluation asks for a missing fact** — every expression, every environment -/
theorem eval_total_of_total_oracles (O : Oracles) (hT : O.Total) (env : Env) (e : Expr) :
    (∀ w, eval O env e ≠ .oracleMissing w) ∧ (∀ site, eval O env e ≠ .panic site) :=
  ⟨(NM_iff _).1 (NM_eval_total O hT env e), eval_never_panics O env e⟩

/-- … hence every evaluation is a value or a reported error -/
theorem eval_value_or_error_of_total_oracles (O : Oracles) (hT : O.Total) (env : Env) (e : Expr) :
    (∃ v, eval O env e = .ok v) ∨ (∃ k, eval O env e = .error k) := by
  have h := eval_total_of_total_oracles O hT env e
  cases he : eval O env e with
  | ok v => exact Or.inl ⟨v, rfl⟩
  | error k => exact Or.inr ⟨k, rfl⟩
  | panic s => exact absurd he (h.2 s)
  | oracleMissing w => exact absurd he (h.1 w)

/-- a batch run under a total oracle is never skipped — EVERY statement -/
theorem run_not_skipped_of_total_oracles (O : Oracles) (hT : O.Total) (qy : Query) (joined : List FileLine)
    (files : List (List FileLine)) (stopAt : Option Nat) : (runBatch O qy joined files stopAt).skipped = none :=
  NoSkipEngine.runBatch_not_skipped O anyFunc (fun f _ => NM_callFunction_total O hT f) qy joined files stopAt
    (Stmt.allFuncs_any qy.stmt)

/-- **run_total_of_total_oracles — the property sentence for EVERY statement: results or an error message, never a
crash.** Let the external functions be total (`O.Total`: `upperF lowerF : Bytes → Bytes`, `regexF : Bytes → Bytes →
Option Bool`, `nowF : Value` stand behind the oracle's tables — what `str::to_uppercase`, `Regex::new` / `is_match` and
the clock are). Then a batch run of ANY statement (SELECT or aggregate; WHERE, GROUP BY, HAVING, DISTINCT, LIMIT, JOIN;
`upper`, `lower`, `regexp_matches`, `now` anywhere), over any files, joined file and interrupt point, has
`panicked = false` and `skipped = none`, and ends in exactly one of two ways: `Ok` (`error = none`: the printed records
are the whole output) or a reported error (`error = some k`, after the records printed so far). `skipped` is thereby an
artefact of the driver's finite fact tables only. -/
theorem run_total_of_total_oracles (O : Oracles) (hT : O.Total) (qy : Query) (joined : List FileLine)
    (files : List (List FileLine)) (stopAt : Option Nat) :
    let r := runBatch O qy joined files stopAt
    r.panicked = false ∧ r.skipped = none ∧
      ((r.error = none ∧ ending r = .output) ∨ (∃ k, r.error = some k ∧ ending r = .reported k)) := by
  intro r
  have hp : r.panicked = false := run_never_panics O qy joined files stopAt
  have hs : r.skipped = none := run_not_skipped_of_total_oracles O hT qy joined files stopAt
  refine ⟨hp, hs, ?_⟩
  unfold ending
  rw [hs, hp]
  cases he : r.error with
  | none => exact Or.inl ⟨rfl, rfl⟩
  | some k => exact Or.inr ⟨k, rfl, rfl⟩

/-- line-at-a-time execution (follow mode) under a total oracle: no step of any statement asks for a fact, and (from a
state reached by successful steps) none panics: every step yields the next state and its output, or a reported error -/
theorem step_total_of_total_oracles (O : Oracles) (hT : O.Total) (qy : Query) (idx : JoinIndex) (w : Bool)
    (es : EngineState) (l : Line) (h : Sqlgrep.NoPanicEngine.EInv qy es) :
    (∃ out, executeLine O qy idx w es l = .ok out) ∨ (∃ k, executeLine O qy idx w es l = .error k) := by
  have hm := (NM_iff _).1 (NoSkipEngine.NM_executeLine O anyFunc (fun f _ => NM_callFunction_total O hT f) qy idx w es l
    (Stmt.allFuncs_any qy.stmt))
  have hp := step_never_panics O qy idx w es l h
  cases he : executeLine O qy idx w es l with
  | ok out => exact Or.inl ⟨out, rfl⟩
  | error k => exact Or.inr ⟨k, rfl⟩
  | panic s => exact absurd he (hp s)
  | oracleMissing x => exact absurd he (hm x)

/-- **the same for the driver's oracles (finite tables), on the syntactic sub-class** — corollary of the generic layer
with `factFreeFunc` in place of "every function": a batch run of a fact-free statement has `panicked = false` and
`skipped = none` for ALL oracle tables, and ends in exactly one of two ways: `Ok` or a reported error. For statements
that are not fact-free and an oracle that is not total, `run_ends_one_way` says the run may be skipped INSTEAD OF ending
in one of the two ways, never in addition; `run_total_of_total_oracles` says that with total functions it is not. -/
theorem run_trichotomy (O : Oracles) (qy : Query) (hq : qy.factFree = true) (joined : List FileLine)
    (files : List (List FileLine)) (stopAt : Option Nat) :
    let r := runBatch O qy joined files stopAt
    r.panicked = false ∧ r.skipped = none ∧
      ((r.error = none ∧ ending r = .output) ∨ (∃ k, r.error = some k ∧ ending r = .reported k)) := by
  intro r
  have hp : r.panicked = false := run_never_panics O qy joined files stopAt
  have hs : r.skipped = none := run_not_skipped O qy hq joined files stopAt
  refine ⟨hp, hs, ?_⟩
  unfold ending
  rw [hs, hp]
  cases he : r.error with
  | none => exact Or.inl ⟨rfl, rfl⟩
  | some k => exact Or.inr ⟨k, rfl, rfl⟩

/-- `SELECT b FROM t WHERE a > 1` (lowered by hand; the same statement from its text: `Props/C09Pipeline.lean`) -/
def exSelect : Query :=
  { stmt := .select { projections := [("b", .column "b")], wildcard := false,
                      filter := some (.compare .gt (.column "a") (.value (.int 1))), limit := none, distinct := false }
    table := { name := "t", columns := ["a", "b"] }, join := none }

/-- `SELECT k, MAX(abs(v)) + 1 FROM t WHERE v IN (1, 2) GROUP BY k HAVING COUNT(*) > 0` -/
def exAggregate : Query :=
  { stmt := .aggregate
      { items := [{ name := "k", kind := .groupKey (.column "k") "k", transform := none },
                  { name := "max1", kind := .max (.call .abs [.column "v"]),
                    transform := some (.arith .add (.scoped .aggValue "$value") (.value (.int 1))) }]
        filter := some (.inList false (.column "v") [.value (.int 1), .value (.int 2)])
        groupBy := some [(.column "k", "k")]
        having := some (.compare .gt (.groupValueRef 0) (.value (.int 0)))
        havingAggs := [(0, .count none false)], havingKeys := [], havingVisit := [.agg 0 (.count none false)]
        limit := none, distinct := false }
    table := { name := "t", columns := ["k", "v"] }, join := none }

/-- `SELECT CASE WHEN a > 1 THEN upper(b) ELSE b END FROM t`: not fact-free (the call sits inside a CASE branch) -/
def exUpper : Query :=
  { exSelect with stmt := .select { projections := [("p0", .case [(.compare .gt (.column "a") (.value (.int 1)), .call .upper [.column "b"])] (.column "b"))],
                                     wildcard := false, filter := none, limit := none, distinct := false } }

/-- `SELECT now() FROM t` -/
def exNow : Query :=
  { exSelect with stmt := .select { projections := [("p0", .call .now [])], wildcard := false, filter := none,
                                     limit := none, distinct := false } }

example : exSelect.factFree = true := by decide
example : exAggregate.factFree = true := by decide
example : exUpper.factFree = false := by decide
example : exNow.factFree = false := by decide

/-- the hypothesis of `run_trichotomy` holds and both endings occur: records … -/
example : ending (runBatch {} exSelect [] [[{ readable := true, line := { text := [], row := [.int 2, .text [120]] } }]] none) = .output := by
  decide +kernel
/-- … or a reported error (`'x' > 1` is a type error) -/
example : ending (runBatch {} exSelect [] [[{ readable := true, line := { text := [], row := [.text [120], .text [120]] } }]] none) = .reported .typeError := by
  decide +kernel
/-- a statement that evaluates `now()` is skipped by the model under every oracle without a clock reading (every oracle
the driver builds: `now_skipped_iff`) … -/
example : ending (runBatch {} exNow [] [[{ readable := true, line := { text := [], row := [.int 2, .text [120]] } }]] none) = .skipped "now" := by
  decide +kernel
/-- … `upper` of an ASCII text needs no fact, of a non-ASCII text (`é`) it needs the shipped mapping -/
example : ending (runBatch {} exUpper [] [[{ readable := true, line := { text := [], row := [.int 2, .text [120]] } }]] none) = .output := by
  decide +kernel
example : ending (runBatch {} exUpper [] [[{ readable := true, line := { text := [], row := [.int 2, .text [195, 169]] } }]] none) = .skipped "upper" := by
  decide +kernel
example : ending (runBatch { upper := [([195, 169], [195, 137])] } exUpper [] [[{ readable := true, line := { text := [], row := [.int 2, .text [195, 169]] } }]] none) = .output := by
  decide +kernel

/-- a total oracle (non-vacuity of `Oracles.Total`): some total functions — the theorems hold for whichever functions
the libraries really are — and a clock reading -/
def exTotal : TotalOracles :=
  { upperF := fun s => s.map (fun b => if 97 ≤ b ∧ b ≤ 122 then b - 32 else b)
    lowerF := fun s => s
    regexF := fun v p => if p = [40] then none else some (v == p)      -- the pattern `(` is invalid
    nowF := .timestamp 739000 0 0 }

example : exTotal.oracles.Total := ⟨exTotal, rfl⟩
example : ({ upper := [([195, 169], [195, 137])], total := some exTotal } : Oracles).Total := ⟨exTotal, rfl⟩

/-- `SELECT regexp_matches(b, '(') FROM t`: an invalid pattern -/
def exRegex : Query :=
  { exSelect with stmt := .select { projections := [("p0", .call .regexMatches [.column "b", .value (.text [40])])],
                                     wildcard := false, filter := none, limit := none, distinct := false } }

-- under a total oracle the statements the driver's model skips end with records or a reported error
-- (`run_total_of_total_oracles`): `now()`, `upper` of a non-ASCII text, `regexp_matches` with an invalid pattern
example : ending (runBatch exTotal.oracles exNow [] [[{ readable := true, line := { text := [], row := [.int 2, .text [120]] } }]] none) = .output := by
  decide +kernel
example : ending (runBatch exTotal.oracles exUpper [] [[{ readable := true, line := { text := [], row := [.int 2, .text [195, 169]] } }]] none) = .output := by
  decide +kernel
example : ending (runBatch exTotal.oracles exRegex [] [[{ readable := true, line := { text := [], row := [.int 2, .text [120]] } }]] none) = .reported .invalidRegex := by
  decide +kernel
example : ending (runBatch {} exRegex [] [[{ readable := true, line := { text := [], row := [.int 2, .text [120]] } }]] none) = .skipped "regex" := by
  decide +kernel
example : exRegex.factFree = false := by decide

/-! ### `row[index]` sites

The engine indexes the extracted row of a line by the position of a column name among the table's names (join keys,
`create_columns_mapping`). The engine model reads rows with `getD … NULL` (`Model/Engine.lean` `lineEnvs`, `loadJoin`,
`columnsMapping`), which would hide an out-of-range index. It cannot occur: a lowered CREATE TABLE has one name per
column, the engine looks only at admitted rows (`executeLine` / `loadJoin` test `any_result` first), an admitted row has
one value per column, and the position of a name is a position of the row. -/

/-- the lemma behind the `row[index]` sites, about `extractRow` and the names `lowerCreate` produces ALONE: in an admitted
row of a lowered table the position of a column name is a position of the row, and the model's `getD … NULL` default is
not taken at it. It does not mention the engine: that the rows the engine is handed ARE such rows and the indices it
computes ARE such positions — i.e. that every `row[index]` site of the engine is in range — is the composed statement
`Props/C09Pipeline.engine_rows_and_indices_in_range` (over `Pipeline.runStatement`, with kernel examples). -/
theorem row_index_sites_in_range (rv : List Char → Bool) (c : PCreate) (n : String) (d : Extract.TableDef)
    (names : List String) (hlow : Lower.lowerCreate rv c = .ok (.createTable n d names))
    (o : Extract.Oracles) (lo : Extract.LineOracle) (hadm : Extract.anyResult (Extract.extractRow o d lo) = true)
    (col : String) (ki : Nat) (hk : indexOf? names col = some ki) :
    ∃ v, (Extract.extractRow o d lo)[ki]? = some v ∧ (Extract.extractRow o d lo).getD ki .null = v :=
  row_index_in_range names _
    ((admitted_row_full o d lo hadm).trans (lowerCreate_aligned rv c n d names hlow).symm) col ki hk

/-- a row that is not admitted is never indexed: the engines return before looking at it -/
theorem not_admitted_row_is_not_indexed (O : Oracles) (qy : Query) (idx : JoinIndex) (w : Bool) (es : EngineState)
    (l : Line) (h : anyResult l.row = false) :
    ∃ out, executeLine O qy idx w es l = .ok out := by
  unfold executeLine
  split <;> simp [h]

example (qy : Query) : Sqlgrep.NoPanicEngine.EInv qy {} := Sqlgrep.NoPanicEngine.EInv.init qy

end Sqlgrep.Props.C09
