import SqlgrepModel.Lemmas.SelectList
namespace Sqlgrep
open Sqlgrep.Spec.Select
set_option pp.explicit false
example (O : Oracles) (q : SelectStmt) (seen : List (List Value)) (env : Env) (keys : List String) :
    selectOne O q seen env keys = .ok (seen, none) := by
  unfold selectOne
  trace_state
  sorry
end Sqlgrep
