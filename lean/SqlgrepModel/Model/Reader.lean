import SqlgrepModel.Model.Text
/-
Readers: how bytes of files become the lines presented to the query.

* `lines`      — `std::io::BufRead::lines` over the whole content of a file (C12)
* `execFiles`  — the double loop of `FileExecutor::execute` (src/executor.rs) / the loop of the joined-file
                 loader (src/execution/join.rs), generic in the engine
* `Follow`     — `FollowFileIterator` (src/helpers.rs) over a `BufReader<File>` on a growing file, as a
                 small-step machine (C10)

Bytes are `Nat`s (as in `Sqlgrep.Utf8`); `10` is `\n`, `13` is `\r`.
-/
namespace Sqlgrep
namespace Reader

def nl : Nat := 10
def cr : Nat := 13

/-! ## UTF-8 validity of a chunk (`core::str::from_utf8(..).is_ok()`), tail recursive -/

open Utf8 in
def validUtf8 : List Nat → Bool
  | [] => true
  | b0 :: rest =>
    if b0 < 0x80 then validUtf8 rest
    else if b0 < 0xC2 then false
    else if b0 < 0xE0 then
      match rest with
      | b1 :: rest' => if isCont b1 then validUtf8 rest' else false
      | _ => false
    else if b0 < 0xF0 then
      match rest with
      | b1 :: b2 :: rest' =>
        let n := (b0 - 0xE0) * 4096 + (b1 - 0x80) * 64 + (b2 - 0x80)
        if isCont b1 && isCont b2 && 0x800 ≤ n && !(0xD800 ≤ n && n < 0xE000) then validUtf8 rest' else false
      | _ => false
    else if b0 < 0xF5 then
      match rest with
      | b1 :: b2 :: b3 :: rest' =>
        let n := (b0 - 0xF0) * 262144 + (b1 - 0x80) * 4096 + (b2 - 0x80) * 64 + (b3 - 0x80)
        if isCont b1 && isCont b2 && isCont b3 && 0x10000 ≤ n && n < 0x110000 then validUtf8 rest' else false
      | _ => false
    else false

/-! ## `BufRead::lines` -/

/-- `Lines::next` after `read_line` returned the chunk `chunk ++ (if terminated then "\n" else "")`:
`read_line` validates the appended bytes (newline included); then one `\n` is stripped and, only if a
`\n` was stripped, one `\r`. An invalid chunk yields `Err` (`InvalidData`). -/
def stripCr (l : List Nat) : List Nat :=
  if l.getLast? = some cr then l.dropLast else l

def finishLine (chunk : List Nat) (terminated : Bool) : Except Unit (List Nat) :=
  if terminated then
    if validUtf8 (chunk ++ [nl]) then .ok (stripCr chunk) else .error ()
  else
    if validUtf8 chunk then .ok chunk else .error ()

/-- the iterator: `cur` is the (reversed) content of the `String` that the running `read_line`
has collected so far; `Ok(0)` (nothing collected at EOF) ends the iteration; the iterator continues
after an `Err` item if asked. -/
def linesAux (cur : List Nat) : List Nat → List (Except Unit (List Nat))
  | [] => if cur = [] then [] else [finishLine cur.reverse false]
  | b :: bs =>
    if b = nl then finishLine cur.reverse true :: linesAux [] bs
    else linesAux (b :: cur) bs

def lines (bs : List Nat) : List (Except Unit (List Nat)) := linesAux [] bs

/-! ## `FileExecutor::execute`: files in order, lines in order; generic in the engine -/

inductive Status (ε : Type) where
  | ok                      -- `Ok(())`
  | readError               -- `Err(ExecutionError::FailReadFile(..))`
  | engineError (e : ε)     -- `execution_engine.execute(line, ..)?`
  deriving Repr, DecidableEq

/-- inner loop `for line in reader.lines()`: the engine state after the last successful line and how the loop ended -/
def feed {σ ε : Type} (step : σ → List Nat → Except ε σ) (s : σ) : List (Except Unit (List Nat)) → σ × Status ε
  | [] => (s, .ok)
  | .error _ :: _ => (s, .readError)
  | .ok l :: rest =>
    match step s l with
    | .ok s' => feed step s' rest
    | .error e => (s, .engineError e)

/-- outer loop `for reader in readers` (no LIMIT, not interrupted) -/
def execFiles {σ ε : Type} (step : σ → List Nat → Except ε σ) (s : σ) : List (List Nat) → σ × Status ε
  | [] => (s, .ok)
  | f :: fs =>
    match feed step s (lines f) with
    | (s', .ok) => execFiles step s' fs
    | r => r

/-- the engine that records what it is given -/
def record (seen : List (List Nat)) (l : List Nat) : Except Empty (List (List Nat)) := .ok (seen ++ [l])

/-- the lines presented to the query by a batch run over `files`, and whether the run ended in a read error -/
def presented (files : List (List Nat)) : List (List Nat) × Status Empty := execFiles record [] files

/-! ## `FollowFileIterator` over `BufReader<File>` on an append-only file -/

structure Follow where
  file : List Nat                 -- content of the followed file (append-only)
  pos : Nat                       -- file offset of the reader's descriptor
  buf : List Nat                  -- bytes fetched by `BufReader` and not yet consumed
  cap : Nat                       -- `BufReader` capacity
  acc : List Nat                  -- `FollowFileIterator.line`
  delivered : List (List Nat)     -- items returned by `next` so far (bytes of each `String`)
  start : Nat                     -- offset the reader was positioned at by `FollowFileExecutor::new`
  retries : Nat                   -- times the retry point (hook) was reached
  deriving Repr

inductive Op where
  | append (bs : List Nat)        -- the writer appends
  | poll (k : Nat)                -- one round of `read_until`'s loop; the `read` returns at most `k+1` bytes
  deriving Repr

/-- `FollowFileExecutor::new`: `seek(Start(0))` with `--head`, else `seek(End(0))` -/
def Follow.init (file : List Nat) (head : Bool) (cap : Nat) : Follow :=
  let p := if head then 0 else file.length
  { file := file, pos := p, buf := [], cap := cap, acc := [], delivered := [], start := p, retries := 0 }

/-- split at the first newline: bytes before it and, if there is one, the bytes after it (`memchr`) -/
def cut : List Nat → List Nat × Option (List Nat)
  | [] => ([], none)
  | b :: bs => if b = nl then ([], some bs) else
      let r := cut bs; (b :: r.1, r.2)

/-- `BufReader::fill_buf`: reads from the file only when the buffer is empty, at most `cap` bytes
(a short read of `k+1` bytes is allowed) -/
def fill (s : Follow) (k : Nat) : Follow :=
  if s.buf = [] then
    let chunk := (s.file.drop s.pos).take (min (k + 1) s.cap)
    { s with buf := chunk, pos := s.pos + chunk.length }
  else s

def endsWithNl (l : List Nat) : Bool := l.getLast? == some nl

/-- `read_until` has returned `Ok`; `next` looks at `self.line` -/
def afterRead (s : Follow) : Follow :=
  if endsWithNl s.acc then
    -- `self.line.pop(); return Some(from_utf8_lossy(take(&mut self.line)))`
    { s with delivered := s.delivered ++ [s.acc.dropLast], acc := [] }
  else
    -- retry point (hook), then `continue`
    { s with retries := s.retries + 1 }

/-- body of `read_until`'s loop on the available bytes -/
def consume (s : Follow) : Follow :=
  match s.buf with
  | [] => afterRead s                                    -- `fill_buf` returned an empty slice: EOF
  | _ :: _ =>
    match cut s.buf with
    | (pre, some rest) => afterRead { s with acc := s.acc ++ pre ++ [nl], buf := rest }
    | (pre, none) => { s with acc := s.acc ++ pre, buf := [] }    -- no newline yet: loop

def step (s : Follow) : Op → Follow
  | .append bs => { s with file := s.file ++ bs }
  | .poll k => consume (fill s k)

def run (s : Follow) (ops : List Op) : Follow := ops.foldl step s

/-- A schedule as the harness drives it: the reader polls (full reads) until the retry point; there the
hook performs the next append, or ends the iteration when none is left. -/
def drive : Nat → Follow → List (List Nat) → Follow
  | 0, s, _ => s
  | fuel + 1, s, chunks =>
    let s' := step s (.poll (s.cap - 1))
    if s.retries < s'.retries then
      match chunks with
      | [] => s'
      | c :: cs => drive fuel (step s' (.append c)) cs
    else drive fuel s' chunks

def driveFuel (s : Follow) (chunks : List (List Nat)) : Nat :=
  s.file.length + (chunks.map List.length).sum + chunks.length + 2

end Reader
end Sqlgrep
