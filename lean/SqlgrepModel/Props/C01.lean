import SqlgrepModel.Lemmas.ExtractRow
import SqlgrepModel.Lemmas.ParseLit
import SqlgrepModel.Lemmas.ParseLitMore
import SqlgrepModel.Lemmas.Timestamp
import SqlgrepModel.Lemmas.FloatGrammar
/-
C01 — regex/split extraction yields exactly the captured, typed column values.

Model: `Extract.extractRow` (`TableDefinition::extract` with `ParsingInput::new`, `ColumnParsing::extract`,
`extract_using_regex`, `ValueType::parse`, `create_timestamp`), mirroring /repo HEAD. Specification:
`Extract.specColumn` (Model/ExtractSpec.lean) — the property sentence as a function of the column's own
definition and of the texts of the groups it references.

All theorems hold for every table definition, every line and *every* answer of the external libraries
(`LineOracle`: what `regex` captured / split and what `serde_json` parsed; `Oracles.parseF64`: `f64::from_str`).
Only this file states property theorems; helper lemmas live in `Lemmas/`.
-/
namespace Sqlgrep.Props.C01
open Sqlgrep Sqlgrep.Extract Sqlgrep.Lit

/-- **extract_column_spec.** If no NOT NULL column is NULL, the row the query sees holds for *each* column exactly
the specified value: the referenced group's text converted to the declared type, NULL/DEFAULT when pattern or group
did not take part, NULL when not a literal, BOOLEAN = existence, TRIM applied, arrays / timestamps position by position. -/
theorem extract_column_spec (o : Oracles) (d : TableDef) (lo : LineOracle)
    (hkeep : ¬ cutBy o (ParsingInput.new d lo) d.columns) :
    extractRow o d lo = d.columns.map (fun c => specColumn o c (ParsingInput.new d lo)) := by
  unfold extractRow
  rw [extractWith_kept o d _ hkeep]
  exact List.map_congr_left (fun c _ => columnValue_eq_spec o c _)

/-- the same, per column index -/
theorem extract_column_spec_at (o : Oracles) (d : TableDef) (lo : LineOracle)
    (hkeep : ¬ cutBy o (ParsingInput.new d lo) d.columns) (i : Nat) (c : Column) (hc : d.columns[i]? = some c) :
    (extractRow o d lo)[i]? = some (specColumn o c (ParsingInput.new d lo)) := by
  rw [extract_column_spec o d lo hkeep, List.getElem?_map, hc]
  rfl

/-- **notnull_cut_iff.** The column loop is cut exactly when some NOT NULL column is NULL; a cut row is empty,
a kept row has one value per column. -/
theorem notnull_cut_iff (o : Oracles) (d : TableDef) (lo : LineOracle) :
    (extractLoop o (ParsingInput.new d lo) d.columns = none ↔
      ∃ c ∈ d.columns, c.options.nullable = false ∧ (specColumn o c (ParsingInput.new d lo)).isNull = true) ∧
    (cutBy o (ParsingInput.new d lo) d.columns → extractRow o d lo = []) ∧
    (¬ cutBy o (ParsingInput.new d lo) d.columns → (extractRow o d lo).length = d.columns.length) := by
  refine ⟨?_, ?_, ?_⟩
  · rw [extractLoop_none_iff]
    simp only [columnValue_eq_spec]
  · intro h; exact extractWith_cut o d _ h
  · intro h
    rw [extract_column_spec o d lo h, List.length_map]

/-- **extract_noninterference.** Column `i` depends on its own definition and on the patterns it names, on nothing
else: two definitions that have the same column at position `i` and the same patterns *under the names that column
references* (other patterns and all other columns arbitrary) give the same value at `i` for every line. A value is
therefore never taken from another group, another column or a pattern the column does not reference; "another line"
is impossible because `extractRow` is a function of one line's oracle answers only. -/
theorem extract_noninterference (o : Oracles) (d d' : TableDef) (lo : LineOracle) (i : Nat) (c : Column)
    (hc : d.columns[i]? = some c) (hc' : d'.columns[i]? = some c)
    (hp : ∀ r ∈ c.refs, d.patterns.filter (fun p => r.pattern == p.name) =
                          d'.patterns.filter (fun p => r.pattern == p.name))
    (hk : ¬ cutBy o (ParsingInput.new d lo) d.columns) (hk' : ¬ cutBy o (ParsingInput.new d' lo) d'.columns) :
    (extractRow o d lo)[i]? = (extractRow o d' lo)[i]? := by
  rw [extract_column_spec_at o d lo hk i c hc, extract_column_spec_at o d' lo hk' i c hc']
  have hm : c ∈ d.columns := List.mem_of_getElem? hc
  have hm' : c ∈ d'.columns := List.mem_of_getElem? hc'
  have := columnValue_two_defs o d d' lo c hm hm' hp
  rw [columnValue_eq_spec, columnValue_eq_spec] at this
  rw [this]

/-- what a reference sees is decided by the patterns of that name only (the last one that took part) -/
theorem reference_sees_own_patterns (d d' : TableDef) (lo : LineOracle) (name : Text)
    (h : d.patterns.filter (fun p => name == p.name) = d'.patterns.filter (fun p => name == p.name)) :
    List.lookup name (ParsingInput.new d lo).regex = List.lookup name (ParsingInput.new d' lo).regex :=
  lookup_new_congr d d' lo name h

/-- **parseI64_exact.** `parseI64 s = some n` iff `s` is an optional sign followed by at least one ASCII digit,
denotes `n`, and `-2^63 ≤ n < 2^63`: an INT is never truncated, wrapped or re-typed. -/
theorem parseI64_exact (s : Text) (n : Int) :
    parseI64 s = some n ↔ IsIntLiteral s n ∧ -2 ^ 63 ≤ n ∧ n < 2 ^ 63 :=
  Lit.parseI64_exact s n

/-- the decimal rendering of every 64-bit integer is read back as that integer -/
theorem parseI64_render (n : Int) (h : -2 ^ 63 ≤ n ∧ n < 2 ^ 63) : parseI64 (renderInt n) = some n :=
  Lit.parseI64_render n h

/-- positional value of a digit string (what "denotes" means in `IsIntLiteral`) -/
theorem digits_positional (ds : List Nat) (b : Nat) : digitsVal (ds ++ [b]) = digitsVal ds * 10 + (b - 48) :=
  Lit.digitsVal_append_singleton ds b

/-! ### the other literal forms ("NULL when the text is not a literal of that type")

`parseI64_exact` says what an INT literal is; these say it for BOOLEAN texts (CONVERT / JSON strings), INTERVAL and the
month names a TIMESTAMP column accepts for its second part; `real_literal_exact` says it for REAL texts (`f64::from_str`,
computed by `DecFloat.parseF64N` and formalised as the grammar `Spec/FloatGrammar.lean`). TIMESTAMP literals:
`timestamp_exists_iff` above for the parts, `Lemmas/Timestamp.lean` for the text form. -/

/-- **real_literal_exact (REAL column text → value).** With the computed `f64::from_str` (`Oracles.computed`, what the
driver uses whenever a case ships no fact), the text `cs` of a group — handed over as its UTF-8 bytes — is a REAL literal
with the value `b` exactly when `cs` is a `Float` of the grammar of Rust's `f64::from_str`
(optional sign; digits with an optional point, at least one digit; optional exponent; or `inf` /
`infinity` / `nan` in any letter case; nothing around it) and `b` is the REAL of its denotation — the decimal rounded to
the nearest REAL, ties to even, `inf` on overflow (`DecFloat.bitsOf`, `DecFloat.decToF64_nearest`); every other text is
"not a literal of that type" (NULL). Never a truncated or re-typed value: `1e400` is `inf`, `1e-400` is `0`,
`0.1` is the REAL nearest to one tenth.

The denotation is the documented one (`FloatGrammar.FloatD`: every digit string by its mathematical value) for every text
whose exponent digits' value is below 65 536 (`FloatGrammar.ExpSmall`, decidable on the text) — third conjunct. For ANY
text it is Rust's (`FloatGrammar.FloatR`, first conjunct): std stops accumulating exponent digits at `0x10000`
(observation N3 of DESIGN.md), so a REAL column fed `0.` + 65 299 zeros + `1e655360` holds 1e236, Rust's value, although
the text denotes 1e590060 — "never silently altered" is strained by std there, not by sqlgrep; texts shorter than
≈ 65 000 characters are unaffected (capped and exact exponent both give `±0` / `±inf`). Which texts are literals never
depends on the reading (second conjunct). -/
theorem real_literal_exact (cs : List Char) :
    (∀ b, parseValue Oracles.computed .real (Utf8.encode cs) = some (.real b) ↔
      ∃ v, FloatGrammar.FloatR cs v ∧ DecFloat.bitsOf v = b) ∧
    (parseValue Oracles.computed .real (Utf8.encode cs) = none ↔ ¬ ∃ v, FloatGrammar.FloatD cs v) ∧
    (FloatGrammar.ExpSmall cs →
      ∀ b, parseValue Oracles.computed .real (Utf8.encode cs) = some (.real b) ↔
        ∃ v, FloatGrammar.FloatD cs v ∧ DecFloat.bitsOf v = b) := by
  have key : ∀ b, DecFloat.parseF64N (Utf8.encode cs) = some b ↔ ∃ v, FloatGrammar.FloatR cs v ∧ DecFloat.bitsOf v = b :=
    DecFloat.parseF64N_utf8_iff_rust cs
  have first : ∀ b, parseValue Oracles.computed .real (Utf8.encode cs) = some (.real b) ↔
      ∃ v, FloatGrammar.FloatR cs v ∧ DecFloat.bitsOf v = b := by
    intro b
    rw [← key b]
    simp only [parseValue, Oracles.computed]
    cases DecFloat.parseF64N (Utf8.encode cs) <;> simp
  refine ⟨first, ?_, ?_⟩
  · rw [← DecFloat.parseF64N_utf8_none_iff]
    simp only [parseValue, Oracles.computed]
    cases hp : DecFloat.parseF64N (Utf8.encode cs) <;> simp
  · intro hs b
    rw [first b]
    exact ⟨fun ⟨v, hv, hb⟩ => ⟨v, (DecFloat.floatR_iff_floatD hs v).1 hv, hb⟩,
      fun ⟨v, hv, hb⟩ => ⟨v, (DecFloat.floatR_iff_floatD hs v).2 hv, hb⟩⟩

/-- a BOOLEAN literal is exactly `true` or `false` (lower case, nothing around it) -/
theorem parseBool_exact (s : Text) (b : Bool) :
    parseBool s = some b ↔ (b = true ∧ s = [116, 114, 117, 101]) ∨ (b = false ∧ s = [102, 97, 108, 115, 101]) :=
  Lit.parseBool_iff s b

/-- **INTERVAL literals** are exactly the texts `h:m:s` of three INT literals (`IsIntLiteral`, via `parseI64_exact`)
separated by two colons, whose parts and partial sums stay inside chrono's range; the value is the exact number of
nanoseconds `(3600 h + 60 m + s) · 10⁹` — never rounded, wrapped or re-typed -/
theorem parseInterval_exact (s : Text) (v : Value) :
    parseInterval s = some v ↔
      ∃ a b c h m sec, s = a ++ 58 :: (b ++ 58 :: c) ∧ (58 : Nat) ∉ a ∧ (58 : Nat) ∉ b ∧ (58 : Nat) ∉ c ∧
        parseI64 a = some h ∧ parseI64 b = some m ∧ parseI64 c = some sec ∧
        deltaOk (h * 3600) = true ∧ deltaOk (m * 60) = true ∧ deltaOk (h * 3600 + m * 60) = true ∧ deltaOk sec = true ∧
        deltaOk (h * 3600 + m * 60 + sec) = true ∧
        v = .interval ((h * 3600 + m * 60 + sec) * 1000000000) :=
  Lit.parseInterval_iff s v

/-- a month name is an ASCII text whose lower case is one of the fifteen spellings of `monthTable`, and it denotes a
month between 1 and 12 -/
theorem monthOfName_exact (s : Text) (m : Nat) :
    monthOfName s = some m ↔ isAscii s = true ∧ (asciiLower s, m) ∈ monthTable :=
  Lit.monthOfName_iff s m

theorem monthOfName_range (s : Text) (m : Nat) (h : monthOfName s = some m) : 1 ≤ m ∧ m ≤ 12 :=
  Lit.monthTable_range _ ((Lit.monthOfName_iff s m).1 h).2

/-- **timestamp_faithful.** If `create_timestamp` yields a timestamp, its civil fields are exactly the parts put in:
no part is ever a different number from the captured one. -/
theorem timestamp_faithful (y : Int) (mo dd h mi s us : Nat) (t : Value)
    (hm : mkTimestamp y mo dd h mi s us = some t) :
    tsFields t = some { year := y, month := mo, day := dd, hour := h, minute := mi, second := s, micro := us } :=
  mkTimestamp_fields y mo dd h mi s us t hm

/-- a timestamp exists iff the parts form a valid civil time (Gregorian date within chrono's years, h<24, m<60,
s<60, µs<10^6 or the leap-second form s=59 ∧ µs<2·10^6) -/
theorem timestamp_exists_iff (y : Int) (mo dd h mi s us : Nat) :
    (mkTimestamp y mo dd h mi s us).isSome = true ↔
      Civil.validDate y mo dd = true ∧ us * 1000 < 4294967296 ∧ Civil.validTimeNano h mi s (us * 1000) = true := by
  cases hm : mkTimestamp y mo dd h mi s us with
  | some t =>
    have := (mkTimestamp_some_iff y mo dd h mi s us t).1 hm
    simp [this.1, this.2.1, this.2.2.1]
  | none =>
    simp only [Option.isSome_none, Bool.false_eq_true, false_iff]
    intro h'
    have := (mkTimestamp_some_iff y mo dd h mi s us _).2 ⟨h'.1, h'.2.1, h'.2.2, rfl⟩
    rw [hm] at this
    cases this

/-- a part that does not fit its field *as an integer* (year: i32, others: u32, scaled fraction: u32) gives the
DEFAULT (NULL if none is declared) — it is never wrapped into range -/
theorem timestamp_part_out_of_range (c : Column) (n : Int) (rest : List PartVal) (idx : Nat) (p : TsParts)
    (h : setPart c.options.microseconds idx n p = none) :
    specTsFrom c (.num n :: rest) idx p = c.defaultValue := by
  simp only [specTsFrom, h]

/-- `setPart` fails exactly on integers outside the field's range -/
theorem setPart_none_iff (micros : Bool) (idx : Nat) (n : Int) (p : TsParts) :
    setPart micros idx n p = none ↔
      (idx = 0 ∧ ¬(-2147483648 ≤ n ∧ n ≤ 2147483647)) ∨
      (idx ≠ 0 ∧ ¬(0 ≤ n ∧ n ≤ 4294967295)) ∨
      (idx = 6 ∧ micros = false ∧ 0 ≤ n ∧ n ≤ 4294967295 ∧ 4294967295 < n.toNat * 1000) := by
  unfold setPart fitsI32 fitsU32
  rcases idx with _|_|_|_|_|_|_|k <;> simp <;> (try split) <;> (try split) <;> simp_all <;> omega

/-- **bool_is_existence.** A BOOLEAN column over a pattern that took part is TRUE iff the group took part. -/
theorem bool_is_existence (o : Oracles) (c : Column) (inp : ParsingInput) (r : Ref)
    (hp : c.parsing = .regex r) (ht : c.type = .bool) (hpres : patternPresent inp r = true) :
    columnValue o c inp = .bool (groupText inp r).isSome := by
  rw [columnValue_eq_spec]
  unfold specColumn
  rw [hp]
  simp only [ht]
  unfold specScalar
  simp only [hpres, Bool.not_true, Bool.false_eq_true, if_false, beq_self_eq_true, if_true]
  unfold applyTrim
  split <;> rfl

/-- **trim_is_trim.** TRIM replaces a TEXT value by `str::trim` of it and touches nothing else. -/
theorem trim_is_trim (c : Column) (v : Value) :
    (c.options.trim = true → ∀ s, v = .text s → applyTrim c v = .text (trim s)) ∧
    (c.options.trim = false → applyTrim c v = v) ∧
    ((∀ s, v ≠ .text s) → applyTrim c v = v) := by
  refine ⟨?_, ?_, ?_⟩
  · intro h s hv; subst hv; simp [applyTrim, h]
  · intro h; simp [applyTrim, h]
  · intro h
    unfold applyTrim
    split
    · split
      · rename_i s; exact absurd rfl (h s)
      · rfl
    · rfl

/-- **array_positionwise.** An array column holds, position by position, the value of its `k`-th listed group
(NULL element when that group is absent or not a literal); it is DEFAULT only when every element is NULL. -/
theorem array_positionwise (o : Oracles) (c : Column) (inp : ParsingInput) (rs : List Ref) (e : VType)
    (hp : c.parsing = .multi rs) (ht : c.type = .array e) :
    (((rs.map (fun r => specScalar o e inp r .null)).all Value.isNull = false) →
        columnValue o c inp = .array e (rs.map (fun r => specScalar o e inp r .null))) ∧
    (((rs.map (fun r => specScalar o e inp r .null)).all Value.isNull = true) →
        columnValue o c inp = c.defaultValue ∨ ∃ s, c.defaultValue = .text s ∧ columnValue o c inp = .text (trim s)) := by
  rw [columnValue_eq_spec]
  unfold specColumn
  rw [hp]
  simp only [ht]
  constructor
  · intro h
    simp only [h, Bool.false_eq_true, if_false]
    unfold applyTrim
    split <;> rfl
  · intro h
    simp only [h, if_true]
    unfold applyTrim
    split
    · split
      · rename_i s hs; right; exact ⟨s, hs, rfl⟩
      · left; rfl
    · left; rfl


/-- which pattern a reference means: the *last* pattern of that name that took part on the line (a capture pattern
takes part iff it matches; a split pattern always does, with the whole line as field 0) -/
theorem reference_binding (d : TableDef) (lo : LineOracle) (name : Text) :
    List.lookup name (ParsingInput.new d lo).regex = lastNamed lo name d.patterns :=
  lookup_new d lo name

/-- **timestamp column, position by position.** If every listed part denotes an integer that fits its field and the
stored parts form a valid civil time, the column *is* that timestamp. -/
theorem timestamp_of_parts (c : Column) (parts : List PartVal) (p' : TsParts) (t : Value)
    (hs : storeParts c.options.microseconds parts 0 {} = some p')
    (hm : mkTimestamp p'.year p'.month p'.day p'.hour p'.minute p'.second p'.micro = some t) :
    specTsFrom c parts 0 {} = t :=
  specTsFrom_of_stored c parts 0 {} p' t hs hm

/-- Conversely (no DEFAULT declared) a non-NULL TIMESTAMP column means: every listed part was present and denoted an
integer within its field, and the timestamp's civil fields are exactly the stored parts — unlisted fields keep
year 0 / month 1 / day 1 / 00:00:00.0. A missing, non-numeric or out-of-range part never yields a timestamp. -/
theorem timestamp_column_faithful (c : Column) (hd : c.defaultValue = .null) (parts : List PartVal)
    (h : (specTsFrom c parts 0 {}).isNull = false) :
    ∃ p', storeParts c.options.microseconds parts 0 {} = some p' ∧
      tsFields (specTsFrom c parts 0 {}) = some p' := by
  obtain ⟨p', h1, _, h3⟩ := specTsFrom_nonnull c hd parts 0 {} h
  exact ⟨p', h1, h3⟩

/-- `str::trim` (model): the result is a contiguous piece of the text, nothing but a prefix and a suffix is removed,
the prefix removal stops at the first and the suffix removal at the last non-whitespace character -/
theorem trim_removes_only_ends (s : Text) :
    (∃ l r, s = l ++ trim s ++ r) ∧ wsSuffixRev (trim s).reverse = 0 ∧
    (∃ r, trimStart s = trim s ++ r) ∧ wsPrefix (trimStart s) = 0 :=
  Lit.trim_spec s

/-! ### non-vacuity: the hypotheses are satisfiable and the functions compute on concrete inputs -/

/-- `line = split ';', line[1] => a INT NOT NULL, line[2] => b TEXT TRIM, line[3] => c BOOLEAN, line[4] => d INT DEFAULT 7` -/
def exDef : TableDef :=
  { patterns := [{ name := [108], regex := [59], mode := .split }],
    columns := [
      { parsing := .regex { pattern := [108], group := 1 }, type := .int, options := { nullable := false } },
      { parsing := .regex { pattern := [108], group := 2 }, type := .text, options := { trim := true } },
      { parsing := .regex { pattern := [108], group := 3 }, type := .bool },
      { parsing := .regex { pattern := [108], group := 4 }, type := .int, options := { default := some (.int 7) } } ] }

def exOracles : Oracles := { parseF64 := fun _ => none }

/-- the line `-12; x ` (fields `-12`, ` x `) -/
def exLine : LineOracle :=
  { line := [45, 49, 50, 59, 32, 120, 32], captures := fun _ => none, split := fun _ => [[45, 49, 50], [32, 120, 32]], json := none }

/-- the line `abc;y`: the NOT NULL column is not a literal -/
def exLineCut : LineOracle :=
  { line := [97, 98, 99, 59, 121], captures := fun _ => none, split := fun _ => [[97, 98, 99], [121]], json := none }

example : extractRow exOracles exDef exLine = [.int (-12), .text [120], .bool false, .int 7] := by rfl
example : admitted exOracles exDef exLine = true := by decide
example : extractRow exOracles exDef exLineCut = [] := by decide
example : ¬ cutBy exOracles (ParsingInput.new exDef exLine) exDef.columns := by
  intro ⟨c, hm, hn, hv⟩
  simp only [exDef, List.mem_cons, List.mem_nil_iff, or_false] at hm
  rcases hm with rfl | rfl | rfl | rfl
  · revert hv; decide
  · cases hn
  · cases hn
  · cases hn
example : cutBy exOracles (ParsingInput.new exDef exLineCut) exDef.columns :=
  ⟨_, List.mem_cons_self, rfl, by decide⟩
example : parseI64 [45, 57, 50, 50, 51, 51, 55, 50, 48, 51, 54, 56, 53, 52, 55, 55, 53, 56, 48, 56] = some (-9223372036854775808) := by decide
example : parseI64 [57, 50, 50, 51, 51, 55, 50, 48, 51, 54, 56, 53, 52, 55, 55, 53, 56, 48, 56] = none := by decide
example : mkTimestamp 2020 2 29 23 59 59 1999999 = some (.timestamp 737484 86399 1999999000) := by rfl
example : mkTimestamp 2021 2 29 0 0 0 0 = none := by decide
example : setPart false 1 4294967297 {} = none := by decide
example : setPart false 6 9999999 {} = none := by decide
example : monthOfName [83, 69, 80, 84] = some 9 := by decide
example : parseInterval [45, 49, 58, 48, 50, 58, 43, 51] = some (.interval (-3477000000000)) := by rfl
example : parseInterval [49, 58, 50] = none ∧ parseInterval [49, 58, 50, 58, 51, 58, 52] = none ∧ parseInterval [49, 58, 58, 51] = none := ⟨rfl, rfl, rfl⟩
example : parseBool [84, 114, 117, 101] = none := by decide
example : storeParts false [.num 2020, .num 2, .num 29] 0 {} = some { year := 2020, month := 2, day := 29 } := by decide
example : (specTsFrom { parsing := .multi [], type := .timestamp } [.num 2020, .num 2, .num 29] 0 {}).isNull = false := by decide
example : specTsFrom { parsing := .multi [], type := .timestamp } [.num 2020, .absent, .num 29] 0 {} = .null := by rfl
example : specTsFrom { parsing := .multi [], type := .timestamp } [.num 2020, .num 4294967297, .num 29] 0 {} = .null := by rfl
example : trim [32, 0xC2, 0xA0, 97, 32, 98, 0xE3, 0x80, 0x80, 9] = [97, 32, 98] := by decide
-- REAL texts (`real_literal_exact`): `-1.5e3` is a `Float` denoting `-15 · 10^2`; `1,5` and `٣` (a non-ASCII digit) are not literals
example : FloatGrammar.FloatD "-1.5e3".toList (.dec true 15 2) :=
  .number (sg := ['-']) (body := "1.5e3".toList) .minus
    (FloatGrammar.NumberDV.point (ip := ['1']) (fp := ['5']) (e := ['e', '3']) (ev := 3) (by decide) (by decide)
      (Or.inl (by decide)) (FloatGrammar.ExpDV.some (sg := []) (ds := ['3']) (neg := false) (Or.inl rfl) .none (by decide)))
example : DecFloat.parseF64N (Utf8.encode "-1.5e3".toList) = some 0xc097700000000000
    ∧ DecFloat.bitsOf (.dec true 15 2) = 0xc097700000000000 := by decide +kernel
example : parseValue Oracles.computed .real (Utf8.encode "-1.5e3".toList) = some (.real 0xc097700000000000) := by
  have : DecFloat.parseF64N (Utf8.encode "-1.5e3".toList) = some 0xc097700000000000 := by decide +kernel
  simp only [parseValue, Oracles.computed, this, Option.map_some]
-- the hypothesis `ExpSmall` of the third conjunct of `real_literal_exact` (exponent digits' value below 65 536)
example : FloatGrammar.ExpSmall "-1.5e3".toList ∧ FloatGrammar.ExpSmall "1e-400".toList ∧ ¬ FloatGrammar.ExpSmall "1e655360".toList := by
  decide
example : DecFloat.parseF64N (Utf8.encode "1,5".toList) = none ∧ DecFloat.parseF64N (Utf8.encode "٣".toList) = none
    ∧ DecFloat.parseF64N (Utf8.encode " 1".toList) = none := by decide +kernel

end Sqlgrep.Props.C01
