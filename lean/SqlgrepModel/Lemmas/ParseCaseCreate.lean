import SqlgrepModel.Lemmas.ParseRename
import SqlgrepModel.Model.ParseStmt
import SqlgrepModel.Lemmas.ParseJson
/-
CREATE TABLE texts and the letter case of type names, pattern modes and column options — PER OCCURRENCE.

`parse_create_table` reads an identifier token in two ways: as a NAME that goes into the tree verbatim (the table, a
pattern, a column, a JSON field) or through its lower-cased spelling only (`parse_type`: the column's type;
`parse_regex_mode`: `split` / `match`; `parse_define_column`: the options `trim` / `convert` / `microseconds`).
Which of the two is decided by the two tokens in front of the identifier (`caseFreeAfter`): the identifier follows `=`
(mode), follows `=> name` (type), or follows the type (`name TYPE` or `]`: option).

`caseVariantFrom p2 p1 ts₁ ts₂` : the token lists have the same length and locations and are equal token by token,
except that an identifier of `ts₁` in such a position may be replaced by ANY identifier with the same lower-cased
spelling — each occurrence on its own (`p2 p1` = the two tokens in front of the lists).

This file: a successful run of every function of the CREATE TABLE path on the first list is a successful run on the
second with the SAME value (`…_var`). The one call into the expression parser is `DEFAULT <primary>`, whose result
must be a literal value: `value_var` (a run of `parseExpr` / `parseUnary` / `parsePrimary` that returns a `.value`
node read brackets and one literal token, and so does the run on the variant).
-/
namespace Sqlgrep

def Tok.isIdent : Tok → Bool
  | .ident _ => true
  | _ => false

/-- the identifier behind the tokens `p2 p1` of a CREATE TABLE text is read lower-cased only: behind `=` (the pattern
mode), behind `=> name` (the column's type), behind `name TYPE` or `]` (the column option) -/
def caseFreeAfter (p2 p1 : Tok) : Bool :=
  decide (p1 = .op (.single '=')) || decide (p1 = .rsq) || (p1.isIdent && (decide (p2 = .rarrow) || p2.isIdent))

/-- two identifiers with the same lower-cased spelling -/
def Tok.sameLower : Tok → Tok → Bool
  | .ident i, .ident j => decide (lowerChars i = lowerChars j)
  | _, _ => false

/-- the same token, or — where `free` — an identifier respelled by a change of letter case -/
def Tok.caseVar (free : Bool) (a b : Tok) : Bool := decide (a = b) || (free && a.sameLower b)

/-- see the head of the file -/
def caseVariantFrom : Tok → Tok → List PTok → List PTok → Bool
  | _, _, [], [] => true
  | p2, p1, a :: as, b :: bs =>
    decide (a.loc = b.loc) && Tok.caseVar (caseFreeAfter p2 p1) a.tok b.tok && caseVariantFrom p1 a.tok as bs
  | _, _, _, _ => false

namespace Parse

/-- the parser states `s` (first vector) and `s₂` (variant) at the same index, behind the tokens `p2 p1` -/
def StV (p2 p1 : Tok) (s s₂ : PSt) : Prop := caseVariantFrom p2 p1 (s.cur :: s.rest) (s₂.cur :: s₂.rest) = true

/-- … behind whatever tokens -/
def RelV (s s₂ : PSt) : Prop := ∃ q2 q1, StV q2 q1 s s₂

theorem Tok.caseVar_cases {f : Bool} {a b : Tok} (h : Tok.caseVar f a b = true) :
    a = b ∨ (f = true ∧ ∃ i j, a = .ident i ∧ b = .ident j ∧ lowerChars i = lowerChars j) := by
  unfold Tok.caseVar at h
  simp only [Bool.or_eq_true, decide_eq_true_eq, Bool.and_eq_true] at h
  rcases h with h | ⟨hf, hl⟩
  · exact .inl h
  · right
    refine ⟨hf, ?_⟩
    cases a <;> cases b <;> simp [Tok.sameLower] at hl
    exact ⟨_, _, rfl, rfl, hl⟩

variable {p2 p1 : Tok} {s s₂ : PSt}

theorem StV.unfold (h : StV p2 p1 s s₂) :
    s.cur.loc = s₂.cur.loc ∧ Tok.caseVar (caseFreeAfter p2 p1) s.cur.tok s₂.cur.tok = true ∧
      caseVariantFrom p1 s.cur.tok s.rest s₂.rest = true := by
  simpa [StV, caseVariantFrom, Bool.and_eq_true, and_assoc] using h

theorem StV.rel (h : StV p2 p1 s s₂) : RelV s s₂ := ⟨_, _, h⟩

theorem StV.loc (h : StV p2 p1 s s₂) : s₂.cur.loc = s.cur.loc := h.unfold.1.symm

/-- a token that is no identifier is the same token in the variant -/
theorem StV.tok_nonident (h : StV p2 p1 s s₂) (hn : ∀ n, s.cur.tok ≠ .ident n) : s₂.cur.tok = s.cur.tok := by
  rcases Tok.caseVar_cases h.unfold.2.1 with e | ⟨_, i, _, hi, _⟩
  · exact e.symm
  · exact absurd hi (hn i)

/-- an identifier is an identifier with the same lower-cased spelling in the variant — the same identifier where the
position is not case-free -/
theorem StV.tok_ident (h : StV p2 p1 s s₂) {n : List Char} (hi : s.cur.tok = .ident n) :
    ∃ m, s₂.cur.tok = .ident m ∧ lowerChars m = lowerChars n ∧ (caseFreeAfter p2 p1 = false → m = n) := by
  rcases Tok.caseVar_cases h.unfold.2.1 with e | ⟨hf, i, j, hi', hj, hl⟩
  · exact ⟨n, by rw [← e, hi], rfl, fun _ => rfl⟩
  · rw [hi] at hi'
    cases hi'
    exact ⟨j, hj, hl.symm, fun hc => by rw [hc] at hf; cases hf⟩

/-- tests against a token that is no identifier come out alike -/
theorem StV.tok_eq (h : StV p2 p1 s s₂) {X : Tok} (hX : ∀ n, X ≠ .ident n) : (s₂.cur.tok = X) = (s.cur.tok = X) := by
  rcases Tok.caseVar_cases h.unfold.2.1 with e | ⟨_, i, j, hi, hj, _⟩
  · rw [e]
  · rw [hi, hj]
    apply propext
    constructor
    · intro e; exact absurd e.symm (hX _)
    · intro e; exact absurd e.symm (hX _)

theorem StV.step (h : StV p2 p1 s s₂) {u : Unit} {s' : PSt} (hn : next s = .ok u s') :
    ∃ s₂', next s₂ = .ok () s₂' ∧ StV p1 s.cur.tok s' s₂' := by
  have h3 := h.unfold.2.2
  unfold next at hn ⊢
  cases hr : s.rest with
  | nil => rw [hr] at hn; cases hn
  | cons t r =>
    rw [hr] at hn h3
    cases hn
    cases hr2 : s₂.rest with
    | nil => rw [hr2] at h3; simp [caseVariantFrom] at h3
    | cons t₂ r₂ =>
      rw [hr2] at h3
      exact ⟨⟨t₂, r₂⟩, rfl, h3⟩

theorem StV.rest_isEmpty (h : StV p2 p1 s s₂) : s₂.rest.isEmpty = s.rest.isEmpty := by
  have h3 := h.unfold.2.2
  cases hr : s.rest <;> cases hr2 : s₂.rest <;> rw [hr, hr2] at h3 <;> simp [caseVariantFrom] at h3 ⊢

theorem expectConsume_var (t : Tok) (k : PErrKind) (ht : ∀ n, t ≠ .ident n) (h : StV p2 p1 s s₂) {u : Unit} {s' : PSt}
    (hn : expectConsume t k s = .ok u s') : ∃ s₂', expectConsume t k s₂ = .ok () s₂' ∧ StV p1 t s' s₂' := by
  unfold expectConsume at hn ⊢
  simp only [h.tok_eq ht]
  by_cases hc : s.cur.tok = t
  · simp only [hc, if_true] at hn ⊢
    obtain ⟨s₂', h1, h2⟩ := h.step hn
    exact ⟨s₂', h1, hc ▸ h2⟩
  · simp only [hc, if_false, mkErr] at hn
    cases hn

/-- an identifier in a position that is not case-free: the same name -/
theorem consumeIdentifier_var (h : StV p2 p1 s s₂) (hc : caseFreeAfter p2 p1 = false) {n : List Char} {s' : PSt}
    (hn : consumeIdentifier s = .ok n s') : ∃ s₂', consumeIdentifier s₂ = .ok n s₂' ∧ StV p1 (.ident n) s' s₂' := by
  unfold consumeIdentifier at hn ⊢
  split at hn
  · rename_i i hi
    obtain ⟨m, hm, _, hmn⟩ := h.tok_ident hi
    rw [hmn hc] at hm
    rw [hm]
    cases hx : next s with
    | ok u s1 =>
      rw [hx] at hn
      simp only [PRes.bind, PRes.ok.injEq] at hn
      obtain ⟨rfl, rfl⟩ := hn
      obtain ⟨s₂', h1, h2⟩ := h.step hx
      exact ⟨s₂', by simp [h1, PRes.bind], hi ▸ h2⟩
    | err e s1 => rw [hx] at hn; cases hn
    | fuel => rw [hx] at hn; cases hn
  · simp only [mkErr] at hn; cases hn

/-- an identifier in any position: an identifier with the same lower-cased spelling -/
theorem consumeIdentifier_var' (h : StV p2 p1 s s₂) {n : List Char} {s' : PSt}
    (hn : consumeIdentifier s = .ok n s') :
    ∃ m s₂', consumeIdentifier s₂ = .ok m s₂' ∧ lowerChars m = lowerChars n ∧ StV p1 (.ident n) s' s₂' := by
  unfold consumeIdentifier at hn ⊢
  split at hn
  · rename_i i hi
    obtain ⟨m, hm, hl, _⟩ := h.tok_ident hi
    rw [hm]
    cases hx : next s with
    | ok u s1 =>
      rw [hx] at hn
      simp only [PRes.bind, PRes.ok.injEq] at hn
      obtain ⟨rfl, rfl⟩ := hn
      obtain ⟨s₂', h1, h2⟩ := h.step hx
      exact ⟨m, s₂', by simp [h1, PRes.bind], hl, hi ▸ h2⟩
    | err e s1 => rw [hx] at hn; cases hn
    | fuel => rw [hx] at hn; cases hn
  · simp only [mkErr] at hn; cases hn

theorem consumeString_var (h : StV p2 p1 s s₂) {n : List Char} {s' : PSt}
    (hn : consumeString s = .ok n s') : ∃ s₂', consumeString s₂ = .ok n s₂' ∧ StV p1 (.str n) s' s₂' := by
  unfold consumeString at hn ⊢
  split at hn
  · rename_i i hi
    rw [h.tok_nonident (by rw [hi]; simp), hi]
    cases hx : next s with
    | ok u s1 =>
      rw [hx] at hn
      simp only [PRes.bind, PRes.ok.injEq] at hn
      obtain ⟨rfl, rfl⟩ := hn
      obtain ⟨s₂', h1, h2⟩ := h.step hx
      exact ⟨s₂', by simp [h1, PRes.bind], hi ▸ h2⟩
    | err e s1 => rw [hx] at hn; cases hn
    | fuel => rw [hx] at hn; cases hn
  · simp only [mkErr] at hn; cases hn

theorem consumeInt_var (h : StV p2 p1 s s₂) {n : Int} {s' : PSt}
    (hn : consumeInt s = .ok n s') : ∃ s₂', consumeInt s₂ = .ok n s₂' ∧ StV p1 (.int n) s' s₂' := by
  unfold consumeInt at hn ⊢
  split at hn
  · rename_i i hi
    rw [h.tok_nonident (by rw [hi]; simp), hi]
    cases hx : next s with
    | ok u s1 =>
      rw [hx] at hn
      simp only [PRes.bind, PRes.ok.injEq] at hn
      obtain ⟨rfl, rfl⟩ := hn
      obtain ⟨s₂', h1, h2⟩ := h.step hx
      exact ⟨s₂', by simp [h1, PRes.bind], hi ▸ h2⟩
    | err e s1 => rw [hx] at hn; cases hn
    | fuel => rw [hx] at hn; cases hn
  · simp only [mkErr] at hn; cases hn

/-! ### the expression parser returns a literal value only for brackets around one literal token -/

end Parse

def PExpr.isValue : PExpr → Bool
  | .value _ _ => true
  | _ => false

namespace Parse

theorem combine_nonvalue {loc : Loc} {op : Tok} {l r e : PExpr} (h : combine loc op l r = .ok e) : e.isValue = false := by
  unfold combine at h
  repeat' split at h
  all_goals first
    | (cases h; rfl)
    | cases h

macro "vleaf" "[" ls:Lean.Parser.Tactic.grindParam,* "]" : tactic => `(tactic| first
  | exact okP_fuel
  | exact okP_err
  | exact okP_mkErr
  | grind (gen := 40) (ematch := 40) [PRes.OkP, PRes.bind, mkErr, PExpr.isValue, combine_nonvalue, $ls,*])

/-- `parse_binary_operator_rhs` started on a tree that is no literal returns no literal -/
theorem parseRhs_nonvalue (T : PrecTables) : ∀ (n : Nat) (prec : Int) (lhs : PExpr) (s : PSt), lhs.isValue = false →
    (parseRhs T n prec lhs s).OkP (fun e => e.isValue = false) := by
  intro n
  induction n with
  | zero => intro prec lhs s _; rw [parseRhs]; exact okP_fuel
  | succ n ih =>
    intro prec lhs s hl
    rw [parseRhs]
    psplit
    all_goals first
      | exact okP_fuel
      | exact okP_err
      | exact okP_mkErr
      | (apply okP_ok; exact hl)
      | (apply ih; first | rfl | (apply combine_nonvalue; assumption))

theorem parseCase_nonvalue (T : PrecTables) : ∀ (n : Nat) (loc : Loc) (cl : List (PExpr × PExpr)) (s : PSt),
    (parseCase T n loc cl s).OkP (fun e => e.isValue = false) := by
  intro n
  induction n with
  | zero => intro loc cl s; rw [parseCase]; exact okP_fuel
  | succ n ih =>
    intro loc cl s
    rw [parseCase]
    psplit
    all_goals first
      | exact okP_fuel
      | exact okP_err
      | exact okP_mkErr
      | (apply okP_ok; rfl)
      | apply ih

theorem tokenPrecedence_state {T : PrecTables} {s s1 : PSt} {tp : Int} (h : tokenPrecedence T s = .ok tp s1) : s1 = s := by
  unfold tokenPrecedence at h
  repeat' split at h
  all_goals first
    | (cases h; rfl)
    | (simp only [mkErr] at h; cases h)

/-- `parse_binary_operator_rhs` returns a literal only by returning its argument at once -/
theorem parseRhs_value_inv (T : PrecTables) (n : Nat) (prec : Int) (lhs : PExpr) (s : PSt) (e : PExpr) (s' : PSt)
    (hv : e.isValue = true) :
    parseRhs T n prec lhs s = .ok e s' → ∃ tp, tokenPrecedence T s = .ok tp s ∧ tp < prec ∧ e = lhs ∧ s' = s := by
  cases n with
  | zero => rw [parseRhs]; intro h; cases h
  | succ n =>
    rw [parseRhs]
    psplit
    all_goals first
      | (intro h; cases h; done)
      | (intro h
         rename_i s1 heq hlt
         cases h
         have hs := tokenPrecedence_state heq
         subst hs
         exact ⟨_, heq, hlt, rfl, rfl⟩)
      | (intro h
         exfalso
         have hx := parseRhs_nonvalue T _ _ _ _ (by first | rfl | (apply combine_nonvalue; assumption)) _ _ h
         rw [hx] at hv
         cases hv)

/-- `parse_unary_operator` returns a literal only from `parse_primary_expression` on a token that is no prefix operator -/
theorem parseUnary_value_inv (T : PrecTables) (n : Nat) (s : PSt) (e : PExpr) (s' : PSt) (hv : e.isValue = true)
    (h : parseUnary T (n + 1) s = .ok e s') :
    (∀ o, s.cur.tok ≠ .op o) ∧ s.cur.tok ≠ .kw .not ∧ parsePrimary T n s = .ok e s' := by
  rw [parseUnary] at h
  dsimp only at h
  split at h
  · exfalso
    simp only [Bool.not_true, Bool.false_eq_true, if_false] at h
    repeat' split at h
    all_goals first
      | (cases h; cases hv)
      | cases h
  · exfalso
    simp only [Bool.not_true, Bool.false_eq_true, if_false] at h
    repeat' split at h
    all_goals first
      | (cases h; cases hv)
      | cases h
  · rename_i h1 h2
    simp only [Bool.not_false, if_true] at h
    exact ⟨fun o ho => h1 o ho, fun ho => h2 ho, h⟩

theorem parseUnary_nonprefix (T : PrecTables) (n : Nat) (s : PSt) (h1 : ∀ o, s.cur.tok ≠ .op o) (h2 : s.cur.tok ≠ .kw .not) :
    parseUnary T (n + 1) s = parsePrimary T n s := by
  rw [parseUnary]
  dsimp only
  split
  · rename_i o ho; exact absurd ho (h1 o)
  · rename_i ho; exact absurd ho h2
  · simp only [Bool.not_false, if_true]

theorem parseRhs_return (T : PrecTables) (n : Nat) (prec : Int) (lhs : PExpr) (s : PSt) (tp : Int)
    (h : tokenPrecedence T s = .ok tp s) (hlt : tp < prec) : parseRhs T (n + 1) prec lhs s = .ok lhs s := by
  rw [parseRhs, h]
  simp only [hlt, if_true]

theorem tokenPrecedence_congr {T : PrecTables} {s s₂ : PSt} {tp : Int} (e : s₂.cur.tok = s.cur.tok)
    (hp : tokenPrecedence T s = .ok tp s) : tokenPrecedence T s₂ = .ok tp s₂ := by
  unfold tokenPrecedence at hp ⊢
  rw [e]
  cases hc : s.cur.tok <;> simp only [hc] at hp ⊢
  all_goals first
    | (simp only [PRes.ok.injEq, and_true] at hp ⊢; exact hp)
    | (rename_i o; cases hl : lookupOp T.binary o <;> simp only [hl, mkErr] at hp ⊢
       · cases hp
       · simp only [PRes.ok.injEq, and_true] at hp ⊢; exact hp)

theorem tokenPrecedence_var {T : PrecTables} (hT : NoIdentOps T) (h : StV p2 p1 s s₂) {tp : Int}
    (hp : tokenPrecedence T s = .ok tp s) : tokenPrecedence T s₂ = .ok tp s₂ := by
  rcases Tok.caseVar_cases h.unfold.2.1 with e | ⟨_, i, j, hi, hj, _⟩
  · exact tokenPrecedence_congr e.symm hp
  · unfold tokenPrecedence at hp ⊢
    rw [hi] at hp
    rw [hj]
    simp only [hT i] at hp
    simp only [hT j]
    simp only [PRes.ok.injEq, and_true] at hp ⊢
    exact hp

set_option hygiene false in
/-- the arm of a literal token in `parsePrimary` -/
macro "lit_arm" : tactic => `(tactic| (
  rename_i heq
  have hne : ∀ n, s.cur.tok ≠ .ident n := by rw [heq]; simp
  cases hx : Parse.next s with
  | ok u s1 =>
    rw [hx] at h
    simp only [PRes.bind, PRes.ok.injEq] at h
    obtain ⟨rfl, rfl⟩ := h
    obtain ⟨t1, g1, st1⟩ := hst.step hx
    rw [parsePrimary]
    dsimp only
    rw [hst.tok_nonident hne, heq]
    simp only [hst.loc, g1, PRes.bind]
    exact ⟨_, rfl, st1.rel⟩
  | err e1 s1 => rw [hx] at h; cases h
  | fuel => rw [hx] at h; cases h))

/-- **a run of the expression parser that returns a literal value** read brackets and one literal token — no
identifier — and the run on a case variant of the tokens returns the same literal -/
theorem value_var {T : PrecTables} (hT : NoIdentOps T) : ∀ n : Nat,
    (∀ (p2 p1 : Tok) (s s₂ : PSt) (e : PExpr) (s' : PSt), StV p2 p1 s s₂ → e.isValue = true →
      parseExpr T n s = .ok e s' → ∃ s₂', parseExpr T n s₂ = .ok e s₂' ∧ RelV s' s₂') ∧
    (∀ (p2 p1 : Tok) (s s₂ : PSt) (e : PExpr) (s' : PSt), StV p2 p1 s s₂ → e.isValue = true →
      parseUnary T n s = .ok e s' → ∃ s₂', parseUnary T n s₂ = .ok e s₂' ∧ RelV s' s₂') ∧
    (∀ (p2 p1 : Tok) (s s₂ : PSt) (e : PExpr) (s' : PSt), StV p2 p1 s s₂ → e.isValue = true →
      parsePrimary T n s = .ok e s' → ∃ s₂', parsePrimary T n s₂ = .ok e s₂' ∧ RelV s' s₂') := by
  intro n
  induction n with
  | zero =>
    refine ⟨?_, ?_, ?_⟩ <;> intro p2 p1 s s₂ e s' _ _ h
    · rw [parseExpr] at h; cases h
    · rw [parseUnary] at h; cases h
    · rw [parsePrimary] at h; cases h
  | succ n ih =>
    obtain ⟨ihE, ihU, ihP⟩ := ih
    refine ⟨?_, ?_, ?_⟩ <;> intro p2 p1 s s₂ e s' hst hv h
    · rw [parseExpr] at h
      split at h
      · rename_i lhs s1 heq
        cases n with
        | zero => rw [parseRhs] at h; cases h
        | succ m =>
          obtain ⟨tp, htp, hlt, rfl, rfl⟩ := parseRhs_value_inv T _ _ _ _ _ _ hv h
          obtain ⟨t1, g1, q2, q1, st1⟩ := ihU _ _ _ _ _ _ hst hv heq
          rw [parseExpr, g1]
          exact ⟨t1, parseRhs_return T m 0 e t1 tp (tokenPrecedence_var hT st1 htp) hlt, st1.rel⟩
      · cases h
      · cases h
    · obtain ⟨h1, h2, hp⟩ := parseUnary_value_inv T n s e s' hv h
      obtain ⟨t1, g1, r1⟩ := ihP _ _ _ _ _ _ hst hv hp
      refine ⟨t1, ?_, r1⟩
      rw [parseUnary_nonprefix T n s₂ ?_ ?_, g1]
      · intro o; rw [ne_eq, hst.tok_eq (X := .op o) (by simp)]; exact h1 o
      · rw [ne_eq, hst.tok_eq (X := .kw .not) (by simp)]; exact h2
    · rw [parsePrimary] at h
      dsimp only at h
      split at h
      · lit_arm
      · lit_arm
      · lit_arm
      · lit_arm
      · lit_arm
      · lit_arm
      · -- identifier: a column or a call
        exfalso
        repeat' split at h
        all_goals first
          | (cases h; cases hv)
          | cases h
          | (simp only [PRes.bind] at h; repeat' split at h; all_goals first | (cases h; cases hv) | cases h)
      · -- `(`
        rename_i heq
        have hne : ∀ n, s.cur.tok ≠ .ident n := by rw [heq]; simp
        split at h
        · cases h
        · cases h
        · rename_i u s1 hx
          split at h
          · cases h
          · exfalso
            repeat' split at h
            all_goals cases h
          · rename_i ex s2 hE
            split at h
            · exfalso
              repeat' split at h
              all_goals first
                | (cases h; cases hv)
                | cases h
            · rename_i hcomma
              split at h
              · cases h
              · cases h
              · rename_i u3 s3 hrp
                cases h
                obtain ⟨t1, g1, st1⟩ := hst.step hx
                obtain ⟨t2, g2, q2, q1, st2⟩ := ihE _ _ _ _ _ _ st1 hv hE
                obtain ⟨t3, g3, st3⟩ := expectConsume_var .rp _ (by simp) st2 hrp
                rw [parsePrimary]
                dsimp only
                rw [hst.tok_nonident hne, heq]
                simp only [g1, g2, st2.tok_eq (X := .comma) (by simp), hcomma, if_false, g3]
                exact ⟨_, rfl, st3.rel⟩
      · -- EXTRACT: a call
        exfalso
        repeat' split at h
        all_goals first
          | (cases h; cases hv)
          | cases h
      · -- CASE
        exfalso
        split at h
        · cases h
        · cases h
        · have hx := parseCase_nonvalue T _ _ _ _ _ _ h
          rw [hx] at hv
          cases hv
      · simp only [mkErr] at h; cases h

/-! ### the CREATE TABLE path: a successful run is a successful run on the variant, with the same value -/

set_option hygiene false in
/-- one `try!` step of a run `h : (match F s with | ok a s => … | err … | fuel …) = ok v s'`: the step succeeded; the
transfer lemma gives the step on the variant, which is rewritten in the goal -/
macro "vstep " a:ident s1:ident t1:ident st1:ident " := " lem:term : tactic => `(tactic| (
  split at h
  rotate_left
  · cases h
  · cases h
  rename_i $a:ident $s1:ident hq
  obtain ⟨$t1, g1, $st1⟩ := $lem hq
  simp only [g1]
  clear g1))

theorem parseRegexMode_var (hst : StV p2 p1 s s₂) {m : PRegexMode} {s' : PSt} (h : parseRegexMode s = .ok m s') :
    ∃ s₂', parseRegexMode s₂ = .ok m s₂' ∧ RelV s' s₂' := by
  unfold parseRegexMode at h ⊢
  split at h
  · rename_i i hi
    obtain ⟨j, hj, hl, _⟩ := hst.tok_ident hi
    simp only [hj, hl]
    split at h
    · rename_i hc
      simp only [hc, if_true]
      vstep u s1 t1 st1 := hst.step
      cases h
      exact ⟨_, rfl, st1.rel⟩
    · rename_i hc
      simp only [hc, if_false]
      split at h
      · rename_i hc2
        simp only [hc2, if_true]
        vstep u s1 t1 st1 := hst.step
        cases h
        exact ⟨_, rfl, st1.rel⟩
      · rename_i hc2
        simp only [hc2, if_false]
        cases h
        exact ⟨_, rfl, hst.rel⟩
  · rename_i hno
    cases h
    rw [hst.tok_nonident (fun n hn => hno n hn)]
    split
    · rename_i i hi; exact absurd hi (hno i)
    · exact ⟨_, rfl, hst.rel⟩

theorem typeBrackets_var : ∀ (fuel k : Nat) {p2 p1 : Tok} {s s₂ : PSt}, StV p2 p1 s s₂ → ∀ {r : Nat} {s' : PSt},
    typeBrackets fuel k s = .ok r s' → ∃ s₂', typeBrackets fuel k s₂ = .ok r s₂' ∧ RelV s' s₂' := by
  intro fuel
  induction fuel with
  | zero => intro k p2 p1 s s₂ _ r s' h; rw [typeBrackets] at h; cases h
  | succ n ih =>
    intro k p2 p1 s s₂ hst r s' h
    rw [typeBrackets] at h ⊢
    simp only [hst.tok_eq (X := .lsq) (by simp)]
    split at h
    · rename_i hc
      simp only [hc, if_true]
      vstep u s1 t1 st1 := hst.step
      vstep u2 s2 t2 st2 := expectConsume_var .rsq _ (by simp) st1
      exact ih _ st2 h
    · rename_i hc
      simp only [hc, if_false]
      cases h
      exact ⟨_, rfl, hst.rel⟩

theorem parseType_var (fuel : Nat) (hst : StV p2 p1 s s₂) {t : VType} {s' : PSt} (h : parseType fuel s = .ok t s') :
    ∃ s₂', parseType fuel s₂ = .ok t s₂' ∧ RelV s' s₂' := by
  unfold parseType at h ⊢
  dsimp only at h ⊢
  split at h
  rotate_left
  · cases h
  · cases h
  rename_i name s1 hq
  obtain ⟨m, t1, g1, hl, st1⟩ := consumeIdentifier_var' hst hq
  simp only [g1]
  split at h
  rotate_left
  · cases h
  · cases h
  rename_i k s2 hq2
  obtain ⟨t2, g2, r2⟩ := typeBrackets_var fuel 0 st1 hq2
  simp only [g2, hl]
  split at h
  · rename_i vt hvt
    cases h
    exact ⟨_, rfl, r2⟩
  · cases h

set_option hygiene false in
/-- `vstep` for a transfer lemma that concludes `RelV` -/
macro "vstepr " a:ident s1:ident t1:ident st1:ident " := " lem:term : tactic => `(tactic| (
  split at h
  rotate_left
  · cases h
  · cases h
  rename_i $a:ident $s1:ident hq
  obtain ⟨$t1, g1, _, _, $st1⟩ := $lem hq
  simp only [g1]
  clear g1))

theorem parseDefineColumn_var {T : PrecTables} (hT : NoIdentOps T) (fuel : Nat) (parsing : PColParsing)
    (hst : StV p2 p1 s s₂) (hc : caseFreeAfter p2 p1 = false) {c : PColDef} {s' : PSt}
    (h : parseDefineColumn T fuel parsing s = .ok c s') :
    ∃ s₂', parseDefineColumn T fuel parsing s₂ = .ok c s₂' ∧ RelV s' s₂' := by
  unfold parseDefineColumn at h ⊢
  vstep name s1 t1 st1 := consumeIdentifier_var hst hc
  vstepr ty s2 t2 st2 := parseType_var fuel st1
  dsimp only at h ⊢
  split at h
  · -- NOT NULL
    rename_i heq
    rw [st2.tok_nonident (by rw [heq]; simp), heq]
    dsimp only
    vstep u3 s3 t3 st3 := st2.step
    vstep u4 s4 t4 st4 := expectConsume_var .null _ (by simp) st3
    cases h
    exact ⟨_, rfl, st4.rel⟩
  · -- DEFAULT literal
    rename_i heq
    rw [st2.tok_nonident (by rw [heq]; simp), heq]
    dsimp only
    vstep u3 s3 t3 st3 := st2.step
    split at h
    rotate_left
    · cases h
    · cases h
    rename_i e s4 hq
    split at h
    · rename_i l v
      obtain ⟨t4, g4, _, _, st4⟩ := (value_var hT fuel).2.2 _ _ _ _ _ _ st3 rfl hq
      simp only [g4]
      split at h
      · rename_i vt hvt
        split at h
        · simp only [mkErr] at h; cases h
        · rename_i hne
          simp only [hne, if_false]
          cases h
          exact ⟨_, rfl, st4.rel⟩
      · cases h
        exact ⟨_, rfl, st4.rel⟩
    · simp only [mkErr] at h; cases h
  · -- an option
    rename_i i heq
    obtain ⟨j, hj, hl, _⟩ := st2.tok_ident heq
    simp only [hj, hl]
    split at h
    · rename_i c1
      simp only [c1, if_true]
      split at h
      · simp only [mkErr] at h; cases h
      · rename_i c2
        simp only [c2, if_false]
        vstep u3 s3 t3 st3 := st2.step
        cases h
        exact ⟨_, rfl, st3.rel⟩
    · rename_i c1
      simp only [c1, if_false]
      split at h
      · rename_i c2
        simp only [c2, if_true]
        vstep u3 s3 t3 st3 := st2.step
        cases h
        exact ⟨_, rfl, st3.rel⟩
      · rename_i c2
        simp only [c2, if_false]
        split at h
        · rename_i c3
          simp only [c3, if_true]
          vstep u3 s3 t3 st3 := st2.step
          cases h
          exact ⟨_, rfl, st3.rel⟩
        · rename_i c3
          simp only [c3, if_false]
          cases h
          exact ⟨_, rfl, st2.rel⟩
  · -- no option
    rename_i h1 h2 h3
    cases h
    rw [st2.tok_nonident (fun n hn => h3 n hn)]
    split
    · rename_i hx; exact absurd hx h1
    · rename_i hx; exact absurd hx h2
    · rename_i i hx; exact absurd hx (h3 i)
    · exact ⟨_, rfl, st2.rel⟩

theorem refLoop_var : ∀ (fuel : Nat) (acc : List PRegexRef) {p2 p1 : Tok} {s s₂ : PSt}, StV p2 p1 s s₂ → s.cur.tok = .comma →
    ∀ {r : List PRegexRef} {s' : PSt}, refLoop fuel acc s = .ok r s' → ∃ s₂', refLoop fuel acc s₂ = .ok r s₂' ∧ RelV s' s₂' := by
  intro fuel
  induction fuel with
  | zero => intro acc p2 p1 s s₂ _ _ r s' h; rw [refLoop] at h; cases h
  | succ n ih =>
    intro acc p2 p1 s s₂ hst hcm r s' h
    rw [refLoop] at h ⊢
    vstep u1 s1 t1 st1 := hst.step
    rw [hcm] at st1
    vstep name s2 t2 st2 := consumeIdentifier_var st1 (by simp [caseFreeAfter, Tok.isIdent])
    vstep u3 s3 t3 st3 := expectConsume_var .lsq _ (by simp) st2
    vstep g s4 t4 st4 := consumeInt_var st3
    vstep u5 s5 t5 st5 := expectConsume_var .rsq _ (by simp) st4
    dsimp only at h ⊢
    simp only [st5.tok_eq (X := .rarrow) (by simp), st5.tok_eq (X := .comma) (by simp)]
    split at h
    · rename_i c1
      simp only [c1, if_true]
      cases h
      exact ⟨_, rfl, st5.rel⟩
    · rename_i c1
      simp only [c1, if_false]
      split at h
      · rename_i c2
        simp only [c2, if_true]
        exact ih _ st5 c2 h
      · simp only [mkErr] at h; cases h

theorem optRefs_var (fuel : Nat) (first : PRegexRef) (hst : StV p2 p1 s s₂) {r : List PRegexRef} {s' : PSt}
    (h : optRefs fuel first s = .ok r s') : ∃ s₂', optRefs fuel first s₂ = .ok r s₂' ∧ RelV s' s₂' := by
  unfold optRefs at h ⊢
  simp only [hst.tok_eq (X := .comma) (by simp)]
  split at h
  · rename_i c1
    simp only [c1, if_true]
    exact refLoop_var fuel _ hst c1 h
  · rename_i c1
    simp only [c1, if_false]
    cases h
    exact ⟨_, rfl, hst.rel⟩

theorem jsonLoop_var : ∀ (fuel : Nat) (acc : List PJsonStep) {p2 p1 : Tok} {s s₂ : PSt}, StV p2 p1 s s₂ →
    ∀ {r : List PJsonStep} {s' : PSt}, jsonLoop fuel acc s = .ok r s' → ∃ s₂', jsonLoop fuel acc s₂ = .ok r s₂' ∧ RelV s' s₂' := by
  intro fuel
  induction fuel with
  | zero => intro acc p2 p1 s s₂ _ r s' h; rw [jsonLoop] at h; cases h
  | succ n ih =>
    intro acc p2 p1 s s₂ hst r s' h
    rw [jsonLoop] at h ⊢
    simp only [hst.tok_eq (X := .op (.single '.')) (by simp), hst.tok_eq (X := .lsq) (by simp),
      hst.tok_eq (X := .rcu) (by simp)]
    split at h
    · rename_i c1
      simp only [c1, if_true]
      vstep u1 s1 t1 st1 := hst.step
      rw [c1] at st1
      vstep name s2 t2 st2 := consumeIdentifier_var st1 (by simp [caseFreeAfter, Tok.isIdent])
      exact ih _ st2 h
    · rename_i c1
      simp only [c1, if_false]
      split at h
      · rename_i c2
        simp only [c2, if_true]
        vstep u1 s1 t1 st1 := hst.step
        vstep i s2 t2 st2 := consumeInt_var st1
        vstep u3 s3 t3 st3 := expectConsume_var .rsq _ (by simp) st2
        exact ih _ st3 h
      · rename_i c2
        simp only [c2, if_false]
        split at h
        · rename_i c3
          simp only [c3, if_true]
          vstep u1 s1 t1 st1 := hst.step
          cases h
          exact ⟨_, rfl, st1.rel⟩
        · simp only [mkErr] at h; cases h

theorem colItem_var {T : PrecTables} (hT : NoIdentOps T) (fuel : Nat) (ps : Patterns) (cs : List PColDef)
    (hst : StV p2 p1 s s₂) (hc : caseFreeAfter p2 p1 = false) {r : Option (Patterns × List PColDef)} {s' : PSt}
    (h : colItem T fuel ps cs s = .ok r s') : ∃ s₂', colItem T fuel ps cs s₂ = .ok r s₂' ∧ RelV s' s₂' := by
  unfold colItem at h ⊢
  split at h
  · -- a pattern definition, or a column read from pattern groups
    rename_i pn heq
    obtain ⟨j, hj, _, hjn⟩ := hst.tok_ident heq
    rw [hjn hc] at hj
    rw [hj]
    dsimp only
    vstep u1 s1 t1 st1 := hst.step
    simp only [st1.tok_eq (X := .op (.single '=')) (by simp), st1.tok_eq (X := .lsq) (by simp)]
    split at h
    · rename_i c1
      simp only [c1, if_true]
      vstep u2 s2 t2 st2 := st1.step
      vstepr mode s3 t3 st3 := parseRegexMode_var st2
      vstep pat s4 t4 st4 := consumeString_var st3
      cases h
      exact ⟨_, rfl, st4.rel⟩
    · rename_i c1
      simp only [c1, if_false]
      split at h
      · rename_i c2
        simp only [c2, if_true]
        vstep u2 s2 t2 st2 := st1.step
        vstep g s3 t3 st3 := consumeInt_var st2
        vstep u4 s4 t4 st4 := expectConsume_var .rsq _ (by simp) st3
        vstepr refs s5 t5 st5 := optRefs_var fuel _ st4
        vstep u6 s6 t6 st6 := expectConsume_var .rarrow _ (by simp) st5
        vstepr col s7 t7 st7 := parseDefineColumn_var hT fuel _ st6 (by simp [caseFreeAfter, Tok.isIdent])
        cases h
        exact ⟨_, rfl, st7.rel⟩
      · simp only [mkErr] at h; cases h
  · -- a column with its own pattern
    rename_i pat heq
    rw [hst.tok_nonident (by rw [heq]; simp), heq]
    dsimp only
    vstep u1 s1 t1 st1 := hst.step
    vstep u2 s2 t2 st2 := expectConsume_var .rarrow _ (by simp) st1
    vstepr col s3 t3 st3 := parseDefineColumn_var hT fuel _ st2 (by simp [caseFreeAfter, Tok.isIdent])
    cases h
    exact ⟨_, rfl, st3.rel⟩
  · -- a JSON column
    rename_i heq
    rw [hst.tok_nonident (by rw [heq]; simp), heq]
    dsimp only
    vstep u1 s1 t1 st1 := hst.step
    vstepr parts s2 t2 st2 := jsonLoop_var fuel [] st1
    vstep u3 s3 t3 st3 := expectConsume_var .rarrow _ (by simp) st2
    split at h
    · simp only [mkErr] at h; cases h
    · rename_i c1
      simp only [c1]
      vstepr col s4 t4 st4 := parseDefineColumn_var hT fuel _ st3 (by simp [caseFreeAfter, Tok.isIdent])
      cases h
      exact ⟨_, rfl, st4.rel⟩
  · -- `)`
    rename_i heq
    rw [hst.tok_nonident (by rw [heq]; simp), heq]
    dsimp only
    vstep u1 s1 t1 st1 := hst.step
    cases h
    exact ⟨_, rfl, st1.rel⟩
  · simp only [mkErr] at h; cases h

theorem colLoop_var {T : PrecTables} (hT : NoIdentOps T) : ∀ (fuel : Nat) (ps : Patterns) (cs : List PColDef)
    {p2 p1 : Tok} {s s₂ : PSt}, StV p2 p1 s s₂ → caseFreeAfter p2 p1 = false → ∀ {r : Patterns × List PColDef} {s' : PSt},
    colLoop T fuel ps cs s = .ok r s' → ∃ s₂', colLoop T fuel ps cs s₂ = .ok r s₂' ∧ RelV s' s₂' := by
  intro fuel
  induction fuel with
  | zero => intro ps cs p2 p1 s s₂ _ _ r s' h; rw [colLoop] at h; cases h
  | succ n ih =>
    intro ps cs p2 p1 s s₂ hst hc r s' h
    rw [colLoop] at h ⊢
    vstepr it s1 t1 st1 := colItem_var hT n ps cs hst hc
    split at h
    · cases h
      exact ⟨_, rfl, st1.rel⟩
    · rename_i pc
      simp only [st1.tok_eq (X := .comma) (by simp), st1.tok_eq (X := .rp) (by simp)]
      split at h
      · rename_i c1
        simp only [c1, if_true]
        vstep u2 s2 t2 st2 := st1.step
        rw [c1] at st2
        exact ih _ _ st2 (by simp [caseFreeAfter, Tok.isIdent]) h
      · rename_i c1
        simp only [c1, if_false]
        split at h
        · rename_i c2
          simp only [c2, if_true]
          vstep u2 s2 t2 st2 := st1.step
          cases h
          exact ⟨_, rfl, st2.rel⟩
        · simp only [mkErr] at h; cases h

theorem parseCreateTable_var {T : PrecTables} (hT : NoIdentOps T) (fuel : Nat) (hst : StV p2 p1 s s₂) {c : PCreate} {s' : PSt}
    (h : parseCreateTable T fuel s = .ok c s') : ∃ s₂', parseCreateTable T fuel s₂ = .ok c s₂' ∧ RelV s' s₂' := by
  unfold parseCreateTable at h ⊢
  dsimp only at h ⊢
  vstep u1 s1 t1 st1 := hst.step
  vstep u2 s2 t2 st2 := expectConsume_var (.kw .table) _ (by simp) st1
  vstep name s3 t3 st3 := consumeIdentifier_var st2 (by simp [caseFreeAfter, Tok.isIdent])
  vstep u4 s4 t4 st4 := expectConsume_var .lp _ (by simp) st3
  vstepr pc s5 t5 st5 := colLoop_var hT fuel [] [] st4 (by simp [caseFreeAfter, Tok.isIdent])
  vstep u6 s6 t6 st6 := expectConsume_var .semi _ (by simp) st5
  cases h
  rw [hst.loc, st6.loc]
  exact ⟨_, rfl, st6.rel⟩

theorem multiCreateLoop_var {T : PrecTables} (hT : NoIdentOps T) : ∀ (fuel : Nat) (acc : List PCreate)
    {p2 p1 : Tok} {s s₂ : PSt}, StV p2 p1 s s₂ → ∀ {op : POp} {s' : PSt},
    multiCreateLoop T fuel acc s = .ok op s' → ∃ s₂', multiCreateLoop T fuel acc s₂ = .ok op s₂' ∧ RelV s' s₂' := by
  intro fuel
  induction fuel with
  | zero => intro acc p2 p1 s s₂ _ op s' h; rw [multiCreateLoop] at h; cases h
  | succ n ih =>
    intro acc p2 p1 s s₂ hst op s' h
    rw [multiCreateLoop] at h ⊢
    vstepr c s1 t1 st1 := parseCreateTable_var hT n hst
    dsimp only at h ⊢
    simp only [ne_eq, st1.tok_eq (X := .kw .create) (by simp)]
    simp only [ne_eq] at h
    split at h
    · rename_i c1
      simp only [c1, not_false_eq_true, if_true]
      cases h
      exact ⟨_, rfl, st1.rel⟩
    · rename_i c1
      simp only [c1, if_false]
      exact ih _ st1 h

theorem optSemi_var (hst : StV p2 p1 s s₂) {u : Unit} {s' : PSt} (h : optSemi s = .ok u s') :
    ∃ s₂', optSemi s₂ = .ok () s₂' ∧ RelV s' s₂' := by
  unfold optSemi at h ⊢
  simp only [hst.tok_eq (X := .semi) (by simp)]
  split at h
  · rename_i c1
    simp only [c1, if_true]
    obtain ⟨t1, g1, st1⟩ := hst.step h
    exact ⟨t1, g1, st1.rel⟩
  · rename_i c1
    simp only [c1, if_false]
    cases h
    exact ⟨_, rfl, hst.rel⟩

/-- `Parser::parse` behind its first `next()`, on a state that starts with CREATE -/
theorem parseOp_create_var {T : PrecTables} (hT : NoIdentOps T) (fuel : Nat) (hst : StV p2 p1 s s₂)
    (hcr : s.cur.tok = .kw .create) {op : POp} {s' : PSt} (h : parseOp T fuel s = .ok op s') :
    ∃ s₂', parseOp T fuel s₂ = .ok op s₂' := by
  have hcr2 : s₂.cur.tok = .kw .create := by rw [hst.tok_nonident (by rw [hcr]; simp), hcr]
  unfold parseOp parseStatement at h ⊢
  have hne : (Tok.kw Keyword.create = Tok.kw Keyword.select) = False := by simp
  simp only [hcr, hcr2, ne_eq, not_true_eq_false, and_false, if_false, hne] at h ⊢
  split at h
  · cases h
  · rename_i op1 s1 hq
    obtain ⟨t1, g1, _, _, st1⟩ := multiCreateLoop_var hT fuel [] hst hq
    simp only [g1]
    vstepr u2 s2 t2 st2 := optSemi_var st1
    rw [st2.rest_isEmpty]
    split at h
    · rename_i c1
      simp only [c1, if_true]
      cases h
      exact ⟨_, rfl⟩
    · simp only [mkErr] at h; cases h
  · exfalso
    repeat' split at h
    all_goals cases h

theorem caseVariantFrom_length : ∀ (as bs : List PTok) (p2 p1 : Tok), caseVariantFrom p2 p1 as bs = true → bs.length = as.length
  | [], [], _, _, _ => rfl
  | [], _ :: _, _, _, h => by simp [caseVariantFrom] at h
  | _ :: _, [], _, _, h => by simp [caseVariantFrom] at h
  | a :: as, b :: bs, p2, p1, h => by
    simp only [caseVariantFrom, Bool.and_eq_true] at h
    simp [caseVariantFrom_length as bs _ _ h.2]

/-- **`Parser::parse` reads a case variant of a CREATE TABLE token vector as the same tree** (fuel as given) -/
theorem parseTokensFuel_create_var {T : PrecTables} (hT : NoIdentOps T) (fuel : Nat) {toks toks₂ : List PTok}
    (hv : caseVariantFrom .eof .eof toks toks₂ = true) (hcr : toks.head?.map (·.tok) = some (.kw .create)) {t : POp}
    (h : parseTokensFuel T fuel toks = .tree t) : parseTokensFuel T fuel toks₂ = .tree t := by
  cases toks with
  | nil => simp at hcr
  | cons a as =>
    cases toks₂ with
    | nil => simp [caseVariantFrom] at hv
    | cons b bs =>
      have hst : StV .eof .eof ⟨a, as⟩ ⟨b, bs⟩ := hv
      unfold parseTokensFuel at h ⊢
      dsimp only at h ⊢
      split at h
      · rename_i op s1 hq
        cases h
        obtain ⟨t1, g1⟩ := parseOp_create_var hT fuel hst (by simpa using hcr) hq
        simp only [g1]
      · cases h
      · cases h

theorem parseTokens_create_var {T : PrecTables} (hT : NoIdentOps T) {toks toks₂ : List PTok}
    (hv : caseVariantFrom .eof .eof toks toks₂ = true) (hcr : toks.head?.map (·.tok) = some (.kw .create)) {t : POp}
    (h : parseTokens T toks = .tree t) : parseTokens T toks₂ = .tree t := by
  unfold parseTokens at h ⊢
  rw [caseVariantFrom_length _ _ _ _ hv]
  exact parseTokensFuel_create_var hT _ hv hcr h

/-! ### the relation is symmetric -/

/-- equal, or both identifiers -/
def Tok.shapeEq (a b : Tok) : Prop := a = b ∨ (a.isIdent = true ∧ b.isIdent = true)

theorem isIdent_iff {a : Tok} : a.isIdent = true ↔ ∃ i, a = .ident i := by
  cases a <;> simp [Tok.isIdent]

theorem caseFreeAfter_congr {p2 p1 q2 q1 : Tok} (h2 : Tok.shapeEq p2 q2) (h1 : Tok.shapeEq p1 q1) :
    caseFreeAfter p2 p1 = caseFreeAfter q2 q1 := by
  rcases h1 with rfl | ⟨a1, b1⟩
  · rcases h2 with rfl | ⟨a2, b2⟩
    · rfl
    · obtain ⟨i, rfl⟩ := isIdent_iff.mp a2
      obtain ⟨j, rfl⟩ := isIdent_iff.mp b2
      simp [caseFreeAfter, Tok.isIdent]
  · obtain ⟨i, rfl⟩ := isIdent_iff.mp a1
    obtain ⟨j, rfl⟩ := isIdent_iff.mp b1
    rcases h2 with rfl | ⟨a2, b2⟩
    · simp [caseFreeAfter, Tok.isIdent]
    · obtain ⟨i2, rfl⟩ := isIdent_iff.mp a2
      obtain ⟨j2, rfl⟩ := isIdent_iff.mp b2
      simp [caseFreeAfter, Tok.isIdent]

theorem Tok.caseVar_symm {f : Bool} {a b : Tok} (h : Tok.caseVar f a b = true) :
    Tok.caseVar f b a = true ∧ Tok.shapeEq a b := by
  rcases Tok.caseVar_cases h with rfl | ⟨hf, i, j, rfl, rfl, hl⟩
  · exact ⟨by simp [Tok.caseVar], .inl rfl⟩
  · exact ⟨by simp [Tok.caseVar, Tok.sameLower, hf, hl], .inr ⟨rfl, rfl⟩⟩

theorem caseVariantFrom_symm : ∀ (as bs : List PTok) (p2 p1 q2 q1 : Tok), Tok.shapeEq p2 q2 → Tok.shapeEq p1 q1 →
    caseVariantFrom p2 p1 as bs = true → caseVariantFrom q2 q1 bs as = true
  | [], [], _, _, _, _, _, _, _ => rfl
  | [], _ :: _, _, _, _, _, _, _, h => by simp [caseVariantFrom] at h
  | _ :: _, [], _, _, _, _, _, _, h => by simp [caseVariantFrom] at h
  | a :: as, b :: bs, p2, p1, q2, q1, h2, h1, h => by
    simp only [caseVariantFrom, Bool.and_eq_true, decide_eq_true_eq] at h ⊢
    obtain ⟨⟨hl, hv⟩, hr⟩ := h
    obtain ⟨hv', hs⟩ := Tok.caseVar_symm hv
    refine ⟨⟨hl.symm, ?_⟩, caseVariantFrom_symm as bs _ _ _ _ h1 hs hr⟩
    rw [← caseFreeAfter_congr h2 h1]
    exact hv'

/-! ### a vector and its case variant have the same lower-case spelling -/

theorem Tok.caseVar_lower {f : Bool} {a b : Tok} (h : Tok.caseVar f a b = true) :
    a.ren lowerChars = b.ren lowerChars := by
  rcases Tok.caseVar_cases h with rfl | ⟨_, i, j, rfl, rfl, hl⟩
  · rfl
  · simp only [Tok.ren, hl]

/-- spelling every identifier in lower case makes a vector and its case variant the same vector -/
theorem caseVariantFrom_lower : ∀ (as bs : List PTok) (p2 p1 : Tok),
    caseVariantFrom p2 p1 as bs = true → as.map (PTok.ren lowerChars) = bs.map (PTok.ren lowerChars)
  | [], [], _, _, _ => rfl
  | [], _ :: _, _, _, h => by simp [caseVariantFrom] at h
  | _ :: _, [], _, _, h => by simp [caseVariantFrom] at h
  | a :: as, b :: bs, p2, p1, h => by
    simp only [caseVariantFrom, Bool.and_eq_true, decide_eq_true_eq] at h
    obtain ⟨⟨hl, hv⟩, hr⟩ := h
    simp only [List.map_cons, List.cons.injEq]
    refine ⟨?_, caseVariantFrom_lower as bs _ _ hr⟩
    simp only [PTok.ren, hl, Tok.caseVar_lower hv]

/-- the relation does not look at locations beyond comparing them: it survives resetting them -/
theorem caseVariantFrom_strip : ∀ (as bs : List PTok) (p2 p1 : Tok), caseVariantFrom p2 p1 as bs = true →
    caseVariantFrom p2 p1 (as.map PTok.strip) (bs.map PTok.strip) = true
  | [], [], _, _, _ => rfl
  | [], _ :: _, _, _, h => by simp [caseVariantFrom] at h
  | _ :: _, [], _, _, h => by simp [caseVariantFrom] at h
  | a :: as, b :: bs, p2, p1, h => by
    simp only [caseVariantFrom, Bool.and_eq_true, decide_eq_true_eq] at h
    obtain ⟨⟨_, hv⟩, hr⟩ := h
    simp only [List.map_cons, caseVariantFrom, Bool.and_eq_true, decide_eq_true_eq]
    exact ⟨⟨rfl, hv⟩, caseVariantFrom_strip as bs _ _ hr⟩

end Parse
end Sqlgrep
