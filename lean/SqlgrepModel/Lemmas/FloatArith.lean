import SqlgrepModel.Model.Float
import SqlgrepModel.Lemmas.FloatOrder
import SqlgrepModel.Lemmas.DecFloat
/-
Laws of the model's REAL arithmetic (`Model/FloatArith.lean`: IEEE-754 `+ − × ÷` as the correctly rounded result of the exact
operation, computed on bit patterns in units of 2^-1074).

* `addX_comm`, `mulX_comm`: commutative, bit for bit (also on NaN / infinite operands: the NaN result is canonical);
* `addX_exact`, `mulX_exact`: when the exact sum / product of two finite REALs is a REAL, that REAL is the result;
* `addX_nearest`, `mulX_nearest`, `divX_nearest`: in general a finite result is a REAL nearest to the exact result
  (`DecFloat.magBits_nearest`; ties to even: `magBits_tie_even`); `addX_sign`;
* `Nice` (finite, a proper 64-bit pattern, not `-0.0`), `eq_of_units_eq` (such patterns are determined by their value),
  `addX_zero_left` (`0.0 + y = y`), `addX_nice`: what `Lemmas/RealSums.lean` needs to discharge `RealAddLaws`;
* `isqrt_spec`: the integer square root used by `sqrtX` is `⌊√n⌋` (the nearest-property of `sqrtX` itself is not proved).
-/
namespace Sqlgrep
namespace F64
open DecFloat (magBits adist)

/-! ### commutativity (bit for bit) -/

theorem bne_comm' (x y : Bool) : (x != y) = (y != x) := by cases x <;> cases y <;> rfl

theorem addX_comm (a b : Nat) : addX a b = addX b a := by
  unfold addX
  cases ha : isNaN a <;> cases hb : isNaN b <;> simp only [Bool.or_false, Bool.or_true, Bool.false_eq_true, if_true, if_false]
  cases ia : isInf a <;> cases ib : isInf b <;> simp only [Bool.false_eq_true, if_true, if_false, Bool.true_and, Bool.false_and]
  · rw [Int.add_comm (units a) (units b), Bool.and_comm (signBit a) (signBit b)]
  · cases sa : signBit a <;> cases sb : signBit b <;> simp

theorem mulX_comm (a b : Nat) : mulX a b = mulX b a := by
  unfold mulX
  cases ha : isNaN a <;> cases hb : isNaN b <;> simp only [Bool.or_false, Bool.or_true, Bool.false_eq_true, if_true, if_false]
  rw [bne_comm' (signBit a) (signBit b)]
  cases ia : isInf a <;> cases ib : isInf b <;> simp only [Bool.false_eq_true, if_true, if_false]
  · rw [Nat.mul_comm (umag a) (umag b)]
  · have : mag b ≠ 0 := by unfold isInf at ib; simp at ib; omega
    have : mag a ≠ 0 := by unfold isInf at ia; simp at ia; omega
    simp [*]

/-! ### patterns with a sign -/

theorem mag_withSign (neg : Bool) (m : Nat) (h : m < 2 ^ 63) : mag (withSign neg m) = m := by
  unfold withSign mag signMask; cases neg <;> simp <;> omega

theorem signBit_withSign (neg : Bool) (m : Nat) (h : m < 2 ^ 63) : signBit (withSign neg m) = neg := by
  unfold withSign signBit signMask; cases neg <;> simp <;> omega

theorem withSign_lt (neg : Bool) (m : Nat) (h : m < 2 ^ 63) : withSign neg m < 2 ^ 64 := by
  unfold withSign signMask; cases neg <;> simp <;> omega

/-- `umag` reads the magnitude bits only -/
theorem umag_mag (n : Nat) : umag (mag n) = umag n := by
  have e1 : expBits (mag n) = expBits n := by unfold expBits mag; omega
  have e2 : fracBits (mag n) = fracBits n := by unfold fracBits mag; omega
  unfold umag mantExp; rw [e1, e2]

theorem umag_withSign (neg : Bool) (m : Nat) (h : m < 2 ^ 63) : umag (withSign neg m) = umag m := by
  rw [← umag_mag, mag_withSign neg m h]

theorem units_withSign (neg : Bool) (m : Nat) (h : m < 2 ^ 63) :
    units (withSign neg m) = if neg then -(umag m : Int) else (umag m : Int) := by
  unfold units; rw [signBit_withSign neg m h, umag_withSign neg m h]

theorem isFinite_withSign (neg : Bool) (m : Nat) (h : m < 0x7ff0000000000000) : isFinite (withSign neg m) = true := by
  unfold isFinite; rw [mag_withSign neg m (by omega)]; simpa using h

theorem umag_natAbs_units (y : Nat) : (units y).natAbs = umag y := by
  unfold units; split <;> simp

theorem isNaN_of_finite {n : Nat} (h : isFinite n = true) : isNaN n = false := isNaN_false_of_finite h
theorem isInf_of_finite {n : Nat} (h : isFinite n = true) : isInf n = false := isInf_false_of_finite h

theorem adist_mul (a b c : Nat) : adist (a * c) (b * c) = adist a b * c := by
  unfold adist
  rw [Nat.add_mul, Nat.sub_mul, Nat.sub_mul]

theorem unitScale_pos : 0 < unitScale := DecFloat.unitScale_pos

/-! ### addition -/

/-- an integer number of units that some finite REAL has -/
def Repr (u : Int) : Prop := ∃ y, isFinite y = true ∧ units y = u

/-- the sum of two finite REALs, unfolded -/
theorem addX_finite (a b : Nat) (ha : isFinite a = true) (hb : isFinite b = true) :
    addX a b = if units a + units b = 0 then (if signBit a && signBit b then signMask else 0)
      else withSign (decide (units a + units b < 0)) (magBits (units a + units b).natAbs unitScale) := by
  unfold addX
  simp only [isNaN_of_finite ha, isNaN_of_finite hb, isInf_of_finite ha, isInf_of_finite hb, Bool.or_false,
    Bool.false_eq_true, if_false]

theorem magBits_lt (N D : Nat) : magBits N D < 2 ^ 63 := by
  have := DecFloat.magBits_le_inf N D; unfold DecFloat.infBits at this; omega

/-- **exact**: when the exact sum of two finite REALs is a REAL, `addX` returns it (in units of 2^-1074) -/
theorem addX_exact (a b : Nat) (ha : isFinite a = true) (hb : isFinite b = true) (hr : Repr (units a + units b)) :
    isFinite (addX a b) = true ∧ addX a b < 2 ^ 64 ∧ units (addX a b) = units a + units b := by
  rw [addX_finite a b ha hb]
  by_cases hu : units a + units b = 0
  · rw [if_pos hu, hu]
    cases signBit a && signBit b
    · simp only [Bool.false_eq_true, if_false]; decide
    · simp only [if_true]; decide
  · rw [if_neg hu]
    obtain ⟨y, hy, hyu⟩ := hr
    have hm : magBits (units a + units b).natAbs unitScale = mag y := by
      apply DecFloat.magBits_exact _ _ y unitScale_pos hy
      rw [← hyu, umag_natAbs_units]; rfl
    rw [hm]
    have hlt : mag y < 0x7ff0000000000000 := by unfold isFinite at hy; simpa using hy
    refine ⟨isFinite_withSign _ _ hlt, withSign_lt _ _ (by omega), ?_⟩
    rw [units_withSign _ _ (by omega), umag_mag, ← umag_natAbs_units y, hyu]
    by_cases hneg : units a + units b < 0
    · simp only [hneg, decide_true, if_true]; omega
    · simp only [hneg, decide_false, Bool.false_eq_true, if_false]; omega

/-- **nearest**: the sum of two finite REALs, when finite, is a REAL nearest to the exact sum `units a + units b` (in units
of 2^-1074; magnitudes compared, the sign is that of the exact sum) -/
theorem addX_nearest (a b : Nat) (ha : isFinite a = true) (hb : isFinite b = true) (hf : isFinite (addX a b) = true) (y : Nat) :
    adist (units a + units b).natAbs (umag (addX a b)) ≤ adist (units a + units b).natAbs (umag y) := by
  rw [addX_finite a b ha hb] at hf ⊢
  by_cases hu : units a + units b = 0
  · rw [if_pos hu, hu]
    have : umag (if (signBit a && signBit b) = true then signMask else 0) = 0 := by
      cases signBit a && signBit b <;> decide
    rw [this]; unfold adist; simp
  · rw [if_neg hu] at hf ⊢
    have hlt := magBits_lt (units a + units b).natAbs unitScale
    rw [umag_withSign _ _ hlt]
    have hfin : magBits (units a + units b).natAbs unitScale < DecFloat.infBits := by
      unfold isFinite at hf; rw [mag_withSign _ _ hlt] at hf; unfold DecFloat.infBits; simpa using hf
    have n := DecFloat.magBits_nearest (units a + units b).natAbs unitScale y unitScale_pos hfin
    change adist ((units a + units b).natAbs * unitScale) _ ≤ adist ((units a + units b).natAbs * unitScale) _ at n
    rw [adist_mul, adist_mul] at n
    exact Nat.le_of_mul_le_mul_right n unitScale_pos

/-- the sign of a non-zero sum is the sign of the exact sum -/
theorem addX_sign (a b : Nat) (ha : isFinite a = true) (hb : isFinite b = true) (hu : units a + units b ≠ 0) :
    signBit (addX a b) = decide (units a + units b < 0) := by
  rw [addX_finite a b ha hb, if_neg hu, signBit_withSign _ _ (magBits_lt _ _)]

/-! ### multiplication and division -/

theorem mulX_finite (a b : Nat) (ha : isFinite a = true) (hb : isFinite b = true) :
    mulX a b = withSign (signBit a != signBit b) (magBits (umag a * umag b) (unitScale * unitScale)) := by
  unfold mulX
  simp only [isNaN_of_finite ha, isNaN_of_finite hb, isInf_of_finite ha, isInf_of_finite hb, Bool.or_false,
    Bool.false_eq_true, if_false]

/-- **exact**: when the exact product of two finite REALs (`umag a · umag b / 2^1074` units) is a REAL `y`, `mulX` returns
it, with the XOR of the signs -/
theorem mulX_exact (a b y : Nat) (ha : isFinite a = true) (hb : isFinite b = true) (hy : isFinite y = true)
    (h : umag y * unitScale = umag a * umag b) :
    mulX a b = withSign (signBit a != signBit b) (mag y) := by
  rw [mulX_finite a b ha hb]
  have hm : magBits (umag a * umag b) (unitScale * unitScale) = mag y := by
    apply DecFloat.magBits_exact _ _ y (Nat.mul_pos unitScale_pos unitScale_pos) hy
    unfold unitScale at h ⊢
    rw [← h, Nat.mul_assoc]
  rw [hm]

/-- **nearest**: a finite product is a REAL nearest to the exact product (both sides scaled by 2^1074: the exact product
is `umag a · umag b` in units of 2^-2148) -/
theorem mulX_nearest (a b : Nat) (ha : isFinite a = true) (hb : isFinite b = true) (hf : isFinite (mulX a b) = true) (y : Nat) :
    adist (umag a * umag b) (umag (mulX a b) * unitScale) ≤ adist (umag a * umag b) (umag y * unitScale) := by
  rw [mulX_finite a b ha hb] at hf ⊢
  have hlt := magBits_lt (umag a * umag b) (unitScale * unitScale)
  rw [umag_withSign _ _ hlt]
  have hfin : magBits (umag a * umag b) (unitScale * unitScale) < DecFloat.infBits := by
    unfold isFinite at hf; rw [mag_withSign _ _ hlt] at hf; unfold DecFloat.infBits; simpa using hf
  have n := DecFloat.magBits_nearest (umag a * umag b) (unitScale * unitScale) y (Nat.mul_pos unitScale_pos unitScale_pos) hfin
  change adist (umag a * umag b * unitScale) _ ≤ adist (umag a * umag b * unitScale) _ at n
  rw [← Nat.mul_assoc, ← Nat.mul_assoc, adist_mul, adist_mul] at n
  exact Nat.le_of_mul_le_mul_right n unitScale_pos

theorem divX_finite (a b : Nat) (ha : isFinite a = true) (hb : isFinite b = true) (hz : mag b ≠ 0) :
    divX a b = withSign (signBit a != signBit b) (magBits (umag a) (umag b)) := by
  unfold divX
  simp only [isNaN_of_finite ha, isNaN_of_finite hb, isInf_of_finite ha, isInf_of_finite hb, Bool.or_false,
    Bool.false_eq_true, if_false, hz]

/-- **nearest**: a finite quotient of two finite REALs (divisor not zero) is a REAL nearest to the exact quotient
`umag a / umag b` (cross-multiplied by the divisor's unit count) -/
theorem divX_nearest (a b : Nat) (ha : isFinite a = true) (hb : isFinite b = true) (hz : mag b ≠ 0)
    (hf : isFinite (divX a b) = true) (y : Nat) :
    adist (umag a * unitScale) (umag (divX a b) * umag b) ≤ adist (umag a * unitScale) (umag y * umag b) := by
  rw [divX_finite a b ha hb hz] at hf ⊢
  have hlt := magBits_lt (umag a) (umag b)
  rw [umag_withSign _ _ hlt]
  have hfin : magBits (umag a) (umag b) < DecFloat.infBits := by
    unfold isFinite at hf; rw [mag_withSign _ _ hlt] at hf; unfold DecFloat.infBits; simpa using hf
  have hpos : 0 < umag b := by
    have := mt (umag_eq_zero_iff b).1 hz; omega
  exact DecFloat.magBits_nearest (umag a) (umag b) y hpos hfin

/-! ### patterns determined by their value -/

/-- finite, a proper 64-bit pattern, and not `-0.0` -/
def Nice (x : Nat) : Prop := isFinite x = true ∧ x < 2 ^ 64 ∧ x ≠ signMask

instance (x : Nat) : Decidable (Nice x) := by unfold Nice; infer_instance

theorem eq_of_units_eq {x y : Nat} (hx : Nice x) (hy : Nice y) (h : units x = units y) : x = y := by
  have h1 := units_lt_iff x y
  have h2 := units_lt_iff y x
  have hk : key x = key y := by omega
  obtain ⟨_, hx64, hxz⟩ := hx
  obtain ⟨_, hy64, hyz⟩ := hy
  unfold signMask at hxz hyz
  unfold key signBit mag at hk
  by_cases sx : x < 2 ^ 63 <;> by_cases sy : y < 2 ^ 63
  · have e1 : x / 2 ^ 63 % 2 = 0 := by omega
    have e2 : y / 2 ^ 63 % 2 = 0 := by omega
    simp [e1, e2] at hk; omega
  · have e1 : x / 2 ^ 63 % 2 = 0 := by omega
    have e2 : y / 2 ^ 63 % 2 = 1 := by omega
    simp [e1, e2] at hk; omega
  · have e1 : x / 2 ^ 63 % 2 = 1 := by omega
    have e2 : y / 2 ^ 63 % 2 = 0 := by omega
    simp [e1, e2] at hk; omega
  · have e1 : x / 2 ^ 63 % 2 = 1 := by omega
    have e2 : y / 2 ^ 63 % 2 = 1 := by omega
    simp [e1, e2] at hk; omega

theorem units_neg_of_nice {x : Nat} (hx : Nice x) (hs : signBit x = true) : units x < 0 := by
  obtain ⟨_, hx64, hxz⟩ := hx
  have hm : mag x ≠ 0 := by
    unfold signMask at hxz; unfold signBit at hs; unfold mag
    have : x / 2 ^ 63 % 2 = 1 := by simpa using hs
    omega
  have := mt (umag_eq_zero_iff x).1 hm
  unfold units; rw [hs]; simp; omega

/-- the sum of two nice REALs whose exact sum is a REAL is nice, and is that sum -/
theorem addX_nice {a b : Nat} (ha : Nice a) (hb : Nice b) (hr : Repr (units a + units b)) :
    Nice (addX a b) ∧ units (addX a b) = units a + units b := by
  obtain ⟨hf, h64, hu⟩ := addX_exact a b ha.1 hb.1 hr
  refine ⟨⟨hf, h64, ?_⟩, hu⟩
  intro hz
  rw [addX_finite a b ha.1 hb.1] at hz
  by_cases h0 : units a + units b = 0
  · rw [if_pos h0] at hz
    cases sa : signBit a <;> cases sb : signBit b <;> simp [sa, sb, signMask] at hz
    have := units_neg_of_nice ha sa
    have := units_neg_of_nice hb sb
    omega
  · rw [if_neg h0] at hz
    have hlt := magBits_lt (units a + units b).natAbs unitScale
    have hm : mag (withSign (decide (units a + units b < 0)) (magBits (units a + units b).natAbs unitScale)) = 0 := by
      rw [hz]; decide
    rw [mag_withSign _ _ hlt] at hm
    rw [addX_finite a b ha.1 hb.1, if_neg h0, hz] at hu
    have : units signMask = 0 := by decide
    omega

/-- `0.0 + y = y` for every finite REAL except `-0.0` -/
theorem addX_zero_left {y : Nat} (hy : Nice y) : addX 0 y = y := by
  have h0 : Nice 0 := by decide
  have hu0 : units 0 = 0 := by decide
  have := addX_nice h0 hy ⟨y, hy.1, by rw [hu0]; omega⟩
  exact eq_of_units_eq this.1 hy (by rw [this.2, hu0]; omega)

/-! ### the integer square root -/

theorem isqrtAux_spec (n : Nat) : ∀ (i r : Nat), r * r ≤ n → n < (r + 2 ^ i) * (r + 2 ^ i) →
    isqrtAux n i r * isqrtAux n i r ≤ n ∧ n < (isqrtAux n i r + 1) * (isqrtAux n i r + 1)
  | 0, r, h1, h2 => by simpa [isqrtAux] using ⟨h1, h2⟩
  | i + 1, r, h1, h2 => by
    rw [isqrtAux]
    by_cases hc : (r + 2 ^ i) * (r + 2 ^ i) ≤ n
    · rw [if_pos hc]
      apply isqrtAux_spec n i (r + 2 ^ i) hc
      have : r + 2 ^ i + 2 ^ i = r + 2 ^ (i + 1) := by rw [Nat.pow_succ]; omega
      rw [this]; exact h2
    · rw [if_neg hc]
      exact isqrtAux_spec n i r h1 (by omega)

/-- `isqrt n = ⌊√n⌋` -/
theorem isqrt_spec (n : Nat) : isqrt n * isqrt n ≤ n ∧ n < (isqrt n + 1) * (isqrt n + 1) := by
  unfold isqrt
  apply isqrtAux_spec n _ 0 (by simp)
  rw [Nat.zero_add, ← Nat.pow_add]
  have h1 : n < 2 ^ (n.log2 + 1) := Nat.lt_log2_self
  have h2 : (2:Nat) ^ (n.log2 + 1) ≤ 2 ^ (n.log2 / 2 + 1 + (n.log2 / 2 + 1)) := Nat.pow_le_pow_right (by decide) (by omega)
  omega

end F64
end Sqlgrep
