import SqlgrepModel.Lemmas.CivilAgree
import SqlgrepModel.Lemmas.CivilNext
import SqlgrepModel.Props.C03Func
/-
C03 — TIMESTAMP and INTERVAL arithmetic, stated ABSOLUTELY (the instant of the result), at the level of the operator
the evaluator executes (`arith`, reached from `eval (.arith op l r)`). `Props/C03Func.lean` has the relative forms
(`ts - iv` is `ts + (-iv)`); a model in which `+` added twice the interval would satisfy those. This file fixes the
meaning: the instant (`tsTotal`, nanoseconds) of `ts + iv` is the instant of `ts` plus `iv`, of `ts - iv` the instant minus
`iv`; `ts − ts'` is the difference of the instants; `iv ± iv'` is the sum / difference of the nanoseconds; every other
operator between these types is an error (D63, repaired in /repo 91aa1f4, lived exactly here while model and code agreed).
Leap-second timestamps (nanos ≥ 10⁹) are excluded here (`TsPlain`); chrono's behaviour on them is `Props/C03Func.lean` A′.
-/
namespace Sqlgrep.Props.C03Time
open Sqlgrep

/-- `eval` of an arithmetic node is `arith` of the operands' values -/
theorem eval_arith (O : Oracles) (env : Env) (op : ArithOp) (l r : Expr) (lv rv : Value)
    (hl : eval O env l = .ok lv) (hr : eval O env r = .ok rv) :
    eval O env (.arith op l r) = arith op lv rv := by
  simp [eval, hl, hr, bind, Outcome.bind]

/-- **timestamp + interval**: whenever it has a value, the value is the timestamp whose instant is the instant of the
operand plus the interval — not a nanosecond more or less -/
theorem ts_plus_interval_instant (d s f ns : Int) (r : Value) (h : TsPlain s f)
    (h1 : arith .add (.timestamp d s f) (.interval ns) = .ok r) :
    ∃ d' s' f', r = .timestamp d' s' f' ∧ TsPlain s' f' ∧ tsTotal d' s' f' = tsTotal d s f + ns := by
  have e1 : tsAdd d s f ns = .ok r := h1
  unfold tsAdd at e1
  rw [tsShift_plain d s f ns h.2.2.2] at e1
  obtain ⟨d1, s1, f1, et, hp, htot⟩ := tsTotal_tsOfTotal (tsTotal d s f + ns)
  rw [et] at e1
  dsimp only at e1
  split at e1
  · injection e1 with e1
    exact ⟨d1, s1, f1, e1.symm, hp, htot⟩
  · cases e1

/-- the year of the calendar day on which the instant `t` (nanoseconds, `tsTotal`) falls -/
def yearOfInstant (t : Int) : Int := (CivilE.civilOfDays (t / nsPerSec / 86400)).1

/-- **When `timestamp + interval` has a value, and which** (the other direction of `ts_plus_interval_instant`, third review M10):
for an ordinary timestamp the sum is the timestamp of the instant `T = instant + interval` exactly when the calendar day of `T`
lies in a year chrono's dates cover (−262143 … 262142); otherwise it is the error `undefinedOperation` — never another value,
never NULL, never a different error. A model in which `+` always failed would not satisfy this. -/
theorem ts_plus_interval_defined_iff (d s f ns : Int) (h : TsPlain s f) :
    arith .add (.timestamp d s f) (.interval ns) =
      (if -262143 ≤ yearOfInstant (tsTotal d s f + ns) && yearOfInstant (tsTotal d s f + ns) ≤ 262142
       then .ok (tsOfTotal (tsTotal d s f + ns)) else .error .undefinedOperation) := by
  show tsAdd d s f ns = _
  unfold tsAdd
  rw [tsShift_plain d s f ns h.2.2.2]
  rfl

/-- … and `timestamp − interval` likewise, with the instant `T = instant − interval` -/
theorem ts_minus_interval_defined_iff (d s f ns : Int) (h : TsPlain s f) :
    arith .sub (.timestamp d s f) (.interval ns) =
      (if -262143 ≤ yearOfInstant (tsTotal d s f - ns) && yearOfInstant (tsTotal d s f - ns) ≤ 262142
       then .ok (tsOfTotal (tsTotal d s f - ns)) else .error .undefinedOperation) := by
  have := ts_plus_interval_defined_iff d s f (-ns) h
  rw [show tsTotal d s f + -ns = tsTotal d s f - ns by omega] at this
  exact this

/-- non-vacuity of both branches: one hour after 2024-01-01 10:00 exists; 262142-12-31 23:00 plus two hours does not -/
example : arith .add (.timestamp 738886 36000 0) (.interval 3600000000000) = .ok (.timestamp 738886 39600 0) ∧
    arith .add (.timestamp (Civil.daysFromCE 262142 12 31) 82800 0) (.interval 7200000000000) = .error .undefinedOperation ∧
    arith .sub (.timestamp (Civil.daysFromCE (-262143) 1 1) 0 0) (.interval 1) = .error .undefinedOperation := ⟨rfl, rfl, rfl⟩

/-- **interval + timestamp** is the same -/
theorem interval_plus_ts_instant (d s f ns : Int) (r : Value) (h : TsPlain s f)
    (h1 : arith .add (.interval ns) (.timestamp d s f) = .ok r) :
    ∃ d' s' f', r = .timestamp d' s' f' ∧ TsPlain s' f' ∧ tsTotal d' s' f' = tsTotal d s f + ns :=
  ts_plus_interval_instant d s f ns r h h1

/-- **timestamp − interval**: the instant minus the interval (this is the statement D63 violated: the code added) -/
theorem ts_minus_interval_instant (d s f ns : Int) (r : Value) (h : TsPlain s f)
    (h1 : arith .sub (.timestamp d s f) (.interval ns) = .ok r) :
    ∃ d' s' f', r = .timestamp d' s' f' ∧ TsPlain s' f' ∧ tsTotal d' s' f' = tsTotal d s f - ns := by
  have h2 : arith .add (.timestamp d s f) (.interval (-ns)) = .ok r := h1
  obtain ⟨d', s', f', e, hp, ht⟩ := ts_plus_interval_instant d s f (-ns) r h h2
  exact ⟨d', s', f', e, hp, by omega⟩

/-- every other operator between a TIMESTAMP and an INTERVAL (either order) has no value -/
theorem ts_interval_other_operators (d s f ns : Int) :
    arith .mul (.timestamp d s f) (.interval ns) = .error .undefinedOperation ∧
    arith .div (.timestamp d s f) (.interval ns) = .error .undefinedOperation ∧
    arith .sub (.interval ns) (.timestamp d s f) = .error .undefinedOperation ∧
    arith .mul (.interval ns) (.timestamp d s f) = .error .undefinedOperation ∧
    arith .div (.interval ns) (.timestamp d s f) = .error .undefinedOperation := ⟨rfl, rfl, rfl, rfl, rfl⟩

/-- **interval ± interval**: exactly the sum / difference of the nanoseconds, or an error when that leaves the INTERVAL
range; `*` and `/` between intervals are errors -/
theorem interval_arith (x y : Int) :
    arith .add (.interval x) (.interval y) = (if inIv (x + y) then .ok (.interval (x + y)) else .error .undefinedOperation) ∧
    arith .sub (.interval x) (.interval y) = (if inIv (x - y) then .ok (.interval (x - y)) else .error .undefinedOperation) ∧
    arith .mul (.interval x) (.interval y) = .error .undefinedOperation ∧
    arith .div (.interval x) (.interval y) = .error .undefinedOperation := ⟨rfl, rfl, rfl, rfl⟩

/-- non-vacuity: a timestamp at 10:00:00 minus one hour is 09:00:00 of the same day, plus one hour 11:00:00 -/
example : arith .sub (.timestamp 736329 36000 0) (.interval 3600000000000) = .ok (.timestamp 736329 32400 0) ∧
    arith .add (.timestamp 736329 36000 0) (.interval 3600000000000) = .ok (.timestamp 736329 39600 0) := ⟨rfl, rfl⟩

/-! ### the calendar behind TIMESTAMP values counts days

A TIMESTAMP value holds the day number `Civil.daysFromCE y m d` of its date. The closed formulas behind it
(`daysBeforeYear`, the cumulative table `daysBeforeMonth`) are tied here to the calendar a reader knows: 0001-01-01 is day 1, and
the day after any date — next day of the month, first of the next month after the last day (`monthLen`, February by the leap rule
`isLeap_iff`), January 1st after December 31st — has the next number. These two facts determine `daysFromCE` on every date. -/

/-- **the day number counts calendar days** -/
theorem calendar_counts_days :
    Civil.daysFromCE 1 1 1 = 1 ∧
    ∀ (y : Int) (m d : Nat), 1 ≤ m ∧ m ≤ 12 → 1 ≤ d ∧ d ≤ Civil.monthLen y m →
      Civil.daysFromCE (Civil.nextDay y m d).1 (Civil.nextDay y m d).2.1 (Civil.nextDay y m d).2.2 = Civil.daysFromCE y m d + 1 :=
  ⟨Civil.daysFromCE_origin, Civil.daysFromCE_nextDay⟩

/-- the leap rule of the model's calendar is the Gregorian one -/
theorem leap_rule (y : Int) : Civil.isLeap y = true ↔ (y % 4 = 0 ∧ y % 100 ≠ 0) ∨ y % 400 = 0 := by
  rw [← CivilE.isLeap_eq]; exact CivilE.isLeap_iff y

/-- non-vacuity: 2024-02-28 → 02-29 → 03-01, 1999-12-31 → 2000-01-01 -/
example : Civil.daysFromCE 2024 2 29 = Civil.daysFromCE 2024 2 28 + 1 ∧ Civil.daysFromCE 2024 3 1 = Civil.daysFromCE 2024 2 29 + 1 ∧
    Civil.daysFromCE 2000 1 1 = Civil.daysFromCE 1999 12 31 + 1 := by decide

end Sqlgrep.Props.C03Time
