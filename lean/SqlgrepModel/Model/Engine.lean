import SqlgrepModel.Model.Eval
/-
Query engines: `SelectExecutionEngine`, `AggregateExecutionEngine`, `execute_join`,
`ExecutionEngine::execute` (src/execution/*.rs) and the `FileExecutor` loop (src/executor.rs),
mirroring /repo HEAD (with the LIMIT, DISTINCT, MIN/MAX, percentile, empty-cell and NULL-join-key repairs).
Rows enter the model already extracted (extraction is modelled separately, C01/C02).
-/
namespace Sqlgrep

/-! ### statements -/

inductive AggKind where
  | groupKey (e : Expr) (canon : String)
  | count (col : Option String) (distinct : Bool)
  | min (e : Expr) | max (e : Expr) | sum (e : Expr) | avg (e : Expr)
  | stddev (e : Expr) (isVariance : Bool)
  | percentile (e : Expr) (p : Nat)
  | boolAnd (e : Expr) | boolOr (e : Expr)
  | arrayAgg (e : Expr)
  | stringAgg (e : Expr) (delim : Bytes)
  deriving Repr, Inhabited

structure AggItem where
  name : String
  kind : AggKind
  transform : Option Expr
  deriving Repr, Inhabited

structure SelectStmt where
  projections : List (String × Expr)
  wildcard : Bool
  filter : Option Expr
  limit : Option Nat
  distinct : Bool
  deriving Repr, Inhabited

/-- one `ExpressionTree::Aggregate` node of HAVING, in the order `visit` reaches it -/
inductive HavingRef where
  | key (canon : String)
  | agg (id : Nat) (kind : AggKind)
  deriving Repr, Inhabited

structure AggStmt where
  items : List AggItem
  filter : Option Expr
  groupBy : Option (List (Expr × String))      -- each part with its canonical text
  having : Option Expr
  havingAggs : List (Nat × AggKind)            -- non-key aggregates of HAVING in visit order, with their ids
  havingKeys : List String                     -- canonical texts of the GROUP BY references inside HAVING
  havingVisit : List HavingRef := []           -- both kinds interleaved, in visit order (decides which error comes first)
  limit : Option Nat
  distinct : Bool
  deriving Repr, Inhabited

inductive Stmt where
  | select (s : SelectStmt)
  | aggregate (a : AggStmt)
  deriving Repr, Inhabited

structure TableInfo where
  name : String
  columns : List String
  deriving Repr, Inhabited

structure JoinInfo where
  joined : TableInfo
  joinerColumn : String
  joinedColumn : String
  isOuter : Bool
  deriving Repr, Inhabited

/-- one input line: the raw text and the row `TableDefinition::extract` produced for it -/
structure Line where
  text : Bytes
  row : List Value
  deriving Repr, Inhabited

def anyResult (row : List Value) : Bool := row.any (fun v => !v.isNull)

/-! ### column mappings (HashMap semantics: the last insertion for a name wins) -/

def indexOf? (names : List String) (n : String) : Option Nat := names.findIdx? (· == n)

/-- `ExecutionEngine::create_columns_mapping`, in insertion order -/
def columnsMapping (t : TableInfo) (row : List Value) (line : Bytes) : List (String × Value) :=
  (t.columns.zip row).flatMap (fun (n, v) => [(n, v), (t.name ++ "." ++ n, v)]) ++ [("input", .text line)]

/-- environment whose lookup returns the LAST inserted binding -/
def envOfInsertions (ins : List (String × Value)) : Env := { table := ins.reverse }

def hasKey (ins : List (String × Value)) (n : String) : Bool := ins.any (fun p => p.1 == n)

/-- `create_joined_column_mapping`: bindings and the key list used by `*` -/
def joinedMapping (t : TableInfo) (row : List Value) (line : Bytes) (j : JoinInfo) (jrow : List Value) :
    List (String × Value) × List String :=
  let base := columnsMapping t row line
  let ins := (j.joined.columns.zip jrow).foldl (fun acc (n, v) =>
    let acc := if hasKey acc n then acc else acc ++ [(n, v)]
    acc ++ [(j.joined.name ++ "." ++ n, v)]) base
  let keys := t.columns ++ j.joined.columns.map (fun n => if t.columns.contains n then j.joined.name ++ "." ++ n else n)
  (ins, keys)

/-! ### DISTINCT memory (`FnvHashSet<Vec<Value>>`: bucket equality = equal hash stream ∧ `==`) -/

def tupleSame (a b : List Value) : Bool := Value.hashList a == Value.hashList b && Value.beqList a b

def distinctAdd (seen : List (List Value)) (row : List Value) : List (List Value) × Bool :=
  if seen.any (tupleSame row) then (seen, false) else (row :: seen, true)

/-! ### SELECT -/

structure RowOut where
  columns : List String
  rows : List (List Value)
  deriving Repr, Inhabited

/-- `SelectExecutionEngine::execute` on one column provider -/
def selectOne (O : Oracles) (q : SelectStmt) (seen : List (List Value)) (env : Env) (keys : List String) :
    Outcome (List (List Value) × Option RowOut) := do
  let valid ← (match q.filter with
    | some f => do
      let v ← eval O env f
      condHolds v
    | none => pure true : Outcome Bool)
  if !valid then pure (seen, none)
  else
    let (names, exprs) := if q.wildcard then (keys, keys.map Expr.column) else (q.projections.map (·.1), q.projections.map (·.2))
    let vals ← evalList O env exprs
    if q.distinct then
      let (seen', fresh) := distinctAdd seen vals
      if fresh then pure (seen', some { columns := names, rows := [vals] }) else pure (seen', none)
    else pure (seen, some { columns := names, rows := [vals] })

/-! ### joins -/

/-- joined-file index: `HashMap<Value, Vec<Row>>` as buckets in first-insertion order -/
abbrev JoinIndex := List (Value × List (List Value))

def keySame (a b : Value) : Bool := Value.hashRepr a == Value.hashRepr b && Value.beq a b

def joinIndexAdd (idx : JoinIndex) (k : Value) (row : List Value) : JoinIndex :=
  if k.isNull then idx
  else if idx.any (fun b => keySame b.1 k) then idx.map (fun b => if keySame b.1 k then (b.1, b.2 ++ [row]) else b)
  else idx ++ [(k, [row])]

def joinIndexGet (idx : JoinIndex) (k : Value) : Option (List (List Value)) :=
  (idx.find? (fun b => keySame b.1 k)).map (·.2)

/-- `JoinedTableData::execute`: the joined file goes through `SELECT *`; admitted rows are indexed by key -/
def loadJoin (j : JoinInfo) (lines : List Line) : Outcome JoinIndex :=
  match indexOf? j.joined.columns j.joinedColumn with
  | none => .error .columnNotFound
  | some ki =>
    .ok (lines.foldl (fun idx l =>
      if anyResult l.row then joinIndexAdd idx (l.row.getD ki .null) l.row else idx) [])

def extendOut (acc : Option RowOut) (r : Option RowOut) : Option RowOut :=
  match acc, r with
  | a, none => a
  | none, some r => some r
  | some a, some r => some { a with rows := a.rows ++ r.rows }

/-! ### aggregation state -/

inductive Aggregator where
  | sum (v : Value)
  | avg (sum : Value) (count : Int)
  | stddev (sum sumSq : Value) (count : Int) (isVariance : Bool)
  | percentile (vals : List Value) (p : Nat)
  | boolAnd (v : Option Bool)
  | boolOr (v : Option Bool)
  | countDistinct (seen : List Value)
  deriving Repr, Inhabited

/-- `BTreeMap<GroupKey, HashMap<usize, α>>`: groups sorted by the derived order of the key vectors -/
abbrev GroupMap (α : Type) := List (List Value × List (Nat × α))

def alGet {α : Type} (l : List (Nat × α)) (i : Nat) : Option α := (l.find? (·.1 == i)).map (·.2)
def alSet {α : Type} (l : List (Nat × α)) (i : Nat) (v : α) : List (Nat × α) :=
  if l.any (·.1 == i) then l.map (fun p => if p.1 == i then (i, v) else p) else l ++ [(i, v)]

def gmGet {α : Type} (m : GroupMap α) (k : List Value) : Option (List (Nat × α)) :=
  (m.find? (fun g => Value.cmpList g.1 k == .eq)).map (·.2)

/-- modify the entry of group `k` (created empty, at its sorted position, when missing) -/
def gmModify {α : Type} (m : GroupMap α) (k : List Value) (f : List (Nat × α) → List (Nat × α)) : GroupMap α :=
  match m with
  | [] => [(k, f [])]
  | g :: rest =>
    match Value.cmpList k g.1 with
    | .lt => (k, f []) :: g :: rest
    | .eq => (g.1, f g.2) :: rest
    | .gt => g :: gmModify rest k f

def gmLookup {α : Type} (m : GroupMap α) (k : List Value) (i : Nat) : Option α := (gmGet m k).bind (alGet · i)
def gmSet {α : Type} (m : GroupMap α) (k : List Value) (i : Nat) (v : α) : GroupMap α := gmModify m k (alSet · i v)

structure AggState where
  aggs : GroupMap Aggregator := []
  vals : GroupMap Value := []
  deriving Repr, Inhabited

/-- `get_group(.., default)`: the current entry, created from `dflt` when missing -/
def getVal (st : AggState) (k : List Value) (i : Nat) (dflt : Value) : AggState × Value :=
  match gmLookup st.vals k i with
  | some v => (st, v)
  | none => ({ st with vals := gmSet st.vals k i dflt }, dflt)

def setVal (st : AggState) (k : List Value) (i : Nat) (v : Value) : AggState := { st with vals := gmSet st.vals k i v }

def getAgg (st : AggState) (k : List Value) (i : Nat) (dflt : Aggregator) : AggState × Aggregator :=
  match gmLookup st.aggs k i with
  | some a => (st, a)
  | none => ({ st with aggs := gmSet st.aggs k i dflt }, dflt)

def setAgg (st : AggState) (k : List Value) (i : Nat) (a : Aggregator) : AggState := { st with aggs := gmSet st.aggs k i a }

def defaultOf (v : Value) : Value :=
  match v with
  | .null => .null
  | .int _ => .int 0
  | .real _ => .real 0
  | .bool _ => .bool false
  | .text _ => .text []
  | .array t _ => .array t []
  | .timestamp _ _ _ => .timestamp 730120 0 0      -- 2000-01-01 00:00:00
  | .interval _ => .interval 0

/-- `add_to_sum`: checked for INT and INTERVAL; a NULL sum adopts a numeric value; other combinations are ignored -/
def addToSum (sum v : Value) : Outcome Value :=
  match sum, v with
  | .int x, .int y => match checked (x + y) with
    | some r => .ok (.int r)
    | none => .error .undefinedOperation
  | .real x, .real y => .ok (.real (F64.add x y))
  | .interval x, .interval y => if inIv (x + y) then .ok (.interval (x + y)) else .error .undefinedOperation
  | .null, .int y => .ok (.int y)
  | .null, .real y => .ok (.real y)
  | .null, .interval y => .ok (.interval y)
  | s, _ => .ok s

def squareOf (v : Value) : Outcome Value :=
  match v with
  | .int x => match checked (x * x) with
    | some r => .ok (.int r)
    | none => .error .undefinedOperation
  | .real x => .ok (.real (F64.mul x x))
  | .interval ns =>
    -- `num_microseconds()` squared as microseconds when it fits an i64, else `num_milliseconds()` squared through
    -- `try_milliseconds`; an overflow is the error NUMERIC_OVERFLOW. (The running sums of squares are INTERVALs, for
    -- which `update` publishes no value: `stddevValue`.)
    let us := Int.tdiv ns 1000
    if inI64 us then
      (if inI64 (us * us) then .ok (.interval (us * us * 1000)) else .error .undefinedOperation)
    else
      let ms := Int.tdiv ns 1000000
      if inI64 (ms * ms) && inIv (ms * ms * 1000000) then .ok (.interval (ms * ms * 1000000)) else .error .undefinedOperation
  | _ => .ok .null

/-- `finish`: VARIANCE shows the variance, STDDEV its square root -/
def stddevFinish (isVariance : Bool) (variance : Nat) : Nat :=
  if isVariance then variance else F64.sqrt variance

/-- INT sums (finding D72, repaired): `n·Σx² − (Σx)²` is formed EXACTLY (`i128` in the code: `n`, `Σx`, `Σx²` are `i64`, so both
products are below `2^126`), then `numerator as f64 / (n * n) as f64` — two conversions to the nearest REAL (`F64.ofInt` is
correctly rounded for every integer, `Lemmas/DecFloat.lean` `decToF64_nearest`) and one REAL division -/
def stddevCalcInt (count : Int) (isVariance : Bool) (s q : Int) : Nat :=
  stddevFinish isVariance (F64.div (F64.ofInt (count * q - s * s)) (F64.ofInt (count * count)))

/-- REAL sums: the one-pass formula `(Σx² − (Σx)²/n)/n` step by step, then `if variance < 0.0 { 0.0 } else { variance }`
(finding D72, repaired: the subtraction can cancel down to a rounding error below zero). `<` is IEEE's: false for NaN
(NaN stays NaN) and for `-0.0` (stays `-0.0`) — `F64.cmp v 0.0 = lt` is exactly that (NaN is last, both zeros have key 0) -/
def stddevCalc (count : Int) (isVariance : Bool) (s q : Nat) : Nat :=
  let n := F64.ofInt count
  let variance := F64.div (F64.sub q (F64.div (F64.mul s s) n)) n
  stddevFinish isVariance (if F64.cmp variance F64.zero == .lt then F64.zero else variance)

def stddevValue (sum sumSq : Value) (count : Int) (isVariance : Bool) : Option Value :=
  match sum, sumSq with
  | .int s, .int q => some (.real (stddevCalcInt count isVariance s q))
  | .real s, .real q => some (.real (stddevCalc count isVariance s q))
  | _, _ => none

/-- `GroupAggregator::update`: new aggregator state and the value to publish (if any) -/
def aggUpdate (a : Aggregator) (v : Value) : Outcome (Aggregator × Option Value) :=
  match a with
  | .sum s => do
    let s' ← addToSum s v
    pure (.sum s', some s')
  | .avg s c => do
    let s' ← addToSum s v
    let c' := c + 1
    let avg : Option Value := match s' with
      | .int x => some (.int (Int.tdiv x c'))
      | .real x => some (.real (F64.div x (F64.ofInt c')))
      | .interval x => some (.interval (Int.tdiv x c'))
      | _ => none
    pure (.avg s' c', avg)
  | .stddev s q c isVar => do
    let sq ← squareOf v
    let s' ← addToSum s v
    let q' ← addToSum q sq
    let c' := c + 1
    pure (.stddev s' q' c' isVar, stddevValue s' q' c' isVar)
  | .percentile vals p => pure (.percentile (vals ++ [v]) p, none)
  | .boolAnd cur =>
    match v with
    | .bool b => let n := match cur with
                    | some c => c && b
                    | none => b
                 pure (.boolAnd (some n), some (.bool n))
    | _ => .error .expectedBoolValue
  | .boolOr cur =>
    match v with
    | .bool b => let n := match cur with
                    | some c => c || b
                    | none => b
                 pure (.boolOr (some n), some (.bool n))
    | _ => .error .expectedBoolValue
  | .countDistinct seen =>
    if seen.any (keySame v) then pure (.countDistinct seen, some (.bool false))
    else pure (.countDistinct (v :: seen), some (.bool true))

def aggIsNull : Aggregator → Bool
  | .sum s => s.isNull
  | .avg s _ => s.isNull
  | .stddev s q _ _ => s.isNull || q.isNull
  | _ => false

def defaultAggregator (k : AggKind) (v : Value) : Aggregator :=
  match k with
  | .avg _ => .avg (defaultOf v) 0
  | .sum _ => .sum (defaultOf v)
  | .stddev _ isVar => .stddev (defaultOf v) (defaultOf v) 0 isVar
  | .percentile _ p => .percentile [] p
  | .boolAnd _ => .boolAnd none
  | .boolOr _ => .boolOr none
  | _ => .countDistinct []

def validateGroupKey (q : AggStmt) (canon : String) : Outcome Unit :=
  match q.groupBy with
  | none => .error .groupKeyNotAvailable
  | some parts => if parts.any (·.2 == canon) then .ok () else .error .groupKeyNotAvailable

/-- the two map entries an aggregate owns in its group: `group_aggregators[key][idx]` and `group_values[key][idx]` -/
structure Cell where
  agg : Option Aggregator := none
  val : Option Value := none
  deriving Repr, Inhabited

/-- `update_aggregate` for one aggregate of one row, as a function of that aggregate's own cell: every
`get_group_value` / `get_group_aggregator` in the code addresses exactly (`group_key`, `aggregate_index`). -/
def cellStep (O : Oracles) (q : AggStmt) (env : Env) (k : AggKind) (c : Cell) : Outcome Cell :=
  match k with
  | .groupKey _ canon => do
    validateGroupKey q canon
    pure c
  | .count col distinct =>
    if col.isNone && distinct then .error .distinctRequiresColumn
    else do
      let (valid, cv) ← (match col with
        | some cn => match env.get .table cn with
          | some v => pure (!v.isNull, v)
          | none => Outcome.error .columnNotFound
        | none => pure (true, Value.null) : Outcome (Bool × Value))
      let (c, valid) ← (if valid && distinct then do
          let a := c.agg.getD (.countDistinct [])
          let (a', r) ← aggUpdate a cv
          pure ({ c with agg := some a' }, match r with
            | some v => v.truthy
            | none => valid)
        else pure (c, valid) : Outcome (Cell × Bool))
      if valid then
        match c.val.getD (.int 0) with
        | .int n => pure { c with val := some (.int (n + 1)) }
        | other => pure { c with val := some other }
      else pure c
  | .min e | .max e => do
    let v ← eval O env e
    if !v.isNull then
      let cur := c.val.getD v
      let better : Bool := match k with
        | .min _ => cur.isNull || Value.cmp v cur == .lt
        | _ => cur.isNull || Value.cmp v cur == .gt
      pure { c with val := some (if better then v else cur) }
    else pure { c with val := some (c.val.getD .null) }
  | .sum e | .avg e | .stddev e _ | .percentile e _ | .boolAnd e | .boolOr e => do
    let v ← eval O env e
    let a := c.agg.getD (defaultAggregator k v)
    if !v.isNull then do
      let (a', r) ← aggUpdate a v
      match r with
      | some value => pure { agg := some a', val := some value }
      | none => pure { c with agg := some a' }
    else if aggIsNull a then pure { agg := some a, val := some .null }
    else pure { c with agg := some a }
  | .arrayAgg e => do
    let v ← eval O env e
    match c.val with
    | some (.array t xs) => pure { c with val := some (.array t (xs ++ [v])) }
    | some _ => pure c
    | none =>
      match v.valueType with
      | some t => pure { c with val := some (.array t [v]) }
      | none => .error .cannotCreateArrayOfNullType
  | .stringAgg e delim => do
    let v ← eval O env e
    match v with
    | .text s =>
      -- the delimiter stands between ALL non-NULL values of the group, also after an empty text (D67 repaired):
      -- `first_value` = the group has no entry for this aggregate yet
      match c.val with
      | none => pure { c with val := some (.text s) }
      | some (.text cur) => pure { c with val := some (.text (cur ++ delim ++ s)) }
      | some other => pure { c with val := some other }
    | .null => pure c
    | _ => .error .expectedStringValue

def readCell (st : AggState) (key : List Value) (idx : Nat) : Cell :=
  { agg := gmLookup st.aggs key idx, val := gmLookup st.vals key idx }

/-- entries are only ever created or overwritten, never removed -/
def writeCell (st : AggState) (key : List Value) (idx : Nat) (c : Cell) : AggState :=
  let st := match c.agg with
    | some a => setAgg st key idx a
    | none => st
  match c.val with
  | some v => setVal st key idx v
  | none => st

def updateAggregate (O : Oracles) (q : AggStmt) (env : Env) (key : List Value) (idx : Nat) (k : AggKind)
    (st : AggState) : Outcome AggState := do
  let c ← cellStep O q env k (readCell st key idx)
  pure (writeCell st key idx c)

def updateAggregates (O : Oracles) (q : AggStmt) (env : Env) (key : List Value) :
    List (Nat × AggKind) → AggState → Outcome AggState
  | [], st => .ok st
  | (i, k) :: rest, st => do
    let st ← updateAggregate O q env key i k st
    updateAggregates O q env key rest st

def enumFrom {α : Type} (n : Nat) : List α → List (Nat × α)
  | [] => []
  | x :: xs => (n, x) :: enumFrom (n + 1) xs

/-- the HAVING walk of `update_aggregates`: key references are validated and non-key aggregates updated in visit
order; the j-th non-key aggregate owns index `items.length + j` -/
def havingUpdates (O : Oracles) (q : AggStmt) (env : Env) (key : List Value) : List HavingRef → Nat → AggState → Outcome AggState
  | [], _, st => .ok st
  | .key canon :: rest, j, st => do
    validateGroupKey q canon
    havingUpdates O q env key rest j st
  | .agg _ kind :: rest, j, st => do
    let st ← updateAggregate O q env key (q.items.length + j) kind st
    havingUpdates O q env key rest (j + 1) st

/-- `execute_update`: WHERE, group key, every select-list aggregate, then HAVING's aggregates -/
def aggUpdateRow (O : Oracles) (q : AggStmt) (st : AggState) (env : Env) : Outcome (AggState × Bool) := do
  let valid ← (match q.filter with
    | some f => do
      let v ← eval O env f
      condHolds v
    | none => pure true : Outcome Bool)
  if !valid then pure (st, false)
  else do
    let key ← (match q.groupBy with
      | some parts => evalList O env (parts.map (·.1))
      | none => pure [Value.null] : Outcome (List Value))
    let st ← updateAggregates O q env key (enumFrom 0 (q.items.map (·.kind))) st
    let st ← (match q.having with
      | some _ => havingUpdates O q env key q.havingVisit 0 st
      | none => pure st : Outcome AggState)
    pure (st, true)

/-! ### aggregation result -/

def emptyGroupValue : AggKind → Value
  | .count _ _ => .int 0
  | _ => .null

/-- stable insertion sort by the derived order (`values.sort()`) -/
def insertSorted (v : Value) : List Value → List Value
  | [] => [v]
  | x :: xs => if Value.cmp v x == .gt then x :: insertSorted v xs else v :: x :: xs
def sortValues (xs : List Value) : List Value := xs.foldr insertSorted []

/-- `(p * n as f64) as usize` for a finite non-negative product (saturating cast: NaN and negatives give 0) -/
def f64ToNat (bits : Nat) : Nat :=
  if F64.isNaN bits || F64.signBit bits then 0
  else if F64.isInf bits then 18446744073709551615
  else
    let (m, e) := F64.mantExp bits
    let n := if e ≥ 0 then m * 2 ^ e.toNat else m / 2 ^ (-e).toNat
    min n 18446744073709551615

def percentileValue (vals : List Value) (p : Nat) : Option Value :=
  let sorted := sortValues vals
  let i := min (f64ToNat (F64.mul p (F64.ofInt sorted.length))) (sorted.length - 1)
  sorted[i]?

/-- first loop of `execute_result`: percentile aggregators publish their value -/
def publishPercentiles (st : AggState) : AggState :=
  st.aggs.foldl (fun st (key, subs) =>
    subs.foldl (fun st (idx, a) =>
      match a with
      | .percentile vals p =>
        match percentileValue vals p with
        | some v => setVal st key idx v
        | none => st
      | _ => st) st) st

def keyMapping (q : AggStmt) : List (String × Nat) :=
  match q.groupBy with
  | some parts => enumFrom 0 (parts.map (·.2)) |>.map (fun (i, c) => (c, i))
  | none => []

/-- last binding wins, as in a HashMap -/
def mappingGet (m : List (String × Nat)) (c : String) : Option Nat := (m.reverse.find? (·.1 == c)).map (·.2)

def applyTransform (O : Oracles) (t : Option Expr) (v : Value) : Outcome Value :=
  match t with
  | some e => eval O { aggValue := [("$value", v)] } e
  | none => .ok v

/-- the cell of select-list item `idx` in the row of group (`key`, `subs`) -/
def cellOf (O : Oracles) (q : AggStmt) (idx : Nat) (item : AggItem) (key : List Value) (subs : List (Nat × Value)) : Outcome Value :=
  match item.kind with
  | .groupKey _ canon =>
    match mappingGet (keyMapping q) canon with
    | some i => match key[i]? with
      | some v => .ok v
      | none => .panic "group key index"
    | none => .panic "group_key_mapping[&hash]"
  | k => applyTransform O item.transform ((alGet subs idx).getD (emptyGroupValue k))

def rowOf (O : Oracles) (q : AggStmt) (key : List Value) (subs : List (Nat × Value)) : List (Nat × AggItem) → Outcome (List Value)
  | [] => .ok []
  | (i, item) :: rest => do
    let c ← cellOf O q i item key subs
    let cs ← rowOf O q key subs rest
    pure (c :: cs)

/-- `accept_group` -/
def acceptGroup (O : Oracles) (q : AggStmt) (having : Expr) (key : List Value) (subs : List (Nat × Value)) : Outcome Bool := do
  let gkeys := (keyMapping q).filterMap (fun (c, i) => (key[i]?).map (fun v => (c, v)))
  let gvals := (enumFrom 0 q.havingAggs).map (fun (j, (id, k)) => (id, (alGet subs (q.items.length + j)).getD (emptyGroupValue k)))
  let v ← eval O { groupKeys := gkeys.reverse, groupValues := gvals } having
  condHolds v

/-- rows of the result table in group order: HAVING, then per-table DISTINCT -/
def resultRows (O : Oracles) (q : AggStmt) : List (List Value × List (Nat × Value)) → List (List Value) → Outcome (List (List Value))
  | [], _ => .ok []
  | (key, subs) :: rest, seen => do
    let row ← rowOf O q key subs (enumFrom 0 q.items)
    let keep ← (match q.having with
      | some h => acceptGroup O q h key subs
      | none => pure true : Outcome Bool)
    if !keep then resultRows O q rest seen
    else if q.distinct then
      let (seen', fresh) := distinctAdd seen row
      if fresh then do
        let more ← resultRows O q rest seen'
        pure (row :: more)
      else resultRows O q rest seen'
    else do
      let more ← resultRows O q rest seen
      pure (row :: more)

/-- one column of `extract_result_rows_by_column`: the cells of select-list item `idx` over the groups of
`group_values` in key order (the inner loop of the code); the first cell without a value ends the column -/
def aggColumn (O : Oracles) (q : AggStmt) (idx : Nat) (item : AggItem) : List (List Value × List (Nat × Value)) → Outcome (List Value)
  | [] => .ok []
  | (key, subs) :: rest => do
    let c ← cellOf O q idx item key subs
    let cs ← aggColumn O q idx item rest
    pure (c :: cs)

/-- `extract_result_rows_by_column`: the table is computed COLUMN BY COLUMN — outer loop over the select list in
order, inner loop over the groups in key order —, and the first cell without a value is the answer (`?`). -/
def aggColumns (O : Oracles) (q : AggStmt) (groups : List (List Value × List (Nat × Value))) : List (Nat × AggItem) → Outcome (List (List Value))
  | [] => .ok []
  | (i, item) :: rest => do
    let c ← aggColumn O q i item groups
    let cs ← aggColumns O q groups rest
    pure (c :: cs)

/-- `execute_result`. All cells are computed, column by column, before HAVING filters rows: a transform error in any
group fails the whole result, and WHICH error is reported is decided in column-major order (`aggColumns`). Only then
the rows are assembled group by group (`resultRows`: the cells of a row are the same evaluations again, so they have
values), HAVING is evaluated per group in key order (`accept_group(..)?`), then DISTINCT. -/
def aggResult (O : Oracles) (q : AggStmt) (st : AggState) : Outcome (AggState × RowOut) := do
  let st := publishPercentiles st
  let _ ← aggColumns O q st.vals (enumFrom 0 q.items)
  let rows ← resultRows O q st.vals []
  pure (st, { columns := q.items.map (·.name), rows := rows })

/-! ### `ExecutionEngine` -/

structure EngineState where
  seen : List (List Value) := []
  agg : AggState := {}
  numOut : Nat := 0
  deriving Repr, Inhabited

structure LineOut where
  result : Option RowOut
  reachedLimit : Bool
  deriving Repr, Inhabited

structure Query where
  stmt : Stmt
  table : TableInfo
  join : Option JoinInfo
  deriving Repr, Inhabited

/-- environments a line presents to the statement: itself, or one per join partner (plus the NULL-padded one
for OUTER JOIN when allowed). `none` = an error while looking up the join. -/
def lineEnvs (qy : Query) (idx : JoinIndex) (allowOuter : Bool) (l : Line) : Outcome (List (Env × List String)) :=
  match qy.join with
  | none => .ok [(envOfInsertions (columnsMapping qy.table l.row l.text), qy.table.columns)]
  | some j =>
    match indexOf? qy.table.columns j.joinerColumn with
    | none => .error .columnNotFound
    | some ki =>
      let mk (jrow : List Value) :=
        let (ins, keys) := joinedMapping qy.table l.row l.text j jrow
        (envOfInsertions ins, keys)
      match joinIndexGet idx (l.row.getD ki .null) with
      | some partners => .ok (partners.map mk)
      | none =>
        if j.isOuter && allowOuter then .ok [mk (List.replicate j.joined.columns.length .null)] else .ok []

def selectEnvs (O : Oracles) (q : SelectStmt) : List (Env × List String) → List (List Value) → Option RowOut →
    Outcome (List (List Value) × Option RowOut)
  | [], seen, acc => .ok (seen, acc)
  | (env, keys) :: rest, seen, acc => do
    let (seen', r) ← selectOne O q seen env keys
    selectEnvs O q rest seen' (extendOut acc r)

def aggEnvs (O : Oracles) (q : AggStmt) : List (Env × List String) → AggState → Bool → Outcome (AggState × Bool)
  | [], st, any => .ok (st, any)
  | (env, _) :: rest, st, any => do
    let (st', u) ← aggUpdateRow O q st env
    aggEnvs O q rest st' (any || u)

/-- `update_limit` -/
def updateLimit (isSelect : Bool) (limit : Option Nat) (es : EngineState) (r : Option RowOut) : EngineState × LineOut :=
  let r := match r, limit with
    | some out, some n => if isSelect then some { out with rows := out.rows.take (n - es.numOut) } else some out
    | r, _ => r
  let numOut := es.numOut + (match r with
    | some out => out.rows.length
    | none => 0)
  let reached := match limit with
    | some n => numOut ≥ n
    | none => false
  ({ es with numOut := numOut }, { result := r, reachedLimit := reached })

/-- `ExecutionEngine::execute(line, config)` with `update`; `withResult` selects update+result (follow mode) or
update-only (batch mode, aggregates) -/
def executeLine (O : Oracles) (qy : Query) (idx : JoinIndex) (withResult : Bool) (es : EngineState) (l : Line) :
    Outcome (EngineState × LineOut) :=
  match qy.stmt with
  | .select q =>
    if !anyResult l.row then .ok (updateLimit true q.limit es none)
    else do
      let envs ← lineEnvs qy idx true l
      let (seen, r) ← selectEnvs O q envs es.seen none
      pure (updateLimit true q.limit { es with seen := seen } r)
  | .aggregate q =>
    if !anyResult l.row then
      .ok (if withResult then updateLimit false q.limit es none else (es, { result := none, reachedLimit := false }))
    else do
      let envs ← lineEnvs qy idx false l
      if withResult then do
        -- all partners of the line update the aggregates; then, iff one of them updated, ONE full result
        -- (`updated |= execute_update(..)?` per partner, `if updated { joined(Some(execute_result()?)) }`)
        let (st, u) ← aggEnvs O q envs es.agg false
        if u then do
          let (st', out) ← aggResult O q st
          pure (updateLimit false q.limit { es with agg := st' } (some out))
        else pure (updateLimit false q.limit { es with agg := st } none)
      else do
        let (st, _) ← aggEnvs O q envs es.agg false
        pure ({ es with agg := st }, { result := none, reachedLimit := false })

/-- the result-only call at the end of a batch run (`ExecutionConfig::aggregate_result`) -/
def finalResult (O : Oracles) (q : AggStmt) (es : EngineState) : Outcome RowOut := do
  let (_, out) ← aggResult O q es.agg
  pure (match q.limit with
    | some n => { out with rows := out.rows.take n }
    | none => out)

def reachedLimit (qy : Query) (es : EngineState) : Bool :=
  match qy.stmt with
  | .select q => match q.limit with
    | some n => es.numOut ≥ n
    | none => false
  | _ => false

end Sqlgrep
