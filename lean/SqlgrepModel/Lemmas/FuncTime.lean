import SqlgrepModel.Model.Eval
import SqlgrepModel.Model.ParseLit
import SqlgrepModel.Lemmas.CivilAgree
import SqlgrepModel.Lemmas.NumericOrder
import SqlgrepModel.Lemmas.StrBytes
/-
Timestamps in the evaluator: `create_timestamp` is one function in both models, `tsOfTotal`/`tsTotal` are inverse on
normalised fields, and `date_trunc` on the sub-day parts in closed form.
-/
namespace Sqlgrep

/-! ### `create_timestamp`: the extraction model (C01) and the evaluator model build the same value -/

theorem mkTimestamp_eq_createTimestamp (y : Int) (mo d h mi s us : Nat) :
    Lit.mkTimestamp y mo d h mi s us = createTimestamp y mo d h mi s us := by
  unfold Lit.mkTimestamp createTimestamp
  rw [CivilE.validDate_eq]
  by_cases hv : Civil.validDate y mo d = true
  · have hm : 1 ≤ mo ∧ mo ≤ 12 := by
      unfold Civil.validDate at hv
      simp only [Bool.and_eq_true, decide_eq_true_eq] at hv
      omega
    rw [CivilE.daysFromCE_eq y mo d hm]
    unfold Civil.validTimeNano
    by_cases hc : h < 24 ∧ mi < 60 ∧ s < 60 ∧ us < 2000000 ∧ (us < 1000000 ∨ s = 59)
    · have c1 : (Civil.validDate y mo d && decide (us * 1000 < 4294967296) &&
          (decide (h < 24) && decide (mi < 60) && decide (s < 60) &&
            (decide (us * 1000 < 1000000000) || decide (s = 59) && decide (us * 1000 < 2000000000)))) = true := by
        simp only [hv, Bool.and_eq_true, Bool.or_eq_true, decide_eq_true_eq, true_and]; omega
      have c2 : (Civil.validDate y mo d && decide ((h : Int) < 24) && decide ((mi : Int) < 60) && decide ((s : Int) < 60) &&
          decide ((us : Int) < 2000000) && (decide ((us : Int) < 1000000) || (s : Int) == 59)) = true := by
        simp only [hv, Bool.and_eq_true, Bool.or_eq_true, decide_eq_true_eq, true_and, beq_iff_eq]; omega
      rw [if_pos c1, if_pos c2]
      congr 2 <;> omega
    · have c1 : ¬ (Civil.validDate y mo d && decide (us * 1000 < 4294967296) &&
          (decide (h < 24) && decide (mi < 60) && decide (s < 60) &&
            (decide (us * 1000 < 1000000000) || decide (s = 59) && decide (us * 1000 < 2000000000)))) = true := by
        simp only [hv, Bool.and_eq_true, Bool.or_eq_true, decide_eq_true_eq, true_and]; omega
      have c2 : ¬ (Civil.validDate y mo d && decide ((h : Int) < 24) && decide ((mi : Int) < 60) && decide ((s : Int) < 60) &&
          decide ((us : Int) < 2000000) && (decide ((us : Int) < 1000000) || (s : Int) == 59)) = true := by
        simp only [hv, Bool.and_eq_true, Bool.or_eq_true, decide_eq_true_eq, true_and, beq_iff_eq]; omega
      rw [if_neg c1, if_neg c2]
  · simp only [hv, Bool.false_and, Bool.false_eq_true, if_false]

/-! ### instants -/

theorem tsOfTotal_tsTotal (d s f : Int) (h : TsPlain s f) : tsOfTotal (tsTotal d s f) = .timestamp d s f := by
  obtain ⟨h1, h2, h3, h4⟩ := h
  unfold tsOfTotal tsTotal nsPerSec
  have e1 : ((d * 86400 + s) * 1000000000 + f) / 1000000000 = d * 86400 + s := by omega
  have e2 : ((d * 86400 + s) * 1000000000 + f) % 1000000000 = f := by omega
  simp only [e1, e2]
  congr 1 <;> omega

theorem tsTotal_tsOfTotal (X : Int) : ∃ d s f, tsOfTotal X = .timestamp d s f ∧ TsPlain s f ∧ tsTotal d s f = X := by
  refine ⟨_, _, _, rfl, ?_, ?_⟩
  · unfold TsPlain nsPerSec; omega
  · unfold tsTotal nsPerSec; omega

/-- nanoseconds from 0001-01-01 (day 1) … to the Unix epoch (day 719163) -/
def epochNs : Int := 719163 * 86400 * 1000000000

theorem stamp_eq (d s f : Int) : tsTotal (d - 719163) s f = tsTotal d s f - epochNs := by
  unfold tsTotal epochNs nsPerSec; omega

/-- the five sub-day units of `date_trunc` -/
def IsSubDaySpan (span : Int) : Prop :=
  span = 3600 * nsPerSec ∨ span = 60 * nsPerSec ∨ span = nsPerSec ∨ span = 1000000 ∨ span = 1000

theorem span_pos {span : Int} (h : IsSubDaySpan span) : 0 < span := by
  unfold IsSubDaySpan nsPerSec at h; omega

/-- every unit divides the distance between the two epochs, so the remainder does not depend on the epoch -/
theorem stamp_mod (T span : Int) (h : IsSubDaySpan span) : (T - epochNs) % span = T % span := by
  unfold IsSubDaySpan nsPerSec at h
  unfold epochNs
  rcases h with h | h | h | h | h <;> subst h <;> omega

theorem truncSpan_isSubDay (part : Bytes) (span : Int) (h : truncSpan part = some span) : IsSubDaySpan span := by
  unfold truncSpan at h
  unfold IsSubDaySpan
  split at h
  · injection h with h; exact Or.inl h.symm
  · split at h
    · injection h with h; exact Or.inr (Or.inl h.symm)
    · split at h
      · injection h with h; exact Or.inr (Or.inr (Or.inl h.symm))
      · split at h
        · injection h with h; exact Or.inr (Or.inr (Or.inr (Or.inl h.symm)))
        · split at h
          · injection h with h; exact Or.inr (Or.inr (Or.inr (Or.inr h.symm)))
          · cases h

/-! ### the names of the parts, as bytes -/

theorem sb_year : strBytes "year" = [121, 101, 97, 114] := by rw [strBytes_lit]; decide
theorem sb_month : strBytes "month" = [109, 111, 110, 116, 104] := by rw [strBytes_lit]; decide
theorem sb_day : strBytes "day" = [100, 97, 121] := by rw [strBytes_lit]; decide
theorem sb_hour : strBytes "hour" = [104, 111, 117, 114] := by rw [strBytes_lit]; decide
theorem sb_minute : strBytes "minute" = [109, 105, 110, 117, 116, 101] := by rw [strBytes_lit]; decide
theorem sb_second : strBytes "second" = [115, 101, 99, 111, 110, 100] := by rw [strBytes_lit]; decide
theorem sb_milliseconds : strBytes "milliseconds" = [109, 105, 108, 108, 105, 115, 101, 99, 111, 110, 100, 115] := by
  rw [strBytes_lit]; decide
theorem sb_microseconds : strBytes "microseconds" = [109, 105, 99, 114, 111, 115, 101, 99, 111, 110, 100, 115] := by
  rw [strBytes_lit]; decide

/-- a midnight that is not after the day of `t` is not after `t` -/
theorem ts_midnight_le (d' d s f : Int) (h : d' ≤ d) (hs : 0 ≤ s) (hf : 0 ≤ f) :
    Value.cmp (.timestamp d' 0 0) (.timestamp d s f) ≠ .gt := by
  simp only [Value.cmp]
  rcases Int.lt_or_eq_of_le h with h | h
  · rw [intCompare_lt h]; simp [Ordering.then]
  · rw [intCompare_eq h]
    rcases Int.lt_or_eq_of_le hs with hs | hs
    · rw [intCompare_lt hs]; simp [Ordering.then]
    · rw [intCompare_eq hs]
      rcases Int.lt_or_eq_of_le hf with hf | hf
      · rw [intCompare_lt hf]; decide
      · rw [intCompare_eq hf]; decide

/-- `date_trunc` on a part that is not year/month/day and has a span: closed form -/
theorem dateTrunc_sub_day (part : Bytes) (span : Int)
    (hy : (part == strBytes "year") = false) (hm : (part == strBytes "month") = false)
    (hd : (part == strBytes "day") = false) (hs : truncSpan part = some span) (d s f : Int)
    (hf : f < nsPerSec) (hin : inI64 (tsTotal (d - 719163) s f) = true) :
    dateTrunc part d s f = .ok (tsOfTotal (tsTotal d s f - tsTotal d s f % span)) := by
  have hf' : ¬ f ≥ nsPerSec := by omega
  unfold dateTrunc
  simp only [hy, hm, hd, hs, Bool.false_eq_true, if_false, hf', hin, Bool.not_true]
  rw [stamp_eq, stamp_mod _ _ (truncSpan_isSubDay part span hs)]

theorem dateTrunc_out_of_range (part : Bytes) (span : Int)
    (hy : (part == strBytes "year") = false) (hm : (part == strBytes "month") = false)
    (hd : (part == strBytes "day") = false) (hs : truncSpan part = some span) (d s f : Int)
    (hf : f < nsPerSec) (hin : inI64 (tsTotal (d - 719163) s f) = false) :
    dateTrunc part d s f = .error .failedToTruncate := by
  have hf' : ¬ f ≥ nsPerSec := by omega
  unfold dateTrunc
  simp only [hy, hm, hd, hs, Bool.false_eq_true, if_false, hf', hin, Bool.not_false, if_true]

theorem dateTrunc_unknown (part : Bytes)
    (hy : (part == strBytes "year") = false) (hm : (part == strBytes "month") = false)
    (hd : (part == strBytes "day") = false) (hs : truncSpan part = none) (d s f : Int) :
    dateTrunc part d s f = .error .invalidTruncatePart := by
  unfold dateTrunc
  simp only [hy, hm, hd, hs, Bool.false_eq_true, if_false]

end Sqlgrep
