import SqlgrepModel.Model.CompareIntFloat
import SqlgrepModel.Lemmas.NumericOrder
/-
The ALGORITHM of `compare_int_float` (`F64.compareIntFloatAlgo`, `Model/CompareIntFloat.lean`: NaN test, the two
threshold comparisons with ±2^63, `trunc`, the saturating cast, the sign of the fraction) computes the SPECIFICATION
`F64.cmpIntReal` (exact comparison of the integer with the REAL's value), for every i64 and every bit pattern.
-/
namespace Sqlgrep
namespace F64

/-! ### pure integer arithmetic: comparing `x·P` with `t·P + f`, `|f| < P` of the sign of `t` -/

/-- `t` is the integer part and `f` the fraction (scaled by `P`) of one number: same sign, `|f| < P` -/
def Split (t f P : Int) : Prop := (0 ≤ t ∧ 0 ≤ f ∧ f < P) ∨ (t ≤ 0 ∧ f ≤ 0 ∧ -P < f)

theorem compare_split (x t f P : Int) (hs : Split t f P) :
    compare (x * P) (t * P + f) = (compare x t).then (compare 0 f) := by
  have hP : 0 ≤ P := by rcases hs with ⟨_, a, b⟩ | ⟨_, a, b⟩ <;> omega
  rcases Int.lt_trichotomy x t with h | h | h
  · rw [intCompare_lt h]
    apply intCompare_lt
    have h1 : (x + 1) * P ≤ t * P := Int.mul_le_mul_of_nonneg_right (by omega) hP
    rw [Int.add_mul] at h1
    rcases hs with ⟨_, a, b⟩ | ⟨_, a, b⟩ <;> omega
  · subst h
    rw [intCompare_eq rfl]
    exact intCompare_congr (by omega) (by omega)
  · rw [intCompare_gt h]
    apply intCompare_gt
    have h1 : (t + 1) * P ≤ x * P := Int.mul_le_mul_of_nonneg_right (by omega) hP
    rw [Int.add_mul] at h1
    rcases hs with ⟨_, a, b⟩ | ⟨_, a, b⟩ <;> omega

/-- a number in `[-B·P, B·P)` has its integer part in `[-B, B-1]` -/
theorem split_range (t f P B : Int) (hs : Split t f P) (hB : 0 < B) (lo : -(B * P) ≤ t * P + f) (hi : t * P + f < B * P) :
    -B ≤ t ∧ t ≤ B - 1 := by
  have hP : 0 ≤ P := by rcases hs with ⟨_, a, b⟩ | ⟨_, a, b⟩ <;> omega
  constructor
  · false_or_by_contra
    rename_i hn
    have h1 : (t + 1) * P ≤ (-B) * P := Int.mul_le_mul_of_nonneg_right (by omega) hP
    rw [Int.add_mul, Int.neg_mul] at h1
    rcases hs with ⟨a, _, _⟩ | ⟨_, a, b⟩ <;> omega
  · false_or_by_contra
    rename_i hn
    have h1 : B * P ≤ t * P := Int.mul_le_mul_of_nonneg_right (by omega) hP
    rcases hs with ⟨_, a, b⟩ | ⟨a, _, _⟩ <;> omega

/-! ### `trunc` and the fraction, in units of 2^-1074 -/

/-- the scale of the fraction bits: `2^(e+1074)` units of 2^-1074 per unit of `2^e` -/
def fracScale (y : Nat) : Nat := 2 ^ ((mantExp y).2 + 1074).toNat

theorem fracScale_pos (y : Nat) : 0 < fracScale y := Nat.two_pow_pos _

/-- magnitudes: `|y| = trunc|y| · 2^1074 + frac · 2^(e+1074)` with the fraction part below `2^1074` -/
theorem umag_split (y : Nat) :
    umag y = truncMag y * 2 ^ 1074 + fracMag y * fracScale y ∧ fracMag y * fracScale y < 2 ^ 1074 := by
  unfold umag truncMag fracMag fracScale
  have hge := mantExp_exp_ge y
  generalize (mantExp y).1 = m at *
  generalize (mantExp y).2 = e at *
  by_cases h : e ≥ 0
  · rw [if_pos h, if_pos h]
    have : (e + 1074).toNat = e.toNat + 1074 := by omega
    rw [this, Nat.pow_add, Nat.zero_mul, Nat.add_zero, Nat.mul_assoc]
    refine ⟨?_, Nat.pow_pos (Nat.succ_pos 1)⟩
    generalize (2 : Nat) ^ 1074 = P
    rfl
  · rw [if_neg h, if_neg h]
    have hk : (-e).toNat + (e + 1074).toNat = 1074 := by omega
    generalize (-e).toNat = k at *
    generalize (e + 1074).toNat = j at *
    have hP : (2 : Nat) ^ 1074 = 2 ^ k * 2 ^ j := by rw [← Nat.pow_add, hk]
    rw [hP]
    constructor
    · have := Nat.div_add_mod m (2 ^ k)
      calc m * 2 ^ j = (2 ^ k * (m / 2 ^ k) + m % 2 ^ k) * 2 ^ j := by rw [this]
        _ = m / 2 ^ k * (2 ^ k * 2 ^ j) + m % 2 ^ k * 2 ^ j := by
            rw [Nat.add_mul, Nat.mul_comm (2 ^ k) (m / 2 ^ k), Nat.mul_assoc]
    · exact (Nat.mul_lt_mul_right (Nat.two_pow_pos j)).2 (Nat.mod_lt _ (Nat.two_pow_pos k))

/-- the exact value of `y` is `trunc y` plus a fraction of the same sign and magnitude below one -/
theorem units_split (y : Nat) :
    units y = truncInt y * 2 ^ 1074 + fracInt y * (fracScale y : Int) ∧
    Split (truncInt y) (fracInt y * (fracScale y : Int)) (2 ^ 1074) := by
  obtain ⟨h1, h2⟩ := umag_split y
  unfold units truncInt fracInt
  have c1 : (((2 : Nat) ^ 1074 : Nat) : Int) = (2 : Int) ^ 1074 := Int.natCast_pow 2 1074
  have e1 : ((umag y : Nat) : Int) = (truncMag y : Int) * 2 ^ 1074 + (fracMag y : Int) * (fracScale y : Int) := by
    rw [h1, Int.natCast_add, Int.natCast_mul, Int.natCast_mul, c1]
  have e2 : (fracMag y : Int) * (fracScale y : Int) < 2 ^ 1074 := by
    have : ((fracMag y * fracScale y : Nat) : Int) < (((2 : Nat) ^ 1074 : Nat) : Int) := Int.ofNat_lt.2 h2
    rw [Int.natCast_mul, c1] at this
    exact this
  have e3 : (0 : Int) ≤ (fracMag y : Int) * (fracScale y : Int) := Int.mul_nonneg (Int.natCast_nonneg _) (Int.natCast_nonneg _)
  have e4 : (0 : Int) ≤ (truncMag y : Int) := Int.natCast_nonneg _
  clear c1 h1 h2
  generalize ((2 : Int) ^ 1074) = P at *
  by_cases s : signBit y
  · rw [if_pos s, if_pos s, if_pos s, e1, Int.neg_mul, Int.neg_mul]
    generalize (fracMag y : Int) * (fracScale y : Int) = F at *
    exact ⟨by omega, .inr ⟨by omega, by omega, by omega⟩⟩
  · rw [if_neg s, if_neg s, if_neg s]
    exact ⟨e1, .inl ⟨e4, e3, e2⟩⟩

/-! ### the two threshold tests are comparisons of the exact value -/

theorem units_two63 : units two63 = 2 ^ 63 * 2 ^ 1074 := by decide +kernel
theorem units_negTwo63 : units negTwo63 = -(2 ^ 63 * 2 ^ 1074) := by decide +kernel
theorem isNaN_two63 : isNaN two63 = false := by decide
theorem isNaN_negTwo63 : isNaN negTwo63 = false := by decide

/-- `y >= 2^63` is the comparison of the exact value -/
theorem fge_two63 (y : Nat) (hy : isNaN y = false) : fge y two63 = decide (2 ^ 63 * 2 ^ 1074 ≤ units y) := by
  unfold fge
  rw [hy, isNaN_two63, ← units_two63]
  have := units_lt_iff y two63
  by_cases h : key two63 ≤ key y <;> simp [h] <;> omega

/-- `y < -2^63` is the comparison of the exact value -/
theorem flt_negTwo63 (y : Nat) (hy : isNaN y = false) : flt y negTwo63 = decide (units y < -(2 ^ 63 * 2 ^ 1074)) := by
  unfold flt
  rw [hy, isNaN_negTwo63, ← units_negTwo63]
  have := units_lt_iff y negTwo63
  by_cases h : key y < key negTwo63 <;> simp [h] <;> omega

theorem satI64_id {t : Int} (h1 : -2 ^ 63 ≤ t) (h2 : t ≤ 2 ^ 63 - 1) : satI64 t = t := by
  unfold satI64
  rw [if_neg (by omega), if_neg (by omega)]

/-! ### the algorithm computes the specification -/

/-- **the algorithm of `compare_int_float` is the exact comparison**: for every i64 `x` and every bit pattern `y` -/
theorem compareIntFloatAlgo_eq_cmpIntReal (x : Int) (y : Nat) (hx : -2 ^ 63 ≤ x ∧ x < 2 ^ 63) :
    compareIntFloatAlgo x y = cmpIntReal x y := by
  rcases classify y with ⟨hf, hi, hn⟩ | ⟨hf, hi, hn⟩ | ⟨hf, hi, hn⟩
  · -- finite: both sides compare `x · 2^1074` with the units of `y`
    rw [cmpIntReal_eq_compare_units x y hf]
    unfold compareIntFloatAlgo
    rw [hn, fge_two63 y hn, flt_negTwo63 y hn]
    obtain ⟨hu, hs⟩ := units_split y
    have hP : (0 : Int) < 2 ^ 1074 := Int.pow_pos (by decide)
    generalize ((2 : Int) ^ 1074) = P at *
    by_cases h1 : 2 ^ 63 * P ≤ units y
    · simp only [h1, decide_true, Bool.or_true, if_true]
      symm; apply intCompare_lt
      have : (x + 1) * P ≤ 2 ^ 63 * P := Int.mul_le_mul_of_nonneg_right (by omega) (by omega)
      rw [Int.add_mul] at this
      omega
    · by_cases h2 : units y < -(2 ^ 63 * P)
      · simp only [h1, h2, decide_true, decide_false, Bool.or_false, Bool.false_eq_true, if_true, if_false]
        symm; apply intCompare_gt
        have : (-2 ^ 63) * P ≤ x * P := Int.mul_le_mul_of_nonneg_right (by omega) (by omega)
        rw [Int.neg_mul] at this
        omega
      · simp only [h1, h2, decide_false, Bool.or_false, Bool.false_eq_true, if_false]
        have hr := split_range (truncInt y) _ P (2 ^ 63) hs (by decide) (by rw [← hu]; omega) (by rw [← hu]; omega)
        rw [satI64_id (by omega) hr.2, hu, compare_split x _ _ P hs]
        have hsg : compare (0 : Int) (fracInt y * (fracScale y : Int)) = compare 0 (fracInt y) := by
          have := intCompare_mul_pos 0 (fracInt y) (fracScale y : Int) (by have := fracScale_pos y; omega)
          rw [Int.zero_mul] at this
          exact this
        rw [hsg]
  · -- ±inf
    rw [cmpIntReal_inf x y hi]
    unfold compareIntFloatAlgo fge flt
    rw [hn, isNaN_two63, isNaN_negTwo63]
    by_cases s : signBit y
    · have hk := key_inf_neg hi s
      have k1 : key two63 = 0x43E0000000000000 := by decide
      have k2 : key negTwo63 = -0x43E0000000000000 := by decide
      simp [s, hk, k1, k2]
    · have hk := key_inf_pos hi (by simpa using s)
      have k1 : key two63 = 0x43E0000000000000 := by decide
      simp [s, hk, k1]
  · -- NaN
    rw [cmpIntReal_nan x y hn]
    unfold compareIntFloatAlgo
    simp [hn]

/-! ### the algorithm on concrete inputs (kernel-evaluated) -/

/-- 2^53 + 1 against 2^53 (`9007199254740993 > 9007199254740992.0`: rounding the INT to REAL would say "equal") -/
example : compareIntFloatAlgo 9007199254740993 0x4340000000000000 = .gt := by decide +kernel
/-- `i64::MAX` against 2^63 (first threshold) and `i64::MIN` against -2^63 (equal: not below the second threshold) -/
example : compareIntFloatAlgo 9223372036854775807 two63 = .lt ∧ compareIntFloatAlgo (-9223372036854775808) negTwo63 = .eq := by
  decide +kernel
/-- the fraction decides when the integer parts agree: 5 < 5.5, -5 > -5.5, 5 = 5.0, 0 = -0.0 -/
example : compareIntFloatAlgo 5 0x4016000000000000 = .lt ∧ compareIntFloatAlgo (-5) 0xC016000000000000 = .gt ∧
    compareIntFloatAlgo 5 0x4014000000000000 = .eq ∧ compareIntFloatAlgo 0 0x8000000000000000 = .eq := by decide +kernel
/-- subnormals, infinities, NaN -/
example : compareIntFloatAlgo 0 1 = .lt ∧ compareIntFloatAlgo 0 0x8000000000000001 = .gt ∧
    compareIntFloatAlgo 7 0x7ff0000000000000 = .lt ∧ compareIntFloatAlgo 7 0xfff0000000000000 = .gt ∧
    compareIntFloatAlgo 7 0x7ff8000000000000 = .lt := by decide +kernel

end F64
end Sqlgrep
