import SqlgrepModel.Model.Exec
/-
Executable SPECIFICATION of non-aggregate queries (properties C03 select level, C05, C07, C08):
output = in input order, one row per qualifying (joined) row, projections evaluated on that row alone;
DISTINCT = first occurrences; LIMIT n = first n rows. `batch` returns the spec's answer for a whole batch
run, or `none` where the specification does not fix the outcome.
-/
namespace Sqlgrep.Spec.Select
open Sqlgrep

def batch (_O : Oracles) (_qy : Query) (_q : SelectStmt) (_joined : List FileLine) (_files : List (List FileLine)) :
    Option (RunOut × String) := none

end Sqlgrep.Spec.Select
