import SqlgrepModel.Sexp
import SqlgrepModel.Codec
import SqlgrepModel.Model.ParseStmt
import SqlgrepModel.Model.Lower
/- Driver handler for the statement parser (C14, parser-level C20).
   `pstmt (<token>…)` → `ok <tree>` | `err <line> <column> <kind>` | `panic` | `fuel`
   token = `(<line> <column> <t>…)` with `<t>…` one of
     `i N` | `f BITS` | `s xHEX` | `id xHEX` | `kw name` | `o1 CP` | `o2 CP CP` | `p name`
   (`p`: null true false lp rp lsq rsq lcu rcu comma semi colon dcolon rarrow eof).
   `stmt (<token>…) (rx (xPATTERN 0|1)…)` → `ok <lowered statement>` | `perr <line> <column> <kind>` (parser error)
     | `cerr <line> <column> <kind>` (`ConvertParserTreeError`) | `panic` | `fuel`: parser + lowering
     (`Lower.lowerStatement`), the statement in the encoding of `queries::stmt_sexp` / `extract::def_sexp`.
   The rendering of trees (`POp.render`) is the canonical s-expression the harness prints for the real
   `ParserOperationTree` (every node with its location). -/
namespace Sqlgrep.Drivers.ParseStmt
open Sqlgrep

/-! ### decoding tokens -/

def keywordOfName : String → Option Keyword
  | "select" => some .select | "from" => some .from | "where" => some .where | "group" => some .group
  | "by" => some .by | "as" => some .as | "and" => some .and | "or" => some .or | "create" => some .create
  | "table" => some .table | "not" => some .not | "is" => some .is | "isnot" => some .isNot | "in" => some .in
  | "notin" => some .notIn | "having" => some .having | "inner" => some .inner | "outer" => some .outer
  | "join" => some .join | "on" => some .on | "extract" => some .extract | "default" => some .default
  | "distinct" => some .distinct | "case" => some .case | "when" => some .when | "then" => some .then
  | "else" => some .else | "end" => some .end | "limit" => some .limit
  | _ => none

def keywordName : Keyword → String
  | .select => "select" | .from => "from" | .where => "where" | .group => "group" | .by => "by" | .as => "as"
  | .and => "and" | .or => "or" | .create => "create" | .table => "table" | .not => "not" | .is => "is"
  | .isNot => "isnot" | .in => "in" | .notIn => "notin" | .having => "having" | .inner => "inner"
  | .outer => "outer" | .join => "join" | .on => "on" | .extract => "extract" | .default => "default"
  | .distinct => "distinct" | .case => "case" | .when => "when" | .then => "then" | .else => "else"
  | .end => "end" | .limit => "limit"

def punctOfName : String → Option Tok
  | "null" => some .null | "true" => some .tru | "false" => some .fls
  | "lp" => some .lp | "rp" => some .rp | "lsq" => some .lsq | "rsq" => some .rsq | "lcu" => some .lcu
  | "rcu" => some .rcu | "comma" => some .comma | "semi" => some .semi | "colon" => some .colon
  | "dcolon" => some .dcolon | "rarrow" => some .rarrow | "eof" => some .eof
  | _ => none

def charsOf (s : Sexp) : Option (List Char) := s.bytes?.bind Utf8.decode

def tokOfSexps : List Sexp → Option Tok
  | [.atom "i", n] => n.int?.map .int
  | [.atom "f", b] => b.nat?.map .float
  | [.atom "s", x] => (charsOf x).map .str
  | [.atom "id", x] => (charsOf x).map .ident
  | [.atom "kw", .atom k] => (keywordOfName k).map .kw
  | [.atom "o1", c] => c.nat?.map (fun n => .op (.single (Char.ofNat n)))
  | [.atom "o2", c, d] => do
    let c ← c.nat?
    let d ← d.nat?
    pure (.op (.dual (Char.ofNat c) (Char.ofNat d)))
  | [.atom "p", .atom n] => punctOfName n
  | _ => none

def ptokOfSexp : Sexp → Option PTok
  | .list (l :: c :: t) => do
    let l ← l.nat?
    let c ← c.nat?
    let t ← tokOfSexps t
    pure { loc := { line := l, column := c }, tok := t }
  | _ => none

/-! ### rendering -/

def showChars (cs : List Char) : String := Sexp.showBytes (Utf8.encode cs)
def showLoc (l : Loc) : String := toString l.line ++ " " ++ toString l.column
def showOp : Operator → String
  | .single c => "(o1 " ++ toString c.toNat ++ ")"
  | .dual c d => "(o2 " ++ toString c.toNat ++ " " ++ toString d.toNat ++ ")"
def showOptBool : Option Bool → String
  | none => "none" | some false => "0" | some true => "1"
def showOptChars : Option (List Char) → String
  | none => "none" | some cs => showChars cs

mutual
def renderExpr : PExpr → String
  | .value l v => "(val " ++ showLoc l ++ " " ++ v.toWire ++ ")"
  | .column l n => "(col " ++ showLoc l ++ " " ++ showChars n ++ ")"
  | .wildcard l => "(wild " ++ showLoc l ++ ")"
  | .tuple l vs => "(tuple " ++ showLoc l ++ renderExprs vs ++ ")"
  | .binop l o a b => "(bin " ++ showLoc l ++ " " ++ showOp o ++ " " ++ renderExpr a ++ " " ++ renderExpr b ++ ")"
  | .boolop l isAnd a b =>
    "(bool " ++ showLoc l ++ (if isAnd then " and " else " or ") ++ renderExpr a ++ " " ++ renderExpr b ++ ")"
  | .unop l o e => "(un " ++ showLoc l ++ " " ++ showOp o ++ " " ++ renderExpr e ++ ")"
  | .invert l e => "(inv " ++ showLoc l ++ " " ++ renderExpr e ++ ")"
  | .nullcmp l isNot a b =>
    "(nullcmp " ++ showLoc l ++ (if isNot then " isnot " else " is ") ++ renderExpr a ++ " " ++ renderExpr b ++ ")"
  | .inList l isNot e vs =>
    "(in " ++ showLoc l ++ (if isNot then " 1 " else " 0 ") ++ renderExpr e ++ " (list" ++ renderExprs vs ++ "))"
  | .call l n args d =>
    "(call " ++ showLoc l ++ " " ++ showChars n ++ " " ++ showOptBool d ++ " (list" ++ renderExprs args ++ "))"
  | .index l a i => "(idx " ++ showLoc l ++ " " ++ renderExpr a ++ " " ++ renderExpr i ++ ")"
  | .cast l e t => "(cast " ++ showLoc l ++ " " ++ renderExpr e ++ " " ++ t.toWire ++ ")"
  | .case l cs e => "(case " ++ showLoc l ++ " (list" ++ renderClauses cs ++ ") " ++ renderExpr e ++ ")"
def renderExprs : List PExpr → String
  | [] => ""
  | x :: xs => " " ++ renderExpr x ++ renderExprs xs
def renderClauses : List (PExpr × PExpr) → String
  | [] => ""
  | (c, r) :: xs => " (when " ++ renderExpr c ++ " " ++ renderExpr r ++ ")" ++ renderClauses xs
end

def renderOptExpr : Option PExpr → String
  | none => "none" | some e => renderExpr e

def renderJoin : Option PJoin → String
  | none => "none"
  | some j => "(join " ++ showChars j.joinerTable ++ " " ++ showChars j.joinerFilename ++ " " ++ showChars j.leftTable
      ++ " " ++ showChars j.leftColumn ++ " " ++ showChars j.rightTable ++ " " ++ showChars j.rightColumn
      ++ (if j.isOuter then " 1)" else " 0)")

def renderSelect (q : PSelect) : String :=
  "(select " ++ showLoc q.loc ++ (if q.distinct then " 1" else " 0")
    ++ " (list" ++ String.join (q.projections.map (fun p => " (p " ++ showOptChars p.1 ++ " " ++ renderExpr p.2 ++ ")")) ++ ") "
    ++ showChars q.fromTable ++ " " ++ showOptChars q.fromFile ++ " " ++ renderOptExpr q.filter ++ " "
    ++ (match q.groupBy with | none => "none" | some ks => "(list" ++ renderExprs ks ++ ")") ++ " "
    ++ renderOptExpr q.having ++ " " ++ renderJoin q.join ++ " "
    ++ (match q.limit with | none => "none" | some n => toString n) ++ ")"

def renderRef (r : PRegexRef) : String := showChars r.pattern ++ " " ++ toString r.group

def renderParsing : PColParsing → String
  | .regex r => "(regex " ++ renderRef r ++ ")"
  | .multiRegex rs => "(multi" ++ String.join (rs.map (fun r => " (ref " ++ renderRef r ++ ")")) ++ ")"
  | .json path => "(json" ++ String.join (path.map (fun
      | .field n => " (f " ++ showChars n ++ ")"
      | .index i => " (i " ++ toString i ++ ")")) ++ ")"

def renderColDef (c : PColDef) : String :=
  "(coldef " ++ renderParsing c.parsing ++ " " ++ showChars c.name ++ " " ++ c.type.toWire ++ " "
    ++ showOptBool c.nullable ++ " " ++ showOptBool c.trim ++ " " ++ showOptBool c.convert ++ " "
    ++ showOptBool c.microseconds ++ " " ++ (match c.default with | none => "none" | some v => v.toWire) ++ ")"

def renderCreate (c : PCreate) : String :=
  "(create " ++ showLoc c.loc ++ " " ++ showLoc c.endLoc ++ " " ++ showChars c.name
    ++ " (list" ++ String.join (c.patterns.map (fun p => " (pat " ++ showChars p.1 ++ " " ++ showChars p.2.1
        ++ (match p.2.2 with | .captures => " captures)" | .split => " split)"))) ++ ")"
    ++ " (list" ++ String.join (c.columns.map (fun d => " " ++ renderColDef d)) ++ "))"

def renderOp : POp → String
  | .select q => renderSelect q
  | .createTable c => renderCreate c
  | .multiple cs => "(multiple" ++ String.join (cs.map (fun c => " " ++ renderCreate c)) ++ ")"

def renderKind : PErrKind → String
  | .unknown => "Unknown" | .reachedEndOfTokens => "ReachedEndOfTokens" | .tooManyTokens => "TooManyTokens"
  | .intConvertError => "IntConvertError" | .floatConvertError => "FloatConvertError" | .alreadyHasDot => "AlreadyHasDot"
  | .expectedKeyword k => "(ExpectedKeyword " ++ keywordName k ++ ")"
  | .expectedAnyKeyword ks => "(ExpectedAnyKeyword" ++ String.join (ks.map (fun k => " " ++ keywordName k)) ++ ")"
  | .expectedLeftParentheses => "ExpectedLeftParentheses" | .expectedRightParentheses => "ExpectedRightParentheses"
  | .expectedLeftSquareParentheses => "ExpectedLeftSquareParentheses"
  | .expectedRightSquareParentheses => "ExpectedRightSquareParentheses"
  | .expectedExpression => "ExpectedExpression"
  | .expectedArgumentListContinuation => "ExpectedArgumentListContinuation"
  | .expectedProjectionContinuation => "ExpectedProjectionContinuation"
  | .expectedColumnDefinitionStart => "ExpectedColumnDefinitionStart"
  | .expectedColumnDefinitionContinuation => "ExpectedColumnDefinitionContinuation"
  | .expectedJsonColumnPartStart => "ExpectedJsonColumnPartStart"
  | .expectedIdentifier => "ExpectedIdentifier" | .expectedString => "ExpectedString" | .expectedInt => "ExpectedInt"
  | .expectedOperator => "ExpectedOperator"
  | .expectedSpecificOperator o => "(ExpectedSpecificOperator " ++ showOp o ++ ")"
  | .expectedTuple => "ExpectedTuple" | .expectedColon => "ExpectedColon" | .expectedDoubleColon => "ExpectedDoubleColon"
  | .expectedRightArrow => "ExpectedRightArrow" | .expectedSemiColon => "ExpectedSemiColon" | .expectedNull => "ExpectedNull"
  | .expectedColumnAccess => "ExpectedColumnAccess"
  | .notDefinedBinaryOperator o => "(NotDefinedBinaryOperator " ++ showOp o ++ ")"
  | .notDefinedUnaryOperator o => "(NotDefinedUnaryOperator " ++ showOp o ++ ")"
  | .notDefinedType n => "(NotDefinedType " ++ showChars n ++ ")"
  | .trimOnlyForString => "TrimOnlyForString" | .expectedValueForDefaultValue => "ExpectedValueForDefaultValue"
  | .expectedDefaultValueOfType t => "(ExpectedDefaultValueOfType " ++ t.toWire ++ ")"
  | .alreadyHaveWhere => "AlreadyHaveWhere" | .alreadyHaveJoin => "AlreadyHaveJoin"
  | .alreadyHaveGroupBy => "AlreadyHaveGroupBy" | .alreadyHaveHaving => "AlreadyHaveHaving"
  | .alreadyHaveLimit => "AlreadyHaveLimit"

def renderOutcome : ParseOutcome → String
  | .tree t => "ok " ++ renderOp t
  | .error e => "err " ++ showLoc e.loc ++ " " ++ renderKind e.kind
  | .fuel => "fuel"
  | .panic => "panic"

def handle (args : List Sexp) : String :=
  match args with
  | [.list toks] =>
    match toks.mapM ptokOfSexp with
    | some ts => renderOutcome (Parse.parseTokens PrecTables.code ts)
    | none => "bad-case"
  | _ => "bad-case"

/-! ### lowered statements (`queries::stmt_sexp`, `extract::def_sexp`) -/

open Lower in
def showAggKind : AggKind → String
  | .groupKey e c => "(gkey " ++ canon e ++ " " ++ hexName c ++ ")"
  | .count c d => "(count " ++ (match c with | none => "(none)" | some c => hexName c) ++ (if d then " 1)" else " 0)")
  | .min e => "(min " ++ canon e ++ ")"
  | .max e => "(max " ++ canon e ++ ")"
  | .sum e => "(sum " ++ canon e ++ ")"
  | .avg e => "(avg " ++ canon e ++ ")"
  | .stddev e v => "(stddev " ++ canon e ++ (if v then " 1)" else " 0)")
  | .percentile e p => "(percentile " ++ canon e ++ " " ++ toString p ++ ")"
  | .boolAnd e => "(booland " ++ canon e ++ ")"
  | .boolOr e => "(boolor " ++ canon e ++ ")"
  | .arrayAgg e => "(arrayagg " ++ canon e ++ ")"
  | .stringAgg e d => "(stringagg " ++ canon e ++ " " ++ Sexp.showBytes d ++ ")"

def showOptExpr : Option Expr → String
  | none => "(none)" | some e => Lower.canon e
def showOptNat : Option Nat → String
  | none => "(none)" | some n => toString n
def showFlag (b : Bool) : String := if b then "1" else "0"

open Lower in
def showSelectStmt (s : SelectStmt) : String :=
  "(select (projs" ++ String.join (s.projections.map (fun p => " (" ++ hexName p.1 ++ " " ++ canon p.2 ++ ")")) ++ ") "
    ++ showFlag s.wildcard ++ " " ++ showOptExpr s.filter ++ " " ++ showOptNat s.limit ++ " " ++ showFlag s.distinct ++ ")"

open Lower in
def showAggStmt (a : AggStmt) : String :=
  "(agg (items" ++ String.join (a.items.map (fun it => " (" ++ hexName it.name ++ " " ++ showAggKind it.kind ++ " "
      ++ showOptExpr it.transform ++ ")")) ++ ") "
    ++ showOptExpr a.filter ++ " "
    ++ (match a.groupBy with
        | none => "(none)"
        | some parts => "(groupby" ++ String.join (parts.map (fun p => " (" ++ canon p.1 ++ " " ++ hexName p.2 ++ ")")) ++ ")")
    ++ " " ++ showOptExpr a.having
    ++ " (haggs" ++ String.join (a.havingAggs.map (fun p => " (" ++ toString p.1 ++ " " ++ showAggKind p.2 ++ ")")) ++ ")"
    ++ " (hkeys" ++ String.join (a.havingKeys.map (fun c => " " ++ hexName c)) ++ ")"
    ++ " (hvisit" ++ String.join (a.havingVisit.map (fun
        | .key c => " (key " ++ hexName c ++ ")"
        | .agg id k => " (agg " ++ toString id ++ " " ++ showAggKind k ++ ")")) ++ ")"
    ++ " " ++ showOptNat a.limit ++ " " ++ showFlag a.distinct ++ ")"

open Lower in
def showFrom (fromTable : String) (fromFile : Option String) (join : Option LJoin) : String :=
  hexName fromTable ++ " " ++ (match fromFile with | none => "none" | some f => hexName f) ++ " "
    ++ (match join with
        | none => "nojoin"
        | some j => "(join " ++ hexName j.joinedTable ++ " " ++ hexName j.joinedFilename ++ " " ++ hexName j.joinedColumn
            ++ " " ++ hexName j.joinerColumn ++ " " ++ showFlag j.isOuter ++ ")")

def showRef (r : Extract.Ref) : String := Sexp.showBytes r.pattern ++ " " ++ toString r.group

def showTableDef (d : Extract.TableDef) : String :=
  "(pats" ++ String.join (d.patterns.map (fun p => " (" ++ Sexp.showBytes p.name ++ (match p.mode with | .split => " split " | .captures => " cap ")
      ++ Sexp.showBytes p.regex ++ ")")) ++ ") (cols"
    ++ String.join (d.columns.map (fun c => " (col "
      ++ (match c.parsing with
          | .regex r => "(re " ++ showRef r ++ ")"
          | .multi rs => "(multi" ++ String.join (rs.map (fun r => " (" ++ showRef r ++ ")")) ++ ")"
          | .json a => "(json" ++ String.join (a.steps.map (fun
              | .field n => " (f " ++ Sexp.showBytes n ++ ")"
              | .index i => " (i " ++ toString i ++ ")")) ++ ")")
      ++ " " ++ c.type.toWire ++ " " ++ showFlag c.options.nullable ++ " " ++ showFlag c.options.trim ++ " "
      ++ showFlag c.options.convert ++ " " ++ showFlag c.options.microseconds ++ " "
      ++ (match c.options.default with | none => "none" | some v => v.toWire) ++ ")")) ++ ")"

def showLStmt1 : LStmt → String
  | .select s f file j => "(lowered " ++ showSelectStmt s ++ " " ++ showFrom f file j ++ ")"
  | .aggregate a f file j => "(lowered " ++ showAggStmt a ++ " " ++ showFrom f file j ++ ")"
  | .createTable n d names => "(table " ++ Lower.hexName n ++ " " ++ showTableDef d ++ " (names"
      ++ String.join (names.map (fun c => " " ++ Lower.hexName c)) ++ "))"
  | .multiple _ => "(multiple)"

def showLStmt : LStmt → String
  | .multiple ss => "(multiple" ++ String.join (ss.map (fun s => " " ++ showLStmt1 s)) ++ ")"
  | s => showLStmt1 s

def renderCKind : CErrKind → String
  | .undefinedOperator o => "(UndefinedOperator " ++ showOp o ++ ")"
  | .expectedArgument => "ExpectedArgument" | .tooManyArguments => "TooManyArguments"
  | .expectedColumnAccess => "ExpectedColumnAccess" | .unexpectedTuple => "UnexpectedTuple"
  | .undefinedAggregate => "UndefinedAggregate" | .tooManyAggregates => "TooManyAggregates"
  | .undefinedStatement => "UndefinedStatement" | .undefinedExpression => "UndefinedExpression"
  | .undefinedFunction n => "(UndefinedFunction " ++ showChars n ++ ")"
  | .invalidPattern => "InvalidPattern" | .havingClauseNotPossible => "HavingClauseNotPossible"
  | .invalidOnJoin => "InvalidOnJoin" | .invalidJoinerTable t => "(InvalidJoinerTable " ++ showChars t ++ ")"
  | .expectedFloat => "ExpectedFloat" | .expectedString => "ExpectedString"

def regexTable (xs : List Sexp) : Option (List (List Char × Bool)) :=
  xs.mapM (fun (x : Sexp) => match x with
    | .list [p, .atom v] => do pure (← charsOf p, v == "1")
    | _ => none)

def handleStmt (args : List Sexp) : String :=
  match args with
  | [.list toks, .list (.atom "rx" :: rx)] =>
    match toks.mapM ptokOfSexp, regexTable rx with
    | some ts, some table =>
      match Parse.parseTokens PrecTables.code ts with
      | .tree t =>
        match Lower.lowerStatement (fun p => ((table.find? (·.1 == p)).map (·.2)).getD true) t with
        | .ok s => "ok " ++ showLStmt s
        | .err e => "cerr " ++ showLoc e.loc ++ " " ++ renderCKind e.kind
        | .panic _ => "panic"
      | .error e => "perr " ++ showLoc e.loc ++ " " ++ renderKind e.kind
      | .fuel => "fuel"
      | .panic => "panic"
    | _, _ => "bad-case"
  | _ => "bad-case"

end Sqlgrep.Drivers.ParseStmt
