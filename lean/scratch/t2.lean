import SqlgrepModel.Model.ParseStmt
namespace Sqlgrep
open Parse

def PRes.Adv {α} (r : PRes α) (n : Nat) : Prop := r ≠ .fuel ∧ ∀ a s', r = .ok a s' → s'.remaining < n
def PRes.Keep {α} (r : PRes α) (n : Nat) : Prop := r ≠ .fuel ∧ ∀ a s', r = .ok a s' → s'.remaining ≤ n

theorem rem_pos (s : PSt) : 1 ≤ s.remaining := by simp [PSt.remaining]

theorem next_ok {s : PSt} {a s'} (h : next s = .ok a s') : s'.remaining + 1 = s.remaining := by
  unfold next mkErr at h
  split at h
  · simp at h
  · rename_i heq; simp at h; subst h; simp [PSt.remaining, heq]
theorem next_nofuel (s : PSt) : next s ≠ .fuel := by
  unfold next mkErr; split <;> simp
theorem expectConsume_ok {t k} {s : PSt} {a s'} (h : expectConsume t k s = .ok a s') : s'.remaining + 1 = s.remaining := by
  unfold expectConsume mkErr at h
  split at h
  · exact next_ok h
  · simp at h
theorem expectConsume_nofuel (t k) (s : PSt) : expectConsume t k s ≠ .fuel := by
  unfold expectConsume mkErr; split
  · exact next_nofuel s
  · simp
theorem consumeIdentifier_ok {s : PSt} {a s'} (h : consumeIdentifier s = .ok a s') : s'.remaining + 1 = s.remaining := by
  unfold consumeIdentifier mkErr PRes.bind at h
  split at h
  · split at h <;> simp_all
    rename_i h2; have := next_ok h2; omega
  · simp at h
theorem consumeIdentifier_nofuel (s : PSt) : consumeIdentifier s ≠ .fuel := by
  unfold consumeIdentifier mkErr PRes.bind
  split
  · split <;> simp_all [next_nofuel]
  · simp
theorem tokenPrecedence_ok {T} {s : PSt} {a s'} (h : tokenPrecedence T s = .ok a s') : s' = s := by
  unfold tokenPrecedence mkErr at h
  split at h
  · split at h <;> simp_all
  · simp_all
theorem tokenPrecedence_nofuel (T) (s : PSt) : tokenPrecedence T s ≠ .fuel := by
  unfold tokenPrecedence mkErr
  split
  · split <;> simp
  · simp


structure IH (T : PrecTables) (fuel : Nat) : Prop where
  e : ∀ s, 3 * s.remaining ≤ fuel → (parseExpr T fuel s).Adv s.remaining
  r : ∀ prec lhs s, 3 * s.remaining + 2 ≤ fuel → (parseRhs T fuel prec lhs s).Keep s.remaining
  u : ∀ s, 3 * s.remaining ≤ fuel + 1 → (parseUnary T fuel s).Adv s.remaining
  p : ∀ s, 3 * s.remaining ≤ fuel + 2 → (parsePrimary T fuel s).Adv s.remaining
  c : ∀ loc cl s, 3 * s.remaining ≤ fuel + 1 → (parseCase T fuel loc cl s).Adv s.remaining
  l : ∀ close acc s, 3 * s.remaining + 1 ≤ fuel → (parseList T fuel close acc s).Adv s.remaining

theorem step_rhs (T : PrecTables) (fuel : Nat) (ih : IH T fuel) :
    ∀ prec lhs s, 3 * s.remaining + 2 ≤ fuel + 1 → (parseRhs T (fuel + 1) prec lhs s).Keep s.remaining := by
  intro prec lhs s hb
  have ihe := ih.e; have ihr := ih.r; have ihu := ih.u; have ihl := ih.l
  rw [parseRhs]
  repeat' ((try dsimp only); split)
  all_goals grind [PRes.Adv, PRes.Keep, next_ok, next_nofuel, expectConsume_ok, expectConsume_nofuel, tokenPrecedence_ok, tokenPrecedence_nofuel, rem_pos]
