import SqlgrepModel.Lemmas.SelectRun
/-
Aggregate statements: neither LIMIT nor DISTINCT takes part in updating the aggregation state or in computing
the cells of the result; LIMIT only cuts the final table, DISTINCT only filters the rows of each table.
-/
namespace Sqlgrep
open Sqlgrep.Spec.Select

/-- two aggregate statements that differ at most in LIMIT and DISTINCT -/
structure SameAgg (q q' : AggStmt) : Prop where
  items : q'.items = q.items
  filter : q'.filter = q.filter
  groupBy : q'.groupBy = q.groupBy
  having : q'.having = q.having
  havingAggs : q'.havingAggs = q.havingAggs
  havingVisit : q'.havingVisit = q.havingVisit

def AggStmt.withLimit (q : AggStmt) (lim : Option Nat) : AggStmt := { q with limit := lim }
def AggStmt.withDistinct (q : AggStmt) (d : Bool) : AggStmt := { q with distinct := d }

@[simp] theorem AggStmt.withLimit_limit (q : AggStmt) (lim : Option Nat) : (q.withLimit lim).limit = lim := rfl
@[simp] theorem AggStmt.withLimit_distinct (q : AggStmt) (lim : Option Nat) : (q.withLimit lim).distinct = q.distinct := rfl
@[simp] theorem AggStmt.withDistinct_distinct (q : AggStmt) (d : Bool) : (q.withDistinct d).distinct = d := rfl
@[simp] theorem AggStmt.withDistinct_limit (q : AggStmt) (d : Bool) : (q.withDistinct d).limit = q.limit := rfl

theorem sameAgg_with (q : AggStmt) (lim : Option Nat) (d : Bool) : SameAgg q { q with limit := lim, distinct := d } :=
  ⟨rfl, rfl, rfl, rfl, rfl, rfl⟩

variable (O : Oracles) {q q' : AggStmt} (h : SameAgg q q')
include h

theorem validateGroupKey_same (canon : String) : validateGroupKey q' canon = validateGroupKey q canon := by
  simp only [validateGroupKey, h.groupBy]

theorem cellStep_same (env : Env) (k : AggKind) (c : Cell) : cellStep O q' env k c = cellStep O q env k c := by
  cases k <;> simp only [cellStep, validateGroupKey_same h]

theorem updateAggregate_same (env : Env) (key : List Value) (i : Nat) (k : AggKind) (st : AggState) :
    updateAggregate O q' env key i k st = updateAggregate O q env key i k st := by
  simp only [updateAggregate, cellStep_same O h]

theorem updateAggregates_same (env : Env) (key : List Value) (l : List (Nat × AggKind)) (st : AggState) :
    updateAggregates O q' env key l st = updateAggregates O q env key l st := by
  induction l generalizing st with
  | nil => rfl
  | cons p rest ih =>
    obtain ⟨i, k⟩ := p
    simp only [updateAggregates, updateAggregate_same O h, ih]

theorem havingUpdates_same (env : Env) (key : List Value) (l : List HavingRef) (j : Nat) (st : AggState) :
    havingUpdates O q' env key l j st = havingUpdates O q env key l j st := by
  induction l generalizing j st with
  | nil => rfl
  | cons r rest ih =>
    cases r with
    | key canon => simp only [havingUpdates, validateGroupKey_same h, ih]
    | agg id kind => simp only [havingUpdates, updateAggregate_same O h, h.items, ih]

theorem aggUpdateRow_same (st : AggState) (env : Env) : aggUpdateRow O q' st env = aggUpdateRow O q st env := by
  simp only [aggUpdateRow, h.filter, h.groupBy, h.items, h.having, h.havingVisit, updateAggregates_same O h,
    havingUpdates_same O h]

theorem aggEnvs_same (envs : List (Env × List String)) (st : AggState) (any : Bool) :
    aggEnvs O q' envs st any = aggEnvs O q envs st any := by
  induction envs generalizing st any with
  | nil => rfl
  | cons p rest ih =>
    obtain ⟨env, keys⟩ := p
    simp only [aggEnvs, aggUpdateRow_same O h, ih]

theorem keyMapping_same : keyMapping q' = keyMapping q := by
  simp only [keyMapping, h.groupBy]

theorem cellOf_same (idx : Nat) (item : AggItem) (key : List Value) (subs : List (Nat × Value)) :
    cellOf O q' idx item key subs = cellOf O q idx item key subs := by
  simp only [cellOf, keyMapping_same h]

theorem rowOf_same (key : List Value) (subs : List (Nat × Value)) (l : List (Nat × AggItem)) :
    rowOf O q' key subs l = rowOf O q key subs l := by
  induction l with
  | nil => rfl
  | cons p rest ih =>
    obtain ⟨i, item⟩ := p
    simp only [rowOf, cellOf_same O h, ih]

theorem aggColumn_same (i : Nat) (item : AggItem) (gs : List (List Value × List (Nat × Value))) :
    aggColumn O q' i item gs = aggColumn O q i item gs := by
  induction gs with
  | nil => rfl
  | cons g rest ih =>
    obtain ⟨key, subs⟩ := g
    simp only [aggColumn, cellOf_same O h, ih]

theorem aggColumns_same (gs : List (List Value × List (Nat × Value))) (l : List (Nat × AggItem)) :
    aggColumns O q' gs l = aggColumns O q gs l := by
  induction l with
  | nil => rfl
  | cons p rest ih =>
    obtain ⟨i, item⟩ := p
    simp only [aggColumns, aggColumn_same O h, ih]

theorem acceptGroup_same (having : Expr) (key : List Value) (subs : List (Nat × Value)) :
    acceptGroup O q' having key subs = acceptGroup O q having key subs := by
  simp only [acceptGroup, keyMapping_same h, h.havingAggs, h.items]

omit h in
/-- map over a successful outcome -/
def Outcome.mapOk {α β : Type} (f : α → β) (o : Outcome α) : Outcome β := o.bind (fun a => .ok (f a))

/-- same statement up to LIMIT (DISTINCT equal): same result rows -/
theorem resultRows_same (hd : q'.distinct = q.distinct) (gs : List (List Value × List (Nat × Value)))
    (seen : List (List Value)) : resultRows O q' gs seen = resultRows O q gs seen := by
  induction gs generalizing seen with
  | nil => rfl
  | cons g rest ih =>
    obtain ⟨key, subs⟩ := g
    simp only [resultRows, rowOf_same O h, h.having, acceptGroup_same O h, hd, h.items, ih]

theorem aggResult_same (hd : q'.distinct = q.distinct) (st : AggState) : aggResult O q' st = aggResult O q st := by
  simp only [aggResult, aggColumns_same O h, resultRows_same O h hd, h.items]

omit h in
/-- the HAVING decision for one group -/
def keepOf (O : Oracles) (q : AggStmt) (key : List Value) (subs : List (Nat × Value)) : Outcome Bool :=
  match q.having with
  | some hv => acceptGroup O q hv key subs
  | none => .ok true

omit h in
theorem resultRows_cons_keepOf (q : AggStmt) (key : List Value) (subs : List (Nat × Value))
    (rest : List (List Value × List (Nat × Value))) (seen : List (List Value)) :
    resultRows O q ((key, subs) :: rest) seen =
      (rowOf O q key subs (enumFrom 0 q.items)).bind (fun row =>
        (keepOf O q key subs).bind (fun keep =>
          if !keep then resultRows O q rest seen
          else if q.distinct then
            (if seen.any (tupleSame row) then resultRows O q rest seen
             else (resultRows O q rest (row :: seen)).bind (fun more => .ok (row :: more)))
          else (resultRows O q rest seen).bind (fun more => .ok (row :: more)))) := by
  simp only [resultRows, keepOf, bind, pure, distinctAdd]
  cases rowOf O q key subs (enumFrom 0 q.items) with
  | ok row =>
    simp only [Outcome.bind]
    cases q.having with
    | none =>
      simp only
      by_cases hs : seen.any (tupleSame row) = true <;> simp [hs]
    | some hv =>
      simp only
      cases acceptGroup O q hv key subs with
      | ok keep =>
        simp only
        by_cases hs : seen.any (tupleSame row) = true <;> simp [hs]
      | error k => rfl
      | panic s => rfl
      | oracleMissing s => rfl
  | error k => rfl
  | panic s => rfl
  | oracleMissing s => rfl

theorem keepOf_same (key : List Value) (subs : List (Nat × Value)) : keepOf O q' key subs = keepOf O q key subs := by
  simp only [keepOf, h.having, acceptGroup_same O h]

omit h in
/-- **DISTINCT on a result table** = first occurrences of the rows of the table computed without DISTINCT
(HAVING or not); errors are the same -/
theorem resultRows_distinct (h : SameAgg q q') (hd' : q'.distinct = true) (hd : q.distinct = false)
    (gs : List (List Value × List (Nat × Value))) (seen seen0 : List (List Value)) :
    resultRows O q' gs seen =
      Outcome.mapOk (dedupFrom tupleSame seen) (resultRows O q gs seen0) := by
  induction gs generalizing seen with
  | nil => rfl
  | cons g rest ih =>
    obtain ⟨key, subs⟩ := g
    rw [resultRows_cons_keepOf, resultRows_cons_keepOf, rowOf_same O h, keepOf_same O h, h.items, hd, hd']
    cases rowOf O q key subs (enumFrom 0 q.items) with
    | ok row =>
      simp only [Outcome.bind]
      cases keepOf O q key subs with
      | ok keep =>
        simp only
        cases keep with
        | false => simp only [Bool.not_false, if_true]; exact ih seen
        | true =>
          simp only [Bool.not_true, Bool.false_eq_true, if_false, if_true]
          by_cases hs : seen.any (tupleSame row) = true
          · simp only [hs, if_true]
            rw [ih seen]
            cases resultRows O q rest seen0 <;> simp [Outcome.mapOk, Outcome.bind, dedupFrom, hs]
          · simp only [hs, Bool.false_eq_true, if_false]
            rw [ih (row :: seen)]
            cases resultRows O q rest seen0 <;> simp [Outcome.mapOk, Outcome.bind, dedupFrom, hs]
      | error k => rfl
      | panic s => rfl
      | oracleMissing s => rfl
    | error k => rfl
    | panic s => rfl
    | oracleMissing s => rfl

omit h in
/-- the whole result table with DISTINCT is the table without, each distinct row once at its first occurrence
(fresh memory per table) -/
theorem aggResult_distinct (h : SameAgg q q') (hd' : q'.distinct = true) (hd : q.distinct = false) (st : AggState) :
    aggResult O q' st =
      Outcome.mapOk (fun p => (p.1, { p.2 with rows := dedupFirst tupleSame p.2.rows })) (aggResult O q st) := by
  simp only [aggResult, aggColumns_same O h, h.items, resultRows_distinct O h hd' hd _ [] [], bind, pure]
  cases aggColumns O q (publishPercentiles st).vals (enumFrom 0 q.items) with
  | ok u =>
    simp only [Outcome.bind]
    cases resultRows O q (publishPercentiles st).vals [] <;> rfl
  | error k => rfl
  | panic s => rfl
  | oracleMissing s => rfl

omit h in
/-- `finalResult` = the result table, cut to the first n rows by LIMIT n -/
theorem finalResult_eq (q : AggStmt) (es : EngineState) :
    finalResult O q es =
      Outcome.mapOk (fun p => match q.limit with
        | some n => { p.2 with rows := p.2.rows.take n }
        | none => p.2) (aggResult O q es.agg) := by
  simp only [finalResult, bind, pure, Outcome.mapOk]
  cases aggResult O q es.agg <;> rfl

/-! ### the batch loop of an aggregate statement -/

omit h in
theorem executeLine_congr_runFile (O : Oracles) (qy qy' : Query) (idx : JoinIndex) (w : Bool)
    (he : ∀ es l, executeLine O qy' idx w es l = executeLine O qy idx w es l) (stopAt : Option Nat)
    (fls : List FileLine) (ls : LoopState) :
    runFile O qy' idx w stopAt fls ls = runFile O qy idx w stopAt fls ls := by
  induction fls generalizing ls with
  | nil => rfl
  | cons fl rest ih =>
    simp only [runFile, he]
    split
    · rfl
    · split
      · rfl
      · split
        · split
          · rfl
          · exact ih _
        · rfl

omit h in
theorem executeLine_congr_runFiles (O : Oracles) (qy qy' : Query) (idx : JoinIndex) (w : Bool)
    (he : ∀ es l, executeLine O qy' idx w es l = executeLine O qy idx w es l)
    (hr : ∀ es, reachedLimit qy' es = reachedLimit qy es) (stopAt : Option Nat)
    (files : List (List FileLine)) (ls : LoopState) :
    runFiles O qy' idx w stopAt files ls = runFiles O qy idx w stopAt files ls := by
  induction files generalizing ls with
  | nil => rfl
  | cons f rest ih =>
    simp only [runFiles, hr, executeLine_congr_runFile O qy qy' idx w he]
    split
    · rfl
    · split
      · rfl
      · exact ih _

/-- the same query with another aggregate statement -/
def Query.withAgg (qy : Query) (q : AggStmt) : Query := { qy with stmt := .aggregate q }

omit h in
/-- update-only execution (batch mode) does not look at LIMIT or DISTINCT -/
theorem executeLine_agg_update_same (h : SameAgg q q') (qy : Query) (hq : qy.stmt = .aggregate q) (idx : JoinIndex)
    (es : EngineState) (l : Line) :
    executeLine O (qy.withAgg q') idx false es l = executeLine O qy idx false es l := by
  have e : ∀ ao, lineEnvs (qy.withAgg q') idx ao l = lineEnvs qy idx ao l := fun _ => rfl
  have e2 : (qy.withAgg q').stmt = .aggregate q' := rfl
  simp only [executeLine, e2, hq, e, aggEnvs_same O h, Bool.false_eq_true, if_false]

omit h in
/-- update-only execution never produces a result and never reports the limit -/
theorem executeLine_agg_update_out (qy : Query) (hq : qy.stmt = .aggregate q) (idx : JoinIndex)
    (es es1 : EngineState) (l : Line) (lo : LineOut) (hx : executeLine O qy idx false es l = .ok (es1, lo)) :
    lo.result = none ∧ lo.reachedLimit = false ∧ es1.numOut = es.numOut ∧ es1.seen = es.seen := by
  simp only [executeLine, hq, Bool.false_eq_true, if_false] at hx
  split at hx
  · simp only [Outcome.ok.injEq, Prod.mk.injEq] at hx
    obtain ⟨rfl, rfl⟩ := hx
    exact ⟨rfl, rfl, rfl, rfl⟩
  · simp only [bind, pure] at hx
    cases he : lineEnvs qy idx false l with
    | ok envs =>
      rw [he] at hx
      simp only [Outcome.bind] at hx
      cases ha : aggEnvs O q envs es.agg false with
      | ok p =>
        rw [ha] at hx
        simp only [Outcome.ok.injEq, Prod.mk.injEq] at hx
        obtain ⟨rfl, rfl⟩ := hx
        exact ⟨rfl, rfl, rfl, rfl⟩
      | error k => rw [ha] at hx; cases hx
      | panic s => rw [ha] at hx; cases hx
      | oracleMissing s => rw [ha] at hx; cases hx
    | error k => rw [he] at hx; cases hx
    | panic s => rw [he] at hx; cases hx
    | oracleMissing s => rw [he] at hx; cases hx

omit h in
theorem failWith_printed {α : Type} (ro : RunOut) (o : Outcome α) : (failWith ro o).printed = ro.printed := by
  cases o <;> rfl

omit h in
theorem runFile_agg_printed (qy : Query) (hq : qy.stmt = .aggregate q) (idx : JoinIndex) (stopAt : Option Nat)
    (fls : List FileLine) (ls : LoopState) :
    (runFile O qy idx false stopAt fls ls).out.printed = ls.out.printed := by
  induction fls generalizing ls with
  | nil => rfl
  | cons fl rest ih =>
    simp only [runFile]
    split
    · rfl
    · split
      · rfl
      · split
        · rename_i es1 lo hx
          obtain ⟨h1, h2, _, _⟩ := executeLine_agg_update_out O qy hq idx _ es1 fl.line lo hx
          simp only [h1, h2, Bool.false_eq_true, if_false, List.append_nil]
          rw [ih]
        · exact failWith_printed _ _

omit h in
theorem runFiles_agg_printed (qy : Query) (hq : qy.stmt = .aggregate q) (idx : JoinIndex) (stopAt : Option Nat)
    (files : List (List FileLine)) (ls : LoopState) :
    (runFiles O qy idx false stopAt files ls).out.printed = ls.out.printed := by
  induction files generalizing ls with
  | nil => rfl
  | cons f rest ih =>
    simp only [runFiles]
    split
    · rfl
    · split
      · exact runFile_agg_printed O qy hq idx stopAt f ls
      · rw [ih, runFile_agg_printed O qy hq idx stopAt f ls]

omit h in
theorem printResult_single (r : RowOut) : printResult r true = r.rows.map (renderRecord r.columns) := by
  simp [printResult]

omit h in
/-- **batch aggregate with LIMIT n**: everything is read (same lines counted, same state), and the printed table is
the first n records of the table printed without LIMIT -/
theorem runBatch_agg_limit (qy : Query) (q : AggStmt) (n : Nat) (joined : List FileLine) (files : List (List FileLine))
    (hu : hasFailed (runBatch O (qy.withAgg (q.withLimit none)) joined files none) = false) :
    runBatch O (qy.withAgg (q.withLimit (some n))) joined files none =
      { runBatch O (qy.withAgg (q.withLimit none)) joined files none with
        printed := (runBatch O (qy.withAgg (q.withLimit none)) joined files none).printed.take n } := by
  have hs : SameAgg (q.withLimit none) (q.withLimit (some n)) := ⟨rfl, rfl, rfl, rfl, rfl, rfl⟩
  have hj : joinIndexOf (qy.withAgg (q.withLimit (some n))) joined =
      joinIndexOf (qy.withAgg (q.withLimit none)) joined := rfl
  rw [runBatch_eq] at hu ⊢
  rw [runBatch_eq, hj]
  cases hidx : joinIndexOf (qy.withAgg (q.withLimit none)) joined with
  | ok idx =>
    rw [hidx] at hu
    simp only at hu ⊢
    have hq1 : (qy.withAgg (q.withLimit none)).stmt = .aggregate (q.withLimit none) := rfl
    have hq2 : (qy.withAgg (q.withLimit (some n))).stmt = .aggregate (q.withLimit (some n)) := rfl
    have hloop : runFiles O (qy.withAgg (q.withLimit (some n))) idx false none files {} =
        runFiles O (qy.withAgg (q.withLimit none)) idx false none files {} :=
      executeLine_congr_runFiles O _ _ idx false
        (fun es l => executeLine_agg_update_same O hs (qy.withAgg (q.withLimit none)) hq1 idx es l)
        (fun _ => rfl) none files {}
    have hpr := runFiles_agg_printed O (qy.withAgg (q.withLimit none)) hq1 idx none files {}
    simp only [batchWithIndex, hq1, hq2, Bool.not_true, hloop] at hu ⊢
    generalize runFiles O (qy.withAgg (q.withLimit none)) idx false none files {} = ls at hu hpr ⊢
    by_cases hf : hasFailed ls.out = true
    · simp only [hf, if_true] at hu
      cases hu
    · simp only [hf, Bool.false_eq_true, if_false] at hu ⊢
      rw [finalResult_eq, finalResult_eq, aggResult_same O hs rfl] at *
      cases har : aggResult O (q.withLimit none) ls.es.agg with
      | ok p =>
        simp only [Outcome.mapOk, Outcome.bind, printResult_single, AggStmt.withLimit_limit]
        have : ls.out.printed = [] := hpr
        simp [this, List.map_take]
      | error k => rw [har] at hu; simp [Outcome.mapOk, Outcome.bind, failWith, hasFailed] at hu
      | panic s => rw [har] at hu; simp [Outcome.mapOk, Outcome.bind, failWith, hasFailed] at hu
      | oracleMissing s => rw [har] at hu; simp [Outcome.mapOk, Outcome.bind, failWith, hasFailed] at hu
  | error k => rw [hidx] at hu; simp [failWith, hasFailed] at hu
  | panic s => rw [hidx] at hu; simp [failWith, hasFailed] at hu
  | oracleMissing s => rw [hidx] at hu; simp [failWith, hasFailed] at hu

end Sqlgrep
