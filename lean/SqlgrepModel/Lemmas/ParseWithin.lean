import SqlgrepModel.Lemmas.ParseFuel
/-
Location half of C14: the parser's state always is a suffix of the token vector it was started on, and every error it
reports carries the location of one of those tokens (the current one, or one it saved earlier).

`s.Suffix toks` : `s.cur :: s.rest` is a suffix of `toks`.
`r.Within toks` : an `ok`/`err` result's state is a suffix of `toks`, and an error's location is a token location.
-/
namespace Sqlgrep

def PSt.Suffix (s : PSt) (toks : List PTok) : Prop := (s.cur :: s.rest) <:+ toks

def TokLoc (toks : List PTok) (l : Loc) : Prop := l ∈ toks.map (·.loc)

def PRes.Within {α : Type} (r : PRes α) (toks : List PTok) : Prop :=
  (∀ a s', r = .ok a s' → s'.Suffix toks) ∧ (∀ e s', r = .err e s' → s'.Suffix toks ∧ TokLoc toks e.loc)

namespace Parse

theorem suffix_loc {s : PSt} {toks : List PTok} (h : s.Suffix toks) : TokLoc toks s.cur.loc := by
  unfold PSt.Suffix at h
  unfold TokLoc
  have : s.cur ∈ toks := h.subset (by simp)
  exact List.mem_map_of_mem this

theorem within_err {α : Type} {e : PErr} {s : PSt} {toks} (hs : s.Suffix toks) (hl : TokLoc toks e.loc) :
    (PRes.err e s : PRes α).Within toks := by
  simp [PRes.Within, hs, hl]
theorem within_mkErr {α : Type} {k : PErrKind} {s : PSt} {toks} (hs : s.Suffix toks) :
    (mkErr s k : PRes α).Within toks := within_err hs (suffix_loc hs)
theorem within_ok {α : Type} {a : α} {s : PSt} {toks} (hs : s.Suffix toks) : (PRes.ok a s).Within toks := by
  simp [PRes.Within, hs]
theorem within_fuel {α : Type} {toks} : (PRes.fuel : PRes α).Within toks := by simp [PRes.Within]

theorem next_within {s : PSt} {toks} (h : s.Suffix toks) : (next s).Within toks := by
  unfold next
  split
  · exact within_mkErr h
  · rename_i t r heq
    apply within_ok
    unfold PSt.Suffix at *
    simp only
    rw [heq] at h
    exact (List.suffix_cons _ _).trans h

theorem expectConsume_within {t k} {s : PSt} {toks} (h : s.Suffix toks) : (expectConsume t k s).Within toks := by
  unfold expectConsume
  split
  · exact next_within h
  · exact within_mkErr h

theorem expectConsumeOp_within {o} {s : PSt} {toks} (h : s.Suffix toks) : (expectConsumeOp o s).Within toks :=
  expectConsume_within h

theorem bind_ok_within {α β : Type} {x : PRes α} {b : β} {toks} (h : x.Within toks) :
    (x.bind (fun _ s => .ok b s)).Within toks := by
  unfold PRes.bind
  split
  · rename_i a s; exact within_ok (h.1 a s rfl)
  · rename_i e s; exact within_err (h.2 e s rfl).1 (h.2 e s rfl).2
  · exact within_fuel

theorem consumeIdentifier_within {s : PSt} {toks} (h : s.Suffix toks) : (consumeIdentifier s).Within toks := by
  unfold consumeIdentifier
  split
  · exact bind_ok_within (next_within h)
  · exact within_mkErr h

theorem consumeString_within {s : PSt} {toks} (h : s.Suffix toks) : (consumeString s).Within toks := by
  unfold consumeString
  split
  · exact bind_ok_within (next_within h)
  · exact within_mkErr h

theorem consumeInt_within {s : PSt} {toks} (h : s.Suffix toks) : (consumeInt s).Within toks := by
  unfold consumeInt
  split
  · exact bind_ok_within (next_within h)
  · exact within_mkErr h

theorem tokenPrecedence_within {T} {s : PSt} {toks} (h : s.Suffix toks) : (tokenPrecedence T s).Within toks := by
  unfold tokenPrecedence
  split
  · split
    · exact within_ok h
    · exact within_mkErr h
  · exact within_ok h

theorem combine_err {l : Loc} {op : Tok} {a b : PExpr} {e : PErr} (h : combine l op a b = .error e) : e.loc = l := by
  unfold combine at h
  split at h
  all_goals (try split at h)
  all_goals (try split at h)
  all_goals (first | (cases h; rfl) | simp at h)

grind_pattern next_within => next s, s.Suffix toks
grind_pattern expectConsume_within => expectConsume t k s, s.Suffix toks
grind_pattern expectConsumeOp_within => expectConsumeOp o s, s.Suffix toks
grind_pattern consumeIdentifier_within => consumeIdentifier s, s.Suffix toks
grind_pattern consumeString_within => consumeString s, s.Suffix toks
grind_pattern consumeInt_within => consumeInt s, s.Suffix toks
grind_pattern tokenPrecedence_within => tokenPrecedence T s, s.Suffix toks

/-- the induction hypothesis for the six expression functions at one fuel value -/
structure LocIH (T : PrecTables) (toks : List PTok) (fuel : Nat) : Prop where
  e : ∀ s, s.Suffix toks → (parseExpr T fuel s).Within toks
  r : ∀ prec lhs s, s.Suffix toks → (parseRhs T fuel prec lhs s).Within toks
  u : ∀ s, s.Suffix toks → (parseUnary T fuel s).Within toks
  p : ∀ s, s.Suffix toks → (parsePrimary T fuel s).Within toks
  c : ∀ loc cl s, s.Suffix toks → (parseCase T fuel loc cl s).Within toks
  l : ∀ close acc s, s.Suffix toks → (parseList T fuel close acc s).Within toks

/-- leaves: the facts about the primitives + the induction hypotheses -/
macro "lleaf" "[" ls:Lean.Parser.Tactic.grindParam,* "]" : tactic => `(tactic| first
  | exact within_fuel
  | grind (gen := 40) (ematch := 40) [PRes.Within, PRes.bind, mkErr, suffix_loc, combine_err, $ls,*])

theorem loc_step_expr (T : PrecTables) (toks : List PTok) (fuel : Nat) (ih : LocIH T toks fuel) :
    ∀ s, s.Suffix toks → (parseExpr T (fuel + 1) s).Within toks := by
  intro s hs
  have ihr := ih.r; have ihu := ih.u
  rw [parseExpr]
  psplit
  all_goals lleaf []

theorem loc_step_rhs (T : PrecTables) (toks : List PTok) (fuel : Nat) (ih : LocIH T toks fuel) :
    ∀ prec lhs s, s.Suffix toks → (parseRhs T (fuel + 1) prec lhs s).Within toks := by
  intro prec lhs s hs
  have ihe := ih.e; have ihr := ih.r; have ihu := ih.u; have ihl := ih.l
  rw [parseRhs]
  psplit
  all_goals lleaf []

theorem loc_step_unary (T : PrecTables) (toks : List PTok) (fuel : Nat) (ih : LocIH T toks fuel) :
    ∀ s, s.Suffix toks → (parseUnary T (fuel + 1) s).Within toks := by
  intro s hs
  have ihr := ih.r; have ihu := ih.u; have ihp := ih.p
  rw [parseUnary]
  psplit
  all_goals lleaf []

set_option maxHeartbeats 1000000 in
theorem loc_step_primary (T : PrecTables) (toks : List PTok) (fuel : Nat) (ih : LocIH T toks fuel) :
    ∀ s, s.Suffix toks → (parsePrimary T (fuel + 1) s).Within toks := by
  intro s hs
  have ihe := ih.e; have ihc := ih.c; have ihl := ih.l
  rw [parsePrimary]
  simp only [PRes.bind]
  psplit
  all_goals lleaf []

theorem loc_step_case (T : PrecTables) (toks : List PTok) (fuel : Nat) (ih : LocIH T toks fuel) :
    ∀ loc cl s, s.Suffix toks → (parseCase T (fuel + 1) loc cl s).Within toks := by
  intro loc cl s hs
  have ihe := ih.e; have ihc := ih.c
  rw [parseCase]
  psplit
  all_goals lleaf []

theorem loc_step_list (T : PrecTables) (toks : List PTok) (fuel : Nat) (ih : LocIH T toks fuel) :
    ∀ close acc s, s.Suffix toks → (parseList T (fuel + 1) close acc s).Within toks := by
  intro close acc s hs
  have ihe := ih.e; have ihl := ih.l
  rw [parseList]
  simp only [PRes.bind]
  psplit
  all_goals lleaf []

theorem locIH_all (T : PrecTables) (toks : List PTok) : ∀ fuel, LocIH T toks fuel := by
  intro fuel
  induction fuel with
  | zero =>
    constructor
    · intro s _; rw [parseExpr]; exact within_fuel
    · intro p l s _; rw [parseRhs]; exact within_fuel
    · intro s _; rw [parseUnary]; exact within_fuel
    · intro s _; rw [parsePrimary]; exact within_fuel
    · intro l c s _; rw [parseCase]; exact within_fuel
    · intro c a s _; rw [parseList]; exact within_fuel
  | succ n ih =>
    exact ⟨loc_step_expr T toks n ih, loc_step_rhs T toks n ih, loc_step_unary T toks n ih,
           loc_step_primary T toks n ih, loc_step_case T toks n ih, loc_step_list T toks n ih⟩

end Parse
end Sqlgrep
