import SqlgrepModel.Lemmas.LexRun
/-
Words: letter case of ASCII words (`applyCase`, `lower`), facts about the keyword table, and what the code after
the word loop (`flushIdent`) adds to the tokens, expressed with `pushTok`.
-/
set_option linter.unusedSimpArgs false
namespace Sqlgrep.Lex
open Sqlgrep

/-! ### `pushTok` -/

theorem pushTok_plain (T : List Tok) (t : Tok) (h1 : t ≠ .kw .not) (h2 : t ≠ .kw .in) (h3 : t ≠ .colon) :
    pushTok T t = t :: T := by
  unfold pushTok
  split <;> simp_all

theorem pushTok_ne_dashDash (T : List Tok) (t : Tok) (ht : t ≠ dashDash) : (pushTok T t).head? ≠ some dashDash := by
  unfold pushTok
  split <;> simp [dashDash] <;> (intro h; exact ht (by simpa [dashDash] using h))

/-! ### lower-case ASCII letters -/

theorem lowerA_cases (P : Char → Prop) (h : ∀ n, n < 26 → P (Char.ofNat (97 + n))) (c : Char) (hc : isLowerA c = true) : P c := by
  simp only [isLowerA, Bool.and_eq_true, decide_eq_true_eq] at hc
  have := h (c.toNat - 97) (by omega)
  rw [show 97 + (c.toNat - 97) = c.toNat by omega, Char.ofNat_toNat] at this
  exact this

/-- either spelling of a lower-case ASCII letter is an ASCII letter that lower-cases to it -/
theorem letter_info (o : Oracles) (c : Char) (hc : isLowerA c = true) (b : Bool) :
    let x := if b then upperA c else c
    (o.info x).alpha = true ∧ (o.info x).alnum = true ∧ (o.info x).lower = [c] := by
  have key : ∀ n, n < 26 → ∀ b : Bool,
      let c := Char.ofNat (97 + n)
      let x := if b then upperA c else c
      x.toNat < 128 ∧ (asciiInfo x).alpha = true ∧ (asciiInfo x).alnum = true ∧ (asciiInfo x).lower = [c] := by decide
  have := lowerA_cases (fun c => ∀ b : Bool,
      let x := if b then upperA c else c
      x.toNat < 128 ∧ (asciiInfo x).alpha = true ∧ (asciiInfo x).alnum = true ∧ (asciiInfo x).lower = [c]) key c hc b
  simp only at this ⊢
  rw [info_of_ascii o _ this.1]
  exact this.2

theorem applyCase_length (f : List Bool) (w : List Char) : (applyCase f w).length = w.length := by
  induction w generalizing f with
  | nil => cases f <;> rfl
  | cons c w ih => cases f with
    | nil => rfl
    | cons b f => simp [applyCase, ih]

/-- every case variant of a lower-case ASCII word lower-cases to the word -/
theorem lower_applyCase (o : Oracles) (w : List Char) (hw : ∀ c ∈ w, isLowerA c = true) (f : List Bool) :
    lower o (applyCase f w) = w := by
  induction w generalizing f with
  | nil => cases f <;> rfl
  | cons c w ih =>
    have hc := hw c (by simp)
    have hw' : ∀ x ∈ w, isLowerA x = true := fun x hx => hw x (by simp [hx])
    cases f with
    | nil =>
      have := (letter_info o c hc false).2.2
      simp only [Bool.false_eq_true, if_false] at this
      have ih' := ih hw' []
      have e : applyCase [] w = w := by cases w <;> rfl
      rw [e] at ih'
      simp [applyCase, lower, this] at ih' ⊢
      exact ih'
    | cons b f =>
      have := (letter_info o c hc b).2.2
      have ih' := ih hw' f
      simp [applyCase, lower, this] at ih' ⊢
      exact ih'

/-- every case variant of a lower-case ASCII word is a word: a letter followed by word characters -/
theorem applyCase_word (o : Oracles) (c : Char) (w : List Char) (hw : ∀ x ∈ c :: w, isLowerA x = true) (f : List Bool) :
    ∃ c' w', applyCase f (c :: w) = c' :: w' ∧ (o.info c').alpha = true ∧ ∀ x ∈ w', isWordCont o x = true := by
  have tailOk : ∀ (w : List Char) (f : List Bool), (∀ x ∈ w, isLowerA x = true) → ∀ x ∈ applyCase f w, isWordCont o x = true := by
    intro w
    induction w with
    | nil => intro f _ x hx; cases f <;> simp [applyCase] at hx
    | cons d w ih =>
      intro f hw x hx
      have hd := hw d (by simp)
      have hw' : ∀ y ∈ w, isLowerA y = true := fun y hy => hw y (by simp [hy])
      cases f with
      | nil =>
        have e : applyCase [] (d :: w) = d :: w := rfl
        rw [e] at hx
        have : isLowerA x = true := hw x hx
        have := (letter_info o x this false).2.1
        simp only [Bool.false_eq_true, if_false] at this
        simp [isWordCont, this]
      | cons b f =>
        simp only [applyCase, List.mem_cons] at hx
        rcases hx with e | hx
        · have := (letter_info o d hd b).2.1
          rw [e]; simp [isWordCont, this]
        · exact ih f hw' x hx
  have hc := hw c (by simp)
  have hw' : ∀ y ∈ w, isLowerA y = true := fun y hy => hw y (by simp [hy])
  cases f with
  | nil =>
    refine ⟨c, w, rfl, ?_, ?_⟩
    · have := (letter_info o c hc false).1
      simpa using this
    · have := tailOk w [] hw'
      have e : applyCase [] w = w := by cases w <;> rfl
      rwa [e] at this
  | cons b f =>
    refine ⟨if b then upperA c else c, applyCase f w, rfl, (letter_info o c hc b).1, tailOk w f hw'⟩

/-! ### the keyword table -/

theorem kwWord_spec (k : Keyword) (w : List Char) (h : kwWord k = some w) :
    keywordOf w = some k ∧ w ≠ [] ∧ w.all isLowerA = true := by
  cases k <;> simp [kwWord, keywordTable] at h <;> subst h <;> decide

theorem litWord_spec (l : LitWord) :
    keywordOf l.word = none ∧ l.word ≠ [] ∧ l.word.all isLowerA = true := by
  cases l <;> decide


/-! ### the code after the word loop -/

theorem flushIdent_kw (o : Oracles) {st : St} {T : List Tok} (h : Clean st T false) {w : List Char} {k : Keyword}
    (hk : keywordOf (lower o w) = some k) : Clean (flushIdent o st w) (pushTok T (.kw k)) false := by
  unfold flushIdent
  simp only [hk]
  have hl := h.lastTok
  by_cases h1 : k = .not ∧ st.lastTok = some (.kw .is)
  · obtain ⟨rfl, hlast⟩ := h1
    simp only [addKeyword, hlast]
    rw [hl] at hlast
    cases T with
    | nil => simp at hlast
    | cons t T' =>
      simp only [List.head?_cons, Option.some.injEq] at hlast
      subst hlast
      simpa [pushTok] using setLast_clean (.kw .isNot) h (by simp [dashDash])
  · by_cases h2 : k = .in ∧ st.lastTok = some (.kw .not)
    · obtain ⟨rfl, hlast⟩ := h2
      simp only [addKeyword, hlast]
      rw [hl] at hlast
      cases T with
      | nil => simp at hlast
      | cons t T' =>
        simp only [List.head?_cons, Option.some.injEq] at hlast
        subst hlast
        simpa [pushTok] using setLast_clean (.kw .notIn) h (by simp [dashDash])
    · have e1 : addKeyword st k = st.add (.kw k) := by
        unfold addKeyword
        split <;> simp_all
      have e2 : pushTok T (.kw k) = .kw k :: T := by
        rw [hl] at h1 h2
        unfold pushTok
        split <;> simp_all
      rw [e1, e2]
      exact add_clean _ h (by simp [dashDash])

theorem flushIdent_lit (o : Oracles) {st : St} {T : List Tok} (h : Clean st T false) {w : List Char} (l : LitWord)
    (hl : lower o w = l.word) : Clean (flushIdent o st w) (pushTok T l.tok) false := by
  have hk := (litWord_spec l).1
  rw [pushTok_plain T l.tok (by cases l <;> simp [LitWord.tok]) (by cases l <;> simp [LitWord.tok]) (by cases l <;> simp [LitWord.tok])]
  unfold flushIdent
  simp only [hl, hk]
  cases l
  · simp [LitWord.word]; exact add_clean _ h (by simp [dashDash])
  · have : wTrue ≠ wNull := by decide
    simp [LitWord.word, this]; exact add_clean _ h (by simp [dashDash])
  · have h1 : wFalse ≠ wNull := by decide
    have h2 : wFalse ≠ wTrue := by decide
    simp [LitWord.word, h1, h2]; exact add_clean _ h (by simp [dashDash])

theorem flushIdent_ident (o : Oracles) {st : St} {T : List Tok} (h : Clean st T false) {w : List Char}
    (hk : keywordOf (lower o w) = none) (h1 : lower o w ≠ wNull) (h2 : lower o w ≠ wTrue) (h3 : lower o w ≠ wFalse) :
    Clean (flushIdent o st w) (pushTok T (.ident w)) false := by
  rw [pushTok_plain T _ (by simp) (by simp) (by simp)]
  unfold flushIdent
  simp only [hk, h1, h2, h3, if_false]
  exact add_clean _ h (by simp [dashDash])

end Sqlgrep.Lex
