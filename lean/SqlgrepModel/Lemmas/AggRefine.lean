import SqlgrepModel.Lemmas.AggResult
/-
Update half + result half: the engine's answer for a whole input against `Spec.Agg.table`.
-/
set_option linter.unusedSimpArgs false
namespace Sqlgrep
open Value Spec.Agg

/-! ### exact keys -/

theorem cmp_eq_of_simple {a b : Value} (ha : simpleValue a = true) (hb : simpleValue b = true)
    (h : Value.cmp a b = .eq) : a = b := by
  have hr := rank_eq_of_cmp_eq h
  cases a <;> cases b <;> simp [rank] at hr <;> simp [simpleValue] at ha hb <;> simp only [Value.cmp] at h
  · rfl
  · rw [Int.compare_eq_eq] at h; rw [h]
  · rw [cmpBool_eq_iff] at h; rw [h]
  · rw [cmpBytes_eq_iff] at h; rw [h]
  · simp only [Ordering.then_eq_eq, Int.compare_eq_eq] at h
    obtain ⟨⟨h1, h2⟩, h3⟩ := h
    rw [h1, h2, h3]
  · rw [Int.compare_eq_eq] at h; rw [h]

theorem cmpList_eq_of_simple : ∀ {a b : List Value}, a.all simpleValue = true → b.all simpleValue = true →
    cmpList a b = .eq → a = b
  | [], [], _, _, _ => rfl
  | [], _ :: _, _, _, h => by simp [cmpList] at h
  | _ :: _, [], _, _, h => by simp [cmpList] at h
  | x :: xs, y :: ys, ha, hb, h => by
    simp only [List.all_cons, Bool.and_eq_true] at ha hb
    simp only [cmpList, Ordering.then_eq_eq] at h
    rw [cmp_eq_of_simple ha.1 hb.1 h.1, cmpList_eq_of_simple ha.2 hb.2 h.2]

theorem keysExact_of_simple {rows : List (List Value × Env)} (h : rows.all (fun r => r.1.all simpleValue) = true) :
    KeysExact (rows.map (·.1)) := by
  intro a ha b hb hab
  obtain ⟨ra, hra, rfl⟩ := List.mem_map.mp ha
  obtain ⟨rb, hrb, rfl⟩ := List.mem_map.mp hb
  rw [List.all_eq_true] at h
  exact cmpList_eq_of_simple (h ra hra) (h rb hrb) hab

/-! ### the whole run -/

theorem deviationClass_empty {O : Oracles} {q : AggStmt} {envs : List Env} {rows : List (List Value × Env)}
    (hr : keyedRows O q envs = some rows) (h : deviationClass O q envs = "") :
    (∀ kg ∈ groups rows, groupVisible O q kg.2 = true) ∧ (∀ kg ∈ groups rows, arrayAggFirstNull O q kg.2 = false) := by
  unfold deviationClass at h
  simp only [hr] at h
  split at h
  · exact absurd h (by decide)
  · rename_i h15
    split at h
    · exact absurd h (by decide)
    · rename_i h10
      simp only [Bool.not_eq_true] at h15 h10
      constructor
      · intro kg hkg
        have := List.any_eq_false.mp h10 kg hkg
        simpa using this
      · intro kg hkg
        have := List.any_eq_false.mp h15 kg hkg
        simpa using this

/-- **refinement, engine level** (`agg_refines_spec`, partial-correctness form): whatever rows are fed to
`execute_update`, if no update fails, the table `execute_result` (+ LIMIT) then shows is the specification's table
for those rows — whenever the specification fixes the outcome and the input is outside the two known deviation
classes (D10: a group without any `group_values` entry, D15: ARRAY_AGG starting with NULL). -/
theorem engine_refines_spec {O : Oracles} {q : AggStmt} (hwf : StmtWF q) (envs : List Env) {st : AggState}
    (hrun : aggRun O q envs {} = .ok st) {t : List (List Value)} (hspec : table O q envs = some t)
    (hclass : deviationClass O q envs = "") :
    finalResult O q { agg := st } = .ok { columns := q.items.map (·.name), rows := t } := by
  obtain ⟨rows, hrows, hc⟩ := aggRun_coupled envs (coupled_init O q) hrun
  simp only [List.nil_append] at hc
  unfold table at hspec
  simp only [hrows] at hspec
  split at hspec
  · simp at hspec
  · rename_i hcond
    simp only [Bool.or_eq_true, Bool.not_eq_true', not_or, Bool.not_eq_false] at hcond
    obtain ⟨hvis, hd15⟩ := deviationClass_empty hrows hclass
    exact finalResult_refines hwf hc (keysExact_of_simple hcond.2) hspec hvis hd15

end Sqlgrep
