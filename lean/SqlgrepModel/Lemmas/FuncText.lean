import SqlgrepModel.Model.Eval
import SqlgrepModel.Lemmas.StrBytes
/-
Text functions: `length` counts code points, ASCII `upper`/`lower` map exactly the 26 letters.
-/
namespace Sqlgrep

/-! ### `length`: one non-continuation byte per character -/

theorem charCount_encodeChar (c : Char) : ((Utf8.encodeChar c).filter (fun b => !Utf8.isCont b)).length = 1 := by
  have hlt := char_toNat_lt c
  unfold Utf8.encodeChar
  generalize c.toNat = n at *
  have nc : ∀ x : Nat, Utf8.isCont (0x80 + x % 64) = true := by
    intro x; simp only [Utf8.isCont, Bool.and_eq_true, decide_eq_true_eq]; omega
  by_cases h1 : n < 0x80
  · have : Utf8.isCont n = false := by simp only [Utf8.isCont, Bool.and_eq_false_iff, decide_eq_false_iff_not]; omega
    simp [h1, this]
  · by_cases h2 : n < 0x800
    · have : Utf8.isCont (0xC0 + n / 64) = false := by
        simp only [Utf8.isCont, Bool.and_eq_false_iff, decide_eq_false_iff_not]; omega
      simp [h1, h2, this, nc]
    · by_cases h3 : n < 0x10000
      · have : Utf8.isCont (0xE0 + n / 4096) = false := by
          simp only [Utf8.isCont, Bool.and_eq_false_iff, decide_eq_false_iff_not]; omega
        simp [h1, h2, h3, this, nc]
      · have : Utf8.isCont (0xF0 + n / 262144) = false := by
          simp only [Utf8.isCont, Bool.and_eq_false_iff, decide_eq_false_iff_not]; omega
        simp [h1, h2, h3, this, nc]

/-- **`length` is the number of code points**: the UTF-8 encoding of `cs` has `cs.length` non-continuation bytes -/
theorem charCount_encode (cs : List Char) : Utf8.charCount (Utf8.encode cs) = cs.length := by
  unfold Utf8.charCount Utf8.encode
  induction cs with
  | nil => rfl
  | cons c cs ih =>
    simp only [List.flatMap_cons, List.filter_append, List.length_append, List.length_cons]
    rw [charCount_encodeChar, ih]; omega

theorem charCount_ascii (s : Bytes) (h : isAscii s = true) : Utf8.charCount s = s.length := by
  unfold Utf8.charCount
  induction s with
  | nil => rfl
  | cons b s ih =>
    simp only [isAscii, List.all_cons, Bool.and_eq_true, decide_eq_true_eq] at h
    have hb : Utf8.isCont b = false := by
      simp only [Utf8.isCont, Bool.and_eq_false_iff, decide_eq_false_iff_not]; omega
    have ih' := ih (by simpa [isAscii] using h.2)
    simp only [List.filter_cons, hb, Bool.not_false, if_true, List.length_cons, ih']

/-! ### ASCII case mapping -/

/-- what `upper` does to one ASCII byte: `a`..`z` ↦ `A`..`Z`, everything else unchanged -/
def upperByte (b : Nat) : Nat := if 97 ≤ b ∧ b ≤ 122 then b - 32 else b
def lowerByte (b : Nat) : Nat := if 65 ≤ b ∧ b ≤ 90 then b + 32 else b

theorem asciiUpper_eq (s : Bytes) : asciiUpper s = s.map upperByte := by
  unfold asciiUpper
  apply List.map_congr_left
  intro b _
  unfold upperByte
  by_cases h : 97 ≤ b ∧ b ≤ 122
  · have : (decide (97 ≤ b) && decide (b ≤ 122)) = true := by simpa using h
    rw [if_pos this, if_pos h]
  · have : (decide (97 ≤ b) && decide (b ≤ 122)) = false := by
      simp only [Bool.and_eq_false_iff, decide_eq_false_iff_not]; omega
    simp only [this, h, Bool.false_eq_true, if_false]

theorem asciiLower_eq (s : Bytes) : asciiLower s = s.map lowerByte := by
  unfold asciiLower
  apply List.map_congr_left
  intro b _
  unfold lowerByte
  by_cases h : 65 ≤ b ∧ b ≤ 90
  · have : (decide (65 ≤ b) && decide (b ≤ 90)) = true := by simpa using h
    rw [if_pos this, if_pos h]
  · have : (decide (65 ≤ b) && decide (b ≤ 90)) = false := by
      simp only [Bool.and_eq_false_iff, decide_eq_false_iff_not]; omega
    simp only [this, h, Bool.false_eq_true, if_false]

theorem upperByte_idem (b : Nat) : upperByte (upperByte b) = upperByte b := by
  unfold upperByte; split <;> (try split) <;> omega
theorem lowerByte_idem (b : Nat) : lowerByte (lowerByte b) = lowerByte b := by
  unfold lowerByte; split <;> (try split) <;> omega
theorem lower_upperByte (b : Nat) : lowerByte (upperByte b) = lowerByte b := by
  unfold upperByte lowerByte; split <;> split <;> (try split) <;> omega
theorem upper_lowerByte (b : Nat) : upperByte (lowerByte b) = upperByte b := by
  unfold upperByte lowerByte; split <;> split <;> (try split) <;> omega

theorem isAscii_map (s : Bytes) (g : Nat → Nat) (hg : ∀ b, b < 128 → g b < 128) (h : isAscii s = true) :
    isAscii (s.map g) = true := by
  unfold isAscii at *
  simp only [List.all_eq_true, decide_eq_true_eq, List.mem_map, forall_exists_index, and_imp] at *
  intro x b hb hx
  subst hx
  exact hg b (h b hb)

theorem upperByte_ascii (b : Nat) (h : b < 128) : upperByte b < 128 := by unfold upperByte; split <;> omega
theorem lowerByte_ascii (b : Nat) (h : b < 128) : lowerByte b < 128 := by unfold lowerByte; split <;> omega

/-- Lean's own `Char.toUpper` / `Char.toLower` (ASCII-only case mapping of the standard library) are these maps -/
theorem upperByte_toUpper (c : Char) : upperByte c.toNat = c.toUpper.toNat := by
  unfold upperByte Char.toUpper
  have e : ∀ a b : UInt32, a ≤ b ↔ a.toNat ≤ b.toNat := fun a b => UInt32.le_iff_toNat_le
  have hv : c.val.toNat = c.toNat := rfl
  have hlt := char_toNat_lt c
  by_cases h : 97 ≤ c.toNat ∧ c.toNat ≤ 122
  · have h' : 'a'.val ≤ c.val ∧ c.val ≤ 'z'.val := by
      rw [e, e, hv]; exact h
    simp only [h, and_self, if_true, h', dite_true]
    show c.toNat - 32 = (c.val + ('A'.val - 'a'.val)).toNat
    rw [UInt32.toNat_add]
    have : ('A'.val - 'a'.val).toNat = 4294967264 := by decide
    rw [this, hv]
    omega
  · have h' : ¬ ('a'.val ≤ c.val ∧ c.val ≤ 'z'.val) := by
      rw [e, e, hv]; exact h
    simp only [h, if_false, h', dite_false]

theorem lowerByte_toLower (c : Char) : lowerByte c.toNat = c.toLower.toNat := by
  unfold lowerByte Char.toLower
  have e : ∀ a b : UInt32, a ≤ b ↔ a.toNat ≤ b.toNat := fun a b => UInt32.le_iff_toNat_le
  have hv : c.val.toNat = c.toNat := rfl
  have hlt := char_toNat_lt c
  by_cases h : 65 ≤ c.toNat ∧ c.toNat ≤ 90
  · have h' : 'A'.val ≤ c.val ∧ c.val ≤ 'Z'.val := by
      rw [e, e, hv]; exact h
    simp only [h, and_self, if_true, h', dite_true]
    show c.toNat + 32 = (c.val + ('a'.val - 'A'.val)).toNat
    rw [UInt32.toNat_add]
    have : ('a'.val - 'A'.val).toNat = 32 := by decide
    rw [this, hv]
    omega
  · have h' : ¬ ('A'.val ≤ c.val ∧ c.val ≤ 'Z'.val) := by
      rw [e, e, hv]; exact h
    simp only [h, if_false, h', dite_false]

end Sqlgrep
