// C13: expressions group by standard SQL operator precedence and associativity.
//
// Correspondence (`pexpr` cases): located token vectors -> `Parser::parse_expression` of the real parser, compared
// with the Lean model `Parse.parseExpr` run on the generated precedence tables (tree with locations | error kind +
// payload + location, plus the number of tokens left: the parser state is observable).
//   valid stream     : expression texts printed from reference expressions (this file's `E`) with minimal
//                      parentheses / fully parenthesised / with random redundant parentheses, tokenised by the real
//                      `tokenize`
//   malformed stream : token deletions, duplications, swaps, insertions, truncations (with and without the End
//                      token), unbalanced parentheses, errors inside parentheses / lists / brackets, token soups
// Property oracle on the implementation: for a reference expression `e`, the implementation's tree of `minimal e`
// and of `full e` must both be the tree the reference grammar (written here from the property sentence: levels
// OR 1 < AND 2 < NOT 3 < comparisons/IS/IN 4 < + - 5 < * / 6 < unary minus 7 < cast/subscript 8 < qualified name 9,
// binary operators left-associative) assigns to `e`; exhaustive over every operator pair (quick) and triple
// (thorough) in `a o b o c (o d)`.
use sqlgrep::model::{Float, Value, ValueType};
use sqlgrep::parsing::verif_hooks::{
    tokenize, BinaryOperators, Keyword, Operator, Parser, ParserError, ParserErrorType, ParserExpressionTree,
    ParserExpressionTreeData, ParserToken, Token, UnaryOperators,
};
use sqlgrep::parsing::ParserOperationTree;

use crate::run::{Params, Run};
use crate::util::{catch, hexs, value_sexp, vtype_sexp, Caught, Rng};

// ------------------------------------------------------------------------------------------------------------
// canonical rendering of the implementation's answers

pub fn op_sexp(op: &Operator) -> String {
    match op {
        Operator::Single(c) => format!("(op {})", *c as u32),
        Operator::Dual(c, d) => format!("(op {} {})", *c as u32, *d as u32),
    }
}

pub fn token_sexp(t: &Token) -> String {
    match t {
        Token::Int(i) => format!("(int {})", i),
        Token::Float(f) => format!("(float {})", f.to_bits()),
        Token::String(s) => format!("(str {})", hexs(s)),
        Token::Null => "null".to_owned(),
        Token::True => "true".to_owned(),
        Token::False => "false".to_owned(),
        Token::Operator(op) => op_sexp(op),
        Token::Identifier(s) => format!("(id {})", hexs(s)),
        Token::Keyword(k) => format!("(kw {:?})", k),
        Token::LeftParentheses => "lp".to_owned(),
        Token::RightParentheses => "rp".to_owned(),
        Token::LeftSquareParentheses => "lsq".to_owned(),
        Token::RightSquareParentheses => "rsq".to_owned(),
        Token::LeftCurlyParentheses => "lcu".to_owned(),
        Token::RightCurlyParentheses => "rcu".to_owned(),
        Token::Comma => "comma".to_owned(),
        Token::SemiColon => "semi".to_owned(),
        Token::Colon => "colon".to_owned(),
        Token::DoubleColon => "dcolon".to_owned(),
        Token::RightArrow => "rarrow".to_owned(),
        Token::End => "eof".to_owned(),
    }
}

pub fn tokens_sexp(ts: &[ParserToken]) -> String {
    let items: Vec<String> = ts.iter().map(|t| format!("({} {} {})", t.location.line, t.location.column, token_sexp(&t.token))).collect();
    format!("({})", items.join(" "))
}

/// the tree as an s-expression; with `loc` every node carries `LINE COLUMN` after its head word (correspondence);
/// without, it is the form the property oracle compares: no locations, and calls without the internal name and
/// DISTINCT flag the parser gives them (`create_array`, `timestamp_extract_…` are not the sentence's business)
pub fn tree_sexp(t: &ParserExpressionTree, loc: bool) -> String {
    let l = if loc { format!(" {} {}", t.location.line, t.location.column) } else { String::new() };
    let list = |xs: &Vec<ParserExpressionTree>| -> String { xs.iter().map(|x| format!(" {}", tree_sexp(x, loc))).collect::<Vec<_>>().join("") };
    match &t.tree {
        ParserExpressionTreeData::Value(v) => format!("(value{} {})", l, value_sexp(v)),
        ParserExpressionTreeData::ColumnAccess(n) => format!("(column{} {})", l, hexs(n)),
        ParserExpressionTreeData::ScopedColumnAccess(_, n) => format!("(scoped{} {})", l, hexs(n)),
        ParserExpressionTreeData::Wildcard => format!("(wildcard{})", l),
        ParserExpressionTreeData::Tuple { values } => format!("(tuple{}{})", l, list(values)),
        ParserExpressionTreeData::BinaryOperator { operator, left, right } =>
            format!("(binop{} {} {} {})", l, op_sexp(operator), tree_sexp(left, loc), tree_sexp(right, loc)),
        ParserExpressionTreeData::BooleanOperation { operator, left, right } => {
            let w = match operator { sqlgrep::model::BooleanOperator::And => "and", sqlgrep::model::BooleanOperator::Or => "or" };
            format!("(boolop{} {} {} {})", l, w, tree_sexp(left, loc), tree_sexp(right, loc))
        }
        ParserExpressionTreeData::UnaryOperator { operator, operand } => format!("(unop{} {} {})", l, op_sexp(operator), tree_sexp(operand, loc)),
        ParserExpressionTreeData::Invert { operand } => format!("(invert{} {})", l, tree_sexp(operand, loc)),
        ParserExpressionTreeData::NullableCompare { operator, left, right } => {
            let w = match operator { sqlgrep::model::NullableCompareOperator::Equal => "is", sqlgrep::model::NullableCompareOperator::NotEqual => "isnot" };
            format!("(nullcmp{} {} {} {})", l, w, tree_sexp(left, loc), tree_sexp(right, loc))
        }
        ParserExpressionTreeData::In { is_not, operand, values } =>
            format!("(in{} {} {} ({}))", l, if *is_not { 1 } else { 0 }, tree_sexp(operand, loc), list(values)),
        ParserExpressionTreeData::Call { name, arguments, distinct } => {
            let d = match distinct { None => "none", Some(false) => "d0", Some(true) => "d1" };
            if loc { format!("(call{} {} ({}) {})", l, hexs(name), list(arguments), d) } else { format!("(call ({}))", list(arguments)) }
        }
        ParserExpressionTreeData::ArrayElementAccess { array, index } => format!("(index{} {} {})", l, tree_sexp(array, loc), tree_sexp(index, loc)),
        ParserExpressionTreeData::TypeConversion { operand, convert_to_type } => format!("(cast{} {} {})", l, tree_sexp(operand, loc), vtype_sexp(convert_to_type)),
        ParserExpressionTreeData::Case { clauses, else_clause } => {
            let cs: Vec<String> = clauses.iter().map(|(c, r)| format!(" ({} {})", tree_sexp(c, loc), tree_sexp(r, loc))).collect();
            format!("(case{} ({}) {})", l, cs.join(""), tree_sexp(else_clause, loc))
        }
    }
}

pub fn error_kind_sexp(e: &ParserErrorType) -> String {
    match e {
        ParserErrorType::ExpectedKeyword(k) => format!("(ExpectedKeyword {:?})", k),
        ParserErrorType::ExpectedAnyKeyword(ks) => format!("(ExpectedAnyKeyword{})", ks.iter().map(|k| format!(" {:?}", k)).collect::<Vec<_>>().join("")),
        ParserErrorType::ExpectedSpecificOperator(op) => format!("(ExpectedSpecificOperator {})", op_sexp(op)),
        ParserErrorType::NotDefinedBinaryOperator(op) => format!("(NotDefinedBinaryOperator {})", op_sexp(op)),
        ParserErrorType::NotDefinedUnaryOperator(op) => format!("(NotDefinedUnaryOperator {})", op_sexp(op)),
        ParserErrorType::NotDefinedType(n) => format!("(NotDefinedType {})", hexs(n)),
        ParserErrorType::ExpectedDefaultValueOfType(t) => format!("(ExpectedDefaultValueOfType {})", vtype_sexp(t)),
        other => format!("{:?}", other),
    }
}

pub fn error_sexp(e: &ParserError) -> String {
    format!("err {} {} {}", error_kind_sexp(&e.error), e.location.line, e.location.column)
}

fn error_word(e: &ParserErrorType) -> String {
    let s = format!("{:?}", e);
    s.split(|c| c == '(' || c == ' ').next().unwrap_or("").to_owned()
}

pub struct Parsed {
    pub result: Result<ParserExpressionTree, ParserError>,
    pub rest: usize,
}

/// `Parser::new(&bin, &un, tokens).parse_expression()` and the number of tokens behind the current one afterwards
pub fn parse_tokens(tokens: Vec<ParserToken>) -> Caught<Parsed> {
    catch(move || {
        let bin = BinaryOperators::new();
        let un = UnaryOperators::new();
        let mut parser = Parser::new(&bin, &un, tokens);
        let result = parser.parse_expression();
        let mut rest = 0;
        while parser.next().is_ok() { rest += 1; }
        Parsed { result, rest }
    })
}

pub fn answer(p: &Caught<Parsed>) -> String {
    match p {
        Caught::Panic(m) => format!("panic {}", hexs(m)),
        Caught::Done(Parsed { result: Ok(t), rest }) => format!("ok {} rest={}", tree_sexp(t, true), rest),
        Caught::Done(Parsed { result: Err(e), rest }) => format!("{} rest={}", error_sexp(e), rest),
    }
}

fn result_word(p: &Caught<Parsed>) -> String {
    match p {
        Caught::Panic(_) => "panic".to_owned(),
        Caught::Done(Parsed { result: Ok(t), .. }) => format!("ok:{}", node_word(&t.tree)),
        Caught::Done(Parsed { result: Err(e), .. }) => format!("err:{}", error_word(&e.error)),
    }
}

fn node_word(t: &ParserExpressionTreeData) -> &'static str {
    match t {
        ParserExpressionTreeData::Value(_) => "value",
        ParserExpressionTreeData::ColumnAccess(_) => "column",
        ParserExpressionTreeData::ScopedColumnAccess(..) => "scoped",
        ParserExpressionTreeData::Wildcard => "wildcard",
        ParserExpressionTreeData::Tuple { .. } => "tuple",
        ParserExpressionTreeData::BinaryOperator { .. } => "binop",
        ParserExpressionTreeData::BooleanOperation { .. } => "boolop",
        ParserExpressionTreeData::UnaryOperator { .. } => "unop",
        ParserExpressionTreeData::Invert { .. } => "invert",
        ParserExpressionTreeData::NullableCompare { .. } => "nullcmp",
        ParserExpressionTreeData::In { .. } => "in",
        ParserExpressionTreeData::Call { .. } => "call",
        ParserExpressionTreeData::ArrayElementAccess { .. } => "index",
        ParserExpressionTreeData::TypeConversion { .. } => "cast",
        ParserExpressionTreeData::Case { .. } => "case",
    }
}

// ------------------------------------------------------------------------------------------------------------
// the reference grammar (written from the property sentence, not from the code)

#[derive(Debug, Clone, PartialEq)]
pub enum BinOp { Sym(Operator), Is, IsNot, And, Or }

#[derive(Debug, Clone, PartialEq)]
pub enum E {
    Int(i64),
    Float(f64),
    Str(String),
    Null,
    True,
    False,
    Col(Vec<String>),                 // x  or  t.x
    Star,                             // `*` as the only call argument
    Bin(BinOp, Box<E>, Box<E>),
    Not(Box<E>),
    Neg(Box<E>),
    Index(Box<E>, Box<E>),
    Cast(Box<E>, String),             // type name as written
    In(bool, Box<E>, Vec<E>),
    Call(String, Vec<E>),
    CountDistinct(String, Vec<E>),    // count(DISTINCT ...) with the spelling of `count`
    Array(String, Vec<E>),            // array[...] with the spelling of `array`
    Case(Vec<(E, E)>, Box<E>),
    Extract(String, Box<E>),
    Tuple(Vec<E>),                    // at least two elements
    Paren(Box<E>),                    // a redundant pair of parentheses written by the user
}

pub const LEVEL_OR: i32 = 1;
pub const LEVEL_AND: i32 = 2;
pub const LEVEL_NOT: i32 = 3;
pub const LEVEL_CMP: i32 = 4;
pub const LEVEL_ADD: i32 = 5;
pub const LEVEL_MUL: i32 = 6;
pub const LEVEL_NEG: i32 = 7;
pub const LEVEL_POSTFIX: i32 = 8;
pub const LEVEL_ATOM: i32 = 100;

/// reference precedence of a binary operator; `^` is not named by the sentence and mirrors the code (level of * /)
pub fn bin_level(op: &BinOp) -> i32 {
    match op {
        BinOp::Or => LEVEL_OR,
        BinOp::And => LEVEL_AND,
        BinOp::Is | BinOp::IsNot => LEVEL_CMP,
        BinOp::Sym(Operator::Single('*')) | BinOp::Sym(Operator::Single('/')) | BinOp::Sym(Operator::Single('^')) => LEVEL_MUL,
        BinOp::Sym(Operator::Single('+')) | BinOp::Sym(Operator::Single('-')) => LEVEL_ADD,
        BinOp::Sym(_) => LEVEL_CMP,
    }
}

pub fn all_binops() -> Vec<BinOp> {
    let mut v: Vec<BinOp> = vec![
        Operator::Single('*'), Operator::Single('/'), Operator::Single('^'), Operator::Single('+'), Operator::Single('-'),
        Operator::Single('<'), Operator::Dual('<', '='), Operator::Single('>'), Operator::Dual('>', '='), Operator::Single('='),
        Operator::Dual('!', '='),
    ].into_iter().map(BinOp::Sym).collect();
    v.extend(vec![BinOp::Is, BinOp::IsNot, BinOp::And, BinOp::Or]);
    v
}

fn level(e: &E) -> i32 {
    match e {
        E::Bin(op, _, _) => bin_level(op),
        E::Not(_) => LEVEL_NOT,
        E::Neg(_) => LEVEL_NEG,
        E::Index(..) | E::Cast(..) => LEVEL_POSTFIX,
        E::In(..) => LEVEL_CMP,
        _ => LEVEL_ATOM,
    }
}

fn is_prefix(e: &E) -> bool {
    match e { E::Not(_) | E::Neg(_) => true, _ => false }
}

fn binop_words(op: &BinOp) -> Vec<String> {
    match op {
        BinOp::Sym(o) => vec![format!("{}", o)],
        BinOp::Is => vec!["IS".to_owned()],
        BinOp::IsNot => vec!["IS".to_owned(), "NOT".to_owned()],
        BinOp::And => vec!["AND".to_owned()],
        BinOp::Or => vec!["OR".to_owned()],
    }
}

#[derive(Clone, Copy, PartialEq)]
pub enum Style { Minimal, Full }

fn comma_list(out: &mut Vec<String>, xs: &[E], style: Style) {
    for (i, x) in xs.iter().enumerate() {
        if i > 0 { out.push(",".to_owned()); }
        pr(out, 0, x, style);
    }
}

/// words of `e` in a context that demands level `ctx`; `Style::Full` parenthesises every operator node
pub fn pr(out: &mut Vec<String>, ctx: i32, e: &E, style: Style) {
    let lv = level(e);
    let paren = lv < ctx || (style == Style::Full && lv < LEVEL_ATOM);
    if paren { out.push("(".to_owned()); }
    match e {
        E::Int(i) => out.push(format!("{}", i)),
        E::Float(f) => out.push(format!("{:?}", f)),
        E::Str(s) => out.push(format!("'{}'", s)),
        E::Null => out.push("NULL".to_owned()),
        E::True => out.push("TRUE".to_owned()),
        E::False => out.push("false".to_owned()),
        E::Col(parts) => {
            for (i, p) in parts.iter().enumerate() {
                if i > 0 { out.push(".".to_owned()); }
                out.push(p.clone());
            }
        }
        E::Star => out.push("*".to_owned()),
        E::Bin(op, l, r) => {
            let p = bin_level(op);
            pr(out, p, l, style);
            out.extend(binop_words(op));
            pr(out, p + 1, r, style);
        }
        E::Not(x) => {
            out.push("NOT".to_owned());
            pr(out, if is_prefix(x) { LEVEL_NOT } else { LEVEL_NOT + 1 }, x, style);
        }
        E::Neg(x) => {
            out.push("-".to_owned());
            pr(out, if is_prefix(x) { LEVEL_NEG } else { LEVEL_NEG + 1 }, x, style);
        }
        E::Index(a, i) => {
            pr(out, LEVEL_POSTFIX, a, style);
            out.push("[".to_owned());
            pr(out, 0, i, style);
            out.push("]".to_owned());
        }
        E::Cast(x, t) => {
            pr(out, LEVEL_POSTFIX, x, style);
            out.push("::".to_owned());
            out.push(t.clone());
        }
        E::In(is_not, x, vs) => {
            pr(out, LEVEL_CMP, x, style);
            if *is_not { out.push("NOT".to_owned()); }
            out.push("IN".to_owned());
            out.push("(".to_owned());
            comma_list(out, vs, style);
            out.push(")".to_owned());
        }
        E::Call(name, args) => {
            out.push(name.clone());
            out.push("(".to_owned());
            comma_list(out, args, style);
            out.push(")".to_owned());
        }
        E::CountDistinct(name, args) => {
            out.push(name.clone());
            out.push("(".to_owned());
            out.push("DISTINCT".to_owned());
            comma_list(out, args, style);
            out.push(")".to_owned());
        }
        E::Array(name, args) => {
            out.push(name.clone());
            out.push("[".to_owned());
            comma_list(out, args, style);
            out.push("]".to_owned());
        }
        E::Case(clauses, els) => {
            out.push("CASE".to_owned());
            for (c, r) in clauses {
                out.push("WHEN".to_owned());
                pr(out, 0, c, style);
                out.push("THEN".to_owned());
                pr(out, 0, r, style);
            }
            out.push("ELSE".to_owned());
            pr(out, 0, els, style);
            out.push("END".to_owned());
        }
        E::Extract(part, x) => {
            out.push("EXTRACT".to_owned());
            out.push("(".to_owned());
            out.push(part.clone());
            out.push("FROM".to_owned());
            pr(out, 0, x, style);
            out.push(")".to_owned());
        }
        E::Tuple(xs) => {
            out.push("(".to_owned());
            comma_list(out, xs, style);
            out.push(")".to_owned());
        }
        E::Paren(x) => {
            out.push("(".to_owned());
            pr(out, 0, x, style);
            out.push(")".to_owned());
        }
    }
    if paren { out.push(")".to_owned()); }
}

pub fn words(e: &E, style: Style) -> Vec<String> {
    let mut out = Vec::new();
    pr(&mut out, 0, e, style);
    out
}

/// join the words with single blanks, or (compact) without blanks where that cannot change the tokens
pub fn layout(ws: &[String], compact: bool) -> String {
    let mut s = String::new();
    let tight = |w: &str| -> bool { matches!(w, "(" | ")" | "[" | "]" | "," | "::" | ".") };
    for (i, w) in ws.iter().enumerate() {
        if i > 0 {
            let prev = ws[i - 1].as_str();
            let glue = compact && (tight(prev) || tight(w)) && !(prev == "." && w.chars().next().map_or(false, |c| c.is_numeric()));
            if !glue { s.push(' '); }
        }
        s.push_str(w);
    }
    s
}

/// the words joined with single blanks, except that a minus sign stands directly before a following number (`x -1`,
/// `END -1`, `a - -1`): the same tokens (a `-` is always an operator token of its own), another layout
pub fn layout_sign_glued(ws: &[String]) -> String {
    let mut s = String::new();
    for (i, w) in ws.iter().enumerate() {
        if i > 0 {
            let prev = ws[i - 1].as_str();
            // never next to another minus: `--` would start a comment
            let glue = prev == "-" && w.chars().next().map_or(false, |c| c.is_ascii_digit()) && !s[..s.len() - 1].ends_with('-');
            if !glue { s.push(' '); }
        }
        s.push_str(w);
    }
    s
}

fn type_of_name(name: &str) -> Option<ValueType> {
    match name.to_lowercase().as_str() {
        "int" => Some(ValueType::Int),
        "real" => Some(ValueType::Float),
        "text" => Some(ValueType::String),
        "boolean" => Some(ValueType::Bool),
        "timestamp" => Some(ValueType::Timestamp),
        "interval" => Some(ValueType::Interval),
        _ => None,
    }
}

/// the tree the reference grammar assigns to `e`, in the location-free canonical form of `tree_sexp(_, false)`
pub fn expected(e: &E) -> String {
    let list = |xs: &Vec<E>| -> String { xs.iter().map(|x| format!(" {}", expected(x))).collect::<Vec<_>>().join("") };
    match e {
        E::Int(i) => format!("(value {})", value_sexp(&Value::Int(*i))),
        E::Float(f) => format!("(value {})", value_sexp(&Value::Float(Float(*f)))),
        E::Str(s) => format!("(value {})", value_sexp(&Value::String(s.clone()))),
        E::Null => "(value (null))".to_owned(),
        E::True => "(value (bool 1))".to_owned(),
        E::False => "(value (bool 0))".to_owned(),
        E::Col(parts) => format!("(column {})", hexs(&parts.join("."))),
        E::Star => "(wildcard)".to_owned(),
        E::Bin(op, l, r) => match op {
            BinOp::Sym(o) => format!("(binop {} {} {})", op_sexp(o), expected(l), expected(r)),
            BinOp::Is => format!("(nullcmp is {} {})", expected(l), expected(r)),
            BinOp::IsNot => format!("(nullcmp isnot {} {})", expected(l), expected(r)),
            BinOp::And => format!("(boolop and {} {})", expected(l), expected(r)),
            BinOp::Or => format!("(boolop or {} {})", expected(l), expected(r)),
        },
        E::Not(x) => format!("(invert {})", expected(x)),
        E::Neg(x) => format!("(unop (op 45) {})", expected(x)),
        E::Index(a, i) => format!("(index {} {})", expected(a), expected(i)),
        E::Cast(x, t) => format!("(cast {} {})", expected(x), vtype_sexp(&type_of_name(t).expect("type name"))),
        E::In(n, x, vs) => format!("(in {} {} ({}))", if *n { 1 } else { 0 }, expected(x), list(vs)),
        E::Call(_, args) | E::CountDistinct(_, args) | E::Array(_, args) => format!("(call ({}))", list(args)),
        E::Case(clauses, els) => {
            let cs: Vec<String> = clauses.iter().map(|(c, r)| format!(" ({} {})", expected(c), expected(r))).collect();
            format!("(case ({}) {})", cs.join(""), expected(els))
        }
        E::Extract(_, x) => format!("(call ( {}))", expected(x)),
        E::Tuple(xs) => format!("(tuple{})", list(xs)),
        E::Paren(x) => expected(x),
    }
}

// ------------------------------------------------------------------------------------------------------------
// generators

const COLS: &[&str] = &["a", "b", "c", "x", "y", "z", "t1", "col_1", "Host", "int", "ärger", "count"];
const QUALS: &[&str] = &["t", "u", "logs", "T2"];
const FUNCS: &[&str] = &["abs", "length", "f", "max", "count", "COUNT", "Sum", "regexp_matches", "now"];
const TYPES: &[&str] = &["int", "real", "text", "boolean", "timestamp", "interval", "INT", "Text", "BOOLEAN"];
const PARTS: &[&str] = &["hour", "EPOCH", "Minute", "year"];

fn gen_atom(rng: &mut Rng) -> E {
    match rng.below(12) {
        0 | 1 => E::Int(rng.range(0, 120)),
        2 => E::Int(*rng.pick(&[0i64, 1, 9223372036854775807, 4294967296])),
        3 => E::Float(*rng.pick(&[0.5f64, 1.0, 13.25, 1e3, 0.001])),
        4 => E::Str(rng.pick(&["", "abc", "it is", "ü€", "1"]).to_string()),
        5 => (*rng.pick(&[E::Null, E::True, E::False])).clone(),
        6 => E::Col(vec![rng.pick(QUALS).to_string(), rng.pick(COLS).to_string()]),
        _ => E::Col(vec![rng.pick(COLS).to_string()]),
    }
}

fn gen_list(rng: &mut Rng, depth: usize, min: usize, max: usize) -> Vec<E> {
    let n = min + rng.below(max - min + 1);
    (0..n).map(|_| gen_expr(rng, depth)).collect()
}

/// a reference expression of nesting depth <= `depth`
pub fn gen_expr(rng: &mut Rng, depth: usize) -> E {
    if depth == 0 || rng.chance(1, 5) {
        return gen_atom(rng);
    }
    let d = depth - 1;
    match rng.below(100) {
        0..=39 => {
            let ops = all_binops();
            let op = rng.pick(&ops).clone();
            E::Bin(op, Box::new(gen_expr(rng, d)), Box::new(gen_expr(rng, d)))
        }
        40..=47 => E::Not(Box::new(gen_expr(rng, d))),
        48..=57 => E::Neg(Box::new(gen_expr(rng, d))),
        58..=63 => E::Index(Box::new(gen_expr(rng, d)), Box::new(gen_expr(rng, d.min(2)))),
        64..=69 => E::Cast(Box::new(gen_expr(rng, d)), rng.pick(TYPES).to_string()),
        70..=76 => E::In(rng.chance(1, 3), Box::new(gen_expr(rng, d)), if rng.chance(1, 3) { gen_list(rng, d.min(2), 1, 1) } else { gen_list(rng, d.min(2), 1, 3) }),
        77..=83 => {
            let name = rng.pick(FUNCS).to_string();
            if rng.chance(1, 8) { E::Call(name, vec![E::Star]) } else { E::Call(name, gen_list(rng, d.min(3), 0, 3)) }
        }
        84..=85 => E::CountDistinct(rng.pick(&["count", "COUNT", "Count"]).to_string(), gen_list(rng, d.min(2), 1, 2)),
        86..=88 => E::Array(rng.pick(&["array", "ARRAY", "Array"]).to_string(), gen_list(rng, d.min(2), 0, 3)),
        89..=91 => {
            let n = 1 + rng.below(2);
            let clauses = (0..n).map(|_| (gen_expr(rng, d.min(3)), gen_expr(rng, d.min(2)))).collect();
            E::Case(clauses, Box::new(gen_expr(rng, d.min(2))))
        }
        92..=93 => E::Extract(rng.pick(PARTS).to_string(), Box::new(gen_expr(rng, d.min(3)))),
        94..=95 => E::Tuple(gen_list(rng, d.min(2), 2, 3)),
        _ => E::Paren(Box::new(gen_expr(rng, d))),
    }
}

/// `array` as a plain column directly followed by `[` would be read as the array constructor: outside the grammar
fn well_formed(e: &E) -> bool {
    let all = |xs: &Vec<E>| xs.iter().all(well_formed);
    match e {
        E::Index(a, i) => {
            let clash = match &**a { E::Col(parts) => parts.last().map_or(false, |p| p.to_lowercase() == "array") && parts.len() == 1, _ => false };
            !clash && well_formed(a) && well_formed(i)
        }
        E::Bin(_, l, r) => well_formed(l) && well_formed(r),
        E::Not(x) | E::Neg(x) | E::Cast(x, _) | E::Extract(_, x) | E::Paren(x) => well_formed(x),
        E::In(_, x, vs) => well_formed(x) && all(vs),
        E::Call(_, xs) | E::CountDistinct(_, xs) | E::Array(_, xs) | E::Tuple(xs) => all(xs),
        E::Case(cs, els) => cs.iter().all(|(c, r)| well_formed(c) && well_formed(r)) && well_formed(els),
        _ => true,
    }
}

fn top_word(e: &E) -> &'static str {
    match e {
        E::Int(_) | E::Float(_) | E::Str(_) | E::Null | E::True | E::False => "lit",
        E::Col(p) => if p.len() > 1 { "qual" } else { "col" },
        E::Star => "star",
        E::Bin(op, _, _) => match bin_level(op) { LEVEL_OR => "or", LEVEL_AND => "and", LEVEL_CMP => "cmp", LEVEL_ADD => "add", _ => "mul" },
        E::Not(_) => "not",
        E::Neg(_) => "neg",
        E::Index(..) => "index",
        E::Cast(..) => "cast",
        E::In(..) => "in",
        E::Call(..) => "call",
        E::CountDistinct(..) => "countdistinct",
        E::Array(..) => "array",
        E::Case(..) => "case",
        E::Extract(..) => "extract",
        E::Tuple(_) => "tuple",
        E::Paren(_) => "paren",
    }
}

fn op_word(e: &E) -> String {
    match e {
        E::Bin(op, _, _) => binop_words(op).join("_"),
        E::In(n, _, _) => if *n { "NOT_IN".to_owned() } else { "IN".to_owned() },
        other => top_word(other).to_owned(),
    }
}

/// the operator configuration of `e` (outer operator / operators of its operand positions): the classifier
fn configuration(e: &E) -> String {
    let kids: Vec<&E> = match e {
        E::Bin(_, l, r) => vec![l, r],
        E::Not(x) | E::Neg(x) | E::Cast(x, _) => vec![x],
        E::Index(a, _) => vec![a],
        E::In(_, x, _) => vec![x],
        _ => vec![],
    };
    format!("{}({})", op_word(e), kids.iter().map(|k| op_word(k)).collect::<Vec<_>>().join(","))
}

// ------------------------------------------------------------------------------------------------------------
// the property oracle on the implementation

/// the words on broken lines: every gap is one of blank, line break (the next word then starts in column 0), line break
/// plus indentation, tab, a comment up to the line end, CR LF — chosen by a hash of the position
pub fn layout_broken(ws: &[String], seed: u64) -> String {
    let mut s = String::new();
    for (i, w) in ws.iter().enumerate() {
        if i > 0 {
            let h = (seed ^ (i as u64).wrapping_mul(0x9e3779b97f4a7c15)).wrapping_mul(0xbf58476d1ce4e5b9) >> 33;
            s.push_str(match h % 7 { 0 | 1 => "\n", 2 => " ", 3 => "\n  ", 4 => "\t", 5 => " -- c\n", _ => "\r\n" });
        }
        s.push_str(w);
    }
    s
}

fn parse_text_tree(text: &str) -> Result<String, String> {
    let tokens = tokenize(text).map_err(|e| format!("tokenize: {:?}", e.error))?;
    match parse_tokens(tokens) {
        Caught::Panic(m) => Err(format!("panic: {}", m)),
        Caught::Done(Parsed { result: Err(e), .. }) => Err(format!("{:?} at {}:{}", e.error, e.location.line, e.location.column)),
        Caught::Done(Parsed { result: Ok(_), rest }) if rest != 0 => Err(format!("stopped with {} tokens left", rest)),
        Caught::Done(Parsed { result: Ok(t), .. }) => Ok(tree_sexp(&t, false)),
    }
}

/// rendering (Display, the repo's fully parenthesised channel) of `SELECT <e> FROM t` through `parse_into_tree`
fn select_display(text: &str) -> Result<String, String> {
    let sql = format!("SELECT {} FROM t", text);
    match catch(|| sqlgrep::parsing::parse_into_tree(&sql)) {
        Caught::Panic(m) => Err(format!("panic: {}", m)),
        Caught::Done(Err(e)) => Err(format!("{:?} at {}:{}", e.error, e.location.line, e.location.column)),
        Caught::Done(Ok(ParserOperationTree::Select { projections, .. })) => {
            Ok(projections.iter().map(|(_, p)| format!("{}", p.tree)).collect::<Vec<_>>().join(" ; "))
        }
        Caught::Done(Ok(_)) => Err("not a SELECT".to_owned()),
    }
}

/// `minimal e` and `full e` must both be read as the reference tree of `e`
fn oracle(run: &mut Run, e: &E, through_select: bool) {
    let want = expected(e);
    let min_text = layout(&words(e, Style::Minimal), false);
    let full_text = layout(&words(e, Style::Full), false);
    run.oracle_checks += 1;
    // a third spelling: the minimal form on broken lines (operators at line ends, operands and signs in column 0)
    let seed = min_text.bytes().fold(0xcbf29ce484222325u64, |h, b| (h ^ b as u64).wrapping_mul(0x100000001b3));
    let broken_text = layout_broken(&words(e, Style::Minimal), seed);
    let glued_text = layout_sign_glued(&words(e, Style::Minimal));
    for (which, text) in [("minimal", &min_text), ("full", &full_text), ("minimal, on broken lines,", &broken_text), ("minimal, signs directly before numbers,", &glued_text)].iter() {
        match parse_text_tree(text) {
            Ok(got) => {
                if got != want {
                    run.fail(format!("expression `{}` ({} parentheses)", text, which), &format!("misgrouped:{}", configuration(e)),
                             format!("the implementation reads it as {} but the reference grammar of C13 gives {} (fully parenthesised: `{}`)", got, want, full_text));
                    return;
                }
            }
            Err(err) => {
                run.fail(format!("expression `{}` ({} parentheses)", text, which), &format!("rejected:{}", configuration(e)),
                         format!("the implementation rejects it ({}) but the reference grammar of C13 reads it as `{}`", err, full_text));
                return;
            }
        }
    }
    if through_select {
        run.oracle_checks += 1;
        let a = select_display(&min_text);
        let b = select_display(&full_text);
        if a != b || a.is_err() {
            run.fail(format!("SELECT {} FROM t", min_text), &format!("select-misgrouped:{}", configuration(e)),
                     format!("rendered {:?}, but the fully parenthesised form `{}` renders {:?}", a, full_text, b));
        }
    }
}

// ------------------------------------------------------------------------------------------------------------
// exhaustive small scope: every tree with k operator nodes over the operator set, operands a, b, c, d

#[derive(Clone, Debug, PartialEq)]
enum Opr { B(BinOp), Not, Neg, Index, Cast, In, NotIn }

fn all_oprs() -> Vec<Opr> {
    let mut v: Vec<Opr> = all_binops().into_iter().map(Opr::B).collect();
    v.extend(vec![Opr::Not, Opr::Neg, Opr::Index, Opr::Cast, Opr::In, Opr::NotIn]);
    v
}

/// all trees with exactly `k` operator nodes; leaves are numbered in order of creation
fn trees(k: usize, oprs: &[Opr]) -> Vec<E> {
    if k == 0 {
        return vec![E::Col(vec!["a".to_owned()])];
    }
    let mut out = Vec::new();
    for o in oprs {
        match o {
            Opr::B(op) => {
                for kl in 0..k {
                    let ls = trees(kl, oprs);
                    let rs = trees(k - 1 - kl, oprs);
                    for l in &ls { for r in &rs { out.push(E::Bin(op.clone(), Box::new(l.clone()), Box::new(r.clone()))); } }
                }
            }
            _ => {
                for x in trees(k - 1, oprs) {
                    out.push(match o {
                        Opr::Not => E::Not(Box::new(x)),
                        Opr::Neg => E::Neg(Box::new(x)),
                        Opr::Index => E::Index(Box::new(x), Box::new(E::Int(1))),
                        Opr::Cast => E::Cast(Box::new(x), "int".to_owned()),
                        Opr::In => E::In(false, Box::new(x), vec![E::Int(1)]),
                        _ => E::In(true, Box::new(x), vec![E::Int(1), E::Int(2)]),
                    });
                }
            }
        }
    }
    out
}

fn rename_leaves(e: &mut E, next: &mut usize) {
    match e {
        E::Col(parts) => { *parts = vec![["a", "b", "c", "d", "e"][(*next).min(4)].to_owned()]; *next += 1; }
        E::Bin(_, l, r) => { rename_leaves(l, next); rename_leaves(r, next); }
        E::Not(x) | E::Neg(x) | E::Cast(x, _) => rename_leaves(x, next),
        E::Index(x, _) | E::In(_, x, _) => rename_leaves(x, next),
        _ => {}
    }
}

// ------------------------------------------------------------------------------------------------------------
// correspondence cases

fn case_for_tokens(run: &mut Run, tokens: Vec<ParserToken>, tag_prefix: &str, desc: String) -> Caught<Parsed> {
    let line = format!("pexpr {}", tokens_sexp(&tokens));
    let parsed = parse_tokens(tokens);
    let ans = answer(&parsed);
    run.case_with_desc(line, ans, format!("{}/{}", tag_prefix, result_word(&parsed)), desc);
    parsed
}

fn case_for_text(run: &mut Run, text: &str, tag_prefix: &str) {
    match tokenize(text) {
        Ok(tokens) => { case_for_tokens(run, tokens, tag_prefix, text.to_owned()); }
        Err(_) => { run.count("tokenize-error"); }
    }
}

fn vocabulary(rng: &mut Rng) -> Token {
    match rng.below(30) {
        0 => Token::Int(rng.range(0, 9)),
        1 => Token::Float(1.5),
        2 => Token::String("s".to_owned()),
        3 => Token::Null,
        4 => Token::True,
        5 | 6 => Token::Identifier(rng.pick(&["a", "b", "array", "count", "int", "f"]).to_string()),
        7 => Token::Operator(Operator::Single(*rng.pick(&['+', '-', '*', '/', '=', '<', '.', '^', '!', '%', '&']))),
        8 => Token::Operator(Operator::Single(*rng.pick(&['-', '*', '.']))),
        9 => Token::Operator(Operator::Dual(*rng.pick(&['<', '>', '!', '=']), '=')),
        10 => Token::Keyword(Keyword::Not),
        11 => Token::Keyword(Keyword::And),
        12 => Token::Keyword(Keyword::Or),
        13 => Token::Keyword(Keyword::Is),
        14 => Token::Keyword(Keyword::IsNot),
        15 => Token::Keyword(Keyword::In),
        16 => Token::Keyword(Keyword::NotIn),
        17 => Token::Keyword(rng.pick(&[Keyword::Case, Keyword::When, Keyword::Then, Keyword::Else, Keyword::End]).clone()),
        18 => Token::Keyword(rng.pick(&[Keyword::Extract, Keyword::From, Keyword::Distinct, Keyword::Select, Keyword::As]).clone()),
        19 | 20 => Token::LeftParentheses,
        21 | 22 => Token::RightParentheses,
        23 => Token::LeftSquareParentheses,
        24 => Token::RightSquareParentheses,
        25 | 26 => Token::Comma,
        27 => Token::DoubleColon,
        28 => rng.pick(&[Token::SemiColon, Token::Colon, Token::RightArrow, Token::LeftCurlyParentheses, Token::RightCurlyParentheses]).clone(),
        _ => Token::End,
    }
}

/// one malformed variant of a valid token vector; returns the mutation's name
fn mutate(rng: &mut Rng, tokens: &mut Vec<ParserToken>) -> &'static str {
    let n = tokens.len();
    let body = n.saturating_sub(1).max(1);     // positions before the End token
    match rng.below(12) {
        0 => { tokens.remove(rng.below(body)); "delete" }
        1 => { let i = rng.below(body); let t = tokens[i].clone(); tokens.insert(i, t); "duplicate" }
        2 => { if body >= 2 { let i = rng.below(body - 1); tokens.swap(i, i + 1); } "swap" }
        3 => { let i = rng.below(body); tokens.truncate(i + 1); "truncate-no-end" }
        4 => { let i = rng.below(body); let end = tokens[n - 1].clone(); tokens.truncate(i); tokens.push(end); "truncate" }
        5 => { let i = rng.below(n); let loc = tokens[i].location.clone(); let t = vocabulary(rng); tokens.insert(i, ParserToken { location: loc, token: t }); "insert" }
        6 => { let i = rng.below(body); tokens[i].token = vocabulary(rng); "replace" }
        7 => {
            // drop one parenthesis / bracket
            let idx: Vec<usize> = (0..n).filter(|i| matches!(tokens[*i].token, Token::LeftParentheses | Token::RightParentheses | Token::LeftSquareParentheses | Token::RightSquareParentheses)).collect();
            if idx.is_empty() { tokens.insert(0, ParserToken::new(0, 0, Token::LeftParentheses)); } else { let i = *rng.pick(&idx); tokens.remove(i); }
            "unbalance"
        }
        8 => {
            // an error inside parentheses: break a token after some `(`
            let idx: Vec<usize> = (0..n).filter(|i| tokens[*i].token == Token::LeftParentheses).collect();
            if idx.is_empty() { tokens.insert(0, ParserToken::new(0, 0, Token::LeftParentheses)); }
            else {
                let i = *rng.pick(&idx);
                let j = (i + 1 + rng.below(3)).min(n - 1);
                let t = match rng.below(5) { 0 => Token::Comma, 1 => Token::RightParentheses, 2 => Token::Operator(Operator::Single('+')), 3 => Token::Operator(Operator::Single('%')), _ => vocabulary(rng) };
                let loc = tokens[j].location.clone();
                if rng.chance(1, 2) { tokens[j].token = t; } else { tokens.insert(j, ParserToken { location: loc, token: t }); }
            }
            "error-in-parens"
        }
        9 => {
            // a comma / closing parenthesis right after a failing sub-expression
            let i = rng.below(body);
            let loc = tokens[i].location.clone();
            let bad = match rng.below(3) { 0 => Token::Operator(Operator::Single('%')), 1 => Token::Keyword(Keyword::From), _ => Token::RightSquareParentheses };
            tokens.insert(i, ParserToken { location: loc.clone(), token: Token::LeftParentheses });
            tokens.insert(i + 1, ParserToken { location: loc.clone(), token: bad });
            tokens.insert(i + 2, ParserToken { location: loc, token: if rng.chance(1, 2) { Token::Comma } else { Token::RightParentheses } });
            "failed-subexpr-then-delimiter"
        }
        10 => { let i = rng.below(body); let j = rng.below(body); tokens.swap(i, j); "swap-far" }
        _ => { for _ in 0..2 { let i = rng.below(tokens.len().max(1)); if tokens.len() > 1 { tokens.remove(i); } } "delete-two" }
    }
}

const INSTANCES: &[&str] = &[
    "a OR b AND c", "NOT a = b", "x + a[1]", "x = -1", "x - -1", "x IN (1)", "x NOT IN (1)", "(a)", "((a + b)) * (c)",
    "a = -b", "a * -b + c", "- a * b", "-a[1]", "-a::int", "NOT a AND b", "NOT NOT a", "- - a", "a AND NOT b = c",
    "a.b = c.d", "a.b.c", "t.x[1]::int", "x::int::text", "a[1][2]", "a IS NOT NULL AND b IS NULL", "a < b = c",
    "a - b - c", "a / b * c", "a ^ b ^ c", "a + b * c - d", "a OR b OR c AND d", "x IN (1, 2) = TRUE", "x + 1 IN (1)",
    "NOT x IN (1)", "count(DISTINCT x)", "count(*)", "array[1, 2][1]", "array[]", "f()", "f(a, b + 1, (c))", "(a, b)",
    "(a, b + 1, c)", "CASE WHEN a THEN b ELSE c END", "CASE WHEN a = 1 THEN b WHEN c THEN d ELSE e + 1 END * 2",
    "EXTRACT(hour FROM ts)", "EXTRACT(É FROM x)", "EXTRACT(Ärger FROM x) + 1", "EXTRACT(EPOCH FROM a - b) / 60", "x::nosuchtype", "a.1", "1.a", "(a + b).c", "a :: 1",
    "* ", "count(*) + 1", "a % b", "% a", "! a", "a !", "a IN 1", "a IN ()", "a IN (1,)", "(", "()", "(,", "(a,", "(a,)",
    "(a b)", "(a +)", "(a + , b)", "f(", "f(a", "f(a,", "f(a b)", "a[", "a[1", "a[]", "CASE", "CASE WHEN", "CASE WHEN a",
    "CASE WHEN a THEN b", "CASE WHEN a THEN b ELSE c", "CASE a", "EXTRACT", "EXTRACT(", "EXTRACT(1 FROM a)", "EXTRACT(h a)",
    "EXTRACT(h FROM a", "-", "NOT", "- NOT a = b", "a = NOT b", "a NOT b", "a IS", "a IS NOT", "a b", "a + + b", "a + * b",
    "array[1", "ARRAY[a, b]", "Array [ 1 ]", "x [ 1 ]", "arrays[1]", "COUNT(distinct a, b)", "count(distinct)", "max(distinct a)",
    "(%)", "(% ,", "(% )", "((%) , a)", "(a + %, b)", "f((%), a)", "(FROM, a)", "(a FROM)", "a::int[1]", "a::array[1]",
];

pub fn run(p: &Params) -> Run {
    let mut run = Run::new("C13");
    let mut rng = Rng::new(p.seed ^ 0xC13);

    // fixed instances (the sentence's own examples, boundary forms, malformed forms)
    for text in INSTANCES {
        case_for_text(&mut run, text, "instance");
    }
    for (text, e) in sentence_instances() {
        // the text of the sentence is what the reference printer prints for that tree
        let printed = layout(&words(&e, Style::Minimal), false);
        if printed != text { run.fail(format!("instance `{}`", text), "harness:printer", format!("the reference printer prints `{}`", printed)); }
        oracle(&mut run, &e, true);
    }

    // valid stream + oracle
    let n_valid = p.n(1500, 60000);
    let mut valid_tokens: Vec<Vec<ParserToken>> = Vec::new();
    for i in 0..n_valid {
        let depth = 1 + rng.below(8);
        let e = gen_expr(&mut rng, depth);
        if !well_formed(&e) { run.count("skipped:array-column-subscript"); continue; }
        run.count(&format!("top:{}", top_word(&e)));
        let style = match rng.below(4) { 0 => Style::Full, _ => Style::Minimal };
        let text = layout(&words(&e, style), rng.chance(1, 2));
        let text = if rng.chance(1, 10) { text.replace(" ", "\n ") } else { text };
        let tag = format!("valid/{}/{}", if style == Style::Full { "full" } else { "min" }, top_word(&e));
        if let Ok(tokens) = tokenize(&text) {
            if valid_tokens.len() < 4000 { valid_tokens.push(tokens.clone()); }
            let parsed = case_for_tokens(&mut run, tokens, &tag, text.clone());
            if let Caught::Done(Parsed { result: Err(err), .. }) = &parsed {
                run.oracle_checks += 1;
                run.fail(format!("expression `{}`", text), &format!("rejected:{}", configuration(&e)), format!("the implementation rejects a reference expression: {:?}", err.error));
            }
        } else {
            run.fail(format!("expression `{}`", text), "harness:tokenize", "a printed reference expression does not tokenise".to_owned());
        }
        oracle(&mut run, &e, i % 8 == 0);
    }

    // every way an operand can END, followed by a binary minus and a number (and by `- -1`): the sign-glued spelling of the oracle
    // writes them `X -1` / `X - -1` — a tokenizer that reads `-1` as a literal "in operand position" must know every operand end
    {
        let col = |n: &str| E::Col(vec![n.to_owned()]);
        let minus = BinOp::Sym(Operator::Single('-'));
        let ends: Vec<E> = vec![
            col("x"), E::Col(vec!["t".to_owned(), "x".to_owned()]), E::Int(7), E::Float(2.5), E::Str("s".to_owned()), E::Null, E::True, E::False,
            E::Paren(Box::new(col("a"))), E::Index(Box::new(col("a")), Box::new(E::Int(1))), E::Cast(Box::new(col("x")), "int".to_owned()),
            E::Call("abs".to_owned(), vec![col("x")]), E::Call("count".to_owned(), vec![E::Star]), E::CountDistinct("count".to_owned(), vec![col("x")]),
            E::Array("array".to_owned(), vec![E::Int(1), E::Int(2)]), E::Extract("hour".to_owned(), Box::new(col("c"))),
            E::Case(vec![(col("a"), col("b"))], Box::new(col("c"))), E::Case(vec![(col("a"), E::Int(1))], Box::new(E::Int(2))),
        ];
        for x in &ends {
            for rhs in [E::Int(1), E::Float(0.5), E::Neg(Box::new(E::Int(1)))] {
                let e = E::Bin(minus.clone(), Box::new(x.clone()), Box::new(rhs));
                if well_formed(&e) { run.count("operand-end-minus-number"); oracle(&mut run, &e, true); }
            }
        }
    }

    // malformed stream
    let n_mal = p.n(2200, 90000);
    for i in 0..n_mal {
        if valid_tokens.is_empty() { break; }
        let mut tokens = valid_tokens[rng.below(valid_tokens.len())].clone();
        if tokens.len() > 40 && i % 3 != 0 { continue; }
        let mut names = Vec::new();
        let rounds = 1 + rng.below(2);
        for _ in 0..rounds {
            if tokens.is_empty() { break; }
            names.push(mutate(&mut rng, &mut tokens));
        }
        if tokens.is_empty() { continue; }
        let tag = format!("mal/{}", names[0]);
        let desc = format!("{} of a valid expression", names.join("+"));
        case_for_tokens(&mut run, tokens, &tag, desc);
    }
    // token soups
    for _ in 0..p.n(500, 20000) {
        let n = 1 + rng.below(9);
        let mut tokens: Vec<ParserToken> = (0..n).map(|i| ParserToken::new(rng.below(3), i * 2, vocabulary(&mut rng))).collect();
        if rng.chance(3, 4) { tokens.push(ParserToken::new(3, 2 * n, Token::End)); }
        case_for_tokens(&mut run, tokens, "soup", "token soup".to_owned());
    }

    // exhaustive small scope: every tree with 2 (quick) / up to 3 (thorough) operator nodes
    let oprs = all_oprs();
    let max_k = if p.tier_thorough { 3 } else { 2 };
    for k in 1..=max_k {
        let mut all = trees(k, &oprs);
        let total = all.len();
        for (i, e) in all.iter_mut().enumerate() {
            let mut next = 0;
            rename_leaves(e, &mut next);
            oracle(&mut run, e, false);
            // a sample of them also goes through the model
            let stride = if k <= 2 { 3 } else { 40 };
            if i % stride == 0 {
                let text = layout(&words(e, Style::Minimal), false);
                case_for_text(&mut run, &text, &format!("exhaustive{}", k));
            }
        }
        run.notes.push(format!("exhaustive: all {} trees with {} operator nodes over {} operators checked against the reference grammar (minimal and full form)", total, k, oprs.len()));
    }

    // the generated tables are what the reference grammar says (a changed entry is exhibited by the pair enumeration above)
    run.oracle_checks += 1;
    for (op, prec) in crate::tables_prec::binary_table() {
        if op == Operator::Single('.') { continue; }
        let want = bin_level(&BinOp::Sym(op));
        if prec != want { run.count(&format!("table-entry-differs:{}", op)); }
    }
    run
}

/// the instances named in the property sentence, as (text, reference tree)
fn sentence_instances() -> Vec<(&'static str, E)> {
    let col = |s: &str| E::Col(vec![s.to_owned()]);
    let bin = |op: BinOp, l: E, r: E| E::Bin(op, Box::new(l), Box::new(r));
    let sym = |c: char| BinOp::Sym(Operator::Single(c));
    vec![
        ("a OR b AND c", bin(BinOp::Or, col("a"), bin(BinOp::And, col("b"), col("c")))),
        ("NOT a = b", E::Not(Box::new(bin(sym('='), col("a"), col("b"))))),
        ("x + a [ 1 ]", bin(sym('+'), col("x"), E::Index(Box::new(col("a")), Box::new(E::Int(1))))),
        ("x = - 1", bin(sym('='), col("x"), E::Neg(Box::new(E::Int(1))))),
        ("x - - 1", bin(sym('-'), col("x"), E::Neg(Box::new(E::Int(1))))),
        ("x IN ( 1 )", E::In(false, Box::new(col("x")), vec![E::Int(1)])),
        ("( a ) + ( b * c )", bin(sym('+'), E::Paren(Box::new(col("a"))), E::Paren(Box::new(bin(sym('*'), col("b"), col("c")))))),
    ]
}
