import SqlgrepModel.Lemmas.AggCell
/-
Per-aggregate lemmas: the cell an aggregate reaches by folding its step over the argument values `vs` of a
group (arrival order, NULLs included), for each of the twelve aggregates, stated against the specification's
`Spec.Agg.aggregate`. REAL arithmetic (`F64.add` …) is opaque here.
-/
set_option linter.unusedSimpArgs false
namespace Sqlgrep
open Value Spec.Agg

/-- fold of the value step over a list of argument values -/
def foldV (k : AggKind) : List Value → Cell → Outcome Cell
  | [], c => .ok c
  | v :: vs, c => (stepV k v c).bind (foldV k vs)

theorem foldV_append (k : AggKind) (xs ys : List Value) (c : Cell) :
    foldV k (xs ++ ys) c = (foldV k xs c).bind (foldV k ys) := by
  induction xs generalizing c with
  | nil => rfl
  | cons x xs ih =>
    simp only [List.cons_append, foldV]
    cases stepV k x c <;> simp [Outcome.bind, ih]

/-- what `execute_result` publishes for a cell: a percentile aggregator's value overrides the stored one -/
def published (c : Cell) : Option Value :=
  match c.agg with
  | some (.percentile vals p) =>
    match percentileValue vals p with
    | some v => some v
    | none => c.val
  | _ => c.val

/-- the value shown for aggregate `k` in a group whose cell is `c` (before the transform) -/
def shownValue (k : AggKind) (c : Cell) : Value := (published c).getD (emptyGroupValue k)

/-! ### COUNT(*) and COUNT(c) -/

def countCell (a : Option Aggregator) (n : Nat) : Cell := { agg := a, val := if n = 0 then none else some (.int n) }

theorem bumpCount_countCell (a : Option Aggregator) (n : Nat) : bumpCount (countCell a n) = countCell a (n + 1) := by
  unfold bumpCount countCell
  by_cases hn : n = 0
  · subst hn; simp
  · simp [hn]

theorem foldV_count (col : Option String) (vs : List Value) (a : Option Aggregator) (n : Nat) :
    foldV (.count col false) vs (countCell a n) = .ok (countCell a (n + (vs.filter (countValid col)).length)) := by
  induction vs generalizing n with
  | nil => simp [foldV]
  | cons v vs ih =>
    simp only [foldV, stepV, stepCount, Bool.and_false, Bool.false_eq_true, if_false, Outcome.bind]
    by_cases hv : countValid col v = true
    · simp only [hv, if_true, bumpCount_countCell, ih, List.filter_cons_of_pos hv, List.length_cons]
      congr 2; omega
    · simp only [hv, if_false, Bool.false_eq_true, ih, List.filter_cons_of_neg hv]

theorem countCell_zero : countCell none 0 = {} := rfl

/-- COUNT(*): the number of rows of the group -/
theorem count_star_cell (vs : List Value) :
    foldV (.count none false) vs {} = .ok (countCell none vs.length) := by
  rw [← countCell_zero, foldV_count]
  have : vs.filter (countValid none) = vs := by
    apply List.filter_eq_self.mpr; intro v _; rfl
  rw [this, Nat.zero_add]

/-- COUNT(c): the number of rows whose `c` is not NULL -/
theorem count_col_cell (cn : String) (vs : List Value) :
    foldV (.count (some cn) false) vs {} = .ok (countCell none (nonNull vs).length) := by
  rw [← countCell_zero, foldV_count, Nat.zero_add]
  rfl

theorem shown_countCell (col : Option String) (d : Bool) (a : Option Aggregator) (n : Nat)
    (ha : ∀ vals p, a ≠ some (.percentile vals p)) : shownValue (.count col d) (countCell a n) = .int n := by
  unfold shownValue published countCell
  cases a with
  | none => by_cases hn : n = 0 <;> simp [hn, emptyGroupValue]
  | some x =>
    cases x <;> first
      | exact absurd rfl (ha _ _)
      | (by_cases hn : n = 0 <;> simp [hn, emptyGroupValue])

/-! ### helpers on argument lists -/

theorem nonNull_cons_null (vs : List Value) : nonNull (Value.null :: vs) = nonNull vs := rfl

theorem nonNull_cons_of_not_null {v : Value} (h : v.isNull = false) (vs : List Value) :
    nonNull (v :: vs) = v :: nonNull vs := by
  simp [nonNull, List.filter, h]

theorem collect_cons_some {α : Type} (a : α) (rest : List (Option α)) :
    collect (some a :: rest) = (collect rest).map (a :: ·) := rfl

theorem collect_eq_some_cons {α : Type} {a : α} {rest : List (Option α)} {l : List α}
    (h : collect (some a :: rest) = some l) : ∃ l', collect rest = some l' ∧ l = a :: l' := by
  rw [collect_cons_some] at h
  cases hc : collect rest with
  | none => simp [hc] at h
  | some l' => simp [hc] at h; exact ⟨l', rfl, h.symm⟩

/-! ### BOOL_AND / BOOL_OR -/

def andCell (cur : Option Bool) : Cell := { agg := some (.boolAnd cur), val := cur.map Value.bool }
def orCell (cur : Option Bool) : Cell := { agg := some (.boolOr cur), val := cur.map Value.bool }

def andNext (cur : Option Bool) (b : Bool) : Bool :=
  match cur with
  | some c => c && b
  | none => b
def orNext (cur : Option Bool) (b : Bool) : Bool :=
  match cur with
  | some c => c || b
  | none => b

def andFold (cur : Option Bool) (bs : List Bool) : Option Bool := bs.foldl (fun cur b => some (andNext cur b)) cur
def orFold (cur : Option Bool) (bs : List Bool) : Option Bool := bs.foldl (fun cur b => some (orNext cur b)) cur

theorem aggUpdate_boolAnd (cur : Option Bool) (b : Bool) :
    aggUpdate (.boolAnd cur) (.bool b) = .ok (.boolAnd (some (andNext cur b)), some (.bool (andNext cur b))) := by
  cases cur <;> rfl
theorem aggUpdate_boolOr (cur : Option Bool) (b : Bool) :
    aggUpdate (.boolOr cur) (.bool b) = .ok (.boolOr (some (orNext cur b)), some (.bool (orNext cur b))) := by
  cases cur <;> rfl

theorem foldV_boolAnd (e : Expr) (vs : List Value) (cur : Option Bool) (bs : List Bool)
    (h : bools (nonNull vs) = some bs) :
    foldV (.boolAnd e) vs (andCell cur) = .ok (andCell (andFold cur bs)) := by
  induction vs generalizing cur bs with
  | nil => simp [nonNull, bools, collect] at h; subst h; rfl
  | cons v vs ih =>
    cases v with
    | null =>
      rw [nonNull_cons_null] at h
      simp only [foldV, stepV, andCell, Option.getD, isNull, Bool.not_true, Bool.false_eq_true, if_false, aggIsNull, Outcome.bind]
      exact ih cur bs h
    | bool b =>
      rw [nonNull_cons_of_not_null rfl] at h
      obtain ⟨bs', h', hbs⟩ := collect_eq_some_cons h
      subst hbs
      have := ih (some (andNext cur b)) bs' h'
      simp only [foldV, stepV, andCell, Option.getD, isNull, Bool.not_false, if_true, aggUpdate_boolAnd, bind, Outcome.bind, pure]
      simpa [andCell, andFold] using this
    | int _ => simp [nonNull, isNull, bools, collect, asBool] at h
    | real _ => simp [nonNull, isNull, bools, collect, asBool] at h
    | text _ => simp [nonNull, isNull, bools, collect, asBool] at h
    | array _ _ => simp [nonNull, isNull, bools, collect, asBool] at h
    | timestamp _ _ _ => simp [nonNull, isNull, bools, collect, asBool] at h
    | interval _ => simp [nonNull, isNull, bools, collect, asBool] at h

theorem foldV_boolOr (e : Expr) (vs : List Value) (cur : Option Bool) (bs : List Bool)
    (h : bools (nonNull vs) = some bs) :
    foldV (.boolOr e) vs (orCell cur) = .ok (orCell (orFold cur bs)) := by
  induction vs generalizing cur bs with
  | nil => simp [nonNull, bools, collect] at h; subst h; rfl
  | cons v vs ih =>
    cases v with
    | null =>
      rw [nonNull_cons_null] at h
      simp only [foldV, stepV, orCell, Option.getD, isNull, Bool.not_true, Bool.false_eq_true, if_false, aggIsNull, Outcome.bind]
      exact ih cur bs h
    | bool b =>
      rw [nonNull_cons_of_not_null rfl] at h
      obtain ⟨bs', h', hbs⟩ := collect_eq_some_cons h
      subst hbs
      have := ih (some (orNext cur b)) bs' h'
      simp only [foldV, stepV, orCell, Option.getD, isNull, Bool.not_false, if_true, aggUpdate_boolOr, bind, Outcome.bind, pure]
      simpa [orCell, orFold] using this
    | int _ => simp [nonNull, isNull, bools, collect, asBool] at h
    | real _ => simp [nonNull, isNull, bools, collect, asBool] at h
    | text _ => simp [nonNull, isNull, bools, collect, asBool] at h
    | array _ _ => simp [nonNull, isNull, bools, collect, asBool] at h
    | timestamp _ _ _ => simp [nonNull, isNull, bools, collect, asBool] at h
    | interval _ => simp [nonNull, isNull, bools, collect, asBool] at h

theorem andFold_some (c : Bool) (bs : List Bool) : andFold (some c) bs = some (c && bs.all id) := by
  induction bs generalizing c with
  | nil => simp [andFold]
  | cons b bs ih =>
    have := ih (c && b)
    simp only [andFold, List.foldl_cons, andNext] at this ⊢
    rw [this]; simp [Bool.and_assoc]

theorem orFold_some (c : Bool) (bs : List Bool) : orFold (some c) bs = some (c || bs.any id) := by
  induction bs generalizing c with
  | nil => simp [orFold]
  | cons b bs ih =>
    have := ih (c || b)
    simp only [orFold, List.foldl_cons, orNext] at this ⊢
    rw [this]; simp [Bool.or_assoc]

theorem andFold_none (bs : List Bool) : andFold none bs = if bs.isEmpty then none else some (bs.all id) := by
  cases bs with
  | nil => rfl
  | cons b bs =>
    have := andFold_some b bs
    simp only [andFold, List.foldl_cons, andNext] at this ⊢
    rw [this]; simp

theorem orFold_none (bs : List Bool) : orFold none bs = if bs.isEmpty then none else some (bs.any id) := by
  cases bs with
  | nil => rfl
  | cons b bs =>
    have := orFold_some b bs
    simp only [orFold, List.foldl_cons, orNext] at this ⊢
    rw [this]; simp

/-- the first row creates the aggregator: from the empty cell the fold goes as from "aggregator present, no value yet" -/
theorem foldV_boolAnd_init (e : Expr) (v : Value) (vs : List Value) :
    foldV (.boolAnd e) (v :: vs) {} = foldV (.boolAnd e) (v :: vs) (andCell none) := by
  simp only [foldV, stepV, andCell]; rfl
theorem foldV_boolOr_init (e : Expr) (v : Value) (vs : List Value) :
    foldV (.boolOr e) (v :: vs) {} = foldV (.boolOr e) (v :: vs) (orCell none) := by
  simp only [foldV, stepV, orCell]; rfl

theorem bools_length {vs : List Value} {bs : List Bool} (h : bools vs = some bs) : bs.length = vs.length := by
  induction vs generalizing bs with
  | nil => simp [bools, collect] at h; subst h; rfl
  | cons v vs ih =>
    cases hv : asBool v with
    | none => simp [bools, collect, hv] at h
    | some b =>
      simp only [bools, List.map_cons, hv] at h
      obtain ⟨l', h', hl⟩ := collect_eq_some_cons h
      subst hl
      simp [ih h']

/-- BOOL_AND: conjunction of the non-NULL arguments, NULL (no entry) if there are none -/
theorem boolAnd_refines (e : Expr) (vs : List Value) (r : Value) (h : aggregate (.boolAnd e) vs = some r) :
    ∃ c, foldV (.boolAnd e) vs {} = .ok c ∧ shownValue (.boolAnd e) c = r ∧
      (published c).isSome = createsEntry (.boolAnd e) vs := by
  simp only [aggregate] at h
  cases hb : bools (nonNull vs) with
  | none => simp [hb] at h
  | some bs =>
    simp only [hb, Option.map_some, Option.some.injEq] at h
    have hlen := bools_length hb
    cases vs with
    | nil =>
      simp [nonNull, bools, collect] at hb; subst hb
      exact ⟨{}, rfl, by simpa [shownValue, published, emptyGroupValue] using h, rfl⟩
    | cons v vs =>
      refine ⟨andCell (andFold none bs), ?_, ?_, ?_⟩
      · rw [foldV_boolAnd_init]; exact foldV_boolAnd e _ none bs hb
      · rw [andFold_none, ← h]
        cases hbe : bs.isEmpty <;> simp [shownValue, published, andCell, emptyGroupValue]
      · rw [andFold_none]
        simp only [createsEntry, published, andCell]
        have : bs.isEmpty = (nonNull (v :: vs)).isEmpty := by
          cases bs <;> cases hn : nonNull (v :: vs) <;> simp [hn] at hlen ⊢
        rw [← this]
        cases bs.isEmpty <;> simp

/-- BOOL_OR: disjunction of the non-NULL arguments, NULL (no entry) if there are none -/
theorem boolOr_refines (e : Expr) (vs : List Value) (r : Value) (h : aggregate (.boolOr e) vs = some r) :
    ∃ c, foldV (.boolOr e) vs {} = .ok c ∧ shownValue (.boolOr e) c = r ∧
      (published c).isSome = createsEntry (.boolOr e) vs := by
  simp only [aggregate] at h
  cases hb : bools (nonNull vs) with
  | none => simp [hb] at h
  | some bs =>
    simp only [hb, Option.map_some, Option.some.injEq] at h
    have hlen := bools_length hb
    cases vs with
    | nil =>
      simp [nonNull, bools, collect] at hb; subst hb
      exact ⟨{}, rfl, by simpa [shownValue, published, emptyGroupValue] using h, rfl⟩
    | cons v vs =>
      refine ⟨orCell (orFold none bs), ?_, ?_, ?_⟩
      · rw [foldV_boolOr_init]; exact foldV_boolOr e _ none bs hb
      · rw [orFold_none, ← h]
        cases hbe : bs.isEmpty <;> simp [shownValue, published, orCell, emptyGroupValue]
      · rw [orFold_none]
        simp only [createsEntry, published, orCell]
        have : bs.isEmpty = (nonNull (v :: vs)).isEmpty := by
          cases bs <;> cases hn : nonNull (v :: vs) <;> simp [hn] at hlen ⊢
        rw [← this]
        cases bs.isEmpty <;> simp

/-- COUNT(*) / COUNT(c) against the specification -/
theorem count_refines (col : Option String) (vs : List Value) (r : Value) (h : aggregate (.count col false) vs = some r) :
    ∃ c, foldV (.count col false) vs {} = .ok c ∧ shownValue (.count col false) c = r ∧
      (published c).isSome = createsEntry (.count col false) vs := by
  cases col with
  | none =>
    simp only [aggregate, Bool.false_eq_true, if_false, Option.some.injEq] at h
    refine ⟨_, count_star_cell vs, ?_, ?_⟩
    · rw [shown_countCell _ _ _ _ (by simp)]; exact h
    · cases vs <;> simp [published, countCell, createsEntry]
  | some cn =>
    simp only [aggregate, Option.some.injEq] at h
    refine ⟨_, count_col_cell cn vs, ?_, ?_⟩
    · rw [shown_countCell _ _ _ _ (by simp)]; exact h
    · cases hn : nonNull vs <;> simp [published, countCell, createsEntry, hn]

/-! ### MIN / MAX -/

/-- the running extreme as the engine keeps it (a NULL current value is replaced by anything) -/
def mmFold (ord : Ordering) (cur : Value) (xs : List Value) : Value :=
  xs.foldl (fun cur v => if cur.isNull || Value.cmp v cur == ord then v else cur) cur

theorem foldV_min (e : Expr) (vs : List Value) (a : Option Aggregator) (cur : Value) :
    foldV (.min e) vs { agg := a, val := some cur } = .ok { agg := a, val := some (mmFold .lt cur (nonNull vs)) } := by
  induction vs generalizing cur with
  | nil => rfl
  | cons v vs ih =>
    cases hv : v.isNull
    · rw [nonNull_cons_of_not_null hv]
      simp only [foldV, stepV, hv, Bool.not_false, if_true, Option.getD, Outcome.bind, ih, mmFold, List.foldl_cons]
    · have : v = .null := by cases v <;> simp [isNull] at hv; rfl
      subst this
      rw [nonNull_cons_null]
      simp only [foldV, stepV, isNull, Bool.not_true, Bool.false_eq_true, if_false, Option.getD, Outcome.bind, ih]

theorem foldV_max (e : Expr) (vs : List Value) (a : Option Aggregator) (cur : Value) :
    foldV (.max e) vs { agg := a, val := some cur } = .ok { agg := a, val := some (mmFold .gt cur (nonNull vs)) } := by
  induction vs generalizing cur with
  | nil => rfl
  | cons v vs ih =>
    cases hv : v.isNull
    · rw [nonNull_cons_of_not_null hv]
      simp only [foldV, stepV, hv, Bool.not_false, if_true, Option.getD, Outcome.bind, ih, mmFold, List.foldl_cons]
    · have : v = .null := by cases v <;> simp [isNull] at hv; rfl
      subst this
      rw [nonNull_cons_null]
      simp only [foldV, stepV, isNull, Bool.not_true, Bool.false_eq_true, if_false, Option.getD, Outcome.bind, ih]

theorem nonNull_all (vs : List Value) : ∀ x ∈ nonNull vs, x.isNull = false := by
  intro x hx
  simp [nonNull] at hx
  exact hx.2

theorem mmFold_nonNull (ord : Ordering) (cur : Value) (xs : List Value) (hc : cur.isNull = false)
    (hx : ∀ x ∈ xs, x.isNull = false) :
    mmFold ord cur xs = xs.foldl (fun cur v => if Value.cmp v cur == ord then v else cur) cur ∧
      (mmFold ord cur xs).isNull = false := by
  induction xs generalizing cur with
  | nil => exact ⟨rfl, hc⟩
  | cons x xs ih =>
    have hx' : ∀ y ∈ xs, y.isNull = false := fun y hy => hx y (by simp [hy])
    have hxn : x.isNull = false := hx x (by simp)
    simp only [mmFold, List.foldl_cons, hc, Bool.false_or]
    by_cases hb : (Value.cmp x cur == ord) = true
    · simp only [hb, if_true]; exact ih x hxn hx'
    · simp only [hb, Bool.false_eq_true, if_false]; exact ih cur hc hx'

/-- from the empty cell, the first row's value (NULL or not) becomes the current value -/
theorem foldV_min_init (e : Expr) (v : Value) (vs : List Value) :
    foldV (.min e) (v :: vs) {} = foldV (.min e) vs { agg := none, val := some v } := by
  cases hv : v.isNull
  · simp [foldV, stepV, hv, Outcome.bind, cmp_refl]
  · have : v = .null := by cases v <;> simp [isNull] at hv; rfl
    subst this
    simp [foldV, stepV, isNull, Outcome.bind]

theorem foldV_max_init (e : Expr) (v : Value) (vs : List Value) :
    foldV (.max e) (v :: vs) {} = foldV (.max e) vs { agg := none, val := some v } := by
  cases hv : v.isNull
  · simp [foldV, stepV, hv, Outcome.bind, cmp_refl]
  · have : v = .null := by cases v <;> simp [isNull] at hv; rfl
    subst this
    simp [foldV, stepV, isNull, Outcome.bind]

/-- the engine's running extreme from the first row's value = the specification's extreme of the non-NULL values -/
theorem mmFold_eq_extreme (wantLess : Bool) (v : Value) (vs : List Value) :
    mmFold (if wantLess then .lt else .gt) v (nonNull vs) = extreme wantLess (nonNull (v :: vs)) := by
  cases hv : v.isNull
  · rw [nonNull_cons_of_not_null hv]
    exact (mmFold_nonNull _ v _ hv (nonNull_all vs)).1
  · have : v = .null := by cases v <;> simp [isNull] at hv; rfl
    subst this
    rw [nonNull_cons_null]
    cases hn : nonNull vs with
    | nil => rfl
    | cons x xs =>
      have hall := nonNull_all vs
      rw [hn] at hall
      have := (mmFold_nonNull (if wantLess then .lt else .gt) x xs (hall x (by simp)) (fun y hy => hall y (by simp [hy]))).1
      simp only [mmFold, List.foldl_cons, isNull, Bool.true_or, if_true] at this ⊢
      exact this

/-- MIN: the least non-NULL argument by the value order (NULL if there is none) -/
theorem min_refines (e : Expr) (vs : List Value) (r : Value) (h : aggregate (.min e) vs = some r) :
    ∃ c, foldV (.min e) vs {} = .ok c ∧ shownValue (.min e) c = r ∧
      (published c).isSome = createsEntry (.min e) vs := by
  simp only [aggregate] at h
  split at h
  · simp only [Option.some.injEq] at h
    cases vs with
    | nil => exact ⟨{}, rfl, by simpa [shownValue, published, emptyGroupValue, nonNull, extreme] using h, rfl⟩
    | cons v vs =>
      refine ⟨_, by rw [foldV_min_init]; exact foldV_min e vs none v, ?_, rfl⟩
      have := mmFold_eq_extreme true v vs
      simp only [if_true] at this
      simp [shownValue, published, this, h]
  · simp at h

/-- MAX: the greatest non-NULL argument by the value order (NULL if there is none) -/
theorem max_refines (e : Expr) (vs : List Value) (r : Value) (h : aggregate (.max e) vs = some r) :
    ∃ c, foldV (.max e) vs {} = .ok c ∧ shownValue (.max e) c = r ∧
      (published c).isSome = createsEntry (.max e) vs := by
  simp only [aggregate] at h
  split at h
  · simp only [Option.some.injEq] at h
    cases vs with
    | nil => exact ⟨{}, rfl, by simpa [shownValue, published, emptyGroupValue, nonNull, extreme] using h, rfl⟩
    | cons v vs =>
      refine ⟨_, by rw [foldV_max_init]; exact foldV_max e vs none v, ?_, rfl⟩
      have := mmFold_eq_extreme false v vs
      simp only [Bool.false_eq_true, if_false] at this
      simp [shownValue, published, this, h]
  · simp at h

/-! ### PERCENTILE -/

def pctCell (xs : List Value) (p : Nat) : Cell := { agg := some (.percentile xs p), val := none }

theorem foldV_percentile (e : Expr) (p : Nat) (vs xs : List Value) :
    foldV (.percentile e p) vs (pctCell xs p) = .ok (pctCell (xs ++ nonNull vs) p) := by
  induction vs generalizing xs with
  | nil => simp [foldV, nonNull]
  | cons v vs ih =>
    cases hv : v.isNull
    · rw [nonNull_cons_of_not_null hv]
      simp only [foldV, stepV, pctCell, Option.getD, hv, Bool.not_false, if_true, aggUpdate, bind, Outcome.bind, pure]
      have := ih (xs ++ [v])
      simpa [pctCell] using this
    · have : v = .null := by cases v <;> simp [isNull] at hv; rfl
      subst this
      rw [nonNull_cons_null]
      simp only [foldV, stepV, pctCell, Option.getD, isNull, Bool.not_true, Bool.false_eq_true, if_false, aggIsNull, Outcome.bind]
      exact ih xs

theorem foldV_percentile_init (e : Expr) (p : Nat) (v : Value) (vs : List Value) :
    foldV (.percentile e p) (v :: vs) {} = foldV (.percentile e p) (v :: vs) (pctCell [] p) := by
  simp only [foldV, stepV, pctCell]; rfl

theorem insertSorted_length (v : Value) (xs : List Value) : (insertSorted v xs).length = xs.length + 1 := by
  induction xs with
  | nil => rfl
  | cons x xs ih => simp only [insertSorted]; split <;> simp [ih]

theorem sortValues_length (xs : List Value) : (sortValues xs).length = xs.length := by
  induction xs with
  | nil => rfl
  | cons x xs ih => simp only [sortValues, List.foldr_cons] at ih ⊢; rw [insertSorted_length, ih]; rfl

theorem percentileValue_isSome (xs : List Value) (p : Nat) : (percentileValue xs p).isSome = !xs.isEmpty := by
  unfold percentileValue
  simp only
  have hl := sortValues_length xs
  cases xs with
  | nil => simp [sortValues]
  | cons x xs =>
    have : min (f64ToNat (F64.mul p (F64.ofInt ((sortValues (x :: xs)).length : Nat)))) ((sortValues (x :: xs)).length - 1)
        < (sortValues (x :: xs)).length := by
      rw [hl]; simp only [List.length_cons]; omega
    simp [List.getElem?_eq_getElem this]

/-- PERCENTILE(p): the element at index min(⌊p·n⌋, n−1) of the sorted non-NULL arguments (NULL if none) -/
theorem percentile_refines (e : Expr) (p : Nat) (vs : List Value) (r : Value) (h : aggregate (.percentile e p) vs = some r) :
    ∃ c, foldV (.percentile e p) vs {} = .ok c ∧ shownValue (.percentile e p) c = r ∧
      (published c).isSome = createsEntry (.percentile e p) vs := by
  simp only [aggregate, percentileOf] at h
  split at h
  · simp at h
  · simp only [Option.some.injEq] at h
    cases vs with
    | nil =>
      refine ⟨{}, rfl, ?_, rfl⟩
      simpa [shownValue, published, emptyGroupValue, nonNull, sortValues] using h
    | cons v vs =>
      refine ⟨pctCell (nonNull (v :: vs)) p, ?_, ?_, ?_⟩
      · rw [foldV_percentile_init, foldV_percentile]; rfl
      · rw [← h]
        simp only [shownValue, published, pctCell, percentileValue, emptyGroupValue]
        cases (sortValues (nonNull (v :: vs)))[min (f64ToNat (F64.mul p (F64.ofInt ((sortValues (nonNull (v :: vs))).length : Nat))))
          ((sortValues (nonNull (v :: vs))).length - 1)]? <;> rfl
      · simp only [createsEntry]
        rw [← percentileValue_isSome (nonNull (v :: vs)) p]
        simp only [published, pctCell]
        cases percentileValue (nonNull (v :: vs)) p <;> rfl

/-! ### ARRAY_AGG -/

theorem foldV_arrayAgg (e : Expr) (t : VType) (vs acc : List Value) (a : Option Aggregator) :
    foldV (.arrayAgg e) vs { agg := a, val := some (.array t acc) } = .ok { agg := a, val := some (.array t (acc ++ vs)) } := by
  induction vs generalizing acc with
  | nil => simp [foldV]
  | cons v vs ih =>
    simp only [foldV, stepV, Outcome.bind]
    rw [ih]; simp

/-- ARRAY_AGG: all arguments in arrival order (when the first one is not NULL; otherwise the engine refuses: D15) -/
theorem arrayAgg_refines (e : Expr) (v : Value) (vs : List Value) (r : Value) (hv : v.isNull = false)
    (h : aggregate (.arrayAgg e) (v :: vs) = some r) :
    ∃ c, foldV (.arrayAgg e) (v :: vs) {} = .ok c ∧ shownValue (.arrayAgg e) c = r ∧
      (published c).isSome = createsEntry (.arrayAgg e) (v :: vs) := by
  simp only [aggregate] at h
  split at h
  · simp at h
  · rw [nonNull_cons_of_not_null hv] at h
    simp only [List.head?_cons, Option.bind_some] at h
    cases ht : v.valueType with
    | none => cases v <;> simp [isNull, valueType] at hv ht
    | some t =>
      simp only [ht, Option.some.injEq] at h
      refine ⟨{ agg := none, val := some (.array t ([v] ++ vs)) }, ?_, ?_, rfl⟩
      · simp only [foldV, stepV, ht, Outcome.bind]
        exact foldV_arrayAgg e t vs [v] none
      · simpa [shownValue, published] using h

/-! ### STRING_AGG -/

/-- one step of the running concatenation: the first text starts it, every later one is preceded by the delimiter -/
def strStepO (delim : Bytes) (x : Option Bytes) (s : Bytes) : Bytes :=
  match x with
  | none => s
  | some cur => cur ++ delim ++ s
def strFoldO (delim : Bytes) (x : Option Bytes) : List Bytes → Option Bytes
  | [] => x
  | s :: ss => strFoldO delim (some (strStepO delim x s)) ss

theorem foldV_stringAgg (e : Expr) (delim : Bytes) (vs : List Value) (a : Option Aggregator) (x : Option Bytes)
    (ss : List Bytes) (h : texts (nonNull vs) = some ss) :
    foldV (.stringAgg e delim) vs { agg := a, val := x.map Value.text } =
      .ok { agg := a, val := (strFoldO delim x ss).map Value.text } := by
  induction vs generalizing x ss with
  | nil => simp [nonNull, texts, collect] at h; subst h; rfl
  | cons v vs ih =>
    cases v with
    | null =>
      rw [nonNull_cons_null] at h
      simp only [foldV, stepV, Outcome.bind]
      exact ih x ss h
    | text s =>
      rw [nonNull_cons_of_not_null rfl] at h
      obtain ⟨ss', h', hss⟩ := collect_eq_some_cons h
      subst hss
      simp only [strFoldO]
      have := ih (some (strStepO delim x s)) ss' h'
      cases x with
      | none => simpa [foldV, stepV, Outcome.bind, strStepO] using this
      | some cur => simpa [foldV, stepV, Outcome.bind, strStepO] using this
    | int _ => simp [nonNull, isNull, texts, collect, asText] at h
    | real _ => simp [nonNull, isNull, texts, collect, asText] at h
    | bool _ => simp [nonNull, isNull, texts, collect, asText] at h
    | array _ _ => simp [nonNull, isNull, texts, collect, asText] at h
    | timestamp _ _ _ => simp [nonNull, isNull, texts, collect, asText] at h
    | interval _ => simp [nonNull, isNull, texts, collect, asText] at h

def tailJoin (delim : Bytes) (ss : List Bytes) : Bytes := ss.flatMap (delim ++ ·)

theorem joinTexts_cons (delim s : Bytes) (rest : List Bytes) : joinTexts delim (s :: rest) = s ++ tailJoin delim rest := by
  induction rest generalizing s with
  | nil => simp [joinTexts, tailJoin]
  | cons t rest ih =>
    simp only [joinTexts, ih t, tailJoin, List.flatMap_cons, List.append_assoc]

theorem strFoldO_some (delim cur : Bytes) (ss : List Bytes) :
    strFoldO delim (some cur) ss = some (cur ++ tailJoin delim ss) := by
  induction ss generalizing cur with
  | nil => simp [strFoldO, tailJoin]
  | cons s ss ih =>
    simp only [strFoldO, strStepO, ih]
    simp [tailJoin, List.flatMap_cons, List.append_assoc]

/-- the running concatenation from an empty cell = ALL the texts joined by the delimiter (an empty text is an element
like any other) -/
theorem strFoldO_none (delim s : Bytes) (ss : List Bytes) :
    strFoldO delim none (s :: ss) = some (joinTexts delim (s :: ss)) := by
  simp only [strFoldO, strStepO, strFoldO_some, joinTexts_cons]

theorem texts_length {vs : List Value} {ss : List Bytes} (h : texts vs = some ss) : ss.length = vs.length := by
  induction vs generalizing ss with
  | nil => simp [texts, collect] at h; subst h; rfl
  | cons v vs ih =>
    cases hv : asText v with
    | none => simp [texts, collect, hv] at h
    | some b =>
      simp only [texts, List.map_cons, hv] at h
      obtain ⟨l', h', hl⟩ := collect_eq_some_cons h
      subst hl
      simp [ih h']

/-- STRING_AGG: the non-NULL texts joined by the delimiter (NULL / no entry if there are none) -/
theorem stringAgg_refines (e : Expr) (delim : Bytes) (vs : List Value) (r : Value)
    (h : aggregate (.stringAgg e delim) vs = some r) :
    ∃ c, foldV (.stringAgg e delim) vs {} = .ok c ∧ shownValue (.stringAgg e delim) c = r ∧
      (published c).isSome = createsEntry (.stringAgg e delim) vs := by
  simp only [aggregate] at h
  cases ht : texts (nonNull vs) with
  | none => simp [ht] at h
  | some ss =>
    simp only [ht, Option.map_some, Option.some.injEq] at h
    have hlen := texts_length ht
    refine ⟨{ agg := none, val := (strFoldO delim none ss).map Value.text }, ?_, ?_, ?_⟩
    · exact foldV_stringAgg e delim vs none none ss ht
    · rw [← h]
      cases ss with
      | nil => simp [shownValue, published, strFoldO, emptyGroupValue]
      | cons s ss => simp [shownValue, published, strFoldO_none]
    · simp only [createsEntry, published]
      cases ss with
      | nil =>
        have : nonNull vs = [] := by cases hn : nonNull vs <;> simp [hn] at hlen ⊢
        simp [strFoldO, this]
      | cons s ss =>
        have : (nonNull vs).isEmpty = false := by cases hn : nonNull vs <;> simp [hn] at hlen ⊢
        simp [strFoldO_none, this]

end Sqlgrep
