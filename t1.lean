import SqlgrepModel.Lemmas.SelectList
namespace Sqlgrep
open Sqlgrep.Spec.Select
def keepRow (distinct : Bool) (seen : List (List Value)) (r : Option (List Value)) : List (List Value) :=
  if distinct then dedupFrom tupleSame seen r.toList else r.toList

def seenAfter (distinct : Bool) (seen : List (List Value)) (kept : List (List Value)) : List (List Value) :=
  if distinct then kept.reverse ++ seen else seen

def appendRows (acc : Option RowOut) (names : List String) (rows : List (List Value)) : Option RowOut :=
  match rows with
  | [] => acc
  | _ :: _ => match acc with
    | none => some { columns := names, rows := rows }
    | some a => some { a with rows := a.rows ++ rows }

theorem selectOne_eq (O : Oracles) (q : SelectStmt) (seen : List (List Value)) (env : Env) (keys : List String) :
    selectOne O q seen env keys =
      (envRow O q env keys).bind (fun r =>
        .ok (seenAfter q.distinct seen (keepRow q.distinct seen r),
             appendRows none (outNames q keys) (keepRow q.distinct seen r))) := by
  have core : ∀ valid : Bool,
      (if (!valid) = true then (pure (seen, none) : Outcome _)
        else
          match
            (if q.wildcard = true then (keys, List.map Expr.column keys)
            else (List.map (fun x => x.fst) q.projections, List.map (fun x => x.snd) q.projections) : List String × List Expr) with
          | (names, exprs) => do
            let vals ← evalList O env exprs
            if q.distinct = true then
                match distinctAdd seen vals with
                | (seen', fresh) =>
                  if fresh = true then pure (seen', some { columns := names, rows := [vals] }) else pure (seen', none)
              else pure (seen, some { columns := names, rows := [vals] })) =
      (if valid = true then (do
          let vals ← evalList O env (outExprs q keys)
          pure (some vals))
        else pure none : Outcome (Option (List Value))).bind (fun r =>
        .ok (seenAfter q.distinct seen (keepRow q.distinct seen r),
             appendRows none (outNames q keys) (keepRow q.distinct seen r))) := by
    intro valid
    cases valid with
    | false => simp [Outcome.bind, pure, keepRow, seenAfter, appendRows]
    | true =>
      simp only [bind, Outcome.bind, pure, Bool.not_true, Bool.false_eq_true, if_false, if_true, outExprs, outNames]
      by_cases hw : q.wildcard = true
      · simp only [hw, if_true]
        cases evalList O env (keys.map Expr.column) with
        | ok vals =>
          simp only [keepRow, seenAfter, Option.toList]
          by_cases hd : q.distinct = true
          · simp only [hd, if_true, distinctAdd, dedupFrom]
            by_cases hs : seen.any (tupleSame vals) = true <;> simp [hs, appendRows]
          · simp [hd, appendRows]
        | error k => rfl
        | panic s => rfl
        | oracleMissing w => rfl
      · simp only [hw, Bool.false_eq_true, if_false]
        cases evalList O env (q.projections.map (·.2)) with
        | ok vals =>
          simp only [keepRow, seenAfter, Option.toList]
          by_cases hd : q.distinct = true
          · simp only [hd, if_true, distinctAdd, dedupFrom]
            by_cases hs : seen.any (tupleSame vals) = true <;> simp [hs, appendRows]
          · simp [hd, appendRows]
        | error k => rfl
        | panic s => rfl
        | oracleMissing w => rfl
  unfold selectOne envRow
  cases q.filter with
  | none => exact core true
  | some f =>
    simp only []
    cases eval O env f with
    | ok v => exact core v.truthy
    | error k => rfl
    | panic s => rfl
    | oracleMissing w => rfl
end Sqlgrep
