// Validation of the RFC 8259 grammar written in Lean (`lean/SqlgrepModel/Spec/JsonGrammar.lean`), which the C17
// theorems use as the meaning of "valid JSON object": generated JSON texts (valid documents with whitespace, every
// escape form, surrogate pairs, all number shapes; near-valid documents with one defect; randomly mutated documents)
// are given to `serde_json::from_str` — the JSON reader of the implementation's own library — and to the Lean
// parser `parseJson`, which is proved to decide the Lean grammar (`parseJson_iff`). Both answer `ok CANON` / `reject`.
// CANON: n t f, `#` for a number (compared by acceptance only: serde_json reads numbers into f64/i64), `s`+hex for a
// string, [..], {k:v,..} in insertion order with a repeated key keeping its first position and last value.
// serde_json's two documented limits that RFC 8259 does not have (numbers outside the f64 range, nesting deeper
// than 128) are not failures of the grammar: such texts are counted and skipped.
use crate::run::Run;
use crate::util::{hexs, Rng};

fn canon(v: &serde_json::Value) -> String {
    use serde_json::Value as J;
    match v {
        J::Null => "n".to_owned(),
        J::Bool(true) => "t".to_owned(),
        J::Bool(false) => "f".to_owned(),
        J::Number(_) => "#".to_owned(),
        J::String(s) => format!("s{}", hexs(s)),
        J::Array(xs) => format!("[{}]", xs.iter().map(canon).collect::<Vec<_>>().join(",")),
        J::Object(m) => format!("{{{}}}", m.iter().map(|(k, v)| format!("s{}:{}", hexs(k), canon(v))).collect::<Vec<_>>().join(",")),
    }
}

fn ws(rng: &mut Rng) -> &'static str {
    *rng.pick(&["", "", "", "", " ", " ", "  ", "\t", "\n", "\r\n", " \n\t "])
}

const GOOD_NUMBERS: &[&str] = &["0", "-0", "1", "-1", "7", "10", "12", "1234567890", "9223372036854775807", "-9223372036854775808",
    "18446744073709551615", "18446744073709551616", "123456789012345678901234567890", "0.5", "-0.25", "1.0", "0.0", "3.14159", "1e5", "1E5",
    "1e+5", "1e-5", "1E+05", "0e0", "0.0e-0", "-1.5e10", "1.5e300", "2.5E-300", "5e-324", "1e-400", "100e0", "0.000001", "1.7976931348623157e308"];
const BAD_NUMBERS: &[&str] = &["01", "-", "+1", ".5", "1.", "1e", "1e+", "1e-", "0x10", "1.e5", "-01", "00", "NaN", "Infinity", "-Infinity", "--1",
    "1_000", "1.2.3", "1e5e5", "1-2", "1e5.5", "- 1", "1 .5", "٣"];
const GOOD_PIECES: &[&str] = &["a", "b", "Z", "0", " ", "/", "'", "{", "}", "[", "]", ":", ",", "é", "ß", "日本", "\u{7f}", "\u{80}", "\u{2028}", "\u{fffd}", "\u{10000}", "😀", "\u{10ffff}",
    "\\\"", "\\\\", "\\/", "\\b", "\\f", "\\n", "\\r", "\\t", "\\u0041", "\\u00e9", "\\u00E9", "\\u0000", "\\u001f", "\\u007F", "\\u20ac", "\\uFFFF", "\\ud7ff", "\\ue000",
    "\\uD83D\\uDE00", "\\ud83d\\ude00", "\\uD800\\uDC00", "\\uDBFF\\uDFFF", "\\u005C", "\\u0022"];
const BAD_PIECES: &[&str] = &["\u{1}", "\n", "\t", "\u{1f}", "\u{0}", "\\x", "\\a", "\\'", "\\U0041", "\\u12", "\\u123", "\\u12G4", "\\u", "\\uD800", "\\uDBFF", "\\uDC00", "\\uDFFF",
    "\\uD800\\u0041", "\\uD800\\uD800", "\\uD800x", "\\uDC00\\uD800", "\\", "\\ n", "\\0"];

fn gen_string(rng: &mut Rng, out: &mut String, defect: &mut bool) {
    out.push('"');
    let n = match rng.below(6) { 0 => 0, 1 => 1, 2 => 2, _ => rng.below(7) };
    for _ in 0..n {
        if !*defect && rng.chance(1, 60) {
            *defect = true;
            out.push_str(*rng.pick(BAD_PIECES));
        } else if rng.chance(1, 3) {
            out.push(char::from_u32(rng.range(32, 126) as u32).filter(|c| *c != '"' && *c != '\\').unwrap_or('x'));
        } else {
            out.push_str(*rng.pick(GOOD_PIECES));
        }
    }
    out.push('"');
}

fn gen_number(rng: &mut Rng, out: &mut String, defect: &mut bool) {
    if !*defect && rng.chance(1, 25) {
        *defect = true;
        out.push_str(*rng.pick(BAD_NUMBERS));
    } else if rng.chance(1, 3) {
        out.push_str(&rng.range(-100000, 100000).to_string());
        if rng.chance(1, 3) { out.push_str(&format!(".{}", rng.below(1000))); }
        if rng.chance(1, 4) { out.push_str(&format!("{}{}{}", rng.pick(&["e", "E"]), rng.pick(&["", "+", "-"]), rng.below(40))); }
    } else {
        out.push_str(*rng.pick(GOOD_NUMBERS));
    }
}

fn gen_value(rng: &mut Rng, depth: usize, out: &mut String, defect: &mut bool) {
    let k = if depth == 0 { rng.below(5) } else { rng.below(8) };
    match k {
        0 => out.push_str("null"),
        1 => out.push_str(if rng.chance(1, 2) { "true" } else { "false" }),
        2 => gen_number(rng, out, defect),
        3 => gen_string(rng, out, defect),
        4 => {
            if !*defect && rng.chance(1, 12) {
                *defect = true;
                out.push_str(*rng.pick(&["nul", "nulll", "Null", "NULL", "True", "tru", "fals", "falsee", "nil", "undefined", "t rue", "none", "'a'", "a", "", "()", "<>"]));
            } else {
                out.push_str(*rng.pick(&["null", "true", "false", "[]", "{}", "\"\"", "0"]));
            }
        }
        5 | 6 => {
            out.push('[');
            out.push_str(ws(rng));
            let n = rng.below(4);
            for i in 0..n {
                if i > 0 {
                    if !*defect && rng.chance(1, 40) { *defect = true; out.push_str(*rng.pick(&["", ",,", ";", " ", ":"])); } else { out.push(','); }
                    out.push_str(ws(rng));
                }
                gen_value(rng, depth - 1, out, defect);
                out.push_str(ws(rng));
            }
            if n > 0 && !*defect && rng.chance(1, 40) { *defect = true; out.push_str(", "); }
            if !*defect && rng.chance(1, 60) { *defect = true; out.push_str(*rng.pick(&["", "}", ")", "]]"])); } else { out.push(']'); }
        }
        _ => {
            out.push('{');
            out.push_str(ws(rng));
            let n = rng.below(4);
            for i in 0..n {
                if i > 0 {
                    if !*defect && rng.chance(1, 40) { *defect = true; out.push_str(*rng.pick(&["", ",,", ";", " "])); } else { out.push(','); }
                    out.push_str(ws(rng));
                }
                if !*defect && rng.chance(1, 40) {
                    *defect = true;
                    out.push_str(*rng.pick(&["a", "'a'", "1", "null", "[\"a\"]", ""]));
                } else if rng.chance(1, 6) {
                    out.push_str("\"k\"");          // repeated keys on purpose
                } else {
                    gen_string(rng, out, defect);
                }
                out.push_str(ws(rng));
                if !*defect && rng.chance(1, 40) { *defect = true; out.push_str(*rng.pick(&["", "=", "::", ","])); } else { out.push(':'); }
                out.push_str(ws(rng));
                gen_value(rng, depth - 1, out, defect);
                out.push_str(ws(rng));
            }
            if n > 0 && !*defect && rng.chance(1, 40) { *defect = true; out.push_str(","); }
            if !*defect && rng.chance(1, 60) { *defect = true; out.push_str(*rng.pick(&["", "]", ")", "}}"])); } else { out.push('}'); }
        }
    }
}

const INSERTS: &[char] = &['{', '}', '[', ']', ',', ':', '"', '\\', ' ', '\n', '0', '1', '9', 'e', 'E', '.', '-', '+', 't', 'n', 'f', 'u', 'x', '/', 'é', '\u{1}', 'D', '8'];

fn mutate(rng: &mut Rng, text: &str) -> String {
    let mut cs: Vec<char> = text.chars().collect();
    let k = 1 + rng.below(2);
    for _ in 0..k {
        let pos = rng.below(cs.len() + 1);
        match rng.below(4) {
            0 if pos < cs.len() => { cs.remove(pos); }
            1 => { cs.insert(pos, *rng.pick(INSERTS)); }
            2 if pos < cs.len() => { let c = cs[pos]; cs.insert(pos, c); }
            3 if pos + 1 < cs.len() => { cs.swap(pos, pos + 1); }
            _ => { cs.insert(pos, *rng.pick(INSERTS)); }
        }
    }
    cs.into_iter().collect()
}

fn top_kind(text: &str) -> &'static str {
    match text.trim_start_matches(|c| c == ' ' || c == '\t' || c == '\n' || c == '\r').chars().next() {
        Some('{') => "object", Some('[') => "array", Some('"') => "string", Some('t') | Some('f') | Some('n') => "literal",
        Some(c) if c == '-' || c.is_ascii_digit() => "number", None => "empty", _ => "other",
    }
}

/// the whole document as `serde_json::from_str::<Value>` reads it (numbers by kind and bits, repeated keys, limits)
/// against `JsonDoc.docOfLine` (Lean `Model/JsonDoc.lean`, driver kind `jsondoc`)
pub fn emit_doc(run: &mut Run, text: &str, origin: &str) {
    let verdict = serde_json::from_str::<serde_json::Value>(text);
    let (answer, kind) = match &verdict {
        Ok(v) => { let mut s = String::from("doc "); crate::extract::json_sexp(v, &mut s); (s, "doc") }
        Err(e) => {
            let msg = e.to_string();
            ("notjson".to_owned(), if msg.contains("number out of range") { "number-range" } else if msg.contains("recursion limit") { "recursion-limit" } else { "reject" })
        }
    };
    run.count(&format!("jsondoc:{}:{}", origin, kind));
    run.case_with_desc(format!("jsondoc {}", hexs(text)), answer, format!("jsondoc:{}:{}:{}", origin, kind, top_kind(text)), format!("serde_json::from_str::<Value>({:?})", text));
}

/// a JSON number literal aimed at serde_json's number reader: long significands (the u64 boundary, digits dropped),
/// fractions that do or do not fit, exponents around ±308 / ±324 and beyond i32
fn gen_doc_number(rng: &mut Rng) -> String {
    let mut s = String::new();
    if rng.chance(1, 3) { s.push('-'); }
    let ni = match rng.below(8) { 0 => 0, 1 => 1, 2 => 19, 3 => 20, 4 => 21, 5 => 1 + rng.below(40), 6 => 15 + rng.below(6), _ => 1 + rng.below(6) };
    if ni == 0 { s.push('0'); } else {
        if rng.chance(1, 4) && ni >= 19 {
            // around u64::MAX / i64::MIN
            let base: u128 = *rng.pick(&[18446744073709551615u128, 9223372036854775807, 9223372036854775808, 1844674407370955161, 18446744073709551610]);
            let v = base + rng.below(12) as u128 - 2;
            s.push_str(&v.to_string());
            if rng.chance(1, 3) { s.push((b'0' + rng.below(10) as u8) as char); }
        } else {
            s.push((b'1' + rng.below(9) as u8) as char);
            for _ in 1..ni { s.push((b'0' + rng.below(10) as u8) as char); }
        }
    }
    if rng.chance(1, 2) {
        s.push('.');
        let nf = match rng.below(6) { 0 => 1, 1 => 2, 2 => 17 + rng.below(6), 3 => 1 + rng.below(40), _ => 1 + rng.below(8) };
        if rng.chance(1, 5) { for _ in 0..rng.below(25) { s.push('0'); } }
        for _ in 0..nf { s.push((b'0' + rng.below(10) as u8) as char); }
    }
    if rng.chance(1, 2) {
        s.push(if rng.chance(1, 2) { 'e' } else { 'E' });
        match rng.below(4) { 0 => s.push('-'), 1 => s.push('+'), _ => {} }
        let e: u64 = match rng.below(10) { 0 => rng.below(5) as u64, 1 => 290 + rng.below(40) as u64, 2 => 300 + rng.below(12) as u64, 3 => 600 + rng.below(40) as u64, 4 => 2147483640 + rng.below(16) as u64,
            5 => 4294967290 + rng.below(12) as u64, 6 => rng.below(700) as u64, 7 => 18 + rng.below(8) as u64, _ => rng.below(60) as u64 };
        if rng.chance(1, 10) { s.push_str("00"); }
        s.push_str(&e.to_string());
    }
    s
}

pub fn doc_stream(run: &mut Run, rng: &mut Rng, n: usize) {
    for p in GOOD_NUMBERS.iter().chain(BAD_NUMBERS.iter()) {
        emit_doc(run, p, "fixed");
        emit_doc(run, &format!("-{}", p), "fixed");
        emit_doc(run, &format!("{{\"n\":[{}, {}]}}", p, p), "fixed");
    }
    for t in &["-0", "-0.0", "-0e0", "0e99999999999", "0.0e-99999999999", "1e99999999999", "-1e99999999999", "1e-99999999999", "-1e-99999999999", "1e2147483647", "1e2147483648", "1e-2147483648", "1e-2147483649",
        "1e308", "1e309", "1.7976931348623157e308", "1.7976931348623159e308", "17976931348623157e292", "17976931348623159e292", "179769313486231580793728971405303415079934132710037826936173778980444968292764750946649017977587207096330286416692887910946555547851940402630657488671505820681908902000708383676273854845817711531764475730270069855571366959622842914819860834936475292719074168444365510704342711559699508093042880177904174497791",
        "2.2250738585072011e-308", "4.9e-324", "2.4703282292062327e-324", "5e-324", "1e-323", "1e-324", "1e-400", "123e-400", "18446744073709551615", "18446744073709551616", "18446744073709551616.5", "18446744073709551615.5", "1844674407370955161.6", "239.21e-27", "46348.619e-20", "97045.26e25", "7.038531e-26", "{\"x\":239.21e-27}",
        "-9223372036854775808", "-9223372036854775809", "-18446744073709551615", "-18446744073709551616", "9007199254740993", "9007199254740993.0", "0.1", "0.3", "1e23", "8.5e22", "4.35", "0.000001", "123456789012345678901234567890e-10", "0.00000000000000000000000000000000000000000000000000000000000000000000000000000000000000000000000000001e100",
        "{\"k\":1,\"k\":2}", "{\"k\":1,\"j\":3,\"k\":[2],\"j\":{\"k\":null,\"k\":true}}", "{\"a\\u0062\":1,\"ab\":2}", "{\"\":0,\"\":1}", "\u{feff}1", " \t\r\n1\n", "\"\\ud83d\\ude00\"", "\"\\ud800\"", "\"é\\u00e9\"", "[1,[2,[3,{\"a\":[]}]]]"] {
        emit_doc(run, t, "fixed");
    }
    // nesting around serde_json's recursion limit (128)
    for d in [1usize, 2, 126, 127, 128, 129, 200] {
        emit_doc(run, &format!("{}{}", "[".repeat(d), "]".repeat(d)), "depth");
        emit_doc(run, &format!("{}1{}", "[".repeat(d), "]".repeat(d)), "depth");
        emit_doc(run, &format!("{}{}", "{\"a\":".repeat(d), format!("null{}", "}".repeat(d))), "depth");
        emit_doc(run, &format!("{}{}", "[{\"a\":".repeat(d / 2), format!("0{}", "}]".repeat(d / 2))), "depth");
        emit_doc(run, &format!("{}1e999{}", "[".repeat(d), "]".repeat(d)), "depth");
        emit_doc(run, &format!("{}", "[".repeat(d)), "depth");
    }
    for i in 0..n {
        match i % 4 {
            0 => {
                let t = gen_doc_number(rng);
                if rng.chance(1, 2) { emit_doc(run, &t, "number"); } else { emit_doc(run, &format!("{}{{\"x\":[{}],\"y\":{}}}{}", ws(rng), t, gen_doc_number(rng), ws(rng)), "number"); }
            }
            _ => {
                let mut text = String::new();
                let mut defect = !rng.chance(1, 4);
                let planted = !defect;
                text.push_str(ws(rng));
                let depth = 1 + rng.below(3);
                gen_value(rng, depth, &mut text, &mut defect);
                text.push_str(ws(rng));
                if rng.chance(1, 5) { let m = mutate(rng, &text); emit_doc(run, &m, "mutated"); }
                else { emit_doc(run, &text, if planted { "planted" } else { "clean" }); }
            }
        }
    }
}

fn emit(run: &mut Run, text: &str, origin: &str) {
    let verdict = serde_json::from_str::<serde_json::Value>(text);
    let answer = match &verdict {
        Ok(v) => format!("ok {}", canon(v)),
        Err(e) => {
            let msg = e.to_string();
            if msg.contains("number out of range") { run.count("jsontext:skipped:serde-number-range"); return; }
            if msg.contains("recursion limit") { run.count("jsontext:skipped:serde-recursion-limit"); return; }
            "reject".to_owned()
        }
    };
    let tag = format!("jsontext:{}:{}:{}", origin, if verdict.is_ok() { "accept" } else { "reject" }, top_kind(text));
    run.count(&format!("jsontext:{}:{}", origin, if verdict.is_ok() { "accept" } else { "reject" }));
    run.case(format!("jsontext {}", hexs(text)), answer, tag);
}

pub fn stream(run: &mut Run, rng: &mut Rng, n: usize) {
    // fixed block: every piece / number / literal on its own and inside a container
    for p in GOOD_PIECES.iter().chain(BAD_PIECES.iter()) {
        emit(run, &format!("\"{}\"", p), "fixed");
        emit(run, &format!("{{\"a{}\":[\"{}b\"]}}", p, p), "fixed");
    }
    for p in GOOD_NUMBERS.iter().chain(BAD_NUMBERS.iter()) {
        emit(run, p, "fixed");
        emit(run, &format!(" [ {} , {}]", p, p), "fixed");
        emit(run, &format!("{{\"n\":{}}}", p), "fixed");
    }
    for t in &["", " ", "null", " null ", "nul", "true", "false", "[]", "[ ]", "{}", "{ }", "{\t}", "[,]", "[1,]", "[,1]", "{,}", "{\"a\":1,}", "{\"a\"}", "{\"a\":}", "{:1}", "{\"a\" 1}",
        "{a:1}", "{'a':1}", "[1 2]", "[1,2", "1,2", "[1]]", "{}}", "{\"a\":1}{\"b\":2}", "null null", "\"a\" \"b\"", "\u{feff}1", "\u{a0}1", "\u{b}1", "\u{c}1", "/* c */ 1", "// c\n1", "[1] // c",
        "{\"k\":1,\"k\":2}", "{\"k\":1,\"j\":3,\"k\":[2]}", "\"unterminated", "\"", "[\"a\",", "{\"a\":[{\"b\":[[[]]]}]}", "[[[[[[[[[[[[[[[[]]]]]]]]]]]]]]]]"] {
        emit(run, t, "fixed");
    }
    for _ in 0..n {
        let mut text = String::new();
        let mut defect = !rng.chance(1, 3);          // two thirds of the documents are generated without a planted defect
        let planted = !defect;
        text.push_str(ws(rng));
        let depth = 1 + rng.below(3);
        gen_value(rng, depth, &mut text, &mut defect);
        text.push_str(ws(rng));
        if planted && !defect && rng.chance(1, 10) { text.push_str(*rng.pick(&["x", ",", "]", "}", "1", "null", "\"", "\u{1}"])); }
        if rng.chance(1, 4) {
            let m = mutate(rng, &text);
            emit(run, &m, "mutated");
        } else {
            emit(run, &text, if planted { "planted" } else { "clean" });
        }
    }
}
