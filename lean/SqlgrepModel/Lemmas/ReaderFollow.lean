import SqlgrepModel.Lemmas.ReaderSpec
/-
The follow reader (`Sqlgrep.Reader.Follow`, `step`): the invariant that ties what has been delivered,
what is held in `line`, what sits in `BufReader`'s buffer and what is still unread in the file to the
content of the file from the start offset; preserved by every operation.
-/
namespace Sqlgrep
namespace Reader

/-- delivered lines (each with its newline) ++ pending line ++ buffered ++ unread = content from `start` -/
def Inv (s : Follow) : Prop :=
  wire s.delivered ++ s.acc ++ s.buf ++ s.file.drop s.pos = s.file.drop s.start
  ∧ nl ∉ s.acc ∧ (∀ l ∈ s.delivered, nl ∉ l) ∧ s.pos ≤ s.file.length ∧ s.start ≤ s.pos

theorem cut_spec (bs : List Nat) :
    nl ∉ (cut bs).1 ∧ (match (cut bs).2 with
      | some rest => bs = (cut bs).1 ++ nl :: rest
      | none => bs = (cut bs).1) := by
  induction bs with
  | nil => simp [cut]
  | cons b bs ih =>
    unfold cut
    split
    · rename_i h; subst h; simp
    · rename_i h
      obtain ⟨h1, h2⟩ := ih
      refine ⟨?_, ?_⟩
      · simp only [List.mem_cons, not_or]; exact ⟨fun e => h e.symm, h1⟩
      · cases hc : (cut bs).2 with
        | some rest => simp only [hc] at h2 ⊢; simp; exact h2
        | none => simp only [hc] at h2 ⊢; simp; exact h2

theorem cut_some {bs pre rest : List Nat} (h : cut bs = (pre, some rest)) : nl ∉ pre ∧ bs = pre ++ nl :: rest := by
  have := cut_spec bs
  rw [h] at this
  exact this

theorem cut_none {bs pre : List Nat} (h : cut bs = (pre, none)) : nl ∉ pre ∧ bs = pre := by
  have := cut_spec bs
  rw [h] at this
  exact this

theorem endsWithNl_of_not_mem {l : List Nat} (h : nl ∉ l) : endsWithNl l = false := by
  unfold endsWithNl
  cases hg : l.getLast? with
  | none => rfl
  | some x =>
    have hx : x ∈ l := List.mem_of_getLast? hg
    have : x ≠ nl := fun e => h (e ▸ hx)
    simp [this]

theorem endsWithNl_concat (l : List Nat) : endsWithNl (l ++ [nl]) = true := by
  simp [endsWithNl]

theorem init_inv (file : List Nat) (head : Bool) (cap : Nat) : Inv (Follow.init file head cap) := by
  cases head <;> simp [Follow.init, Inv, wire]

theorem fill_inv (s : Follow) (k : Nat) (h : Inv s) : Inv (fill s k) := by
  obtain ⟨h1, h2, h3, h4, h5⟩ := h
  unfold fill
  split
  · rename_i hb
    simp only [Inv]
    refine ⟨?_, h2, h3, ?_, ?_⟩
    · rw [← h1, hb]
      simp only [List.append_nil, List.append_assoc]
      congr 2
      rw [List.length_take, List.length_drop]
      have : ∀ (l : List Nat) n, l.take n ++ l.drop n = l := fun l n => List.take_append_drop n l
      conv => rhs; rw [← this (s.file.drop s.pos) (min (k + 1) s.cap)]
      congr 1
      rw [List.drop_drop]
      by_cases hk : min (k + 1) s.cap ≤ s.file.length - s.pos
      · rw [Nat.min_eq_left hk]
      · rw [List.drop_eq_nil_of_le (by omega), List.drop_eq_nil_of_le (by omega)]
    · simp [List.length_take, List.length_drop]; omega
    · omega
  · exact ⟨h1, h2, h3, h4, h5⟩

theorem consume_inv (s : Follow) (h : Inv s) : Inv (consume s) := by
  obtain ⟨h1, h2, h3, h4, h5⟩ := h
  unfold consume
  split
  · -- EOF: `line` has no newline, so this is the retry point
    simp only [afterRead, endsWithNl_of_not_mem h2]
    exact ⟨h1, h2, h3, h4, h5⟩
  · rename_i b bs hb
    split
    · rename_i pre rest heq
      obtain ⟨c1, c2⟩ := cut_some heq
      simp only [afterRead, endsWithNl_concat, if_true, List.dropLast_concat]
      simp only [Inv]
      refine ⟨?_, by simp, ?_, h4, h5⟩
      · rw [← h1, c2]; simp [wire, List.flatMap_append, List.append_assoc]
      · intro l hl
        simp only [List.mem_append, List.mem_singleton] at hl
        rcases hl with hl | hl
        · exact h3 l hl
        · subst hl; simp only [List.mem_append, not_or]; exact ⟨h2, c1⟩
    · rename_i pre heq
      obtain ⟨c1, c2⟩ := cut_none heq
      simp only [Inv]
      refine ⟨?_, ?_, h3, h4, h5⟩
      · rw [← h1]; simp only [List.append_nil, List.append_assoc]; rw [← c2]
      · simp only [List.mem_append, not_or]; exact ⟨h2, c1⟩

theorem step_inv (s : Follow) (op : Op) (h : Inv s) : Inv (step s op) := by
  cases op with
  | append bs =>
    obtain ⟨h1, h2, h3, h4, h5⟩ := h
    simp only [step, Inv]
    refine ⟨?_, h2, h3, ?_, h5⟩
    · rw [List.drop_append_of_le_length h4, List.drop_append_of_le_length (by omega)]
      rw [← h1]; simp [List.append_assoc]
    · simp; omega
  | poll k => exact consume_inv _ (fill_inv s k h)

theorem run_inv (s : Follow) (ops : List Op) (h : Inv s) : Inv (run s ops) := by
  unfold run
  induction ops generalizing s with
  | nil => exact h
  | cons op ops ih => exact ih _ (step_inv s op h)

/-- the schedule driver only performs `step`s -/
theorem drive_is_run (fuel : Nat) (s : Follow) (chunks : List (List Nat)) :
    ∃ ops, drive fuel s chunks = run s ops := by
  induction fuel generalizing s chunks with
  | zero => exact ⟨[], rfl⟩
  | succ n ih =>
    unfold drive
    simp only
    split
    · cases chunks with
      | nil => exact ⟨[.poll (s.cap - 1)], rfl⟩
      | cons c cs =>
        obtain ⟨ops, h⟩ := ih (step (step s (.poll (s.cap - 1))) (.append c)) cs
        exact ⟨.poll (s.cap - 1) :: .append c :: ops, by simp only [h, run, List.foldl_cons]⟩
    · obtain ⟨ops, h⟩ := ih (step s (.poll (s.cap - 1))) chunks
      exact ⟨.poll (s.cap - 1) :: ops, by simp only [h, run, List.foldl_cons]⟩

/-! ### frame facts: what a poll does not touch, and delivery only ever appends -/

theorem afterRead_frame (s : Follow) :
    (afterRead s).file = s.file ∧ (afterRead s).pos = s.pos ∧ (afterRead s).buf = s.buf ∧
    (afterRead s).start = s.start ∧ (afterRead s).cap = s.cap := by
  unfold afterRead; split <;> simp

theorem consume_frame (s : Follow) :
    (consume s).file = s.file ∧ (consume s).pos = s.pos ∧ (consume s).start = s.start ∧ (consume s).cap = s.cap := by
  unfold consume
  split
  · have := afterRead_frame s
    exact ⟨this.1, this.2.1, this.2.2.2.1, this.2.2.2.2⟩
  · split
    · rename_i pre rest _
      have := afterRead_frame { s with acc := s.acc ++ pre ++ [nl], buf := rest }
      exact ⟨this.1, this.2.1, this.2.2.2.1, this.2.2.2.2⟩
    · simp

theorem fill_frame (s : Follow) (k : Nat) :
    (fill s k).file = s.file ∧ (fill s k).start = s.start ∧ (fill s k).cap = s.cap := by
  unfold fill; split <;> simp

theorem poll_frame (s : Follow) (k : Nat) :
    (step s (.poll k)).file = s.file ∧ (step s (.poll k)).start = s.start ∧ (step s (.poll k)).cap = s.cap := by
  have a := consume_frame (fill s k)
  have b := fill_frame s k
  simp only [step]
  exact ⟨a.1.trans b.1, a.2.2.1.trans b.2.1, a.2.2.2.trans b.2.2⟩

theorem afterRead_delivered (s : Follow) :
    (afterRead s).delivered = s.delivered ∨ ∃ l, (afterRead s).delivered = s.delivered ++ [l] := by
  unfold afterRead; split
  · exact Or.inr ⟨_, rfl⟩
  · exact Or.inl rfl

theorem step_delivered (s : Follow) (op : Op) :
    (step s op).delivered = s.delivered ∨ ∃ l, (step s op).delivered = s.delivered ++ [l] := by
  cases op with
  | append bs => exact Or.inl rfl
  | poll k =>
    have hf : (fill s k).delivered = s.delivered := by unfold fill; split <;> rfl
    simp only [step]
    rw [← hf]
    generalize fill s k = t
    unfold consume
    split
    · exact afterRead_delivered t
    · split
      · rename_i pre rest _
        exact afterRead_delivered { t with acc := t.acc ++ pre ++ [nl], buf := rest }
      · exact Or.inl rfl

theorem run_delivered_prefix (s : Follow) (ops : List Op) : s.delivered <+: (run s ops).delivered := by
  unfold run
  induction ops generalizing s with
  | nil => exact List.prefix_refl _
  | cons op ops ih =>
    simp only [List.foldl_cons]
    refine List.IsPrefix.trans ?_ (ih (step s op))
    rcases step_delivered s op with h | ⟨l, h⟩ <;> rw [h]
    · exact List.prefix_refl _
    · exact List.prefix_append _ _

/-! ### progress: bytes fetched or fetchable but not yet looked at -/

def pending (s : Follow) : Nat := s.buf.length + (s.file.length - s.pos)

theorem consume_pending (s : Follow) : pending (consume s) ≤ pending s - (if s.buf = [] then 0 else 1) := by
  unfold consume
  split
  · rename_i hb
    have := afterRead_frame s
    simp only [pending, this.1, this.2.1, this.2.2.1, hb]
    simp
  · rename_i b bs hb
    split
    · rename_i pre rest heq
      obtain ⟨_, c2⟩ := cut_some heq
      have := afterRead_frame { s with acc := s.acc ++ pre ++ [nl], buf := rest }
      simp only [pending, this.1, this.2.1, this.2.2.1]
      have hl : s.buf.length = pre.length + (rest.length + 1) := by rw [c2]; simp
      simp only [hb] at hl ⊢
      simp only [List.length_cons] at hl
      simp
      omega
    · simp only [pending, hb]
      simp

theorem poll_pending (s : Follow) (k : Nat) (hc : 1 ≤ s.cap) : pending (step s (.poll k)) ≤ pending s - 1 := by
  simp only [step]
  have hcons := consume_pending (fill s k)
  unfold fill at hcons ⊢
  split at hcons
  · rename_i hb
    simp only [hb, if_true] at hcons ⊢
    by_cases hav : s.file.length - s.pos = 0
    · have hd : List.drop s.pos s.file = [] := List.drop_eq_nil_of_le (by omega)
      simp only [hd, List.take_nil, List.length_nil, Nat.add_zero] at hcons ⊢
      simp only [pending, hb, List.length_nil] at hcons ⊢
      omega
    · have hne : List.take (min (k + 1) s.cap) (List.drop s.pos s.file) ≠ [] := by
        intro h
        have := congrArg List.length h
        simp [List.length_take, List.length_drop] at this
        omega
      simp only [hne, if_false] at hcons
      refine Nat.le_trans hcons ?_
      simp only [pending, hb, List.length_nil, List.length_take, List.length_drop]
      omega
  · rename_i hb
    simp only [hb, if_false] at hcons ⊢
    exact hcons

theorem run_polls_pending (s : Follow) (ks : List Nat) (hc : 1 ≤ s.cap) :
    pending (run s (ks.map .poll)) ≤ pending s - ks.length := by
  unfold run
  induction ks generalizing s with
  | nil => simp
  | cons k ks ih =>
    simp only [List.map_cons, List.foldl_cons, List.length_cons]
    have h1 := poll_pending s k hc
    have hc' : 1 ≤ (step s (.poll k)).cap := by rw [(poll_frame s k).2.2]; exact hc
    have h2 := ih (step s (.poll k)) hc'
    omega

theorem run_polls_frame (s : Follow) (ks : List Nat) :
    (run s (ks.map .poll)).file = s.file ∧ (run s (ks.map .poll)).start = s.start := by
  unfold run
  induction ks generalizing s with
  | nil => simp
  | cons k ks ih =>
    simp only [List.map_cons, List.foldl_cons]
    have h := ih (step s (.poll k))
    have f := poll_frame s k
    exact ⟨h.1.trans f.1, h.2.trans f.2.1⟩

/-- nothing pending: everything from the start offset has been looked at, so all complete lines are out -/
theorem delivered_of_pending_zero (s : Follow) (h : Inv s) (hp : pending s = 0) :
    s.delivered = completeLines (s.file.drop s.start) ∧ s.acc = tailOf (s.file.drop s.start) := by
  obtain ⟨h1, h2, h3, h4, _⟩ := h
  unfold pending at hp
  have hb : s.buf = [] := List.eq_nil_of_length_eq_zero (by omega)
  have hd : s.file.drop s.pos = [] := List.drop_eq_nil_of_le (by omega)
  rw [hb, hd] at h1
  simp only [List.append_nil] at h1
  have := completeLines_unique s.delivered s.acc h3 h2
  rw [h1] at this
  exact ⟨this.1.symm, this.2.symm⟩

/-- under the invariant the delivered sequence is a prefix of the complete lines from the start offset -/
theorem inv_delivered_prefix (s : Follow) (h : Inv s) : s.delivered <+: completeLines (s.file.drop s.start) := by
  obtain ⟨h1, _, h3, _, _⟩ := h
  have : completeLines (s.file.drop s.start) =
      s.delivered ++ completeLines (s.acc ++ s.buf ++ s.file.drop s.pos) := by
    rw [← completeLines_wire_append s.delivered _ h3, ← h1]
    simp [List.append_assoc]
  rw [this]
  exact List.prefix_append _ _

end Reader
end Sqlgrep
